/-
  Model for property C18 (determinism, independence of thread scheduling).   Import-free.

  Part 1 — the parallel batch walk.
  `consist/locomotive/loco_sim.rs`, `LocomotiveSimulationVec::walk(parallelize)`:

      self.0.par_iter_mut().enumerate().try_for_each(|(i, loco_sim)|
          loco_sim.walk().map_err(|err| err.context(format!("loco_sim idx:{}", i))))?      -- parallel
      self.0.iter_mut().enumerate().try_for_each(|(i, loco_sim)| … same closure …)?          -- serial

  What the code DOES (not an idealisation):
    * the closure receives `&mut` to exactly ONE element and its index, nothing else; an element whose
      `walk()` fails is left in its mid-walk (mutated) state — hence `walk : ε → ε × Option χ`
      (new state, maybe an error), NOT `ε → Except χ ε`;
    * the serial `try_for_each` stops at the first error in index order: later elements stay untouched;
    * rayon's `try_for_each` visits the elements in an unspecified order on an unspecified number of
      workers; once some element has produced an error, workers stop taking NEW elements, but elements
      already in flight are completed (and may fail as well); which of several errors is returned is
      unspecified.  Without an error every element is visited exactly once.
  A SCHEDULE abstracts one such execution: `order` is the order in which the workers would take the
  elements (any arrangement of the indices, each once), `stop` is how many of them were actually
  taken before everybody stopped.  `Sched.admissible` is rayon's contract: stopping early is possible
  only if one of the processed elements failed.  The serial loop is the schedule
  `order = 0,1,…,n-1`, `stop = (index of the first failing element) + 1`.

  Part 2 — hash-order iteration sites.  Small list functions standing for the iterations over
  std `HashMap`/`HashSet` in the crate (the list is the container's entries in ITERATION ORDER, which
  varies with the per-process hash seed), and the vocabulary of the generated inventory
  `Generated/OrderSites.lean` (written by /verif/scan/scan_order_sites.py on every check).
-/
namespace Altrios.Par

/-! ## Part 1: schedules -/

section
variable {ε χ : Type}

/-- effect of `LocomotiveSimulation::walk` on one element: the state it is left in and the error, if any -/
abbrev Walk (ε χ : Type) := ε → ε × Option χ

/-- run state: the batch, and the errors produced so far as `(element index, error)` in the order they
    were produced -/
abbrev St (ε χ : Type) := List ε × List (Nat × χ)

/-- one worker takes element `i`: it is walked in place; nothing else is touched -/
def stepAt (walk : Walk ε χ) (st : St ε χ) (i : Nat) : St ε χ :=
  match st.1[i]? with
  | none => st              -- not an index of this batch (excluded by `Sched.admissible`)
  | some e =>
    match walk e with
    | (e', none) => (st.1.set i e', st.2)
    | (e', some err) => (st.1.set i e', st.2 ++ [(i, err)])

structure Sched where
  /-- the order in which elements would be taken -/
  order : List Nat
  /-- how many were taken before all workers stopped -/
  stop : Nat
  deriving Repr

/-- the elements actually walked -/
def Sched.processed (s : Sched) : List Nat := s.order.take s.stop

def runSchedule (walk : Walk ε χ) (batch : List ε) (s : Sched) : St ε χ :=
  s.processed.foldl (stepAt walk) (batch, [])

def fails (walk : Walk ε χ) (e : ε) : Bool := (walk e).2.isSome

def failsAt (walk : Walk ε χ) (batch : List ε) (i : Nat) : Bool :=
  match batch[i]? with
  | some e => fails walk e
  | none => false

def nodupB : List Nat → Bool
  | [] => true
  | x :: xs => !xs.contains x && nodupB xs

/-- `order` is an arrangement of `0 … n-1` -/
def isArrangement (n : Nat) (order : List Nat) : Bool :=
  nodupB order && order.all (fun i => decide (i < n)) && (List.range n).all (fun i => order.contains i)

/-- rayon's contract for `try_for_each`: every element is offered once; the run may stop early only
    after one of the walked elements has failed -/
def Sched.admissible (walk : Walk ε χ) (batch : List ε) (s : Sched) : Bool :=
  isArrangement batch.length s.order &&
  (decide (s.order.length ≤ s.stop) || s.processed.any (failsAt walk batch))

/-! ### the serial loop, written as the loop it is -/

/-- `iter_mut().enumerate().try_for_each(..)`: stop at the first error; `k` = index of the head -/
def serialGo (walk : Walk ε χ) (k : Nat) : List ε → List ε × Option (Nat × χ)
  | [] => ([], none)
  | e :: es =>
    match walk e with
    | (e', some err) => (e' :: es, some (k, err))
    | (e', none) =>
      let r := serialGo walk (k + 1) es
      (e' :: r.1, r.2)

def runSerial (walk : Walk ε χ) (batch : List ε) : List ε × Option (Nat × χ) := serialGo walk 0 batch

def firstFail (walk : Walk ε χ) : List ε → Option Nat
  | [] => none
  | e :: es => if fails walk e then some 0 else (firstFail walk es).map (· + 1)

/-- the schedule the serial loop follows -/
def serialSched (walk : Walk ε χ) (batch : List ε) : Sched :=
  ⟨List.range batch.length, match firstFail walk batch with | some k => k + 1 | none => batch.length⟩

/-! ### observations

  After a run of the real code one can see, for every element, whether it is in its walked state
  (`walk eᵢ`, successful or failed mid-way) or still the untouched input, and which element index the
  returned error names (`"loco_sim idx:{i}"`), if the call returned `Err`.  The schedule itself is not
  observable. -/

structure Obs where
  /-- `proc[i]`: element `i` is in its walked state -/
  proc : List Bool
  /-- index named by the returned error; `none` = the call returned `Ok` -/
  reported : Option Nat
  deriving Repr, BEq

def procVec (n : Nat) (s : Sched) : List Bool := (List.range n).map (fun i => s.processed.contains i)

/-- schedule `s` is admissible and produces observation `o` -/
def explains (walk : Walk ε χ) (batch : List ε) (s : Sched) (o : Obs) : Bool :=
  s.admissible walk batch && (o.proc == procVec batch.length s) &&
  (match o.reported with
   | none => (runSchedule walk batch s).2.isEmpty
   | some r => (runSchedule walk batch s).2.any (fun p => p.1 == r))

/-- indices observed as walked whose walk fails -/
def procFailing (walk : Walk ε χ) (batch : List ε) (proc : List Bool) : List Nat :=
  (List.range batch.length).filter (fun i => proc.getD i false && failsAt walk batch i)

/-- closed-form test: is there ANY admissible schedule producing `o`?  (`Proofs/C18.lean`:
    `explainable_iff`.)  No walked element failed: everything must have been walked and `Ok` returned;
    otherwise the reported index must be a walked failing element. -/
def explainable (walk : Walk ε χ) (batch : List ε) (o : Obs) : Bool :=
  (o.proc.length == batch.length) &&
  (match o.reported with
   | none => (procFailing walk batch o.proc).isEmpty && o.proc.all id
   | some r => (procFailing walk batch o.proc).contains r)

/-- the canonical schedule for an observation: walked indices first, then stop -/
def witness (o : Obs) : Sched :=
  let p := (List.range o.proc.length).filter (fun i => o.proc.getD i false)
  let u := (List.range o.proc.length).filter (fun i => !o.proc.getD i false)
  ⟨p ++ u, p.length⟩

end

/-! ### abstract elements used by the driver: an element is (id, fails?, status) -/

inductive Status where
  | untouched | done | failedMid
  deriving Repr, BEq, DecidableEq

structure AbsElem where
  id : Nat
  failing : Bool
  status : Status
  deriving Repr, BEq, DecidableEq

def absWalk : Walk AbsElem Nat := fun e =>
  if e.failing then ({ e with status := .failedMid }, some e.id) else ({ e with status := .done }, none)

def absBatch (failBits : List Bool) : List AbsElem :=
  (List.range failBits.length).map (fun i => ⟨i, failBits.getD i false, .untouched⟩)

def absObs (r : List AbsElem) (rep : Option Nat) : Obs :=
  ⟨r.map (fun e => e.status != .untouched), rep⟩

/-! ## Part 2: iteration over hash containers (entries given in iteration order) -/

/-- `TrainConfig::cars_total`: `self.n_cars_by_type.values().fold(0, |acc, n| *n + acc)` over `u32`
    (mathematical value) -/
def carsTotal (vals : List Nat) : Nat := vals.foldl (fun acc n => n + acc) 0

/-- the same fold with `u32` overflow checking (debug / `overflow-checks` builds panic): `none` = panic -/
def checkedAdd (max : Nat) (acc : Option Nat) (n : Nat) : Option Nat :=
  match acc with
  | none => none
  | some a => if n + a ≤ max then some (n + a) else none

def carsTotalChecked (max : Nat) (vals : List Nat) : Option Nat :=
  vals.foldl (checkedAdd max) (some 0)

/-- the same fold with wrapping arithmetic (release builds) -/
def carsTotalWrapping (modulus : Nat) (vals : List Nat) : Nat :=
  vals.foldl (fun acc n => (n + acc) % modulus) 0

/-- `extract_speed_set`: `speed_sets.iter().find(|&sps| sps.0 == &train_type)` -/
def findEntry {κ ν : Type} [BEq κ] (entries : List (κ × ν)) (k : κ) : Option (κ × ν) :=
  entries.find? (fun p => p.1 == k)

/-- `validate_slice_real(&mut errors, &self.values().collect::<Vec<_>>(), ..)`: the errors of every
    value, tagged with its position in iteration order -/
def validateSlice {ν μ : Type} (check : ν → List μ) : Nat → List ν → List (Nat × μ)
  | _, [] => []
  | k, v :: vs => (check v).map (fun m => (k, m)) ++ validateSlice check (k + 1) vs

/-- `errors.make_err()` is `Ok` iff no error was collected -/
def verdictOk {ν μ : Type} (check : ν → List μ) (vals : List ν) : Bool :=
  (validateSlice check 0 vals).isEmpty

/-- `a.difference(&b).collect::<Vec<_>>()` (in `a`'s iteration order) -/
def difference {κ : Type} [BEq κ] (a b : List κ) : List κ := a.filter (fun x => !b.contains x)

/-! ### vocabulary of the generated inventory -/

/-- which container the scanner resolved the receiver to -/
inductive Container where
  | stdHashMap | stdHashSet       -- per-process random seed (`RandomState`)
  | intMap | intSet               -- nohash-hasher: identity hash, no seed
  | rayon                         -- a rayon call
  | unresolved                    -- the scanner could not type the receiver but it looks like a hash container
  deriving Repr, BEq, DecidableEq

/-- why the result at a site does not depend on iteration / scheduling order -/
inductive Just where
  | unreviewed          -- nobody has looked at this site: the check breaks
  | findDistinctKeys    -- `C18_find_distinct_keys_perm`
  | natSumPerm          -- `C18_cars_total_perm`
  | verdictPerm         -- `C18_verdict_perm`
  | setCollectPerm      -- `C18_set_collect_perm` (a set is built; membership only)
  | diffEmptyPerm       -- `C18_difference_empty_perm` (only emptiness decides; the elements go into error text)
  | errorTextOnly       -- feeds the text of an error message only (messages are outside the property)
  | serdeMapOrder       -- serialization order of a map field; content is order-free: `C18_lookup_perm`
  | parElementwise      -- `C18_par_elementwise` & co. (closure touches only its own element)
  | seedlessHasher      -- identity hasher: iteration order is a function of the operation history (ASSUMED)
  deriving Repr, BEq, DecidableEq

structure Site where
  file : String
  line : Nat
  fn : String
  expr : String
  container : Container
  /-- element / fold type as written in the source -/
  elemTy : String
  /-- the statement accumulates (`fold`, `sum`, `product`, `reduce`, `+=` in a loop body, …) -/
  folds : Bool
  /-- the accumulated type is an integer type -/
  elemInt : Bool
  just : Just
  deriving Repr

/-- a justification is only meaningful for the kind of container it was written for (so that, e.g.,
    turning the `IntSet` of `add_new_join_paths` into a std `HashSet` invalidates `seedlessHasher`) -/
def Just.fits : Just → Container → Bool
  | .unreviewed, _ => false
  | .seedlessHasher, c => c == .intMap || c == .intSet
  | .parElementwise, c => c == .rayon
  | _, c => c == .stdHashMap || c == .stdHashSet

/-- reviewed, the justification fits the container, and — the rule of DESIGN.md §7.18 — no fold in
    hash / scheduling order over a non-integer type (float addition is not associative; no field
    lemma can justify it).  The order of a seedless container is not hash-seed order. -/
def Site.ok (s : Site) : Bool :=
  s.just.fits s.container &&
  (!(s.folds && !s.elemInt) || s.container == .intMap || s.container == .intSet)

end Altrios.Par
