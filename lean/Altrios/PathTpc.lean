import Altrios.Num
import Altrios.SpeedPoints
/-
  Model of `track/path_track/path_tpc.rs`: `PathTpc::new`, `extend`, `finish`, `extract_speed_set`,
  and the count cross-checks of `ObjState for PathTpc`.        Properties C06 (and C02/C13 via add_speeds).

  Literal: `network[idx]` is a checked access (`panic`), `ensure!`/`?` are `err`.
  On `Err` the Rust object is left partially extended; the model returns only the error.
-/
namespace Altrios.Tpc
open Altrios Altrios.SP

structure Elev (α : Type) where
  off : α
  elev : α
  deriving Repr, BEq

structure Heading (α : Type) where
  off : α
  heading : α
  deriving Repr, BEq

structure CatLim (α : Type) where
  s : α
  e : α
  p : α
  /-- district id (an opaque label, copied through) -/
  district : Option Nat
  deriving Repr, BEq

structure SpeedSet (α : Type) where
  isHeadEnd : Bool
  params : List (SParam α)
  lims : List (Lim α)

structure Link (α : Type) where
  idxCurr : Nat
  idxPrev : Nat
  idxPrevAlt : Nat
  idxNext : Nat
  idxNextAlt : Nat
  length : α
  elevs : List (Elev α)
  headings : List (Heading α)
  speedSet : Option (SpeedSet α)
  /-- `speed_sets: HashMap<TrainType, SpeedSet>` as an association list (keys distinct) -/
  speedSets : List (Nat × SpeedSet α)
  cats : List (CatLim α)

structure PRC (α : Type) where
  off : α
  coeff : α
  net : α
  deriving Repr, BEq

structure LinkPt (α : Type) where
  off : α
  gradeCount : Nat
  curveCount : Nat
  catCount : Nat
  linkIdx : Nat
  deriving Repr, BEq

structure TrainPar (α : Type) where
  tp : TrainP α
  trainType : Nat
  c0 : α
  c1 : α
  c2 : α

structure Tpc (α : Type) where
  linkPoints : List (LinkPt α)
  grades : List (PRC α)
  curves : List (PRC α)
  speedPoints : List (Pt α)
  cats : List (CatLim α)
  par : TrainPar α
  isFinished : Bool

/-- unit constants used by the curve-resistance formula -/
structure GeoConsts (α : Type) where
  rev : α        -- uc::REV
  two : α        -- 2.0
  deg : α        -- uc::DEG
  ft100 : α      -- uc::FT * 100.0
  radpm : α      -- uc::RADPM (1.0)

section
variable {α : Type} [Add α] [Sub α] [Mul α] [Div α] [Neg α] [LT α] [LE α]
  [DecidableLT α] [DecidableLE α] [OfNat α 0] [OfNat α 1]

/-- `PathTpc::new(train_params)` -/
def new (par : TrainPar α) : Tpc α :=
  { linkPoints := [⟨0, 0, 0, 0, 0⟩], grades := [⟨0, 0, 0⟩], curves := [⟨0, 0, 0⟩],
    speedPoints := [⟨0, par.tp.speedMax⟩], cats := [], par := par, isFinished := false }

def getL {β : Type} (l : List β) (i : Nat) : Res β :=
  match l[i]? with
  | some v => .ok v
  | none => .panic "index"

def lastR {β : Type} (l : List β) : Res β :=
  match l.getLast? with
  | some v => .ok v
  | none => .panic "unwrap-none"

/-- `extract_speed_set` -/
def extractSpeedSet (l : Link α) (trainType : Nat) : Res (SpeedSet α) :=
  match l.speedSet with
  | some s => .ok s
  | none =>
    match l.speedSets.find? (fun kv => kv.1 == trainType) with
    | some kv => .ok kv.2
    | none => .err "no-speed-set"

/-- `x % y` (C `fmod`) for `-y < x < 2y`, the only range validated headings can produce:
    exact in binary64 (no rounding: identity or a Sterbenz subtraction). -/
def fmodSmall (x y : α) : α := if x < 0 then x else if x < y then x else x - y

/-- curve resistance coefficient of one heading segment (the three-coefficient formula) -/
def curveCoeff (g : GeoConsts α) (par : TrainPar α) (dh len : α) : α :=
  let m := fmodSmall (dh + g.rev / g.two) g.rev
  -- `%` keeps the sign of the dividend: the remainder is brought into [0, REV)
  let m := if m < 0 then m + g.rev else m
  let curvature := absv (-g.rev / g.two + m) / len
  let oneDegree := g.deg / g.ft100
  (if curvature < oneDegree then par.c0 * curvature
   else par.c0 * oneDegree + par.c1 * (curvature - oneDegree)
        + par.c2 * (curvature - oneDegree) * (curvature - oneDegree) / g.radpm) / g.radpm

/-- replace the last element -/
def setLast {β : Type} (l : List β) (f : β → β) : List β :=
  match l.reverse with
  | [] => []
  | x :: xs => (f x :: xs).reverse

/-- grades of one link appended behind the existing ones (second loop of `extend`) -/
def pushGrades (grades : List (PRC α)) (base resNet : α) : List (Elev α) → List (PRC α) × α
  | p :: c :: t =>
    let grade := (c.elev - p.elev) / (c.off - p.off)
    let net := resNet + c.elev - p.elev
    let grades := setLast grades (fun g => { g with coeff := grade }) ++ [⟨base + c.off, 0, net⟩]
    pushGrades grades base net (c :: t)
  | _ => (grades, resNet)

def pushCurves (g : GeoConsts α) (par : TrainPar α) (curves : List (PRC α)) (base resNet : α) :
    List (Heading α) → List (PRC α) × α
  | p :: c :: t =>
    let len := c.off - p.off
    let coeff := curveCoeff g par (c.heading - p.heading) len
    let net := resNet + coeff * len
    let curves := setLast curves (fun x => { x with coeff := coeff }) ++ [⟨base + c.off, 0, net⟩]
    pushCurves g par curves base net (c :: t)
  | _ => (curves, resNet)

/-- first loop of `extend`, one link: contiguity, speeds, link point -/
def extendLinkPoint (toU32 : α → Nat) (net : List (Link α)) (t : Tpc α) (idx : Nat) : Res (Tpc α) := do
  ensure (idx != 0) "link-idx-fake"
  let link ← getL net idx
  let lastLp ← lastR t.linkPoints
  let base := lastLp.off
  let n := t.linkPoints.length
  if n ≥ 2 then
    let prevLp ← getL t.linkPoints (n - 2)
    let prev := prevLp.linkIdx
    ensure (prev != 0) "prev-fake"
    ensure (link.idxPrev != link.idxPrevAlt || link.idxPrevAlt == 0) "prev-alt-dup"
    ensure (link.idxNext != link.idxNextAlt || link.idxNextAlt == 0) "next-alt-dup"
    ensure (link.idxPrev == prev || link.idxPrevAlt == prev) "not-contiguous"
  let ss ← extractSpeedSet link t.par.trainType
  let sp ← addSpeedsIdx toU32 t.speedPoints t.par.tp ss.params ss.isHeadEnd ss.lims base
  let lp : LinkPt α := { lastLp with linkIdx := link.idxCurr,
                                     gradeCount := (max link.elevs.length 2) - 1,
                                     curveCount := (max link.headings.length 2) - 1,
                                     catCount := link.cats.length }
  pure { t with speedPoints := sp,
                linkPoints := setLast t.linkPoints (fun _ => lp) ++ [⟨link.length + base, 0, 0, 0, 0⟩] }

/-- second loop of `extend`, one link: grades, curves, catenary -/
def extendGeometry (g : GeoConsts α) (net : List (Link α)) (t : Tpc α) (idx : Nat) : Res (Tpc α) := do
  let link ← getL net idx
  let lastG ← lastR t.grades
  let base := lastG.off
  let grades :=
    if link.elevs.isEmpty then t.grades ++ [⟨base + link.length, 0, lastG.net⟩]
    else (pushGrades t.grades base lastG.net link.elevs).1
  let lastC ← lastR t.curves
  let curves :=
    if link.headings.isEmpty then t.curves ++ [⟨base + link.length, 0, lastC.net⟩]
    else (pushCurves g t.par t.curves base lastC.net link.headings).1
  let cats := t.cats ++ link.cats.map (fun c => { c with s := base + c.s, e := base + c.e })
  pure { t with grades := grades, curves := curves, cats := cats }

def foldR {σ β : Type} (f : σ → β → Res σ) : σ → List β → Res σ
  | s, [] => .ok s
  | s, x :: xs => do let s' ← f s x; foldR f s' xs

/-- `PathTpc::extend(network, link_path)` -/
def extend (toU32 : α → Nat) (g : GeoConsts α) (net : List (Link α)) (t : Tpc α) (path : List Nat) : Res (Tpc α) := do
  ensure (!t.linkPoints.isEmpty) "link-points-empty"
  ensure (!t.grades.isEmpty) "grades-empty"
  ensure (!t.curves.isEmpty) "curves-empty"
  ensure (!t.speedPoints.isEmpty) "speed-points-empty"
  -- initial elevation when the first link is added
  let t ← (if t.grades.length == 1 && !path.isEmpty then do
      let first ← getL path 0
      let l ← getL net first
      match l.elevs.head? with
      | some e => pure { t with grades := setLast t.grades (fun x => { x with net := e.elev }) }
      | none => pure t
    else pure t)
  let t ← foldR (extendLinkPoint toU32 net) t path
  foldR (extendGeometry g net) t path

/-- value of a piecewise-linear profile point at `x`: `res_net + res_coeff * (x - offset)` -/
def prcVal (p : PRC α) (x : α) : α := p.net + p.coeff * (x - p.off)

/-- the count cross-checks of `ObjState for PathTpc` -/
def countsConsistent (t : Tpc α) : Bool :=
  let lps := t.linkPoints.dropLast
  (lps.foldl (fun a p => a + p.gradeCount) 0) + 1 == t.grades.length &&
  (lps.foldl (fun a p => a + p.curveCount) 0) + 1 == t.curves.length &&
  (lps.foldl (fun a p => a + p.catCount) 0) == t.cats.length

end
end Altrios.Tpc
