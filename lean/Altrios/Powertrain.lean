import Altrios.Num
import Altrios.Interp
/-
  Model of the locomotive powertrain components and the two modelled locomotive types:
    powertrain/fuel_converter.rs, generator.rs, electric_drivetrain.rs,
    reversible_energy_storage.rs, conventional_loco.rs, battery_electric_loco.rs,
    locomotive_model.rs (solve_energy_consumption, set_pwr_aux, set_cur_pwr_max_out).
  Properties C01, C08, C09 (and C10/C11 through Consist.lean).

  A `&mut self` method is a function returning the new record.  On `Err` the Rust object is left
  partially updated; the simulation aborts there, so the model returns only the error.
-/
namespace Altrios.PT
open Altrios Altrios.Interp

/-- the numeric literals the code uses, fixed by the instantiation (Float: the same doubles) -/
structure Consts (α : Type) where
  tol : α        -- TOL = 1e-3 (fuel_converter.rs, reversible_energy_storage.rs)
  eps : α        -- 1e-8 (default epsilon of utils::almost_eq)
  c005 : α       -- 0.05 (default SOC ramp width)
  ten : α        -- 10.

structure FCState (α : Type) where
  pwrOutMax : α
  eta : α
  pwrBrake : α
  pwrFuel : α
  pwrLoss : α
  pwrIdleFuel : α
  energyBrake : α
  energyFuel : α
  energyLoss : α
  energyIdleFuel : α
  engineOn : Bool
  deriving Repr

structure FC (α : Type) where
  state : FCState α
  pwrOutMax : α
  pwrOutMaxInit : α
  pwrRampLag : α
  fracInterp : List α
  etaInterp : List α
  pwrIdleFuel : α
  deriving Repr

structure GenState (α : Type) where
  eta : α
  pwrElecPropOutMax : α
  pwrElecOutMax : α
  pwrRateOutMax : α
  pwrMechIn : α
  pwrElecPropOut : α
  pwrElecAux : α
  pwrLoss : α
  energyMechIn : α
  energyElecPropOut : α
  energyElecAux : α
  energyLoss : α
  deriving Repr

structure Gen (α : Type) where
  state : GenState α
  pwrOutMax : α
  fracInterp : List α       -- pwr_out_frac_interp
  etaInterp : List α
  inFracInterp : List α     -- pwr_in_frac_interp (serde(skip) cache, rebuilt lazily)
  deriving Repr

structure EdrvState (α : Type) where
  eta : α
  pwrMechOutMax : α
  pwrMechRegenMax : α
  pwrRateOutMax : α
  pwrOutReq : α
  pwrElecPropIn : α
  pwrMechPropOut : α
  pwrMechDynBrake : α
  pwrElecDynBrake : α
  pwrLoss : α
  energyElecPropIn : α
  energyMechPropOut : α
  energyMechDynBrake : α
  energyElecDynBrake : α
  energyLoss : α
  deriving Repr

structure Edrv (α : Type) where
  state : EdrvState α
  pwrOutMax : α
  fracInterp : List α
  etaInterp : List α
  inFracInterp : List α
  deriving Repr

structure ResState (α : Type) where
  pwrPropOutMax : α
  pwrRegenOutMax : α
  pwrDischMax : α
  pwrChargeMax : α
  soc : α
  eta : α
  pwrOutElectrical : α
  pwrOutPropulsion : α
  pwrAux : α
  pwrLoss : α
  pwrOutChemical : α
  energyOutElectrical : α
  energyOutPropulsion : α
  energyAux : α
  energyLoss : α
  energyOutChemical : α
  maxSoc : α
  socHiRampStart : α
  minSoc : α
  socLoRampStart : α
  temperature : α
  deriving Repr

structure RES (α : Type) where
  state : ResState α
  pwrOutMax : α
  energyCapacity : α
  /-- `energy_capacity.get::<si::watt_hour>()` — unit conversion done by `uom`, passed in -/
  capWh : α
  minSoc : α
  maxSoc : α
  socHiRampStart : Option α
  socLoRampStart : Option α
  gridT : List α
  gridSoc : List α
  gridC : List α
  etaVals : List (List (List α))
  deriving Repr

section
variable {α : Type} [Add α] [Sub α] [Mul α] [Div α] [Neg α] [LT α] [LE α]
  [DecidableLT α] [DecidableLE α] [OfNat α 0] [OfNat α 1]

/-! ### FuelConverter -/

/-- `FuelConverter::set_cur_pwr_out_max(dt)`; note the write-back into the parameter
    `pwr_out_max_init`. -/
def fcSetCurMax (k : Consts α) (fc : FC α) (dt : α) : Res (FC α) := do
  ensure (decide (0 < dt)) "dt"
  let init' := mx fc.pwrOutMaxInit (fc.pwrOutMax / k.ten)
  let cur := mx (mn (fc.state.pwrBrake + (fc.pwrOutMax / fc.pwrRampLag) * dt) fc.pwrOutMax) init'
  pure { fc with pwrOutMaxInit := init', state := { fc.state with pwrOutMax := cur } }

/-- `FuelConverter::solve_energy_consumption(pwr_out_req, dt, engine_on, assert_limits)` -/
def fcSolve (k : Consts α) (fc : FC α) (req dt : α) (engineOn assertLimits : Bool) : Res (FC α) := do
  if assertLimits then
    ensure (almostLe req fc.pwrOutMax k.tol) "fc-static-max"
    ensure (almostLe req fc.state.pwrOutMax k.tol) "fc-transient-max"
  ensure (decide (0 ≤ req)) "fc-neg"
  let eta ← interp1d (req / fc.pwrOutMax) fc.fracInterp fc.etaInterp
  -- `ensure!(eta >= 0 || eta <= 1)` can never fail
  let idle := if engineOn then fc.pwrIdleFuel else 0
  ensure (engineOn || eqb req 0) "fc-off-nonzero"
  let pwrFuel := req / eta + idle
  let pwrLoss := pwrFuel - req
  let s := fc.state
  let s' : FCState α := { s with
    pwrBrake := req, eta := eta, engineOn := engineOn, pwrIdleFuel := idle,
    pwrFuel := pwrFuel, pwrLoss := pwrLoss,
    energyBrake := s.energyBrake + req * dt,
    energyFuel := s.energyFuel + pwrFuel * dt,
    energyLoss := s.energyLoss + pwrLoss * dt,
    energyIdleFuel := s.energyIdleFuel + idle * dt }
  ensure (decide (0 ≤ s'.energyLoss)) "fc-energy-loss-neg"
  pure { fc with state := s' }

/-! ### Generator -/

/-- `pwr_out_frac_interp.zip(eta_interp).map(|(x, y)| x / y)` -/
def inFrac (frac eta : List α) : List α := List.zipWith (fun x y => x / y) frac eta

def strictlyIncreasing : List α → Bool
  | a :: b :: t => decide (a < b) && strictlyIncreasing (b :: t)
  | _ => true

/-- `set_pwr_in_frac_interp` when the cache is empty -/
def ensureInFrac (cache frac eta : List α) : Res (List α) :=
  if cache.isEmpty then
    let v := inFrac frac eta
    if strictlyIncreasing v then .ok v else .err "in-frac-monotone"
  else .ok cache

/-- `Generator::set_cur_pwr_max_out(pwr_in_max, Some(pwr_aux))` -/
def genSetCurMax (g : Gen α) (pwrInMax aux : α) : Res (Gen α) := do
  let cache ← ensureInFrac g.inFracInterp g.fracInterp g.etaInterp
  let eta ← interp1d (absv (pwrInMax / g.pwrOutMax)) cache g.etaInterp
  let outMax := mn (pwrInMax * eta) g.pwrOutMax
  pure { g with inFracInterp := cache,
                state := { g.state with pwrElecOutMax := outMax, pwrElecPropOutMax := outMax - aux } }

/-- `set_pwr_rate_out_max` (generator and drivetrain share the body) -/
def rateOut (eta rateIn : α) : α := rateIn * (if 0 < eta then eta else 1)

/-- `Generator::set_pwr_in_req(pwr_prop_req, pwr_aux, dt)` -/
def genReq (g : Gen α) (prop aux dt : α) : Res (Gen α) := do
  ensure (decide (0 ≤ prop)) "gen-neg"
  ensure (decide (prop + aux ≤ g.pwrOutMax)) "gen-max"
  let eta ← interp1d (absv (prop / g.pwrOutMax)) g.fracInterp g.etaInterp
  let s := g.state
  let mechIn := (prop + aux) / eta
  let loss := mechIn - (prop + aux)
  pure { g with state := { s with
    eta := eta, pwrElecPropOut := prop, pwrElecAux := aux, pwrMechIn := mechIn, pwrLoss := loss,
    energyElecPropOut := s.energyElecPropOut + prop * dt,
    energyElecAux := s.energyElecAux + aux * dt,
    energyMechIn := s.energyMechIn + mechIn * dt,
    energyLoss := s.energyLoss + loss * dt } }

/-! ### ElectricDrivetrain -/

/-- `ElectricDrivetrain::set_cur_pwr_max_out(pwr_in_max, None)` -/
def edrvSetCurMax (e : Edrv α) (pwrInMax : α) : Res (Edrv α) := do
  let cache ← ensureInFrac e.inFracInterp e.fracInterp e.etaInterp
  let eta ← interp1d (absv (pwrInMax / e.pwrOutMax)) cache e.etaInterp
  pure { e with inFracInterp := cache,
                state := { e.state with pwrMechOutMax := mn e.pwrOutMax (pwrInMax * eta) } }

/-- `ElectricDrivetrain::set_cur_pwr_regen_max(pwr_max_regen_in)` -/
def edrvSetRegenMax (e : Edrv α) (regenIn : α) : Res (Edrv α) := do
  let cache ← ensureInFrac e.inFracInterp e.fracInterp e.etaInterp
  let eta ← interp1d (absv (regenIn / e.pwrOutMax)) e.fracInterp e.etaInterp
  let r := mn (regenIn * eta) e.pwrOutMax
  ensure (decide (0 ≤ r)) "edrv-regen-neg"
  pure { e with inFracInterp := cache, state := { e.state with pwrMechRegenMax := r } }

/-- `ElectricDrivetrain::set_pwr_in_req(pwr_out_req, dt)` -/
def edrvReq (e : Edrv α) (req dt : α) : Res (Edrv α) := do
  ensure (decide (req ≤ e.pwrOutMax)) "edrv-max"
  let eta ← interp1d (absv (req / e.pwrOutMax)) e.fracInterp e.etaInterp
  let s := e.state
  let prop := mx req (-s.pwrMechRegenMax)
  let dyn := -(req - prop)
  ensure (decide (0 ≤ dyn)) "edrv-dyn-neg"
  let elecIn := if 0 < req then prop / eta else prop * eta
  let elecDyn := dyn * eta
  let loss := absv (prop - elecIn)
  pure { e with state := { s with
    pwrOutReq := req, eta := eta, pwrMechPropOut := prop, pwrMechDynBrake := dyn,
    pwrElecPropIn := elecIn, pwrElecDynBrake := elecDyn, pwrLoss := loss,
    energyMechPropOut := s.energyMechPropOut + prop * dt,
    energyMechDynBrake := s.energyMechDynBrake + dyn * dt,
    energyElecPropIn := s.energyElecPropIn + elecIn * dt,
    energyElecDynBrake := s.energyElecDynBrake + elecDyn * dt,
    energyLoss := s.energyLoss + loss * dt } }

/-! ### ReversibleEnergyStorage -/

/-- `ReversibleEnergyStorage::set_cur_pwr_out_max(pwr_aux, None, None)`
    (the locomotive passes no buffers: `unwrap_or_default()` gives 0 J) -/
def resSetCurMax (k : Consts α) (r : RES α) (aux : α) (chargeBuf dischBuf : α) : Res (RES α) := do
  let hi := match r.socHiRampStart with | some v => v | none => r.maxSoc - k.c005
  let lo := match r.socLoRampStart with | some v => v | none => r.minSoc + k.c005
  let s := r.state
  let sLo := mn (lo + chargeBuf / r.energyCapacity) r.maxSoc
  let sMin := mn (r.minSoc + chargeBuf / r.energyCapacity) r.maxSoc
  let sHi := mx (hi - dischBuf / r.energyCapacity) r.minSoc
  let sMax := mx (r.maxSoc - dischBuf / r.energyCapacity) r.minSoc
  let disch ← interp1d s.soc [sMin, sLo] [0, r.pwrOutMax]
  let charge ← interp1d s.soc [sHi, sMax] [r.pwrOutMax, 0]
  let s' : ResState α := { s with
    socLoRampStart := sLo, minSoc := sMin, socHiRampStart := sHi, maxSoc := sMax,
    pwrDischMax := disch, pwrChargeMax := charge,
    pwrPropOutMax := disch - aux, pwrRegenOutMax := charge + aux }
  pure { r with socHiRampStart := (some hi), socLoRampStart := (some lo), state := s' }

/-- `ReversibleEnergyStorage::solve_energy_consumption(pwr_prop_req, pwr_aux_req, dt)`;
    `interp3d(..).unwrap()` turns an interpolation error into a panic. -/
def resSolve (k : Consts α) (r : RES α) (prop aux dt : α) : Res (RES α) := do
  let s := r.state
  ensure (decide (s.soc ≤ s.maxSoc) || decide (0 ≤ prop)) "res-over-max-soc"
  ensure (decide (s.minSoc ≤ s.soc) || decide (prop ≤ 0)) "res-below-min-soc"
  let elec := prop + aux
  if 0 ≤ elec then
    ensure (almostLe elec r.pwrOutMax k.tol) "res-static-disch"
    ensure (almostLe elec s.pwrDischMax k.tol) "res-transient-disch"
  else
    ensure (almostGe elec (-r.pwrOutMax) k.tol) "res-static-charge"
    ensure (almostGe elec (-s.pwrChargeMax) k.tol) "res-transient-charge"
  let cRate := elec / r.capWh
  let eta ← (match interp3d s.temperature s.soc cRate r.gridT r.gridSoc r.gridC r.etaVals with
             | .ok v => Res.ok v
             | .err _ => .panic "unwrap"
             | .panic m => .panic m)
  let chem := if 0 < elec then elec / eta else elec * eta
  let loss := absv (chem - elec)
  pure { r with state := { s with
    pwrOutPropulsion := prop, pwrAux := aux, pwrOutElectrical := elec, eta := eta,
    pwrOutChemical := chem, pwrLoss := loss,
    energyOutPropulsion := s.energyOutPropulsion + prop * dt,
    energyAux := s.energyAux + aux * dt,
    energyOutElectrical := s.energyOutElectrical + elec * dt,
    energyOutChemical := s.energyOutChemical + chem * dt,
    energyLoss := s.energyLoss + loss * dt,
    soc := s.soc - chem * dt / r.energyCapacity } }

/-! ### Locomotives -/

structure LocoState (α : Type) where
  pwrOutMax : α
  pwrRateOutMax : α
  pwrRegenMax : α
  pwrOut : α
  pwrAux : α
  energyOut : α
  energyAux : α
  deriving Repr

inductive Powertrain (α : Type) where
  | conv (fc : FC α) (gen : Gen α) (edrv : Edrv α)
  | bel (res : RES α) (edrv : Edrv α)
  deriving Repr

structure Loco (α : Type) where
  pt : Powertrain α
  state : LocoState α
  assertLimits : Bool
  pwrAuxOffset : α
  pwrAuxTractionCoeff : α
  deriving Repr

def Powertrain.edrv : Powertrain α → Edrv α
  | .conv _ _ e => e
  | .bel _ e => e

def Powertrain.isBel : Powertrain α → Bool
  | .conv .. => false
  | .bel .. => true

/-- `ConventionalLoco::solve_energy_consumption` -/
def convSolve (k : Consts α) (fc : FC α) (gen : Gen α) (edrv : Edrv α)
    (req dt : α) (engineOn : Bool) (aux : α) (assertLimits : Bool) : Res (Powertrain α) := do
  let edrv ← edrvReq edrv req dt
  let gen ← genReq gen edrv.state.pwrElecPropIn (if engineOn then aux else 0) dt
  ensure (decide (0 ≤ gen.state.pwrMechIn)) "conv-mech-neg"
  let fc ← fcSolve k fc gen.state.pwrMechIn dt engineOn assertLimits
  pure (.conv fc gen edrv)

/-- `BatteryElectricLoco::solve_energy_consumption` -/
def belSolve (k : Consts α) (res : RES α) (edrv : Edrv α) (req dt aux : α) : Res (Powertrain α) := do
  let edrv ← edrvReq edrv req dt
  let pin := edrv.state.pwrElecPropIn
  let res ← (if 0 < pin then resSolve k res pin aux dt
             else resSolve k res pin (mx (mn aux (res.state.pwrPropOutMax - pin)) 0) dt)
  pure (.bel res edrv)

/-- `Locomotive::set_pwr_aux(engine_on)` -/
def locoSetAux (l : Loco α) (engineOn : Option Bool) : Loco α :=
  let aux := if engineOn.getD true then l.pwrAuxOffset + l.pwrAuxTractionCoeff * absv l.state.pwrOut else 0
  { l with state := { l.state with pwrAux := aux } }

/-- `Locomotive::set_cur_pwr_max_out(None, dt)` (with the type-specific bodies inlined) -/
def locoSetCurMax (k : Consts α) (l : Loco α) (dt : α) : Res (Loco α) := do
  let aux := l.state.pwrAux
  match l.pt with
  | .conv fc gen edrv =>
    let fc ← fcSetCurMax k fc dt
    let gen ← genSetCurMax gen fc.state.pwrOutMax aux
    let edrv ← edrvSetCurMax edrv gen.state.pwrElecPropOutMax
    let gen := { gen with state := { gen.state with
      pwrRateOutMax := rateOut gen.state.eta (fc.pwrOutMax / fc.pwrRampLag) } }
    let edrv := { edrv with state := { edrv.state with
      pwrRateOutMax := rateOut edrv.state.eta gen.state.pwrRateOutMax } }
    -- `assert_eq!(self.state.pwr_regen_max, 0)`
    if !(eqb edrv.state.pwrMechRegenMax 0) then .panic "conv-regen-nonzero" else
    pure { l with pt := .conv fc gen edrv,
                  state := { l.state with
                    pwrOutMax := edrv.state.pwrMechOutMax,
                    pwrRateOutMax := edrv.state.pwrRateOutMax,
                    pwrRegenMax := edrv.state.pwrMechRegenMax } }
  | .bel res edrv =>
    let res ← resSetCurMax k res aux 0 0
    let edrv ← edrvSetCurMax edrv res.state.pwrPropOutMax
    let edrv ← edrvSetRegenMax edrv res.state.pwrRegenOutMax
    let edrv := { edrv with state := { edrv.state with
      pwrRateOutMax := rateOut edrv.state.eta
        ((edrv.state.pwrMechOutMax - edrv.state.pwrMechPropOut) / dt) } }
    pure { l with pt := .bel res edrv,
                  state := { l.state with
                    pwrOutMax := edrv.state.pwrMechOutMax,
                    pwrRateOutMax := edrv.state.pwrRateOutMax,
                    pwrRegenMax := edrv.state.pwrMechRegenMax } }

/-- `Locomotive::solve_energy_consumption(pwr_out_req, dt, engine_on)` -/
def locoSolve (k : Consts α) (l : Loco α) (req dt : α) (engineOn : Option Bool) : Res (Loco α) := do
  let pt ← (match l.pt with
    | .conv fc gen edrv => convSolve k fc gen edrv req dt (engineOn.getD true) l.state.pwrAux l.assertLimits
    | .bel res edrv => belSolve k res edrv req dt l.state.pwrAux)
  let e := pt.edrv
  let pwrOut := e.state.pwrMechPropOut - e.state.pwrMechDynBrake
  pure { l with pt := pt,
                state := { l.state with
                  pwrOut := pwrOut,
                  energyOut := l.state.energyOut + pwrOut * dt,
                  energyAux := l.state.energyAux + l.state.pwrAux * dt } }

/-- `LocomotiveSimulation::solve_step` for one trace sample -/
def locoSimStep (k : Consts α) (l : Loco α) (req dt : α) (engineOn : Option Bool) : Res (Loco α) := do
  let l := locoSetAux l engineOn
  let l ← locoSetCurMax k l dt
  let l ← locoSolve k l req dt engineOn
  ensure (almostEq req l.state.pwrOut k.eps) "loco-sim-pwr-mismatch"
  pure l

end
end Altrios.PT
