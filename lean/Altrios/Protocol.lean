/-
  Line protocol shared by the Rust harness and the Lean driver (DESIGN.md Appendix A).
  A line is `<case-id> <op> <tok>*`.  Tokens:
    xHHHHHHHHHHHHHHHH   an f64 by bit pattern
    decimal integers    (possibly negative)
    T / F               booleans
    N / S <tok…>        Option
    [ n t₁ … tₙ         sequence: the literal token `[`, a length, then the elements
    bare words          enum tags
-/
namespace Altrios.Proto

abbrev P := StateT (List String) (Except String)

def next : P String := do
  match (← get) with
  | [] => throw "eof"
  | t :: ts => set ts; pure t

def hexVal (c : Char) : Option Nat :=
  if '0' ≤ c ∧ c ≤ '9' then some (c.toNat - '0'.toNat)
  else if 'a' ≤ c ∧ c ≤ 'f' then some (c.toNat - 'a'.toNat + 10)
  else none

def parseHex (cs : List Char) : Option Nat :=
  cs.foldl (fun acc c => do let a ← acc; let v ← hexVal c; pure (a * 16 + v)) (some 0)

def float : P Float := do
  let t ← next
  match t.toList with
  | 'x' :: cs =>
    match parseHex cs with
    | some n => pure (Float.ofBits n.toUInt64)
    | none => throw s!"bad float {t}"
  | _ => throw s!"bad float {t}"

def nat : P Nat := do
  let t ← next
  match t.toNat? with
  | some n => pure n
  | none => throw s!"bad nat {t}"

def int : P Int := do
  let t ← next
  match t.toInt? with
  | some n => pure n
  | none => throw s!"bad int {t}"

def bool : P Bool := do
  let t ← next
  if t == "T" then pure true else if t == "F" then pure false else throw s!"bad bool {t}"

def word : P String := next

def opt {τ} (p : P τ) : P (Option τ) := do
  let t ← next
  if t == "N" then pure none
  else if t == "S" then (some <$> p)
  else throw s!"bad option {t}"

def rep {τ} (p : P τ) : Nat → P (List τ)
  | 0 => pure []
  | n + 1 => do let x ← p; let xs ← rep p n; pure (x :: xs)

def seq {τ} (p : P τ) : P (List τ) := do
  let t ← next
  if t != "[" then throw s!"expected [ got {t}"
  let n ← nat
  rep p n

/-! Output side -/

def hexDigit (n : Nat) : Char :=
  if n < 10 then Char.ofNat ('0'.toNat + n) else Char.ofNat ('a'.toNat + (n - 10))

def hex16 (n : Nat) : String :=
  String.ofList ((List.range 16).map (fun i => hexDigit ((n >>> (4 * (15 - i))) % 16)))

/-- Floats are printed by bit pattern; `-0.0` is printed as `+0.0` and every NaN as one
    canonical NaN (both sides do this; see DESIGN.md §2.3). -/
def fF (x : Float) : String :=
  if x.isNaN then "xNaN"
  else if x == 0.0 then "x0000000000000000"
  else "x" ++ hex16 x.toBits.toNat

def fB (b : Bool) : String := if b then "T" else "F"
def fN (n : Nat) : String := toString n
def fI (n : Int) : String := toString n
def fOpt {τ} (f : τ → String) : Option τ → String
  | none => "N"
  | some x => "S " ++ f x
def fSeq {τ} (f : τ → String) (l : List τ) : String :=
  l.foldl (fun acc x => acc ++ " " ++ f x) ("[ " ++ toString l.length)

def join (l : List String) : String := " ".intercalate l

end Altrios.Proto
