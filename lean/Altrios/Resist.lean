import Altrios.Num
import Altrios.PathTpc
/-
  Model of `lin_search_hint.rs` (`calc_idx`), `train/resistance/kind/*.rs`
  (`path_res::Strap::calc_res`, bearing / rolling / Davis-B / aerodynamic) and
  `train/resistance/method/strap.rs` (`Strap::update_res`).                   Property C07.
-/
namespace Altrios.Rs
open Altrios Altrios.Tpc

inductive Dir | unk | fwd | bwd
  deriving Repr, DecidableEq

/-- the part of `TrainState` the resistance model reads and writes -/
structure ResState (α : Type) where
  offset : α
  offsetBack : α
  speed : α
  length : α
  massStatic : α
  weightStatic : α
  resRolling : α
  resBearing : α
  resDavisB : α
  resAero : α
  resGrade : α
  resCurve : α
  gradeFront : α
  gradeBack : α
  elevFront : α
  deriving Repr

/-- cached indices of `path_res::Strap` -/
structure StrapIdx where
  front : Nat
  back : Nat
  deriving Repr, DecidableEq

/-- `method::Strap` -/
structure ResStrap (α : Type) where
  bearingForce : α
  rollingRatio : α
  davisB : α
  cdArea : α
  grade : StrapIdx
  curve : StrapIdx
  deriving Repr

section
variable {α : Type} [Add α] [Sub α] [Mul α] [Div α] [Neg α] [LT α] [LE α]
  [DecidableLT α] [DecidableLE α] [OfNat α 0] [OfNat α 1]

def getP (l : List (PRC α)) (i : Nat) : Res (PRC α) :=
  match l[i]? with
  | some v => .ok v
  | none => .panic "index"

/-- `while self[idx + 1].get_offset() < offset { idx += 1 }` -/
def scanFwd (pts : List (PRC α)) (x : α) : Nat → Nat → Res Nat
  | 0, _ => .panic "fuel"
  | f + 1, i => do
    let p ← getP pts (i + 1)
    if p.off < x then scanFwd pts x f (i + 1) else pure i

/-- `while offset < self[idx].get_offset() { idx -= 1 }` -/
def scanBwd (pts : List (PRC α)) (x : α) : Nat → Nat → Res Nat
  | 0, _ => .panic "fuel"
  | f + 1, i => do
    let p ← getP pts i
    if x < p.off then (if i = 0 then .panic "underflow" else scanBwd pts x f (i - 1)) else pure i

/-- `LinSearchHint::calc_idx(offset, idx, dir)` -/
def calcIdx (pts : List (PRC α)) (x : α) (idx : Nat) (dir : Dir) : Res Nat :=
  if dir ≠ .bwd then
    match pts.getLast? with
    | none => .panic "unwrap-none"
    | some l => if x ≤ l.off then scanFwd pts x (pts.length + 1) idx else .err "offset-beyond-last"
  else
    match pts.head? with
    | none => .panic "unwrap-none"
    | some h => if h.off ≤ x then scanBwd pts x (pts.length + 1) idx else .err "offset-before-first"

/-- `path_res::Strap::calc_res`: returns the new cached indices and the resistance COEFFICIENT
    (the caller multiplies by weight) -/
def strapCoeff (pts : List (PRC α)) (s : StrapIdx) (offset offsetBack length : α) (dir : Dir) :
    Res (StrapIdx × α) := do
  let s ← (match dir with
    | .fwd => do let f ← calcIdx pts offset s.front dir; pure { s with front := f }
    | .bwd => do let b ← calcIdx pts offsetBack s.back dir; pure { s with back := b }
    | .unk => do
      let f ← calcIdx pts offset s.front dir
      let b ← calcIdx pts offsetBack s.back dir
      pure (⟨f, b⟩ : StrapIdx))
  if s.front = s.back then do
    let p ← getP pts s.front
    pure (s, p.coeff)
  else do
    let s ← (match dir with
      | .fwd => do let b ← calcIdx pts offsetBack s.back dir; pure { s with back := b }
      | .bwd => do let f ← calcIdx pts offset s.front dir; pure { s with front := f }
      | .unk => pure s)
    let pf ← getP pts s.front
    let pb ← getP pts s.back
    -- `debug_assert!(state.length > 0)`
    if !(decide (0 < length)) then .panic "debug_assert" else
    pure (s, (prcVal pf offset - prcVal pb offsetBack) / length)

/-- `method::Strap::update_res(state, path_tpc, dir)`; `g` = ACC_GRAV, `rho` = rho_air() -/
def updateRes (g rho : α) (grades curves : List (PRC α)) (r : ResStrap α) (st : ResState α) (dir : Dir) :
    Res (ResStrap α × ResState α) := do
  let offsetBack := st.offset - st.length
  let weight := st.massStatic * g
  let resBearing := r.bearingForce
  let resRolling := r.rollingRatio * weight
  let resDavisB := r.davisB * st.speed * weight
  let resAero := r.cdArea * rho * st.speed * st.speed
  let (gi, gc) ← strapCoeff grades r.grade st.offset offsetBack st.length dir
  let (ci, cc) ← strapCoeff curves r.curve st.offset offsetBack st.length dir
  let pf ← getP grades gi.front
  let pb ← getP grades gi.back
  pure ({ r with grade := gi, curve := ci },
        { st with offsetBack := offsetBack, weightStatic := weight, resBearing := resBearing,
                  resRolling := resRolling, resDavisB := resDavisB, resAero := resAero,
                  resGrade := gc * weight, resCurve := cc * weight,
                  gradeFront := pf.coeff, gradeBack := pb.coeff,
                  elevFront := prcVal pf st.offset })

/-- `TrainState::res_net()` -/
def resNet (st : ResState α) : α :=
  st.resRolling + st.resBearing + st.resDavisB + st.resAero + st.resGrade + st.resCurve

end
end Altrios.Rs
