/-
  C17 — structural model of the serde codecs that `#[derive(Serialize, Deserialize)]` generates for
  the altrios-core types, as determined by the field attributes in the source
  (`default`, `default = "f"`, `skip`, `skip_serializing_if = "EqDefault::eq_default" | "Option::is_none"`,
  `rename`), for the two families of formats the crate advertises (traits.rs `SerdeAPI`):

    * self-describing (YAML, JSON): a struct is a key → value map; a field whose
      `skip_serializing_if` predicate holds is not written; on load a missing key becomes the
      field's default (`#[serde(default)]` → `Default::default()`, `default = "f"` → `f()`,
      an `Option` field without attribute → `None`, anything else → error); unknown keys are ignored;
    * positional (bincode): a struct is the concatenation of its fields; serde writes NOTHING for a
      field whose `skip_serializing_if` predicate holds, but the derived `Deserialize` reads every
      non-`skip` field in declaration order, so the reader desynchronises (DESIGN §8 #1).

  What is NOT modelled (library internals, exercised by the harness only): how a leaf (number,
  string, bool) is printed/parsed as text or laid out as bytes.  A leaf is an opaque `atom`.
  A map (`HashMap<K, V>`) is the list of its entries in the order the library iterates them.

  No imports (the driver links against this file).  Purely discrete, so no number polymorphism.
-/
namespace Altrios.Serde

/-! ## Values -/

/-- in-memory value (shape of a Rust value of a serializable type) -/
inductive Val where
  | atom (s : String)                 -- leaf: number / string / bool / unit-only enum used as map key
  | unit                              -- `()` / unit struct / payload of a unit variant
  | none
  | some (v : Val)
  | seq (vs : List Val)               -- Vec, set, map entries (each entry `tuple [atom key, value]`)
  | tuple (vs : List Val)             -- tuple, array, struct (ALL fields in declaration order, `skip` ones too)
  | variant (idx : Nat) (v : Val)     -- enum value: declaration index of the variant and its payload
  deriving Repr, Inhabited

/-- value of a self-describing format (the JSON / YAML data model) -/
inductive SVal where
  | atom (s : String)
  | null
  | seq (l : List SVal)
  | obj (l : List (String × SVal))
  deriving Repr, Inhabited

/-- token of a positional format (bincode): no field names, no framing of structs -/
inductive Tok where
  | atom (s : String)
  | tag (b : Bool)      -- Option discriminant
  | len (n : Nat)       -- sequence / map length prefix
  | var (i : Nat)       -- enum variant index
  deriving Repr, DecidableEq, Inhabited

mutual
/-- structural equality (`PartialEq` on the value tree) -/
def Val.beq : Val → Val → Bool
  | .atom a, .atom b => a == b
  | .unit, .unit => true
  | .none, .none => true
  | .some a, .some b => Val.beq a b
  | .seq a, .seq b => Val.beqL a b
  | .tuple a, .tuple b => Val.beqL a b
  | .variant i a, .variant j b => i == j && Val.beq a b
  | _, _ => false
def Val.beqL : List Val → List Val → Bool
  | [], [] => true
  | a :: as, b :: bs => Val.beq a b && Val.beqL as bs
  | _, _ => false
end
instance : BEq Val := ⟨Val.beq⟩

mutual
def SVal.beq : SVal → SVal → Bool
  | .atom a, .atom b => a == b
  | .null, .null => true
  | .seq a, .seq b => SVal.beqL a b
  | .obj a, .obj b => SVal.beqO a b
  | _, _ => false
def SVal.beqL : List SVal → List SVal → Bool
  | [], [] => true
  | a :: as, b :: bs => SVal.beq a b && SVal.beqL as bs
  | _, _ => false
def SVal.beqO : List (String × SVal) → List (String × SVal) → Bool
  | [], [] => true
  | (k, a) :: as, (l, b) :: bs => k == l && SVal.beq a b && SVal.beqO as bs
  | _, _ => false
end
instance : BEq SVal := ⟨SVal.beq⟩

/-! ## Schemas -/

/-- `#[serde(skip_serializing_if = …)]` -/
inductive SkipIf where
  | never
  | eqDefault     -- "EqDefault::eq_default":  *self == Self::default()
  | isNone        -- "Option::is_none"
  deriving Repr, DecidableEq, Inhabited

/-- `#[serde(default)]` / `#[serde(default = "path")]` -/
inductive Dflt where
  | none
  | std
  | fn (path : String)
  deriving Repr, DecidableEq, Inhabited

structure FieldAttr where
  name : String          -- Rust field name
  key : String           -- key written in self-describing formats (`rename`, else the field name)
  skip : Bool            -- `#[serde(skip)]`: never written, never read, `Default::default()` on load
  skipIf : SkipIf
  dflt : Dflt
  deriving Repr, DecidableEq, Inhabited

mutual
inductive Ty where
  | atom (name : String)                       -- leaf with a library / hand-written codec
  | unit
  | opt (t : Ty)
  | seq (t : Ty)
  | map (key : String) (v : Ty)                -- key: a leaf type (String / unit-only enum)
  | tuple (ts : Tys)                           -- tuple, fixed-size array, tuple struct with ≥ 2 fields
  | newtype (name : String) (t : Ty)           -- `struct W(T)`: transparent in every format
  | struct (name : String) (fs : Fields)
  | enum (name : String) (vs : Variants)       -- externally tagged (serde default)
inductive Tys where
  | nil
  | cons (t : Ty) (r : Tys)
inductive Fields where
  | nil
  | cons (a : FieldAttr) (t : Ty) (r : Fields)
inductive Variants where
  | nil
  | unit (name : String) (r : Variants)                  -- `V`
  | newtype (name : String) (t : Ty) (r : Variants)      -- `V(T)`
end

instance : Inhabited Ty := ⟨.unit⟩

/-- The `Default` impls of the crate: not syntax, so not in the schema.  Every definition and
    theorem is parametric in them. -/
structure Defaults where
  std : Ty → Val            -- `<T as Default>::default()`
  fn : String → Val         -- value returned by the function named in `default = "path"`

/-- `Default::default()` of a field of type `t` (`Option`, `Vec`, maps and `()` are std facts) -/
def dfl (D : Defaults) : Ty → Val
  | .opt _ => .none
  | .seq _ => .seq []
  | .map _ _ => .seq []
  | .unit => .unit
  | t => D.std t

/-- does the field's `skip_serializing_if` predicate hold of `v`? -/
def skipHit (D : Defaults) (a : FieldAttr) (t : Ty) (v : Val) : Bool :=
  match a.skipIf with
  | .never => false
  | .eqDefault => v == dfl D t
  | .isNone => v == .none

def isOpt : Ty → Bool
  | .opt _ => true
  | _ => false

/-- what the derived `Deserialize` puts into a field whose key is absent (self-describing formats) -/
def missing (D : Defaults) (a : FieldAttr) (t : Ty) : Option Val :=
  match a.dflt with
  | .std => some (dfl D t)
  | .fn p => some (D.fn p)
  | .none => if isOpt t then some .none else none

def lookup (k : String) : List (String × SVal) → Option SVal
  | [] => none
  | (k', v) :: r => if k' == k then some v else lookup k r

/-! ## Typing -/

mutual
/-- `v` has the shape of a value of type `t` -/
def fits : Ty → Val → Bool
  | .atom _, .atom _ => true
  | .unit, .unit => true
  | .opt _, .none => true
  | .opt t, .some v => fits t v
  | .seq t, .seq vs => vs.all (fits t)
  | .map _ t, .seq es => es.all (fun e => match e with
      | .tuple [.atom _, v] => fits t v
      | _ => false)
  | .tuple ts, .tuple vs => fitsTys ts vs
  | .newtype _ t, v => fits t v
  | .struct _ fs, .tuple vs => fitsFields fs vs
  | .enum _ vs, .variant i v => fitsVariant vs i v
  | _, _ => false
def fitsTys : Tys → List Val → Bool
  | .nil, [] => true
  | .cons t r, v :: vs => fits t v && fitsTys r vs
  | _, _ => false
def fitsFields : Fields → List Val → Bool
  | .nil, [] => true
  | .cons _ t r, v :: vs => fits t v && fitsFields r vs
  | _, _ => false
def fitsVariant : Variants → Nat → Val → Bool
  | .nil, _, _ => false
  | .unit _ _, 0, v => v == .unit
  | .newtype _ t _, 0, v => fits t v
  | .unit _ r, i + 1, v => fitsVariant r i v
  | .newtype _ _ r, i + 1, v => fitsVariant r i v
end

/-! ## Self-describing formats (YAML, JSON) -/

mutual
/-- what `Serialize` hands to a self-describing serializer -/
def encSelf (D : Defaults) : Ty → Val → SVal
  | .atom _, .atom s => .atom s
  | .unit, _ => .null
  | .opt _, .none => .null
  | .opt t, .some v => encSelf D t v
  | .seq t, .seq vs => .seq (vs.map (encSelf D t))
  | .map _ t, .seq es => .obj (es.map (fun e => match e with
      | .tuple [.atom k, v] => (k, encSelf D t v)
      | _ => ("", .null)))
  | .tuple ts, .tuple vs => .seq (encSelfTys D ts vs)
  | .newtype _ t, v => encSelf D t v
  | .struct _ fs, .tuple vs => .obj (encSelfFields D fs vs)
  | .enum _ vs, .variant i v => encSelfVariant D vs i v
  | _, _ => .null
def encSelfTys (D : Defaults) : Tys → List Val → List SVal
  | .cons t r, v :: vs => encSelf D t v :: encSelfTys D r vs
  | _, _ => []
/-- fields in declaration order; `skip` fields and fields whose predicate holds are not written -/
def encSelfFields (D : Defaults) : Fields → List Val → List (String × SVal)
  | .cons a t r, v :: vs =>
      if a.skip || skipHit D a t v then encSelfFields D r vs
      else (a.key, encSelf D t v) :: encSelfFields D r vs
  | _, _ => []
def encSelfVariant (D : Defaults) : Variants → Nat → Val → SVal
  | .nil, _, _ => .null
  | .unit n _, 0, _ => .atom n
  | .newtype n t _, 0, v => .obj [(n, encSelf D t v)]
  | .unit _ r, i + 1, v => encSelfVariant D r i v
  | .newtype _ _ r, i + 1, v => encSelfVariant D r i v
end

mutual
/-- what the derived `Deserialize` builds from a self-describing value -/
def decSelf (D : Defaults) : Ty → SVal → Option Val
  | .atom _, .atom s => some (.atom s)
  | .atom _, _ => none
  | .unit, .null => some .unit
  | .unit, _ => none
  | .opt _, .null => some .none
  | .opt t, s => (decSelf D t s).map .some
  | .seq t, .seq l => (l.mapM (decSelf D t)).map .seq
  | .seq _, _ => none
  | .map _ t, .obj l => (l.mapM (fun (ks : String × SVal) =>
      (decSelf D t ks.2).map (fun v => Val.tuple [.atom ks.1, v]))).map .seq
  | .map _ _, _ => none
  | .tuple ts, .seq l => (decSelfTys D ts l).map .tuple
  | .tuple _, _ => none
  | .newtype _ t, s => decSelf D t s
  | .struct _ fs, .obj l => (decSelfFields D fs l).map .tuple
  | .struct _ _, _ => none
  | .enum _ vs, s => decSelfVariant D vs 0 s
def decSelfTys (D : Defaults) : Tys → List SVal → Option (List Val)
  | .nil, [] => some []
  | .cons t r, s :: l =>
      match decSelf D t s, decSelfTys D r l with
      | some v, some vs => some (v :: vs)
      | _, _ => none
  | _, _ => none
/-- every field of the struct, in declaration order: `skip` → default; key present → decoded;
    key absent → `missing` -/
def decSelfFields (D : Defaults) : Fields → List (String × SVal) → Option (List Val)
  | .nil, _ => some []
  | .cons a t r, l =>
      let fv : Option Val :=
        if a.skip then some (dfl D t)
        else match lookup a.key l with
          | some s => decSelf D t s
          | none => missing D a t
      match fv, decSelfFields D r l with
      | some v, some vs => some (v :: vs)
      | _, _ => none
def decSelfVariant (D : Defaults) : Variants → Nat → SVal → Option Val
  | .nil, _, _ => none
  | .unit n r, i, s =>
      match s with
      | .atom m => if m == n then some (.variant i .unit) else decSelfVariant D r (i + 1) s
      | _ => decSelfVariant D r (i + 1) s
  | .newtype n t r, i, s =>
      match s with
      | .obj [(m, p)] => if m == n then (decSelf D t p).map (.variant i) else decSelfVariant D r (i + 1) s
      | _ => decSelfVariant D r (i + 1) s
end

/-! ## What a round trip does to a value -/

mutual
/-- `norm t v`: `v` with every `#[serde(skip)]` field (recursively, inside everything that is
    written) reset to its default — the value a load returns.  A field that is omitted because its
    predicate holds comes back as exactly the default it was equal to. -/
def norm (D : Defaults) : Ty → Val → Val
  | .opt t, .some v => .some (norm D t v)
  | .seq t, .seq vs => .seq (vs.map (norm D t))
  | .map _ t, .seq es => .seq (es.map (fun e => match e with
      | .tuple [.atom k, v] => .tuple [.atom k, norm D t v]
      | e => e))
  | .tuple ts, .tuple vs => .tuple (normTys D ts vs)
  | .newtype _ t, v => norm D t v
  | .struct _ fs, .tuple vs => .tuple (normFields D fs vs)
  | .enum _ vs, .variant i v => .variant i (normVariant D vs i v)
  | _, v => v
def normTys (D : Defaults) : Tys → List Val → List Val
  | .cons t r, v :: vs => norm D t v :: normTys D r vs
  | _, _ => []
def normFields (D : Defaults) : Fields → List Val → List Val
  | .cons a t r, v :: vs =>
      (if a.skip then dfl D t else if skipHit D a t v then v else norm D t v) :: normFields D r vs
  | _, _ => []
def normVariant (D : Defaults) : Variants → Nat → Val → Val
  | .nil, _, v => v
  | .unit _ _, 0, v => v
  | .newtype _ t _, 0, v => norm D t v
  | .unit _ r, i + 1, v => normVariant D r i v
  | .newtype _ _ r, i + 1, v => normVariant D r i v
end

/-! ## Positional format (bincode) -/

mutual
/-- what `Serialize` hands to a positional serializer: a skipped field leaves no trace -/
def encSeq (D : Defaults) : Ty → Val → List Tok
  | .atom _, .atom s => [.atom s]
  | .unit, _ => []
  | .opt _, .none => [.tag false]
  | .opt t, .some v => .tag true :: encSeq D t v
  | .seq t, .seq vs => .len vs.length :: (vs.map (encSeq D t)).flatten
  | .map _ t, .seq es => .len es.length :: (es.map (fun e => match e with
      | .tuple [.atom k, v] => Tok.atom k :: encSeq D t v
      | _ => [])).flatten
  | .tuple ts, .tuple vs => encSeqTys D ts vs
  | .newtype _ t, v => encSeq D t v
  | .struct _ fs, .tuple vs => encSeqFields D fs vs
  | .enum _ vs, .variant i v => .var i :: encSeqVariant D vs i v
  | _, _ => []
def encSeqTys (D : Defaults) : Tys → List Val → List Tok
  | .cons t r, v :: vs => encSeq D t v ++ encSeqTys D r vs
  | _, _ => []
def encSeqFields (D : Defaults) : Fields → List Val → List Tok
  | .cons a t r, v :: vs =>
      (if a.skip || skipHit D a t v then [] else encSeq D t v) ++ encSeqFields D r vs
  | _, _ => []
def encSeqVariant (D : Defaults) : Variants → Nat → Val → List Tok
  | .nil, _, _ => []
  | .unit _ _, 0, _ => []
  | .newtype _ t _, 0, v => encSeq D t v
  | .unit _ r, i + 1, v => encSeqVariant D r i v
  | .newtype _ _ r, i + 1, v => encSeqVariant D r i v
end

/-- read `n` items with the same reader -/
def decMany (f : List Tok → Option (Val × List Tok)) : Nat → List Tok → Option (List Val × List Tok)
  | 0, r => some ([], r)
  | n + 1, r =>
      match f r with
      | some (v, r1) =>
        match decMany f n r1 with
        | some (vs, r2) => some (v :: vs, r2)
        | none => none
      | none => none

mutual
/-- what the derived `Deserialize` reads from a positional stream: EVERY non-`skip` field, in
    declaration order, whether or not the writer omitted it -/
def decSeq (D : Defaults) : Ty → List Tok → Option (Val × List Tok)
  | .atom _, .atom s :: r => some (.atom s, r)
  | .atom _, _ => none
  | .unit, r => some (.unit, r)
  | .opt _, .tag false :: r => some (.none, r)
  | .opt t, .tag true :: r => (decSeq D t r).map (fun p => (.some p.1, p.2))
  | .opt _, _ => none
  | .seq t, .len n :: r => (decMany (decSeq D t) n r).map (fun p => (.seq p.1, p.2))
  | .seq _, _ => none
  | .map _ t, .len n :: r =>
      (decMany (fun toks => match toks with
        | .atom k :: r1 => (decSeq D t r1).map (fun p => (Val.tuple [.atom k, p.1], p.2))
        | _ => none) n r).map (fun p => (.seq p.1, p.2))
  | .map _ _, _ => none
  | .tuple ts, r => (decSeqTys D ts r).map (fun p => (.tuple p.1, p.2))
  | .newtype _ t, r => decSeq D t r
  | .struct _ fs, r => (decSeqFields D fs r).map (fun p => (.tuple p.1, p.2))
  | .enum _ vs, .var i :: r => (decSeqVariant D vs i r).map (fun p => (.variant i p.1, p.2))
  | .enum _ _, _ => none
def decSeqTys (D : Defaults) : Tys → List Tok → Option (List Val × List Tok)
  | .nil, r => some ([], r)
  | .cons t rest, r =>
      match decSeq D t r with
      | some (v, r1) =>
        match decSeqTys D rest r1 with
        | some (vs, r2) => some (v :: vs, r2)
        | none => none
      | none => none
def decSeqFields (D : Defaults) : Fields → List Tok → Option (List Val × List Tok)
  | .nil, r => some ([], r)
  | .cons a t rest, r =>
      if a.skip then
        match decSeqFields D rest r with
        | some (vs, r2) => some (dfl D t :: vs, r2)
        | none => none
      else
        match decSeq D t r with
        | some (v, r1) =>
          match decSeqFields D rest r1 with
          | some (vs, r2) => some (v :: vs, r2)
          | none => none
        | none => none
def decSeqVariant (D : Defaults) : Variants → Nat → List Tok → Option (Val × List Tok)
  | .nil, _, _ => none
  | .unit _ _, 0, r => some (.unit, r)
  | .newtype _ t _, 0, r => decSeq D t r
  | .unit _ rest, i + 1, r => decSeqVariant D rest i r
  | .newtype _ _ rest, i + 1, r => decSeqVariant D rest i r
end

mutual
/-- no conditionally-skipped field anywhere inside the written part of `v` satisfies its predicate -/
def noHit (D : Defaults) : Ty → Val → Bool
  | .opt t, .some v => noHit D t v
  | .seq t, .seq vs => vs.all (noHit D t)
  | .map _ t, .seq es => es.all (fun e => match e with
      | .tuple [.atom _, v] => noHit D t v
      | _ => true)
  | .tuple ts, .tuple vs => noHitTys D ts vs
  | .newtype _ t, v => noHit D t v
  | .struct _ fs, .tuple vs => noHitFields D fs vs
  | .enum _ vs, .variant i v => noHitVariant D vs i v
  | _, _ => true
def noHitTys (D : Defaults) : Tys → List Val → Bool
  | .cons t r, v :: vs => noHit D t v && noHitTys D r vs
  | _, _ => true
def noHitFields (D : Defaults) : Fields → List Val → Bool
  | .cons a t r, v :: vs => (a.skip || (!skipHit D a t v && noHit D t v)) && noHitFields D r vs
  | _, _ => true
def noHitVariant (D : Defaults) : Variants → Nat → Val → Bool
  | .nil, _, _ => true
  | .unit _ _, 0, _ => true
  | .newtype _ t _, 0, v => noHit D t v
  | .unit _ r, i + 1, v => noHitVariant D r i v
  | .newtype _ _ r, i + 1, v => noHitVariant D r i v
end

/-! ## Schema well-formedness (decided over the regenerated table) -/

/-- can a value of this type be written as `null`?  (`Option<T>` of such a `T` does not round-trip:
    `Some(None)` and `None` are both `null`) -/
def nullable : Ty → Bool
  | .unit => true
  | .opt _ => true
  | .newtype _ t => nullable t
  | _ => false

mutual
/-- a lower bound on the number of tokens a value of this type occupies in the positional format -/
def posMin : Ty → Nat
  | .atom _ => 1
  | .unit => 0
  | .opt _ => 1
  | .seq _ => 1
  | .map _ _ => 1
  | .tuple ts => posMinTys ts
  | .newtype _ t => posMin t
  | .struct _ fs => posMinFields fs
  | .enum _ _ => 1
def posMinTys : Tys → Nat
  | .nil => 0
  | .cons t r => posMin t + posMinTys r
def posMinFields : Fields → Nat
  | .nil => 0
  | .cons a t r => (if a.skip || a.skipIf != .never then 0 else posMin t) + posMinFields r
end

/-- attribute consistency of one field:
    * a conditionally skipped field must come back, when its key is absent, as exactly the value the
      predicate compared it with (`eq_default` needs `#[serde(default)]`, or an `Option` type whose
      implicit missing-value is the same `None`; `is_none` needs an `Option` type and no custom
      default function);
    * `skip` must not be combined with a predicate. -/
def fieldOK (a : FieldAttr) (t : Ty) : Bool :=
  if a.skip then a.skipIf == .never
  else match a.skipIf with
    | .never => true
    | .eqDefault => a.dflt == .std || (a.dflt == .none && isOpt t)
    | .isNone => isOpt t && (a.dflt == .std || a.dflt == .none)

def fieldKeys : Fields → List String
  | .nil => []
  | .cons a _ r => if a.skip then fieldKeys r else a.key :: fieldKeys r

def variantNames : Variants → List String
  | .nil => []
  | .unit n r => n :: variantNames r
  | .newtype n _ r => n :: variantNames r

def nodup : List String → Bool
  | [] => true
  | x :: xs => !xs.contains x && nodup xs

mutual
/-- `SchemaWF` as a Boolean: what the round-trip theorems need of a schema -/
def wf : Ty → Bool
  | .atom _ => true
  | .unit => true
  | .opt t => !nullable t && wf t
  | .seq t => wf t
  | .map _ t => wf t
  | .tuple ts => wfTys ts
  | .newtype _ t => wf t
  | .struct _ fs => wfFields fs && nodup (fieldKeys fs)
  | .enum _ vs => wfVariants vs && nodup (variantNames vs)
def wfTys : Tys → Bool
  | .nil => true
  | .cons t r => wf t && wfTys r
def wfFields : Fields → Bool
  | .nil => true
  | .cons a t r => fieldOK a t && wf t && wfFields r
def wfVariants : Variants → Bool
  | .nil => true
  | .unit _ r => wfVariants r
  | .newtype _ t r => wf t && wfVariants r
end

mutual
/-- every conditionally skipped field occupies at least one token when it IS written
    (needed for "a skipped field always desynchronises the positional reader") -/
def posWF : Ty → Bool
  | .opt t => posWF t
  | .seq t => posWF t
  | .map _ t => posWF t
  | .tuple ts => posWFTys ts
  | .newtype _ t => posWF t
  | .struct _ fs => posWFFields fs
  | .enum _ vs => posWFVariants vs
  | _ => true
def posWFTys : Tys → Bool
  | .nil => true
  | .cons t r => posWF t && posWFTys r
def posWFFields : Fields → Bool
  | .nil => true
  | .cons a t r => (a.skipIf == .never || 0 < posMin t) && posWF t && posWFFields r
def posWFVariants : Variants → Bool
  | .nil => true
  | .unit _ r => posWFVariants r
  | .newtype _ t r => posWF t && posWFVariants r
end

/-! ## The raw table written by the scanner and its resolution into `Ty` trees -/

inductive RTy where
  | atom (name : String)
  | unit
  | opt (t : RTy)
  | seq (t : RTy)
  | map (k v : RTy)
  | tuple (ts : List RTy)
  | ref (name : String)
  | param (name : String)                     -- generic parameter (only inside generic definitions)
  | inst (name : String) (args : List RTy)    -- generic type applied to arguments
  deriving Repr, Inhabited

structure RawField where
  name : String
  key : String
  skip : Bool
  skipIf : SkipIf
  dflt : Dflt
  ty : RTy
  deriving Repr, Inhabited

inductive RawKind where
  | struct | tuple | unitStruct | enum
  deriving Repr, DecidableEq, Inhabited

structure RawDef where
  name : String
  kind : RawKind
  params : List String
  fields : List RawField
  variants : List (String × RTy)       -- payload `.unit` = unit variant
  deriving Repr, Inhabited

def findDef (tbl : List RawDef) (n : String) : Option RawDef :=
  tbl.find? (fun d => d.name == n)

def Tys.ofList : List Ty → Tys
  | [] => .nil
  | t :: r => .cons t (Tys.ofList r)

def Fields.ofList : List (FieldAttr × Ty) → Fields
  | [] => .nil
  | (a, t) :: r => .cons a t (Fields.ofList r)

inductive VKind where
  | u (name : String)
  | n (name : String) (t : Ty)

def Variants.ofList : List VKind → Variants
  | [] => .nil
  | .u n :: r => .unit n (Variants.ofList r)
  | .n n t :: r => .newtype n t (Variants.ofList r)

def isUnitOnlyEnum (d : RawDef) : Bool :=
  d.kind == .enum && d.variants.all (fun v => match v.2 with | .unit => true | _ => false)

/-- key type of a map: must be a leaf -/
def mapKey (tbl : List RawDef) : RTy → Option String
  | .atom n => some n
  | .ref n => match findDef tbl n with
      | some d => if isUnitOnlyEnum d then some ("enum:" ++ n) else none
      | none => none
  | _ => none

/-- inline the table into a `Ty` tree (`fuel` bounds the nesting depth; generic definitions are not
    resolved) -/
def resolve (tbl : List RawDef) : Nat → RTy → Option Ty
  | 0, _ => none
  | _ + 1, .atom n => some (.atom n)
  | _ + 1, .unit => some .unit
  | f + 1, .opt t => (resolve tbl f t).map .opt
  | f + 1, .seq t => (resolve tbl f t).map .seq
  | f + 1, .map k v =>
      match mapKey tbl k, resolve tbl f v with
      | some kn, some tv => some (.map kn tv)
      | _, _ => none
  | f + 1, .tuple ts => (ts.mapM (resolve tbl f)).map (fun l => .tuple (Tys.ofList l))
  | _ + 1, .param _ => none
  | _ + 1, .inst _ _ => none
  | f + 1, .ref n =>
      match findDef tbl n with
      | none => none
      | some d =>
        if !d.params.isEmpty then none else
        match d.kind with
        | .unitStruct => some .unit
        | .struct =>
            (d.fields.mapM (fun rf => (resolve tbl f rf.ty).map (fun t =>
              (({ name := rf.name, key := rf.key, skip := rf.skip, skipIf := rf.skipIf, dflt := rf.dflt } : FieldAttr), t)))).map
              (fun l => .struct n (Fields.ofList l))
        | .tuple =>
            match d.fields with
            | [rf] => (resolve tbl f rf.ty).map (.newtype n)
            | fs => (fs.mapM (fun rf => resolve tbl f rf.ty)).map (fun l => .newtype n (.tuple (Tys.ofList l)))
        | .enum =>
            (d.variants.mapM (fun (v : String × RTy) => match v.2 with
              | RTy.unit => some (VKind.u v.1)
              | t => (resolve tbl f t).map (VKind.n v.1))).map (fun l => .enum n (Variants.ofList l))

/-- nesting bound used for the crate's table (deepest chain is < 20) -/
def resolveFuel : Nat := 40

/-- `#[serde(skip)]` fields of the table as (struct, field) pairs -/
def skipFields (tbl : List RawDef) : List (String × String) :=
  tbl.flatMap (fun d => (d.fields.filter (·.skip)).map (fun f => (d.name, f.name)))

/-- The `#[serde(skip)]` fields that are caches rebuilt lazily from serialized fields before
    their first use (hand-kept; the harness exercises the rebuild on every run):
      Generator.pwr_in_frac_interp / ElectricDrivetrain.pwr_in_frac_interp
          `if self.pwr_in_frac_interp.is_empty() { self.set_pwr_in_frac_interp()? }` in
          `set_cur_pwr_max_out` / `set_cur_pwr_regen_max`
      Consist.n_res_equipped
          `match self.n_res_equipped { None => recompute from loco_vec … }` in `n_res_equipped()` -/
def rebuiltCaches : List (String × String) :=
  [("Generator", "pwr_in_frac_interp"), ("ElectricDrivetrain", "pwr_in_frac_interp"),
   ("Consist", "n_res_equipped")]

def pairMem (p : String × String) (l : List (String × String)) : Bool :=
  l.any (fun q => q.1 == p.1 && q.2 == p.2)

/-- every `skip` field of the table is a known lazily-rebuilt cache -/
def skipsRebuilt (tbl : List RawDef) : Bool :=
  (skipFields tbl).all (fun p => pairMem p rebuiltCaches)

/-- root types checked: every non-generic definition of the table -/
def roots (tbl : List RawDef) : List String :=
  (tbl.filter (fun d => d.params.isEmpty)).map (·.name)

/-- the decidable obligation over the regenerated table -/
def tableWF (tbl : List RawDef) : Bool :=
  skipsRebuilt tbl &&
  (roots tbl).all (fun n => match resolve tbl resolveFuel (.ref n) with
    | some t => wf t && posWF t
    | none => false)

end Altrios.Serde
