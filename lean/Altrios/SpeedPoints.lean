import Altrios.Num
/-
  Model of `track/path_track/speed_point.rs` (`insert_speed`) and
  `track/link/speed/speed_limit.rs` (`min_speed`).       Properties C02, C13.

  Two executable definitions (DESIGN.md §2.1):
    * `insertSpeedIdx` — literal transcription: indices, every `self[i]` a checked access
      (failure = the `panic` outcome), loops with fuel;
    * `insertSpeed`    — structural (split into before / in range / after), the one the
      theorems are about.
  Both are run against the real function on every check (three-way correspondence).
-/
namespace Altrios.SP
open Altrios

structure Pt (α : Type) where
  off : α
  spd : α
  deriving Repr, BEq, DecidableEq

structure Lim (α : Type) where
  s : α      -- offset_start
  e : α      -- offset_end
  v : α      -- speed
  deriving Repr, BEq, DecidableEq

section
variable {α : Type} [Add α] [Sub α] [Mul α] [Div α] [Neg α] [LT α] [LE α]
  [DecidableLT α] [DecidableLE α] [OfNat α 0] [OfNat α 1]

/-- `min_speed`: sign-aware minimum of magnitudes (`is_sign_positive` is `0 ≤ ·` away from `-0.0`). -/
def minSpeed (old new : α) : α :=
  if 0 ≤ old ∧ 0 ≤ new then mn old new else -(mn (absv old) (absv new))

def covers (l : Lim α) (x : α) : Prop := l.s ≤ x ∧ x < l.e
instance (l : Lim α) (x : α) : Decidable (covers l x) := by unfold covers; exact inferInstance

/-! ### Preconditions (`debug_assert!`s at the top of `insert_speed`) -/

def sortedOff : List (Pt α) → Bool
  | a :: b :: t => decide (a.off ≤ b.off) && sortedOff (b :: t)
  | _ => true

def noTriple : List (Pt α) → Bool
  | a :: b :: c :: t => !(eqb a.off c.off) && noTriple (b :: c :: t)
  | _ => true

/-- `speed_limit.is_valid() ∧ !self.is_fake() ∧ self.is_valid() ∧ first.offset <= start`
    (NaN checks are vacuous in an ordered field and are exercised on the Rust side only) -/
def pre (pts : List (Pt α)) (l : Lim α) : Bool :=
  decide (0 ≤ l.s) && decide (0 ≤ l.e) && decide (l.s ≤ l.e) &&
  !pts.isEmpty && pts.all (fun p => decide (0 ≤ p.off)) && sortedOff pts && noTriple pts &&
  (match pts.head? with | some p => decide (p.off ≤ l.s) | none => false)

/-! ### Literal transcription -/

def getP (pts : List (Pt α)) (i : Nat) : Res (Pt α) :=
  match pts[i]? with
  | some p => .ok p
  | none => .panic "index"

def findStart (pts : List (Pt α)) (start : α) : Nat → Nat → Res Nat
  | 0, _ => .panic "fuel"
  | f + 1, i => do
    let p ← getP pts i
    if p.off < start then findStart pts start f (i + 1) else pure i

def findEnd (pts : List (Pt α)) (e : α) : Nat → Nat → Res Nat
  | 0, _ => .panic "fuel"
  | f + 1, i => do
    let p ← getP pts i
    if e < p.off then
      (if i = 0 then .panic "underflow" else findEnd pts e f (i - 1))
    else pure i

def insertAt (pts : List (Pt α)) (i : Nat) (p : Pt α) : Res (List (Pt α)) :=
  if i ≤ pts.length then .ok (pts.insertIdx i p) else .panic "insert"

def removeAt (pts : List (Pt α)) (i : Nat) : Res (List (Pt α)) :=
  if i < pts.length then .ok (pts.eraseIdx i) else .panic "remove"

def setSpd (pts : List (Pt α)) (i : Nat) (v : α) : Res (List (Pt α)) :=
  match pts[i]? with
  | some p => .ok (pts.set i { p with spd := v })
  | none => .panic "index"

/-- the `while idx_start < idx_end` loop -/
def updLoop (v : α) : Nat → List (Pt α) → Nat → Nat → Res (List (Pt α) × Nat)
  | 0, _, _, _ => .panic "fuel"
  | f + 1, pts, is, ie =>
    if is < ie then do
      let p ← getP pts is
      let spNew := minSpeed p.spd v
      let merge ← (if is > 0 then do
                      let q ← getP pts (is - 1)
                      pure (eqb q.spd spNew)
                    else pure false)
      if merge then do
        let pts ← removeAt pts is
        updLoop v f pts is (ie - 1)
      else do
        let pts ← setSpd pts is spNew
        updLoop v f pts (is + 1) ie
    else .ok (pts, is)

def insertSpeedIdx (pts : List (Pt α)) (l : Lim α) : Res (List (Pt α)) := do
  if !(pre pts l) then .panic "debug_assert" else
  let n := pts.length
  let last ← getP pts (n - 1)
  if last.off ≤ l.s then
    let spOld := last.spd
    let spNew := minSpeed spOld l.v
    if neb spOld spNew then
      if last.off < l.s then
        pure (pts ++ [⟨l.s, spNew⟩, ⟨l.e, spOld⟩])
      else
        let mergePrev ← (if n > 1 then do
                            let q ← getP pts (n - 2)
                            pure (eqb q.spd spNew)
                          else pure false)
        if mergePrev then
          pure (pts.set (n - 1) ⟨l.e, last.spd⟩)
        else
          pure (pts.set (n - 1) ⟨last.off, spNew⟩ ++ [⟨l.e, spOld⟩])
    else pure pts
  else
    let is ← findStart pts l.s (n + 1) 0
    let ie ← findEnd pts l.e (n + 1) (n - 1)
    let peOld ← getP pts ie
    let pS ← getP pts is
    -- start insertion
    let (pts, is, ie) ← (
      if l.s < pS.off then do
        if is = 0 then .panic "underflow" else
        let q ← getP pts (is - 1)
        let spOld := q.spd
        let spNew := minSpeed spOld l.v
        if neb spOld spNew then do
          let pts ← insertAt pts is ⟨l.s, spNew⟩
          pure (pts, is + 1, ie + 1)
        else pure (pts, is, ie)
      else pure (pts, is, ie))
    -- restoring end point
    let (pts, ie) ← (
      if peOld.off < l.e then
        let spOld := peOld.spd
        if neb spOld (minSpeed spOld l.v) then do
          let pts ← insertAt pts (ie + 1) ⟨l.e, spOld⟩
          pure (pts, ie + 1)
        else pure (pts, ie)
      else pure (pts, ie))
    let (pts, is) ← updLoop l.v (pts.length + 2) pts is ie
    -- final neighbour merge
    if is > 0 then do
      let a ← getP pts (is - 1)
      let b ← getP pts is
      if eqb a.spd b.spd then removeAt pts is else pure pts
    else pure pts

/-! ### Structural definition -/

/-- The profile as a fold: the speed of the last point whose offset is `≤ x`
    (`d` when there is none).  Agrees with reading a sorted point list left to right. -/
def valAt (d : α) (pts : List (Pt α)) (x : α) : α :=
  pts.foldl (fun acc p => if p.off ≤ x then p.spd else acc) d

/-- speed in force at `x` (0 left of the first point) -/
def val (pts : List (Pt α)) (x : α) : α := valAt 0 pts x

/-- Drop every point that repeats the speed already in force (`cur`; `none` = keep the first). -/
def dedup : Option α → List (Pt α) → List (Pt α)
  | _, [] => []
  | cur, p :: ps =>
    match cur with
    | some c => if eqb c p.spd then dedup cur ps else p :: dedup (some p.spd) ps
    | none => p :: dedup (some p.spd) ps

def lastSpd (l : List (Pt α)) : Option α := l.getLast?.map (·.spd)

/-- The general branch: `pts = A ++ B ++ C` with `A` strictly before `start`,
    `B` in `[start, end]`, `C` strictly after `end`.  The in-range points (preceded by a start
    point carrying the speed in force there, unless a point already sits at `start`) take the
    sign-aware minimum; the point in force at `end` is restored at `end`; points that repeat
    their predecessor's speed are dropped. -/
def insertGeneral (pts : List (Pt α)) (l : Lim α) : List (Pt α) :=
  let A := pts.takeWhile (fun p => decide (p.off < l.s))
  let rest := pts.dropWhile (fun p => decide (p.off < l.s))
  let B := rest.takeWhile (fun p => decide (p.off ≤ l.e))
  let C := rest.dropWhile (fun p => decide (p.off ≤ l.e))
  -- the point in force at `end` before the update: last of `A ++ B`
  match (A ++ B).getLast? with
  | none => pts     -- unreachable under `pre`
  | some pe =>
    let startRaw : List (Pt α) :=
      match A.getLast? with
      | some a =>
        (match B.head? with
         | some b => if l.s < b.off then [⟨l.s, a.spd⟩] else []
         | none => [⟨l.s, a.spd⟩])
      | none => []
    -- the last in-range point is not updated when it sits exactly at `end`
    let Bupd := if pe.off < l.e then B else B.dropLast
    let tailPt : Pt α := if pe.off < l.e then ⟨l.e, pe.spd⟩ else pe
    let cand := (startRaw ++ Bupd).map (fun p => (⟨p.off, minSpeed p.spd l.v⟩ : Pt α)) ++ [tailPt]
    A ++ dedup (lastSpd A) cand ++ C

def insertSpeed (pts : List (Pt α)) (l : Lim α) : List (Pt α) :=
  match pts.getLast? with
  | none => pts
  | some last =>
    if last.off ≤ l.s then
      let spOld := last.spd
      let spNew := minSpeed spOld l.v
      if neb spOld spNew then
        if last.off < l.s then pts ++ [⟨l.s, spNew⟩, ⟨l.e, spOld⟩]
        else
          match pts.dropLast.getLast? with
          | some q =>
            if eqb q.spd spNew then pts.dropLast ++ [⟨l.e, spOld⟩]
            else pts.dropLast ++ [⟨last.off, spNew⟩, ⟨l.e, spOld⟩]
          | none => pts.dropLast ++ [⟨last.off, spNew⟩, ⟨l.e, spOld⟩]
      else pts
    else insertGeneral pts l

/-! ### `PathTpc::add_speeds` and `TrainParams::speed_set_applies` -/

inductive LimitType | massTotal | massPerBrake | axleCount
  deriving Repr, DecidableEq
inductive CompareType | eq | gt | lt | ge | le
  deriving Repr, DecidableEq

structure SParam (α : Type) where
  limitVal : α
  limitType : LimitType
  cmp : CompareType

structure TrainP (α : Type) where
  length : α
  speedMax : α
  towedMass : α
  massPerBrake : α
  axleCount : Nat

def cmpApplies {β : Type} [LT β] [LE β] [DecidableLT β] [DecidableLE β] [DecidableEq β]
    (c : CompareType) (tp rp : β) : Bool :=
  match c with
  | .eq => decide (tp = rp)
  | .gt => decide (rp < tp)
  | .lt => decide (tp < rp)
  | .ge => decide (rp ≤ tp)
  | .le => decide (tp ≤ rp)

/-- float flavour of `CompareType::applies` (`==` on floats is `eqb`) -/
def cmpAppliesF (c : CompareType) (tp rp : α) : Bool :=
  match c with
  | .eq => eqb tp rp
  | .gt => decide (rp < tp)
  | .lt => decide (tp < rp)
  | .ge => decide (rp ≤ tp)
  | .le => decide (tp ≤ rp)

/-- `speed_set_applies`; `toU32` is Rust's saturating `as u32` cast -/
def speedSetApplies (toU32 : α → Nat) (tp : TrainP α) (ps : List (SParam α)) : Bool :=
  ps.all fun p =>
    match p.limitType with
    | .massTotal => cmpAppliesF p.cmp tp.towedMass p.limitVal
    | .massPerBrake => cmpAppliesF p.cmp tp.massPerBrake p.limitVal
    | .axleCount => cmpApplies p.cmp tp.axleCount (toU32 p.limitVal)

/-- the posted restriction as `add_speeds` hands it to `insert_speed` -/
def shiftLim (base lengthAdd : α) (l : Lim α) : Lim α :=
  ⟨l.s + base, l.e + base + lengthAdd, l.v⟩

def lengthAdd (tp : TrainP α) (isHeadEnd : Bool) : α := if isHeadEnd then 0 else tp.length

/-- `PathTpc::add_speeds` over the literal `insert_speed` -/
def addSpeedsIdx (toU32 : α → Nat) (pts : List (Pt α)) (tp : TrainP α) (ps : List (SParam α))
    (isHeadEnd : Bool) (lims : List (Lim α)) (base : α) : Res (List (Pt α)) :=
  if speedSetApplies toU32 tp ps then
    lims.foldlM (fun acc l =>
      if l.v < tp.speedMax then insertSpeedIdx acc (shiftLim base (lengthAdd tp isHeadEnd) l)
      else pure acc) pts
  else pure pts

/-- the same over the structural `insertSpeed` -/
def addSpeeds (toU32 : α → Nat) (pts : List (Pt α)) (tp : TrainP α) (ps : List (SParam α))
    (isHeadEnd : Bool) (lims : List (Lim α)) (base : α) : List (Pt α) :=
  if speedSetApplies toU32 tp ps then
    lims.foldl (fun acc l =>
      if l.v < tp.speedMax then insertSpeed acc (shiftLim base (lengthAdd tp isHeadEnd) l)
      else acc) pts
  else pts

end
end Altrios.SP
