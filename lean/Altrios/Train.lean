import Altrios.Num
import Altrios.PathTpc
import Altrios.Resist
import Altrios.Consist
/-
  Model of the train level: `train/train_state.rs` (`set_link_and_offset`, `res_net`, `mass_compound`),
  `train/set_speed_train_sim.rs` (`solve_step`, `solve_required_pwr`), `train/speed_limit_train_sim.rs`
  (`solve_step`, `solve_required_pwr`, getters), `train/friction_brakes.rs`, `train/braking_point.rs`.
  Properties C03, C11, C12, C14.
-/
namespace Altrios.Tr
open Altrios Altrios.Tpc Altrios.Rs Altrios.PT Altrios.CS

/-- the remaining fields of `TrainState` (the resistance part is `Rs.ResState`) -/
structure Kin (α : Type) where
  time : α
  totalDist : α
  linkIdxFront : Nat
  offsetInLink : α
  speedLimit : α
  speedTarget : α
  dt : α
  massRot : α
  massFreight : α
  pwrRes : α
  pwrAccel : α
  pwrWhlOut : α
  energyWhlOut : α
  energyWhlOutPos : α
  energyWhlOutNeg : α
  deriving Repr

structure TrainState (α : Type) where
  r : Rs.ResState α
  k : Kin α
  deriving Repr

structure FricBrake (α : Type) where
  forceMax : α
  rampUpTime : α
  rampUpCoeff : α
  force : α            -- state.force
  forceMaxCurr : α     -- state.force_max_curr
  deriving Repr

structure BrakingPoint (α : Type) where
  off : α
  limit : α
  target : α
  deriving Repr, BEq

structure BrakingPoints (α : Type) where
  points : List (BrakingPoint α)
  idxCurr : Nat
  deriving Repr

/-- literals of the train level -/
structure TrConsts (α : Type) where
  half : α       -- 0.5
  two : α        -- 2.0
  four : α       -- 4.0
  mph01 : α      -- uc::MPH * 0.1
  eps : α        -- 1e-8
  eps7 : α       -- 1.0e-7

section
variable {α : Type} [Add α] [Sub α] [Mul α] [Div α] [Neg α] [LT α] [LE α]
  [DecidableLT α] [DecidableLE α] [OfNat α 0] [OfNat α 1]

def massCompound (s : TrainState α) : α := s.r.massStatic + s.k.massRot

/-! ### `set_link_and_offset` -/

/-- `.position(|lp| lp.offset >= x)` -/
def positionGe (x : α) : List (LinkPt α) → Nat → Option Nat
  | [], _ => none
  | p :: ps, i => if x ≤ p.off then some i else positionGe x ps (i + 1)

/-- `set_link_and_offset(state, path_tpc)`: `position(..).unwrap_or(len) - 1` underflows (panic with
    overflow checks) when the front is at or before the first link point. -/
def setLinkAndOffset (lps : List (LinkPt α)) (s : TrainState α) : Res (TrainState α) :=
  let pos := (positionGe s.r.offset lps 0).getD lps.length
  if pos = 0 then .panic "underflow" else
  match lps[pos - 1]? with
  | none => .err "no-link-point"
  | some lp => .ok { s with k := { s.k with linkIdxFront := lp.linkIdx, offsetInLink := s.r.offset - lp.off } }

/-! ### SetSpeedTrainSim -/

/-- `SetSpeedTrainSim::solve_required_pwr(dt)` with `dt = time[i] - time[i-1]`,
    `mean = 0.5 * (speed[i] + speed[i-1])` -/
def ssRequiredPwr (c : TrConsts α) (cs : ConsistState α) (s : TrainState α) (vPrev vCur dtI : α) :
    Res (TrainState α) := do
  let k := s.k
  let pwrPosMax := mn cs.pwrOutMax (mx 0 (k.pwrWhlOut + cs.pwrRateOutMax * k.dt))
  let pwrNegMax := mx cs.pwrDynBrakeMax 0
  ensure (decide (0 ≤ pwrPosMax)) "pos-max-neg"
  let mean := c.half * (vCur + vPrev)
  let pwrRes := resNet s.r * mean
  let pwrAccel := massCompound s / (c.two * dtI) * (vCur * vCur - vPrev * vPrev)
  let whl := mn (mx (pwrAccel + pwrRes) (-pwrNegMax)) pwrPosMax
  pure { s with k := { k with
    pwrRes := pwrRes, pwrAccel := pwrAccel, dt := dtI, pwrWhlOut := whl,
    energyWhlOut := k.energyWhlOut + whl * dtI,
    energyWhlOutPos := if 0 ≤ whl then k.energyWhlOutPos + whl * dtI else k.energyWhlOutPos,
    energyWhlOutNeg := if 0 ≤ whl then k.energyWhlOutNeg else k.energyWhlOutNeg - whl * dtI } }

/-- the kinematic tail of `SetSpeedTrainSim::solve_step` -/
def ssIntegrate (c : TrConsts α) (lps : List (LinkPt α)) (s : TrainState α) (vPrev vCur tCur : α) :
    Res (TrainState α) := do
  let mean := c.half * (vCur + vPrev)
  let offset := s.r.offset + mean * s.k.dt
  let s := { s with r := { s.r with speed := vCur, offset := offset, offsetBack := offset - s.r.length },
                    k := { s.k with time := tCur } }
  let s ← setLinkAndOffset lps s
  pure { s with k := { s.k with totalDist := s.k.totalDist + absv (mean * s.k.dt) } }

/-- one whole `SetSpeedTrainSim::solve_step` (catenary limit bookkeeping omitted: it only writes
    `loco_con.state.pwr_cat_lim`, which nothing modelled reads) -/
def ssStep (kc : Consts α) (c : TrConsts α) (g rho : α) (t : Tpc α) (res : ResStrap α) (con : Consist α)
    (s : TrainState α) (vPrev vCur tPrev tCur : α) : Res (Consist α × ResStrap α × TrainState α) := do
  ensure (decide (0 ≤ vCur)) "negative-speed"
  ensure (decide (0 ≤ vPrev)) "negative-speed-prev"
  let dtI := tCur - tPrev
  let con := consistSetAux con (some true)
  let con ← consistSetCurMax kc con dtI
  let (res, r) ← updateRes g rho t.grades t.curves res s.r .fwd
  let s := { s with r := r }
  let s ← ssRequiredPwr c con.state s vPrev vCur dtI
  let con ← consistSolve kc con s.k.pwrWhlOut dtI (some true)
  let s ← ssIntegrate c t.linkPoints s vPrev vCur tCur
  pure (con, res, s)

/-! ### Friction brake and braking points -/

/-- `FricBrake::set_cur_force_max_out(dt)` (IEEE: `force_max / 0 * dt = +∞`, then `.min(force_max)`;
    the ordered-field model keeps the division and the theorems assume `ramp_up_time ≠ 0`) -/
def fricSetCurMax (f : FricBrake α) (dt : α) : FricBrake α :=
  { f with forceMaxCurr := mn (f.force + f.forceMax / f.rampUpTime * dt) f.forceMax }

def getB (l : List (BrakingPoint α)) (i : Nat) : Res (BrakingPoint α) :=
  match l[i]? with
  | some v => .ok v
  | none => .panic "index"

/-- `while self.points[self.idx_curr - 1].offset <= offset { self.idx_curr -= 1 }` -/
def bpDescend (pts : List (BrakingPoint α)) (x : α) : Nat → Nat → Res Nat
  | 0, _ => .panic "fuel"
  | f + 1, i =>
    if i = 0 then .panic "underflow" else do
      let p ← getB pts (i - 1)
      if p.off ≤ x then bpDescend pts x f (i - 1) else pure i

/-- `while idx >= 1 && self.points[idx - 1].offset <= offset_far { … min …; idx -= 1 }` -/
def bpLookAhead (pts : List (BrakingPoint α)) (far : α) : Nat → Nat → α → Res α
  | 0, _, _ => .panic "fuel"
  | f + 1, i, tgt =>
    if i ≥ 1 then do
      let p ← getB pts (i - 1)
      if p.off ≤ far then bpLookAhead pts far f (i - 1) (mn tgt p.target) else pure tgt
    else pure tgt

/-- `BrakingPoints::calc_speeds(offset, speed, adj_ramp_up_time)` → (new idx_curr, limit, target);
    the `assert!(speed <= limit)` is the `panic` outcome -/
def calcSpeeds (bp : BrakingPoints α) (offset speed adjRamp : α) : Res (BrakingPoints α × α × α) := do
  let first ← getB bp.points 0
  let idx ← (if first.off ≤ offset then pure 0 else bpDescend bp.points offset (bp.points.length + 1) bp.idxCurr)
  let cur ← getB bp.points idx
  if !(decide (speed ≤ cur.limit)) then .panic "speed-limit-violated" else
  let far := offset + speed * adjRamp
  let tgt ← bpLookAhead bp.points far (bp.points.length + 1) idx cur.target
  pure ({ bp with idxCurr := idx }, cur.limit, tgt)

/-! ### SpeedLimitTrainSim -/

/-- `SpeedLimitTrainSim::solve_required_pwr`; `sqrt` and the consist's `force_max()` are parameters -/
def slRequiredPwr (c : TrConsts α) (sqrt : α → α) (forceMaxCon : α) (cs : ConsistState α)
    (fb : FricBrake α) (bp : BrakingPoints α) (s : TrainState α) :
    Res (FricBrake α × BrakingPoints α × TrainState α) := do
  let k := s.k
  let res := resNet s.r
  ensure (decide (0 < fb.forceMax + res)) "insufficient-braking-force"
  let (bp, limit, target) ← calcSpeeds bp s.r.offset s.r.speed (fb.rampUpTime * fb.rampUpCoeff)
  let mc := massCompound s
  let fTarget := res + mc * (target - s.r.speed) / k.dt
  let pwrPosMax := mn cs.pwrOutMax (mx 0 (k.pwrWhlOut + cs.pwrRateOutMax * k.dt))
  let pwrNegMax := mx cs.pwrDynBrakeMax 0
  ensure (decide (0 ≤ pwrPosMax)) "pos-max-neg"
  let tpm := k.dt / mc
  let a := s.r.speed - res * tpm
  let vMax := c.half * (a + sqrt (a * a + c.four * tpm * pwrPosMax))
  let fPosMax := mn forceMaxCon (pwrPosMax / mn target vMax)
  if s.r.speed < c.mph01 ∧ fPosMax ≤ res then .err "insufficient-power-to-move" else
  let fb := fricSetCurMax fb k.dt
  let vNegLim := cs.pwrDynBrakeMax / forceMaxCon
  let fRegenDyn := if vNegLim < s.r.speed then cs.pwrDynBrakeMax / vMax else forceMaxCon
  let fApplied := mn fPosMax (mx fTarget (-fb.forceMaxCurr - fRegenDyn))
  let dv := tpm * (fApplied - res)
  let vAvg := s.r.speed + c.half * dv
  let pwrRes := res * vAvg
  let pwrAccel := mc / (c.two * k.dt) * ((s.r.speed + dv) * (s.r.speed + dv) - s.r.speed * s.r.speed)
  let time := k.time + k.dt
  let offset := s.r.offset + k.dt * vAvg
  let totalDist := k.totalDist + absv (k.dt * vAvg)
  let speed0 := s.r.speed + dv
  let speed := if almostEq speed0 target c.eps then target else speed0
  -- consist force and friction brake
  let (fb, fConsistR) : FricBrake α × Res α :=
    if 0 ≤ fApplied then ({ fb with force := 0 }, .ok fApplied)
    else
      let fc := fApplied + fb.force
      if 0 ≤ fc then (fb, .ok 0)
      else if 0 ≤ fc + fRegenDyn then (fb, .ok fc)
      else
        let force := -(fApplied + fRegenDyn)
        let fb := { fb with force := force }
        if almostLe force fb.forceMaxCurr c.eps then (fb, .ok (-fRegenDyn)) else (fb, .err "fric-brake-over-max")
  let fConsist ← fConsistR
  let whl0 := fConsist * speed
  ensure (almostLe whl0 pwrPosMax c.eps7) "whl-above-pos-max"
  ensure (almostLe (-whl0) pwrNegMax c.eps7) "whl-below-neg-max"
  let whl := mn (mx whl0 (-pwrNegMax)) pwrPosMax
  let s' : TrainState α :=
    { r := { s.r with speed := speed, offset := offset, offsetBack := offset - s.r.length },
      k := { k with speedLimit := limit, speedTarget := target, pwrRes := pwrRes, pwrAccel := pwrAccel,
                    time := time, totalDist := totalDist, pwrWhlOut := whl,
                    energyWhlOut := k.energyWhlOut + whl * k.dt,
                    energyWhlOutPos := if 0 ≤ whl then k.energyWhlOutPos + whl * k.dt else k.energyWhlOutPos,
                    energyWhlOutNeg := if 0 ≤ whl then k.energyWhlOutNeg else k.energyWhlOutNeg - whl * k.dt } }
  pure (fb, bp, s')

/-- `Consist::force_max()`: `try_fold(0, |f_sum, loco| loco.force_max() + f_sum)` over the given unit values -/
def consistForceMax (fs : List α) : α := fs.foldl (fun acc f => f + acc) 0

/-- one whole `SpeedLimitTrainSim::solve_step` -/
def slStep (kc : Consts α) (c : TrConsts α) (sqrt : α → α) (g rho : α) (t : Tpc α) (res : ResStrap α)
    (con : Consist α) (unitForceMax : List α) (fb : FricBrake α) (bp : BrakingPoints α) (s : TrainState α) :
    Res (Consist α × ResStrap α × FricBrake α × BrakingPoints α × TrainState α) := do
  let con := consistSetAux con (some true)
  let con ← consistSetCurMax kc con s.k.dt
  let (res, r) ← updateRes g rho t.grades t.curves res s.r .fwd
  let s := { s with r := r }
  let (fb, bp, s) ← slRequiredPwr c sqrt (consistForceMax unitForceMax) con.state fb bp s
  let con ← consistSolve kc con s.k.pwrWhlOut s.k.dt (some true)
  let s ← setLinkAndOffset t.linkPoints s
  pure (con, res, fb, bp, s)

/-- the loop condition of `walk_internal`; `ft1000 = 1000.0 * uc::FT` -/
def walkCond (ft1000 offsetEnd : α) (s : TrainState α) : Bool :=
  decide (s.r.offset < offsetEnd - ft1000) || (decide (s.r.offset < offsetEnd) && neb s.r.speed 0)

/-- when the `ensure!` after `self.step()?` in the loop of `walk_internal` FAILS (fix c76dec1): the train stood still for
    a whole step (`speedPrev` = `self.state.speed` read before the step, `s` = the state after it), is told to keep
    standing still, and is still before the 1000 ft stopping window.  The Rust condition is `!(…)` of this. -/
def walkStuck (ft1000 offsetEnd speedPrev : α) (s : TrainState α) : Bool :=
  eqb speedPrev 0 && eqb s.r.speed 0 && eqb s.k.speedTarget 0 && decide (s.r.offset < offsetEnd - ft1000)

/-- `get_scaling_factor(annualize)`; `c36525 = 365.25`, `days` already cast to float -/
def scalingFactor (c36525 : α) (annualize : Bool) (days : Option α) : α :=
  if annualize then (match days with | some d => c36525 / d | none => c36525) else 1

/-! ### the loop of `walk_internal`

    ```
    while cond(state) {
        let speed_prev = self.state.speed;
        self.step()?;
        ensure!(!stuck(speed_prev, state), "… cannot reach its destination");     // added by fix c76dec1
    }
    Ok(())
    ```
    generic in the simulation state `S` and in `step`; the fuel bounds the number of `step()` calls. -/

/-- the loop AFTER the fix.  `.ok (some s)`: the loop was left at `s` (`Ok(())`); `.ok none`: the fuel ran out with the
    condition still true; an `Err` / a panic of `step` is passed on; `.err "stopped-short"`: the `ensure!` failed on the
    pair (state before the step, state after it). -/
def walkLoop {S : Type} (step : S → Res S) (cond : S → Bool) (stuck : S → S → Bool) : Nat → S → Res (Option S)
  | 0, s => if cond s then .ok none else .ok (some s)
  | n + 1, s =>
    if cond s then
      match step s with
      | .ok s' => if stuck s s' then .err "stopped-short" else walkLoop step cond stuck n s'
      | .err e => .err e
      | .panic e => .panic e
    else .ok (some s)

/-- the loop BEFORE the fix: `while cond(state) { self.step()?; }` -/
def walkLoopOld {S : Type} (step : S → Res S) (cond : S → Bool) : Nat → S → Res (Option S)
  | 0, s => if cond s then .ok none else .ok (some s)
  | n + 1, s =>
    if cond s then
      match step s with
      | .ok s' => walkLoopOld step cond n s'
      | .err e => .err e
      | .panic e => .panic e
    else .ok (some s)

/-- `walk_internal` after the fix, over any simulation state that contains the train state (`st`):
    the loop with `walkCond` and `walkStuck` (the previous speed is the speed of the state before the step) -/
def slWalk {S : Type} (ft1000 offsetEnd : α) (st : S → TrainState α) (step : S → Res S) : Nat → S → Res (Option S) :=
  walkLoop step (fun x => walkCond ft1000 offsetEnd (st x))
    (fun a b => walkStuck ft1000 offsetEnd (st a).r.speed (st b))

/-- `walk_internal` before the fix -/
def slWalkOld {S : Type} (ft1000 offsetEnd : α) (st : S → TrainState α) (step : S → Res S) : Nat → S → Res (Option S) :=
  walkLoopOld step (fun x => walkCond ft1000 offsetEnd (st x))

end
end Altrios.Tr
