import Lean
/-
  Audit: `lake env lean --run Audit.lean <module>… -- <namespace>…`
  Prints one line `THM <name> <axiom,axiom,…>` for every theorem whose name lies in one of the
  given namespaces, with the axioms its proof depends on (Lean.collectAxioms).
-/
open Lean

def splitArgs (args : List String) : List String × List String :=
  let rec go (acc : List String) : List String → List String × List String
    | [] => (acc.reverse, [])
    | "--" :: rest => (acc.reverse, rest)
    | a :: rest => go (a :: acc) rest
  go [] args

def toName (s : String) : Name :=
  (s.splitOn ".").foldl (fun n p => Name.str n p) Name.anonymous

def main (args : List String) : IO UInt32 := do
  let (mods, nss) := splitArgs args
  initSearchPath (← findSysroot)
  let imports : Array Import := (mods.map fun m => ({ module := toName m } : Import)).toArray
  let env ← importModules imports {}
  let nsNames := nss.map toName
  let mut names : Array Name := #[]
  for (n, ci) in env.constants.toList do
    match ci with
    | .thmInfo _ =>
      if n.isInternal then continue
      if nsNames.any (fun ns => ns.isPrefixOf n) then
        names := names.push n
    | _ => pure ()
  let sorted := names.qsort (fun a b => a.toString < b.toString)
  for n in sorted do
    let (axs, _) ← ((collectAxioms n : CoreM (Array Name)).toIO
        { fileName := "<audit>", fileMap := default } { env := env })
    let axsS := ",".intercalate (axs.toList.map toString)
    IO.println s!"THM {n} {axsS}"
  return 0
