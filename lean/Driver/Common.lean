import Altrios.Num
import Altrios.Protocol
namespace Driver
open Altrios Altrios.Proto

/-- A handler parses the remaining tokens of a line and returns the answer tokens. -/
abbrev Handler := P String

def resStr {σ} (f : σ → String) : Res σ → String
  | .ok s => "ok " ++ f s
  | .err _ => "err"
  | .panic _ => "panic"

end Driver
