import Driver.Registry
open Altrios Altrios.Proto Driver

def answer (line : String) : String :=
  match (line.trimAscii.toString.splitOn " ").filter (· ≠ "") with
  | id :: op :: rest =>
    match allHandlers.lookup op with
    | some h =>
      match (h.run rest) with
      | .ok (s, []) => id ++ " " ++ s
      | .ok (_, _ :: _) => id ++ " bad-op trailing"
      | .error e => id ++ " bad-op " ++ e
    | none => id ++ " bad-op unknown " ++ op
  | _ => "? bad-op empty"

partial def loop (h : IO.FS.Stream) (out : IO.FS.Stream) : IO Unit := do
  let line ← h.getLine
  if line.isEmpty then return ()
  out.putStrLn (answer line)
  loop h out

def main : IO Unit := do
  let out ← IO.getStdout
  loop (← IO.getStdin) out
  out.flush
