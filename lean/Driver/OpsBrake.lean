import Driver.Common
import Driver.OpsSP
import Driver.OpsTrain
import Altrios.Braking
namespace Driver.OpsBrake
open Altrios Altrios.Proto Altrios.SP Altrios.Tpc Altrios.Rs Altrios.Tr Altrios.Brk Driver
open Driver.OpsSP Driver.OpsTrain

/-- budget for the points of ONE braking curve (`loop { … }` in `recalc`); exhausting it answers
    `panic` (the Rust side would not have terminated in reasonable time either) -/
def curveFuel : Nat := 1000000

/-- `bp_recalc <grades> <curves> <speed_points> <offset_begin> <offset_end> <res strap> <train state>
      <fric force_max>`  →  `ok <points> <idx_curr>`
    with `<grades>`,`<curves>` = `[ n (off coeff net)*`, `<speed_points>` = `[ n (off speed)*`,
    `<res strap>` = the 8 tokens of `update_res`, `<train state>` = the 30 tokens of `trainState`,
    answer `<points>` = `[ n (off limit target)*` (as printed by `bp_calc_speeds`' reader `bPoints`). -/
def handlers : List (String × Handler) := [
  ("bp_recalc", do
    let gs ← seq prc; let cs ← seq prc; let sps ← seq pt
    let ob ← float; let oe ← float
    let r ← resStrap; let s ← trainState; let fmax ← float
    pure (resStr fBPoints (recalc cF.half accGrav rhoAir gs cs sps ob oe r s fmax curveFuel)))
]
end Driver.OpsBrake
