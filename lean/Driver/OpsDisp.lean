import Driver.Common
import Altrios.Dispatch
/-
  Driver ops of property C04 (meet-pass authority table).
    c04_step  spacing overlap net table ops links_blocked
                  →  ok <side conditions> <planOk of the result> <links_blocked covers the result> <result table>
    c04_final spacing net table               →  ok <planOk>
  Tables travel sparsely: the number of links, then only the links that carry real authorities
  (the `-∞` sentinel that heads every list is implied).
-/
namespace Driver.OpsDisp
open Altrios Altrios.Proto Altrios.Dispatch Driver

def posInf : Float := 1.0 / 0.0
def negInf : Float := -posInf
def sentinel : Auth Float := ⟨negInf, negInf, negInf, negInf, 0⟩

def pNet : P Net := do
  let flips ← seq nat
  let locks ← seq (seq nat)
  -- array-backed lookups (the model only sees the two functions)
  let fa := flips.toArray
  let la := locks.toArray
  pure ⟨fun i => fa.getD i 0, fun i => la.getD i []⟩

def pAuth : P (Auth Float) := do
  let tr ← nat; let ae ← float; let ax ← float; let ce ← float; let cx ← float
  pure ⟨ae, ax, ce, cx, tr⟩

def pTable : P (Table Float) := do
  let n ← nat
  let rows ← seq (do let l ← nat; let as ← seq pAuth; pure (l, as))
  let base : Array (List (Auth Float)) := Array.replicate n [sentinel]
  let arr := rows.foldl (fun (acc : Array (List (Auth Float))) (r : Nat × List (Auth Float)) =>
    if r.1 < acc.size then acc.set! r.1 (sentinel :: r.2) else acc) base
  pure arr.toList

def fAuth (a : Auth Float) : String :=
  join [fN a.train, fF a.ae, fF a.ax, fF a.ce, fF a.cx]

def fTable (t : Table Float) : String :=
  let rows := (List.zip (List.range t.length) t).filter (fun r => r.2.length > 1)
  fN t.length ++ " " ++ fSeq (fun (r : Nat × List (Auth Float)) => fN r.1 ++ " " ++ fSeq fAuth (r.2.drop 1)) rows

def pOp : P (Op Float × Option (Nat × Nat)) := do
  let k ← word
  match k with
  | "push" => do
    let l ← nat; let tr ← nat; let t ← float
    let fr ← opt (do let a ← nat; let b ← nat; pure (a, b))
    pure (.push l tr t, fr)
  | "ax" => do let l ← nat; let i ← nat; let t ← float; pure (.setAx l i t, none)
  | "ce" => do let l ← nat; let i ← nat; let t ← float; pure (.setCe l i t, none)
  | "cx" => do let l ← nat; let i ← nat; let t ← float; pure (.setCx l i t, none)
  | "fin" => do let l ← nat; let i ← nat; let t ← float; pure (.fin l i t, none)
  | "pop" => do let l ← nat; pure (.pop l, none)
  | "rax" => do let l ← nat; let i ← nat; pure (.rAx l i, none)
  | "rce" => do let l ← nat; let i ← nat; pure (.rCe l i, none)
  | "rcx" => do let l ← nat; let i ← nat; pure (.rCx l i, none)
  | _ => throw s!"bad op {k}"

/-- side condition of one observed operation: the model's `pre`, and for an entry additionally the literal
    `gate` evaluated with the two unobservable terms at their lower bounds (own running time `-∞`,
    start-up time `0`): the observed entry time must not be below it -/
def opOk (net : Net) (sp ov : Float) (tbl : Table Float) (o : Op Float × Option (Nat × Nat)) : Bool :=
  pre net sp ov posInf tbl o.1 &&
  match o.1 with
  | .push l _ t =>
    match gate net sp ov 0.0 tbl l negInf o.2 with
    | some g => decide (g ≤ t)
    | none => false
  | _ => true

def replay (net : Net) (sp ov : Float) : Table Float → List (Op Float × Option (Nat × Nat)) → Option (Bool × Table Float)
  | tbl, [] => some (true, tbl)
  | tbl, o :: os =>
    match step posInf tbl o.1 with
    | none => none
    | some tbl' =>
      match replay net sp ov tbl' os with
      | none => none
      | some (ok, t) => some (opOk net sp ov tbl o && ok, t)

def handlers : List (String × Handler) := [
  ("c04_step", do
    let sp ← float; let ov ← float
    let net ← pNet
    let tbl ← pTable
    let ops ← seq pOp
    let blocked ← seq nat      -- links_blocked of the resulting snapshot
    match replay net sp ov tbl ops with
    | none => pure "panic"
    | some (ok, t) =>
      pure (join ["ok", fB (ok && netOk net tbl.length), fB (planOk net sp posInf t),
        fB (blockedOk net posInf t blocked), fTable t])),
  ("c04_final", do
    let sp ← float
    let net ← pNet
    let tbl ← pTable
    pure ("ok " ++ fB (planOk net sp posInf tbl)))
]
end Driver.OpsDisp
