import Driver.Common
import Altrios.EstTime
/-
  Driver ops of property C15 (block `est` of the harness).
  Node tokens: `ts ttn dist speed next nextAlt prev prevAlt link A|C|F` (`ts` = xNaN when not set).
-/
namespace Driver.OpsEst
open Altrios Altrios.Proto Altrios.Est Driver

def tsTok : P (Option Float) := do
  let t ← next
  if t == "xNaN" then pure none else
  match t.toList with
  | 'x' :: cs =>
    match parseHex cs with
    | some n => pure (some (Float.ofBits n.toUInt64))
    | none => throw s!"bad float {t}"
  | _ => throw s!"bad float {t}"

def tyTok : P Ty := do
  let t ← word
  match t with
  | "A" => pure .arrive
  | "C" => pure .clear
  | "F" => pure .fake
  | _ => throw s!"bad est type {t}"

def node : P (Node Float) := do
  let ts ← tsTok; let ttn ← float; let dist ← float; let speed ← float
  let nx ← nat; let na ← nat; let pv ← nat; let pa ← nat; let link ← nat; let ty ← tyTok
  pure ⟨ts, ttn, dist, speed, nx, na, pv, pa, link, ty⟩

def graph : P (Graph Float) := do
  let l ← seq node
  pure l.toArray

def fTs : Option Float → String
  | none => "xNaN"
  | some t => fF t

def fTy : Ty → String
  | .arrive => "A" | .clear => "C" | .fake => "F"

def fNode (x : Node Float) : String :=
  join [fTs x.ts, fF x.ttn, fF x.dist, fF x.speed, fN x.next, fN x.nextAlt, fN x.prev, fN x.prevAlt, fN x.link, fTy x.ty]

def fGraph (g : Graph Float) : String := fSeq fNode g.toList

def pair : P (Nat × Nat) := do let a ← nat; let b ← nat; pure (a, b)

def fVerdict (v : Verdict) : String :=
  join [fB v.links, fB v.walks, fB v.route, fB v.fin, fB v.nonneg, fB v.tight, fB v.alt]

def handlers : List (String × Handler) := [
  -- real `update_times_forward` on the node vector `make_est_times` had just before the pass
  ("est_forward", do
    let g ← graph; let depart ← float
    pure (resStr fGraph (updateForward g depart))),
  ("est_backward", do
    let g ← graph
    pure (resStr fGraph (updateBackward g))),
  -- the verified checker, clause by clause, against the harness's exhaustive walk enumeration
  ("est_check", do
    let adj ← seq pair; let origs ← seq nat; let dests ← seq nat; let tol ← float; let g ← graph
    pure ("ok " ++ fVerdict (estNetCheck Float.isFinite adj.toArray origs dests tol g))),
  ("est_fwd_check", do
    let g ← graph; let depart ← float
    pure ("ok " ++ fB (fwdCheck Float.isFinite depart g))),
  ("running_time", do
    let first ← float; let last ← float
    pure ("ok " ++ fF (runningTimeHours (3600.0 : Float) first last)))
]
end Driver.OpsEst
