import Driver.Common
import Driver.OpsPT
import Generated.Kernels
/-
  Ops that run the REGENERATED kernel definitions (`Generated/Kernels.lean`, written from /repo's current
  Rust text by scan/translate_kernels.py) at IEEE `Float`.

  Each op `gen_<x>` has exactly the token layout and the answer format of the hand-model op `<x>` of
  Driver/OpsPT.lean / OpsSP.lean (parsers and printers are reused), so the harness can emit it next to
  the existing one with the same expected answer.  `Proofs/Kernels.lean` proves `Gen.f = PT.f` over
  ordered fields; at `Float` the theorems do not apply literally, this is the executable cross-check.
  (Only difference at `Float`: the generated kernels keep `ensure!(eta >= 0 || eta <= 1)`, which fails
  for a NaN efficiency — as the Rust does — where the hand model goes on.)
-/
namespace Driver.OpsGen
open Altrios Altrios.Proto Altrios.PT Driver Driver.OpsPT

def handlers : List (String × Handler) := [
  -- FuelConverter::set_cur_pwr_out_max            layout of `fc_set_cur_max`
  ("gen_fc_set_cur_max", do
    let a ← fc; let dt ← float
    pure (resStr fFc (Gen.fcSetCurMax kF a dt))),
  -- FuelConverter::solve_energy_consumption       layout of `fc_solve`
  ("gen_fc_solve", do
    let a ← fc; let req ← float; let dt ← float; let on ← bool; let al ← bool
    pure (resStr fFc (Gen.fcSolve kF a req dt on al))),
  -- Generator::set_cur_pwr_max_out(pin, Some(aux)) layout of `gen_set_cur_max`
  ("gen_gen_set_cur_max", do
    let g ← gen; let pin ← float; let aux ← float
    pure (resStr fGen (Gen.genSetCurMax kF g pin (some aux)))),
  -- Generator::set_pwr_in_req                     layout of `gen_req`
  ("gen_gen_req", do
    let g ← gen; let prop ← float; let aux ← float; let dt ← float
    pure (resStr fGen (Gen.genReq kF g prop aux dt))),
  -- ElectricDrivetrain::set_cur_pwr_max_out(pin, None)   layout of `edrv_set_cur_max`
  ("gen_edrv_set_cur_max", do
    let e ← edrv; let pin ← float
    pure (resStr fEdrv (Gen.edrvSetCurMax kF e pin none))),
  -- ElectricDrivetrain::set_cur_pwr_regen_max     layout of `edrv_set_regen_max`
  ("gen_edrv_set_regen_max", do
    let e ← edrv; let rin ← float
    pure (resStr fEdrv (Gen.edrvSetRegenMax kF e rin))),
  -- ElectricDrivetrain::set_pwr_in_req            layout of `edrv_req`
  ("gen_edrv_req", do
    let e ← edrv; let req ← float; let dt ← float
    pure (resStr fEdrv (Gen.edrvReq kF e req dt))),
  -- ReversibleEnergyStorage::set_cur_pwr_out_max  layout of `res_set_cur_max` (buffers: unwrap_or(0) values)
  ("gen_res_set_cur_max", do
    let r ← res; let aux ← float; let cb ← float; let db ← float
    pure (resStr fRes (Gen.resSetCurMax kF r aux (some cb) (some db)))),
  -- ReversibleEnergyStorage::solve_energy_consumption   layout of `res_solve`
  ("gen_res_solve", do
    let r ← res; let prop ← float; let aux ← float; let dt ← float
    pure (resStr fRes (Gen.resSolve kF r prop aux dt))),
  -- min_speed                                      layout of `min_speed` (OpsSP)
  ("gen_min_speed", do
    let a ← float; let b ← float
    pure ("ok " ++ fF (Gen.minSpeed kF a b))),
  -- utils::almost_{eq,le,ge,gt,lt}(a, b, eps):  a b <opt eps>  ->  ok T|F     (no hand-model counterpart op)
  ("gen_almost_eq", do
    let a ← float; let b ← float; let e ← opt float
    pure ("ok " ++ fB (Gen.almostEq kF a b e))),
  ("gen_almost_le", do
    let a ← float; let b ← float; let e ← opt float
    pure ("ok " ++ fB (Gen.almostLe kF a b e))),
  ("gen_almost_ge", do
    let a ← float; let b ← float; let e ← opt float
    pure ("ok " ++ fB (Gen.almostGe kF a b e))),
  ("gen_almost_gt", do
    let a ← float; let b ← float; let e ← opt float
    pure ("ok " ++ fB (Gen.almostGt kF a b e))),
  ("gen_almost_lt", do
    let a ← float; let b ← float; let e ← opt float
    pure ("ok " ++ fB (Gen.almostLt kF a b e)))
]
end Driver.OpsGen
