import Driver.Common
import Driver.OpsPT
import Driver.OpsTrain
import Generated.TrainKernels
/-
  Ops that run the REGENERATED train-layer definitions (`Generated/TrainKernels.lean`, written from /repo's
  current Rust text by scan/translate_train_kernels.py) at IEEE `Float`.

  Each op `gen_<x>` has exactly the token layout and the answer format of the hand-model op `<x>` of
  Driver/OpsTrain.lean (parsers and printers are reused), so the harness emits it next to the existing one with
  the same expected answer (`KERNEL_OPS` in harness/src/proto.rs).  `Proofs/TrainKernels.lean` proves
  `GenTr.f = model f` over ordered fields; at `Float` the theorems do not apply literally, this is the
  executable cross-check of the translator's output against the real code.

  The regenerated definitions take the path as a `Tpc` and the trace samples as (vPrev vCur tPrev tCur):
  ops whose layout carries only the lists / only `dt` build a `Tpc` around the lists and use `tPrev = 0`,
  `tCur = dt` (`dt - 0 = dt` exactly); `gen_walk_stuck` builds the state before the step around the previous speed.
-/
namespace Driver.OpsGenTrain
open Altrios Altrios.Proto Altrios.Tpc Altrios.Rs Altrios.Tr Altrios.PT Altrios.CS Driver
open Driver.OpsPT Driver.OpsTrain

/-- a path that has only the given tables (the kernels read nothing else of it) -/
def tpcOf (lps : List (LinkPt Float)) (gs cs : List (PRC Float)) : Tpc Float :=
  { linkPoints := lps, grades := gs, curves := cs, speedPoints := [], cats := [],
    par := ⟨⟨0, 0, 0, 0, 0⟩, 0, 0, 0, 0⟩, isFinished := false }

def handlers : List (String × Handler) := [
  -- method::Strap::update_res                         layout of `update_res`
  ("gen_update_res", do
    let gs ← seq prc; let cs ← seq prc; let r ← resStrap; let s ← trainState; let d ← dir
    pure (resStr (fun (p : ResStrap Float × TrainState Float) => sp [fResStrap p.1, fTrainState p.2])
      (GenTr.updateRes accGrav rhoAir r s (tpcOf [] gs cs) d))),
  -- SetSpeedTrainSim::solve_required_pwr(dt)          layout of `ss_required_pwr`
  ("gen_ss_required_pwr", do
    let cs ← cState; let s ← trainState; let vp ← float; let vc ← float; let dt ← float
    pure (resStr fTrainState (GenTr.ssRequiredPwr cF cs s vp vc 0.0 dt dt))),
  -- tail of SetSpeedTrainSim::solve_step              layout of `ss_integrate`
  ("gen_ss_integrate", do
    let lps ← seq linkPt; let s ← trainState; let vp ← float; let vc ← float; let tc ← float
    pure (resStr fTrainState (GenTr.ssIntegrate cF (tpcOf lps [] []) s vp vc 0.0 tc))),
  -- SetSpeedTrainSim::solve_step                      layout of `ss_step`
  ("gen_ss_step", do
    let t ← tpc; let r ← resStrap; let con ← consist; let s ← trainState
    let vp ← float; let vc ← float; let tp ← float; let tc ← float
    pure (resStr (fun (x : Consist Float × ResStrap Float × TrainState Float) =>
        sp [fConsist x.1, fResStrap x.2.1, fTrainState x.2.2])
      (GenTr.ssStep kF cF accGrav rhoAir t con r s vp vc tp tc))),
  -- FricBrake::set_cur_force_max_out                  layout of `fric_set_cur_max`
  ("gen_fric_set_cur_max", do
    let f ← fricBrake; let dt ← float
    pure (resStr fFric (GenTr.fricSetCurMax f dt))),
  -- SpeedLimitTrainSim::solve_required_pwr            layout of `sl_required_pwr`
  ("gen_sl_required_pwr", do
    let fm ← float; let cs ← cState; let f ← fricBrake; let b ← bPoints; let s ← trainState
    pure (resStr (fun (x : FricBrake Float × BrakingPoints Float × TrainState Float) =>
        sp [fFric x.1, fN x.2.1.idxCurr, fTrainState x.2.2])
      (GenTr.slRequiredPwr cF Float.sqrt fm cs f b s))),
  -- SpeedLimitTrainSim::solve_step                    layout of `sl_step`
  ("gen_sl_step", do
    let t ← tpc; let r ← resStrap; let con ← consist; let fms ← seq float
    let f ← fricBrake; let b ← bPoints; let s ← trainState
    pure (resStr (fun (x : Consist Float × ResStrap Float × FricBrake Float × BrakingPoints Float × TrainState Float) =>
        sp [fConsist x.1, fResStrap x.2.1, fFric x.2.2.1, fN x.2.2.2.1.idxCurr, fTrainState x.2.2.2.2])
      (GenTr.slStep kF cF Float.sqrt (consistForceMax fms) accGrav rhoAir t con r f b s))),
  -- loop condition of SpeedLimitTrainSim::walk_internal   layout of `walk_cond`
  ("gen_walk_cond", do
    let e ← float; let s ← trainState
    pure ("ok " ++ fB (GenTr.walkCond ft1000 e s))),
  -- the `ensure!` after `self.step()?` in the loop of walk_internal   layout of `walk_stuck`
  -- (the regenerated definition takes the state BEFORE the step, of which it reads the speed only: built around it)
  ("gen_walk_stuck", do
    let e ← float; let vp ← float; let s ← trainState
    pure ("ok " ++ fB (GenTr.walkStuck ft1000 e { s with r := { s.r with speed := vp } } s))),
  -- SpeedLimitTrainSim::get_scaling_factor            layout of `scaling_factor`
  ("gen_scaling_factor", do
    let a ← bool; let d ← opt float
    pure ("ok " ++ fF (GenTr.scalingFactor 365.25 d a)))
]
end Driver.OpsGenTrain
