import Driver.Common
import Altrios.History
import Generated.HistoryTree
/-
  C19 driver ops.  The object tree (shape, call tables, phase order, constructor behaviour) comes
  from `Generated/HistoryTree.lean`, i.e. from the Rust sources of this very run.

    hist_run <kind> [ n <Variant>* ] <N | S interval> [ m <op>* ]
      kind      loco | consist | setSpeed | speedLimit
      variants  the consist composition (for `loco`: one variant)
      interval  the `save_interval` handed to `<Sim>::new`
      op        set <N | S n>     sim.set_save_interval(..)
                step              sim.step()  returned Ok
                fail              sim.step()  returned Err
                walk  <k> <T|F>   sim.walk(): k steps executed, T = ended with Err
                walkt <k> <T|F>   sim.walk_timed_path(..)
                poke  <k> <N | S n>   <k-th nested object>.save_interval = ..   (pub field, raw write)
                setat <k> <N | S n>   <k-th nested object>.set_save_interval(..) (the nested object's own setter)
                                      k = position among the nodes that carry an interval, in pre-order
                                      (= among the dump lines whose interval column is not `-`); out of range: bad op
    answer: `ok <n> <node>*` with, for every node that has a counter, a history or an interval, in
    pre-order: `<path> <i|-> <N|S n|-> <[ len i₁ … | ->`;   `panic` when a reached gate computes `i % 0`.

    hist_vec                       answer: `ok <calls>` — how often SpeedLimitTrainSimVec::set_save_interval
                                   calls set_save_interval on each element
-/
namespace Driver.OpsHist
open Altrios Altrios.Proto Altrios.Hist Driver
open Generated.HistoryTree

def variant : P Variant := do
  let w ← word
  match Variant.ofName w with
  | some v => pure v
  | none => throw s!"unknown powertrain variant {w}"

def kindP : P Kind := do
  let w ← word
  match Kind.ofName w with
  | some k => pure k
  | none => throw s!"unknown simulation kind {w}"

def nodeIdx (cnt : Nat) : P Nat := do
  let k ← nat
  if k < cnt then pure k else throw s!"node index {k} out of range (the tree has {cnt} objects with a save_interval)"

def opP (kind : Kind) (cnt : Nat) : P Op := do
  let w ← word
  match w with
  | "set" => do let v ← opt nat; pure (.set v)
  | "poke" => do let k ← nodeIdx cnt; let v ← opt nat; pure (.poke k v)
  | "setat" => do let k ← nodeIdx cnt; let v ← opt nat; pure (.setAt k v)
  | "step" => pure .step
  | "fail" => pure .stepFail
  | "walk" => do let k ← nat; let f ← bool; pure (.walk (walkInitSaves kind) k f)
  | "walkt" => do
    let k ← nat; let f ← bool
    match timedInitSaves kind with
    | some s => pure (.walk s k f)
    | none => throw "this kind has no walk_timed_path"
  | _ => throw s!"unknown op {w}"

def dumpStr (t : Tree) : String :=
  let ls := dump t
  ls.foldl (fun acc l => acc ++ " " ++ l) (toString ls.length)

def handlers : List (String × Handler) := [
  ("hist_run", do
    let kind ← kindP
    let vs ← seq variant
    let v0 ← opt nat
    let ops ← seq (opP kind (cntT (shape kind vs)))
    if !scanOk then throw ("scanner failed: " ++ scanError)
    let t0 := newT (newProg kind) v0 (shape kind vs)
    pure (resStr dumpStr (runR (stepOrder kind) ops t0))),
  ("hist_vec", do
    if !scanOk then throw ("scanner failed: " ++ scanError)
    pure ("ok " ++ toString simVecSetCalls))
]
end Driver.OpsHist
