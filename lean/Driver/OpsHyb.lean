import Driver.Common
import Driver.OpsPT
import Altrios.Hybrid
namespace Driver.OpsHyb
open Altrios Altrios.Proto Altrios.PT Altrios.Hyb Driver Driver.OpsPT

/-! hybrid locomotive ops (block `pt`, property C08); field order = the harness' `tok_hloco` -/

def hybrid : P (Hybrid Float) := do
  let a ← fc; let b ← gen; let c ← res; let d ← edrv; let s ← float
  pure { fc := a, gen := b, res := c, edrv := d, split := s }
def fHybrid (h : Hybrid Float) : String := sp [fFc h.fc, fGen h.gen, fRes h.res, fEdrv h.edrv, fF h.split]

def hloco : P (HLoco Float) := do
  let h ← hybrid
  let s ← locoState; let al ← bool; let off ← float; let co ← float
  pure { h := h, state := s, assertLimits := al, pwrAuxOffset := off, pwrAuxTractionCoeff := co }
def fHLoco (l : HLoco Float) : String :=
  sp [fHybrid l.h, fLocoState l.state, fB l.assertLimits, fF l.pwrAuxOffset, fF l.pwrAuxTractionCoeff]

def unitE : P (UnitE Float) := do
  let kind ← word
  match kind with
  | "conv" => do let f ← float; pure (UnitE.conv f)
  | "bel" => do let c ← float; pure (UnitE.bel c)
  | "hyb" => do let f ← float; let c ← float; pure (UnitE.hyb f c)
  | _ => throw "bad unit kind"

def handlers : List (String × Handler) := [
  ("consist3_totals", do
    let us ← seq unitE
    pure ("ok " ++ sp [fF (consistFuel us), fF (consistChem us)])),
  ("hyb_set_cur_max", do
    let h ← hybrid; let aux ← float; let dt ← float
    pure (resStr fHybrid (hybSetCurMax kF h aux dt))),
  ("hyb_solve", do
    let h ← hybrid; let req ← float; let dt ← float; let al ← bool; let split ← float; let ga ← float
    pure (resStr fHybrid (hybSolve kF h req dt al split ga))),
  ("hyb_gss_bounds", do
    let rm ← float; let gm ← float; let pin ← float
    let b := gssBounds rm gm pin
    pure ("ok " ++ sp [fF b.1, fF b.2])),
  ("hloco_set_aux", do
    let l ← hloco; let on ← opt bool
    pure ("ok " ++ fHLoco (hlocoSetAux l on))),
  ("hloco_set_cur_max", do
    let l ← hloco; let dt ← float
    pure (resStr fHLoco (hlocoSetCurMax kF l dt))),
  ("hloco_solve", do
    let l ← hloco; let req ← float; let dt ← float; let split ← float; let ga ← float
    pure (resStr fHLoco (hlocoSolve kF l req dt split ga))),
  ("hloco_sim_step", do
    let l ← hloco; let req ← float; let dt ← float; let on ← opt bool; let split ← float; let ga ← float
    pure (resStr fHLoco (hlocoSimStep kF l req dt on split ga)))
]
end Driver.OpsHyb
