import Driver.Common
import Altrios.Mass
/-
  Driver ops of block `mass` (property C20).  Token layout = the harness' `tok_*` functions in
  harness/src/b_mass.rs:
    comp   := <mass:opt f> <specific:opt f> <rating:f>
    loco   := conv <fc> <gen> | hybrid <fc> <gen> <res> | bel <res> | dummy
              then <mass:opt f> <mu:opt f> <ballast:opt f> <baseline:opt f> <force_max:f>
    rv     := <key:nat> <mass_static_base:f> <mass_freight:f>
    ncars  := <key:nat> <count:nat>
-/
namespace Driver.OpsMass
open Altrios Altrios.Proto Altrios.Mass Driver

/-- `1e-8` and `uc::ACC_GRAV` by bit pattern (printed by the harness from the crate's constants) -/
def kF : MC Float := { eps := Float.ofBits 0x3e45798ee2308c3a, g := Float.ofBits 0x40239a6490780ca6 }

def sp (l : List String) : String := " ".intercalate l

def comp : P (Comp Float) := do
  let m ← opt float; let s ← opt float; let r ← float
  pure ⟨m, s, r⟩
def fComp (c : Comp Float) : String := sp [fOpt fF c.mass, fOpt fF c.specific, fF c.rating]

def loco : P (Loco Float) := do
  let kind ← word
  let pt ← (match kind with
    | "conv" => do let a ← comp; let b ← comp; pure (PT.conv a b)
    | "hybrid" => do let a ← comp; let b ← comp; let c ← comp; pure (PT.hybrid a b c)
    | "bel" => do let a ← comp; pure (PT.bel a)
    | "dummy" => pure PT.dummy
    | _ => throw "bad loco kind")
  let m ← opt float; let mu ← opt float; let bal ← opt float; let base ← opt float; let f ← float
  pure { pt := pt, mass := m, mu := mu, ballast := bal, baseline := base, forceMax := f }
def fLoco (l : Loco Float) : String :=
  let pt := match l.pt with
    | .conv a b => sp ["conv", fComp a, fComp b]
    | .hybrid a b c => sp ["hybrid", fComp a, fComp b, fComp c]
    | .bel a => sp ["bel", fComp a]
    | .dummy => "dummy"
  sp [pt, fOpt fF l.mass, fOpt fF l.mu, fOpt fF l.ballast, fOpt fF l.baseline, fF l.forceMax]

def massSE : P MassSE := do
  match (← word) with
  | "se_none" => pure .none
  | "extensive" => pure .extensive
  | "intensive" => pure .intensive
  | _ => throw "bad mass side effect"
def forceSE : P ForceSE := do
  match (← word) with
  | "mass" => pure .mass
  | "update_mu" => pure .updateMu
  | "set_mu_to_none" => pure .setMuToNone
  | "set_mass_to_none" => pure .setMassToNone
  | "set_mass_and_mu_to_none" => pure .setMassAndMuToNone
  | _ => throw "bad force side effect"
def muSE : P MuSE := do
  match (← word) with
  | "mass" => pure .mass
  | "force_max" => pure .forceMax
  | "set_mass_to_none" => pure .setMassToNone
  | _ => throw "bad mu side effect"
def slot : P Slot := do
  match (← word) with
  | "fc" => pure .fc
  | "gen" => pure .gen
  | "res" => pure .res
  | _ => throw "bad slot"

def fStep (s : Step (Loco Float)) : String :=
  (if s.ok then "ok " else "err ") ++ fLoco s.st

def rv : P (RV Float) := do let k ← nat; let b ← float; let f ← float; pure ⟨k, b, f⟩
def ncar : P (Nat × Nat) := do let k ← nat; let c ← nat; pure (k, c)

def unitStr : Res Unit → String
  | .ok _ => "ok"
  | .err _ => "err"
  | .panic _ => "panic"

def compSet : Handler := do
  let c ← comp; let n ← opt float; let se ← massSE
  pure (resStr fComp (compSetMass c n se))
def compGet : Handler := do
  let c ← comp
  pure (resStr (fOpt fF) (compMass kF c))
def compDer : Handler := do
  let c ← comp
  pure ("ok " ++ fOpt fF (compDerived c))
def compExp : Handler := do
  let c ← comp
  pure ("ok " ++ fComp (compExpunge c))
def compLoad : Handler := do
  let c ← comp
  pure (unitStr (compInit kF c))

def handlers : List (String × Handler) := [
  -- the three component impls are the same code; one op name each so that a divergence is
  -- attributed to the right file
  ("fc_set_mass", compSet), ("gen_set_mass", compSet), ("res_set_mass", compSet),
  ("fc_mass", compGet), ("gen_mass", compGet), ("res_mass", compGet),
  ("fc_derived_mass", compDer), ("gen_derived_mass", compDer), ("res_derived_mass", compDer),
  ("fc_expunge", compExp), ("gen_expunge", compExp), ("res_expunge", compExp),
  ("fc_load", compLoad), ("gen_load", compLoad), ("res_load", compLoad),
  ("loco_set_mass", do
    let l ← loco; let n ← opt float; let se ← massSE
    pure (fStep (locoSetMass kF l n se))),
  ("loco_set_force_max", do
    let l ← loco; let f ← float; let se ← forceSE
    pure (fStep (locoSetForceMax kF l f se))),
  ("loco_set_mu", do
    let l ← loco; let mu ← float; let se ← muSE
    pure (fStep (locoSetMu kF l mu se))),
  ("loco_comp_set_mass", do
    let l ← loco; let s ← slot; let n ← opt float; let se ← massSE
    match locoCompSetMass l s n se with
    | some r => pure (resStr fLoco r)
    | none => pure "absent"),
  ("loco_mass", do
    let l ← loco
    pure (resStr (fOpt fF) (locoMass kF l))),
  ("loco_derived_mass_trait", do
    let l ← loco
    pure (resStr (fOpt fF) (locoDerivedTrait kF l))),
  ("loco_mu", do
    let l ← loco
    pure (resStr (fOpt fF) (locoMu kF l))),
  ("loco_force_max", do
    let l ← loco
    pure (resStr fF (locoForceMax kF l))),
  ("loco_expunge", do
    let l ← loco
    pure ("ok " ++ fLoco (locoExpunge l))),
  ("loco_load", do
    let l ← loco
    pure (unitStr (locoInit kF l))),
  ("consist_mass", do
    let ls ← seq loco
    pure (resStr (fOpt fF) (consistMass kF ls))),
  ("consist_force_max", do
    let ls ← seq loco
    pure (resStr fF (consistForceMax kF ls))),
  ("consist_load", do
    let ls ← seq loco
    pure (unitStr (consistInit kF ls))),
  ("train_towed", do
    let o ← opt float; let rvs ← seq rv; let n ← seq ncar
    pure (resStr fF (towedMass Float.ofNat o rvs n))),
  ("train_mass_static", do
    let o ← opt float; let rvs ← seq rv; let n ← seq ncar; let ls ← seq loco
    pure (resStr (fun p => sp [fF p.1, fF p.2]) (trainMassStatic kF Float.ofNat o rvs n ls)))
]
end Driver.OpsMass
