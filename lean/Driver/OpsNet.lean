import Driver.Common
import Altrios.Network
/-
  Driver ops of block `net` (property C16).  The validation model runs at `Num Rat`: a finite double
  is mapped to the rational it denotes (exactly; +0 and -0 both to 0), NaN/±∞ to their constructors.
  The legacy-layout conversion is number-agnostic and runs at raw bit patterns so that its output
  can be printed back bit for bit.
-/
namespace Driver.OpsNet
open Altrios Altrios.Proto Altrios.Net Driver

/-! ### numbers -/

def bitsOf : P Nat := do
  let t ← next
  match t.toList with
  | 'x' :: cs =>
    match parseHex cs with
    | some n => pure n
    | none => throw s!"bad float {t}"
  | _ => throw s!"bad float {t}"

/-- the rational a finite binary64 bit pattern denotes -/
def ratOfBits (b : Nat) : Rat :=
  let s : Nat := b >>> 63
  let e : Nat := (b >>> 52) % 2048
  let m : Nat := b % (2 ^ 52)
  let num : Nat := if e == 0 then m else 2 ^ 52 + m
  let ex : Int := (if e == 0 then 1 else (e : Int)) - 1075
  let mag : Rat :=
    if ex ≥ 0 then ((num * 2 ^ ex.toNat : Nat) : Rat) else mkRat (num : Int) (2 ^ (-ex).toNat)
  if s == 1 then -mag else mag

def numOfBits (b : Nat) : Num Rat :=
  let e : Nat := (b >>> 52) % 2048
  let m : Nat := b % (2 ^ 52)
  if e == 2047 then
    if m != 0 then .nan else if b >>> 63 == 1 then .negInf else .posInf
  else .fin (ratOfBits b)

def numQ : P (Num Rat) := numOfBits <$> bitsOf
/-- raw bits (for the conversion ops): every number is `fin bits` -/
def numB : P (Num Nat) := Num.fin <$> bitsOf

/-- `uc::REV` = 6.283185307179586 -/
def revBits : Nat := 0x401921FB54442D18

def cfgQ : NumCfg Rat := { zero := 0, rev := ratOfBits revBits, isInt := fun q => q.den == 1 }

/-! ### parsers (field order = the harness' `tok_*` functions = the Rust structs) -/

def strTok : P String := next

def trainType : P TrainType := do
  match (← next) with
  | "None" => pure .none | "Freight" => pure .freight | "Passenger" => pure .passenger
  | "Intermodal" => pure .intermodal | "HighSpeedPassenger" => pure .highSpeedPassenger
  | "TiltTrain" => pure .tiltTrain | "Commuter" => pure .commuter
  | t => throw s!"bad train type {t}"
def fTrainType : TrainType → String
  | .none => "None" | .freight => "Freight" | .passenger => "Passenger" | .intermodal => "Intermodal"
  | .highSpeedPassenger => "HighSpeedPassenger" | .tiltTrain => "TiltTrain" | .commuter => "Commuter"
def trainTypeOrd : TrainType → Nat
  | .none => 0 | .freight => 1 | .passenger => 2 | .intermodal => 3
  | .highSpeedPassenger => 4 | .tiltTrain => 5 | .commuter => 6

def limitType : P LimitType := do
  match (← next) with
  | "MassTotal" => pure .massTotal | "MassPerBrake" => pure .massPerBrake | "AxleCount" => pure .axleCount
  | t => throw s!"bad limit type {t}"
def fLimitType : LimitType → String
  | .massTotal => "MassTotal" | .massPerBrake => "MassPerBrake" | .axleCount => "AxleCount"

def compareType : P CompareType := do
  match (← next) with
  | "TpEqualRp" => pure .tpEqualRp | "TpGreaterThanRp" => pure .tpGreaterThanRp
  | "TpLessThanRp" => pure .tpLessThanRp | "TpGreaterThanEqualRp" => pure .tpGreaterThanEqualRp
  | "TpLessThanEqualRp" => pure .tpLessThanEqualRp
  | t => throw s!"bad compare type {t}"
def fCompareType : CompareType → String
  | .tpEqualRp => "TpEqualRp" | .tpGreaterThanRp => "TpGreaterThanRp" | .tpLessThanRp => "TpLessThanRp"
  | .tpGreaterThanEqualRp => "TpGreaterThanEqualRp" | .tpLessThanEqualRp => "TpLessThanEqualRp"

section
variable {β : Type} (num : P (Num β))

def elev : P (Elev β) := do let o ← num; let e ← num; pure ⟨o, e⟩
def heading : P (Heading β) := do
  let o ← num; let h ← num; let la ← opt num; let lo ← opt num; pure ⟨o, h, la, lo⟩
def speedLimit : P (SpeedLimit β) := do let s ← num; let e ← num; let v ← num; pure ⟨s, e, v⟩
def speedParam : P (SpeedParam β) := do
  let v ← num; let lt ← limitType; let ct ← compareType; pure ⟨v, lt, ct⟩
def speedSet : P (SpeedSet β) := do
  let ls ← seq (speedLimit num); let ps ← seq (speedParam num); let he ← bool; pure ⟨ls, ps, he⟩
def oldSpeedSet : P (OldSpeedSet β) := do
  let ls ← seq (speedLimit num); let ps ← seq (speedParam num); let tt ← trainType; let he ← bool
  pure ⟨ls, ps, tt, he⟩
def cat : P (CatPowerLimit β) := do
  let s ← num; let e ← num; let p ← num; let d ← opt strTok; pure ⟨s, e, p, d⟩
def kv : P (TrainType × SpeedSet β) := do let k ← trainType; let s ← speedSet num; pure (k, s)

def link : P (Link β) := do
  let ic ← nat; let ifl ← nat; let inx ← nat; let ina ← nat; let ip ← nat; let ipa ← nat
  let osm ← opt strTok
  let len ← num
  let es ← seq (elev num); let hs ← seq (heading num)
  let sss ← seq (kv num); let ss ← opt (speedSet num)
  let cs ← seq (cat num); let lo ← seq nat
  pure { idxCurr := ic, idxFlip := ifl, idxNext := inx, idxNextAlt := ina, idxPrev := ip,
         idxPrevAlt := ipa, osmId := osm, length := len, elevs := es, headings := hs,
         speedSets := sss, speedSet := ss, catPowerLimits := cs, lockout := lo }

/-- legacy layout, field order of `link_old.rs::Link` -/
def linkOld : P (LinkOld β) := do
  let es ← seq (elev num); let hs ← seq (heading num)
  let sss ← seq (oldSpeedSet num)
  let cs ← seq (cat num)
  let len ← num
  let inx ← nat; let ina ← nat; let ip ← nat; let ipa ← nat; let ic ← nat; let ifl ← nat
  let osm ← opt strTok; let lo ← seq nat
  pure { elevs := es, headings := hs, speedSets := sss, catPowerLimits := cs, length := len,
         idxNext := inx, idxNextAlt := ina, idxPrev := ip, idxPrevAlt := ipa, idxCurr := ic,
         idxFlip := ifl, osmId := osm, lockout := lo }
end

/-! ### printers (raw-bit instance only) -/

def fNumB : Num Nat → String
  | .fin b => "x" ++ hex16 b
  | _ => "x?"
def fElev (e : Elev Nat) : String := fNumB e.offset ++ " " ++ fNumB e.elev
def fHeading (h : Heading Nat) : String :=
  join [fNumB h.offset, fNumB h.heading, fOpt fNumB h.lat, fOpt fNumB h.lon]
def fSpeedLimit (s : SpeedLimit Nat) : String :=
  join [fNumB s.offsetStart, fNumB s.offsetEnd, fNumB s.speed]
def fSpeedParam (p : SpeedParam Nat) : String :=
  join [fNumB p.limitVal, fLimitType p.limitType, fCompareType p.compareType]
def fSpeedSet (s : SpeedSet Nat) : String :=
  join [fSeq fSpeedLimit s.speedLimits, fSeq fSpeedParam s.speedParams, fB s.isHeadEnd]
def fCat (x : CatPowerLimit Nat) : String :=
  join [fNumB x.offsetStart, fNumB x.offsetEnd, fNumB x.powerLimit, fOpt id x.districtId]
def fKv (kv : TrainType × SpeedSet Nat) : String := fTrainType kv.1 ++ " " ++ fSpeedSet kv.2

def insertSorted (x : TrainType × SpeedSet Nat) : List (TrainType × SpeedSet Nat) → List (TrainType × SpeedSet Nat)
  | [] => [x]
  | y :: t => if trainTypeOrd x.1 ≤ trainTypeOrd y.1 then x :: y :: t else y :: insertSorted x t
/-- canonical print order of the hash map: by train type -/
def sortKv (l : List (TrainType × SpeedSet Nat)) : List (TrainType × SpeedSet Nat) :=
  l.foldr insertSorted []

def fLink (l : Link Nat) : String :=
  join [fN l.idxCurr, fN l.idxFlip, fN l.idxNext, fN l.idxNextAlt, fN l.idxPrev, fN l.idxPrevAlt,
        fOpt id l.osmId, fNumB l.length, fSeq fElev l.elevs, fSeq fHeading l.headings,
        fSeq fKv (sortKv l.speedSets), fOpt fSpeedSet l.speedSet, fSeq fCat l.catPowerLimits,
        fSeq fN l.lockout]

def fOutcome : Outcome → String
  | .ok => "ok" | .err => "err" | .panic => "panic"
def fValid (b : Bool) : String := if b then "ok" else "err"

def handlers : List (String × Handler) := [
  ("const_rev", pure ("ok x" ++ hex16 revBits)),
  -- `<[Link] as ObjState>::validate`
  ("validate_net", do
    let n ← seq (link numQ)
    pure (fOutcome (validateNet cfgQ n))),
  -- `Network::from(NetworkOld).validate()`
  ("validate_old_net", do
    let o ← seq (linkOld numQ)
    pure (fOutcome (validateNet cfgQ (fromOld o)))),
  -- `<Link as ObjState>::validate`
  ("validate_link", do
    let l ← link numQ
    pure (fOutcome (validateLink cfgQ l))),
  ("validate_elevs", do
    let es ← seq (elev numQ); pure (fValid (elevsValid cfgQ es))),
  ("validate_headings", do
    let hs ← seq (heading numQ); pure (fValid (headingsValid cfgQ hs))),
  ("validate_speed_limits", do
    let ls ← seq (speedLimit numQ); pure (fValid (speedLimitsValid cfgQ ls))),
  ("validate_speed_params", do
    let ps ← seq (speedParam numQ); pure (fValid (speedParamsValid cfgQ ps))),
  ("validate_speed_set", do
    let s ← speedSet numQ; pure (fValid (speedSetValid cfgQ s))),
  ("validate_cats", do
    let xs ← seq (cat numQ); pure (fValid (catsValid cfgQ xs))),
  -- `Link::from(LinkOld)`, printed with the map sorted by train type
  ("from_old_link", do
    let o ← linkOld numB
    pure ("ok " ++ fLink (fromOldLink o)))
]
end Driver.OpsNet
