import Driver.Common
import Altrios.Powertrain
import Altrios.Consist
namespace Driver.OpsPT
open Altrios Altrios.Proto Altrios.PT Altrios.CS Altrios.Interp Driver

def kF : Consts Float := { tol := 1e-3, eps := 1e-8, c005 := 0.05, ten := 10.0 }

def fl := seq float
def fFs (l : List Float) : String := fSeq fF l
def sp (l : List String) : String := " ".intercalate l

/-! parsers / printers, field order = the harness' `tok_*` functions -/

def fcState : P (FCState Float) := do
  let a ← float; let b ← float; let c ← float; let d ← float; let e ← float; let f ← float
  let g ← float; let h ← float; let i ← float; let j ← float; let on ← bool
  pure ⟨a, b, c, d, e, f, g, h, i, j, on⟩
def fFcState (s : FCState Float) : String :=
  sp [fF s.pwrOutMax, fF s.eta, fF s.pwrBrake, fF s.pwrFuel, fF s.pwrLoss, fF s.pwrIdleFuel,
      fF s.energyBrake, fF s.energyFuel, fF s.energyLoss, fF s.energyIdleFuel, fB s.engineOn]
def fc : P (FC Float) := do
  let pm ← float; let pi ← float; let lag ← float; let fr ← fl; let et ← fl; let idle ← float
  let s ← fcState
  pure { state := s, pwrOutMax := pm, pwrOutMaxInit := pi, pwrRampLag := lag, fracInterp := fr,
         etaInterp := et, pwrIdleFuel := idle }
def fFc (x : FC Float) : String :=
  sp [fF x.pwrOutMax, fF x.pwrOutMaxInit, fF x.pwrRampLag, fFs x.fracInterp, fFs x.etaInterp,
      fF x.pwrIdleFuel, fFcState x.state]

def genState : P (GenState Float) := do
  let a ← float; let b ← float; let c ← float; let d ← float; let e ← float; let f ← float
  let g ← float; let h ← float; let i ← float; let j ← float; let k ← float; let l ← float
  pure ⟨a, b, c, d, e, f, g, h, i, j, k, l⟩
def fGenState (s : GenState Float) : String :=
  sp [fF s.eta, fF s.pwrElecPropOutMax, fF s.pwrElecOutMax, fF s.pwrRateOutMax, fF s.pwrMechIn,
      fF s.pwrElecPropOut, fF s.pwrElecAux, fF s.pwrLoss, fF s.energyMechIn, fF s.energyElecPropOut,
      fF s.energyElecAux, fF s.energyLoss]
def gen : P (Gen Float) := do
  let pm ← float; let fr ← fl; let et ← fl; let inf ← fl; let s ← genState
  pure { state := s, pwrOutMax := pm, fracInterp := fr, etaInterp := et, inFracInterp := inf }
def fGen (x : Gen Float) : String :=
  sp [fF x.pwrOutMax, fFs x.fracInterp, fFs x.etaInterp, fFs x.inFracInterp, fGenState x.state]

def edrvState : P (EdrvState Float) := do
  let a ← float; let b ← float; let c ← float; let d ← float; let e ← float; let f ← float
  let g ← float; let h ← float; let i ← float; let j ← float; let k ← float; let l ← float
  let m ← float; let n ← float; let o ← float
  pure ⟨a, b, c, d, e, f, g, h, i, j, k, l, m, n, o⟩
def fEdrvState (s : EdrvState Float) : String :=
  sp [fF s.eta, fF s.pwrMechOutMax, fF s.pwrMechRegenMax, fF s.pwrRateOutMax, fF s.pwrOutReq,
      fF s.pwrElecPropIn, fF s.pwrMechPropOut, fF s.pwrMechDynBrake, fF s.pwrElecDynBrake, fF s.pwrLoss,
      fF s.energyElecPropIn, fF s.energyMechPropOut, fF s.energyMechDynBrake, fF s.energyElecDynBrake,
      fF s.energyLoss]
def edrv : P (Edrv Float) := do
  let pm ← float; let fr ← fl; let et ← fl; let inf ← fl; let s ← edrvState
  pure { state := s, pwrOutMax := pm, fracInterp := fr, etaInterp := et, inFracInterp := inf }
def fEdrv (x : Edrv Float) : String :=
  sp [fF x.pwrOutMax, fFs x.fracInterp, fFs x.etaInterp, fFs x.inFracInterp, fEdrvState x.state]

def resState : P (ResState Float) := do
  let a ← float; let b ← float; let c ← float; let d ← float; let e ← float; let f ← float
  let g ← float; let h ← float; let i ← float; let j ← float; let k ← float; let l ← float
  let m ← float; let n ← float; let o ← float; let p ← float; let q ← float; let r ← float
  let s ← float; let t ← float; let u ← float
  pure ⟨a, b, c, d, e, f, g, h, i, j, k, l, m, n, o, p, q, r, s, t, u⟩
def fResState (s : ResState Float) : String :=
  sp [fF s.pwrPropOutMax, fF s.pwrRegenOutMax, fF s.pwrDischMax, fF s.pwrChargeMax, fF s.soc, fF s.eta,
      fF s.pwrOutElectrical, fF s.pwrOutPropulsion, fF s.pwrAux, fF s.pwrLoss, fF s.pwrOutChemical,
      fF s.energyOutElectrical, fF s.energyOutPropulsion, fF s.energyAux, fF s.energyLoss,
      fF s.energyOutChemical, fF s.maxSoc, fF s.socHiRampStart, fF s.minSoc, fF s.socLoRampStart,
      fF s.temperature]
def vals3 : P (List (List (List Float))) := seq (seq fl)
def fVals3 (v : List (List (List Float))) : String := fSeq (fSeq fFs) v
def res : P (RES Float) := do
  let pm ← float; let cap ← float; let capWh ← float; let mn ← float; let mx ← float
  let hi ← opt float; let lo ← opt float
  let gt ← fl; let gs ← fl; let gc ← fl; let v ← vals3; let s ← resState
  pure { state := s, pwrOutMax := pm, energyCapacity := cap, capWh := capWh, minSoc := mn, maxSoc := mx,
         socHiRampStart := hi, socLoRampStart := lo, gridT := gt, gridSoc := gs, gridC := gc, etaVals := v }
def fRes (x : RES Float) : String :=
  sp [fF x.pwrOutMax, fF x.energyCapacity, fF x.capWh, fF x.minSoc, fF x.maxSoc,
      fOpt fF x.socHiRampStart, fOpt fF x.socLoRampStart, fFs x.gridT, fFs x.gridSoc, fFs x.gridC,
      fVals3 x.etaVals, fResState x.state]

def locoState : P (LocoState Float) := do
  let a ← float; let b ← float; let c ← float; let d ← float; let e ← float; let f ← float; let g ← float
  pure ⟨a, b, c, d, e, f, g⟩
def fLocoState (s : LocoState Float) : String :=
  sp [fF s.pwrOutMax, fF s.pwrRateOutMax, fF s.pwrRegenMax, fF s.pwrOut, fF s.pwrAux, fF s.energyOut,
      fF s.energyAux]
def loco : P (Loco Float) := do
  let kind ← word
  let pt ← (match kind with
    | "conv" => do let a ← fc; let b ← gen; let c ← edrv; pure (Powertrain.conv a b c)
    | "bel" => do let a ← res; let b ← edrv; pure (Powertrain.bel a b)
    | _ => throw "bad loco kind")
  let s ← locoState; let al ← bool; let off ← float; let co ← float
  pure { pt := pt, state := s, assertLimits := al, pwrAuxOffset := off, pwrAuxTractionCoeff := co }
def fLoco (l : Loco Float) : String :=
  let pt := match l.pt with
    | .conv a b c => sp ["conv", fFc a, fGen b, fEdrv c]
    | .bel a b => sp ["bel", fRes a, fEdrv b]
  sp [pt, fLocoState l.state, fB l.assertLimits, fF l.pwrAuxOffset, fF l.pwrAuxTractionCoeff]

def cState : P (ConsistState Float) := do
  let a ← float; let b ← float; let c ← float; let d ← float; let e ← float; let f ← float
  let g ← float; let h ← float; let i ← float; let j ← float; let k ← float; let l ← float
  let m ← float; let n ← float; let o ← float; let p ← float; let q ← float
  pure ⟨a, b, c, d, e, f, g, h, i, j, k, l, m, n, o, p, q⟩
def fCState (s : ConsistState Float) : String :=
  sp [fF s.pwrOutMax, fF s.pwrRateOutMax, fF s.pwrRegenMax, fF s.pwrOutMaxReves, fF s.pwrOutDeficit,
      fF s.pwrOutMaxNonReves, fF s.pwrRegenDeficit, fF s.pwrDynBrakeMax, fF s.pwrOutReq, fF s.pwrOut,
      fF s.pwrReves, fF s.pwrFuel, fF s.energyOut, fF s.energyOutPos, fF s.energyOutNeg, fF s.energyRes,
      fF s.energyFuel]
def consist : P (Consist Float) := do
  let ls ← seq loco
  let pol ← word
  let pol ← (match pol with
    | "proportional" => pure Policy.proportional
    | "res_greedy" => pure Policy.resGreedy
    | _ => throw "bad policy")
  let al ← bool; let s ← cState
  pure { locos := ls, pdct := pol, assertLimits := al, state := s }
def fConsist (c : Consist Float) : String :=
  sp [fSeq fLoco c.locos, (match c.pdct with | .proportional => "proportional" | .resGreedy => "res_greedy"),
      fB c.assertLimits, fCState c.state]

def handlers : List (String × Handler) := [
  ("interp1d", do
    let x ← float; let xs ← fl; let ys ← fl
    pure (resStr fF (interp1d x xs ys))),
  ("interp3d", do
    let x ← float; let y ← float; let z ← float
    let gx ← fl; let gy ← fl; let gz ← fl; let v ← vals3
    pure (resStr fF (interp3d x y z gx gy gz v))),
  ("fc_set_cur_max", do
    let a ← fc; let dt ← float
    pure (resStr fFc (fcSetCurMax kF a dt))),
  ("fc_solve", do
    let a ← fc; let req ← float; let dt ← float; let on ← bool; let al ← bool
    pure (resStr fFc (fcSolve kF a req dt on al))),
  ("gen_set_cur_max", do
    let g ← gen; let pin ← float; let aux ← float
    pure (resStr fGen (genSetCurMax g pin aux))),
  ("gen_req", do
    let g ← gen; let prop ← float; let aux ← float; let dt ← float
    pure (resStr fGen (genReq g prop aux dt))),
  ("edrv_set_cur_max", do
    let e ← edrv; let pin ← float
    pure (resStr fEdrv (edrvSetCurMax e pin))),
  ("edrv_set_regen_max", do
    let e ← edrv; let rin ← float
    pure (resStr fEdrv (edrvSetRegenMax e rin))),
  ("edrv_req", do
    let e ← edrv; let req ← float; let dt ← float
    pure (resStr fEdrv (edrvReq e req dt))),
  ("res_set_cur_max", do
    let r ← res; let aux ← float; let cb ← float; let db ← float
    pure (resStr fRes (resSetCurMax kF r aux cb db))),
  ("res_solve", do
    let r ← res; let prop ← float; let aux ← float; let dt ← float
    pure (resStr fRes (resSolve kF r prop aux dt))),
  ("loco_set_aux", do
    let l ← loco; let on ← opt bool
    pure ("ok " ++ fLoco (locoSetAux l on))),
  ("loco_set_cur_max", do
    let l ← loco; let dt ← float
    pure (resStr fLoco (locoSetCurMax kF l dt))),
  ("loco_solve", do
    let l ← loco; let req ← float; let dt ← float; let on ← opt bool
    pure (resStr fLoco (locoSolve kF l req dt on))),
  ("loco_sim_step", do
    let l ← loco; let req ← float; let dt ← float; let on ← opt bool
    pure (resStr fLoco (locoSimStep kF l req dt on))),
  ("consist_set_cur_max", do
    let c ← consist; let dt ← float
    pure (resStr fConsist (consistSetCurMax kF c dt))),
  ("consist_solve", do
    let c ← consist; let req ← float; let dt ← float; let on ← opt bool
    pure (resStr fConsist (consistSolve kF c req dt on))),
  ("consist_sim_step", do
    let c ← consist; let req ← float; let dt ← float
    pure (resStr fConsist (consistSimStep kF c req dt))),
  ("consist_totals", do
    let c ← consist
    pure ("ok " ++ sp [fF (getEnergyFuel c), fF (getNetEnergyRes c)]))
]
end Driver.OpsPT
