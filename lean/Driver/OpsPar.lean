import Driver.Common
import Altrios.Par
/-
  Driver ops for C18 (`Altrios/Par.lean`).  The real parallel walk's schedule cannot be observed, so
  the ops check the MODEL's predictions against what the harness observed on the real code:

    ser_run  [ n fail…                         the serial loop (`walk(false)`) on a batch whose elements fail
                                               (walked alone) exactly where `fail` says
             → ok [ n walked… <reported>       which elements end up walked, which index the error names
    par_check [ n fail… [ n walked… <reported> an observation of the real PARALLEL walk (any pool size)
             → ok T                            iff some admissible schedule produces exactly this observation:
                                               closed form `explainable` AND the witness schedule re-run
                                               through `runSchedule` reproduce it (they agree by
                                               `C18_explainable_iff`; `ok T`/`ok F` only if they do)
    cars_total [ n v…                          `TrainConfig::cars_total` over the map's values in the
             → ok total | panic                implementation's own iteration order (u32, overflow checked)
    find_key [ n key… key                      `extract_speed_set`'s `iter().find` over the map's keys in the
             → ok S idx | ok N                 implementation's own iteration order
-/
namespace Driver.OpsPar
open Altrios Altrios.Proto Altrios.Par Driver

def reported : P (Option Nat) := opt nat

def fBools (l : List Bool) : String := fSeq fB l

/-- run a schedule on the abstract batch and read off the observation -/
def observeSched (failBits : List Bool) (s : Sched) : Obs × List (Nat × Nat) :=
  let r := runSchedule absWalk (absBatch failBits) s
  (⟨r.1.map (fun e => e.status != .untouched), none⟩, r.2)

def handlers : List (String × Handler) := [
  ("ser_run", do
    let failBits ← seq bool
    let r := runSerial absWalk (absBatch failBits)
    let walked := r.1.map (fun e => e.status != .untouched)
    -- the same run as a schedule (C18_serial_is_schedule): both must agree
    let s := serialSched absWalk (absBatch failBits)
    let (o2, errs2) := observeSched failBits s
    if o2.proc == walked && errs2.head?.map (·.1) == r.2.map (·.1) && s.admissible absWalk (absBatch failBits) then
      pure ("ok " ++ fBools walked ++ " " ++ fOpt fN (r.2.map (·.1)))
    else
      pure "ok-serial-schedule-differ"),
  ("par_check", do
    let failBits ← seq bool
    let walked ← seq bool
    let rep ← reported
    let batch := absBatch failBits
    let o : Obs := ⟨walked, rep⟩
    let a := explainable absWalk batch o
    let w := witness o
    let b := explains absWalk batch w o
    -- independent re-run of the witness through runSchedule
    let (o2, errs2) := observeSched failBits w
    let c := w.admissible absWalk batch && o2.proc == walked &&
      (match rep with
       | none => errs2.isEmpty
       | some r => errs2.any (fun p => p.1 == r))
    if a == b && b == c then pure ("ok " ++ fB a) else pure "ok-characterisation-witness-differ"),
  ("cars_total", do
    let vals ← seq nat
    match carsTotalChecked 4294967295 vals with
    | some t => pure ("ok " ++ fN t)
    | none => pure "panic"),
  ("find_key", do
    let keys ← seq word
    let k ← word
    let entries := (List.range keys.length).map (fun i => (keys.getD i "", i))
    match findEntry entries k with
    | some p => pure ("ok S " ++ fN p.2)
    | none => pure "ok N")
]
end Driver.OpsPar
