import Driver.Common
import Altrios.FreePath
/-
  Driver ops of block `c05` (property C05): the sentinel searches of free_path.rs, the plan
  checker and the queue bookkeeping of run_dispatch.
-/
namespace Driver.OpsPlan
open Altrios Altrios.Proto Altrios.FreePath Driver

def faultStr : Fault → String
  | .assert => "panic assert"
  | .index => "panic index"
  | .overflow => "panic overflow"
  | .unreachable => "panic unreachable"
  | .oob => "abort"          -- undefined behaviour: the debug build's UB check aborts the process
  | .fuel => "fuel"

def outStr {σ} (f : σ → String) : Out σ → String
  | .ok v => "ok " ++ f v
  | .fault e => faultStr e

def linkOpt : P LinkOpt := do
  let k ← nat; let a ← nat; let b ← nat
  match k with
  | 0 => pure .none
  | 1 => pure (.single a)
  | 2 => pure (.range a b)
  | _ => pure .check

def fLinkOpt : LinkOpt → String
  | .none => "0 0 0"
  | .single l => s!"1 {l} 0"
  | .range a b => s!"2 {a} {b}"
  | .check => "3 0 0"

def pair : P (Nat × Nat) := do let a ← nat; let b ← nat; pure (a, b)
def fNats (l : List Nat) : String := fSeq fN l
def fBufView (r : List Nat × View) : String := fNats r.1 ++ s!" {r.2.1} {r.2.2}"

def estNode : P (EstNode Float) := do
  let n ← nat; let a ← nat; let t ← float; let l ← nat; let ty ← nat
  pure ⟨n, a, t, l, ty⟩

def trainIn : P (TrainIn Float) := do
  let o ← seq nat; let d ← seq nat; let dep ← float; let est ← seq estNode
  pure ⟨o, d, dep, est⟩

def routeP : P (Route Float) := seq (do let l ← nat; let t ← float; pure (l, t))

def ans : P (Ans Float) := do
  let b ← bool; let f ← bool; let t ← float
  pure ⟨b, f, t⟩

def handlers : List (String × Handler) := [
  ("c05_link_opt", do
    let bl ← seq nat; let op ← seq nat
    pure (outStr fLinkOpt (linkOptNew bl op))),
  ("c05_calc_sent", do
    let di ← nat; let s ← nat; let dn ← seq pair
    pure (outStr (fun r => s!"{r.1} {r.2}") (calcIdxSentinels di s dn))),
  ("c05_find_int", do
    let sp ← nat; let se ← nat; let t ← linkOpt; let path ← seq nat; let bl ← seq nat
    pure (outStr (fun r => s!"{r.1} " ++ fNats r.2) (findTrainIntersect sp se t path bl))),
  ("c05_add_block", do
    let tb ← seq nat; let b ← pair; let a ← pair
    pure (outStr fBufView (addBlockingTrains tb b a))),
  ("c05_add_all", do
    let tb ← seq nat; let l ← pair; let s ← pair
    pure (outStr fBufView (addAllBlockingTrains tb l s))),
  ("c05_concat", do
    let tb ← seq nat; let v ← pair; let a ← pair
    pure (outStr fBufView (concatViews tb v a))),
  ("c05_plan_ok", do
    let adj ← seq pair; let trains ← seq trainIn; let plan ← seq routeP
    pure ("ok " ++ fB (planOk adj trains plan))),
  ("c05_queue", do
    let deps ← seq float; let as ← seq ans
    let (pops, s) := qRun (qInit deps) as
    let tail := match qResult s with
      | none => "running"
      | some stuck => "done " ++ fNats stuck
    pure ("ok " ++ fNats pops ++ " " ++ tail ++ s!" {s.finished.length}"))
]
end Driver.OpsPlan
