import Driver.Common
import Altrios.SpeedPoints
namespace Driver.OpsSP
open Altrios Altrios.Proto Altrios.SP Driver

def pt : P (Pt Float) := do let o ← float; let s ← float; pure ⟨o, s⟩
def lim : P (Lim Float) := do let s ← float; let e ← float; let v ← float; pure ⟨s, e, v⟩
def fPt (p : Pt Float) : String := fF p.off ++ " " ++ fF p.spd
def fPts (l : List (Pt Float)) : String := fSeq fPt l

def sparam : P (SParam Float) := do
  let v ← float
  let lt ← word
  let ct ← word
  let lt ← (match lt with
    | "mass_total" => pure LimitType.massTotal
    | "mass_per_brake" => pure LimitType.massPerBrake
    | "axle_count" => pure LimitType.axleCount
    | _ => throw "bad limit type")
  let ct ← (match ct with
    | "eq" => pure CompareType.eq | "gt" => pure CompareType.gt | "lt" => pure CompareType.lt
    | "ge" => pure CompareType.ge | "le" => pure CompareType.le
    | _ => throw "bad compare type")
  pure ⟨v, lt, ct⟩

def toU32 (x : Float) : Nat := x.toUInt32.toNat

def handlers : List (String × Handler) := [
  ("min_speed", do
    let a ← float; let b ← float
    pure ("ok " ++ fF (minSpeed a b))),
  -- literal transcription
  ("insert_speed", do
    let pts ← seq pt; let l ← lim
    pure (resStr fPts (insertSpeedIdx pts l))),
  -- structural definition (must agree with the literal one whenever that is `ok`)
  ("insert_speed_struct", do
    let pts ← seq pt; let l ← lim
    pure (if pre pts l then "ok " ++ fPts (insertSpeed pts l) else "panic")),
  -- pts base length speed_max towed_mass mass_per_brake axle_count is_head_end params limits
  ("add_speeds", do
    let pts ← seq pt; let base ← float; let len ← float; let vmax ← float
    let towed ← float; let mpb ← float; let axles ← nat; let he ← bool
    let ps ← seq sparam; let lims ← seq lim
    let tp : TrainP Float := ⟨len, vmax, towed, mpb, axles⟩
    let a := addSpeedsIdx toU32 pts tp ps he lims base
    let b := addSpeeds toU32 pts tp ps he lims base
    match a with
    | .ok r => if r == b then pure ("ok " ++ fPts r) else pure ("ok-literal-structural-differ " ++ fPts r)
    | _ => pure (resStr fPts a)),
  ("val_at", do
    let pts ← seq pt; let x ← float
    pure ("ok " ++ fF (val pts x)))
]
end Driver.OpsSP
