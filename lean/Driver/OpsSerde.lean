import Driver.Common
import Altrios.Serde
import Generated.SerdeSchema
/-
  C17 driver ops: the structural codec model (Altrios/Serde.lean) over the scanner's table
  (Generated/SerdeSchema.lean) is run on the SHAPE of what the real encoder wrote
  (harness: `serde_yaml::to_value(x)` with leaves abstracted) and must reproduce

    serde_shape <Type> <shape>   →  ok <omitted paths> | <shape>
        `decSelf` reads the real encoder's output against the scanned schema (every key must be a
        schema key, every required field present), `encSelf` writes it back: the result must be the
        very same tree — same keys (incl. `rename`s), same ORDER (declaration order, which is what
        the positional format relies on), same nesting.  <omitted paths> = the conditionally
        skipped fields (per the scanned attributes) that are absent from the real output; the
        implementation's answer lists the fields whose predicate holds by TYPED FIELD ACCESS
        (`x.state == Default::default()`, `x.osm_id.is_none()` …): "absent ⇔ predicate holds".

    serde_bin <Type> <shape>     →  ok <byte count> <T|F>
        byte count of `bincode::serialize(x)` predicted from `encSeq` (atoms sized by their Rust
        type; Option tag 1, length prefix 8, variant index 4): ties "serde writes NOTHING for a
        skipped field" and the declaration order to the real positional encoder;
        T/F = does `decSeq (encSeq v) = some (norm v, [])` hold — must equal "the real
        `from_bincode(to_bincode(x))` succeeded and returned an equal object".

  shape tokens:  ~ (null)   #i #f #b (integer / float / bool leaf)   =<pct-encoded string>
                 [ n e₁ … eₙ      { n =k₁ v₁ … =kₙ vₙ

    serde_missing <Type> =<key> <shape>  →  ok <T|F>
        does the object still load when that top-level key is deleted from the real output?
-/
namespace Driver.OpsSerde
open Altrios Altrios.Proto Altrios.Serde Driver

/-- defaults of the driver instance: a marker that no decoded real value equals, so that
    "equal to default" holds exactly for the fields the real encoder omitted -/
def drvD : Defaults := ⟨fun _ => .atom "<default>", fun _ => .atom "<fn>"⟩

def hexv (c : Char) : Nat :=
  if '0' ≤ c ∧ c ≤ '9' then c.toNat - '0'.toNat
  else if 'a' ≤ c ∧ c ≤ 'f' then c.toNat - 'a'.toNat + 10
  else if 'A' ≤ c ∧ c ≤ 'F' then c.toNat - 'A'.toNat + 10 else 0

/-- percent-decoding of a byte string that the harness produced from UTF-8 -/
def pctBytes : List Char → List UInt8
  | '%' :: a :: b :: r => (UInt8.ofNat (hexv a * 16 + hexv b)) :: pctBytes r
  | c :: r => (UInt8.ofNat c.toNat) :: pctBytes r
  | [] => []

def pctDecode (s : String) : String :=
  let bs := ByteArray.mk (pctBytes s.toList).toArray
  match String.fromUTF8? bs with
  | some t => t
  | none => s

def hexd (n : Nat) : Char :=
  if n < 10 then Char.ofNat ('0'.toNat + n) else Char.ofNat ('A'.toNat + (n - 10))

def pctEncode (s : String) : String :=
  s.toUTF8.foldl (fun acc b =>
    let c := Char.ofNat b.toNat
    if c.isAlphanum || c == '_' || c == '-' || c == '.' then acc.push c
    else (acc.push '%').push (hexd (b.toNat / 16)) |>.push (hexd (b.toNat % 16))) ""

/-- leaves: numbers/bools keep their token (`#i`, `#f`, `#b`), strings are decoded -/
partial def shape : P SVal := do
  let t ← next
  if t == "~" then pure .null
  else if t == "[" then
    let n ← nat
    let rec go : Nat → List SVal → P (List SVal)
      | 0, acc => pure acc.reverse
      | k + 1, acc => do let x ← shape; go k (x :: acc)
    let l ← go n []
    pure (.seq l)
  else if t == "{" then
    let n ← nat
    let rec goObj : Nat → List (String × SVal) → P (List (String × SVal))
      | 0, acc => pure acc.reverse
      | k + 1, acc => do
          let kt ← next
          let x ← shape
          goObj k ((pctDecode (kt.drop 1).toString, x) :: acc)
    let l ← goObj n []
    pure (.obj l)
  else if t.startsWith "#" then pure (.atom t)
  else if t.startsWith "=" then pure (.atom (pctDecode (t.drop 1).toString))
  else throw s!"bad shape token {t}"

partial def fShape : SVal → String
  | .null => "~"
  | .atom s => if s.startsWith "#" then s else "=" ++ pctEncode s
  | .seq l => l.foldl (fun acc x => acc ++ " " ++ fShape x) ("[ " ++ toString l.length)
  | .obj l => l.foldl (fun acc kx => acc ++ " =" ++ pctEncode kx.1 ++ " " ++ fShape kx.2) ("{ " ++ toString l.length)

def joinPath (p s : String) : String := if p.isEmpty then s else p ++ "." ++ s

def enumWith (l : List α) : List (Nat × α) :=
  let rec go : Nat → List α → List (Nat × α)
    | _, [] => []
    | i, x :: r => (i, x) :: go (i + 1) r
  go 0 l

mutual
/-- conditionally skipped fields (per the scanned schema) that are absent from the real output -/
partial def omitted : Ty → SVal → String → List String
  | .opt _, .null, _ => []
  | .opt t, s, p => omitted t s p
  | .seq t, .seq l, p => (enumWith l).flatMap (fun ix => omitted t ix.2 (joinPath p (toString ix.1)))
  | .map _ t, .obj l, p => l.flatMap (fun kx => omitted t kx.2 (joinPath p kx.1))
  | .tuple ts, .seq l, p => omittedTys ts l p 0
  | .newtype _ t, s, p => omitted t s p
  | .struct _ fs, .obj l, p => omittedFields fs l p
  | .enum _ vs, .obj [(m, s)], p => omittedVariants vs m s p
  | _, _, _ => []
partial def omittedTys : Tys → List SVal → String → Nat → List String
  | .cons t r, s :: l, p, i => omitted t s (joinPath p (toString i)) ++ omittedTys r l p (i + 1)
  | _, _, _, _ => []
partial def omittedFields : Fields → List (String × SVal) → String → List String
  | .nil, _, _ => []
  | .cons a t r, l, p =>
      (if a.skip then []
       else match lookup a.key l with
        | some s => omitted t s (joinPath p a.name)
        | none => if a.skipIf != .never then [joinPath p a.name] else []) ++ omittedFields r l p
partial def omittedVariants : Variants → String → SVal → String → List String
  | .nil, _, _, _ => []
  | .unit _ r, m, s, p => omittedVariants r m s p
  | .newtype n t r, m, s, p => if n == m then omitted t s p else omittedVariants r m s p
end

def insertSorted (x : String) : List String → List String
  | [] => [x]
  | y :: r => if x < y then x :: y :: r else y :: insertSorted x r
def sortStrs (l : List String) : List String := l.foldl (fun acc x => insertSorted x acc) []

/-- bincode size of a leaf of the given Rust type -/
def atomSize (ty : String) (content : String) : Nat :=
  if ty == "String" then 8 + content.utf8ByteSize
  else if ty.startsWith "si::" || ty == "f64" || ty == "usize" || ty == "u64" || ty == "i64" || ty == "isize" then 8
  else if ty == "u32" || ty == "i32" || ty == "f32" || ty == "custom:LinkIdx" || ty.startsWith "enum:" then 4
  else if ty == "u16" || ty == "i16" || ty == "NonZeroU16" then 2
  else if ty == "u8" || ty == "i8" || ty == "bool" || ty == "NonZeroU8" then 1
  else 1000003   -- unknown leaf type: makes the comparison fail visibly

mutual
/-- replace every leaf's content by its bincode byte size (structure untouched) -/
partial def sized : Ty → Val → Val
  | .atom n, .atom s => .atom (toString (atomSize n s))
  | .opt t, .some v => .some (sized t v)
  | .seq t, .seq vs => .seq (vs.map (sized t))
  | .map k t, .seq es => .seq (es.map (fun e => match e with
      | .tuple [.atom ks, v] => .tuple [.atom (toString (atomSize k ks)), sized t v]
      | e => e))
  | .tuple ts, .tuple vs => .tuple (sizedTys ts vs)
  | .newtype _ t, v => sized t v
  | .struct _ fs, .tuple vs => .tuple (sizedFields fs vs)
  | .enum _ vs, .variant i v => .variant i (sizedVariant vs i v)
  | _, v => v
partial def sizedTys : Tys → List Val → List Val
  | .cons t r, v :: vs => sized t v :: sizedTys r vs
  | _, _ => []
partial def sizedFields : Fields → List Val → List Val
  | .cons a t r, v :: vs => (if a.skip then v else sized t v) :: sizedFields r vs
  | _, _ => []
partial def sizedVariant : Variants → Nat → Val → Val
  | .nil, _, v => v
  | .unit _ _, 0, v => v
  | .newtype _ t _, 0, v => sized t v
  | .unit _ r, i + 1, v => sizedVariant r i v
  | .newtype _ _ r, i + 1, v => sizedVariant r i v
end

def tokSize : Tok → Nat
  | .atom s => s.toNat?.getD 1000003
  | .tag _ => 1
  | .len _ => 8
  | .var _ => 4

def schemaOf (name : String) : P Ty := do
  match resolve Generated.table resolveFuel (.ref name) with
  | some t => pure t
  | none => throw s!"unknown or unresolvable type {name}"

def typeName : P String := do
  let t ← next
  pure (pctDecode t)

def handlers : List (String × Handler) := [
  ("serde_shape", do
    let n ← typeName
    let t ← schemaOf n
    let s ← shape
    match decSelf drvD t s with
    | none => pure "err decode"
    | some v =>
      let s' := encSelf drvD t v
      let om := sortStrs (omitted t s "")
      pure ("ok " ++ fSeq id om ++ " | " ++ fShape s')),
  ("serde_bin", do
    let n ← typeName
    let t ← schemaOf n
    let s ← shape
    match decSelf drvD t s with
    | none => pure "err decode"
    | some v =>
      let toks := encSeq drvD t (sized t v)
      let size := toks.foldl (fun acc k => acc + tokSize k) 0
      let rt := match decSeq drvD t (encSeq drvD t v) with
        | some (w, []) => w == norm drvD t v
        | _ => false
      pure ("ok " ++ toString size ++ " " ++ fB rt)),
  -- what a MISSING key becomes on load: the harness deletes one top-level key from the real
  -- encoder's output and asks the real derived `Deserialize` (without `init`) whether it still
  -- loads; the model answers from `missing` (`#[serde(default…)]`, implicit `None` of an Option)
  ("serde_missing", do
    let n ← typeName
    let t ← schemaOf n
    let kt ← next
    let k := pctDecode (kt.drop 1).toString
    let s ← shape
    match s with
    | .obj l =>
      let l' := l.filter (fun kv => kv.1 != k)
      pure ("ok " ++ fB (decSelf drvD t (.obj l')).isSome)
    | _ => pure "err not-an-object"),
  -- table facts the harness also knows independently (from the real types)
  ("serde_table", do
    let n ← typeName
    let t ← schemaOf n
    pure ("ok " ++ fB (wf t) ++ " " ++ fB (posWF t)))
]
end Driver.OpsSerde
