import Driver.Common
import Driver.OpsSP
import Driver.OpsPT
import Altrios.PathTpc
import Altrios.Resist
import Altrios.Train
namespace Driver.OpsTrain
open Altrios Altrios.Proto Altrios.SP Altrios.Tpc Altrios.Rs Altrios.Tr Altrios.PT Altrios.CS Driver
open Driver.OpsSP Driver.OpsPT

def gF : GeoConsts Float :=
  { rev := Float.ofBits 0x401921fb54442d18,      -- 6.283185307179586
    two := 2.0,
    deg := Float.ofBits 0x3f91df46a2529d39,      -- 1.7453292519943295e-2
    ft100 := Float.ofBits 0x3fd381d7dbf487fd * 100.0,   -- uc::FT * 100.0
    radpm := 1.0 }

def cF : TrConsts Float :=
  { half := 0.5, two := 2.0, four := 4.0,
    mph01 := Float.ofBits 0x3fdc9c4da9003eea * 0.1,     -- uc::MPH * 0.1
    eps := 1e-8, eps7 := 1.0e-7 }

def accGrav : Float := Float.ofBits 0x40239a6490780ca6   -- 9.80154849496314
def rhoAir : Float := 1.0 * 1.225
def ft1000 : Float := 1000.0 * Float.ofBits 0x3fd381d7dbf487fd

def elev : P (Elev Float) := do let a ← float; let b ← float; pure ⟨a, b⟩
def heading : P (Heading Float) := do let a ← float; let b ← float; pure ⟨a, b⟩
def cat : P (CatLim Float) := do let a ← float; let b ← float; let c ← float; let d ← opt nat; pure ⟨a, b, c, d⟩
def fCat (c : CatLim Float) : String := sp [fF c.s, fF c.e, fF c.p, fOpt fN c.district]
def speedSet : P (SpeedSet Float) := do
  let he ← bool; let ps ← seq sparam; let ls ← seq lim; pure ⟨he, ps, ls⟩
def link : P (Link Float) := do
  let a ← nat; let b ← nat; let c ← nat; let d ← nat; let e ← nat; let len ← float
  let es ← seq elev; let hs ← seq heading
  let ss ← opt speedSet
  let sss ← seq (do let k ← nat; let v ← speedSet; pure (k, v))
  let cs ← seq cat
  pure ⟨a, b, c, d, e, len, es, hs, ss, sss, cs⟩
def prc : P (PRC Float) := do let a ← float; let b ← float; let c ← float; pure ⟨a, b, c⟩
def fPrc (p : PRC Float) : String := sp [fF p.off, fF p.coeff, fF p.net]
def linkPt : P (LinkPt Float) := do
  let a ← float; let b ← nat; let c ← nat; let d ← nat; let e ← nat; pure ⟨a, b, c, d, e⟩
def fLinkPt (p : LinkPt Float) : String := sp [fF p.off, fN p.gradeCount, fN p.curveCount, fN p.catCount, fN p.linkIdx]
def trainPar : P (TrainPar Float) := do
  let len ← float; let vmax ← float; let towed ← float; let mpb ← float; let axles ← nat
  let ty ← nat; let c0 ← float; let c1 ← float; let c2 ← float
  pure ⟨⟨len, vmax, towed, mpb, axles⟩, ty, c0, c1, c2⟩
def tpc : P (Tpc Float) := do
  let lps ← seq linkPt; let gs ← seq prc; let cs ← seq prc; let sps ← seq pt; let cats ← seq cat
  let par ← trainPar; let fin ← bool
  pure ⟨lps, gs, cs, sps, cats, par, fin⟩
def fTpc (t : Tpc Float) : String :=
  sp [fSeq fLinkPt t.linkPoints, fSeq fPrc t.grades, fSeq fPrc t.curves, fPts t.speedPoints, fSeq fCat t.cats,
      fB t.isFinished]

def dir : P Dir := do
  let w ← word
  match w with
  | "unk" => pure Dir.unk | "fwd" => pure Dir.fwd | "bwd" => pure Dir.bwd
  | _ => throw "bad dir"

/-- TrainState in the declaration order of the Rust struct (without `i`) -/
def trainState : P (TrainState Float) := do
  let time ← float; let offset ← float; let offsetBack ← float; let totalDist ← float
  let linkIdxFront ← nat; let offsetInLink ← float; let speed ← float; let speedLimit ← float
  let speedTarget ← float; let dt ← float; let length ← float; let massStatic ← float
  let massRot ← float; let massFreight ← float; let weightStatic ← float
  let resRolling ← float; let resBearing ← float; let resDavisB ← float; let resAero ← float
  let resGrade ← float; let resCurve ← float; let gradeFront ← float; let gradeBack ← float
  let elevFront ← float; let pwrRes ← float; let pwrAccel ← float; let pwrWhlOut ← float
  let e ← float; let ep ← float; let en ← float
  pure { r := { offset, offsetBack, speed, length, massStatic, weightStatic, resRolling, resBearing,
                resDavisB, resAero, resGrade, resCurve, gradeFront, gradeBack, elevFront },
         k := { time, totalDist, linkIdxFront, offsetInLink, speedLimit, speedTarget, dt, massRot,
                massFreight, pwrRes, pwrAccel, pwrWhlOut, energyWhlOut := e, energyWhlOutPos := ep,
                energyWhlOutNeg := en } }
def fTrainState (s : TrainState Float) : String :=
  let r := s.r; let k := s.k
  sp [fF k.time, fF r.offset, fF r.offsetBack, fF k.totalDist, fN k.linkIdxFront, fF k.offsetInLink,
      fF r.speed, fF k.speedLimit, fF k.speedTarget, fF k.dt, fF r.length, fF r.massStatic, fF k.massRot,
      fF k.massFreight, fF r.weightStatic, fF r.resRolling, fF r.resBearing, fF r.resDavisB, fF r.resAero,
      fF r.resGrade, fF r.resCurve, fF r.gradeFront, fF r.gradeBack, fF r.elevFront, fF k.pwrRes,
      fF k.pwrAccel, fF k.pwrWhlOut, fF k.energyWhlOut, fF k.energyWhlOutPos, fF k.energyWhlOutNeg]

def resStrap : P (ResStrap Float) := do
  let a ← float; let b ← float; let c ← float; let d ← float
  let gf ← nat; let gb ← nat; let cf ← nat; let cb ← nat
  pure ⟨a, b, c, d, ⟨gf, gb⟩, ⟨cf, cb⟩⟩
def fResStrap (r : ResStrap Float) : String :=
  sp [fF r.bearingForce, fF r.rollingRatio, fF r.davisB, fF r.cdArea, fN r.grade.front, fN r.grade.back,
      fN r.curve.front, fN r.curve.back]

def fricBrake : P (FricBrake Float) := do
  let a ← float; let b ← float; let c ← float; let d ← float; let e ← float; pure ⟨a, b, c, d, e⟩
def fFric (f : FricBrake Float) : String :=
  sp [fF f.forceMax, fF f.rampUpTime, fF f.rampUpCoeff, fF f.force, fF f.forceMaxCurr]
def bPoint : P (BrakingPoint Float) := do let a ← float; let b ← float; let c ← float; pure ⟨a, b, c⟩
def bPoints : P (BrakingPoints Float) := do let ps ← seq bPoint; let i ← nat; pure ⟨ps, i⟩
def fBPoints (b : BrakingPoints Float) : String :=
  sp [fSeq (fun (p : BrakingPoint Float) => sp [fF p.off, fF p.limit, fF p.target]) b.points, fN b.idxCurr]

def handlers : List (String × Handler) := [
  ("tpc_extend", do
    let net ← seq link; let t ← tpc; let path ← seq nat
    pure (resStr fTpc (Tpc.extend toU32 gF net t path))),
  ("tpc_counts", do
    let t ← tpc
    pure ("ok " ++ fB (countsConsistent t))),
  ("calc_idx", do
    let pts ← seq prc; let x ← float; let i ← nat; let d ← dir
    pure (resStr fN (calcIdx pts x i d))),
  ("update_res", do
    let gs ← seq prc; let cs ← seq prc; let r ← resStrap; let s ← trainState; let d ← dir
    pure (resStr (fun (p : ResStrap Float × Rs.ResState Float) => sp [fResStrap p.1, fTrainState { s with r := p.2 }])
      (updateRes accGrav rhoAir gs cs r s.r d))),
  ("set_link_and_offset", do
    let lps ← seq linkPt; let s ← trainState
    pure (resStr fTrainState (setLinkAndOffset lps s))),
  ("ss_required_pwr", do
    let cs ← cState; let s ← trainState; let vp ← float; let vc ← float; let dt ← float
    pure (resStr fTrainState (ssRequiredPwr cF cs s vp vc dt))),
  ("ss_integrate", do
    let lps ← seq linkPt; let s ← trainState; let vp ← float; let vc ← float; let tc ← float
    pure (resStr fTrainState (ssIntegrate cF lps s vp vc tc))),
  ("ss_step", do
    let t ← tpc; let r ← resStrap; let con ← consist; let s ← trainState
    let vp ← float; let vc ← float; let tp ← float; let tc ← float
    pure (resStr (fun (x : Consist Float × ResStrap Float × TrainState Float) =>
        sp [fConsist x.1, fResStrap x.2.1, fTrainState x.2.2])
      (ssStep kF cF accGrav rhoAir t r con s vp vc tp tc))),
  ("fric_set_cur_max", do
    let f ← fricBrake; let dt ← float
    pure ("ok " ++ fFric (fricSetCurMax f dt))),
  ("bp_calc_speeds", do
    let b ← bPoints; let off ← float; let v ← float; let adj ← float
    pure (resStr (fun (x : BrakingPoints Float × Float × Float) => sp [fN x.1.idxCurr, fF x.2.1, fF x.2.2])
      (calcSpeeds b off v adj))),
  ("sl_required_pwr", do
    let fm ← float; let cs ← cState; let f ← fricBrake; let b ← bPoints; let s ← trainState
    pure (resStr (fun (x : FricBrake Float × BrakingPoints Float × TrainState Float) =>
        sp [fFric x.1, fN x.2.1.idxCurr, fTrainState x.2.2])
      (slRequiredPwr cF Float.sqrt fm cs f b s))),
  ("sl_step", do
    let t ← tpc; let r ← resStrap; let con ← consist; let fms ← seq float
    let f ← fricBrake; let b ← bPoints; let s ← trainState
    pure (resStr (fun (x : Consist Float × ResStrap Float × FricBrake Float × BrakingPoints Float × TrainState Float) =>
        sp [fConsist x.1, fResStrap x.2.1, fFric x.2.2.1, fN x.2.2.2.1.idxCurr, fTrainState x.2.2.2.2])
      (slStep kF cF Float.sqrt accGrav rhoAir t r con fms f b s))),
  ("walk_cond", do
    let e ← float; let s ← trainState
    pure ("ok " ++ fB (walkCond ft1000 e s))),
  -- does the `ensure!` after `self.step()?` in the loop of walk_internal fail:  <end> <speed before the step> <state after it>
  ("walk_stuck", do
    let e ← float; let vp ← float; let s ← trainState
    pure ("ok " ++ fB (walkStuck ft1000 e vp s))),
  ("scaling_factor", do
    let a ← bool; let d ← opt float
    pure ("ok " ++ fF (scalingFactor 365.25 a d)))
]
end Driver.OpsTrain
