import Driver.Common
import Driver.OpsHist
import Driver.OpsMass
import Driver.OpsNet
import Driver.OpsPT
import Driver.OpsSP
import Driver.OpsTrain
namespace Driver
def allHandlers : List (String × Handler) :=
  Driver.OpsHist.handlers ++
  Driver.OpsMass.handlers ++
  Driver.OpsNet.handlers ++
  Driver.OpsPT.handlers ++
  Driver.OpsSP.handlers ++
  Driver.OpsTrain.handlers
end Driver
