import Driver.Common
import Driver.OpsMass
import Driver.OpsNet
import Driver.OpsPT
import Driver.OpsSP
import Driver.OpsTrain
namespace Driver
def allHandlers : List (String × Handler) :=
  Driver.OpsMass.handlers ++
  Driver.OpsNet.handlers ++
  Driver.OpsPT.handlers ++
  Driver.OpsSP.handlers ++
  Driver.OpsTrain.handlers
end Driver
