import Driver.Common
import Driver.OpsPT
import Driver.OpsSP
namespace Driver
def allHandlers : List (String × Handler) :=
  Driver.OpsPT.handlers ++
  Driver.OpsSP.handlers
end Driver
