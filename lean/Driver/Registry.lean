import Driver.Common
import Driver.OpsBrake
import Driver.OpsDisp
import Driver.OpsEst
import Driver.OpsHist
import Driver.OpsMass
import Driver.OpsNet
import Driver.OpsPT
import Driver.OpsPar
import Driver.OpsPlan
import Driver.OpsSP
import Driver.OpsSerde
import Driver.OpsTrain
namespace Driver
def allHandlers : List (String × Handler) :=
  Driver.OpsBrake.handlers ++
  Driver.OpsDisp.handlers ++
  Driver.OpsEst.handlers ++
  Driver.OpsHist.handlers ++
  Driver.OpsMass.handlers ++
  Driver.OpsNet.handlers ++
  Driver.OpsPT.handlers ++
  Driver.OpsPar.handlers ++
  Driver.OpsPlan.handlers ++
  Driver.OpsSP.handlers ++
  Driver.OpsSerde.handlers ++
  Driver.OpsTrain.handlers
end Driver
