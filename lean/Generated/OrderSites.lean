import Altrios.Par
-- stub (overwritten by /verif/scan/scan_order_sites.py)
namespace Generated.OrderSites
open Altrios.Par
def sites : List Site := [
  ⟨"train/train_config.rs", 146, "cars_total", "self.n_cars_by_type.values().fold(0, |acc, n| *n + acc)", .stdHashMap, "u32", true, true, .natSumPerm⟩
]
end Generated.OrderSites
