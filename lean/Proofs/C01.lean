import Altrios.Powertrain
import Altrios.Consist
import Proofs.Lemmas.Basic
import Proofs.Lemmas.Ledger
import Mathlib.Algebra.Order.Field.Basic
import Mathlib.Algebra.Order.Field.Rat
import Mathlib.Tactic.Linarith
import Mathlib.Tactic.Ring
import Mathlib.Tactic.NormNum
import Mathlib.Tactic.FieldSimp
/-
  C01 — Locomotive and consist energy ledger closes (energy is conserved).

  Layout (one block per clause of the property):
    §1  per-step power balance of each component            (`fcSolve`, `genReq`, `edrvReq`, `resSolve`)
    §2  every cumulative counter advances by power × dt     (components and `locoSolve`)
    §3  hand-offs inside `convSolve` / `belSolve`
    §4  whole-unit power ledger of `locoSolve`
    §5  cumulative ledger along any accepted trace, every prefix (`locoWalk`)
    §6  consist roll-ups, per step and along any accepted consist trace (`consistWalk`)

  Efficiency hypotheses.  The loss of the drivetrain and of the battery is *reported* as
  `|out − in|` (`absv`), so "input = output + loss" needs the efficiency actually used in the
  step (the `eta` field of the NEW state) to lie in `(0,1]`.  That this follows from map values in
  `(0,1]` is proved elsewhere (interpolation properties); here it is an explicit hypothesis
  (`EtaOK`), and §1 shows by counterexample that it is forced.
-/
set_option linter.unusedSectionVars false
namespace Altrios.Proofs.C01
open Altrios Altrios.PT Altrios.CS Altrios.Interp Altrios.Proofs.Basic Altrios.Proofs.LedgerL

variable {α : Type} [Field α] [LinearOrder α] [IsStrictOrderedRing α]

/-! ## Concrete rational fixtures (non-vacuity witnesses and counterexamples) -/
namespace Ex

/-- Boolean test of an outcome: accepted and the new value satisfies `p` -/
def okAnd {σ} (p : σ → Bool) : Res σ → Bool | .ok x => p x | _ => false

theorem okAnd_exists {σ} {p : σ → Bool} {r : Res σ} (h : okAnd p r = true) :
    ∃ x, r = .ok x ∧ p x = true := by
  cases r <;> simp_all [okAnd]

def kQ : Consts ℚ := ⟨1/1000, 1/100000000, 1/20, 10⟩
def fcQ : FC ℚ := ⟨⟨1000, 0, 0, 0, 0, 0, 0, 0, 0, 0, true⟩, 1000, 100, 1, [0, 1/2, 1], [3/10, 4/10, 35/100], 5⟩
def genQ : Gen ℚ := ⟨⟨0,0,0,0,0,0,0,0,0,0,0,0⟩, 900, [0, 1/2, 1], [9/10, 95/100, 93/100], []⟩
def edQ : Edrv ℚ := ⟨⟨0,0,0,0,0,0,0,0,0,0,0,0,0,0,0⟩, 800, [0, 1/2, 1], [85/100, 9/10, 88/100], []⟩
/-- a drivetrain that may regenerate up to 200 -/
def edRegenQ : Edrv ℚ := { edQ with state := { edQ.state with pwrMechRegenMax := 200 } }
/-- a drivetrain whose efficiency map is `2` everywhere -/
def edEta2Q : Edrv ℚ := { edQ with etaInterp := [2, 2, 2] }
/-- a drivetrain whose efficiency map is `-1/2` everywhere -/
def edEtaNegQ : Edrv ℚ := { edQ with etaInterp := [-1/2, -1/2, -1/2] }
/-- a drivetrain with a negative regeneration limit in its state -/
def edNegRegenQ : Edrv ℚ := { edQ with state := { edQ.state with pwrMechRegenMax := -1 } }
def resStQ : ResState ℚ := ⟨1000, 1000, 1000, 1000, 1/2, 0, 0,0,0,0,0, 0,0,0,0,0, 9/10, 17/20, 1/10, 3/20, 25⟩
def resQ : RES ℚ := ⟨resStQ, 1000, 3600000, 1000, 1/10, 9/10, none, none, [0, 50], [0, 1], [-5, 5],
  [[[9/10, 92/100], [94/100, 95/100]], [[91/100, 93/100], [96/100, 97/100]]]⟩
/-- a battery whose efficiency map is `2` everywhere -/
def resEta2Q : RES ℚ := { resQ with etaVals := [[[2, 2], [2, 2]], [[2, 2], [2, 2]]] }
def convQ : Loco ℚ := ⟨.conv fcQ genQ edQ, ⟨0,0,0,0,0,0,0⟩, true, 10, 1/100⟩
def belQ : Loco ℚ := ⟨.bel resQ edQ, ⟨0,0,0,0,0,0,0⟩, true, 10, 1/100⟩

def etaB (x : ℚ) : Bool := decide (0 < x) && decide (x ≤ 1)
theorem etaB_iff {x : ℚ} : etaB x = true ↔ 0 < x ∧ x ≤ 1 := by simp [etaB]

end Ex

/-! ## §1  Per-step power balances -/

/-- fuel converter: fuel power = shaft (brake) power + reported loss; the shaft power is the request -/
def C01_fc_balance_statement : Prop :=
  ∀ (k : Consts α) (fc new : FC α) (req dt : α) (on al : Bool),
    fcSolve k fc req dt on al = .ok new →
      new.state.pwrFuel = new.state.pwrBrake + new.state.pwrLoss ∧ new.state.pwrBrake = req

theorem C01_fc_balance : C01_fc_balance_statement (α := α) := by
  intro k fc new req dt on al h
  have s := fcSolve_spec h
  refine ⟨?_, s.pwrBrake⟩
  rw [s.pwrLoss, s.pwrBrake]; ring

example : ∃ new, fcSolve Ex.kQ Ex.fcQ 300 2 true true = .ok new :=
  (Ex.okAnd_exists (p := fun _ => true) (by decide +kernel)).imp fun _ h => h.1

/-- generator: shaft input = propulsion output + auxiliary output + reported loss -/
def C01_gen_balance_statement : Prop :=
  ∀ (g new : Gen α) (prop aux dt : α),
    genReq g prop aux dt = .ok new →
      new.state.pwrMechIn = new.state.pwrElecPropOut + new.state.pwrElecAux + new.state.pwrLoss ∧
      new.state.pwrElecPropOut = prop ∧ new.state.pwrElecAux = aux

theorem C01_gen_balance : C01_gen_balance_statement (α := α) := by
  intro g new prop aux dt h
  have s := genReq_spec h
  refine ⟨?_, s.pwrElecPropOut, s.pwrElecAux⟩
  rw [s.pwrLoss, s.pwrElecPropOut, s.pwrElecAux]; ring

example : ∃ new, genReq Ex.genQ 300 20 2 = .ok new :=
  (Ex.okAnd_exists (p := fun _ => true) (by decide +kernel)).imp fun _ h => h.1

/-- drivetrain, mechanical side: wheel request = propulsion output − dynamic braking, and the
    dynamic-braking power is never negative.  No hypothesis needed. -/
def C01_edrv_mech_statement : Prop :=
  ∀ (e new : Edrv α) (req dt : α),
    edrvReq e req dt = .ok new →
      new.state.pwrMechPropOut - new.state.pwrMechDynBrake = req ∧ 0 ≤ new.state.pwrMechDynBrake

theorem C01_edrv_mech : C01_edrv_mech_statement (α := α) := by
  intro e new req dt h
  have s := edrvReq_spec h
  refine ⟨?_, s.dynBrake_nonneg⟩
  rw [s.pwrMechDynBrake]; ring

/-- a braking request beyond the regeneration limit: 200 regenerated, 100 dissipated -/
example : ∃ new, edrvReq Ex.edRegenQ (-300) 2 = .ok new ∧ new.state.pwrMechDynBrake = 100 :=
  (Ex.okAnd_exists (p := fun n => decide (n.state.pwrMechDynBrake = 100)) (by decide +kernel)).imp
    fun _ h => ⟨h.1, of_decide_eq_true h.2⟩

/-- drivetrain, electrical side: electrical input = mechanical propulsion output + reported loss.
    * `hreg` (regeneration limit of the OLD state not negative) is FORCED: see
      `C01_edrv_balance_counterexample_neg_regen`.  Inside a simulation step it is established by
      `set_cur_pwr_max_out` (`locoSetCurMax_frame`), so §5 does not need it.
    * `hη1 : η ≤ 1` is FORCED: `C01_edrv_balance_counterexample_eta_gt_one`.
    * `hη0 : 0 < η` is FORCED for positive traction: `C01_edrv_balance_counterexample_eta_neg`
      (and `η = 0` divides by zero). -/
def C01_edrv_balance_statement : Prop :=
  ∀ (e new : Edrv α) (req dt : α),
    edrvReq e req dt = .ok new →
    0 ≤ e.state.pwrMechRegenMax →
    0 < new.state.eta → new.state.eta ≤ 1 →
      new.state.pwrElecPropIn = new.state.pwrMechPropOut + new.state.pwrLoss

theorem C01_edrv_balance : C01_edrv_balance_statement (α := α) := by
  intro e new req dt h hreg h0 h1
  exact edrv_balance (edrvReq_spec h) hreg h0 h1

/-- non-vacuity, traction -/
example : ∃ new, edrvReq Ex.edQ 300 2 = .ok new ∧ 0 ≤ Ex.edQ.state.pwrMechRegenMax ∧
    0 < new.state.eta ∧ new.state.eta ≤ 1 := by
  obtain ⟨n, h, hp⟩ := Ex.okAnd_exists (r := edrvReq Ex.edQ 300 2) (p := fun n => Ex.etaB n.state.eta)
    (by decide +kernel)
  exact ⟨n, h, by decide +kernel, Ex.etaB_iff.mp hp⟩

/-- non-vacuity, regeneration + dynamic braking -/
example : ∃ new, edrvReq Ex.edRegenQ (-300) 2 = .ok new ∧ 0 ≤ Ex.edRegenQ.state.pwrMechRegenMax ∧
    0 < new.state.eta ∧ new.state.eta ≤ 1 := by
  obtain ⟨n, h, hp⟩ := Ex.okAnd_exists (r := edrvReq Ex.edRegenQ (-300) 2)
    (p := fun n => Ex.etaB n.state.eta) (by decide +kernel)
  exact ⟨n, h, by decide +kernel, Ex.etaB_iff.mp hp⟩

/-- the balance WITHOUT the side conditions (false) -/
def C01_edrv_balance_unguarded_statement : Prop :=
  ∀ (e new : Edrv α) (req dt : α),
    edrvReq e req dt = .ok new →
      new.state.pwrElecPropIn = new.state.pwrMechPropOut + new.state.pwrLoss

/-- η = 2 (> 1), request 100: input 50, output 100, reported loss |100 − 50| = 50, and 50 ≠ 150 -/
theorem C01_edrv_balance_counterexample_eta_gt_one :
    ∃ new, edrvReq Ex.edEta2Q 100 1 = .ok new ∧ 0 ≤ Ex.edEta2Q.state.pwrMechRegenMax ∧
      new.state.eta = 2 ∧ new.state.pwrElecPropIn = 50 ∧ new.state.pwrMechPropOut = 100 ∧
      new.state.pwrLoss = 50 ∧
      new.state.pwrElecPropIn ≠ new.state.pwrMechPropOut + new.state.pwrLoss := by
  obtain ⟨n, h, hp⟩ := Ex.okAnd_exists (r := edrvReq Ex.edEta2Q 100 1)
    (p := fun n : Edrv ℚ => decide (n.state.eta = 2 ∧ n.state.pwrElecPropIn = 50 ∧ n.state.pwrMechPropOut = 100 ∧
      n.state.pwrLoss = 50 ∧ n.state.pwrElecPropIn ≠ n.state.pwrMechPropOut + n.state.pwrLoss))
    (by decide +kernel)
  have := of_decide_eq_true hp
  exact ⟨n, h, by decide +kernel, this⟩

/-- η = −1/2 (≤ 0), request 100: the balance fails although η ≤ 1 -/
theorem C01_edrv_balance_counterexample_eta_neg :
    ∃ new, edrvReq Ex.edEtaNegQ 100 1 = .ok new ∧ 0 ≤ Ex.edEtaNegQ.state.pwrMechRegenMax ∧
      new.state.eta ≤ 1 ∧
      new.state.pwrElecPropIn ≠ new.state.pwrMechPropOut + new.state.pwrLoss := by
  obtain ⟨n, h, hp⟩ := Ex.okAnd_exists (r := edrvReq Ex.edEtaNegQ 100 1)
    (p := fun n : Edrv ℚ => decide (n.state.eta ≤ 1 ∧
      n.state.pwrElecPropIn ≠ n.state.pwrMechPropOut + n.state.pwrLoss))
    (by decide +kernel)
  exact ⟨n, h, by decide +kernel, of_decide_eq_true hp⟩

/-- regeneration limit −1 in the old state, request 0, η = 17/20 ∈ (0,1]: the drivetrain is made to
    *deliver* 1 (all of it "dynamic braking"), the electrical side uses the braking formula
    `in = out·η`, and the balance fails. -/
theorem C01_edrv_balance_counterexample_neg_regen :
    ∃ new, edrvReq Ex.edNegRegenQ 0 1 = .ok new ∧ 0 < new.state.eta ∧ new.state.eta ≤ 1 ∧
      new.state.pwrMechPropOut = 1 ∧ new.state.pwrMechDynBrake = 1 ∧
      new.state.pwrElecPropIn ≠ new.state.pwrMechPropOut + new.state.pwrLoss := by
  obtain ⟨n, h, hp⟩ := Ex.okAnd_exists (r := edrvReq Ex.edNegRegenQ 0 1)
    (p := fun n : Edrv ℚ => decide (0 < n.state.eta ∧ n.state.eta ≤ 1 ∧
      n.state.pwrMechPropOut = 1 ∧ n.state.pwrMechDynBrake = 1 ∧
      n.state.pwrElecPropIn ≠ n.state.pwrMechPropOut + n.state.pwrLoss))
    (by decide +kernel)
  exact ⟨n, h, of_decide_eq_true hp⟩

theorem C01_edrv_balance_unguarded_counterexample :
    ¬ C01_edrv_balance_unguarded_statement (α := ℚ) := by
  intro hall
  obtain ⟨n, h, _, _, _, _, _, hne⟩ := C01_edrv_balance_counterexample_eta_gt_one
  exact hne (hall _ _ _ _ h)

/-- battery: electrical output = propulsion + auxiliary (as requested); chemical output =
    electrical output + reported loss when the efficiency used lies in `(0,1]` (both bounds FORCED:
    `C01_res_balance_counterexample_eta_gt_one`; `η ≤ 0` breaks discharge as for the drivetrain). -/
def C01_res_balance_statement : Prop :=
  ∀ (k : Consts α) (r new : RES α) (prop aux dt : α),
    resSolve k r prop aux dt = .ok new →
      new.state.pwrOutElectrical = new.state.pwrOutPropulsion + new.state.pwrAux ∧
      new.state.pwrOutPropulsion = prop ∧ new.state.pwrAux = aux ∧
      (0 < new.state.eta → new.state.eta ≤ 1 →
        new.state.pwrOutChemical = new.state.pwrOutElectrical + new.state.pwrLoss)

theorem C01_res_balance : C01_res_balance_statement (α := α) := by
  intro k r new prop aux dt h
  have s := resSolve_spec h
  refine ⟨?_, s.pwrOutPropulsion, s.pwrAux, res_balance s⟩
  rw [s.pwrOutElectrical, s.pwrOutPropulsion, s.pwrAux]

/-- non-vacuity, discharge -/
example : ∃ new, resSolve Ex.kQ Ex.resQ 300 10 2 = .ok new ∧ 0 < new.state.eta ∧ new.state.eta ≤ 1 := by
  obtain ⟨n, h, hp⟩ := Ex.okAnd_exists (r := resSolve Ex.kQ Ex.resQ 300 10 2)
    (p := fun n => Ex.etaB n.state.eta) (by decide +kernel)
  exact ⟨n, h, Ex.etaB_iff.mp hp⟩

/-- non-vacuity, charge -/
example : ∃ new, resSolve Ex.kQ Ex.resQ (-300) 10 2 = .ok new ∧ 0 < new.state.eta ∧ new.state.eta ≤ 1 := by
  obtain ⟨n, h, hp⟩ := Ex.okAnd_exists (r := resSolve Ex.kQ Ex.resQ (-300) 10 2)
    (p := fun n => Ex.etaB n.state.eta) (by decide +kernel)
  exact ⟨n, h, Ex.etaB_iff.mp hp⟩

/-- η = 2: electrical 110, chemical 55, reported loss 55, and 55 ≠ 165 -/
theorem C01_res_balance_counterexample_eta_gt_one :
    ∃ new, resSolve Ex.kQ Ex.resEta2Q 100 10 1 = .ok new ∧ new.state.eta = 2 ∧
      new.state.pwrOutElectrical = 110 ∧ new.state.pwrOutChemical = 55 ∧ new.state.pwrLoss = 55 ∧
      new.state.pwrOutChemical ≠ new.state.pwrOutElectrical + new.state.pwrLoss := by
  obtain ⟨n, h, hp⟩ := Ex.okAnd_exists (r := resSolve Ex.kQ Ex.resEta2Q 100 10 1)
    (p := fun n : RES ℚ => decide (n.state.eta = 2 ∧
      n.state.pwrOutElectrical = 110 ∧ n.state.pwrOutChemical = 55 ∧ n.state.pwrLoss = 55 ∧
      n.state.pwrOutChemical ≠ n.state.pwrOutElectrical + n.state.pwrLoss))
    (by decide +kernel)
  exact ⟨n, h, of_decide_eq_true hp⟩

/-- state of charge: it moves by exactly the chemical energy reported for the step, divided by the
    capacity.  The first conjunct is the literal update; the second is the division-free reading,
    which needs a non-zero capacity (FORCED: with capacity 0 the SOC does not move at all). -/
def C01_res_soc_statement : Prop :=
  ∀ (k : Consts α) (r new : RES α) (prop aux dt : α),
    resSolve k r prop aux dt = .ok new →
      new.energyCapacity = r.energyCapacity ∧
      new.state.soc = r.state.soc - new.state.pwrOutChemical * dt / r.energyCapacity ∧
      (r.energyCapacity ≠ 0 →
        (r.state.soc - new.state.soc) * r.energyCapacity =
          new.state.energyOutChemical - r.state.energyOutChemical)

theorem C01_res_soc : C01_res_soc_statement (α := α) := by
  intro k r new prop aux dt h
  have s := resSolve_spec h
  refine ⟨s.energyCapacity, s.soc, fun hc => ?_⟩
  rw [s.soc, s.energyOutChemical]
  field_simp
  ring

example : ∃ new, resSolve Ex.kQ Ex.resQ 300 10 2 = .ok new ∧ Ex.resQ.energyCapacity ≠ 0 ∧
    new.state.soc < Ex.resQ.state.soc := by
  obtain ⟨n, h, hp⟩ := Ex.okAnd_exists (r := resSolve Ex.kQ Ex.resQ 300 10 2)
    (p := fun n => decide (n.state.soc < Ex.resQ.state.soc)) (by decide +kernel)
  exact ⟨n, h, by decide +kernel, of_decide_eq_true hp⟩

/-! ## §2  Every cumulative counter advances by (power of the new state) × dt -/

def C01_fc_energy_statement : Prop :=
  ∀ (k : Consts α) (fc new : FC α) (req dt : α) (on al : Bool),
    fcSolve k fc req dt on al = .ok new →
      new.state.energyBrake = fc.state.energyBrake + new.state.pwrBrake * dt ∧
      new.state.energyFuel = fc.state.energyFuel + new.state.pwrFuel * dt ∧
      new.state.energyLoss = fc.state.energyLoss + new.state.pwrLoss * dt ∧
      new.state.energyIdleFuel = fc.state.energyIdleFuel + new.state.pwrIdleFuel * dt

theorem C01_fc_energy : C01_fc_energy_statement (α := α) := by
  intro k fc new req dt on al h
  have s := fcSolve_spec h
  exact ⟨s.energyBrake, s.energyFuel, s.energyLoss, s.energyIdleFuel⟩

def C01_gen_energy_statement : Prop :=
  ∀ (g new : Gen α) (prop aux dt : α),
    genReq g prop aux dt = .ok new →
      new.state.energyMechIn = g.state.energyMechIn + new.state.pwrMechIn * dt ∧
      new.state.energyElecPropOut = g.state.energyElecPropOut + new.state.pwrElecPropOut * dt ∧
      new.state.energyElecAux = g.state.energyElecAux + new.state.pwrElecAux * dt ∧
      new.state.energyLoss = g.state.energyLoss + new.state.pwrLoss * dt

theorem C01_gen_energy : C01_gen_energy_statement (α := α) := by
  intro g new prop aux dt h
  have s := genReq_spec h
  exact ⟨s.energyMechIn, s.energyElecPropOut, s.energyElecAux, s.energyLoss⟩

def C01_edrv_energy_statement : Prop :=
  ∀ (e new : Edrv α) (req dt : α),
    edrvReq e req dt = .ok new →
      new.state.energyElecPropIn = e.state.energyElecPropIn + new.state.pwrElecPropIn * dt ∧
      new.state.energyMechPropOut = e.state.energyMechPropOut + new.state.pwrMechPropOut * dt ∧
      new.state.energyMechDynBrake = e.state.energyMechDynBrake + new.state.pwrMechDynBrake * dt ∧
      new.state.energyElecDynBrake = e.state.energyElecDynBrake + new.state.pwrElecDynBrake * dt ∧
      new.state.energyLoss = e.state.energyLoss + new.state.pwrLoss * dt

theorem C01_edrv_energy : C01_edrv_energy_statement (α := α) := by
  intro e new req dt h
  have s := edrvReq_spec h
  exact ⟨s.energyElecPropIn, s.energyMechPropOut, s.energyMechDynBrake, s.energyElecDynBrake, s.energyLoss⟩

def C01_res_energy_statement : Prop :=
  ∀ (k : Consts α) (r new : RES α) (prop aux dt : α),
    resSolve k r prop aux dt = .ok new →
      new.state.energyOutPropulsion = r.state.energyOutPropulsion + new.state.pwrOutPropulsion * dt ∧
      new.state.energyAux = r.state.energyAux + new.state.pwrAux * dt ∧
      new.state.energyOutElectrical = r.state.energyOutElectrical + new.state.pwrOutElectrical * dt ∧
      new.state.energyOutChemical = r.state.energyOutChemical + new.state.pwrOutChemical * dt ∧
      new.state.energyLoss = r.state.energyLoss + new.state.pwrLoss * dt

theorem C01_res_energy : C01_res_energy_statement (α := α) := by
  intro k r new prop aux dt h
  have s := resSolve_spec h
  exact ⟨s.energyOutPropulsion, s.energyAux, s.energyOutElectrical, s.energyOutChemical, s.energyLoss⟩

/-- locomotive-level counters (`pwrAux` is not changed by the solve) -/
def C01_loco_energy_statement : Prop :=
  ∀ (k : Consts α) (l new : Loco α) (req dt : α) (on : Option Bool),
    locoSolve k l req dt on = .ok new →
      new.state.energyOut = l.state.energyOut + new.state.pwrOut * dt ∧
      new.state.energyAux = l.state.energyAux + new.state.pwrAux * dt ∧
      new.state.pwrAux = l.state.pwrAux

theorem C01_loco_energy : C01_loco_energy_statement (α := α) := by
  intro k l new req dt on h
  obtain ⟨_, _, ho, ha, hp⟩ := locoSolve_spec h
  exact ⟨ho, by rw [hp]; exact ha, hp⟩

/-- non-vacuity of §2: the same accepted calls as in §1, and a whole-unit solve -/
example : (∃ new, fcSolve Ex.kQ Ex.fcQ 300 2 true true = .ok new) ∧
    (∃ new, genReq Ex.genQ 300 20 2 = .ok new) ∧
    (∃ new, edrvReq Ex.edRegenQ (-300) 2 = .ok new) ∧
    (∃ new, resSolve Ex.kQ Ex.resQ (-300) 10 2 = .ok new) ∧
    (∃ new, locoSolve Ex.kQ Ex.belQ 300 2 none = .ok new) :=
  ⟨(Ex.okAnd_exists (p := fun _ => true) (by decide +kernel)).imp fun _ h => h.1,
   (Ex.okAnd_exists (p := fun _ => true) (by decide +kernel)).imp fun _ h => h.1,
   (Ex.okAnd_exists (p := fun _ => true) (by decide +kernel)).imp fun _ h => h.1,
   (Ex.okAnd_exists (p := fun _ => true) (by decide +kernel)).imp fun _ h => h.1,
   (Ex.okAnd_exists (p := fun _ => true) (by decide +kernel)).imp fun _ h => h.1⟩

/-! ## §3  Hand-offs between components -/

/-- conventional unit: the result is again conventional, engine shaft power = generator input,
    generator propulsion output = drivetrain electrical input, generator aux = the aux load when
    the engine is on -/
def C01_conv_handoff_statement : Prop :=
  ∀ (k : Consts α) (fc : FC α) (g : Gen α) (e : Edrv α) (req dt aux : α) (on al : Bool)
    (pt : Powertrain α),
    convSolve k fc g e req dt on aux al = .ok pt →
      ∃ fc' g' e', pt = .conv fc' g' e' ∧
        fc'.state.pwrBrake = g'.state.pwrMechIn ∧
        g'.state.pwrElecPropOut = e'.state.pwrElecPropIn ∧
        g'.state.pwrElecAux = (if on then aux else 0)

theorem C01_conv_handoff : C01_conv_handoff_statement (α := α) := by
  intro k fc g e req dt aux on al pt h
  have s := convSolve_spec h
  cases pt with
  | bel => exact s.elim
  | conv fc' g' e' =>
    obtain ⟨_, sg, _, sf⟩ := s
    exact ⟨fc', g', e', rfl, sf.pwrBrake, sg.pwrElecPropOut, sg.pwrElecAux⟩

/-- battery-electric unit: the result is again battery-electric and battery propulsion output =
    drivetrain electrical input -/
def C01_bel_handoff_statement : Prop :=
  ∀ (k : Consts α) (r : RES α) (e : Edrv α) (req dt aux : α) (pt : Powertrain α),
    belSolve k r e req dt aux = .ok pt →
      ∃ r' e', pt = .bel r' e' ∧ r'.state.pwrOutPropulsion = e'.state.pwrElecPropIn

theorem C01_bel_handoff : C01_bel_handoff_statement (α := α) := by
  intro k r e req dt aux pt h
  have s := belSolve_spec h
  cases pt with
  | conv => exact s.elim
  | bel r' e' => exact ⟨r', e', rfl, s.2.pwrOutPropulsion⟩

example : ∃ pt, convSolve Ex.kQ Ex.fcQ Ex.genQ Ex.edQ 300 2 true 20 true = .ok pt :=
  (Ex.okAnd_exists (p := fun _ => true) (by decide +kernel)).imp fun _ h => h.1
example : ∃ pt, belSolve Ex.kQ Ex.resQ Ex.edRegenQ (-300) 2 20 = .ok pt :=
  (Ex.okAnd_exists (p := fun _ => true) (by decide +kernel)).imp fun _ h => h.1

/-! ## §4  Whole-unit power ledger -/

/-- the efficiencies that enter an `absv` loss in the given (new) state lie in `(0,1]` -/
def EtaOK (l : Loco α) : Prop :=
  match l.pt with
  | .conv _ _ e => 0 < e.state.eta ∧ e.state.eta ≤ 1
  | .bel r e => (0 < e.state.eta ∧ e.state.eta ≤ 1) ∧ (0 < r.state.eta ∧ r.state.eta ≤ 1)

namespace Ex
/-- Boolean form of `EtaOK` for the rational fixtures -/
def etaOKB (l : Loco ℚ) : Bool :=
  match l.pt with
  | .conv _ _ e => etaB e.state.eta
  | .bel r e => etaB e.state.eta && etaB r.state.eta

theorem etaOKB_sound {l : Loco ℚ} (h : etaOKB l = true) : EtaOK l := by
  unfold etaOKB at h; unfold EtaOK
  rcases hl : l.pt with ⟨fc, g, e⟩ | ⟨r, e⟩ <;> rw [hl] at h <;> simp only at h ⊢
  · exact etaB_iff.mp h
  · rw [Bool.and_eq_true] at h; exact ⟨etaB_iff.mp h.1, etaB_iff.mp h.2⟩

end Ex

/-- the unit delivers exactly the requested wheel power, and keeps its type -/
def C01_loco_pwrOut_statement : Prop :=
  ∀ (k : Consts α) (l new : Loco α) (req dt : α) (on : Option Bool),
    locoSolve k l req dt on = .ok new →
      new.state.pwrOut = req ∧ new.pt.isBel = l.pt.isBel

theorem C01_loco_pwrOut : C01_loco_pwrOut_statement (α := α) := by
  intro k l new req dt on h
  refine ⟨locoSolve_pwrOut h, ?_⟩
  obtain ⟨hs, _⟩ := locoSolve_spec h
  rcases hl : l.pt with ⟨fc, g, e⟩ | ⟨r, e⟩ <;> rcases hl' : new.pt with ⟨fc', g', e'⟩ | ⟨r', e'⟩ <;>
    rw [hl, hl'] at hs <;> first | rfl | exact hs.elim

/-- **Whole-unit ledger, one step.**
    Conventional: fuel power = (wheel power + dynamic braking) + generator aux + FC, generator and
    drivetrain losses.  Battery-electric: chemical power = (wheel power + dynamic braking) + battery
    aux + battery and drivetrain losses.
    `hreg` is FORCED (see `C01_edrv_balance_counterexample_neg_regen`; it is what
    `set_cur_pwr_max_out` guarantees), `EtaOK new` is FORCED (§1 counterexamples). -/
def C01_loco_ledger_statement : Prop :=
  ∀ (k : Consts α) (l new : Loco α) (req dt : α) (on : Option Bool),
    locoSolve k l req dt on = .ok new →
    0 ≤ l.pt.edrv.state.pwrMechRegenMax →
    EtaOK new →
      match new.pt with
      | .conv fc g e =>
          fc.state.pwrFuel = (new.state.pwrOut + e.state.pwrMechDynBrake) + g.state.pwrElecAux
            + fc.state.pwrLoss + g.state.pwrLoss + e.state.pwrLoss
      | .bel r e =>
          r.state.pwrOutChemical = (new.state.pwrOut + e.state.pwrMechDynBrake) + r.state.pwrAux
            + r.state.pwrLoss + e.state.pwrLoss

theorem C01_loco_ledger : C01_loco_ledger_statement (α := α) := by
  intro k l new req dt on h hreg hη
  obtain ⟨hs, ho, _⟩ := locoSolve_spec h
  rcases hl : l.pt with ⟨fc, g, e⟩ | ⟨r, e⟩ <;> rcases hl' : new.pt with ⟨fc', g', e'⟩ | ⟨r', e'⟩ <;>
    rw [hl, hl'] at hs <;> simp only [PtStep] at hs
  · obtain ⟨se, sg, _, sf⟩ := hs
    rw [hl] at hreg; rw [EtaOK, hl'] at hη; rw [hl'] at ho
    have hb := edrv_balance se hreg hη.1 hη.2
    show fc'.state.pwrFuel = _
    have h1 := sf.pwrLoss; have h2 := sg.pwrLoss; have h3 := sg.pwrElecAux
    simp only [Powertrain.edrv] at ho
    rw [ho]; linarith
  · obtain ⟨se, sr⟩ := hs
    rw [hl] at hreg; rw [EtaOK, hl'] at hη; rw [hl'] at ho
    have hb := edrv_balance se hreg hη.1.1 hη.1.2
    have hc := res_balance sr hη.2.1 hη.2.2
    show r'.state.pwrOutChemical = _
    have h1 := sr.pwrOutElectrical; have h2 := sr.pwrAux
    simp only [Powertrain.edrv] at ho
    rw [ho]; linarith

/-- conventional unit, traction -/
example : ∃ new, locoSolve Ex.kQ Ex.convQ 300 2 (some true) = .ok new ∧
    0 ≤ Ex.convQ.pt.edrv.state.pwrMechRegenMax ∧ EtaOK new := by
  obtain ⟨n, h, hp⟩ := Ex.okAnd_exists (r := locoSolve Ex.kQ Ex.convQ 300 2 (some true))
    (p := Ex.etaOKB) (by decide +kernel)
  exact ⟨n, h, by decide +kernel, Ex.etaOKB_sound hp⟩

/-- battery-electric unit, regeneration + dynamic braking -/
example : ∃ new, locoSolve Ex.kQ { Ex.belQ with pt := .bel Ex.resQ Ex.edRegenQ } (-300) 2 none = .ok new ∧
    0 ≤ Ex.edRegenQ.state.pwrMechRegenMax ∧ EtaOK new := by
  obtain ⟨n, h, hp⟩ := Ex.okAnd_exists
    (r := locoSolve Ex.kQ { Ex.belQ with pt := .bel Ex.resQ Ex.edRegenQ } (-300) 2 none)
    (p := Ex.etaOKB) (by decide +kernel)
  exact ⟨n, h, by decide +kernel, Ex.etaOKB_sound hp⟩

/-! ## §5  Cumulative ledger along any accepted trace, every prefix -/

/-- whole-unit cumulative ledger defect: energy drawn (fuel / battery chemical) minus wheel energy,
    dynamic-braking energy, auxiliary energy and every reported component loss -/
def ledgerDefect (l : Loco α) : α :=
  match l.pt with
  | .conv fc g e =>
      fc.state.energyFuel - (l.state.energyOut + e.state.energyMechDynBrake) - g.state.energyElecAux
        - fc.state.energyLoss - g.state.energyLoss - e.state.energyLoss
  | .bel r e =>
      r.state.energyOutChemical - (l.state.energyOut + e.state.energyMechDynBrake) - r.state.energyAux
        - r.state.energyLoss - e.state.energyLoss

/-- cumulative hand-off defects: engine shaft vs generator input, generator output vs drivetrain
    input (conventional); battery propulsion output vs drivetrain input, battery electrical output
    vs propulsion + aux (battery-electric); wheel energy vs drivetrain propulsion − dynamic braking -/
def handoffDefects (l : Loco α) : List α :=
  match l.pt with
  | .conv fc g e =>
      [fc.state.energyBrake - g.state.energyMechIn,
       g.state.energyElecPropOut - e.state.energyElecPropIn,
       l.state.energyOut - (e.state.energyMechPropOut - e.state.energyMechDynBrake)]
  | .bel r e =>
      [r.state.energyOutPropulsion - e.state.energyElecPropIn,
       r.state.energyOutElectrical - (r.state.energyOutPropulsion + r.state.energyAux),
       l.state.energyOut - (e.state.energyMechPropOut - e.state.energyMechDynBrake)]

/-- cumulative per-component balances: input − (outputs + reported loss) -/
def componentDefects (l : Loco α) : List α :=
  match l.pt with
  | .conv fc g e =>
      [fc.state.energyFuel - (fc.state.energyBrake + fc.state.energyLoss),
       g.state.energyMechIn - (g.state.energyElecPropOut + g.state.energyElecAux + g.state.energyLoss),
       e.state.energyElecPropIn - (e.state.energyMechPropOut + e.state.energyLoss)]
  | .bel r e =>
      [r.state.energyOutChemical - (r.state.energyOutElectrical + r.state.energyLoss),
       e.state.energyElecPropIn - (e.state.energyMechPropOut + e.state.energyLoss)]

/-- all conserved ledger quantities of a unit -/
def defects (l : Loco α) : List α := ledgerDefect l :: (handoffDefects l ++ componentDefects l)

/-- battery bookkeeping: the capacity, and `SOC + chemical energy out / capacity` -/
def socInv (l : Loco α) : α × α :=
  match l.pt with
  | .conv .. => (0, 0)
  | .bel r _ => (r.energyCapacity, r.state.soc + r.state.energyOutChemical / r.energyCapacity)

/-- everything §5 shows to be constant along a run -/
def conserved (l : Loco α) : List α × (α × α) := (defects l, socInv l)

/-- **One unit step** in the form shared by `LocomotiveSimulation::solve_step` and the consist:
    `set_pwr_aux`, `set_cur_pwr_max_out`, `solve_energy_consumption` (any request, any `dt`,
    possibly different `engine_on` arguments). -/
theorem unit_step_conserved {k : Consts α} {l l1 l' : Loco α} {req dt : α} {on on' : Option Bool}
    (h1 : locoSetCurMax k (locoSetAux l on) dt = .ok l1)
    (h2 : locoSolve k l1 req dt on' = .ok l') (hη : EtaOK l') :
    conserved l' = conserved l := by
  obtain ⟨hsame, hreg, hEo1, _⟩ := locoSetCurMax_frame h1
  obtain ⟨hstep, ho, hEo, _⟩ := locoSolve_spec h2
  have hpt : (locoSetAux l on).pt = l.pt := rfl
  have hst : (locoSetAux l on).state.energyOut = l.state.energyOut := rfl
  rw [hpt] at hsame; rw [hst] at hEo1
  rcases hl : l.pt with ⟨fc, g, e⟩ | ⟨r, e⟩ <;> rcases hl1 : l1.pt with ⟨fc1, g1, e1⟩ | ⟨r1, e1⟩ <;>
    rw [hl, hl1] at hsame <;> simp only [PtSame] at hsame <;>
    rcases hl' : l'.pt with ⟨fc', g', e'⟩ | ⟨r', e'⟩ <;>
    rw [hl1, hl'] at hstep <;> simp only [PtStep] at hstep
  · -- conventional
    obtain ⟨sf0, sg0, se0⟩ := hsame
    obtain ⟨se, sg, _, sf⟩ := hstep
    rw [hl1] at hreg; rw [EtaOK, hl'] at hη; rw [hl'] at ho
    simp only [Powertrain.edrv] at ho hreg
    have hb := edrv_balance se hreg hη.1 hη.2
    have q1 := congrArg (· * dt) sf.pwrLoss
    have q2 := congrArg (· * dt) sf.pwrBrake
    have q3 := congrArg (· * dt) sg.pwrLoss
    have q4 := congrArg (· * dt) sg.pwrElecPropOut
    have q5 := congrArg (· * dt) sg.pwrElecAux
    have q6 := congrArg (· * dt) hb
    have q7 := congrArg (· * dt) ho
    have q8 := congrArg (· * dt) se.pwrMechDynBrake
    have a1 := sf.energyBrake; have a2 := sf.energyFuel; have a3 := sf.energyLoss
    have b1 := sg.energyMechIn; have b2 := sg.energyElecPropOut; have b3 := sg.energyElecAux
    have b4 := sg.energyLoss
    have c1 := se.energyElecPropIn; have c2 := se.energyMechPropOut; have c3 := se.energyMechDynBrake
    have c4 := se.energyLoss
    have d1 := sf0.energyBrake; have d2 := sf0.energyFuel; have d3 := sf0.energyLoss
    have e1' := sg0.energyMechIn; have e2 := sg0.energyElecPropOut; have e3 := sg0.energyElecAux
    have e4 := sg0.energyLoss
    have f1 := se0.energyElecPropIn; have f2 := se0.energyMechPropOut
    have f3 := se0.energyMechDynBrake; have f4 := se0.energyLoss
    simp only [conserved, defects, socInv, ledgerDefect, handoffDefects, componentDefects, hl, hl',
      List.cons_append, List.nil_append, List.cons.injEq, and_true, Prod.mk.injEq]
    refine ⟨?_, ?_, ?_, ?_, ?_, ?_, ?_⟩ <;> linarith
  · -- battery-electric
    obtain ⟨sr0, se0⟩ := hsame
    obtain ⟨se, sr⟩ := hstep
    rw [hl1] at hreg; rw [EtaOK, hl'] at hη; rw [hl'] at ho
    simp only [Powertrain.edrv] at ho hreg
    have hb := edrv_balance se hreg hη.1.1 hη.1.2
    have hc := res_balance sr hη.2.1 hη.2.2
    have q1 := congrArg (· * dt) hc
    have q2 := congrArg (· * dt) sr.pwrOutElectrical
    have q3 := congrArg (· * dt) sr.pwrOutPropulsion
    have q4 := congrArg (· * dt) sr.pwrAux
    have q6 := congrArg (· * dt) hb
    have q7 := congrArg (· * dt) ho
    have q8 := congrArg (· * dt) se.pwrMechDynBrake
    have a1 := sr.energyOutPropulsion; have a2 := sr.energyAux; have a3 := sr.energyOutElectrical
    have a4 := sr.energyOutChemical; have a5 := sr.energyLoss
    have c1 := se.energyElecPropIn; have c2 := se.energyMechPropOut; have c3 := se.energyMechDynBrake
    have c4 := se.energyLoss
    have d1 := sr0.energyOutPropulsion; have d2 := sr0.energyAux; have d3 := sr0.energyOutElectrical
    have d4 := sr0.energyOutChemical; have d5 := sr0.energyLoss
    have f1 := se0.energyElecPropIn; have f2 := se0.energyMechPropOut
    have f3 := se0.energyMechDynBrake; have f4 := se0.energyLoss
    simp only [conserved, defects, socInv, ledgerDefect, handoffDefects, componentDefects, hl, hl',
      List.cons_append, List.nil_append, List.cons.injEq, and_true, Prod.mk.injEq]
    refine ⟨⟨?_, ?_, ?_, ?_, ?_, ?_⟩, ?_, ?_⟩
    · linarith
    · linarith
    · linarith
    · linarith
    · linarith
    · linarith
    · rw [sr.energyCapacity, sr0.energyCapacity]
    · rw [sr.energyCapacity, sr0.energyCapacity, sr.soc, sr0.soc, sr.energyOutChemical,
        sr0.energyOutChemical, sr0.energyCapacity]
      ring

/-- **C01, one simulation step**: `LocomotiveSimulation::solve_step` preserves every ledger
    quantity.  `EtaOK new` is FORCED (§1); the regeneration-limit side condition of §4 is not
    needed because `set_cur_pwr_max_out` re-establishes it in every step. -/
def C01_step_statement : Prop :=
  ∀ (k : Consts α) (l new : Loco α) (req dt : α) (on : Option Bool),
    locoSimStep k l req dt on = .ok new → EtaOK new → conserved new = conserved l

theorem C01_step : C01_step_statement (α := α) := by
  intro k l new req dt on h hη
  obtain ⟨l1, h1, h2⟩ := locoSimStep_inv h
  exact unit_step_conserved h1 h2 hη

/-- `LocomotiveSimulation::walk` over a list of samples `(pwr_out_req, dt, engine_on)`;
    the first rejected step aborts the run -/
def locoWalk (k : Consts α) (l : Loco α) : List (α × α × Option Bool) → Res (Loco α)
  | [] => .ok l
  | (req, dt, on) :: t => locoSimStep k l req dt on >>= fun l' => locoWalk k l' t

/-- every state reached along the walk used efficiencies in `(0,1]` (drivetrain, and battery for
    a BEL) — the explicit, honest form of the η side condition for a whole trace -/
def EtaAlong (k : Consts α) (l : Loco α) : List (α × α × Option Bool) → Prop
  | [] => True
  | (req, dt, on) :: t => ∀ l', locoSimStep k l req dt on = .ok l' → EtaOK l' ∧ EtaAlong k l' t

/-- `EtaAlong` from a step invariant (e.g. "all efficiency maps take values in `(0,1]`") -/
theorem etaAlong_of_invariant (k : Consts α) (Inv : Loco α → Prop)
    (hInv : ∀ l req dt on l', Inv l → locoSimStep k l req dt on = .ok l' → Inv l' ∧ EtaOK l')
    (l : Loco α) (tr : List (α × α × Option Bool)) (h0 : Inv l) : EtaAlong k l tr := by
  induction tr generalizing l with
  | nil => trivial
  | cons s t ih =>
    obtain ⟨req, dt, on⟩ := s
    intro l' hl'
    obtain ⟨hi, he⟩ := hInv l req dt on l' h0 hl'
    exact ⟨he, ih l' hi⟩

theorem locoWalk_append (k : Consts α) (l lf : Loco α) (pre post : List (α × α × Option Bool)) :
    locoWalk k l (pre ++ post) = .ok lf ↔
      ∃ lm, locoWalk k l pre = .ok lm ∧ locoWalk k lm post = .ok lf := by
  induction pre generalizing l with
  | nil => simp [locoWalk]
  | cons s t ih =>
    obtain ⟨req, dt, on⟩ := s
    simp only [List.cons_append, locoWalk, bind_ok, ih]
    constructor
    · rintro ⟨l1, h1, lm, h2, h3⟩; exact ⟨lm, ⟨l1, h1, h2⟩, h3⟩
    · rintro ⟨lm, ⟨l1, h1, h2⟩, h3⟩; exact ⟨l1, h1, lm, h2, h3⟩

theorem etaAlong_prefix (k : Consts α) (l : Loco α) (pre post : List (α × α × Option Bool))
    (h : EtaAlong k l (pre ++ post)) : EtaAlong k l pre := by
  induction pre generalizing l with
  | nil => trivial
  | cons s t ih =>
    obtain ⟨req, dt, on⟩ := s
    intro l' hl'
    obtain ⟨he, ha⟩ := h l' hl'
    exact ⟨he, ih l' ha⟩

/-- **C01, whole trace**: after ANY accepted trace every ledger quantity has its initial value. -/
def C01_walk_statement : Prop :=
  ∀ (k : Consts α) (l new : Loco α) (tr : List (α × α × Option Bool)),
    locoWalk k l tr = .ok new → EtaAlong k l tr → conserved new = conserved l

theorem C01_walk : C01_walk_statement (α := α) := by
  intro k l new tr h hη
  induction tr generalizing l with
  | nil => simp only [locoWalk, Res.ok.injEq] at h; rw [h]
  | cons s t ih =>
    obtain ⟨req, dt, on⟩ := s
    simp only [locoWalk, bind_ok] at h
    obtain ⟨l1, h1, h2⟩ := h
    obtain ⟨he, ha⟩ := hη l1 h1
    rw [ih l1 h2 ha, C01_step k l l1 req dt on h1 he]

/-- **C01, every prefix**: if the walk over `pre ++ post` is accepted then so is the walk over
    `pre`, the rest of the walk continues from there, and the ledger quantities after `pre` are
    the initial ones. -/
def C01_walk_prefix_statement : Prop :=
  ∀ (k : Consts α) (l new : Loco α) (pre post : List (α × α × Option Bool)),
    locoWalk k l (pre ++ post) = .ok new → EtaAlong k l (pre ++ post) →
      ∃ mid, locoWalk k l pre = .ok mid ∧ locoWalk k mid post = .ok new ∧
        conserved mid = conserved l

theorem C01_walk_prefix : C01_walk_prefix_statement (α := α) := by
  intro k l new pre post h hη
  obtain ⟨mid, h1, h2⟩ := (locoWalk_append k l new pre post).mp h
  exact ⟨mid, h1, h2, C01_walk k l mid pre h1 (etaAlong_prefix k l pre post hη)⟩

/-- all cumulative counters that enter the ledger are zero (a freshly built unit) -/
def ZeroCounters (l : Loco α) : Prop :=
  l.state.energyOut = 0 ∧
  match l.pt with
  | .conv fc g e =>
      (fc.state.energyBrake = 0 ∧ fc.state.energyFuel = 0 ∧ fc.state.energyLoss = 0) ∧
      (g.state.energyMechIn = 0 ∧ g.state.energyElecPropOut = 0 ∧ g.state.energyElecAux = 0 ∧
        g.state.energyLoss = 0) ∧
      (e.state.energyElecPropIn = 0 ∧ e.state.energyMechPropOut = 0 ∧
        e.state.energyMechDynBrake = 0 ∧ e.state.energyLoss = 0)
  | .bel r e =>
      (r.state.energyOutPropulsion = 0 ∧ r.state.energyAux = 0 ∧ r.state.energyOutElectrical = 0 ∧
        r.state.energyOutChemical = 0 ∧ r.state.energyLoss = 0) ∧
      (e.state.energyElecPropIn = 0 ∧ e.state.energyMechPropOut = 0 ∧
        e.state.energyMechDynBrake = 0 ∧ e.state.energyLoss = 0)

theorem defects_zero (l : Loco α) (h : ZeroCounters l) : ∀ d ∈ defects l, d = 0 := by
  obtain ⟨h0, h⟩ := h
  rcases hl : l.pt with ⟨fc, g, e⟩ | ⟨r, e⟩ <;> rw [hl] at h <;>
    simp only [defects, ledgerDefect, handoffDefects, componentDefects, hl, List.cons_append,
      List.nil_append, List.mem_cons, List.not_mem_nil, or_false]
  · obtain ⟨⟨a1, a2, a3⟩, ⟨b1, b2, b3, b4⟩, ⟨c1, c2, c3, c4⟩⟩ := h
    rintro d (rfl | rfl | rfl | rfl | rfl | rfl | rfl) <;>
      simp only [h0, a1, a2, a3, b1, b2, b3, b4, c1, c2, c3, c4, sub_zero, add_zero]
  · obtain ⟨⟨a1, a2, a3, a4, a5⟩, ⟨c1, c2, c3, c4⟩⟩ := h
    rintro d (rfl | rfl | rfl | rfl | rfl | rfl) <;>
      simp only [h0, a1, a2, a3, a4, a5, c1, c2, c3, c4, sub_zero, add_zero]

/-- **C01, closed ledger**: started from zero counters, after every prefix of every accepted
    trace the ledger closes exactly — energy drawn = wheel + dynamic braking + aux + all losses,
    every cumulative hand-off and every per-component balance is exact — and, for a BEL with
    non-zero capacity (FORCED, division), the SOC has moved by exactly the chemical energy drawn
    divided by the capacity. -/
def C01_closed_statement : Prop :=
  ∀ (k : Consts α) (l new : Loco α) (pre post : List (α × α × Option Bool)),
    ZeroCounters l → locoWalk k l (pre ++ post) = .ok new → EtaAlong k l (pre ++ post) →
      ∃ mid, locoWalk k l pre = .ok mid ∧
        (∀ d ∈ defects mid, d = 0) ∧
        (match mid.pt with
         | .conv fc g e =>
             fc.state.energyFuel = (mid.state.energyOut + e.state.energyMechDynBrake)
               + g.state.energyElecAux + fc.state.energyLoss + g.state.energyLoss + e.state.energyLoss
         | .bel r e =>
             r.state.energyOutChemical = (mid.state.energyOut + e.state.energyMechDynBrake)
               + r.state.energyAux + r.state.energyLoss + e.state.energyLoss) ∧
        (∀ r e, l.pt = .bel r e → r.energyCapacity ≠ 0 →
          ∃ r' e', mid.pt = .bel r' e' ∧ r'.energyCapacity = r.energyCapacity ∧
            (r.state.soc - r'.state.soc) * r.energyCapacity = r'.state.energyOutChemical)

theorem C01_closed : C01_closed_statement (α := α) := by
  intro k l new pre post hz h hη
  obtain ⟨mid, h1, _, hc⟩ := C01_walk_prefix k l new pre post h hη
  have hd : defects mid = defects l := congrArg Prod.fst hc
  have hs : socInv mid = socInv l := congrArg Prod.snd hc
  have hzero : ∀ d ∈ defects mid, d = 0 := by rw [hd]; exact defects_zero l hz
  refine ⟨mid, h1, hzero, ?_, ?_⟩
  · have := hzero (ledgerDefect mid) (by simp [defects])
    unfold ledgerDefect at this
    rcases hm : mid.pt with ⟨fc, g, e⟩ | ⟨r, e⟩ <;> rw [hm] at this <;> simp only at this ⊢ <;>
      linarith
  · intro r e hl hcap
    obtain ⟨h0, hz⟩ := hz
    rw [hl] at hz
    rcases hm : mid.pt with ⟨fc, g, e'⟩ | ⟨r', e'⟩
    · have hlen := congrArg List.length hd
      simp [defects, handoffDefects, componentDefects, hl, hm] at hlen
    · simp only [socInv, hl, hm, Prod.mk.injEq] at hs
      obtain ⟨hcap', hsoc⟩ := hs
      refine ⟨r', e', rfl, hcap', ?_⟩
      rw [hcap', hz.1.2.2.2.1, zero_div, add_zero] at hsoc
      rw [← hsoc]; field_simp; ring

/-! ### Non-vacuity of §5 on concrete rational runs -/
namespace Ex

/-- run the walk and check `EtaOK` after every step -/
def walkB (k : Consts ℚ) (l : Loco ℚ) : List (ℚ × ℚ × Option Bool) → Bool
  | [] => true
  | (req, dt, on) :: t =>
    match locoSimStep k l req dt on with
    | .ok l' => etaOKB l' && walkB k l' t
    | _ => false

theorem walkB_sound (k : Consts ℚ) (l : Loco ℚ) (tr : List (ℚ × ℚ × Option Bool))
    (h : walkB k l tr = true) : (∃ new, locoWalk k l tr = .ok new) ∧ EtaAlong k l tr := by
  induction tr generalizing l with
  | nil => exact ⟨⟨l, rfl⟩, trivial⟩
  | cons s t ih =>
    obtain ⟨req, dt, on⟩ := s
    simp only [walkB] at h
    cases hs : locoSimStep k l req dt on with
    | ok l' =>
      rw [hs, Bool.and_eq_true] at h
      obtain ⟨⟨new, hn⟩, ha⟩ := ih l' h.2
      refine ⟨⟨new, by simp only [locoWalk, hs, bind, Res.bind]; exact hn⟩, ?_⟩
      intro l'' hl''
      rw [hs] at hl''; cases hl''
      exact ⟨etaOKB_sound h.1, ha⟩
    | err e => rw [hs] at h; cases h
    | panic e => rw [hs] at h; cases h

/-- traction, coasting, dynamic braking (engine_on = None), engine off -/
def trConv : List (ℚ × ℚ × Option Bool) :=
  [(100, 1, some true), (0, 2, some true), (-50, 1/2, none), (0, 1, some false)]
/-- traction, coasting, regeneration, regeneration + dynamic braking -/
def trBel : List (ℚ × ℚ × Option Bool) :=
  [(100, 1, some true), (0, 2, some true), (-50, 1/2, none), (-900, 1, some true)]

theorem convQ_zero : ZeroCounters convQ := by
  simp [ZeroCounters, convQ, fcQ, genQ, edQ]
theorem belQ_zero : ZeroCounters belQ := by
  simp [ZeroCounters, belQ, resQ, resStQ, edQ]

end Ex

/-- all hypotheses of `C01_walk`, `C01_walk_prefix`, `C01_closed` hold on a conventional run … -/
example : ZeroCounters Ex.convQ ∧ (∃ new, locoWalk Ex.kQ Ex.convQ Ex.trConv = .ok new) ∧
    EtaAlong Ex.kQ Ex.convQ Ex.trConv :=
  ⟨Ex.convQ_zero, Ex.walkB_sound _ _ _ (by decide +kernel)⟩

/-- … and on a battery-electric run (non-zero capacity included) -/
example : ZeroCounters Ex.belQ ∧ (∃ new, locoWalk Ex.kQ Ex.belQ Ex.trBel = .ok new) ∧
    EtaAlong Ex.kQ Ex.belQ Ex.trBel ∧ Ex.resQ.energyCapacity ≠ 0 :=
  ⟨Ex.belQ_zero, (Ex.walkB_sound _ _ _ (by decide +kernel)).1,
    (Ex.walkB_sound _ _ _ (by decide +kernel)).2, by decide +kernel⟩

/-- single step (hypotheses of `C01_step`) -/
example : ∃ new, locoSimStep Ex.kQ Ex.belQ (-900) 1 (some true) = .ok new ∧ EtaOK new := by
  obtain ⟨n, h, hp⟩ := Ex.okAnd_exists (r := locoSimStep Ex.kQ Ex.belQ (-900) 1 (some true))
    (p := Ex.etaOKB) (by decide +kernel)
  exact ⟨n, h, Ex.etaOKB_sound hp⟩

/-! ### §5b  The locomotive-level auxiliary counter

The ledger above uses the auxiliary energy booked by the component that supplies it
(`gen.energyElecAux`, `res.energyAux`).  The locomotive also keeps its own counter
`state.energyAux`, advanced by `state.pwrAux · dt`.  For a conventional unit the two agree; for a
battery-electric unit they do NOT in general: while not motoring the battery serves only
`max (min aux (pwrPropOutMax − pin)) 0`, but the locomotive books the full `pwrAux`. -/

/-- locomotive aux counter minus the supplying component's aux counter -/
def auxDefect (l : Loco α) : α :=
  match l.pt with
  | .conv _ g _ => l.state.energyAux - g.state.energyElecAux
  | .bel r _ => l.state.energyAux - r.state.energyAux

/-- full-strength clause (FALSE for battery-electric units) -/
def C01_aux_statement : Prop :=
  ∀ (k : Consts α) (l new : Loco α) (req dt : α) (on : Option Bool),
    locoSimStep k l req dt on = .ok new → auxDefect new = auxDefect l

/-- true variant: conventional units (hypothesis `l.pt.isBel = false` FORCED by the counterexample) -/
def C01_aux_partial_statement : Prop :=
  ∀ (k : Consts α) (l new : Loco α) (req dt : α) (on : Option Bool),
    l.pt.isBel = false →
    locoSimStep k l req dt on = .ok new → auxDefect new = auxDefect l

theorem C01_aux_partial : C01_aux_partial_statement (α := α) := by
  intro k l new req dt on hb h
  obtain ⟨l1, h1, h2⟩ := locoSimStep_inv h
  obtain ⟨hsame, _, _, hEa1, hpa1, _⟩ := locoSetCurMax_frame h1
  obtain ⟨hstep, _, _, hEa, _⟩ := locoSolve_spec h2
  have hpt : (locoSetAux l on).pt = l.pt := rfl
  have hst : (locoSetAux l on).state.energyAux = l.state.energyAux := rfl
  have haux : (locoSetAux l on).state.pwrAux =
      if on.getD true then l.pwrAuxOffset + l.pwrAuxTractionCoeff * absv l.state.pwrOut else 0 := rfl
  rw [hpt] at hsame; rw [hst] at hEa1; rw [haux] at hpa1
  rcases hl : l.pt with ⟨fc, g, e⟩ | ⟨r, e⟩
  · rcases hl1 : l1.pt with ⟨fc1, g1, e1⟩ | ⟨r1, e1⟩ <;>
      rw [hl, hl1] at hsame <;> simp only [PtSame] at hsame
    rcases hl' : new.pt with ⟨fc', g', e'⟩ | ⟨r', e'⟩ <;>
      rw [hl1, hl'] at hstep <;> simp only [PtStep] at hstep
    obtain ⟨_, sg0, _⟩ := hsame
    obtain ⟨_, sg, _, _⟩ := hstep
    simp only [auxDefect, hl, hl']
    rw [hEa, hEa1, sg.energyElecAux, sg.pwrElecAux, sg0.energyElecAux, hpa1]
    split_ifs <;> ring
  · rw [hl] at hb; simp [Powertrain.isBel] at hb

namespace Ex
/-- a battery at its minimum SOC (discharge limit 0) -/
def resLowQ : RES ℚ := { resQ with state := { resQ.state with soc := 1/10 } }
def belLowQ : Loco ℚ := { belQ with pt := .bel resLowQ edQ }
end Ex

/-- BEL at minimum SOC, zero traction request, one second: the step is accepted, the locomotive
    books 10 J of auxiliary energy, the battery books (and delivers) none. -/
theorem C01_aux_counterexample_bel :
    ∃ new, locoSimStep Ex.kQ Ex.belLowQ 0 1 (some true) = .ok new ∧ EtaOK new ∧
      auxDefect Ex.belLowQ = 0 ∧ new.state.energyAux = 10 ∧ auxDefect new = 10 := by
  obtain ⟨n, h, hp⟩ := Ex.okAnd_exists (r := locoSimStep Ex.kQ Ex.belLowQ 0 1 (some true))
    (p := fun n => Ex.etaOKB n && decide (n.state.energyAux = 10) &&
      (match n.pt with | .bel r _ => decide (r.state.energyAux = 0) | _ => false))
    (by decide +kernel)
  simp only [Bool.and_eq_true, decide_eq_true_eq] at hp
  obtain ⟨⟨hη, h10⟩, hr⟩ := hp
  refine ⟨n, h, Ex.etaOKB_sound hη, by simp [auxDefect, Ex.belLowQ, Ex.belQ, Ex.resLowQ, Ex.resQ, Ex.resStQ], h10, ?_⟩
  unfold auxDefect
  rcases hn : n.pt with ⟨fc, g, e⟩ | ⟨r, e⟩ <;> rw [hn] at hr
  · cases hr
  · simp only [decide_eq_true_eq] at hr; simp only [h10, hr, sub_zero]

theorem C01_aux_counterexample : ¬ C01_aux_statement (α := ℚ) := by
  intro hall
  obtain ⟨n, h, _, h0, _, h10⟩ := C01_aux_counterexample_bel
  have := hall _ _ _ _ _ _ h
  rw [h0, h10] at this
  norm_num at this

example : ∃ new, Ex.convQ.pt.isBel = false ∧ locoSimStep Ex.kQ Ex.convQ 100 1 (some true) = .ok new :=
  (Ex.okAnd_exists (p := fun _ => true) (by decide +kernel)).imp fun _ h => ⟨rfl, h.1⟩


/-! ## §6  Consist roll-ups -/

/-- **Consist roll-up, one solve.**  No unit is dropped, the consist's fuel, battery and wheel
    powers are the (left-fold) sums over its units, every unit delivers exactly its share, and
    every consist counter advances by power × dt. -/
def C01_consist_rollup_statement : Prop :=
  ∀ (k : Consts α) (c new : Consist α) (req dt : α) (on : Option Bool),
    consistSolve k c req dt on = .ok new →
      new.locos.length = c.locos.length ∧
      new.state.pwrFuel = sumLeft (new.locos.map pwrFuelOf) ∧
      new.state.pwrReves = sumLeft (new.locos.map pwrChemOf) ∧
      new.state.pwrOut = sumLeft (new.locos.map (·.state.pwrOut)) ∧
      (∃ shares : List α, shares.length = c.locos.length ∧
        solveUnits k dt on c.locos shares = .ok new.locos ∧
        new.state.pwrOut = sumLeft shares ∧ new.locos.map (·.state.pwrOut) = shares) ∧
      new.state.energyOut = c.state.energyOut + new.state.pwrOut * dt ∧
      new.state.energyFuel = c.state.energyFuel + new.state.pwrFuel * dt ∧
      new.state.energyRes = c.state.energyRes + new.state.pwrReves * dt

theorem C01_consist_rollup : C01_consist_rollup_statement (α := α) := by
  intro k c new req dt on h
  obtain ⟨shares, hlen, hsolve, hout, hfuel, hres, heo, hef, her, _⟩ := consistSolve_inv h
  obtain ⟨hf2, hmap⟩ := solveUnits_spec c.locos shares new.locos hsolve hlen
  refine ⟨hf2.length_eq.symm, hfuel, hres, ?_, ⟨shares, hlen, hsolve, hout, hmap⟩, heo, hef, her⟩
  rw [hout, hmap]

/-- consist-level conserved quantities: consist fuel counter vs `get_energy_fuel`, consist battery
    counter vs `get_net_energy_res`, consist wheel-energy counter vs the sum over units, and the
    split of the wheel energy into its positive and negative parts -/
def consistDefects (c : Consist α) : List α :=
  [c.state.energyFuel - getEnergyFuel c,
   c.state.energyRes - getNetEnergyRes c,
   c.state.energyOut - sumLeft (c.locos.map (·.state.energyOut)),
   c.state.energyOut - (c.state.energyOutPos - c.state.energyOutNeg)]

/-- the units before and after one consist step, related one by one through
    set_pwr_aux → set_cur_pwr_max_out → solve (with the unit's share as request) -/
theorem consistSimStep_units {k : Consts α} {c new : Consist α} {req dt : α}
    (h : consistSimStep k c req dt = .ok new) :
    ∃ c1 : Consist α, consistSolve k c1 req dt (some true) = .ok new ∧
      c1.state.energyOut = c.state.energyOut ∧
      c1.state.energyFuel = c.state.energyFuel ∧ c1.state.energyRes = c.state.energyRes ∧
      c1.state.energyOutPos = c.state.energyOutPos ∧ c1.state.energyOutNeg = c.state.energyOutNeg ∧
      List.Forall₂ (fun l l1 => locoSetCurMax k (locoSetAux l (some true)) dt = .ok l1) c.locos c1.locos ∧
      List.Forall₂ (fun l1 l' => ∃ p, locoSolve k l1 p dt (some true) = .ok l') c1.locos new.locos := by
  obtain ⟨locos1, c1, hm, hl1, e1, e2, e3, e4, e5, hs⟩ := consistSimStep_inv h
  have hf := mapM'_forall2 _ _ _ hm
  rw [List.forall₂_map_left_iff] at hf
  obtain ⟨shares, hlen, hsolve, _⟩ := consistSolve_inv hs
  obtain ⟨hf2, _⟩ := solveUnits_spec c1.locos shares new.locos hsolve hlen
  exact ⟨c1, hs, e1, e2, e3, e4, e5, hl1 ▸ hf, hf2⟩

/-- **C01, one consist step**: `ConsistSimulation::solve_step` preserves the consist roll-ups.
    No efficiency hypothesis is needed for these. -/
def C01_consist_step_statement : Prop :=
  ∀ (k : Consts α) (c new : Consist α) (req dt : α),
    consistSimStep k c req dt = .ok new → consistDefects new = consistDefects c

theorem C01_consist_step : C01_consist_step_statement (α := α) := by
  intro k c new req dt h
  obtain ⟨c1, hs, e1, e2, e3, e4, e5, hf1, hf2⟩ := consistSimStep_units h
  obtain ⟨_, _, _, hout, hfuel, hres, heo, hef, her, hpos, hneg⟩ := consistSolve_inv hs
  obtain ⟨_, _, _, hsum, _⟩ := C01_consist_rollup k c1 new req dt (some true) hs
  -- sums over the units
  have s1 : ∀ (f g : Loco α → α),
      (∀ l l1, locoSetCurMax k (locoSetAux l (some true)) dt = .ok l1 → f l1 = f l) →
      (∀ l1 l' p, locoSolve k l1 p dt (some true) = .ok l' → f l' = f l1 + g l' * dt) →
      sumLeft (new.locos.map f) = sumLeft (c.locos.map f) + sumLeft (new.locos.map g) * dt := by
    intro f g ha hb
    rw [sumLeft_map_step c1.locos new.locos f g dt (hf2.imp fun l1 l' ⟨p, hp⟩ => hb l1 l' p hp),
      sumLeft_map_congr c.locos c1.locos f (hf1.imp fun l l1 hl => ha l l1 hl)]
  have sF := s1 energyFuelOf pwrFuelOf
    (fun l l1 hl => (locoSetCurMax_rollup hl).1.trans (locoSetAux_rollup l _).1)
    (fun l1 l' p hp => (locoSolve_rollup hp).1)
  have sC := s1 energyChemOf pwrChemOf
    (fun l l1 hl => (locoSetCurMax_rollup hl).2.1.trans (locoSetAux_rollup l _).2.1)
    (fun l1 l' p hp => (locoSolve_rollup hp).2.1)
  have sO := s1 (·.state.energyOut) (·.state.pwrOut)
    (fun l l1 hl => (locoSetCurMax_rollup hl).2.2.trans (locoSetAux_rollup l _).2.2)
    (fun l1 l' p hp => (locoSolve_rollup hp).2.2)
  simp only [consistDefects, getEnergyFuel, getNetEnergyRes, List.cons.injEq, and_true]
  refine ⟨?_, ?_, ?_, ?_⟩
  · rw [sF, hef, e2, ← hfuel]; ring
  · rw [sC, her, e3, ← hres]; ring
  · rw [sO, heo, e1, ← hsum]; ring
  · rw [heo, hpos, hneg, e1, e4, e5]; split_ifs <;> ring

/-- `ConsistSimulation::walk` over a list of samples `(pwr_out_req, dt)` -/
def consistWalk (k : Consts α) (c : Consist α) : List (α × α) → Res (Consist α)
  | [] => .ok c
  | (req, dt) :: t => consistSimStep k c req dt >>= fun c' => consistWalk k c' t

theorem consistWalk_append (k : Consts α) (c cf : Consist α) (pre post : List (α × α)) :
    consistWalk k c (pre ++ post) = .ok cf ↔
      ∃ cm, consistWalk k c pre = .ok cm ∧ consistWalk k cm post = .ok cf := by
  induction pre generalizing c with
  | nil => simp [consistWalk]
  | cons s t ih =>
    obtain ⟨req, dt⟩ := s
    simp only [List.cons_append, consistWalk, bind_ok, ih]
    constructor
    · rintro ⟨c1, h1, cm, h2, h3⟩; exact ⟨cm, ⟨c1, h1, h2⟩, h3⟩
    · rintro ⟨cm, ⟨c1, h1, h2⟩, h3⟩; exact ⟨c1, h1, cm, h2, h3⟩

/-- **C01, consist, whole trace** -/
def C01_consist_walk_statement : Prop :=
  ∀ (k : Consts α) (c new : Consist α) (tr : List (α × α)),
    consistWalk k c tr = .ok new →
      consistDefects new = consistDefects c ∧ new.locos.length = c.locos.length

theorem C01_consist_walk : C01_consist_walk_statement (α := α) := by
  intro k c new tr h
  induction tr generalizing c with
  | nil => simp only [consistWalk, Res.ok.injEq] at h; rw [h]; exact ⟨rfl, rfl⟩
  | cons s t ih =>
    obtain ⟨req, dt⟩ := s
    simp only [consistWalk, bind_ok] at h
    obtain ⟨c1, h1, h2⟩ := h
    obtain ⟨i1, i2⟩ := ih c1 h2
    obtain ⟨c0, hs, _, _, _, _, _, hf1, hf2⟩ := consistSimStep_units h1
    rw [i1, i2, C01_consist_step k c c1 req dt h1, ← hf2.length_eq, ← hf1.length_eq]
    exact ⟨rfl, rfl⟩

/-- **C01, consist, every prefix; closed form.**  If the consist counters agree with the sums over
    the units at the start (e.g. everything zero), then after every prefix of every accepted
    consist trace: consist fuel energy = Σ unit fuel energy (`get_energy_fuel`), consist battery
    energy = Σ unit chemical energy (`get_net_energy_res`), consist wheel energy = Σ unit wheel
    energy = positive part − negative part. -/
def C01_consist_closed_statement : Prop :=
  ∀ (k : Consts α) (c new : Consist α) (pre post : List (α × α)),
    (∀ d ∈ consistDefects c, d = 0) →
    consistWalk k c (pre ++ post) = .ok new →
      ∃ mid, consistWalk k c pre = .ok mid ∧ consistWalk k mid post = .ok new ∧
        mid.locos.length = c.locos.length ∧
        mid.state.energyFuel = getEnergyFuel mid ∧
        mid.state.energyRes = getNetEnergyRes mid ∧
        mid.state.energyOut = sumLeft (mid.locos.map (·.state.energyOut)) ∧
        mid.state.energyOut = mid.state.energyOutPos - mid.state.energyOutNeg

theorem C01_consist_closed : C01_consist_closed_statement (α := α) := by
  intro k c new pre post hz h
  obtain ⟨mid, h1, h2⟩ := (consistWalk_append k c new pre post).mp h
  obtain ⟨hd, hlen⟩ := C01_consist_walk k c mid pre h1
  rw [← hd] at hz
  simp only [consistDefects, List.mem_cons, List.not_mem_nil, or_false, forall_eq_or_imp,
    forall_eq] at hz
  obtain ⟨z1, z2, z3, z4⟩ := hz
  exact ⟨mid, h1, h2, hlen, sub_eq_zero.mp z1, sub_eq_zero.mp z2, sub_eq_zero.mp z3,
    sub_eq_zero.mp z4⟩

/-! ### Non-vacuity of the consist theorems -/
namespace Ex
def cStQ : ConsistState ℚ := ⟨0,0,0,0,0,0,0,0,0,0,0,0,0,0,0,0,0⟩
/-- conventional + battery-electric + conventional, Proportional control -/
def consPQ : Consist ℚ := ⟨[convQ, belQ, convQ], .proportional, true, cStQ⟩
/-- conventional + two battery-electric units, RESGreedy control -/
def consGQ : Consist ℚ := ⟨[convQ, belQ, belQ], .resGreedy, true, cStQ⟩
/-- traction, coasting, regeneration only, regeneration + dynamic braking on every unit -/
def trP : List (ℚ × ℚ) := [(150, 1), (0, 1/2), (-100, 1), (-1000, 2)]
/-- as `trP`, then traction beyond what the batteries alone can give (deficit to the engine) -/
def trG : List (ℚ × ℚ) := [(150, 1), (0, 1/2), (-100, 1), (-1800, 2), (1700, 1)]
theorem consPQ_zero : ∀ d ∈ consistDefects consPQ, d = 0 := by decide +kernel
theorem consGQ_zero : ∀ d ∈ consistDefects consGQ, d = 0 := by decide +kernel
end Ex

example : ∃ new, consistSolve Ex.kQ Ex.consPQ 0 1 (some true) = .ok new :=
  (Ex.okAnd_exists (p := fun _ => true) (by decide +kernel)).imp fun _ h => h.1
example : ∃ new, consistSimStep Ex.kQ Ex.consGQ 150 1 = .ok new :=
  (Ex.okAnd_exists (p := fun _ => true) (by decide +kernel)).imp fun _ h => h.1
example : (∀ d ∈ consistDefects Ex.consPQ, d = 0) ∧ ∃ new, consistWalk Ex.kQ Ex.consPQ Ex.trP = .ok new :=
  ⟨Ex.consPQ_zero, (Ex.okAnd_exists (p := fun _ => true) (by decide +kernel)).imp fun _ h => h.1⟩
example : (∀ d ∈ consistDefects Ex.consGQ, d = 0) ∧ ∃ new, consistWalk Ex.kQ Ex.consGQ Ex.trG = .ok new :=
  ⟨Ex.consGQ_zero, (Ex.okAnd_exists (p := fun _ => true) (by decide +kernel)).imp fun _ h => h.1⟩

/-! ### §6b  The whole-consist ledger: every unit's ledger, and their sum -/

theorem forall₂_comp_mem {A B C : Type} {R1 : A → B → Prop} {R2 : B → C → Prop} {P : C → Prop}
    {S : A → C → Prop} (hS : ∀ x y z, R1 x y → R2 y z → P z → S x z)
    {a : List A} {b : List B} {c : List C} (h1 : List.Forall₂ R1 a b) (h2 : List.Forall₂ R2 b c)
    (hP : ∀ z ∈ c, P z) : List.Forall₂ S a c := by
  induction h1 generalizing c with
  | nil => cases h2; exact .nil
  | cons hab _ ih =>
    cases h2 with
    | cons hbc htl =>
      exact .cons (hS _ _ _ hab hbc (hP _ (by simp)))
        (ih htl (fun z hz => hP z (by simp [hz])))

/-- one consist step preserves every ledger quantity of every unit (η side condition on the
    units of the new consist, FORCED as in §1) -/
def C01_consist_units_step_statement : Prop :=
  ∀ (k : Consts α) (c new : Consist α) (req dt : α),
    consistSimStep k c req dt = .ok new → (∀ l ∈ new.locos, EtaOK l) →
      List.Forall₂ (fun l l' => conserved l' = conserved l) c.locos new.locos

theorem C01_consist_units_step : C01_consist_units_step_statement (α := α) := by
  intro k c new req dt h hη
  obtain ⟨c1, _, _, _, _, _, _, hf1, hf2⟩ := consistSimStep_units h
  exact forall₂_comp_mem (P := EtaOK)
    (fun l l1 l' h1 ⟨p, h2⟩ he => unit_step_conserved h1 h2 he) hf1 hf2 hη

/-- every unit of every consist reached along the walk used efficiencies in `(0,1]` -/
def ConsistEtaAlong (k : Consts α) (c : Consist α) : List (α × α) → Prop
  | [] => True
  | (req, dt) :: t => ∀ c', consistSimStep k c req dt = .ok c' →
      (∀ l ∈ c'.locos, EtaOK l) ∧ ConsistEtaAlong k c' t

theorem consistEtaAlong_prefix (k : Consts α) (c : Consist α) (pre post : List (α × α))
    (h : ConsistEtaAlong k c (pre ++ post)) : ConsistEtaAlong k c pre := by
  induction pre generalizing c with
  | nil => trivial
  | cons s t ih =>
    obtain ⟨req, dt⟩ := s
    intro c' hc'
    obtain ⟨he, ha⟩ := h c' hc'
    exact ⟨he, ih c' ha⟩

/-- any accepted consist trace preserves every ledger quantity of every unit -/
def C01_consist_units_walk_statement : Prop :=
  ∀ (k : Consts α) (c new : Consist α) (tr : List (α × α)),
    consistWalk k c tr = .ok new → ConsistEtaAlong k c tr →
      List.Forall₂ (fun l l' => conserved l' = conserved l) c.locos new.locos

theorem C01_consist_units_walk : C01_consist_units_walk_statement (α := α) := by
  intro k c new tr h hη
  induction tr generalizing c with
  | nil =>
    simp only [consistWalk, Res.ok.injEq] at h; rw [h]
    exact List.forall₂_same.mpr (fun _ _ => rfl)
  | cons s t ih =>
    obtain ⟨req, dt⟩ := s
    simp only [consistWalk, bind_ok] at h
    obtain ⟨c1, h1, h2⟩ := h
    obtain ⟨he, ha⟩ := hη c1 h1
    exact forall₂_comp_mem (P := fun _ => True)
      (fun l l1 l' (e1 : conserved l1 = conserved l) (e2 : conserved l' = conserved l1) _ => e2.trans e1)
      (C01_consist_units_step k c c1 req dt h1 he) (ih c1 h2 ha) (fun _ _ => trivial)

/-- what a unit's drawn energy went into: wheel + dynamic braking + auxiliaries + reported losses -/
def sinksOf (l : Loco α) : α :=
  match l.pt with
  | .conv fc g e =>
      (l.state.energyOut + e.state.energyMechDynBrake) + g.state.energyElecAux
        + fc.state.energyLoss + g.state.energyLoss + e.state.energyLoss
  | .bel r e =>
      (l.state.energyOut + e.state.energyMechDynBrake) + r.state.energyAux
        + r.state.energyLoss + e.state.energyLoss

theorem ledgerDefect_eq (l : Loco α) : ledgerDefect l = energyFuelOf l + energyChemOf l - sinksOf l := by
  unfold ledgerDefect sinksOf energyFuelOf energyChemOf
  cases l.pt <;> simp only <;> ring

/-- **C01, consist, closed ledger.**  From a fresh consist (all unit counters zero, consist counters
    consistent), after every prefix of every accepted consist trace: every unit's ledger closes
    (all of `defects`), and the consist's fuel + battery energy equals the sum over the units of
    wheel + dynamic-braking + auxiliary energy + all reported losses. -/
def C01_consist_ledger_statement : Prop :=
  ∀ (k : Consts α) (c new : Consist α) (pre post : List (α × α)),
    (∀ l ∈ c.locos, ZeroCounters l) → (∀ d ∈ consistDefects c, d = 0) →
    consistWalk k c (pre ++ post) = .ok new → ConsistEtaAlong k c (pre ++ post) →
      ∃ mid, consistWalk k c pre = .ok mid ∧
        (∀ l ∈ mid.locos, ∀ d ∈ defects l, d = 0) ∧
        mid.state.energyFuel + mid.state.energyRes = sumLeft (mid.locos.map sinksOf)

theorem C01_consist_ledger : C01_consist_ledger_statement (α := α) := by
  intro k c new pre post hz hcz h hη
  obtain ⟨mid, h1, _, _, hF, hR, _, _⟩ := C01_consist_closed k c new pre post hcz h
  have hu := C01_consist_units_walk k c mid pre h1 (consistEtaAlong_prefix k c pre post hη)
  have hzero : ∀ l ∈ mid.locos, ∀ d ∈ defects l, d = 0 := by
    have : ∀ (a b : List (Loco α)), List.Forall₂ (fun l l' => conserved l' = conserved l) a b →
        (∀ l ∈ a, ZeroCounters l) → ∀ l ∈ b, ∀ d ∈ defects l, d = 0 := by
      intro a b hab
      induction hab with
      | nil => intro _ l hl; simp at hl
      | cons hxy _ ih =>
        intro hza l hl
        rcases List.mem_cons.mp hl with rfl | hl
        · rw [show defects _ = defects _ from congrArg Prod.fst hxy]
          exact defects_zero _ (hza _ (by simp))
        · exact ih (fun l hl => hza l (by simp [hl])) l hl
    exact this _ _ hu hz
  refine ⟨mid, h1, hzero, ?_⟩
  rw [hF, hR, getEnergyFuel, getNetEnergyRes, ← sumLeft_map_add]
  congr 1
  apply List.map_congr_left
  intro l hl
  have := hzero l hl (ledgerDefect l) (by simp [defects])
  rw [ledgerDefect_eq] at this
  linarith

namespace Ex
def consistWalkB (k : Consts ℚ) (c : Consist ℚ) : List (ℚ × ℚ) → Bool
  | [] => true
  | (req, dt) :: t =>
    match consistSimStep k c req dt with
    | .ok c' => c'.locos.all etaOKB && consistWalkB k c' t
    | _ => false

theorem consistWalkB_sound (k : Consts ℚ) (c : Consist ℚ) (tr : List (ℚ × ℚ))
    (h : consistWalkB k c tr = true) :
    (∃ new, consistWalk k c tr = .ok new) ∧ ConsistEtaAlong k c tr := by
  induction tr generalizing c with
  | nil => exact ⟨⟨c, rfl⟩, trivial⟩
  | cons s t ih =>
    obtain ⟨req, dt⟩ := s
    simp only [consistWalkB] at h
    cases hs : consistSimStep k c req dt with
    | ok c' =>
      rw [hs, Bool.and_eq_true, List.all_eq_true] at h
      obtain ⟨⟨new, hn⟩, ha⟩ := ih c' h.2
      refine ⟨⟨new, by simp only [consistWalk, hs, bind, Res.bind]; exact hn⟩, ?_⟩
      intro c'' hc''
      rw [hs] at hc''; cases hc''
      exact ⟨fun l hl => etaOKB_sound (h.1 l hl), ha⟩
    | err e => rw [hs] at h; cases h
    | panic e => rw [hs] at h; cases h

theorem consPQ_units_zero : ∀ l ∈ consPQ.locos, ZeroCounters l := by
  intro l hl
  simp only [consPQ, List.mem_cons, List.not_mem_nil, or_false] at hl
  rcases hl with rfl | rfl | rfl <;> first | exact convQ_zero | exact belQ_zero

theorem consGQ_units_zero : ∀ l ∈ consGQ.locos, ZeroCounters l := by
  intro l hl
  simp only [consGQ, List.mem_cons, List.not_mem_nil, or_false] at hl
  rcases hl with rfl | rfl | rfl <;> first | exact convQ_zero | exact belQ_zero
end Ex

/-- all hypotheses of `C01_consist_ledger` (and of the unit-wise theorems) on a Proportional run … -/
example : (∀ l ∈ Ex.consPQ.locos, ZeroCounters l) ∧ (∀ d ∈ consistDefects Ex.consPQ, d = 0) ∧
    (∃ new, consistWalk Ex.kQ Ex.consPQ Ex.trP = .ok new) ∧ ConsistEtaAlong Ex.kQ Ex.consPQ Ex.trP :=
  ⟨Ex.consPQ_units_zero, Ex.consPQ_zero, Ex.consistWalkB_sound _ _ _ (by decide +kernel)⟩

/-- … and on a RESGreedy run -/
example : (∀ l ∈ Ex.consGQ.locos, ZeroCounters l) ∧ (∀ d ∈ consistDefects Ex.consGQ, d = 0) ∧
    (∃ new, consistWalk Ex.kQ Ex.consGQ Ex.trG = .ok new) ∧ ConsistEtaAlong Ex.kQ Ex.consGQ Ex.trG :=
  ⟨Ex.consGQ_units_zero, Ex.consGQ_zero, Ex.consistWalkB_sound _ _ _ (by decide +kernel)⟩

end Altrios.Proofs.C01
