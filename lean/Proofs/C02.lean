import Proofs.C13
import Mathlib.Algebra.Order.Ring.Rat
import Mathlib.Algebra.Field.Rat
import Mathlib.Tactic.NormNum
/-
  C02 — the enforced speed-limit profile never exceeds (in magnitude) any posted restriction that
  covers the position, nor the train's own maximum speed.  This is the `≤` half of C13 and is
  derived from the exactness theorems in `Proofs/C13.lean`:

    * one `insert_speed` call           : `C02_insert_sound`, `C02_insert_mono`
    * any sequence of calls             : `C02_profile_sound`
    * `PathTpc::add_speeds` link by link: `C02_route_profile`, `C02_route_sound`, `C02_split`

  Every main theorem is followed by an `example` that instantiates its hypotheses on a concrete
  input over `ℚ` (non-vacuity).
-/
namespace Altrios.Proofs.C02
open Altrios Altrios.SP Altrios.Proofs.C13

variable {α : Type} [Field α] [LinearOrder α] [IsStrictOrderedRing α]

/-! ### magnitudes -/

/-- the magnitude of the sign-aware minimum is the minimum of the magnitudes (`|·|`/`min` form) -/
theorem abs_minSpeed (a b : α) : |minSpeed a b| = min |a| |b| := SPL.abs_minSpeed a b

/-- the same in the model's own vocabulary -/
theorem absv_minSpeed (a b : α) : absv (minSpeed a b) = mn (absv a) (absv b) := by
  rw [SPL.mn_eq_min, SPL.absv_eq_abs, SPL.absv_eq_abs, SPL.absv_eq_abs, SPL.abs_minSpeed]

theorem absv_minSpeed_le_right (a b : α) : absv (minSpeed a b) ≤ absv b := by
  rw [absv_minSpeed, SPL.mn_eq_min]; exact min_le_right _ _

theorem absv_minSpeed_le_left (a b : α) : absv (minSpeed a b) ≤ absv a := by
  rw [absv_minSpeed, SPL.mn_eq_min]; exact min_le_left _ _

example : absv (minSpeed (25 : ℚ) (-10)) = mn (absv 25) (absv (-10)) := absv_minSpeed _ _
example : minSpeed (25 : ℚ) (-10) = -10 := by decide

/-! ### one insertion -/

/-- **C02 (one insertion), soundness.**  On `[start, end)` the new profile does not exceed the
    inserted restriction. -/
theorem C02_insert_sound (pts : List (Pt α)) (l : Lim α) (h : Pre pts l) (x : α)
    (hx : l.s ≤ x ∧ x < l.e) : absv (val (insertSpeed pts l) x) ≤ absv l.v := by
  rw [C13_insert_exact pts l h x, if_pos hx]
  exact absv_minSpeed_le_right _ _

/-- **C02 (one insertion), monotonicity.**  An insertion never raises the profile anywhere. -/
theorem C02_insert_mono (pts : List (Pt α)) (l : Lim α) (h : Pre pts l) (x : α) :
    absv (val (insertSpeed pts l) x) ≤ absv (val pts x) := by
  rw [C13_insert_exact pts l h x]
  split_ifs
  · exact absv_minSpeed_le_left _ _
  · exact le_refl _

/-- a concrete instance of the contract -/
theorem pre_example :
    Pre [(⟨0, 25⟩ : Pt ℚ), ⟨1000, 20⟩, ⟨5000, 25⟩] ⟨2000, 3000, 10⟩ :=
  ⟨by unfold Sorted; decide, by decide, ⟨_, _, rfl, by decide⟩⟩

example : absv (val (insertSpeed [(⟨0, 25⟩ : Pt ℚ), ⟨1000, 20⟩, ⟨5000, 25⟩] ⟨2000, 3000, 10⟩) 2500)
    ≤ absv 10 :=
  C02_insert_sound _ _ pre_example 2500 (by decide)

example : absv (val (insertSpeed [(⟨0, 25⟩ : Pt ℚ), ⟨1000, 20⟩, ⟨5000, 25⟩] ⟨2000, 3000, 10⟩) 4000)
    ≤ absv (val [(⟨0, 25⟩ : Pt ℚ), ⟨1000, 20⟩, ⟨5000, 25⟩] 4000) :=
  C02_insert_mono _ _ pre_example 4000

-- what the model actually returns on this input
example : insertSpeed [(⟨0, 25⟩ : Pt ℚ), ⟨1000, 20⟩, ⟨5000, 25⟩] ⟨2000, 3000, 10⟩ =
    [⟨0, 25⟩, ⟨1000, 20⟩, ⟨2000, 10⟩, ⟨3000, 20⟩, ⟨5000, 25⟩] := by decide

/-! ### any sequence of insertions -/

omit [IsStrictOrderedRing α] in
theorem tightest_cons (vmax : α) (l : Lim α) (ls : List (Lim α)) (x : α) :
    tightest vmax (l :: ls) x =
      tightest (if l.s ≤ x ∧ x < l.e then minSpeed vmax l.v else vmax) ls x := rfl

/-- the fold of minima never exceeds its starting value … -/
theorem absv_tightest_le_init (vmax : α) (lims : List (Lim α)) (x : α) :
    absv (tightest vmax lims x) ≤ absv vmax := by
  induction lims generalizing vmax with
  | nil => exact le_refl _
  | cons l ls ih =>
    rw [tightest_cons]
    refine le_trans (ih _) ?_
    split_ifs
    · exact absv_minSpeed_le_left _ _
    · exact le_refl _

/-- … nor any restriction that covers `x` -/
theorem absv_tightest_le_mem (vmax : α) (lims : List (Lim α)) (x : α) (l : Lim α)
    (hl : l ∈ lims) (hx : l.s ≤ x ∧ x < l.e) : absv (tightest vmax lims x) ≤ absv l.v := by
  induction lims generalizing vmax with
  | nil => simp at hl
  | cons l' ls ih =>
    rw [tightest_cons]
    rcases List.mem_cons.mp hl with rfl | hl
    · rw [if_pos hx]
      exact le_trans (absv_tightest_le_init _ _ _) (absv_minSpeed_le_right _ _)
    · exact ih _ hl

/-- **C02 (any sequence).**  For well-formed restrictions (`0 ≤ start ≤ end`) and `x ≥ 0`, the
    stored profile at `x` is bounded by every restriction covering `x` and by `vmax`. -/
theorem C02_profile_sound (vmax : α) (lims : List (Lim α))
    (hl : ∀ l ∈ lims, 0 ≤ l.s ∧ l.s ≤ l.e) (x : α) (hx : 0 ≤ x) :
    (∀ l ∈ lims, l.s ≤ x ∧ x < l.e → absv (val (profile vmax lims) x) ≤ absv l.v) ∧
      absv (val (profile vmax lims) x) ≤ absv vmax := by
  rw [C13_profile_exact vmax lims hl x hx]
  exact ⟨fun l hm hc => absv_tightest_le_mem vmax lims x l hm hc, absv_tightest_le_init vmax lims x⟩

example : absv (val (profile (25 : ℚ) [⟨2000, 3000, 10⟩, ⟨2500, 6000, 15⟩, ⟨0, 100, 5⟩]) 2700)
    ≤ absv 10 :=
  (C02_profile_sound (25 : ℚ) [⟨2000, 3000, 10⟩, ⟨2500, 6000, 15⟩, ⟨0, 100, 5⟩] (by decide) 2700
    (by decide)).1 ⟨2000, 3000, 10⟩ (by simp) (by decide)

example : profile (25 : ℚ) [⟨2000, 3000, 10⟩, ⟨2500, 6000, 15⟩, ⟨0, 100, 5⟩] =
    [⟨0, 5⟩, ⟨100, 25⟩, ⟨2000, 10⟩, ⟨3000, 15⟩, ⟨6000, 25⟩] := by decide

/-! ### route level: `PathTpc::add_speeds`, link by link -/

/-- what `PathTpc::extend`/`add_speeds` sees of one link: the link's offset in the path, whether
    the limits are head-end limits, the speed set's train-parameter conditions, its limits -/
structure LinkRec (α : Type) where
  base : α
  isHeadEnd : Bool
  params : List (SParam α)
  lims : List (Lim α)

/-- one `add_speeds` call -/
def addLink (toU32 : α → Nat) (tp : TrainP α) (pts : List (Pt α)) (r : LinkRec α) : List (Pt α) :=
  addSpeeds toU32 pts tp r.params r.isHeadEnd r.lims r.base

/-- the path profile after `add_speeds` on each link in turn -/
def route (toU32 : α → Nat) (tp : TrainP α) (init : List (Pt α)) (links : List (LinkRec α)) :
    List (Pt α) :=
  links.foldl (addLink toU32 tp) init

/-- the restrictions one link posts: those of an applicable set that are below the train's own
    maximum, shifted to path coordinates (tail-end ones extended by the train length) -/
def postedLink (toU32 : α → Nat) (tp : TrainP α) (r : LinkRec α) : List (Lim α) :=
  if speedSetApplies toU32 tp r.params then
    (r.lims.filter (fun l => decide (l.v < tp.speedMax))).map
      (shiftLim r.base (lengthAdd tp r.isHeadEnd))
  else []

def posted (toU32 : α → Nat) (tp : TrainP α) (links : List (LinkRec α)) : List (Lim α) :=
  links.flatMap (postedLink toU32 tp)

omit [IsStrictOrderedRing α] in
theorem addLink_eq (toU32 : α → Nat) (tp : TrainP α) (pts : List (Pt α)) (r : LinkRec α) :
    addLink toU32 tp pts r = (postedLink toU32 tp r).foldl insertSpeed pts := by
  unfold addLink addSpeeds postedLink
  split_ifs with h
  · generalize r.lims = ls
    induction ls generalizing pts with
    | nil => rfl
    | cons l ls ih =>
      rw [List.foldl_cons, ih, List.filter_cons]
      by_cases hv : l.v < tp.speedMax
      · simp only [hv, decide_true, if_true, List.map_cons, List.foldl_cons]
      · simp only [hv, decide_false, if_false, Bool.false_eq_true]
  · rfl

omit [IsStrictOrderedRing α] in
theorem route_eq (toU32 : α → Nat) (tp : TrainP α) (init : List (Pt α))
    (links : List (LinkRec α)) :
    route toU32 tp init links = (posted toU32 tp links).foldl insertSpeed init := by
  unfold route posted
  induction links generalizing init with
  | nil => rfl
  | cons r rs ih => rw [List.foldl_cons, ih, List.flatMap_cons, List.foldl_append, addLink_eq]

omit [IsStrictOrderedRing α] in
/-- **C02 (route), shape.**  Folding `add_speeds` over the links, starting from the train's
    maximum speed, is `profile` of the posted restrictions. -/
theorem C02_route_profile (toU32 : α → Nat) (tp : TrainP α) (links : List (LinkRec α)) :
    route toU32 tp [⟨0, tp.speedMax⟩] links = profile tp.speedMax (posted toU32 tp links) :=
  route_eq toU32 tp _ links

omit [IsStrictOrderedRing α] in
/-- **C02 (route), "extended link by link".** -/
theorem C02_split (toU32 : α → Nat) (tp : TrainP α) (init : List (Pt α))
    (links₁ links₂ : List (LinkRec α)) :
    route toU32 tp init (links₁ ++ links₂) = route toU32 tp (route toU32 tp init links₁) links₂ := by
  unfold route; rw [List.foldl_append]

omit [IsStrictOrderedRing α] in
theorem mem_posted (toU32 : α → Nat) (tp : TrainP α) (links : List (LinkRec α)) (m : Lim α) :
    m ∈ posted toU32 tp links ↔
      ∃ r ∈ links, speedSetApplies toU32 tp r.params = true ∧
        ∃ l ∈ r.lims, l.v < tp.speedMax ∧ m = shiftLim r.base (lengthAdd tp r.isHeadEnd) l := by
  unfold posted postedLink
  rw [List.mem_flatMap]
  constructor
  · rintro ⟨r, hr, hm⟩
    split_ifs at hm with h
    · rw [List.mem_map] at hm
      obtain ⟨l, hl, rfl⟩ := hm
      rw [List.mem_filter, decide_eq_true_eq] at hl
      exact ⟨r, hr, h, l, hl.1, hl.2, rfl⟩
    · simp at hm
  · rintro ⟨r, hr, h, l, hl, hv, rfl⟩
    refine ⟨r, hr, ?_⟩
    rw [if_pos h]
    exact List.mem_map_of_mem (List.mem_filter.mpr ⟨hl, by rw [decide_eq_true_eq]; exact hv⟩)

omit [IsStrictOrderedRing α] in
theorem lengthAdd_nonneg (tp : TrainP α) (he : Bool) (h : 0 ≤ tp.length) : 0 ≤ lengthAdd tp he := by
  unfold lengthAdd; split_ifs
  · exact le_refl _
  · exact h

/-- every posted restriction is well formed -/
theorem posted_wf (toU32 : α → Nat) (tp : TrainP α) (links : List (LinkRec α))
    (hbase : ∀ r ∈ links, 0 ≤ r.base)
    (hlims : ∀ r ∈ links, ∀ l ∈ r.lims, 0 ≤ l.s ∧ l.s ≤ l.e) (hlen : 0 ≤ tp.length) :
    ∀ m ∈ posted toU32 tp links, 0 ≤ m.s ∧ m.s ≤ m.e := by
  intro m hm
  obtain ⟨r, hr, _, l, hl, _, rfl⟩ := (mem_posted toU32 tp links m).mp hm
  have h1 := hbase r hr
  have h2 := hlims r hr l hl
  have h3 := lengthAdd_nonneg tp r.isHeadEnd hlen
  unfold shiftLim
  constructor
  · show 0 ≤ l.s + r.base
    linarith
  · show l.s + r.base ≤ l.e + r.base + lengthAdd tp r.isHeadEnd
    linarith

/-- **C02 (route), soundness.**  With non-negative link offsets, well-formed limits and a
    non-negative train length: at every `x ≥ 0` the path profile is bounded by every restriction
    (below the train maximum) of every applicable speed set whose shifted range — tail-end limits
    extended by the train length — covers `x`, and by the train's maximum speed. -/
theorem C02_route_sound (toU32 : α → Nat) (tp : TrainP α) (links : List (LinkRec α))
    (hbase : ∀ r ∈ links, 0 ≤ r.base)
    (hlims : ∀ r ∈ links, ∀ l ∈ r.lims, 0 ≤ l.s ∧ l.s ≤ l.e) (hlen : 0 ≤ tp.length)
    (x : α) (hx : 0 ≤ x) :
    (∀ r ∈ links, speedSetApplies toU32 tp r.params = true → ∀ l ∈ r.lims, l.v < tp.speedMax →
        l.s + r.base ≤ x → x < l.e + r.base + lengthAdd tp r.isHeadEnd →
        absv (val (route toU32 tp [⟨0, tp.speedMax⟩] links) x) ≤ absv l.v) ∧
      absv (val (route toU32 tp [⟨0, tp.speedMax⟩] links) x) ≤ absv tp.speedMax := by
  rw [C02_route_profile]
  have h := C02_profile_sound tp.speedMax (posted toU32 tp links)
    (posted_wf toU32 tp links hbase hlims hlen) x hx
  refine ⟨?_, h.2⟩
  intro r hr happ l hl hv h1 h2
  exact h.1 (shiftLim r.base (lengthAdd tp r.isHeadEnd) l)
    ((mem_posted toU32 tp links _).mpr ⟨r, hr, happ, l, hl, hv, rfl⟩) ⟨h1, h2⟩

/-- With a non-negative train maximum the side condition `l.v < speedMax` can be dropped: a
    restriction that is not posted is not below the maximum, which bounds the profile anyway. -/
theorem C02_route_sound_all (toU32 : α → Nat) (tp : TrainP α) (links : List (LinkRec α))
    (hbase : ∀ r ∈ links, 0 ≤ r.base)
    (hlims : ∀ r ∈ links, ∀ l ∈ r.lims, 0 ≤ l.s ∧ l.s ≤ l.e) (hlen : 0 ≤ tp.length)
    (hmax : 0 ≤ tp.speedMax) (x : α) (hx : 0 ≤ x) :
    ∀ r ∈ links, speedSetApplies toU32 tp r.params = true → ∀ l ∈ r.lims,
        l.s + r.base ≤ x → x < l.e + r.base + lengthAdd tp r.isHeadEnd →
        absv (val (route toU32 tp [⟨0, tp.speedMax⟩] links) x) ≤ absv l.v := by
  intro r hr happ l hl h1 h2
  have h := C02_route_sound toU32 tp links hbase hlims hlen x hx
  by_cases hv : l.v < tp.speedMax
  · exact h.1 r hr happ l hl hv h1 h2
  · refine le_trans h.2 ?_
    have hv' := not_lt.mp hv
    rw [SPL.absv_eq_abs, SPL.absv_eq_abs, abs_of_nonneg hmax, abs_of_nonneg (le_trans hmax hv')]
    exact hv'

/-! #### a concrete route over `ℚ` -/

/-- a 100 m train with maximum speed 25 -/
def tpEx : TrainP ℚ := ⟨100, 25, 4000, 50, 40⟩

/-- two links: the first with a head-end set (applies: towed mass ≥ 1000) and a limit above the
    train maximum (not posted); the second, at offset 5000, with a tail-end set -/
def linksEx : List (LinkRec ℚ) :=
  [⟨0, true, [⟨1000, .massTotal, .ge⟩], [⟨2000, 3000, 10⟩, ⟨100, 200, 30⟩]⟩,
   ⟨5000, false, [], [⟨0, 1000, 15⟩]⟩,
   ⟨6000, true, [⟨10, .axleCount, .lt⟩], [⟨0, 500, 1⟩]⟩]

example : posted (fun _ => 10) tpEx linksEx = [⟨2000, 3000, 10⟩, ⟨5000, 6100, 15⟩] := by
  decide +kernel

example : route (fun _ => 10) tpEx [⟨0, tpEx.speedMax⟩] linksEx =
    [⟨0, 25⟩, ⟨2000, 10⟩, ⟨3000, 25⟩, ⟨5000, 15⟩, ⟨6100, 25⟩] := by decide +kernel

-- the tail-end limit of the second link still binds at 6050 = 5000 + 1000 + 50 (train length 100)
example : absv (val (route (fun _ => 10) tpEx [⟨0, tpEx.speedMax⟩] linksEx) 6050) ≤ absv 15 :=
  (C02_route_sound (fun _ => 10) tpEx linksEx (by decide) (by decide) (by decide) 6050 (by decide)).1
    ⟨5000, false, [], [⟨0, 1000, 15⟩]⟩ (by simp [linksEx]) (by decide) ⟨0, 1000, 15⟩ (by simp)
    (by decide) (by norm_num) (by norm_num [lengthAdd, tpEx])

example : absv (val (route (fun _ => 10) tpEx [⟨0, tpEx.speedMax⟩] linksEx) 150) ≤ absv 30 :=
  C02_route_sound_all (fun _ => 10) tpEx linksEx (by decide) (by decide) (by decide) (by decide)
    150 (by decide) ⟨0, true, [⟨1000, .massTotal, .ge⟩], [⟨2000, 3000, 10⟩, ⟨100, 200, 30⟩]⟩
    (by simp [linksEx]) (by decide) ⟨100, 200, 30⟩ (by simp) (by norm_num)
    (by norm_num [lengthAdd])

example : route (fun _ => 10) tpEx [⟨0, tpEx.speedMax⟩] linksEx =
    route (fun _ => 10) tpEx (route (fun _ => 10) tpEx [⟨0, tpEx.speedMax⟩] (linksEx.take 1))
      (linksEx.drop 1) :=
  C02_split (fun _ => 10) tpEx _ (linksEx.take 1) (linksEx.drop 1)

end Altrios.Proofs.C02
