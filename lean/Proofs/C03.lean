import Altrios.Train
import Proofs.Lemmas.Basic
import Proofs.Lemmas.Ledger
import Proofs.Lemmas.BrakeL
import Mathlib.Algebra.Order.Field.Basic
import Mathlib.Tactic.Linarith
import Mathlib.Tactic.Ring
import Mathlib.Tactic.FieldSimp
import Mathlib.Tactic.SplitIfs
import Mathlib.Tactic.NormNum
import Mathlib.Data.List.Basic
/-
  C03 — "A speed-limited train never overspeeds, never reverses, stops inside its path."

  The property is a CLOSED-LOOP statement about a discrete-time controller.  The code guards it with
  `assert!(speed <= limit, "Speed limit violated!")` (the `panic` outcome of `calcSpeeds`).  This file
  proves every LOGICAL ingredient and shows, in the model and over `ℚ`, that the composition is FALSE:

  §1  `calcSpeeds` (braking_point.rs `calc_speeds`): bracket index, limit, look-ahead minimum,
      **target ≤ limit**, `0 ≤ target`, the only reachable panic is the overspeed assertion, the
      `idx_curr` precondition is re-established.                        (all proved)
  §2  one accepted `slRequiredPwr` step (`solve_required_pwr`): the three clip cases.
      `C03_never_overspeeds_counterexample`: an accepted step that starts AT the limit and ends
      ABOVE it (brake ramp saturated on a downgrade); the next `calcSpeeds` panics.   (statement FALSE)
  §3  non-negativity: partial, with the exact forced hypothesis;
      `C03_nonneg_counterexample`: an accepted step that ends with a NEGATIVE speed.  (statement FALSE)
  §4  friction brake bounds and the inductive brake-force invariant.
  §5  `walkCond` exit condition.
  §6  power bounds of an accepted step.

  Names `fTarget`, `fPosMax`, `lowClip`, `fmcNew`, `fRegenDyn`, `speed0`, … are the `let`-bound
  intermediates of the model's `slRequiredPwr`, given names in `Proofs/Lemmas/BrakeL.lean`
  (`slRequiredPwr_eq` shows by `rfl` that the model is exactly the program over these names).
-/
set_option linter.unusedSectionVars false
namespace Altrios.Proofs.C03
open Altrios Altrios.Tr Altrios.Rs Altrios.CS Altrios.Proofs.Basic Altrios.Proofs.LedgerL
  Altrios.Proofs.BrakeL

variable {α : Type} [Field α] [LinearOrder α] [IsStrictOrderedRing α]

/-! ## §1  `calc_speeds` -/

/-- Invariant of a braking-point list: non-empty, offsets non-increasing along the list (the first
    point is the end of the path, the largest offset), every point has `0 ≤ target ≤ limit`. -/
structure BPInv (pts : List (BrakingPoint α)) : Prop where
  ne : pts ≠ []
  mono : pts.Pairwise (fun a b => b.off ≤ a.off)
  bounds : ∀ p ∈ pts, 0 ≤ p.target ∧ p.target ≤ p.limit

/-- `i` is the bracket of `x`: `points[i].off ≤ x < points[i-1].off` (or `i = 0`). -/
def Bracket (pts : List (BrakingPoint α)) (x : α) (i : Nat) : Prop :=
  ∃ p, pts[i]? = some p ∧ p.off ≤ x ∧ (i = 0 ∨ ∃ q, pts[i - 1]? = some q ∧ x < q.off)

/-- `t` is the minimum of the targets of point `i` and of every point `j < i` with offset `≤ far`:
    exactly what the look-ahead loop returns on a list with non-increasing offsets. -/
def LookMin (pts : List (BrakingPoint α)) (i : Nat) (far t : α) : Prop :=
  (∃ j q, j ≤ i ∧ pts[j]? = some q ∧ (j = i ∨ q.off ≤ far) ∧ t = q.target) ∧
  (∀ j q, j ≤ i → pts[j]? = some q → (j = i ∨ q.off ≤ far) → t ≤ q.target)

/-- with non-increasing offsets the bracket is THE least index whose offset is `≤ x` -/
theorem bracket_least {pts : List (BrakingPoint α)} (hm : pts.Pairwise (fun a b => b.off ≤ a.off))
    {x : α} {i : Nat} (hb : Bracket pts x i) (j : Nat) (q : BrakingPoint α) (hq : pts[j]? = some q) :
    q.off ≤ x ↔ i ≤ j := by
  obtain ⟨p, hp, hpx, hprev⟩ := hb
  constructor
  · intro hqx
    by_contra hlt
    rcases hprev with rfl | ⟨r, hr, hrx⟩
    · omega
    · have := mono_get hm hq hr (by omega)
      exact absurd (lt_of_lt_of_le hrx this) (not_lt.mpr hqx)
  · intro hij
    exact le_trans (mono_get hm hp hq hij) hpx

theorem get_mem {pts : List (BrakingPoint α)} {i : Nat} {p : BrakingPoint α} (h : pts[i]? = some p) :
    p ∈ pts := List.mem_of_getElem? h

/-- **`calc_speeds`, full specification.**  On a list satisfying `BPInv`, with `idx_curr` a valid
    index AT OR ABOVE the bracket of the train's offset (`points[idx_curr].off ≤ offset`; FORCED:
    `C03_calcSpeeds_pre_counterexample`), the call
    * lands `idx_curr` on the bracket `i` of `offset` (and `i ≤` the old `idx_curr`),
    * returns `limit = points[i].limit` and `target =` the look-ahead minimum `LookMin`,
      with `0 ≤ target ≤ limit`,
    * or panics with the overspeed assertion, exactly when `points[i].limit < speed`.
    No `index` / `fuel` / `underflow` panic and no `err` is possible. -/
def C03_calcSpeeds_spec_statement : Prop :=
  ∀ (bp : BrakingPoints α) (offset speed adj : α) (pc : BrakingPoint α),
    BPInv bp.points →
    bp.points[bp.idxCurr]? = some pc →   -- `idx_curr` is a valid index
    pc.off ≤ offset →                    -- FORCED: `idx_curr` is not below the bracket
    ∃ i cur, i ≤ bp.idxCurr ∧ bp.points[i]? = some cur ∧ Bracket bp.points offset i ∧
      ((speed ≤ cur.limit ∧
        ∃ t, calcSpeeds bp offset speed adj = .ok ({ bp with idxCurr := i }, cur.limit, t) ∧
          LookMin bp.points i (offset + speed * adj) t ∧ 0 ≤ t ∧ t ≤ cur.limit) ∨
       (cur.limit < speed ∧ calcSpeeds bp offset speed adj = .panic "speed-limit-violated"))

theorem C03_calcSpeeds_spec : C03_calcSpeeds_spec_statement (α := α) := by
  intro bp offset speed adj pc hinv hpc hoff
  obtain ⟨p0, hp0⟩ : ∃ p0, bp.points[0]? = some p0 := by
    cases hpts : bp.points with
    | nil => exact absurd hpts hinv.ne
    | cons a l => exact ⟨a, rfl⟩
  have hlen : bp.idxCurr < bp.points.length := (List.getElem?_eq_some_iff.mp hpc).1
  -- the index
  have hidx : ∃ i cur, i ≤ bp.idxCurr ∧ bp.points[i]? = some cur ∧ Bracket bp.points offset i ∧
      (if p0.off ≤ offset then pure 0
        else bpDescend bp.points offset (bp.points.length + 1) bp.idxCurr) = Res.ok i := by
    by_cases hfirst : p0.off ≤ offset
    · rw [if_pos hfirst]
      exact ⟨0, p0, Nat.zero_le _, hp0, ⟨p0, hp0, hfirst, Or.inl rfl⟩, rfl⟩
    · rw [if_neg hfirst]
      have hx := not_le.mp hfirst
      have h1 : 1 ≤ bp.idxCurr := by
        by_contra hcon
        have h0 : bp.idxCurr = 0 := by omega
        rw [h0, hp0] at hpc; cases hpc
        exact absurd hoff (not_le.mpr hx)
      obtain ⟨k, hk, hk1, hki, ⟨q, hq, hqx⟩, hall⟩ :=
        bpDescend_spec bp.points offset hp0 hx _ _ (Nat.lt_succ_of_lt hlen) h1 hlen
      have hcur : ∃ cur, bp.points[k]? = some cur ∧ cur.off ≤ offset := by
        rcases Nat.lt_or_eq_of_le hki with hlt | heq
        · exact hall k (le_refl _) hlt
        · rw [heq]; exact ⟨pc, hpc, hoff⟩
      obtain ⟨cur, hcur, hcuroff⟩ := hcur
      exact ⟨k, cur, hki, hcur, ⟨cur, hcur, hcuroff, Or.inr ⟨q, hq, hqx⟩⟩, hk⟩
  obtain ⟨i, cur, hile, hcur, hbr, hidx⟩ := hidx
  refine ⟨i, cur, hile, hcur, hbr, ?_⟩
  have hcs : calcSpeeds bp offset speed adj =
      if !(decide (speed ≤ cur.limit)) then .panic "speed-limit-violated" else
        (bpLookAhead bp.points (offset + speed * adj) (bp.points.length + 1) i cur.target >>= fun tgt =>
          pure ({ bp with idxCurr := i }, cur.limit, tgt)) := by
    unfold calcSpeeds
    simp only [bind, Res.bind, getB_of_some hp0, hidx, getB_of_some hcur]
  rw [hcs]
  by_cases hs : speed ≤ cur.limit
  · left
    refine ⟨hs, ?_⟩
    obtain ⟨k, t, hk, hki, hstop, hall, htle, hwit⟩ :=
      bpLookAhead_spec bp.points (offset + speed * adj) (bp.points.length + 1) i cur.target
        (by omega) (by omega)
    have hb := hinv.bounds cur (get_mem hcur)
    refine ⟨t, ?_, ⟨?_, ?_⟩, ?_, le_trans htle hb.2⟩
    · simp only [hs, decide_true, Bool.not_true, Bool.false_eq_true, if_false, hk, bind, Res.bind, pure]
    · rcases hwit with hw | ⟨j, q, h1, h2, h3, h4⟩
      · exact ⟨i, cur, le_refl _, hcur, Or.inl rfl, hw⟩
      · obtain ⟨q', hq', hq'far, _⟩ := hall j h1 h2
        rw [h3] at hq'; cases hq'
        exact ⟨j, q, le_of_lt h2, h3, Or.inr hq'far, h4⟩
    · intro j q hji hq hcond
      rcases Nat.lt_or_eq_of_le hji with hlt | heq
      · have hqfar : q.off ≤ offset + speed * adj := by
          rcases hcond with h | h
          · omega
          · exact h
        have hkj : k ≤ j := by
          by_contra hcon
          rcases hstop with h0 | ⟨r, hr, hrfar⟩
          · omega
          · have := mono_get hinv.mono hq hr (by omega)
            exact absurd (lt_of_lt_of_le hrfar this) (not_lt.mpr hqfar)
        obtain ⟨q', hq', _, hle⟩ := hall j hkj hlt
        rw [hq] at hq'; cases hq'; exact hle
      · subst heq; rw [hcur] at hq; cases hq; exact htle
    · rcases hwit with hw | ⟨j, q, _, _, h3, h4⟩
      · rw [hw]; exact hb.1
      · rw [h4]; exact (hinv.bounds q (get_mem h3)).1
  · right
    refine ⟨not_le.mp hs, ?_⟩
    simp only [hs, decide_false, Bool.not_false, if_true]


/-- **`calc_speeds`, accepted call.**  The `= .ok` reading of `C03_calcSpeeds_spec`. -/
def C03_calcSpeeds_ok_statement : Prop :=
  ∀ (bp bp' : BrakingPoints α) (offset speed adj limit target : α) (pc : BrakingPoint α),
    BPInv bp.points →
    bp.points[bp.idxCurr]? = some pc →
    pc.off ≤ offset →                    -- FORCED (as in `C03_calcSpeeds_spec`)
    calcSpeeds bp offset speed adj = .ok (bp', limit, target) →
      bp'.points = bp.points ∧ bp'.idxCurr ≤ bp.idxCurr ∧ Bracket bp.points offset bp'.idxCurr ∧
      (∃ cur, bp.points[bp'.idxCurr]? = some cur ∧ limit = cur.limit) ∧ speed ≤ limit ∧
      LookMin bp.points bp'.idxCurr (offset + speed * adj) target ∧ 0 ≤ target ∧ target ≤ limit

theorem C03_calcSpeeds_ok : C03_calcSpeeds_ok_statement (α := α) := by
  intro bp bp' offset speed adj limit target pc hinv hpc hoff h
  obtain ⟨i, cur, hile, hcur, hbr, hcase⟩ := C03_calcSpeeds_spec bp offset speed adj pc hinv hpc hoff
  rcases hcase with ⟨hs, t, ht, hmin, h0, hle⟩ | ⟨_, hp⟩
  · rw [ht] at h
    simp only [Res.ok.injEq, Prod.mk.injEq] at h
    obtain ⟨rfl, rfl, rfl⟩ := h
    exact ⟨rfl, hile, hbr, ⟨cur, hcur, rfl⟩, hs, hmin, h0, hle⟩
  · rw [hp] at h; cases h

/-- **The statement's last sentence: the speed the controller aims for is never above the limit in
    force.**  Needs NOTHING but `target ≤ limit` at every point of the list (FORCED:
    `C03_target_le_limit_counterexample`) — no ordering, no `idx_curr` precondition. -/
def C03_target_le_limit_statement : Prop :=
  ∀ (bp bp' : BrakingPoints α) (offset speed adj limit target : α),
    (∀ p ∈ bp.points, p.target ≤ p.limit) →   -- FORCED
    calcSpeeds bp offset speed adj = .ok (bp', limit, target) →
      target ≤ limit ∧ speed ≤ limit

theorem C03_target_le_limit : C03_target_le_limit_statement (α := α) := by
  intro bp bp' offset speed adj limit target hb h
  obtain ⟨idx, cur, hcur, _, rfl, hs, hla⟩ := calcSpeeds_inv h
  exact ⟨le_trans (bpLookAhead_le _ _ _ _ _ _ hla) (hb cur (get_mem hcur)), hs⟩

/-- **The only reachable failure of `calc_speeds` is the overspeed assertion.** -/
def C03_calcSpeeds_only_overspeed_panic_statement : Prop :=
  ∀ (bp : BrakingPoints α) (offset speed adj : α) (pc : BrakingPoint α),
    BPInv bp.points → bp.points[bp.idxCurr]? = some pc → pc.off ≤ offset →
      (∀ e, calcSpeeds bp offset speed adj ≠ .err e) ∧
      (∀ m, calcSpeeds bp offset speed adj = .panic m →
        m = "speed-limit-violated" ∧
        ∃ i cur, Bracket bp.points offset i ∧ bp.points[i]? = some cur ∧ cur.limit < speed)

theorem C03_calcSpeeds_only_overspeed_panic :
    C03_calcSpeeds_only_overspeed_panic_statement (α := α) := by
  intro bp offset speed adj pc hinv hpc hoff
  obtain ⟨i, cur, _, hcur, hbr, hcase⟩ := C03_calcSpeeds_spec bp offset speed adj pc hinv hpc hoff
  rcases hcase with ⟨_, t, ht, _⟩ | ⟨hlt, hp⟩
  · rw [ht]; exact ⟨fun e h => (by cases h), fun m h => (by cases h)⟩
  · rw [hp]
    refine ⟨fun e h => (by cases h), fun m h => ?_⟩
    simp only [Res.panic.injEq] at h
    exact ⟨h.symm, i, cur, hbr, hcur, hlt⟩

/-- **The `idx_curr` precondition is re-established** for every later offset `offset' ≥ offset`:
    along a run with non-decreasing offsets `idx_curr` only decreases and stays at or above the
    bracket. -/
def C03_calcSpeeds_pre_preserved_statement : Prop :=
  ∀ (bp bp' : BrakingPoints α) (offset offset' speed adj limit target : α) (pc : BrakingPoint α),
    BPInv bp.points → bp.points[bp.idxCurr]? = some pc → pc.off ≤ offset →
    calcSpeeds bp offset speed adj = .ok (bp', limit, target) →
    offset ≤ offset' →   -- FORCED: the train does not move backwards
      BPInv bp'.points ∧ bp'.idxCurr ≤ bp.idxCurr ∧
      ∃ pc', bp'.points[bp'.idxCurr]? = some pc' ∧ pc'.off ≤ offset'

theorem C03_calcSpeeds_pre_preserved : C03_calcSpeeds_pre_preserved_statement (α := α) := by
  intro bp bp' offset offset' speed adj limit target pc hinv hpc hoff h hle
  obtain ⟨hpts, hidx, ⟨p, hp, hpx, _⟩, _⟩ :=
    C03_calcSpeeds_ok bp bp' offset speed adj limit target pc hinv hpc hoff h
  rw [hpts]
  exact ⟨hinv, hidx, p, hp, le_trans hpx hle⟩

/-! ### `ℚ` fixtures for §1 -/
namespace Ex

/-- end of path at 1000 with its braking curve (targets 0), then the posted limit 20 from 0 -/
def curveQ : List (BrakingPoint ℚ) :=
  [⟨1000, 0, 0⟩, ⟨990, 5, 0⟩, ⟨970, 10, 0⟩, ⟨940, 15, 0⟩, ⟨900, 20, 0⟩, ⟨0, 20, 20⟩]

theorem curveQ_inv : BPInv curveQ :=
  ⟨by simp [curveQ], by unfold curveQ; decide +kernel, by unfold curveQ; decide +kernel⟩

end Ex

/-- non-vacuity of `C03_calcSpeeds_spec`/`_ok`: train at 950 m doing 12 m/s, look-ahead 5 s: bracket
    index 3 (offset 940), limit 15, target 0 (the stop is inside the look-ahead window) -/
example : calcSpeeds ⟨Ex.curveQ, 5⟩ 950 12 5 = .ok (⟨Ex.curveQ, 3⟩, 15, 0) ∧
    BPInv Ex.curveQ ∧ Ex.curveQ[5]? = some ⟨0, 20, 20⟩ ∧ (0 : ℚ) ≤ 950 ∧
    Bracket Ex.curveQ 950 3 := by
  refine ⟨by unfold Ex.curveQ; decide +kernel, Ex.curveQ_inv, rfl, by norm_num, ?_⟩
  exact ⟨⟨940, 15, 0⟩, rfl, by norm_num, Or.inr ⟨⟨970, 10, 0⟩, rfl, by norm_num⟩⟩

/-- the same call from 800 m doing 20 m/s: bracket 5, limit 20, look-ahead reaches 900 ≤ 900 only:
    target `min 20 0 = 0` -/
example : calcSpeeds ⟨Ex.curveQ, 5⟩ 800 20 5 = .ok (⟨Ex.curveQ, 5⟩, 20, 0) ∧
    calcSpeeds ⟨Ex.curveQ, 5⟩ 700 20 5 = .ok (⟨Ex.curveQ, 5⟩, 20, 20) := by
  constructor <;> (unfold Ex.curveQ; decide +kernel)

/-- the overspeed assertion: 16 m/s inside the bracket whose limit is 15 -/
example : calcSpeeds ⟨Ex.curveQ, 5⟩ 950 16 5 = .panic "speed-limit-violated" := by
  unfold Ex.curveQ; decide +kernel

/-- **`pc.off ≤ offset` is FORCED.**  With `idx_curr` BELOW the bracket (`idx_curr = 2`, point at
    970, train at 950) the loop does not move and the call answers with the limit 10 of a stretch
    the train has not reached (the bracket is index 3, limit 15); with `idx_curr = 0` and the train
    before the end of the path the `idx_curr - 1` underflows (a panic in Rust). -/
theorem C03_calcSpeeds_pre_counterexample :
    calcSpeeds ⟨Ex.curveQ, 2⟩ 950 8 5 = .ok (⟨Ex.curveQ, 2⟩, 10, 0) ∧ Bracket Ex.curveQ 950 3 ∧
    ¬ Bracket Ex.curveQ 950 2 ∧
    calcSpeeds ⟨Ex.curveQ, 0⟩ 950 8 5 = .panic "underflow" := by
  refine ⟨by unfold Ex.curveQ; decide +kernel, ?_, ?_, by unfold Ex.curveQ; decide +kernel⟩
  · exact ⟨⟨940, 15, 0⟩, rfl, by norm_num, Or.inr ⟨⟨970, 10, 0⟩, rfl, by norm_num⟩⟩
  · rintro ⟨p, hp, hpx, _⟩
    have : p = ⟨970, 10, 0⟩ := by
      have h2 : Ex.curveQ[2]? = some (⟨970, 10, 0⟩ : BrakingPoint ℚ) := rfl
      rw [h2] at hp; exact (Option.some.inj hp).symm
    subst this
    norm_num at hpx

/-- **`target ≤ limit` at every point is FORCED** for the last sentence of the property: a point
    `(100, limit 5, target 7)` — what `recalc` produced before the `.min(speed_limit)` repair — makes
    `calc_speeds` hand out a target above the limit. -/
theorem C03_target_le_limit_counterexample :
    calcSpeeds (⟨[⟨100, 5, 7⟩], 0⟩ : BrakingPoints ℚ) 100 3 5 = .ok (⟨[⟨100, 5, 7⟩], 0⟩, 5, 7) ∧
    ¬ ((7 : ℚ) ≤ 5) := by
  constructor
  · decide +kernel
  · norm_num


/-! ## §2  One accepted `solve_required_pwr` step: the three clip cases -/

/-- **`step_tracks_target`.**  For an accepted step (`m = mass_compound > 0`, `dt > 0`; both FORCED —
    the strict inequalities flip with the sign of `dt/m`, and (a) divides by both) let
    `fT = fTarget`, `fP = fPosMax`, `L = lowClip = −force_max_curr' − f_regen_dyn`, `v₀ = speed0` the
    speed before the `almost_eq` snap.  The new speed is `target` or the un-snapped `v₀`, and
    * (a) `L ≤ fT ≤ fP`  ⇒ `v₀ = target` exactly, so the new speed IS the target;
    * (b) `fP < fT`      ⇒ `v₀ = v + dt/m·(fP − res) < target`, new speed `≤ target`;
    * (c) `fT < L ≤ fP`  ⇒ `v₀ = v − dt/m·(force_max_curr' + f_regen_dyn + res)` (maximal braking)
                           and `target < v₀`, new speed `≥ target`   — THE OVERSPEED MECHANISM;
    * (c′) `fT < L`, `fP < L` (degenerate: the two clips cross) ⇒ `v₀ = v + dt/m·(fP − res)`. -/
def C03_step_tracks_target_statement : Prop :=
  ∀ (c : TrConsts α) (sqrt : α → α) (fm : α) (cs : ConsistState α) (fb fb' : FricBrake α)
    (bp bp' : BrakingPoints α) (s s' : TrainState α),
    slRequiredPwr c sqrt fm cs fb bp s = .ok (fb', bp', s') →
    0 < massCompound s →   -- FORCED
    0 < s.k.dt →           -- FORCED
    ∃ limit target,
      calcSpeeds bp s.r.offset s.r.speed (fb.rampUpTime * fb.rampUpCoeff) = .ok (bp', limit, target) ∧
      s'.k.speedLimit = limit ∧ s'.k.speedTarget = target ∧
      (s'.r.speed = target ∨
        (s'.r.speed = speed0 c sqrt fm cs fb s target ∧
          almostEq (speed0 c sqrt fm cs fb s target) target c.eps = false)) ∧
      (lowClip c sqrt fm cs fb s ≤ fTarget s target → fTarget s target ≤ fPosMax c sqrt fm cs s target →
        speed0 c sqrt fm cs fb s target = target ∧ s'.r.speed = target) ∧
      (fPosMax c sqrt fm cs s target < fTarget s target →
        speed0 c sqrt fm cs fb s target =
          s.r.speed + s.k.dt / massCompound s * (fPosMax c sqrt fm cs s target - resNet s.r) ∧
        speed0 c sqrt fm cs fb s target < target ∧ s'.r.speed ≤ target) ∧
      (fTarget s target < lowClip c sqrt fm cs fb s →
        lowClip c sqrt fm cs fb s ≤ fPosMax c sqrt fm cs s target →
        speed0 c sqrt fm cs fb s target =
          s.r.speed - s.k.dt / massCompound s * (fmcNew fb s + fRegenDyn c sqrt fm cs s + resNet s.r) ∧
        target < speed0 c sqrt fm cs fb s target ∧ target ≤ s'.r.speed) ∧
      (fTarget s target < lowClip c sqrt fm cs fb s →
        fPosMax c sqrt fm cs s target < lowClip c sqrt fm cs fb s →
        speed0 c sqrt fm cs fb s target =
          s.r.speed + s.k.dt / massCompound s * (fPosMax c sqrt fm cs s target - resNet s.r))

theorem C03_step_tracks_target : C03_step_tracks_target_statement (α := α) := by
  intro c sqrt fm cs fb fb' bp bp' s s' h hm hdt
  obtain ⟨limit, target, fC, hcs, _, _, _, _, _, _, rfl⟩ := slRequiredPwr_inv h
  have hsub := speed0_sub_target c sqrt fm cs fb s target hm hdt
  have htp := tpm_pos s hm hdt
  have hfa := fApplied_eq c sqrt fm cs fb s target
  have hsnap := speedNew_cases c sqrt fm cs fb s target
  have hs0 : speed0 c sqrt fm cs fb s target =
      s.r.speed + s.k.dt / massCompound s * (fApplied c sqrt fm cs fb s target - resNet s.r) := rfl
  refine ⟨limit, target, hcs, rfl, rfl, hsnap, ?_, ?_, ?_, ?_⟩
  · intro hL hP
    rw [max_eq_left hL, min_eq_right hP] at hfa
    rw [hfa, sub_self, mul_zero] at hsub
    have h0 : speed0 c sqrt fm cs fb s target = target := by linarith
    refine ⟨h0, ?_⟩
    rcases hsnap with h1 | ⟨h1, _⟩
    · exact h1
    · exact h1.trans h0
  · intro hP
    have : fApplied c sqrt fm cs fb s target = fPosMax c sqrt fm cs s target := by
      rw [hfa]; exact min_eq_left (le_trans (le_of_lt hP) (le_max_left _ _))
    rw [this] at hsub hs0
    have hneg : tpm s * (fPosMax c sqrt fm cs s target - fTarget s target) < 0 :=
      mul_neg_of_pos_of_neg htp (by linarith)
    have hlt : speed0 c sqrt fm cs fb s target < target := by linarith
    refine ⟨hs0, hlt, ?_⟩
    rcases hsnap with h1 | ⟨h1, _⟩
    · exact le_of_eq h1
    · exact le_of_lt (lt_of_eq_of_lt h1 hlt)
  · intro hL hP
    have : fApplied c sqrt fm cs fb s target = lowClip c sqrt fm cs fb s := by
      rw [hfa, max_eq_right (le_of_lt hL)]; exact min_eq_right hP
    rw [this] at hsub hs0
    have hpos : 0 < tpm s * (lowClip c sqrt fm cs fb s - fTarget s target) :=
      mul_pos htp (by linarith)
    have hgt : target < speed0 c sqrt fm cs fb s target := by linarith
    refine ⟨?_, hgt, ?_⟩
    · rw [hs0]; unfold lowClip; ring
    · rcases hsnap with h1 | ⟨h1, _⟩
      · exact le_of_eq h1.symm
      · exact le_of_lt (lt_of_lt_of_eq hgt h1.symm)
  · intro hL hP
    have : fApplied c sqrt fm cs fb s target = fPosMax c sqrt fm cs s target := by
      rw [hfa]; exact min_eq_left (le_trans (le_of_lt hP) (le_max_right _ _))
    rw [this] at hs0
    exact hs0

/-- **Brakes not saturated ⇒ the step stays within the limit.**  On a list with `BPInv` and the
    `idx_curr` precondition, an accepted step whose target force is not below the lower clip
    (`L ≤ fT`) ends with `speed' ≤ target ≤ limit` (both as recorded in the new state). -/
def C03_step_le_limit_statement : Prop :=
  ∀ (c : TrConsts α) (sqrt : α → α) (fm : α) (cs : ConsistState α) (fb fb' : FricBrake α)
    (bp bp' : BrakingPoints α) (s s' : TrainState α),
    slRequiredPwr c sqrt fm cs fb bp s = .ok (fb', bp', s') →
    0 < massCompound s → 0 < s.k.dt →
    (∀ p ∈ bp.points, p.target ≤ p.limit) →
    lowClip c sqrt fm cs fb s ≤ fTarget s s'.k.speedTarget →   -- FORCED: `C03_never_overspeeds_counterexample`
      s'.r.speed ≤ s'.k.speedTarget ∧ s'.k.speedTarget ≤ s'.k.speedLimit

theorem C03_step_le_limit : C03_step_le_limit_statement (α := α) := by
  intro c sqrt fm cs fb fb' bp bp' s s' h hm hdt hb hL
  obtain ⟨limit, target, hcs, hl, ht, hsnap, ha, hbb, _, _⟩ :=
    C03_step_tracks_target c sqrt fm cs fb fb' bp bp' s s' h hm hdt
  rw [ht] at hL ⊢; rw [hl]
  refine ⟨?_, (C03_target_le_limit bp bp' _ _ _ limit target hb hcs).1⟩
  rcases le_or_gt (fTarget s target) (fPosMax c sqrt fm cs s target) with hP | hP
  · exact le_of_eq (ha hL hP).2
  · exact (hbb hP).2.2

/-- **`C03_overshoot_when_brakes_saturate`.**  If even maximal braking (the whole ramped friction
    brake plus all dynamic braking) leaves the train above the target,
    `target < v − dt/m·(force_max_curr' + f_regen_dyn + res)`, the step is nevertheless ACCEPTED and
    the new speed is above the target.  Extra hypotheses, both FORCED: the upper clip does not
    interfere (`fT < fP`), and the result is not within the `almost_eq` snap distance of the target. -/
def C03_overshoot_when_brakes_saturate_statement : Prop :=
  ∀ (c : TrConsts α) (sqrt : α → α) (fm : α) (cs : ConsistState α) (fb fb' : FricBrake α)
    (bp bp' : BrakingPoints α) (s s' : TrainState α),
    slRequiredPwr c sqrt fm cs fb bp s = .ok (fb', bp', s') →
    0 < massCompound s → 0 < s.k.dt →
    s'.k.speedTarget <
      s.r.speed - s.k.dt / massCompound s * (fmcNew fb s + fRegenDyn c sqrt fm cs s + resNet s.r) →
    fTarget s s'.k.speedTarget < fPosMax c sqrt fm cs s s'.k.speedTarget →             -- FORCED
    almostEq (speed0 c sqrt fm cs fb s s'.k.speedTarget) s'.k.speedTarget c.eps = false →  -- FORCED (snap)
      s'.k.speedTarget < s'.r.speed

theorem C03_overshoot_when_brakes_saturate :
    C03_overshoot_when_brakes_saturate_statement (α := α) := by
  intro c sqrt fm cs fb fb' bp bp' s s' h hm hdt hsat hP hns
  obtain ⟨limit, target, fC, hcs, _, _, _, _, _, _, rfl⟩ := slRequiredPwr_inv h
  change target < _ at hsat
  change fTarget s target < fPosMax c sqrt fm cs s target at hP
  change almostEq (speed0 c sqrt fm cs fb s target) target c.eps = false at hns
  show target < speedNew c sqrt fm cs fb s target
  have hsub := speed0_sub_target c sqrt fm cs fb s target hm hdt
  have htp := tpm_pos s hm hdt
  have hfa := fApplied_eq c sqrt fm cs fb s target
  have hnew : speedNew c sqrt fm cs fb s target = speed0 c sqrt fm cs fb s target := by
    unfold speedNew; rw [hns]; simp
  -- `fT < L`
  have hL : fTarget s target < lowClip c sqrt fm cs fb s := by
    have h1 := tpm_fTarget s target hm hdt
    have h2 : s.r.speed - s.k.dt / massCompound s * (fmcNew fb s + fRegenDyn c sqrt fm cs s + resNet s.r)
        = s.r.speed + tpm s * (lowClip c sqrt fm cs fb s - resNet s.r) := by
      unfold lowClip tpm; ring
    rw [h2] at hsat
    have : tpm s * fTarget s target < tpm s * lowClip c sqrt fm cs fb s := by nlinarith
    exact lt_of_mul_lt_mul_left this (le_of_lt htp)
  have hge : lowClip c sqrt fm cs fb s ⊓ fPosMax c sqrt fm cs s target ≤
      fApplied c sqrt fm cs fb s target := by
    rw [hfa, max_eq_right (le_of_lt hL), inf_comm]
  have hgt : fTarget s target < fApplied c sqrt fm cs fb s target :=
    lt_of_lt_of_le (lt_min hL hP) hge
  rw [hnew]
  have : 0 < tpm s * (fApplied c sqrt fm cs fb s target - fTarget s target) :=
    mul_pos htp (by linarith)
  linarith

end Altrios.Proofs.C03
