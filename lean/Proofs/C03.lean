import Altrios.Train
import Altrios.Braking
import Proofs.Lemmas.Basic
import Proofs.Lemmas.Ledger
import Proofs.Lemmas.BrakeL
import Mathlib.Algebra.Order.Field.Basic
import Mathlib.Tactic.Linarith
import Mathlib.Tactic.Ring
import Mathlib.Tactic.FieldSimp
import Mathlib.Tactic.SplitIfs
import Mathlib.Tactic.NormNum
import Mathlib.Data.List.Basic
/-
  C03 — "A speed-limited train never overspeeds, never reverses, stops inside its path."

  The property is a CLOSED-LOOP statement about a discrete-time controller.  The code guards it with
  `assert!(speed <= limit, "Speed limit violated!")` (the `panic` outcome of `calcSpeeds`).  This file
  proves every LOGICAL ingredient and shows, in the model and over `ℚ`, that the composition is FALSE:

  §1  `calcSpeeds` (braking_point.rs `calc_speeds`): bracket index, limit, look-ahead minimum,
      **target ≤ limit**, `0 ≤ target`, the only reachable panic is the overspeed assertion, the
      `idx_curr` precondition is re-established.                        (all proved)
  §2  one accepted `slRequiredPwr` step (`solve_required_pwr`): the three clip cases.
      `C03_never_overspeeds_counterexample`: an accepted step that starts AT the limit and ends
      ABOVE it (brake ramp saturated on a downgrade); the next `calcSpeeds` panics.   (statement FALSE)
  §3  non-negativity: partial, with the exact forced hypothesis;
      `C03_nonneg_counterexample`: an accepted step that ends with a NEGATIVE speed.  (statement FALSE)
  §4  friction brake bounds and the inductive brake-force invariant.
  §5  `walkCond` exit condition.
  §5b the loop of `walk_internal` before and after the liveness repair c76dec1 (`walkLoopOld` / `walkLoop`, generic in
      `step`): the old loop never exits from a state that a step leaves unchanged for the purposes of `step` and the
      condition (`C03_walk_old_diverges` — the defect), the new loop reports it after one step
      (`C03_walk_new_reports_stuck`), exits exactly where the old one does unless the check fired
      (`C03_walk_new_refines_old`, `C03_walk_sound_check_keeps_exits`), only where the condition is false
      (`C03_walk_exit_new`, `C03_slWalk_exit`), and the check never fires on an exit state (`C03_stuck_implies_cond`).
  §6  power bounds of an accepted step.
  §7  the position advances by the trapezoid rule; one accepted step re-establishes the `idx_curr`
      precondition of `calc_speeds` for the next one.
  §8  `BrakingPoints::recalc` (model `Altrios/Braking.lean`): `C03_recalc_inv` — non-empty, first point
      `(offset_end,0,0)`, last point = first speed point, `0 ≤ target ≤ limit` everywhere (this needs the
      repaired `.min(speed_limit)`: `C03_recalc_unrepaired_counterexample`).  FALSE of the model, with
      `ℚ` witnesses: monotone offsets (`C03_recalc_offsets_not_monotone`), `limit ≤ posted limit`
      (`C03_recalc_limit_above_posted`, `C03_recalc_skips_short_restriction`), panic-freedom
      (`C03_recalc_panic_counterexample`).  The safety facts of §1 therefore only assume `BPInvW`
      (no ordering), which `recalc` does establish.

  Names `fTarget`, `fPosMax`, `lowClip`, `fmcNew`, `fRegenDyn`, `speed0`, … are the `let`-bound
  intermediates of the model's `slRequiredPwr`, given names in `Proofs/Lemmas/BrakeL.lean`
  (`slRequiredPwr_eq` shows by `rfl` that the model is exactly the program over these names).
-/
set_option linter.unusedSectionVars false
namespace Altrios.Proofs.C03
open Altrios Altrios.Tr Altrios.Rs Altrios.CS Altrios.SP Altrios.Tpc Altrios.Brk Altrios.Proofs.Basic
  Altrios.Proofs.LedgerL Altrios.Proofs.BrakeL

variable {α : Type} [Field α] [LinearOrder α] [IsStrictOrderedRing α]

/-! ## §1  `calc_speeds` -/

/-- Invariant of a braking-point list: non-empty, offsets non-increasing along the list (the first
    point is the end of the path, the largest offset), every point has `0 ≤ target ≤ limit`. -/
structure BPInv (pts : List (BrakingPoint α)) : Prop where
  ne : pts ≠ []
  mono : pts.Pairwise (fun a b => b.off ≤ a.off)
  bounds : ∀ p ∈ pts, 0 ≤ p.target ∧ p.target ≤ p.limit

/-- The part of `BPInv` that `BrakingPoints::recalc` really establishes (`C03_recalc_inv`; the
    ordering of the offsets is NOT established: `C03_recalc_offsets_not_monotone`).  It is all that
    the safety facts about `calc_speeds` need. -/
structure BPInvW (pts : List (BrakingPoint α)) : Prop where
  ne : pts ≠ []
  bounds : ∀ p ∈ pts, 0 ≤ p.target ∧ p.target ≤ p.limit

theorem BPInv.weak {pts : List (BrakingPoint α)} (h : BPInv pts) : BPInvW pts := ⟨h.ne, h.bounds⟩

/-- `i` is the bracket of `x`: `points[i].off ≤ x < points[i-1].off` (or `i = 0`). -/
def Bracket (pts : List (BrakingPoint α)) (x : α) (i : Nat) : Prop :=
  ∃ p, pts[i]? = some p ∧ p.off ≤ x ∧ (i = 0 ∨ ∃ q, pts[i - 1]? = some q ∧ x < q.off)

/-- `t` is the minimum of the targets of point `i` and of every point `j < i` with offset `≤ far`:
    exactly what the look-ahead loop returns on a list with non-increasing offsets. -/
def LookMin (pts : List (BrakingPoint α)) (i : Nat) (far t : α) : Prop :=
  (∃ j q, j ≤ i ∧ pts[j]? = some q ∧ (j = i ∨ q.off ≤ far) ∧ t = q.target) ∧
  (∀ j q, j ≤ i → pts[j]? = some q → (j = i ∨ q.off ≤ far) → t ≤ q.target)

/-- with non-increasing offsets the bracket is THE least index whose offset is `≤ x` -/
theorem bracket_least {pts : List (BrakingPoint α)} (hm : pts.Pairwise (fun a b => b.off ≤ a.off))
    {x : α} {i : Nat} (hb : Bracket pts x i) (j : Nat) (q : BrakingPoint α) (hq : pts[j]? = some q) :
    q.off ≤ x ↔ i ≤ j := by
  obtain ⟨p, hp, hpx, hprev⟩ := hb
  constructor
  · intro hqx
    by_contra hlt
    rcases hprev with rfl | ⟨r, hr, hrx⟩
    · omega
    · have := mono_get hm hq hr (by omega)
      exact absurd (lt_of_lt_of_le hrx this) (not_lt.mpr hqx)
  · intro hij
    exact le_trans (mono_get hm hp hq hij) hpx

theorem get_mem {pts : List (BrakingPoint α)} {i : Nat} {p : BrakingPoint α} (h : pts[i]? = some p) :
    p ∈ pts := List.mem_of_getElem? h

/-- core of the `calc_speeds` specification: everything except the look-ahead characterisation
    holds WITHOUT any ordering of the offsets -/
theorem calcSpeeds_core (bp : BrakingPoints α) (offset speed adj : α) (pc : BrakingPoint α)
    (hinv : BPInvW bp.points) (hpc : bp.points[bp.idxCurr]? = some pc) (hoff : pc.off ≤ offset) :
    ∃ i cur, i ≤ bp.idxCurr ∧ bp.points[i]? = some cur ∧ Bracket bp.points offset i ∧
      ((speed ≤ cur.limit ∧
        ∃ t, calcSpeeds bp offset speed adj = .ok ({ bp with idxCurr := i }, cur.limit, t) ∧
          (bp.points.Pairwise (fun a b => b.off ≤ a.off) →
            LookMin bp.points i (offset + speed * adj) t) ∧ 0 ≤ t ∧ t ≤ cur.limit) ∨
       (cur.limit < speed ∧ calcSpeeds bp offset speed adj = .panic "speed-limit-violated")) := by
  obtain ⟨p0, hp0⟩ : ∃ p0, bp.points[0]? = some p0 := by
    cases hpts : bp.points with
    | nil => exact absurd hpts hinv.ne
    | cons a l => exact ⟨a, rfl⟩
  have hlen : bp.idxCurr < bp.points.length := (List.getElem?_eq_some_iff.mp hpc).1
  -- the index
  have hidx : ∃ i cur, i ≤ bp.idxCurr ∧ bp.points[i]? = some cur ∧ Bracket bp.points offset i ∧
      (if p0.off ≤ offset then pure 0
        else bpDescend bp.points offset (bp.points.length + 1) bp.idxCurr) = Res.ok i := by
    by_cases hfirst : p0.off ≤ offset
    · rw [if_pos hfirst]
      exact ⟨0, p0, Nat.zero_le _, hp0, ⟨p0, hp0, hfirst, Or.inl rfl⟩, rfl⟩
    · rw [if_neg hfirst]
      have hx := not_le.mp hfirst
      have h1 : 1 ≤ bp.idxCurr := by
        by_contra hcon
        have h0 : bp.idxCurr = 0 := by omega
        rw [h0, hp0] at hpc; cases hpc
        exact absurd hoff (not_le.mpr hx)
      obtain ⟨k, hk, hk1, hki, ⟨q, hq, hqx⟩, hall⟩ :=
        bpDescend_spec bp.points offset hp0 hx _ _ (Nat.lt_succ_of_lt hlen) h1 hlen
      have hcur : ∃ cur, bp.points[k]? = some cur ∧ cur.off ≤ offset := by
        rcases Nat.lt_or_eq_of_le hki with hlt | heq
        · exact hall k (le_refl _) hlt
        · rw [heq]; exact ⟨pc, hpc, hoff⟩
      obtain ⟨cur, hcur, hcuroff⟩ := hcur
      exact ⟨k, cur, hki, hcur, ⟨cur, hcur, hcuroff, Or.inr ⟨q, hq, hqx⟩⟩, hk⟩
  obtain ⟨i, cur, hile, hcur, hbr, hidx⟩ := hidx
  refine ⟨i, cur, hile, hcur, hbr, ?_⟩
  have hcs : calcSpeeds bp offset speed adj =
      if !(decide (speed ≤ cur.limit)) then .panic "speed-limit-violated" else
        (bpLookAhead bp.points (offset + speed * adj) (bp.points.length + 1) i cur.target >>= fun tgt =>
          pure ({ bp with idxCurr := i }, cur.limit, tgt)) := by
    unfold calcSpeeds
    simp only [bind, Res.bind, getB_of_some hp0, hidx, getB_of_some hcur]
  rw [hcs]
  by_cases hs : speed ≤ cur.limit
  · left
    refine ⟨hs, ?_⟩
    obtain ⟨k, t, hk, hki, hstop, hall, htle, hwit⟩ :=
      bpLookAhead_spec bp.points (offset + speed * adj) (bp.points.length + 1) i cur.target
        (by omega) (by omega)
    have hb := hinv.bounds cur (get_mem hcur)
    refine ⟨t, ?_, fun hmono => ⟨?_, ?_⟩, ?_, le_trans htle hb.2⟩
    · simp only [hs, decide_true, Bool.not_true, Bool.false_eq_true, if_false, hk, bind, Res.bind, pure]
    · rcases hwit with hw | ⟨j, q, h1, h2, h3, h4⟩
      · exact ⟨i, cur, le_refl _, hcur, Or.inl rfl, hw⟩
      · obtain ⟨q', hq', hq'far, _⟩ := hall j h1 h2
        rw [h3] at hq'; cases hq'
        exact ⟨j, q, le_of_lt h2, h3, Or.inr hq'far, h4⟩
    · intro j q hji hq hcond
      rcases Nat.lt_or_eq_of_le hji with hlt | heq
      · have hqfar : q.off ≤ offset + speed * adj := by
          rcases hcond with h | h
          · omega
          · exact h
        have hkj : k ≤ j := by
          by_contra hcon
          rcases hstop with h0 | ⟨r, hr, hrfar⟩
          · omega
          · have := mono_get hmono hq hr (by omega)
            exact absurd (lt_of_lt_of_le hrfar this) (not_lt.mpr hqfar)
        obtain ⟨q', hq', _, hle⟩ := hall j hkj hlt
        rw [hq] at hq'; cases hq'; exact hle
      · subst heq; rw [hcur] at hq; cases hq; exact htle
    · rcases hwit with hw | ⟨j, q, _, _, h3, h4⟩
      · rw [hw]; exact hb.1
      · rw [h4]; exact (hinv.bounds q (get_mem h3)).1
  · right
    refine ⟨not_le.mp hs, ?_⟩
    simp only [hs, decide_false, Bool.not_false, if_true]

/-- **`calc_speeds`, full specification.**  On a list satisfying `BPInv`, with `idx_curr` a valid
    index AT OR ABOVE the bracket of the train's offset (`points[idx_curr].off ≤ offset`; FORCED:
    `C03_calcSpeeds_pre_counterexample`), the call
    * lands `idx_curr` on the bracket `i` of `offset` (and `i ≤` the old `idx_curr`),
    * returns `limit = points[i].limit` and `target =` the look-ahead minimum `LookMin`,
      with `0 ≤ target ≤ limit`,
    * or panics with the overspeed assertion, exactly when `points[i].limit < speed`.
    No `index` / `fuel` / `underflow` panic and no `err` is possible. -/
def C03_calcSpeeds_spec_statement : Prop :=
  ∀ (bp : BrakingPoints α) (offset speed adj : α) (pc : BrakingPoint α),
    BPInv bp.points →
    bp.points[bp.idxCurr]? = some pc →   -- `idx_curr` is a valid index
    pc.off ≤ offset →                    -- FORCED: `idx_curr` is not below the bracket
    ∃ i cur, i ≤ bp.idxCurr ∧ bp.points[i]? = some cur ∧ Bracket bp.points offset i ∧
      ((speed ≤ cur.limit ∧
        ∃ t, calcSpeeds bp offset speed adj = .ok ({ bp with idxCurr := i }, cur.limit, t) ∧
          LookMin bp.points i (offset + speed * adj) t ∧ 0 ≤ t ∧ t ≤ cur.limit) ∨
       (cur.limit < speed ∧ calcSpeeds bp offset speed adj = .panic "speed-limit-violated"))

theorem C03_calcSpeeds_spec : C03_calcSpeeds_spec_statement (α := α) := by
  intro bp offset speed adj pc hinv hpc hoff
  obtain ⟨i, cur, h1, h2, h3, hcase⟩ := calcSpeeds_core bp offset speed adj pc hinv.weak hpc hoff
  refine ⟨i, cur, h1, h2, h3, ?_⟩
  rcases hcase with ⟨hs, t, ht, hmin, h0, hle⟩ | hp
  · exact Or.inl ⟨hs, t, ht, hmin hinv.mono, h0, hle⟩
  · exact Or.inr hp

/-- **`calc_speeds` is safe on whatever `recalc` produces**: the same specification minus the
    look-ahead characterisation, from `BPInvW` alone (no ordering of the offsets). -/
def C03_calcSpeeds_safe_statement : Prop :=
  ∀ (bp : BrakingPoints α) (offset speed adj : α) (pc : BrakingPoint α),
    BPInvW bp.points →
    bp.points[bp.idxCurr]? = some pc →
    pc.off ≤ offset →                    -- FORCED
    ∃ i cur, i ≤ bp.idxCurr ∧ bp.points[i]? = some cur ∧ Bracket bp.points offset i ∧
      ((speed ≤ cur.limit ∧
        ∃ t, calcSpeeds bp offset speed adj = .ok ({ bp with idxCurr := i }, cur.limit, t) ∧
          0 ≤ t ∧ t ≤ cur.limit) ∨
       (cur.limit < speed ∧ calcSpeeds bp offset speed adj = .panic "speed-limit-violated"))

theorem C03_calcSpeeds_safe : C03_calcSpeeds_safe_statement (α := α) := by
  intro bp offset speed adj pc hinv hpc hoff
  obtain ⟨i, cur, h1, h2, h3, hcase⟩ := calcSpeeds_core bp offset speed adj pc hinv hpc hoff
  refine ⟨i, cur, h1, h2, h3, ?_⟩
  rcases hcase with ⟨hs, t, ht, _, h0, hle⟩ | hp
  · exact Or.inl ⟨hs, t, ht, h0, hle⟩
  · exact Or.inr hp


/-- **`calc_speeds`, accepted call.**  The `= .ok` reading of `C03_calcSpeeds_spec`. -/
def C03_calcSpeeds_ok_statement : Prop :=
  ∀ (bp bp' : BrakingPoints α) (offset speed adj limit target : α) (pc : BrakingPoint α),
    BPInvW bp.points →
    bp.points[bp.idxCurr]? = some pc →
    pc.off ≤ offset →                    -- FORCED (as in `C03_calcSpeeds_spec`)
    calcSpeeds bp offset speed adj = .ok (bp', limit, target) →
      bp'.points = bp.points ∧ bp'.idxCurr ≤ bp.idxCurr ∧ Bracket bp.points offset bp'.idxCurr ∧
      (∃ cur, bp.points[bp'.idxCurr]? = some cur ∧ limit = cur.limit) ∧ speed ≤ limit ∧
      (bp.points.Pairwise (fun a b => b.off ≤ a.off) →
        LookMin bp.points bp'.idxCurr (offset + speed * adj) target) ∧ 0 ≤ target ∧ target ≤ limit

theorem C03_calcSpeeds_ok : C03_calcSpeeds_ok_statement (α := α) := by
  intro bp bp' offset speed adj limit target pc hinv hpc hoff h
  obtain ⟨i, cur, hile, hcur, hbr, hcase⟩ := calcSpeeds_core bp offset speed adj pc hinv hpc hoff
  rcases hcase with ⟨hs, t, ht, hmin, h0, hle⟩ | ⟨_, hp⟩
  · rw [ht] at h
    simp only [Res.ok.injEq, Prod.mk.injEq] at h
    obtain ⟨rfl, rfl, rfl⟩ := h
    exact ⟨rfl, hile, hbr, ⟨cur, hcur, rfl⟩, hs, hmin, h0, hle⟩
  · rw [hp] at h; cases h

/-- **The statement's last sentence: the speed the controller aims for is never above the limit in
    force.**  Needs NOTHING but `target ≤ limit` at every point of the list (FORCED:
    `C03_target_le_limit_counterexample`) — no ordering, no `idx_curr` precondition. -/
def C03_target_le_limit_statement : Prop :=
  ∀ (bp bp' : BrakingPoints α) (offset speed adj limit target : α),
    (∀ p ∈ bp.points, p.target ≤ p.limit) →   -- FORCED
    calcSpeeds bp offset speed adj = .ok (bp', limit, target) →
      target ≤ limit ∧ speed ≤ limit

theorem C03_target_le_limit : C03_target_le_limit_statement (α := α) := by
  intro bp bp' offset speed adj limit target hb h
  obtain ⟨idx, cur, hcur, _, rfl, hs, hla⟩ := calcSpeeds_inv h
  exact ⟨le_trans (bpLookAhead_le _ _ _ _ _ _ hla) (hb cur (get_mem hcur)), hs⟩

/-- **The only reachable failure of `calc_speeds` is the overspeed assertion.** -/
def C03_calcSpeeds_only_overspeed_panic_statement : Prop :=
  ∀ (bp : BrakingPoints α) (offset speed adj : α) (pc : BrakingPoint α),
    BPInvW bp.points → bp.points[bp.idxCurr]? = some pc → pc.off ≤ offset →
      (∀ e, calcSpeeds bp offset speed adj ≠ .err e) ∧
      (∀ m, calcSpeeds bp offset speed adj = .panic m →
        m = "speed-limit-violated" ∧
        ∃ i cur, Bracket bp.points offset i ∧ bp.points[i]? = some cur ∧ cur.limit < speed)

theorem C03_calcSpeeds_only_overspeed_panic :
    C03_calcSpeeds_only_overspeed_panic_statement (α := α) := by
  intro bp offset speed adj pc hinv hpc hoff
  obtain ⟨i, cur, _, hcur, hbr, hcase⟩ := C03_calcSpeeds_safe bp offset speed adj pc hinv hpc hoff
  rcases hcase with ⟨_, t, ht, _⟩ | ⟨hlt, hp⟩
  · rw [ht]; exact ⟨fun e h => (by cases h), fun m h => (by cases h)⟩
  · rw [hp]
    refine ⟨fun e h => (by cases h), fun m h => ?_⟩
    simp only [Res.panic.injEq] at h
    exact ⟨h.symm, i, cur, hbr, hcur, hlt⟩

/-- **The `idx_curr` precondition is re-established** for every later offset `offset' ≥ offset`:
    along a run with non-decreasing offsets `idx_curr` only decreases and stays at or above the
    bracket. -/
def C03_calcSpeeds_pre_preserved_statement : Prop :=
  ∀ (bp bp' : BrakingPoints α) (offset offset' speed adj limit target : α) (pc : BrakingPoint α),
    BPInvW bp.points → bp.points[bp.idxCurr]? = some pc → pc.off ≤ offset →
    calcSpeeds bp offset speed adj = .ok (bp', limit, target) →
    offset ≤ offset' →   -- FORCED: the train does not move backwards
      BPInvW bp'.points ∧ bp'.idxCurr ≤ bp.idxCurr ∧
      ∃ pc', bp'.points[bp'.idxCurr]? = some pc' ∧ pc'.off ≤ offset'

theorem C03_calcSpeeds_pre_preserved : C03_calcSpeeds_pre_preserved_statement (α := α) := by
  intro bp bp' offset offset' speed adj limit target pc hinv hpc hoff h hle
  obtain ⟨hpts, hidx, ⟨p, hp, hpx, _⟩, _⟩ :=
    C03_calcSpeeds_ok bp bp' offset speed adj limit target pc hinv hpc hoff h
  rw [hpts]
  exact ⟨hinv, hidx, p, hp, le_trans hpx hle⟩

/-! ### `ℚ` fixtures for §1 -/
namespace Ex

/-- end of path at 1000 with its braking curve (targets 0), then the posted limit 20 from 0 -/
def curveQ : List (BrakingPoint ℚ) :=
  [⟨1000, 0, 0⟩, ⟨990, 5, 0⟩, ⟨970, 10, 0⟩, ⟨940, 15, 0⟩, ⟨900, 20, 0⟩, ⟨0, 20, 20⟩]

theorem curveQ_inv : BPInv curveQ :=
  ⟨by simp [curveQ], by unfold curveQ; decide +kernel, by unfold curveQ; decide +kernel⟩

end Ex

/-- non-vacuity of `C03_calcSpeeds_spec`/`_ok`: train at 950 m doing 12 m/s, look-ahead 5 s: bracket
    index 3 (offset 940), limit 15, target 0 (the stop is inside the look-ahead window) -/
example : calcSpeeds ⟨Ex.curveQ, 5⟩ 950 12 5 = .ok (⟨Ex.curveQ, 3⟩, 15, 0) ∧
    BPInv Ex.curveQ ∧ Ex.curveQ[5]? = some ⟨0, 20, 20⟩ ∧ (0 : ℚ) ≤ 950 ∧
    Bracket Ex.curveQ 950 3 := by
  refine ⟨by unfold Ex.curveQ; decide +kernel, Ex.curveQ_inv, rfl, by norm_num, ?_⟩
  exact ⟨⟨940, 15, 0⟩, rfl, by norm_num, Or.inr ⟨⟨970, 10, 0⟩, rfl, by norm_num⟩⟩

/-- the same call from 800 m doing 20 m/s: bracket 5, limit 20, look-ahead reaches 900 ≤ 900 only:
    target `min 20 0 = 0` -/
example : calcSpeeds ⟨Ex.curveQ, 5⟩ 800 20 5 = .ok (⟨Ex.curveQ, 5⟩, 20, 0) ∧
    calcSpeeds ⟨Ex.curveQ, 5⟩ 700 20 5 = .ok (⟨Ex.curveQ, 5⟩, 20, 20) := by
  constructor <;> (unfold Ex.curveQ; decide +kernel)

/-- the overspeed assertion: 16 m/s inside the bracket whose limit is 15 -/
example : calcSpeeds ⟨Ex.curveQ, 5⟩ 950 16 5 = .panic "speed-limit-violated" := by
  unfold Ex.curveQ; decide +kernel

/-- **`pc.off ≤ offset` is FORCED.**  With `idx_curr` BELOW the bracket (`idx_curr = 2`, point at
    970, train at 950) the loop does not move and the call answers with the limit 10 of a stretch
    the train has not reached (the bracket is index 3, limit 15); with `idx_curr = 0` and the train
    before the end of the path the `idx_curr - 1` underflows (a panic in Rust). -/
theorem C03_calcSpeeds_pre_counterexample :
    calcSpeeds ⟨Ex.curveQ, 2⟩ 950 8 5 = .ok (⟨Ex.curveQ, 2⟩, 10, 0) ∧ Bracket Ex.curveQ 950 3 ∧
    ¬ Bracket Ex.curveQ 950 2 ∧
    calcSpeeds ⟨Ex.curveQ, 0⟩ 950 8 5 = .panic "underflow" := by
  refine ⟨by unfold Ex.curveQ; decide +kernel, ?_, ?_, by unfold Ex.curveQ; decide +kernel⟩
  · exact ⟨⟨940, 15, 0⟩, rfl, by norm_num, Or.inr ⟨⟨970, 10, 0⟩, rfl, by norm_num⟩⟩
  · rintro ⟨p, hp, hpx, _⟩
    have : p = ⟨970, 10, 0⟩ := by
      have h2 : Ex.curveQ[2]? = some (⟨970, 10, 0⟩ : BrakingPoint ℚ) := rfl
      rw [h2] at hp; exact (Option.some.inj hp).symm
    subst this
    norm_num at hpx

/-- **`target ≤ limit` at every point is FORCED** for the last sentence of the property: a point
    `(100, limit 5, target 7)` — what `recalc` produced before the `.min(speed_limit)` repair — makes
    `calc_speeds` hand out a target above the limit. -/
theorem C03_target_le_limit_counterexample :
    calcSpeeds (⟨[⟨100, 5, 7⟩], 0⟩ : BrakingPoints ℚ) 100 3 5 = .ok (⟨[⟨100, 5, 7⟩], 0⟩, 5, 7) ∧
    ¬ ((7 : ℚ) ≤ 5) := by
  constructor
  · decide +kernel
  · norm_num


/-! ## §2  One accepted `solve_required_pwr` step: the three clip cases -/

/-- **`step_tracks_target`.**  For an accepted step (`m = mass_compound > 0`, `dt > 0`; both FORCED —
    the strict inequalities flip with the sign of `dt/m`, and (a) divides by both) let
    `fT = fTarget`, `fP = fPosMax`, `L = lowClip = −force_max_curr' − f_regen_dyn`, `v₀ = speed0` the
    speed before the `almost_eq` snap.  The new speed is `target` or the un-snapped `v₀`, and
    * (a) `L ≤ fT ≤ fP`  ⇒ `v₀ = target` exactly, so the new speed IS the target;
    * (b) `fP < fT`      ⇒ `v₀ = v + dt/m·(fP − res) < target`, new speed `≤ target`;
    * (c) `fT < L ≤ fP`  ⇒ `v₀ = v − dt/m·(force_max_curr' + f_regen_dyn + res)` (maximal braking)
                           and `target < v₀`, new speed `≥ target`   — THE OVERSPEED MECHANISM;
    * (c′) `fT < L`, `fP < L` (degenerate: the two clips cross) ⇒ `v₀ = v + dt/m·(fP − res)`. -/
def C03_step_tracks_target_statement : Prop :=
  ∀ (c : TrConsts α) (sqrt : α → α) (fm : α) (cs : ConsistState α) (fb fb' : FricBrake α)
    (bp bp' : BrakingPoints α) (s s' : TrainState α),
    slRequiredPwr c sqrt fm cs fb bp s = .ok (fb', bp', s') →
    0 < massCompound s →   -- FORCED
    0 < s.k.dt →           -- FORCED
    ∃ limit target,
      calcSpeeds bp s.r.offset s.r.speed (fb.rampUpTime * fb.rampUpCoeff) = .ok (bp', limit, target) ∧
      s'.k.speedLimit = limit ∧ s'.k.speedTarget = target ∧
      (s'.r.speed = target ∨
        (s'.r.speed = speed0 c sqrt fm cs fb s target ∧
          almostEq (speed0 c sqrt fm cs fb s target) target c.eps = false)) ∧
      (lowClip c sqrt fm cs fb s ≤ fTarget s target → fTarget s target ≤ fPosMax c sqrt fm cs s target →
        speed0 c sqrt fm cs fb s target = target ∧ s'.r.speed = target) ∧
      (fPosMax c sqrt fm cs s target < fTarget s target →
        speed0 c sqrt fm cs fb s target =
          s.r.speed + s.k.dt / massCompound s * (fPosMax c sqrt fm cs s target - resNet s.r) ∧
        speed0 c sqrt fm cs fb s target < target ∧ s'.r.speed ≤ target) ∧
      (fTarget s target < lowClip c sqrt fm cs fb s →
        lowClip c sqrt fm cs fb s ≤ fPosMax c sqrt fm cs s target →
        speed0 c sqrt fm cs fb s target =
          s.r.speed - s.k.dt / massCompound s * (fmcNew fb s + fRegenDyn c sqrt fm cs s + resNet s.r) ∧
        target < speed0 c sqrt fm cs fb s target ∧ target ≤ s'.r.speed) ∧
      (fTarget s target < lowClip c sqrt fm cs fb s →
        fPosMax c sqrt fm cs s target < lowClip c sqrt fm cs fb s →
        speed0 c sqrt fm cs fb s target =
          s.r.speed + s.k.dt / massCompound s * (fPosMax c sqrt fm cs s target - resNet s.r))

theorem C03_step_tracks_target : C03_step_tracks_target_statement (α := α) := by
  intro c sqrt fm cs fb fb' bp bp' s s' h hm hdt
  obtain ⟨limit, target, fC, hcs, _, _, _, _, _, _, rfl⟩ := slRequiredPwr_inv h
  have hsub := speed0_sub_target c sqrt fm cs fb s target hm hdt
  have htp := tpm_pos s hm hdt
  have hfa := fApplied_eq c sqrt fm cs fb s target
  have hsnap := speedNew_cases c sqrt fm cs fb s target
  have hs0 : speed0 c sqrt fm cs fb s target =
      s.r.speed + s.k.dt / massCompound s * (fApplied c sqrt fm cs fb s target - resNet s.r) := rfl
  refine ⟨limit, target, hcs, rfl, rfl, hsnap, ?_, ?_, ?_, ?_⟩
  · intro hL hP
    rw [max_eq_left hL, min_eq_right hP] at hfa
    rw [hfa, sub_self, mul_zero] at hsub
    have h0 : speed0 c sqrt fm cs fb s target = target := by linarith
    refine ⟨h0, ?_⟩
    rcases hsnap with h1 | ⟨h1, _⟩
    · exact h1
    · exact h1.trans h0
  · intro hP
    have : fApplied c sqrt fm cs fb s target = fPosMax c sqrt fm cs s target := by
      rw [hfa]; exact min_eq_left (le_trans (le_of_lt hP) (le_max_left _ _))
    rw [this] at hsub hs0
    have hneg : tpm s * (fPosMax c sqrt fm cs s target - fTarget s target) < 0 :=
      mul_neg_of_pos_of_neg htp (by linarith)
    have hlt : speed0 c sqrt fm cs fb s target < target := by linarith
    refine ⟨hs0, hlt, ?_⟩
    rcases hsnap with h1 | ⟨h1, _⟩
    · exact le_of_eq h1
    · exact le_of_lt (lt_of_eq_of_lt h1 hlt)
  · intro hL hP
    have : fApplied c sqrt fm cs fb s target = lowClip c sqrt fm cs fb s := by
      rw [hfa, max_eq_right (le_of_lt hL)]; exact min_eq_right hP
    rw [this] at hsub hs0
    have hpos : 0 < tpm s * (lowClip c sqrt fm cs fb s - fTarget s target) :=
      mul_pos htp (by linarith)
    have hgt : target < speed0 c sqrt fm cs fb s target := by linarith
    refine ⟨?_, hgt, ?_⟩
    · rw [hs0]; unfold lowClip; ring
    · rcases hsnap with h1 | ⟨h1, _⟩
      · exact le_of_eq h1.symm
      · exact le_of_lt (lt_of_lt_of_eq hgt h1.symm)
  · intro hL hP
    have : fApplied c sqrt fm cs fb s target = fPosMax c sqrt fm cs s target := by
      rw [hfa]; exact min_eq_left (le_trans (le_of_lt hP) (le_max_right _ _))
    rw [this] at hs0
    exact hs0

/-- **Brakes not saturated ⇒ the step stays within the limit.**  On a list with `BPInv` and the
    `idx_curr` precondition, an accepted step whose target force is not below the lower clip
    (`L ≤ fT`) ends with `speed' ≤ target ≤ limit` (both as recorded in the new state). -/
def C03_step_le_limit_statement : Prop :=
  ∀ (c : TrConsts α) (sqrt : α → α) (fm : α) (cs : ConsistState α) (fb fb' : FricBrake α)
    (bp bp' : BrakingPoints α) (s s' : TrainState α),
    slRequiredPwr c sqrt fm cs fb bp s = .ok (fb', bp', s') →
    0 < massCompound s → 0 < s.k.dt →
    (∀ p ∈ bp.points, p.target ≤ p.limit) →
    lowClip c sqrt fm cs fb s ≤ fTarget s s'.k.speedTarget →   -- FORCED: `C03_never_overspeeds_counterexample`
      s'.r.speed ≤ s'.k.speedTarget ∧ s'.k.speedTarget ≤ s'.k.speedLimit

theorem C03_step_le_limit : C03_step_le_limit_statement (α := α) := by
  intro c sqrt fm cs fb fb' bp bp' s s' h hm hdt hb hL
  obtain ⟨limit, target, hcs, hl, ht, hsnap, ha, hbb, _, _⟩ :=
    C03_step_tracks_target c sqrt fm cs fb fb' bp bp' s s' h hm hdt
  rw [ht] at hL ⊢; rw [hl]
  refine ⟨?_, (C03_target_le_limit bp bp' _ _ _ limit target hb hcs).1⟩
  rcases le_or_gt (fTarget s target) (fPosMax c sqrt fm cs s target) with hP | hP
  · exact le_of_eq (ha hL hP).2
  · exact (hbb hP).2.2

/-- **`C03_overshoot_when_brakes_saturate`.**  If even maximal braking (the whole ramped friction
    brake plus all dynamic braking) leaves the train above the target,
    `target < v − dt/m·(force_max_curr' + f_regen_dyn + res)`, the step is nevertheless ACCEPTED and
    the new speed is above the target.  Extra hypotheses, both FORCED: the upper clip does not
    interfere (`fT < fP`), and the result is not within the `almost_eq` snap distance of the target. -/
def C03_overshoot_when_brakes_saturate_statement : Prop :=
  ∀ (c : TrConsts α) (sqrt : α → α) (fm : α) (cs : ConsistState α) (fb fb' : FricBrake α)
    (bp bp' : BrakingPoints α) (s s' : TrainState α),
    slRequiredPwr c sqrt fm cs fb bp s = .ok (fb', bp', s') →
    0 < massCompound s → 0 < s.k.dt →
    s'.k.speedTarget <
      s.r.speed - s.k.dt / massCompound s * (fmcNew fb s + fRegenDyn c sqrt fm cs s + resNet s.r) →
    fTarget s s'.k.speedTarget < fPosMax c sqrt fm cs s s'.k.speedTarget →             -- FORCED
    almostEq (speed0 c sqrt fm cs fb s s'.k.speedTarget) s'.k.speedTarget c.eps = false →  -- FORCED (snap)
      s'.k.speedTarget < s'.r.speed

theorem C03_overshoot_when_brakes_saturate :
    C03_overshoot_when_brakes_saturate_statement (α := α) := by
  intro c sqrt fm cs fb fb' bp bp' s s' h hm hdt hsat hP hns
  obtain ⟨limit, target, fC, hcs, _, _, _, _, _, _, rfl⟩ := slRequiredPwr_inv h
  change target < _ at hsat
  change fTarget s target < fPosMax c sqrt fm cs s target at hP
  change almostEq (speed0 c sqrt fm cs fb s target) target c.eps = false at hns
  show target < speedNew c sqrt fm cs fb s target
  have hsub := speed0_sub_target c sqrt fm cs fb s target hm hdt
  have htp := tpm_pos s hm hdt
  have hfa := fApplied_eq c sqrt fm cs fb s target
  have hnew : speedNew c sqrt fm cs fb s target = speed0 c sqrt fm cs fb s target := by
    unfold speedNew; rw [hns]; simp
  -- `fT < L`
  have hL : fTarget s target < lowClip c sqrt fm cs fb s := by
    have h1 := tpm_fTarget s target hm hdt
    have h2 : s.r.speed - s.k.dt / massCompound s * (fmcNew fb s + fRegenDyn c sqrt fm cs s + resNet s.r)
        = s.r.speed + tpm s * (lowClip c sqrt fm cs fb s - resNet s.r) := by
      unfold lowClip tpm; ring
    rw [h2] at hsat
    have : tpm s * fTarget s target < tpm s * lowClip c sqrt fm cs fb s := by nlinarith
    exact lt_of_mul_lt_mul_left this (le_of_lt htp)
  have hge : lowClip c sqrt fm cs fb s ⊓ fPosMax c sqrt fm cs s target ≤
      fApplied c sqrt fm cs fb s target := by
    rw [hfa, max_eq_right (le_of_lt hL), inf_comm]
  have hgt : fTarget s target < fApplied c sqrt fm cs fb s target :=
    lt_of_lt_of_le (lt_min hL hP) hge
  rw [hnew]
  have : 0 < tpm s * (fApplied c sqrt fm cs fb s target - fTarget s target) :=
    mul_pos htp (by linarith)
  linarith

/-! ### `ℚ` fixtures for §2–§6

  A 1000 kg "train" (950 static + 50 rotational), `dt = 1 s`, rolling resistance 100 N, posted limit
  20 m/s from offset 0, end of path at 10000; friction brake 2000 N ramping up in 10 s
  (`ramp_up_coeff = 1/2`), currently released.  `sqrtQ` is the EXACT square root at the three
  arguments it is called with (`(43/2)² = 1849/4`, `(41/2)² = 1681/4`, `(3/5)² = 9/25`). -/
namespace Ex

def cQ : TrConsts ℚ := ⟨1/2, 2, 4, 44704/1000000, 1/100000000, 1/10000000⟩
def sqrtQ : ℚ → ℚ := fun x =>
  if x = 1849/4 then 43/2 else if x = 1681/4 then 41/2 else if x = 9/25 then 3/5 else 0
/-- consist state with `pwr_out_max`, `pwr_rate_out_max`, `pwr_dyn_brake_max` -/
def csOf (pMax rate dyn : ℚ) : ConsistState ℚ := ⟨pMax, rate, 0, 0, 0, 0, 0, dyn, 0, 0, 0, 0, 0, 0, 0, 0, 0⟩
/-- resistance state at `offset`, `speed`, with grade resistance `resGrade` (rolling 100 N) -/
def resOf (offset speed resGrade : ℚ) : ResState ℚ :=
  ⟨offset, offset - 100, speed, 100, 950, 9500, 100, 0, 0, 0, resGrade, 0, 0, 0, 0⟩
def kinQ : Kin ℚ := ⟨0, 0, 0, 0, 20, 20, 1, 50, 0, 0, 0, 0, 0, 0, 0⟩
def fbQ : FricBrake ℚ := ⟨2000, 10, 1/2, 0, 0⟩
def bpQ : BrakingPoints ℚ := ⟨[⟨10000, 0, 0⟩, ⟨0, 20, 20⟩], 1⟩
/-- AT the limit (20 m/s) on a downgrade: net resistance −500 N -/
def sO : TrainState ℚ := ⟨resOf 1000 20 (-600), kinQ⟩
def csO : ConsistState ℚ := csOf 10500 20000 2100
/-- 19 m/s on the same downgrade -/
def sA : TrainState ℚ := ⟨resOf 1000 19 (-600), kinQ⟩
def csA : ConsistState ℚ := csOf 10000 20000 2100
/-- 0.1 m/s (above the 0.1 mph guard) on an upgrade: net resistance +500 N; power ramp at 50 W -/
def sN : TrainState ℚ := ⟨resOf 1000 (1/10) 400, kinQ⟩
def csN : ConsistState ℚ := csOf 10500 50 2100

/-- what an accepted step returns -/
abbrev Out := FricBrake ℚ × BrakingPoints ℚ × TrainState ℚ

theorem bpQ_inv : BPInv bpQ.points :=
  ⟨by simp [bpQ], by unfold bpQ; decide +kernel, by unfold bpQ; decide +kernel⟩

end Ex

/-- non-vacuity of `C03_step_tracks_target` (a): 19 m/s, target 20, `L = −305 ≤ fT = 500 ≤ fP = 500`:
    accepted, new speed exactly 20 -/
example : ∃ fb' bp' s', slRequiredPwr Ex.cQ Ex.sqrtQ 1000 Ex.csA Ex.fbQ Ex.bpQ Ex.sA = .ok (fb', bp', s') ∧
    0 < massCompound Ex.sA ∧ 0 < Ex.sA.k.dt ∧
    lowClip Ex.cQ Ex.sqrtQ 1000 Ex.csA Ex.fbQ Ex.sA ≤ fTarget Ex.sA 20 ∧
    fTarget Ex.sA 20 ≤ fPosMax Ex.cQ Ex.sqrtQ 1000 Ex.csA Ex.sA 20 ∧
    s'.k.speedTarget = 20 ∧ s'.r.speed = 20 := by
  obtain ⟨x, h, hp⟩ := okAnd_exists (r := slRequiredPwr Ex.cQ Ex.sqrtQ 1000 Ex.csA Ex.fbQ Ex.bpQ Ex.sA)
    (p := fun x : Ex.Out => decide (x.2.2.k.speedTarget = 20 ∧ x.2.2.r.speed = 20)) (by decide +kernel)
  obtain ⟨fb', bp', s'⟩ := x
  have := of_decide_eq_true hp
  exact ⟨fb', bp', s', h, by decide +kernel, by decide +kernel, by decide +kernel, by decide +kernel,
    this.1, this.2⟩

/-- non-vacuity of (b): 0.1 m/s on the upgrade with 450 N of tractive force: `fP = 450 < fT = 20400`,
    accepted, new speed `0.05 < 20` -/
example : ∃ fb' bp' s', slRequiredPwr Ex.cQ Ex.sqrtQ 450 Ex.csN Ex.fbQ Ex.bpQ Ex.sN = .ok (fb', bp', s') ∧
    0 < massCompound Ex.sN ∧ 0 < Ex.sN.k.dt ∧
    fPosMax Ex.cQ Ex.sqrtQ 450 Ex.csN Ex.sN 20 < fTarget Ex.sN 20 ∧
    s'.k.speedTarget = 20 ∧ s'.r.speed = 1/20 := by
  obtain ⟨x, h, hp⟩ := okAnd_exists (r := slRequiredPwr Ex.cQ Ex.sqrtQ 450 Ex.csN Ex.fbQ Ex.bpQ Ex.sN)
    (p := fun x : Ex.Out => decide (x.2.2.k.speedTarget = 20 ∧ x.2.2.r.speed = 1/20)) (by decide +kernel)
  obtain ⟨fb', bp', s'⟩ := x
  have := of_decide_eq_true hp
  exact ⟨fb', bp', s', h, by decide +kernel, by decide +kernel, by decide +kernel, this.1, this.2⟩

/-- Everything one may reasonably assume about the inputs of one step of a valid, accepted
    simulation: exact literals, a square root that is exact where it is used, a braking-point list
    with `BPInv` and the `idx_curr` precondition, positive mass and time step, a train moving
    forwards, a friction brake within its range, non-negative consist limits. -/
structure Sane (c : TrConsts α) (sqrt : α → α) (fm : α) (cs : ConsistState α) (fb : FricBrake α)
    (bp : BrakingPoints α) (s : TrainState α) : Prop where
  half : c.half = 1 / 2
  two : c.two = 2
  four : c.four = 4
  eps : 0 < c.eps
  eps7 : 0 < c.eps7
  mph : 0 < c.mph01
  sqrtArg : 0 ≤ (s.r.speed - resNet s.r * tpm s) * (s.r.speed - resNet s.r * tpm s) +
    c.four * tpm s * pwrPosMax cs s
  sqrtNonneg : 0 ≤ sqrt ((s.r.speed - resNet s.r * tpm s) * (s.r.speed - resNet s.r * tpm s) +
    c.four * tpm s * pwrPosMax cs s)
  sqrtExact :
    sqrt ((s.r.speed - resNet s.r * tpm s) * (s.r.speed - resNet s.r * tpm s) +
        c.four * tpm s * pwrPosMax cs s) *
      sqrt ((s.r.speed - resNet s.r * tpm s) * (s.r.speed - resNet s.r * tpm s) +
        c.four * tpm s * pwrPosMax cs s) =
    (s.r.speed - resNet s.r * tpm s) * (s.r.speed - resNet s.r * tpm s) +
      c.four * tpm s * pwrPosMax cs s
  inv : BPInv bp.points
  idx : ∃ pc, bp.points[bp.idxCurr]? = some pc ∧ pc.off ≤ s.r.offset
  mass : 0 < massCompound s
  dt : 0 < s.k.dt
  speed : 0 ≤ s.r.speed
  fricForce : 0 ≤ fb.force ∧ fb.force ≤ fb.forceMax
  ramp : 0 < fb.rampUpTime ∧ 0 ≤ fb.rampUpCoeff
  fmPos : 0 < fm
  dyn : 0 ≤ cs.pwrDynBrakeMax
  pwr : 0 ≤ cs.pwrOutMax ∧ 0 ≤ cs.pwrRateOutMax

/-- **"Never overspeeds", one step (FALSE — `C03_never_overspeeds_counterexample`).**  From sane
    inputs an accepted step ends at or below the limit it recorded, and the next `calc_speeds`
    (whatever look-ahead time) does not hit the `Speed limit violated!` assertion. -/
def C03_never_overspeeds_statement : Prop :=
  ∀ (c : TrConsts α) (sqrt : α → α) (fm : α) (cs : ConsistState α) (fb fb' : FricBrake α)
    (bp bp' : BrakingPoints α) (s s' : TrainState α),
    Sane c sqrt fm cs fb bp s →
    slRequiredPwr c sqrt fm cs fb bp s = .ok (fb', bp', s') →
      s'.r.speed ≤ s'.k.speedLimit ∧
      ∀ adj m, calcSpeeds bp' s'.r.offset s'.r.speed adj ≠ .panic m

theorem Ex.sane_O : Sane Ex.cQ Ex.sqrtQ 1000 Ex.csO Ex.fbQ Ex.bpQ Ex.sO where
  half := by decide +kernel
  two := by decide +kernel
  four := by decide +kernel
  eps := by decide +kernel
  eps7 := by decide +kernel
  mph := by decide +kernel
  sqrtArg := by decide +kernel
  sqrtNonneg := by decide +kernel
  sqrtExact := by decide +kernel
  inv := Ex.bpQ_inv
  idx := ⟨⟨0, 20, 20⟩, rfl, by decide +kernel⟩
  mass := by decide +kernel
  dt := by decide +kernel
  speed := by decide +kernel
  fricForce := by decide +kernel
  ramp := by decide +kernel
  fmPos := by decide +kernel
  dyn := by decide +kernel
  pwr := by decide +kernel

/-- **Counterexample to "never overspeeds" (in the model, over `ℚ`).**  The train is AT the limit
    (20 m/s, target 20) on a downgrade (net resistance −500 N).  Holding 20 needs −500 N; the friction
    brake has only ramped to 200 N and dynamic braking gives 100 N, so the lower clip is −300 N
    (`fT = −500 < L = −300 ≤ fP = 525`).  The step is ACCEPTED (every `ensure!` passes: brake request
    200 ≤ 200, wheel power −2020 W within ±limits) and ends at **20.2 m/s > 20 = limit**; the next
    `calc_speeds` then aborts with `Speed limit violated!`. -/
theorem C03_never_overspeeds_counterexample_run :
    ∃ fb' bp' s', slRequiredPwr Ex.cQ Ex.sqrtQ 1000 Ex.csO Ex.fbQ Ex.bpQ Ex.sO = .ok (fb', bp', s') ∧
      Ex.sO.r.speed = 20 ∧ s'.k.speedLimit = 20 ∧ s'.k.speedTarget = 20 ∧ s'.r.speed = 101/5 ∧
      s'.r.offset = 10201/10 ∧ fb'.force = 200 ∧ fb'.forceMaxCurr = 200 ∧ s'.k.pwrWhlOut = -2020 ∧
      s'.k.speedLimit < s'.r.speed ∧
      calcSpeeds bp' s'.r.offset s'.r.speed (fb'.rampUpTime * fb'.rampUpCoeff) =
        .panic "speed-limit-violated" := by
  obtain ⟨x, h, hp⟩ := okAnd_exists (r := slRequiredPwr Ex.cQ Ex.sqrtQ 1000 Ex.csO Ex.fbQ Ex.bpQ Ex.sO)
    (p := fun x : Ex.Out => decide (x.2.2.k.speedLimit = 20 ∧ x.2.2.k.speedTarget = 20 ∧ x.2.2.r.speed = 101/5 ∧
      x.2.2.r.offset = 10201/10 ∧ x.1.force = 200 ∧ x.1.forceMaxCurr = 200 ∧ x.2.2.k.pwrWhlOut = -2020 ∧
      x.2.2.k.speedLimit < x.2.2.r.speed ∧
      calcSpeeds x.2.1 x.2.2.r.offset x.2.2.r.speed (x.1.rampUpTime * x.1.rampUpCoeff) =
        .panic "speed-limit-violated")) (by decide +kernel)
  obtain ⟨fb', bp', s'⟩ := x
  have := of_decide_eq_true hp
  exact ⟨fb', bp', s', h, by decide +kernel, this⟩

theorem C03_never_overspeeds_counterexample : ¬ C03_never_overspeeds_statement (α := ℚ) := by
  intro hall
  obtain ⟨fb', bp', s', h, _, _, _, _, _, _, _, _, hlt, _⟩ := C03_never_overspeeds_counterexample_run
  exact absurd (hall _ _ _ _ _ _ _ _ _ _ Ex.sane_O h).1 (not_le.mpr hlt)

/-- the counterexample instantiates every hypothesis of `C03_overshoot_when_brakes_saturate` -/
example : ∃ fb' bp' s', slRequiredPwr Ex.cQ Ex.sqrtQ 1000 Ex.csO Ex.fbQ Ex.bpQ Ex.sO = .ok (fb', bp', s') ∧
    0 < massCompound Ex.sO ∧ 0 < Ex.sO.k.dt ∧ s'.k.speedTarget = 20 ∧
    (20 : ℚ) < Ex.sO.r.speed - Ex.sO.k.dt / massCompound Ex.sO *
      (fmcNew Ex.fbQ Ex.sO + fRegenDyn Ex.cQ Ex.sqrtQ 1000 Ex.csO Ex.sO + resNet Ex.sO.r) ∧
    fTarget Ex.sO 20 < fPosMax Ex.cQ Ex.sqrtQ 1000 Ex.csO Ex.sO 20 ∧
    almostEq (speed0 Ex.cQ Ex.sqrtQ 1000 Ex.csO Ex.fbQ Ex.sO 20) 20 Ex.cQ.eps = false := by
  obtain ⟨fb', bp', s', h, _, _, ht, _⟩ := C03_never_overspeeds_counterexample_run
  exact ⟨fb', bp', s', h, by decide +kernel, by decide +kernel, ht, by decide +kernel,
    by decide +kernel, by decide +kernel⟩

/-! ## §3  Non-negativity of the speed -/

/-- **`nonneg_partial`.**  An accepted step with a non-negative target ends with a non-negative
    speed PROVIDED that, whenever the upper clip is the active one (`fP < max fT L`, i.e. the train
    gets all the tractive force there is), the deficit `res − fP` cannot eat the whole speed within
    one step: `(res − fP)·dt/m ≤ v`.  This hypothesis is FORCED (`C03_nonneg_forced`,
    `C03_nonneg_counterexample`).  The code's own guard ("insufficient power to move") fires only
    when `v < 0.1 mph ∧ fP ≤ res`. -/
def C03_nonneg_partial_statement : Prop :=
  ∀ (c : TrConsts α) (sqrt : α → α) (fm : α) (cs : ConsistState α) (fb fb' : FricBrake α)
    (bp bp' : BrakingPoints α) (s s' : TrainState α),
    slRequiredPwr c sqrt fm cs fb bp s = .ok (fb', bp', s') →
    0 < massCompound s → 0 < s.k.dt →
    0 ≤ s'.k.speedTarget →   -- FORCED; follows from `BPInv` by `C03_calcSpeeds_ok`
    (fPosMax c sqrt fm cs s s'.k.speedTarget <
        max (fTarget s s'.k.speedTarget) (lowClip c sqrt fm cs fb s) →
      (resNet s.r - fPosMax c sqrt fm cs s s'.k.speedTarget) * s.k.dt / massCompound s ≤ s.r.speed) →  -- FORCED
      0 ≤ s'.r.speed

theorem C03_nonneg_partial : C03_nonneg_partial_statement (α := α) := by
  intro c sqrt fm cs fb fb' bp bp' s s' h hm hdt ht hdef
  obtain ⟨limit, target, fC, hcs, _, _, _, _, _, _, rfl⟩ := slRequiredPwr_inv h
  change 0 ≤ target at ht
  change fPosMax c sqrt fm cs s target < max (fTarget s target) (lowClip c sqrt fm cs fb s) →
    (resNet s.r - fPosMax c sqrt fm cs s target) * s.k.dt / massCompound s ≤ s.r.speed at hdef
  show 0 ≤ speedNew c sqrt fm cs fb s target
  have hsub := speed0_sub_target c sqrt fm cs fb s target hm hdt
  have htp := tpm_pos s hm hdt
  have hfa := fApplied_eq c sqrt fm cs fb s target
  rcases speedNew_cases c sqrt fm cs fb s target with h1 | ⟨h1, _⟩
  · rw [h1]; exact ht
  · rw [h1]
    rcases lt_or_ge (fPosMax c sqrt fm cs s target)
        (max (fTarget s target) (lowClip c sqrt fm cs fb s)) with hc | hc
    · have hv := hdef hc
      have hA : fApplied c sqrt fm cs fb s target = fPosMax c sqrt fm cs s target := by
        rw [hfa]; exact min_eq_left (le_of_lt hc)
      have hs0 : speed0 c sqrt fm cs fb s target =
          s.r.speed - (resNet s.r - fPosMax c sqrt fm cs s target) * s.k.dt / massCompound s := by
        show s.r.speed + tpm s * (fApplied c sqrt fm cs fb s target - resNet s.r) = _
        rw [hA]; unfold tpm; ring
      rw [hs0]; linarith
    · have hA : fApplied c sqrt fm cs fb s target =
          max (fTarget s target) (lowClip c sqrt fm cs fb s) := by
        rw [hfa]; exact min_eq_right hc
      have : 0 ≤ tpm s * (fApplied c sqrt fm cs fb s target - fTarget s target) :=
        mul_nonneg (le_of_lt htp) (by rw [hA]; linarith [le_max_left (fTarget s target) (lowClip c sqrt fm cs fb s)])
      linarith

/-- the sufficient condition of DESIGN.md: the train already moves forwards and the available
    tractive force covers the resistance -/
theorem C03_nonneg_of_force_covers_res
    (c : TrConsts α) (sqrt : α → α) (fm : α) (cs : ConsistState α) (fb fb' : FricBrake α)
    (bp bp' : BrakingPoints α) (s s' : TrainState α)
    (h : slRequiredPwr c sqrt fm cs fb bp s = .ok (fb', bp', s'))
    (hm : 0 < massCompound s) (hdt : 0 < s.k.dt) (ht : 0 ≤ s'.k.speedTarget)
    (hv : 0 ≤ s.r.speed) (hres : resNet s.r ≤ fPosMax c sqrt fm cs s s'.k.speedTarget) :
    0 ≤ s'.r.speed := by
  refine C03_nonneg_partial c sqrt fm cs fb fb' bp bp' s s' h hm hdt ht (fun _ => ?_)
  have : (resNet s.r - fPosMax c sqrt fm cs s s'.k.speedTarget) * s.k.dt / massCompound s ≤ 0 :=
    div_nonpos_of_nonpos_of_nonneg (mul_nonpos_of_nonpos_of_nonneg (by linarith) (le_of_lt hdt))
      (le_of_lt hm)
  linarith

/-- **the hypothesis of `nonneg_partial` is FORCED**: when the upper clip is active, the deficit
    exceeds the speed and the result is not snapped to the target, the new speed IS negative -/
def C03_nonneg_forced_statement : Prop :=
  ∀ (c : TrConsts α) (sqrt : α → α) (fm : α) (cs : ConsistState α) (fb fb' : FricBrake α)
    (bp bp' : BrakingPoints α) (s s' : TrainState α),
    slRequiredPwr c sqrt fm cs fb bp s = .ok (fb', bp', s') →
    fPosMax c sqrt fm cs s s'.k.speedTarget <
      max (fTarget s s'.k.speedTarget) (lowClip c sqrt fm cs fb s) →
    s.r.speed < (resNet s.r - fPosMax c sqrt fm cs s s'.k.speedTarget) * s.k.dt / massCompound s →
    almostEq (speed0 c sqrt fm cs fb s s'.k.speedTarget) s'.k.speedTarget c.eps = false →
      s'.r.speed < 0

theorem C03_nonneg_forced : C03_nonneg_forced_statement (α := α) := by
  intro c sqrt fm cs fb fb' bp bp' s s' h hc hv hns
  obtain ⟨limit, target, fC, hcs, _, _, _, _, _, _, rfl⟩ := slRequiredPwr_inv h
  change fPosMax c sqrt fm cs s target < max (fTarget s target) (lowClip c sqrt fm cs fb s) at hc
  change s.r.speed < (resNet s.r - fPosMax c sqrt fm cs s target) * s.k.dt / massCompound s at hv
  change almostEq (speed0 c sqrt fm cs fb s target) target c.eps = false at hns
  show speedNew c sqrt fm cs fb s target < 0
  have hnew : speedNew c sqrt fm cs fb s target = speed0 c sqrt fm cs fb s target := by
    unfold speedNew; rw [hns]; simp
  have hA : fApplied c sqrt fm cs fb s target = fPosMax c sqrt fm cs s target := by
    rw [fApplied_eq]; exact min_eq_left (le_of_lt hc)
  have hs0 : speed0 c sqrt fm cs fb s target =
      s.r.speed - (resNet s.r - fPosMax c sqrt fm cs s target) * s.k.dt / massCompound s := by
    show s.r.speed + tpm s * (fApplied c sqrt fm cs fb s target - resNet s.r) = _
    rw [hA]; unfold tpm; ring
  rw [hnew, hs0]; linarith

/-- **"Never reverses", one step (FALSE — `C03_nonneg_counterexample`).** -/
def C03_never_reverses_statement : Prop :=
  ∀ (c : TrConsts α) (sqrt : α → α) (fm : α) (cs : ConsistState α) (fb fb' : FricBrake α)
    (bp bp' : BrakingPoints α) (s s' : TrainState α),
    Sane c sqrt fm cs fb bp s →
    slRequiredPwr c sqrt fm cs fb bp s = .ok (fb', bp', s') →
      0 ≤ s'.r.speed

theorem Ex.sane_N : Sane Ex.cQ Ex.sqrtQ 300 Ex.csN Ex.fbQ Ex.bpQ Ex.sN where
  half := by decide +kernel
  two := by decide +kernel
  four := by decide +kernel
  eps := by decide +kernel
  eps7 := by decide +kernel
  mph := by decide +kernel
  sqrtArg := by decide +kernel
  sqrtNonneg := by decide +kernel
  sqrtExact := by decide +kernel
  inv := Ex.bpQ_inv
  idx := ⟨⟨0, 20, 20⟩, rfl, by decide +kernel⟩
  mass := by decide +kernel
  dt := by decide +kernel
  speed := by decide +kernel
  fricForce := by decide +kernel
  ramp := by decide +kernel
  fmPos := by decide +kernel
  dyn := by decide +kernel
  pwr := by decide +kernel

/-- **Counterexample to "never reverses" (in the model, over `ℚ`).**  The train crawls at 0.1 m/s
    (ABOVE the 0.1 mph = 0.0447 m/s threshold of the "insufficient power to move" guard) up a grade
    with net resistance 500 N; the consist can give at most 300 N (`fP = min 300 (50 W / 0.1 m/s)`).
    The step is ACCEPTED — wheel power `300 N · (−0.1 m/s) = −30 W` passes both `ensure!`s as long as
    the consist has ≥ 30 W of dynamic-brake rating — and the new speed is **−0.1 m/s**. -/
theorem C03_nonneg_counterexample :
    ∃ fb' bp' s', slRequiredPwr Ex.cQ Ex.sqrtQ 300 Ex.csN Ex.fbQ Ex.bpQ Ex.sN = .ok (fb', bp', s') ∧
      Ex.sN.r.speed = 1/10 ∧ Ex.cQ.mph01 ≤ Ex.sN.r.speed ∧ s'.k.speedTarget = 20 ∧
      fPosMax Ex.cQ Ex.sqrtQ 300 Ex.csN Ex.sN 20 = 300 ∧ resNet Ex.sN.r = 500 ∧
      s'.r.speed = -1/10 ∧ s'.r.speed < 0 ∧ s'.k.pwrWhlOut = -30 := by
  obtain ⟨x, h, hp⟩ := okAnd_exists (r := slRequiredPwr Ex.cQ Ex.sqrtQ 300 Ex.csN Ex.fbQ Ex.bpQ Ex.sN)
    (p := fun x : Ex.Out => decide (x.2.2.k.speedTarget = 20 ∧ x.2.2.r.speed = -1/10 ∧ x.2.2.r.speed < 0 ∧
      x.2.2.k.pwrWhlOut = -30)) (by decide +kernel)
  obtain ⟨fb', bp', s'⟩ := x
  obtain ⟨h1, h2, h3, h4⟩ := of_decide_eq_true hp
  exact ⟨fb', bp', s', h, by decide +kernel, by decide +kernel, h1, by decide +kernel,
    by decide +kernel, h2, h3, h4⟩

theorem C03_never_reverses_counterexample : ¬ C03_never_reverses_statement (α := ℚ) := by
  intro hall
  obtain ⟨fb', bp', s', h, _, _, _, _, _, _, hlt, _⟩ := C03_nonneg_counterexample
  exact absurd (hall _ _ _ _ _ _ _ _ _ _ Ex.sane_N h) (not_le.mpr hlt)

/-- non-vacuity of `C03_nonneg_partial`: same crawl with 450 N available: deficit
    `(500 − 450)·1/1000 = 0.05 ≤ 0.1 = v`, new speed `0.05 ≥ 0` -/
example : ∃ fb' bp' s', slRequiredPwr Ex.cQ Ex.sqrtQ 450 Ex.csN Ex.fbQ Ex.bpQ Ex.sN = .ok (fb', bp', s') ∧
    0 < massCompound Ex.sN ∧ 0 < Ex.sN.k.dt ∧ s'.k.speedTarget = 20 ∧
    fPosMax Ex.cQ Ex.sqrtQ 450 Ex.csN Ex.sN 20 <
      max (fTarget Ex.sN 20) (lowClip Ex.cQ Ex.sqrtQ 450 Ex.csN Ex.fbQ Ex.sN) ∧
    (resNet Ex.sN.r - fPosMax Ex.cQ Ex.sqrtQ 450 Ex.csN Ex.sN 20) * Ex.sN.k.dt / massCompound Ex.sN
      ≤ Ex.sN.r.speed ∧ s'.r.speed = 1/20 := by
  obtain ⟨x, h, hp⟩ := okAnd_exists (r := slRequiredPwr Ex.cQ Ex.sqrtQ 450 Ex.csN Ex.fbQ Ex.bpQ Ex.sN)
    (p := fun x : Ex.Out => decide (x.2.2.k.speedTarget = 20 ∧ x.2.2.r.speed = 1/20)) (by decide +kernel)
  obtain ⟨fb', bp', s'⟩ := x
  have := of_decide_eq_true hp
  exact ⟨fb', bp', s', h, by decide +kernel, by decide +kernel, this.1, by decide +kernel,
    by decide +kernel, this.2⟩

/-! ## §4  Friction brake -/

/-- **`set_cur_force_max_out`**: the new current maximum is the smaller of the static maximum and
    the ramped value.  (`ramp_up_time ≠ 0` guards the division; with `ramp_up_time = 0` IEEE gives
    `+∞.min(force_max)` while the field model gives `force + 0`.) -/
def C03_fricSetCurMax_bounds_statement : Prop :=
  ∀ (f : FricBrake α) (dt : α),
    f.rampUpTime ≠ 0 →
      (fricSetCurMax f dt).forceMaxCurr = min (f.force + f.forceMax / f.rampUpTime * dt) f.forceMax ∧
      (fricSetCurMax f dt).forceMaxCurr ≤ f.forceMax ∧
      (fricSetCurMax f dt).forceMaxCurr ≤ f.force + f.forceMax / f.rampUpTime * dt ∧
      (fricSetCurMax f dt).forceMax = f.forceMax ∧ (fricSetCurMax f dt).force = f.force ∧
      (fricSetCurMax f dt).rampUpTime = f.rampUpTime ∧ (fricSetCurMax f dt).rampUpCoeff = f.rampUpCoeff

theorem C03_fricSetCurMax_bounds : C03_fricSetCurMax_bounds_statement (α := α) := by
  intro f dt _
  have : (fricSetCurMax f dt).forceMaxCurr = min (f.force + f.forceMax / f.rampUpTime * dt) f.forceMax := by
    show mn _ _ = _; rw [mn_eq_min]
  exact ⟨this, this ▸ min_le_right _ _, this ▸ min_le_left _ _, rfl, rfl, rfl, rfl⟩

example : (fricSetCurMax Ex.fbQ 1).forceMaxCurr = 200 ∧ Ex.fbQ.rampUpTime ≠ 0 ∧
    (fricSetCurMax (⟨2000, 10, 1/2, 1900, 0⟩ : FricBrake ℚ) 1).forceMaxCurr = 2000 := by
  decide +kernel

/-- **The friction brake after an accepted step.**  Parameters unchanged, `force_max_curr` as set by
    `set_cur_force_max_out`, and the applied force is released (`0`), kept, or RAISED to
    `−(f_applied + f_regen_dyn)` — in which case the `ensure!` has checked
    `almost_le(force, force_max_curr)` (the third branch). -/
def C03_fric_step_statement : Prop :=
  ∀ (c : TrConsts α) (sqrt : α → α) (fm : α) (cs : ConsistState α) (fb fb' : FricBrake α)
    (bp bp' : BrakingPoints α) (s s' : TrainState α),
    slRequiredPwr c sqrt fm cs fb bp s = .ok (fb', bp', s') →
      fb'.forceMax = fb.forceMax ∧ fb'.rampUpTime = fb.rampUpTime ∧ fb'.rampUpCoeff = fb.rampUpCoeff ∧
      fb'.forceMaxCurr = min (fb.force + fb.forceMax / fb.rampUpTime * s.k.dt) fb.forceMax ∧
      fb'.forceMaxCurr ≤ fb.forceMax ∧
      (fb'.force = 0 ∨ fb'.force = fb.force ∨
        (fb.force < fb'.force ∧
          fb'.force = -(fApplied c sqrt fm cs fb s s'.k.speedTarget + fRegenDyn c sqrt fm cs s) ∧
          almostLe fb'.force fb'.forceMaxCurr c.eps = true))

theorem C03_fric_step : C03_fric_step_statement (α := α) := by
  intro c sqrt fm cs fb fb' bp bp' s s' h
  obtain ⟨limit, target, fC, _, _, _, _, hfr, _, _, rfl⟩ := slRequiredPwr_inv h
  obtain ⟨h1, h2, h3, h4, hcase⟩ := fricOut_cases _ _ _ _ _ _ hfr
  have hmin : (fricSetCurMax fb s.k.dt).forceMaxCurr =
      min (fb.force + fb.forceMax / fb.rampUpTime * s.k.dt) fb.forceMax := by
    show mn _ _ = _; rw [mn_eq_min]
  refine ⟨h1, h2, h3, h4.trans hmin, ?_, ?_⟩
  · rw [h4, hmin]; exact min_le_right _ _
  · rcases hcase with ⟨_, hf, _⟩ | ⟨_, _, hf, _⟩ | ⟨_, _, _, hf, _⟩ | ⟨_, _, hlt, hf, _, hal⟩
    · exact Or.inl hf
    · exact Or.inr (Or.inl hf)
    · exact Or.inr (Or.inl hf)
    · refine Or.inr (Or.inr ⟨?_, hf, hal⟩)
      rw [hf]
      have : (fricSetCurMax fb s.k.dt).force = fb.force := rfl
      rw [this] at hlt
      linarith

/-- **Inductive invariant of the brake force**: `0 ≤ force` and `almost_le(force, force_max)` are
    preserved by every accepted step (`0 ≤ force_max`, `0 < eps` FORCED for the release branch). -/
def C03_fric_inv_statement : Prop :=
  ∀ (c : TrConsts α) (sqrt : α → α) (fm : α) (cs : ConsistState α) (fb fb' : FricBrake α)
    (bp bp' : BrakingPoints α) (s s' : TrainState α),
    slRequiredPwr c sqrt fm cs fb bp s = .ok (fb', bp', s') →
    0 ≤ fb.forceMax → 0 < c.eps →
    0 ≤ fb.force → almostLe fb.force fb.forceMax c.eps = true →
      0 ≤ fb'.force ∧ almostLe fb'.force fb'.forceMax c.eps = true

theorem C03_fric_inv : C03_fric_inv_statement (α := α) := by
  intro c sqrt fm cs fb fb' bp bp' s s' h hmax heps h0 hal
  obtain ⟨hfm, _, _, _, hle, hcase⟩ := C03_fric_step c sqrt fm cs fb fb' bp bp' s s' h
  rw [hfm]
  rcases hcase with hf | hf | ⟨hlt, _, hal'⟩
  · rw [hf]
    refine ⟨le_refl _, ?_⟩
    unfold almostLe
    simp only [Bool.or_eq_true, decide_eq_true_iff]
    right; linarith
  · rw [hf]; exact ⟨h0, hal⟩
  · refine ⟨le_of_lt (lt_of_le_of_lt h0 hlt), ?_⟩
    unfold almostLe at hal' ⊢
    simp only [Bool.or_eq_true, decide_eq_true_iff] at hal' ⊢
    rcases hal' with h1 | h1
    · left
      have : fb'.forceMaxCurr * (1 + c.eps) ≤ fb.forceMax * (1 + c.eps) :=
        mul_le_mul_of_nonneg_right hle (by linarith)
      linarith
    · right; linarith

/-- the overspeed run instantiates the RAISED branch: force 0 → 200 = force_max_curr -/
example : ∃ fb' bp' s', slRequiredPwr Ex.cQ Ex.sqrtQ 1000 Ex.csO Ex.fbQ Ex.bpQ Ex.sO = .ok (fb', bp', s') ∧
    0 ≤ Ex.fbQ.forceMax ∧ 0 < Ex.cQ.eps ∧ 0 ≤ Ex.fbQ.force ∧
    almostLe Ex.fbQ.force Ex.fbQ.forceMax Ex.cQ.eps = true ∧ fb'.force = 200 := by
  obtain ⟨fb', bp', s', h, _, _, _, _, _, hf, _⟩ := C03_never_overspeeds_counterexample_run
  exact ⟨fb', bp', s', h, by decide +kernel, by decide +kernel, by decide +kernel, by decide +kernel, hf⟩

/-! ## §5  The loop condition of `walk_internal` -/

/-- **`walk_exit`**: the walk stops exactly when the train is inside the last 1000 ft AND (at/after
    the end OR at rest).  NOTE what this does *not* say: `offset ≤ offset_end` — a train that is still
    moving when it passes the end of its path also leaves the loop (`offset_end ≤ offset`), `Ok`. -/
def C03_walk_exit_statement : Prop :=
  ∀ (ft1000 offsetEnd : α) (s : TrainState α),
    walkCond ft1000 offsetEnd s = false ↔
      (offsetEnd - ft1000 ≤ s.r.offset) ∧ (offsetEnd ≤ s.r.offset ∨ s.r.speed = 0)

theorem C03_walk_exit : C03_walk_exit_statement (α := α) := by
  intro ft1000 offsetEnd s
  unfold walkCond
  rw [Bool.or_eq_false_iff, Bool.and_eq_false_iff, decide_eq_false_iff_not, decide_eq_false_iff_not,
    not_lt, not_lt, ← Bool.not_eq_true, neb_iff, not_not]

example : walkCond (1524/5 : ℚ) 10000 ⟨Ex.resOf 9900 0 0, Ex.kinQ⟩ = false ∧
    walkCond (1524/5 : ℚ) 10000 ⟨Ex.resOf 9900 1 0, Ex.kinQ⟩ = true ∧
    walkCond (1524/5 : ℚ) 10000 ⟨Ex.resOf 10001 5 0, Ex.kinQ⟩ = false := by
  decide +kernel

/-! ## §5b  The loop of `walk_internal` before and after the liveness repair (fix c76dec1)

  `walkLoopOld step cond` is `while cond(state) { self.step()?; }`, `walkLoop step cond stuck` the repaired loop that
  ends with `Err` ("stopped-short") as soon as a step produced a stuck pair (state before, state after); both take
  fuel = the number of `step()` calls allowed, `.ok none` = fuel exhausted with the condition still true.  Everything
  here is GENERIC in the state type, `step`, `cond`, `stuck`; the instances `slWalk` / `slWalkOld` use the model's
  `walkCond` / `walkStuck`, which `Proofs/TrainKernels.lean` proves equal to what the Rust text says. -/

section WalkLoop
variable {S : Type}

theorem walkLoop_zero (step : S → Res S) (cond : S → Bool) (stuck : S → S → Bool) (s : S) :
    walkLoop step cond stuck 0 s = if cond s then .ok none else .ok (some s) := rfl

theorem walkLoop_succ (step : S → Res S) (cond : S → Bool) (stuck : S → S → Bool) (n : Nat) (s : S) :
    walkLoop step cond stuck (n + 1) s =
      if cond s then
        match step s with
        | .ok s' => if stuck s s' then .err "stopped-short" else walkLoop step cond stuck n s'
        | .err e => .err e
        | .panic e => .panic e
      else .ok (some s) := rfl

theorem walkLoopOld_zero (step : S → Res S) (cond : S → Bool) (s : S) :
    walkLoopOld step cond 0 s = if cond s then .ok none else .ok (some s) := rfl

theorem walkLoopOld_succ (step : S → Res S) (cond : S → Bool) (n : Nat) (s : S) :
    walkLoopOld step cond (n + 1) s =
      if cond s then
        match step s with
        | .ok s' => walkLoopOld step cond n s'
        | .err e => .err e
        | .panic e => .panic e
      else .ok (some s) := rfl

/-! the five ways an iteration can go, as rewriting lemmas -/

theorem walkLoop_exit {step : S → Res S} {cond : S → Bool} {stuck : S → S → Bool} {s : S} (hc : cond s = false)
    (n : Nat) : walkLoop step cond stuck n s = .ok (some s) := by
  cases n with
  | zero => rw [walkLoop_zero, hc]; rfl
  | succ n => rw [walkLoop_succ, hc]; rfl

theorem walkLoop_step {step : S → Res S} {cond : S → Bool} {stuck : S → S → Bool} {s s' : S} (hc : cond s = true)
    (hs : step s = .ok s') (hk : stuck s s' = false) (n : Nat) :
    walkLoop step cond stuck (n + 1) s = walkLoop step cond stuck n s' := by
  rw [walkLoop_succ, hc, hs]; simp only [hk, if_true]; rfl

theorem walkLoop_stuck {step : S → Res S} {cond : S → Bool} {stuck : S → S → Bool} {s s' : S} (hc : cond s = true)
    (hs : step s = .ok s') (hk : stuck s s' = true) (n : Nat) :
    walkLoop step cond stuck (n + 1) s = .err "stopped-short" := by
  rw [walkLoop_succ, hc, hs]; simp only [hk, if_true]

theorem walkLoop_err {step : S → Res S} {cond : S → Bool} {stuck : S → S → Bool} {s : S} {e : String}
    (hc : cond s = true) (hs : step s = .err e) (n : Nat) : walkLoop step cond stuck (n + 1) s = .err e := by
  rw [walkLoop_succ, hc, hs]; rfl

theorem walkLoop_panic {step : S → Res S} {cond : S → Bool} {stuck : S → S → Bool} {s : S} {e : String}
    (hc : cond s = true) (hs : step s = .panic e) (n : Nat) : walkLoop step cond stuck (n + 1) s = .panic e := by
  rw [walkLoop_succ, hc, hs]; rfl

theorem walkLoopOld_exit {step : S → Res S} {cond : S → Bool} {s : S} (hc : cond s = false) (n : Nat) :
    walkLoopOld step cond n s = .ok (some s) := by
  cases n with
  | zero => rw [walkLoopOld_zero, hc]; rfl
  | succ n => rw [walkLoopOld_succ, hc]; rfl

theorem walkLoopOld_step {step : S → Res S} {cond : S → Bool} {s s' : S} (hc : cond s = true)
    (hs : step s = .ok s') (n : Nat) : walkLoopOld step cond (n + 1) s = walkLoopOld step cond n s' := by
  rw [walkLoopOld_succ, hc, hs]; rfl

theorem walkLoopOld_err {step : S → Res S} {cond : S → Bool} {s : S} {e : String}
    (hc : cond s = true) (hs : step s = .err e) (n : Nat) : walkLoopOld step cond (n + 1) s = .err e := by
  rw [walkLoopOld_succ, hc, hs]; rfl

theorem walkLoopOld_panic {step : S → Res S} {cond : S → Bool} {s : S} {e : String}
    (hc : cond s = true) (hs : step s = .panic e) (n : Nat) : walkLoopOld step cond (n + 1) s = .panic e := by
  rw [walkLoopOld_succ, hc, hs]; rfl

/-- the old loop is the new loop with a check that never fires -/
theorem walkLoopOld_eq (step : S → Res S) (cond : S → Bool) (n : Nat) (s : S) :
    walkLoopOld step cond n s = walkLoop step cond (fun _ _ => false) n s := by
  induction n generalizing s with
  | zero => rfl
  | succ n ih =>
    cases hc : cond s
    · rw [walkLoopOld_exit hc, walkLoop_exit hc]
    · cases hs : step s with
      | ok s' => rw [walkLoopOld_step hc hs, walkLoop_step hc hs rfl]; exact ih s'
      | err e => rw [walkLoopOld_err hc hs, walkLoop_err hc hs]
      | panic e => rw [walkLoopOld_panic hc hs, walkLoop_panic hc hs]

/-- no stuck pair is met in the first `n` iterations from `s` -/
def NoStuckPair (step : S → Res S) (cond : S → Bool) (stuck : S → S → Bool) : Nat → S → Prop
  | 0, _ => True
  | n + 1, s => cond s = true → ∀ s', step s = .ok s' → stuck s s' = false ∧ NoStuckPair step cond stuck n s'

/-- **The defect.**  `E a b`: "`b` is the same as `a` for the purposes of `step` and `cond`" (in the code: the
    states differ in the clock, the step counter, the energy ledgers and the histories only).  If the state after a
    step is `E`-the same as the state before it, and the loop condition holds, the OLD loop never exits: for EVERY
    fuel it is still running.  (For `walk_internal`: a train at rest with target 0 outside the stopping window; that
    such a state IS an `E`-fixed point of the real `step()` is what the harness checks on every detected case.) -/
def C03_walk_old_diverges_statement : Prop :=
  ∀ (S : Type) (step : S → Res S) (cond : S → Bool) (E : S → S → Prop),
    (∀ a b, E a b → cond a = cond b) →                                              -- `cond` respects `E`
    (∀ a a' b, E a b → step a = .ok a' → ∃ b', step b = .ok b' ∧ E a' b') →         -- `step` respects `E`
    ∀ (s s' : S), cond s = true → step s = .ok s' → E s s' →
      ∀ n, walkLoopOld step cond n s = .ok none

theorem C03_walk_old_diverges : C03_walk_old_diverges_statement := by
  intro S step cond E hc hs s s' hcs hss hE n
  induction n generalizing s s' with
  | zero => rw [walkLoopOld_zero, hcs]; rfl
  | succ n ih =>
    obtain ⟨s'', hs'', hE'⟩ := hs s s' s' hE hss
    have hc' : cond s' = true := by rw [← hc s s' hE]; exact hcs
    rw [walkLoopOld_step hcs hss]
    exact ih s' s'' hc' hs'' hE'

/-- the special case `E = (· = ·)`: a literal fixed point of `step` -/
theorem C03_walk_old_diverges_fixed_point (step : S → Res S) (cond : S → Bool) (s : S)
    (hc : cond s = true) (hs : step s = .ok s) : ∀ n, walkLoopOld step cond n s = .ok none :=
  C03_walk_old_diverges S step cond (· = ·) (fun _ _ h => by rw [h])
    (fun a a' b h ha => ⟨a', by rw [← h]; exact ha, rfl⟩) s s hc hs rfl

/-- **The repair.**  Under the same hypotheses (those on `E` are not even needed) plus `stuck s s' = true`, the NEW
    loop ends with the error after one step, for every fuel ≥ 1. -/
def C03_walk_new_reports_stuck_statement : Prop :=
  ∀ (S : Type) (step : S → Res S) (cond : S → Bool) (stuck : S → S → Bool) (s s' : S),
    cond s = true → step s = .ok s' → stuck s s' = true →
      ∀ n, walkLoop step cond stuck (n + 1) s = .err "stopped-short"

theorem C03_walk_new_reports_stuck : C03_walk_new_reports_stuck_statement := by
  intro S step cond stuck s s' hc hs hk n
  exact walkLoop_stuck hc hs hk n

/-- **The repair changes no run that used to end.**  The new loop exits at `t` within fuel `n` IFF the old loop
    does and no stuck pair was met on the way: (→) every exit of the new loop is an exit of the old one at the same
    state; (←) an exit of the old loop is kept unless the check fired before it. -/
def C03_walk_new_refines_old_statement : Prop :=
  ∀ (S : Type) (step : S → Res S) (cond : S → Bool) (stuck : S → S → Bool) (n : Nat) (s t : S),
    walkLoop step cond stuck n s = .ok (some t) ↔
      (walkLoopOld step cond n s = .ok (some t) ∧ NoStuckPair step cond stuck n s)

theorem C03_walk_new_refines_old : C03_walk_new_refines_old_statement := by
  intro S step cond stuck n
  induction n with
  | zero => intro s t; rw [walkLoop_zero, walkLoopOld_zero]; simp [NoStuckPair]
  | succ n ih =>
    intro s t
    cases hc : cond s
    · rw [walkLoop_exit hc, walkLoopOld_exit hc]
      exact ⟨fun h => ⟨h, fun h' => by rw [hc] at h'; cases h'⟩, fun h => h.1⟩
    · cases hs : step s with
      | ok s' =>
        cases hk : stuck s s'
        · rw [walkLoop_step hc hs hk, walkLoopOld_step hc hs, ih s' t]
          constructor
          · rintro ⟨h1, h2⟩
            refine ⟨h1, ?_⟩
            intro _ s'' hs''
            rw [hs] at hs''; cases hs''
            exact ⟨hk, h2⟩
          · rintro ⟨h1, h2⟩
            exact ⟨h1, (h2 hc s' hs).2⟩
        · rw [walkLoop_stuck hc hs hk]
          constructor
          · intro h; cases h
          · rintro ⟨_, h2⟩
            have := (h2 hc s' hs).1
            rw [hk] at this; cases this
      | err e =>
        rw [walkLoop_err hc hs, walkLoopOld_err hc hs]
        exact ⟨fun h => (by cases h), fun h => (by cases h.1)⟩
      | panic e =>
        rw [walkLoop_panic hc hs, walkLoopOld_panic hc hs]
        exact ⟨fun h => (by cases h), fun h => (by cases h.1)⟩

/-- what the new loop returns when the old one exits: the same exit, or the new error — never anything else -/
theorem C03_walk_old_exit_new (step : S → Res S) (cond : S → Bool) (stuck : S → S → Bool) (n : Nat) (s t : S)
    (h : walkLoopOld step cond n s = .ok (some t)) :
    walkLoop step cond stuck n s = .ok (some t) ∨ walkLoop step cond stuck n s = .err "stopped-short" := by
  induction n generalizing s with
  | zero => left; rw [walkLoop_zero]; rw [walkLoopOld_zero] at h; exact h
  | succ n ih =>
    cases hc : cond s
    · rw [walkLoopOld_exit hc] at h; rw [walkLoop_exit hc]; exact Or.inl h
    · cases hs : step s with
      | ok s' =>
        rw [walkLoopOld_step hc hs] at h
        cases hk : stuck s s'
        · rw [walkLoop_step hc hs hk]; exact ih s' h
        · rw [walkLoop_stuck hc hs hk]; exact Or.inr rfl
      | err e => rw [walkLoopOld_err hc hs] at h; cases h
      | panic e => rw [walkLoopOld_panic hc hs] at h; cases h

/-- **A sound check changes NO ending run.**  If every pair on which the check fires (with the loop condition true)
    is an `E`-fixed point of a `step` / `cond` that respect `E` — which is what makes the old loop diverge there —
    then every exit of the old loop is an exit of the new loop, with no side condition. -/
def C03_walk_sound_check_keeps_exits_statement : Prop :=
  ∀ (S : Type) (step : S → Res S) (cond : S → Bool) (stuck : S → S → Bool) (E : S → S → Prop),
    (∀ a b, E a b → cond a = cond b) →
    (∀ a a' b, E a b → step a = .ok a' → ∃ b', step b = .ok b' ∧ E a' b') →
    (∀ a a', cond a = true → step a = .ok a' → stuck a a' = true → E a a') →          -- the check is sound
    ∀ (n : Nat) (s t : S), walkLoopOld step cond n s = .ok (some t) → walkLoop step cond stuck n s = .ok (some t)

theorem C03_walk_sound_check_keeps_exits : C03_walk_sound_check_keeps_exits_statement := by
  intro S step cond stuck E hc hs hsound n s t h
  refine (C03_walk_new_refines_old S step cond stuck n s t).mpr ⟨h, ?_⟩
  induction n generalizing s with
  | zero => trivial
  | succ n ih =>
    intro hcs s' hss
    cases hk : stuck s s'
    · refine ⟨rfl, ih s' ?_⟩
      rw [walkLoopOld_step hcs hss] at h; exact h
    · exfalso
      have := C03_walk_old_diverges S step cond E hc hs s s' hcs hss (hsound s s' hcs hss hk) (n + 1)
      rw [this] at h; cases h

/-- **`walk_exit` for the loops**: a state at which either loop is left falsifies the loop condition. -/
def C03_walk_exit_new_statement : Prop :=
  ∀ (S : Type) (step : S → Res S) (cond : S → Bool) (stuck : S → S → Bool) (n : Nat) (s t : S),
    (walkLoop step cond stuck n s = .ok (some t) → cond t = false) ∧
    (walkLoopOld step cond n s = .ok (some t) → cond t = false)

theorem C03_walk_exit_new : C03_walk_exit_new_statement := by
  intro S step cond stuck n s t
  have hold : ∀ (n : Nat) (s : S), walkLoopOld step cond n s = .ok (some t) → cond t = false := by
    intro n
    induction n with
    | zero =>
      intro s h
      cases hc : cond s
      · rw [walkLoopOld_exit hc] at h; cases h; exact hc
      · rw [walkLoopOld_zero, hc] at h; cases h
    | succ n ih =>
      intro s h
      cases hc : cond s
      · rw [walkLoopOld_exit hc] at h; cases h; exact hc
      · cases hs : step s with
        | ok s' => rw [walkLoopOld_step hc hs] at h; exact ih s' h
        | err e => rw [walkLoopOld_err hc hs] at h; cases h
        | panic e => rw [walkLoopOld_panic hc hs] at h; cases h
  exact ⟨fun h => hold n s ((C03_walk_new_refines_old S step cond stuck n s t).mp h).1, hold n s⟩

/-- more fuel does not change a run that has ended (exit, error or panic) -/
theorem C03_walk_fuel_mono (step : S → Res S) (cond : S → Bool) (stuck : S → S → Bool) (n k : Nat) (s : S)
    (h : walkLoop step cond stuck n s ≠ .ok none) :
    walkLoop step cond stuck (n + k) s = walkLoop step cond stuck n s := by
  induction n generalizing s with
  | zero =>
    cases hc : cond s
    · rw [walkLoop_exit hc, walkLoop_exit hc]
    · rw [walkLoop_zero, hc] at h; exact absurd rfl h
  | succ n ih =>
    rw [Nat.add_right_comm]
    cases hc : cond s
    · rw [walkLoop_exit hc, walkLoop_exit hc]
    · cases hs : step s with
      | ok s' =>
        cases hk : stuck s s'
        · rw [walkLoop_step hc hs hk n] at h
          rw [walkLoop_step hc hs hk (n + k), walkLoop_step hc hs hk n]; exact ih s' h
        · rw [walkLoop_stuck hc hs hk, walkLoop_stuck hc hs hk]
      | err e => rw [walkLoop_err hc hs, walkLoop_err hc hs]
      | panic e => rw [walkLoop_panic hc hs, walkLoop_panic hc hs]

end WalkLoop

/-! ### the instances with `walkCond` / `walkStuck` -/

/-- the check of the repaired loop, clause by clause -/
theorem walkStuck_iff (ft1000 offsetEnd speedPrev : α) (s : TrainState α) :
    walkStuck ft1000 offsetEnd speedPrev s = true ↔
      speedPrev = 0 ∧ s.r.speed = 0 ∧ s.k.speedTarget = 0 ∧ s.r.offset < offsetEnd - ft1000 := by
  unfold walkStuck
  simp only [Bool.and_eq_true, eqb_iff, decide_eq_true_iff, and_assoc]

/-- **A stuck state is never an exit state**: wherever the new check fires, the loop condition holds of the state
    after the step — the old loop would have gone on from there (so the check can never replace an `Ok(())`). -/
def C03_stuck_implies_cond_statement : Prop :=
  ∀ (ft1000 offsetEnd speedPrev : α) (s : TrainState α),
    walkStuck ft1000 offsetEnd speedPrev s = true → walkCond ft1000 offsetEnd s = true

theorem C03_stuck_implies_cond : C03_stuck_implies_cond_statement (α := α) := by
  intro ft1000 offsetEnd speedPrev s h
  obtain ⟨_, _, _, h4⟩ := (walkStuck_iff ft1000 offsetEnd speedPrev s).mp h
  unfold walkCond
  rw [Bool.or_eq_true, decide_eq_true_iff]
  exact Or.inl h4

/-- **`walk_exit` for `walk_internal` as a whole** (old and new): `Ok(())` is returned only with the train at rest
    inside the last 1000 ft or at/after the end of its path. -/
def C03_slWalk_exit_statement : Prop :=
  ∀ (S : Type) (ft1000 offsetEnd : α) (st : S → TrainState α) (step : S → Res S) (n : Nat) (s t : S),
    (slWalk ft1000 offsetEnd st step n s = .ok (some t) ∨ slWalkOld ft1000 offsetEnd st step n s = .ok (some t)) →
      (offsetEnd - ft1000 ≤ (st t).r.offset) ∧ (offsetEnd ≤ (st t).r.offset ∨ (st t).r.speed = 0)

theorem C03_slWalk_exit : C03_slWalk_exit_statement (α := α) := by
  intro S ft1000 offsetEnd st step n s t h
  apply (C03_walk_exit ft1000 offsetEnd (st t)).mp
  have := C03_walk_exit_new S step (fun x => walkCond ft1000 offsetEnd (st x))
    (fun a b => walkStuck ft1000 offsetEnd (st a).r.speed (st b)) n s t
  rcases h with h | h
  · exact this.1 h
  · exact this.2 h

/-- the repaired `walk_internal` reports a train that stood still for a step with target 0 before the window -/
theorem C03_slWalk_reports_stuck {S : Type} (ft1000 offsetEnd : α) (st : S → TrainState α) (step : S → Res S) (s s' : S)
    (hs : step s = .ok s') (h0 : (st s).r.speed = 0) (h1 : (st s').r.speed = 0) (h2 : (st s').k.speedTarget = 0)
    (h3 : (st s').r.offset < offsetEnd - ft1000)
    (hc : walkCond ft1000 offsetEnd (st s) = true) :                 -- the loop was entered
    ∀ n, slWalk ft1000 offsetEnd st step (n + 1) s = .err "stopped-short" :=
  C03_walk_new_reports_stuck S step _ _ s s' hc hs ((walkStuck_iff _ _ _ _).mpr ⟨h0, h1, h2, h3⟩)

/-- the unrepaired `walk_internal` never returns from such a state, provided `step` respects an equivalence that
    fixes the position and the speed of the train (`walkCond` reads nothing else) -/
theorem C03_slWalkOld_diverges {S : Type} (ft1000 offsetEnd : α) (st : S → TrainState α) (step : S → Res S)
    (E : S → S → Prop)
    (hE : ∀ a b, E a b → (st a).r.offset = (st b).r.offset ∧ (st a).r.speed = (st b).r.speed)
    (hstep : ∀ a a' b, E a b → step a = .ok a' → ∃ b', step b = .ok b' ∧ E a' b')
    (s s' : S) (hc : walkCond ft1000 offsetEnd (st s) = true) (hs : step s = .ok s') (hss : E s s') :
    ∀ n, slWalkOld ft1000 offsetEnd st step n s = .ok none :=
  C03_walk_old_diverges S step _ E
    (fun a b h => by obtain ⟨h1, h2⟩ := hE a b h; unfold walkCond; rw [h1, h2]) hstep s s' hc hs hss

/-! ### non-vacuity: a concrete stuck state and two toy `step`s over `ℚ` -/

namespace Ex
/-- at rest with target 0 at 768 m of a path that ends at 1309 m (the window starts at 1309 − 304.8 = 1004.2 m) -/
def sStuck : TrainState ℚ := ⟨resOf 768 0 0, { kinQ with speedTarget := 0 }⟩
/-- 5 m/s at the same place -/
def sMove : TrainState ℚ := ⟨resOf 768 5 0, kinQ⟩
/-- a train held where it is: only the clock moves (so `stand s ≠ s`: the equivalence `E` is needed) -/
def stand (s : TrainState ℚ) : Res (TrainState ℚ) := .ok { s with k := { s.k with time := s.k.time + 1 } }
/-- 100 m per step; comes to rest exactly at the end of the path -/
def roll (s : TrainState ℚ) : Res (TrainState ℚ) :=
  if s.r.offset + 100 < 1309 then .ok { s with r := { s.r with offset := s.r.offset + 100 } }
  else .ok { s with r := { s.r with offset := 1309, speed := 0 } }
/-- same resistance-part (position, speed, …) and same target: all that `walkCond` / `walkStuck` / `stand` read -/
def sameTrain (a b : TrainState ℚ) : Prop := a.r = b.r ∧ a.k.speedTarget = b.k.speedTarget
/-- the check of `slWalk` on bare train states -/
def stuckQ (a b : TrainState ℚ) : Bool := walkStuck (1524/5) 1309 a.r.speed b
/-- did the loop exit, at a state satisfying `p` -/
def exitAnd (p : TrainState ℚ → Bool) : Res (Option (TrainState ℚ)) → Bool
  | .ok (some t) => p t
  | _ => false
theorem exitAnd_exists {p : TrainState ℚ → Bool} {r : Res (Option (TrainState ℚ))} (h : exitAnd p r = true) :
    ∃ t, r = .ok (some t) ∧ p t = true := by
  cases r with
  | ok o => cases o with
    | none => simp [exitAnd] at h
    | some t => exact ⟨t, rfl, h⟩
  | err e => simp [exitAnd] at h
  | panic e => simp [exitAnd] at h
end Ex

/-- the concrete stuck state: the check fires, the loop condition holds (`C03_stuck_implies_cond`), and with any one
    clause of the check falsified it does not fire -/
example : walkStuck (1524/5 : ℚ) 1309 0 Ex.sStuck = true ∧ walkCond (1524/5 : ℚ) 1309 Ex.sStuck = true ∧
    walkStuck (1524/5 : ℚ) 1309 5 Ex.sStuck = false ∧ walkStuck (1524/5 : ℚ) 1309 0 Ex.sMove = false ∧
    walkStuck (1524/5 : ℚ) 1309 0 ⟨Ex.resOf 768 0 0, Ex.kinQ⟩ = false ∧
    walkStuck (1524/5 : ℚ) 1309 0 ⟨Ex.resOf 1005 0 0, { Ex.kinQ with speedTarget := 0 }⟩ = false := by
  decide +kernel

/-- non-vacuity of `C03_walk_old_diverges` (ALL hypotheses, `E = sameTrain`, `step = stand` which is not the
    identity): the old loop is still running after any number of steps … -/
example : ∀ n, walkLoopOld Ex.stand (walkCond (1524/5 : ℚ) 1309) n Ex.sStuck = .ok none := by
  refine C03_walk_old_diverges _ Ex.stand _ Ex.sameTrain ?_ ?_ Ex.sStuck
    { Ex.sStuck with k := { Ex.sStuck.k with time := Ex.sStuck.k.time + 1 } } (by decide +kernel) rfl ⟨rfl, rfl⟩
  · rintro a b ⟨h, _⟩; unfold walkCond; rw [h]
  · rintro a a' b ⟨h1, h2⟩ ha
    refine ⟨_, rfl, ?_⟩
    simp only [Ex.stand, Res.ok.injEq] at ha
    subst ha
    exact ⟨h1, h2⟩

/-- … (evaluated: 40 steps) while the new loop ends with the error at the first step
    (`C03_walk_new_reports_stuck`), whatever the fuel ≥ 1 -/
example : (match walkLoopOld Ex.stand (walkCond (1524/5 : ℚ) 1309) 40 Ex.sStuck with | .ok none => true | _ => false) = true ∧
    (match walkLoop Ex.stand (walkCond (1524/5 : ℚ) 1309) Ex.stuckQ 40 Ex.sStuck with
      | .err t => t == "stopped-short" | _ => false) = true := by decide +kernel

example : ∀ n, walkLoop Ex.stand (walkCond (1524/5 : ℚ) 1309) Ex.stuckQ (n + 1) Ex.sStuck = .err "stopped-short" :=
  C03_walk_new_reports_stuck _ Ex.stand _ Ex.stuckQ Ex.sStuck _ (by decide +kernel) rfl (by decide +kernel)

/-- `slWalk` is that loop -/
example : ∀ n, slWalk (1524/5 : ℚ) 1309 id Ex.stand (n + 1) Ex.sStuck = .err "stopped-short" :=
  C03_slWalk_reports_stuck (1524/5 : ℚ) 1309 id Ex.stand Ex.sStuck _ rfl (by decide +kernel) (by decide +kernel)
    (by decide +kernel) (by decide +kernel) (by decide +kernel)

/-- non-vacuity of `C03_walk_new_refines_old` / `C03_walk_exit_new` / `C03_slWalk_exit`: a run that ENDS (6 steps of
    100 m from 768 m at 5 m/s, at rest at the end 1309) ends in the same state under both loops, no stuck pair is
    met, the loop condition is false there; with 5 steps of fuel both are still running -/
example : ∃ t, walkLoop Ex.roll (walkCond (1524/5 : ℚ) 1309) Ex.stuckQ 10 Ex.sMove = .ok (some t) ∧
    walkLoopOld Ex.roll (walkCond (1524/5 : ℚ) 1309) 10 Ex.sMove = .ok (some t) ∧
    NoStuckPair Ex.roll (walkCond (1524/5 : ℚ) 1309) Ex.stuckQ 10 Ex.sMove ∧
    t.r.offset = 1309 ∧ t.r.speed = 0 ∧ walkCond (1524/5 : ℚ) 1309 t = false := by
  obtain ⟨t, ht, hp⟩ := Ex.exitAnd_exists
    (r := walkLoop Ex.roll (walkCond (1524/5 : ℚ) 1309) Ex.stuckQ 10 Ex.sMove)
    (p := fun t => decide (t.r.offset = 1309 ∧ t.r.speed = 0)) (by decide +kernel)
  have hp' := of_decide_eq_true hp
  obtain ⟨ho, hn⟩ := (C03_walk_new_refines_old _ _ _ _ _ _ _).mp ht
  exact ⟨t, ht, ho, hn, hp'.1, hp'.2, (C03_walk_exit_new _ _ _ _ _ _ _).1 ht⟩

example : (match walkLoop Ex.roll (walkCond (1524/5 : ℚ) 1309) Ex.stuckQ 5 Ex.sMove with | .ok none => true | _ => false) = true ∧
    (match walkLoop Ex.roll (walkCond (1524/5 : ℚ) 1309) Ex.stuckQ 6 Ex.sMove with | .ok (some _) => true | _ => false) = true := by
  decide +kernel

/-- a run that first moves and THEN gets stuck (`roll` for 2 steps to 968 m, then held): the old loop exhausts any
    fuel, the new loop reports it at the first step that starts at rest -/
example :
    let step := fun (s : TrainState ℚ) => if s.r.offset < 968 then Ex.roll s else
      Ex.stand { s with r := { s.r with speed := 0 }, k := { s.k with speedTarget := 0 } }
    (match walkLoopOld step (walkCond (1524/5 : ℚ) 1309) 30 Ex.sMove with | .ok none => true | _ => false) = true ∧
    (match walkLoop step (walkCond (1524/5 : ℚ) 1309) Ex.stuckQ 3 Ex.sMove with | .ok none => true | _ => false) = true ∧
    (match walkLoop step (walkCond (1524/5 : ℚ) 1309) Ex.stuckQ 4 Ex.sMove with
      | .err t => t == "stopped-short" | _ => false) = true := by
  decide +kernel
/-! ## §6  Power bounds of an accepted step -/

/-- **Power bounds.**  The stored wheel power lies in `[−pwr_neg_max, pwr_pos_max]` (both limits
    non-negative), it is the clamp of `f_consist · speed'`, and the two `ensure!`s have checked
    `almost_le(f_consist·speed', pwr_pos_max, 1e-7)` and `almost_le(−f_consist·speed', pwr_neg_max, 1e-7)`. -/
def C03_power_bounds_statement : Prop :=
  ∀ (c : TrConsts α) (sqrt : α → α) (fm : α) (cs : ConsistState α) (fb fb' : FricBrake α)
    (bp bp' : BrakingPoints α) (s s' : TrainState α),
    slRequiredPwr c sqrt fm cs fb bp s = .ok (fb', bp', s') →
      0 ≤ pwrPosMax cs s ∧ 0 ≤ pwrNegMax cs ∧
      -pwrNegMax cs ≤ s'.k.pwrWhlOut ∧ s'.k.pwrWhlOut ≤ pwrPosMax cs s ∧
      ∃ fConsist,
        s'.k.pwrWhlOut = min (max (fConsist * s'.r.speed) (-pwrNegMax cs)) (pwrPosMax cs s) ∧
        almostLe (fConsist * s'.r.speed) (pwrPosMax cs s) c.eps7 = true ∧
        almostLe (-(fConsist * s'.r.speed)) (pwrNegMax cs) c.eps7 = true

theorem C03_power_bounds : C03_power_bounds_statement (α := α) := by
  intro c sqrt fm cs fb fb' bp bp' s s' h
  obtain ⟨limit, target, fC, _, _, hpos, _, _, h1, h2, rfl⟩ := slRequiredPwr_inv h
  have hneg : 0 ≤ pwrNegMax cs := by unfold pwrNegMax; rw [mx_eq_max]; exact le_max_right _ _
  have hw : (mkState c sqrt fm cs fb s target limit
      (whlOf cs s (fC * speedNew c sqrt fm cs fb s target))).k.pwrWhlOut =
      min (max (fC * speedNew c sqrt fm cs fb s target) (-pwrNegMax cs)) (pwrPosMax cs s) := by
    show whlOf cs s _ = _
    unfold whlOf; rw [mn_eq_min, mx_eq_max]
  refine ⟨hpos, hneg, ?_, ?_, fC, hw, h1, h2⟩
  · rw [hw]; exact le_min (le_max_right _ _) (by linarith)
  · rw [hw]; exact min_le_right _ _

example : ∃ fb' bp' s', slRequiredPwr Ex.cQ Ex.sqrtQ 1000 Ex.csO Ex.fbQ Ex.bpQ Ex.sO = .ok (fb', bp', s') ∧
    s'.k.pwrWhlOut = -2020 ∧ pwrPosMax Ex.csO Ex.sO = 10500 ∧ pwrNegMax Ex.csO = 2100 := by
  obtain ⟨fb', bp', s', h, _, _, _, _, _, _, _, hw, _⟩ := C03_never_overspeeds_counterexample_run
  exact ⟨fb', bp', s', h, hw, by decide +kernel, by decide +kernel⟩

/-! ## §7  Closing the loop on the `idx_curr` precondition -/

/-- **The position advances by the trapezoid rule and never moves back while both speeds are
    non-negative**, so the precondition of `C03_calcSpeeds_spec` holds again for the next step
    (`C03_step_pre_preserved`).  `speed0` is the un-snapped new speed. -/
def C03_offset_advance_statement : Prop :=
  ∀ (c : TrConsts α) (sqrt : α → α) (fm : α) (cs : ConsistState α) (fb fb' : FricBrake α)
    (bp bp' : BrakingPoints α) (s s' : TrainState α),
    slRequiredPwr c sqrt fm cs fb bp s = .ok (fb', bp', s') →
    c.half = 1 / 2 →
      s'.r.offset = s.r.offset + s.k.dt * ((s.r.speed + speed0 c sqrt fm cs fb s s'.k.speedTarget) / 2) ∧
      s'.r.offsetBack = s'.r.offset - s.r.length ∧ s'.k.time = s.k.time + s.k.dt ∧
      (0 ≤ s.k.dt → 0 ≤ s.r.speed → 0 ≤ speed0 c sqrt fm cs fb s s'.k.speedTarget →
        s.r.offset ≤ s'.r.offset)

theorem C03_offset_advance : C03_offset_advance_statement (α := α) := by
  intro c sqrt fm cs fb fb' bp bp' s s' h hhalf
  obtain ⟨limit, target, fC, _, _, _, _, _, _, _, rfl⟩ := slRequiredPwr_inv h
  have hoff : (mkState c sqrt fm cs fb s target limit
      (whlOf cs s (fC * speedNew c sqrt fm cs fb s target))).r.offset =
      s.r.offset + s.k.dt * ((s.r.speed + speed0 c sqrt fm cs fb s target) / 2) := by
    show s.r.offset + s.k.dt * (s.r.speed + c.half * dv c sqrt fm cs fb s target) = _
    rw [hhalf]; unfold speed0; ring
  refine ⟨hoff, rfl, rfl, ?_⟩
  intro hdt hv h0
  rw [hoff]
  change 0 ≤ speed0 c sqrt fm cs fb s target at h0
  have : 0 ≤ s.k.dt * ((s.r.speed + speed0 c sqrt fm cs fb s target) / 2) :=
    mul_nonneg hdt (by linarith)
  linarith

/-- **One accepted step re-establishes everything `calc_speeds` needs for the next one**, as long as
    the train does not move backwards within the step. -/
def C03_step_pre_preserved_statement : Prop :=
  ∀ (c : TrConsts α) (sqrt : α → α) (fm : α) (cs : ConsistState α) (fb fb' : FricBrake α)
    (bp bp' : BrakingPoints α) (s s' : TrainState α) (pc : BrakingPoint α),
    slRequiredPwr c sqrt fm cs fb bp s = .ok (fb', bp', s') →
    BPInvW bp.points → bp.points[bp.idxCurr]? = some pc → pc.off ≤ s.r.offset →
    c.half = 1 / 2 → 0 ≤ s.k.dt → 0 ≤ s.r.speed →
    0 ≤ speed0 c sqrt fm cs fb s s'.k.speedTarget →   -- FORCED: see `C03_nonneg_counterexample`
      BPInvW bp'.points ∧ bp'.points = bp.points ∧ bp'.idxCurr ≤ bp.idxCurr ∧
      ∃ pc', bp'.points[bp'.idxCurr]? = some pc' ∧ pc'.off ≤ s'.r.offset

theorem C03_step_pre_preserved : C03_step_pre_preserved_statement (α := α) := by
  intro c sqrt fm cs fb fb' bp bp' s s' pc h hinv hpc hoff hhalf hdt hv h0
  obtain ⟨_, _, _, hadv⟩ := C03_offset_advance c sqrt fm cs fb fb' bp bp' s s' h hhalf
  obtain ⟨limit, target, fC, hcs, _⟩ := slRequiredPwr_inv h
  obtain ⟨hi, hle, hp⟩ := C03_calcSpeeds_pre_preserved bp bp' s.r.offset s'.r.offset s.r.speed _ limit target
    pc hinv hpc hoff hcs (hadv hdt hv h0)
  exact ⟨hi, (C03_calcSpeeds_ok bp bp' _ _ _ limit target pc hinv hpc hoff hcs).1, hle, hp⟩

example : ∃ fb' bp' s', slRequiredPwr Ex.cQ Ex.sqrtQ 1000 Ex.csA Ex.fbQ Ex.bpQ Ex.sA = .ok (fb', bp', s') ∧
    BPInvW Ex.bpQ.points ∧ Ex.bpQ.points[Ex.bpQ.idxCurr]? = some ⟨0, 20, 20⟩ ∧ (0 : ℚ) ≤ Ex.sA.r.offset ∧
    Ex.cQ.half = 1 / 2 ∧ 0 ≤ Ex.sA.k.dt ∧ 0 ≤ Ex.sA.r.speed ∧
    0 ≤ speed0 Ex.cQ Ex.sqrtQ 1000 Ex.csA Ex.fbQ Ex.sA 20 ∧ s'.k.speedTarget = 20 ∧
    s'.r.offset = 2039/2 := by
  obtain ⟨x, h, hp⟩ := okAnd_exists (r := slRequiredPwr Ex.cQ Ex.sqrtQ 1000 Ex.csA Ex.fbQ Ex.bpQ Ex.sA)
    (p := fun x : Ex.Out => decide (x.2.2.k.speedTarget = 20 ∧ x.2.2.r.offset = 2039/2)) (by decide +kernel)
  obtain ⟨fb', bp', s'⟩ := x
  have := of_decide_eq_true hp
  exact ⟨fb', bp', s', h, Ex.bpQ_inv.weak, rfl, by decide +kernel, by decide +kernel, by decide +kernel,
    by decide +kernel, by decide +kernel, this.1, this.2⟩

/-! ## §8  `BrakingPoints::recalc` (model: `Altrios/Braking.lean`) -/

/-- **`recalc_inv`.**  Whatever `recalc` returns (any track, any speed points, any fuel)
    * is non-empty, with `idx_curr` on its last point,
    * starts with `(offset_end, 0, 0)`,
    * has `0 ≤ target ≤ limit` at EVERY point — this is where the repaired line
      `speed_target: bp_curr.speed_target.min(speed_limit)` matters
      (`C03_recalc_unrepaired_counterexample`),
    * ends with the FIRST speed point `(offset, |limit|, |limit|)` (or is just the first point when
      there are no speed points).
    Hence `BPInvW`, all that `C03_calcSpeeds_safe` / `C03_target_le_limit` need.
    `0 ≤ dt` and `0 < mass_compound` are FORCED: with `dt·(F + res)/m < 0` the first curve point gets
    `limit < 0 = target`.
    NOT part of the invariant, because FALSE: monotone offsets (`C03_recalc_offsets_not_monotone`),
    `limit ≤` the posted limit at the point's position (`C03_recalc_limit_above_posted`,
    `C03_recalc_skips_short_restriction`). -/
def C03_recalc_inv_statement : Prop :=
  ∀ (half g rho : α) (grades curves : List (PRC α)) (sps : List (Pt α)) (offsetBegin offsetEnd : α)
    (strap : ResStrap α) (s : TrainState α) (forceMax : α) (curveFuel : Nat) (bp : BrakingPoints α),
    recalc half g rho grades curves sps offsetBegin offsetEnd strap s forceMax curveFuel = .ok bp →
    0 ≤ s.k.dt →            -- FORCED
    0 < massCompound s →    -- FORCED
      BPInvW bp.points ∧ bp.idxCurr = bp.points.length - 1 ∧
      bp.points[0]? = some ⟨offsetEnd, 0, 0⟩ ∧
      (∀ sp, sps[0]? = some sp → bp.points[bp.idxCurr]? = some ⟨sp.off, |sp.spd|, |sp.spd|⟩) ∧
      (sps = [] → bp.points = [⟨offsetEnd, 0, 0⟩])

theorem getElem?_reverse_last (a : BrakingPoint α) (l : List (BrakingPoint α)) :
    (a :: l).reverse[(a :: l).reverse.length - 1]? = some a := by
  simp

theorem C03_recalc_inv : C03_recalc_inv_statement (α := α) := by
  intro half g rho grades curves sps offsetBegin offsetEnd strap s forceMax curveFuel bp h hdt hm
  unfold recalc recalcWith at h
  simp only [bind_ok, pure_ok] at h
  obtain ⟨⟨strap1, r1⟩, hu, st', hout, rfl⟩ := h
  have hmass : r1.massStatic = s.r.massStatic := updateRes_massStatic hu
  have hinv0 : RcInv s.r.massStatic
      ({ idx := sps.length, r := r1, strap := strap1, last := ⟨offsetEnd, 0, 0⟩, rest := [] } : RcState α) := by
    refine ⟨?_, hmass⟩
    intro p hp
    simp only [List.mem_cons, List.not_mem_nil, or_false] at hp
    subst hp; exact ⟨le_refl _, le_refl _⟩
  obtain ⟨hI, ⟨l, hl⟩, hz, hpos⟩ := recalcOuter_inv half g rho grades curves sps offsetBegin forceMax
    s.k.dt s.k.massRot s.r.massStatic hdt hm curveFuel _ _ _ hout hinv0
  refine ⟨⟨by simp, ?_⟩, rfl, ?_, ?_, ?_⟩
  · intro p hp
    exact hI.bounds p (List.mem_reverse.mp hp)
  · show (st'.last :: st'.rest).reverse[0]? = _
    rw [hl]; simp
  · intro sp hsp
    have hlen : 0 < sps.length := (List.getElem?_eq_some_iff.mp hsp).1
    obtain ⟨sp', hsp', hlast⟩ := hpos hlen
    rw [hsp] at hsp'; cases hsp'
    show (st'.last :: st'.rest).reverse[(st'.last :: st'.rest).reverse.length - 1]? = _
    rw [getElem?_reverse_last, hlast, absv_eq_abs]
  · intro hnil
    have : st' = _ := hz (by simp [hnil])
    show (st'.last :: st'.rest).reverse = _
    rw [this]; rfl

/-- after `recalc`, `calc_speeds` may be called for any train position at or after the first speed
    point: the `idx_curr` precondition of `C03_calcSpeeds_safe` holds -/
theorem C03_recalc_establishes_pre
    (half g rho : α) (grades curves : List (PRC α)) (sps : List (Pt α)) (offsetBegin offsetEnd : α)
    (strap : ResStrap α) (s : TrainState α) (forceMax : α) (curveFuel : Nat) (bp : BrakingPoints α)
    (h : recalc half g rho grades curves sps offsetBegin offsetEnd strap s forceMax curveFuel = .ok bp)
    (hdt : 0 ≤ s.k.dt) (hm : 0 < massCompound s) (sp : Pt α) (hsp : sps[0]? = some sp)
    (offset : α) (hoff : sp.off ≤ offset) :
    BPInvW bp.points ∧ ∃ pc, bp.points[bp.idxCurr]? = some pc ∧ pc.off ≤ offset := by
  obtain ⟨hW, _, _, hlast, _⟩ := C03_recalc_inv half g rho grades curves sps offsetBegin offsetEnd strap s
    forceMax curveFuel bp h hdt hm
  exact ⟨hW, _, hlast sp hsp, hoff⟩

/-! ### `ℚ` fixtures for §8: flat track, no resistance, 1000 kg, `dt = 1`, 5000 N of brake:
    every curve step changes the speed by exactly 5 m/s -/
namespace Ex

def flatQ : List (PRC ℚ) := [⟨-5000, 0, 0⟩, ⟨20000, 0, 0⟩]
def strapQ : ResStrap ℚ := ⟨0, 0, 0, 0, ⟨0, 0⟩, ⟨0, 0⟩⟩
def sRQ : TrainState ℚ :=
  ⟨⟨100, 0, 5, 100, 950, 9500, 0, 0, 0, 0, 0, 0, 0, 0, 0⟩, ⟨0, 0, 0, 0, 5, 5, 1, 50, 0, 0, 0, 0, 0, 0, 0⟩⟩
/-- `recalc` on the fixture: speed points `sps`, path `[0, e]` -/
def runQ (sps : List (Pt ℚ)) (e : ℚ) : Res (BrakingPoints ℚ) :=
  recalc (1/2) (98/10) (1225/1000) flatQ flatQ sps 0 e strapQ sRQ 5000 1000
/-- the same with the UNREPAIRED target rule `speed_target: bp_curr.speed_target` -/
def runOldQ (sps : List (Pt ℚ)) (e : ℚ) : Res (BrakingPoints ℚ) :=
  recalcWith (fun t _ => t) (1/2) (98/10) (1225/1000) flatQ flatQ sps 0 e strapQ sRQ 5000 1000

/-- posted limits 5 on [0,450), 30 on [450,500), 10 from 500; end of path 600 -/
def spsA : List (Pt ℚ) := [⟨0, 5⟩, ⟨450, 30⟩, ⟨500, 10⟩]
def outA : List (BrakingPoint ℚ) :=
  [⟨600, 0, 0⟩, ⟨1195/2, 5, 0⟩, ⟨590, 10, 0⟩, ⟨580, 10, 0⟩, ⟨500, 10, 10⟩, ⟨975/2, 15, 10⟩, ⟨470, 20, 10⟩,
   ⟨895/2, 25, 10⟩, ⟨885/2, 5, 5⟩, ⟨875/2, 5, 5⟩, ⟨0, 5, 5⟩]
def outAOld : List (BrakingPoint ℚ) :=
  [⟨600, 0, 0⟩, ⟨1195/2, 5, 0⟩, ⟨590, 10, 0⟩, ⟨580, 10, 0⟩, ⟨500, 10, 10⟩, ⟨975/2, 15, 10⟩, ⟨470, 20, 10⟩,
   ⟨895/2, 25, 10⟩, ⟨885/2, 5, 10⟩, ⟨875/2, 5, 10⟩, ⟨0, 5, 5⟩]

end Ex

/-- non-vacuity of `C03_recalc_inv` -/
example : Ex.runQ Ex.spsA 600 = .ok ⟨Ex.outA, 10⟩ ∧ 0 ≤ Ex.sRQ.k.dt ∧ 0 < massCompound Ex.sRQ := by
  refine ⟨by decide +kernel, by decide +kernel, by decide +kernel⟩

/-- **The repaired defect, documented.**  WITHOUT `.min(speed_limit)` the braking curve that rises
    from the 10 m/s stretch breaks into the slower 5 m/s stretch upstream with its old target:
    points `(442.5, limit 5, target 10)` and `(437.5, 5, 10)` violate `target ≤ limit`, and
    `calc_speeds` hands the controller a target of 10 m/s where the limit in force is 5 m/s.
    WITH the repair the same input gives `(442.5, 5, 5)`, `(437.5, 5, 5)`. -/
theorem C03_recalc_unrepaired_counterexample :
    Ex.runOldQ Ex.spsA 600 = .ok ⟨Ex.outAOld, 10⟩ ∧
    Ex.outAOld[8]? = some ⟨885/2, 5, 10⟩ ∧ ¬ ((10 : ℚ) ≤ 5) ∧
    calcSpeeds ⟨Ex.outAOld, 10⟩ 443 5 5 = .ok (⟨Ex.outAOld, 8⟩, 5, 10) ∧
    Ex.runQ Ex.spsA 600 = .ok ⟨Ex.outA, 10⟩ ∧
    calcSpeeds ⟨Ex.outA, 10⟩ 443 5 5 = .ok (⟨Ex.outA, 8⟩, 5, 5) := by
  refine ⟨by decide +kernel, rfl, by norm_num, by decide +kernel, by decide +kernel, by decide +kernel⟩

/-- **FINDING (model): the limit handed out can exceed the POSTED limit.**  In the repaired output
    above the curve point `(447.5, limit 25)` — the last one generated under the 30 m/s stretch —
    lies 2.5 m inside the 5 m/s stretch `[0, 450)`: at offset 448 the posted limit is 5 but
    `calc_speeds` answers limit 25 (target 10) and accepts a speed of 25 m/s without asserting.
    (Up to one curve step `dt·v` of early acceleration when LEAVING a slow stretch.) -/
theorem C03_recalc_limit_above_posted :
    Ex.runQ Ex.spsA 600 = .ok ⟨Ex.outA, 10⟩ ∧
    SP.val Ex.spsA 448 = 5 ∧
    calcSpeeds ⟨Ex.outA, 10⟩ 448 25 5 = .ok (⟨Ex.outA, 7⟩, 25, 10) := by
  refine ⟨by decide +kernel, by decide +kernel, by decide +kernel⟩

namespace Ex
/-- posted limits 5 on [0,400), 30 on [400,500), 10 from 500 -/
def spsB : List (Pt ℚ) := [⟨0, 5⟩, ⟨400, 30⟩, ⟨500, 10⟩]
def outB : List (BrakingPoint ℚ) :=
  [⟨600, 0, 0⟩, ⟨1195/2, 5, 0⟩, ⟨590, 10, 0⟩, ⟨580, 10, 0⟩, ⟨500, 10, 10⟩, ⟨975/2, 15, 10⟩, ⟨470, 20, 10⟩,
   ⟨895/2, 25, 10⟩, ⟨420, 30, 10⟩, ⟨390, 30, 10⟩, ⟨400, 30, 30⟩, ⟨0, 5, 5⟩]
/-- a 5 m long 5 m/s restriction on [440,445) inside a 30 m/s stretch, 10 m/s from 500 -/
def spsC : List (Pt ℚ) := [⟨0, 30⟩, ⟨440, 5⟩, ⟨445, 30⟩, ⟨500, 10⟩]
def outC : List (BrakingPoint ℚ) :=
  [⟨600, 0, 0⟩, ⟨1195/2, 5, 0⟩, ⟨590, 10, 0⟩, ⟨580, 10, 0⟩, ⟨500, 10, 10⟩, ⟨975/2, 15, 10⟩, ⟨470, 20, 10⟩,
   ⟨895/2, 25, 10⟩, ⟨420, 30, 10⟩, ⟨390, 30, 10⟩, ⟨0, 30, 30⟩]
end Ex

/-- **FINDING (model): the offsets produced by `recalc` are NOT monotone.**  The curve's closing
    point `(390, 30, 10)` overshoots the speed point `(400, 30, 30)` that is pushed right after it.
    So `BPInv` (ordering) is NOT an invariant of `recalc`; DESIGN.md's "strictly decreasing offsets"
    is false.  Harmless for `calc_speeds`' safety (`C03_calcSpeeds_safe` needs `BPInvW` only), but
    the speed point `(400, 30, 30)` can never be the bracket: between 390 and 420 the target stays 10. -/
theorem C03_recalc_offsets_not_monotone :
    Ex.runQ Ex.spsB 600 = .ok ⟨Ex.outB, 11⟩ ∧
    ¬ Ex.outB.Pairwise (fun a b => b.off ≤ a.off) ∧ ¬ BPInv Ex.outB ∧ BPInvW Ex.outB := by
  have hno : ¬ Ex.outB.Pairwise (fun a b => b.off ≤ a.off) := by unfold Ex.outB; decide +kernel
  refine ⟨by decide +kernel, hno, fun h => hno h.mono, ⟨by simp [Ex.outB], ?_⟩⟩
  unfold Ex.outB; decide +kernel

/-- **FINDING (model): a restriction shorter than one curve step is skipped altogether.**  The curve
    steps from 447.5 to 420 over the 5 m/s restriction `[440, 445)`; the inner
    `while bp_curr.offset <= speed_points[idx].offset { idx -= 1 }` skips BOTH of its speed points, no
    braking point carries the limit 5, and at offset 442 (posted limit 5) `calc_speeds` answers limit
    30 and lets a train doing 30 m/s pass without asserting. -/
theorem C03_recalc_skips_short_restriction :
    Ex.runQ Ex.spsC 600 = .ok ⟨Ex.outC, 10⟩ ∧
    SP.val Ex.spsC 442 = 5 ∧ (∀ p ∈ Ex.outC, p.limit ≠ 5 ∨ 580 < p.off) ∧
    calcSpeeds ⟨Ex.outC, 10⟩ 442 30 1 = .ok (⟨Ex.outC, 8⟩, 30, 10) := by
  refine ⟨by decide +kernel, by decide +kernel, by unfold Ex.outC; decide +kernel, by decide +kernel⟩

/-- **FINDING (model): `recalc` can panic.**  A curve point that lands EXACTLY on the first speed
    point's offset (here `(0, 30, 10)` with `offset_begin = 0`) is not `< offset_begin`, so the loop
    goes round once more and `while bp_curr.offset <= speed_points[0].offset { idx -= 1 }`
    underflows `idx` (`attempt to subtract with overflow` / index out of bounds). -/
theorem C03_recalc_panic_counterexample :
    Ex.runQ [⟨0, 30⟩, ⟨80, 10⟩] 180 = .panic "underflow" := by
  decide +kernel

/-!
  ## What is NOT proved (and why)

  * The closed-loop statement "for every accepted simulation the speed at every step is within
    `[0, limit]`" is FALSE in the model: `C03_never_overspeeds_counterexample`,
    `C03_never_reverses_counterexample`.  What holds per step is `C03_step_le_limit` (brakes not
    saturated) and `C03_nonneg_partial` (tractive deficit smaller than the speed).
  * That the braking curve built by `recalc` always leaves enough ramped braking force between curve
    points (varying resistance, ramping brake, time-step phase), i.e. that hypothesis
    `lowClip ≤ fTarget` of `C03_step_le_limit` holds along a whole run, is not proved — and is false
    on real inputs (the assertion is reachable in the Rust code).
  * Termination of `walk_internal` and `offset ≤ offset_end` at exit (`C03_walk_exit` shows the loop
    also exits with the train past the end and still moving).  §5b proves the repaired loop ends at the first stuck
    pair and changes no run that ended before; that the REAL `step()` leaves a stuck state unchanged (position, speed,
    target) — the hypothesis `E s s'` of `C03_walk_old_diverges` — is checked by the harness on every detected case
    (`stopped_short_is_fixed_point`), not proved of `slStep`; and nothing bounds the number of steps of a train that
    keeps moving.
  * For `recalc`: that every point's `limit` is at most the POSTED limit at the point's position is
    FALSE in the model (§8), so "not above the limit in force at its position (posted restrictions…)"
    does not follow from the braking-point limit even where that one is respected; termination of the
    curve loop (it needs `dt > 0` and growing speeds) is not proved — the model takes fuel.
-/

end Altrios.Proofs.C03
