import Altrios.Dispatch
import Proofs.Lemmas.DispL
import Mathlib.Data.ENat.Basic
/-
  C04 — "Dispatch never authorises conflicting occupancy of a track segment".   (PARTIAL)

  What is modelled (`Altrios/Dispatch.lean`): the authority table of `run_dispatch`, every way
  `TrainDisp::advance / rewind / update_occupancy` changes it (`Op`, `step`), and the time gate of
  `advance` (`gate`, transcribed literally).  What is NOT modelled: the routing search
  (`update_free_path`, `check_deadlock`) that decides which train moves next and over which nodes.

  What is proved, for ALL tables, networks, operation sequences and time values:
    * `planOk` decides exactly the specification `Spec` of a conflict-free table
      (opposing / mutually exclusive windows disjoint, headway, no order change);
    * every table operation whose side condition `pre` holds keeps `Spec`; the side conditions of an
      entry are delivered by the literal `gate` (`C04_gate`); hence ANY interleaving of operations —
      whatever the routing search does — keeps every intermediate table conflict-free (`C04_partial`).
  The side conditions are evaluated by the driver on every operation the real code performs
  (correspondence op `c04_step`); they are observed, not proved, for the real code.

  Where the code does NOT meet a side condition (`fin` while the train ahead is still in the link) the
  statement is false of the model: `C04_counterexample` (known finding "early exit behind a leader").
  The literal reading "consecutive authorities on a link are always a headway apart" is false too,
  by design of the gate (an opposing move in between): `C04_strict_headway_counterexample`.
-/
namespace Altrios.Proofs.C04
open Altrios Altrios.Dispatch Altrios.Proofs.DispL

variable {τ : Type} [LinearOrder τ] [Add τ]

/-! ## 1. The decision procedure is the specification -/

def C04_planOk_iff_spec_statement (τ : Type) [LinearOrder τ] [Add τ] : Prop :=
  ∀ (net : Net) (spacing inf : τ) (tbl : Table τ),
    planOk net spacing inf tbl = true ↔ Spec net spacing inf tbl

theorem C04_planOk_iff_spec : C04_planOk_iff_spec_statement τ :=
  fun net spacing inf tbl => planOk_iff_spec net spacing inf tbl

/-- The specification in the words of the property: for a table satisfying `Spec`,
    (1) authorities on a link and on its flipped link never overlap in time,
    (2) nor do authorities on links declared mutually exclusive,
    (3) consecutive authorities on one directed link keep the headway at entry (behind the leader's
        tail, or the leader has left the link) and at exit (unless the follower terminated there),
    (4) and enter / have their tails enter / have their tails leave in the order they were granted. -/
def C04_spec_meaning_statement (τ : Type) [LinearOrder τ] [Add τ] : Prop :=
  ∀ (net : Net) (spacing overlap inf : τ) (tbl : Table τ), TimeAx inf spacing overlap →
    Spec net spacing inf tbl →
    (∀ L, ∀ a ∈ link tbl L, ∀ b ∈ link tbl (net.flip L), Disj a b) ∧
    (∀ L, ∀ M ∈ net.lockouts L, ∀ a ∈ link tbl L, ∀ b ∈ link tbl M, Disj a b) ∧
    (∀ L k x y, authAt tbl L k = some x → authAt tbl L (k + 1) = some y →
      (x.ce + spacing ≤ y.ae ∨ x.cx ≤ y.ae) ∧ (x.cx + spacing ≤ y.ax ∨ y.ax = y.cx) ∧
      x.ae ≤ y.ae ∧ x.ce ≤ y.ce ∧ x.cx ≤ y.cx)

theorem C04_spec_meaning : C04_spec_meaning_statement τ := by
  intro net spacing overlap inf tbl hax h
  refine ⟨?_, ?_, ?_⟩
  · intro L a ha b hb
    exact h.excl L _ (List.mem_cons_self) a ha b hb
  · intro L M hM a ha b hb
    exact h.excl L M (List.mem_cons_of_mem _ hM) a ha b hb
  · intro L k x y hx hy
    have hs := h.seq_at hx hy
    obtain ⟨o1, o2, o3⟩ := h.order hax hx hy
    exact ⟨hs.entry, hs.exit, o1, o2, o3⟩

/-! ## 2. Every table operation keeps the specification -/

/-- One operation (push at a gated time / close / early exit / pop / reset).
    Hypotheses: `TimeAx` (adding the headway or the lockout margin is monotone and does not decrease a
    time; `inf` is the greatest time), `NetOk` (FORCED: with an asymmetric lockout declaration the
    gate of the undeclared side does not look at the other link), `pre` (FORCED clause by clause: see
    the counterexamples below for the two that the code does not establish by itself). -/
def C04_step_statement (τ : Type) [LinearOrder τ] [Add τ] : Prop :=
  ∀ (net : Net) (spacing overlap inf : τ) (tbl tbl' : Table τ) (op : Op τ),
    TimeAx inf spacing overlap → NetOk net → Spec net spacing inf tbl →
    pre net spacing overlap inf tbl op = true → step inf tbl op = some tbl' →
    Spec net spacing inf tbl'

theorem C04_step : C04_step_statement τ :=
  fun _ _ _ _ _ _ op hax hnet h hpre hstep => step_preserves hax hnet h op hpre hstep

/-- `pushArrive_preserves`: an entry at a finite time that respects the gate -/
theorem C04_pushArrive_preserves {net : Net} {spacing overlap inf : τ} {tbl : Table τ}
    (hax : TimeAx inf spacing overlap) (hnet : NetOk net) (h : Spec net spacing inf tbl)
    {L train : Nat} {t : τ} (hL0 : L ≠ 0) (hL : L < tbl.length) (hfin : t < inf)
    (hg : entryOk net spacing overlap tbl L t = true) :
    Spec net spacing inf (tbl.set L (link tbl L ++ [fresh inf t train])) :=
  push_preserves hax hnet h hL0 hL hfin hg

/-- `closeClear_preserves`: the tail leaves a link -/
theorem C04_closeClear_preserves {net : Net} {spacing overlap inf : τ} {tbl : Table τ}
    (hax : TimeAx inf spacing overlap) (hnet : NetOk net) (h : Spec net spacing inf tbl)
    {L i : Nat} {t : τ} {a : Auth τ} (hL0 : L ≠ 0) (ha : authAt tbl L i = some a)
    (h1 : a.ce ≤ t) (h2 : a.ax ≤ t) (h3 : t ≤ a.cx) :
    Spec net spacing inf (tbl.set L ((link tbl L).set i { a with cx := t })) :=
  setCx_preserves hax hnet h hL0 ha h1 h2 h3

/-- `popArrive_preserves`: rewinding an entry -/
theorem C04_popArrive_preserves {net : Net} {spacing inf : τ} {tbl : Table τ} (hnet : NetOk net)
    (h : Spec net spacing inf tbl) {L : Nat} (hL0 : L ≠ 0) (hlen : 2 ≤ (link tbl L).length) :
    Spec net spacing inf (tbl.set L (link tbl L).dropLast) :=
  pop_preserves hnet h hL0 hlen

/-! ## 3. The gate of `advance` delivers the side condition of an entry -/

/-- Any entry time `t ≥ gate …` — for every running time `t0` of the train itself and every
    non-negative start-up time — satisfies `entryOk`, is not before `t0`, and is a headway behind
    the tail-exit of the train ahead on the link the front leaves (the side condition of `setAx`). -/
def C04_gate_statement (τ : Type) [LinearOrder τ] [Add τ] : Prop :=
  ∀ (net : Net) (spacing overlap startup : τ) (tbl : Table τ) (L : Nat) (t0 g t : τ)
    (front : Option (Nat × Nat)),
    (∀ a : τ, a ≤ a + startup) → L ≠ 0 →
    gate net spacing overlap startup tbl L t0 front = some g → g ≤ t →
    entryOk net spacing overlap tbl L t = true ∧ t0 ≤ t ∧
      ∀ Lx ix, front = some (Lx, ix) → 1 ≤ ix ∧
        ∃ p, authAt tbl Lx (ix - 1) = some p ∧ p.cx + spacing ≤ t

theorem C04_gate : C04_gate_statement τ :=
  fun _ _ _ _ _ _ _ _ _ _ hst hL0 hg ht => gate_sound hst hL0 hg ht

/-! ## 4. Any interleaving: safety does not depend on the routing search -/

/-- the table `run_dispatch` starts from: `n` links, each list holding the sentinel -/
def initTable (n : Nat) (neg : τ) : Table τ := List.replicate n [⟨neg, neg, neg, neg, 0⟩]

theorem spec_init (net : Net) (spacing inf neg : τ) (n : Nat) (hneg : neg < inf) :
    Spec net spacing inf (initTable n neg) := by
  have hl : ∀ L, ∀ a ∈ link (initTable n neg) L, a = ⟨neg, neg, neg, neg, 0⟩ := by
    intro L a ha
    by_cases hL : L < n
    · have e : link (initTable n neg) L = [⟨neg, neg, neg, neg, 0⟩] := by
        unfold link initTable
        rw [List.getD_eq_getElem?_getD, List.getElem?_replicate]; simp [hL]
      rw [e] at ha; simpa using ha
    · rw [link_of_le (by simpa [initTable] using not_lt.mp hL)] at ha; cases ha
  refine ⟨?_, ?_, ?_⟩
  · intro L a ha
    rw [hl L a ha]; exact ⟨le_refl _, le_refl _, le_refl _, hneg⟩
  · intro L i hi
    by_cases hL : L < n
    · have e : link (initTable n neg) L = [⟨neg, neg, neg, neg, 0⟩] := by
        unfold link initTable
        rw [List.getD_eq_getElem?_getD, List.getElem?_replicate]; simp [hL]
      rw [e] at hi; simp at hi
    · rw [link_of_le (by simpa [initTable] using not_lt.mp hL)] at hi; simp at hi
  · intro L M _ a ha b hb
    rw [hl L a ha]; exact Or.inl (le_refl _)

/-- **C04, full statement (about the pinned code).**  Start from the empty table and perform any
    sequence of table operations that satisfy the side conditions the code itself establishes
    (`preCode`: gated finite entry times, a train's own event times do not run backwards, rewinds
    undo the train's latest un-fixed moves).  Then every table met on the way is conflict-free.
    FALSE: `C04_counterexample`. -/
def runCode (net : Net) (spacing overlap inf : τ) : Table τ → List (Op τ) → Option (Bool × Table τ)
  | tbl, [] => some (true, tbl)
  | tbl, op :: ops =>
    match step inf tbl op with
    | none => none
    | some tbl' =>
      match runCode net spacing overlap inf tbl' ops with
      | none => none
      | some (ok, t) => some (preCode net spacing overlap inf tbl op && ok, t)

def C04_statement (τ : Type) [LinearOrder τ] [Add τ] : Prop :=
  ∀ (net : Net) (spacing overlap inf neg : τ) (n : Nat) (ops : List (Op τ)) (tbl' : Table τ),
    TimeAx inf spacing overlap → NetOk net → neg < inf →
    runCode net spacing overlap inf (initTable n neg) ops = some (true, tbl') →
    Spec net spacing inf tbl'

/-- **C04, partial.**  The same with `pre` instead of `preCode`, i.e. with ONE extra hypothesis: a train
    leaves the network with its tail on a link (`fin`) only after the train ahead of it on that link has
    left the link.  Then every table met on the way — every intermediate dispatch state and the final
    plan — is conflict-free, for any interleaving of advances and rewinds of any number of trains. -/
def C04_partial_statement (τ : Type) [LinearOrder τ] [Add τ] : Prop :=
  ∀ (net : Net) (spacing overlap inf neg : τ) (n : Nat) (ops : List (Op τ)) (tbl' : Table τ),
    TimeAx inf spacing overlap → NetOk net → neg < inf →
    run net spacing overlap inf (initTable n neg) ops = some (true, tbl') →
    ∀ t ∈ trace inf (initTable n neg) ops, Spec net spacing inf t

theorem C04_partial : C04_partial_statement τ := by
  intro net spacing overlap inf neg n ops tbl' hax hnet hneg hrun
  exact run_preserves hax hnet ops _ tbl' (spec_init net spacing inf neg n hneg) hrun

/-- the final table is among the tables met -/
theorem trace_last_mem {inf : τ} {net : Net} {spacing overlap : τ} :
    ∀ (ops : List (Op τ)) (tbl tbl' : Table τ) (ok : Bool),
      run net spacing overlap inf tbl ops = some (ok, tbl') → tbl' ∈ trace inf tbl ops := by
  intro ops
  induction ops with
  | nil => intro tbl tbl' ok h; simp only [run, Option.some.injEq, Prod.mk.injEq] at h; simp [trace, h.2]
  | cons op ops ih =>
    intro tbl tbl' ok h
    simp only [run] at h
    cases hs : step inf tbl op with
    | none => simp [hs] at h
    | some t1 =>
      simp only [hs] at h
      cases hr : run net spacing overlap inf t1 ops with
      | none => simp [hr] at h
      | some r =>
        obtain ⟨ok2, t2⟩ := r
        simp only [hr, Option.some.injEq, Prod.mk.injEq] at h
        simp only [trace, hs, List.mem_cons]
        exact Or.inr (h.2 ▸ ih t1 t2 ok2 hr)

theorem C04_partial_final {net : Net} {spacing overlap inf neg : τ} {n : Nat} {ops : List (Op τ)}
    {tbl' : Table τ} (hax : TimeAx inf spacing overlap) (hnet : NetOk net) (hneg : neg < inf)
    (hrun : run net spacing overlap inf (initTable n neg) ops = some (true, tbl')) :
    planOk net spacing inf tbl' = true :=
  (planOk_iff_spec _ _ _ _).mpr
    (C04_partial net spacing overlap inf neg n ops tbl' hax hnet hneg hrun tbl'
      (trace_last_mem ops _ tbl' true hrun))

/-! ## 4b. `links_blocked` delivers "not currently held" to the routing search -/

/-- If `links_blocked` covers the table (`blockedOk`, evaluated on every snapshot of the real run) and a
    real link `x` is not marked blocked, then no authority on any link that conflicts with `x` is still
    held: all of them have a finite `clear_exit`, so the gate of `x` is finite. -/
def C04_blocked_sound_statement (τ : Type) [LinearOrder τ] [Add τ] : Prop :=
  ∀ (net : Net) (inf : τ) (tbl : Table τ) (blocked : List Nat) (x y : Nat),
    blockedOk net inf tbl blocked = true → x ≠ 0 → blocked.getD x 0 = 0 → x ∈ net.conf y →
    ∀ a ∈ link tbl y, a.cx < inf

theorem C04_blocked_sound : C04_blocked_sound_statement τ := by
  intro net inf tbl blocked x y hb hx0 hbx hxy a ha
  unfold blockedOk at hb
  rw [List.all_eq_true] at hb
  have h1 := hb y (List.mem_range.mpr (lt_length_of_mem_link ha))
  rw [List.all_eq_true] at h1
  have h2 := h1 a ha
  rw [Bool.or_eq_true] at h2
  rcases h2 with h2 | h2
  · simpa using h2
  · rw [List.all_eq_true] at h2
    have h3 := h2 x hxy
    rw [List.getD_eq_getElem?_getD] at hbx
    simp [hx0] at h3
    exact absurd hbx h3

/-! ## 5. Concrete instances (times in ℕ∞ seconds, headway 480 s, lockout margin 30 s):
       non-vacuity of the hypotheses, and the two counterexamples -/

/-- links 1 ⇄ 2 are one physical segment (flip pair); link 3 is declared mutually exclusive with both -/
def exFlip : Nat → Nat
  | 1 => 2 | 2 => 1 | _ => 0
def exLock : Nat → List Nat
  | 1 => [3] | 2 => [3] | 3 => [1, 2] | _ => []
def exNet : Net := ⟨exFlip, exLock⟩

theorem exAx : TimeAx (⊤ : ℕ∞) 480 30 :=
  ⟨fun _ => le_top, fun _ _ h => add_le_add_left h _, fun _ => le_self_add, fun _ => le_self_add⟩

set_option linter.unnecessarySeqFocus false in
theorem exConf_small : ∀ K x, x ∈ exNet.conf K → x < 4 := by
  intro K x hx
  match K with
  | 0 | 1 | 2 | 3 | (k + 4) => simp [exNet, Net.conf, exFlip, exLock] at hx <;> omega

theorem exNetOk : NetOk exNet := by
  intro L hL
  match L with
  | 0 => exact absurd rfl hL
  | 1 | 2 | 3 =>
    refine ⟨by simp [exNet, Net.conf, exFlip, exLock], ?_⟩
    intro K hK
    match K with
    | 0 | 1 | 2 | 3 | (k + 4) => simp [exNet, Net.conf, exFlip, exLock] at hK ⊢
  | (l + 4) =>
    refine ⟨by simp [exNet, Net.conf, exFlip, exLock], ?_⟩
    intro K hK
    have := exConf_small K _ hK
    omega

/-- train 1 runs over link 1, train 2 then runs the other way over link 2, train 3 follows train 1
    over link 1 at 810 s — after the opposing train has left (800 s); train 4 crosses on link 3 behind
    it, is rewound, and enters again -/
def exOps : List (Op ℕ∞) :=
  [.push 1 1 500, .setCe 1 1 500, .setAx 1 1 600, .setCx 1 1 650,
   .push 2 2 700, .setCe 2 1 700, .setAx 2 1 760, .setCx 2 1 800,
   .push 1 3 810, .setCe 1 2 820, .setAx 1 2 1290, .setCx 1 2 1300,
   .push 3 4 1330, .setCe 3 1 1340, .rCe 3 1, .pop 3, .push 3 4 1400]

def exFinal : Table ℕ∞ := ((run exNet 480 30 ⊤ (initTable 4 (0 : ℕ∞)) exOps).getD (false, [])).2

/-- non-vacuity of `C04_partial` / `C04_step` / `C04_partial_final`: every hypothesis holds on a run with
    an opposing move, a following move, a lockout, a rewind -/
example : run exNet 480 30 ⊤ (initTable 4 (0 : ℕ∞)) exOps = some (true, exFinal) ∧ (0 : ℕ∞) < ⊤ :=
  ⟨by decide +kernel, by decide +kernel⟩

example : planOk exNet 480 (⊤ : ℕ∞) exFinal = true :=
  C04_partial_final exAx exNetOk (n := 4) (neg := 0) (ops := exOps) (by decide +kernel)
    (by decide +kernel)

/-- non-vacuity of `C04_gate`: the gate of link 1 after trains 1 and 2 is `800 + startup`, binding -/
example : gate exNet 480 30 5
    ((run exNet 480 30 ⊤ (initTable 4 (0 : ℕ∞)) (exOps.take 8)).getD (false, [])).2 1 0 none
    = some 805 := by decide +kernel

/-- **The pinned code violates C04** (model level; replayed on the real code by the harness, clause
    `early_exit_behind_leader`).  Train 1 is on link 1 (tail in at 500 s, still there).  Train 2 follows it
    into link 1 at 1000 s and terminates there at 1100 s (`fin`: its path ends on this link).  Its
    authority is now the LAST of link 1 and is closed, so the gate of the flipped link 2 sees
    `clear_exit = 1100` and lets train 3 enter link 2 at 1200 s — head-on against train 1. -/
def cexOps : List (Op ℕ∞) :=
  [.push 1 1 500, .setCe 1 1 500, .push 1 2 1000, .setCe 1 2 1000, .fin 1 2 1100, .push 2 3 1200]

def cexFinal : Table ℕ∞ :=
  ((runCode exNet 480 30 ⊤ (initTable 4 (0 : ℕ∞)) cexOps).getD (false, [])).2

theorem C04_counterexample : ¬ C04_statement ℕ∞ := by
  intro h
  have hs := h exNet 480 30 ⊤ 0 4 cexOps cexFinal exAx exNetOk (by decide +kernel)
    (by decide +kernel)
  have hp := (planOk_iff_spec _ _ _ _).mpr hs
  revert hp
  decide +kernel

/-- in that final table train 1 on link 1 and train 3 on link 2 hold the same physical segment during
    overlapping windows `[500, ∞)` and `[1200, ∞)` -/
theorem C04_counterexample_overlap :
    runCode exNet 480 30 ⊤ (initTable 4 (0 : ℕ∞)) cexOps = some (true, cexFinal) ∧
    authAt cexFinal 1 1 = some (⟨500, ⊤, 500, ⊤, 1⟩ : Auth ℕ∞) ∧
    authAt cexFinal 2 1 = some (⟨1200, ⊤, ⊤, ⊤, 3⟩ : Auth ℕ∞) ∧
    disjB (⟨500, ⊤, 500, ⊤, 1⟩ : Auth ℕ∞) ⟨1200, ⊤, ⊤, ⊤, 3⟩ = false :=
  ⟨by decide +kernel, by decide +kernel, by decide +kernel, by decide +kernel⟩

/-- the extra hypothesis of `C04_partial` is exactly what fails there -/
example : (run exNet 480 30 ⊤ (initTable 4 (0 : ℕ∞)) cexOps).map (·.1) = some false := by
  decide +kernel

/-- **Literal headway reading.**  "Consecutive authorities on one directed link are always a headway
    apart at entry" is NOT maintained by the gate, by design: after an opposing move the follower is
    gated by the opposing train's clear time only.  (`Seq.entry` is the clause that IS maintained.) -/
def C04_strict_headway_statement (τ : Type) [LinearOrder τ] [Add τ] : Prop :=
  ∀ (net : Net) (spacing overlap inf neg : τ) (n : Nat) (ops : List (Op τ)) (tbl' : Table τ),
    TimeAx inf spacing overlap → NetOk net → neg < inf →
    run net spacing overlap inf (initTable n neg) ops = some (true, tbl') →
    ∀ L k x y, 1 ≤ k → authAt tbl' L k = some x → authAt tbl' L (k + 1) = some y →
      x.ce + spacing ≤ y.ae

def shFinal : Table ℕ∞ :=
  ((run exNet 480 30 ⊤ (initTable 4 (0 : ℕ∞)) (exOps.take 9)).getD (false, [])).2

theorem C04_strict_headway_counterexample : ¬ C04_strict_headway_statement ℕ∞ := by
  intro h
  have := h exNet 480 30 ⊤ 0 4 (exOps.take 9) shFinal exAx exNetOk (by decide +kernel)
    (by decide +kernel) 1 1 ⟨500, 600, 500, 650, 1⟩ ⟨810, ⊤, ⊤, ⊤, 3⟩ (le_refl _)
    (by decide +kernel) (by decide +kernel)
  revert this
  decide +kernel

/-- non-vacuity of `C04_blocked_sound`: train 1 holds link 1; its flip 2 and its lockout 3 are marked -/
example : blockedOk exNet (⊤ : ℕ∞) [[⟨0, 0, 0, 0, 0⟩], [⟨0, 0, 0, 0, 0⟩, ⟨500, ⊤, 500, ⊤, 1⟩],
    [⟨0, 0, 0, 0, 0⟩], [⟨0, 0, 0, 0, 0⟩]] [0, 0, 1, 1] = true := by decide +kernel

end Altrios.Proofs.C04
