import Altrios.FreePath
import Proofs.Lemmas.PlanL
import Mathlib.Data.List.Basic
import Mathlib.Data.List.Perm.Basic
import Mathlib.Data.List.Chain
import Mathlib.Data.List.Nodup
import Mathlib.Tactic.SplitIfs
/-
  C05 — "Dispatch returns a complete, valid, memory-safe plan or an explicit error".   (PARTIAL)

  What is PROVED here (for all inputs, about the model `Altrios/FreePath.lean`, which the correspondence
  run ties to `meet_pass/train_disp/free_path.rs` and `meet_pass/dispatch.rs` op by op):

   1. BOUNDS.  The three `unsafe get_unchecked` sentinel searches (`calc_idx_sentinels`,
      `find_train_intersect`, `add_blocking_trains`, and the wrappers `add_all_blocking_trains`,
      `concat_train_idx_views`) never perform a raw access out of range and their loops terminate,
      whatever the arguments — the leading `assert!`s reject everything else — and the overwritten
      sentinel slot is restored.  One hypothesis is FORCED: in the `Range` arm `link_idx_min < 2^32`
      (`C05_find_train_intersect_unguarded_counterexample`); `LinkOptType::new`, the only producer of that
      value, establishes it (`C05_link_opt_new_bounded`).
   2. PLAN CHECKER.  `planOk` accepts exactly the plans described by the property (`PlanSpec`).
   3. ACCOUNTING.  In the outer loop of `run_dispatch`, with the routing search abstracted to an arbitrary
      list of answers, every train is at all times in exactly one of queue / parked / finished; when the
      queue is empty every train is finished or named in the error.

  What is NOT proved (searched by the harness on every run): termination of the outer loop and of the
  inner advance/rewind loop, absence of `assert!` panics inside `update_free_path` / `advance` / `rewind`,
  and that the plan returned by the real search satisfies `PlanSpec` (checked per run by `planOk` and by
  an independent Rust re-check).
-/
namespace Altrios.Proofs.C05
open Altrios Altrios.FreePath Altrios.Proofs.PlanL

/-! ## 1. Bounds of the sentinel searches -/

/-- memory-safe and terminating: the outcome is neither "raw access out of range" nor "out of fuel" -/
abbrev Safe {σ} (r : Out σ) : Prop := PlanL.Safe r

/-- `calc_idx_sentinels`, all arguments -/
def C05_calc_idx_sentinels_bounds_statement : Prop :=
  ∀ (divIdx s : Nat) (dn : List DivNode),
    Safe (calcIdxSentinels divIdx s dn) ∧
    -- the `assert` outcome is exactly the failure of one of the two leading `assert!`s
    (calcIdxSentinels divIdx s dn = .fault .assert ↔
      ¬ (divIdx < dn.length ∧ ∀ l, dn.getLast? = some l → l.1 = s))

theorem C05_calc_idx_sentinels_bounds : C05_calc_idx_sentinels_bounds_statement := by
  intro divIdx s dn
  refine ⟨calcIdxSentinels_safe divIdx s dn, ?_⟩
  constructor
  · intro h hpre
    obtain ⟨i, hi, _, _, _, hres⟩ := calcIdxSentinels_spec divIdx s dn hpre.1 hpre.2
    rcases hres with ⟨j, e, _⟩ | ⟨e, _⟩ <;> rw [e] at h <;> cases h
  · intro hpre
    unfold calcIdxSentinels
    by_cases h1 : divIdx < dn.length
    · rw [if_neg (by omega)]
      cases hl : dn.getLast? with
      | none => rfl
      | some l =>
        by_cases hls : l.1 = s
        · exfalso; apply hpre; refine ⟨h1, ?_⟩
          intro l' hl'; rw [hl] at hl'; cases hl'; exact hls
        · simp only [hls, ne_eq, not_false_eq_true, ite_true]
    · rw [if_pos h1]

/-- `calc_idx_sentinels` when its `assert!`s pass: it finds the first diverge node at/after `div_idx` that
    carries the sentinel train index (the ending sentinel bounds the raw search) and returns that node's
    dispatch-node index and the index just past the group of nodes sharing it — or the CHECKED second loop
    runs off the end (an ordinary index panic, never an out-of-range raw read). -/
def C05_calc_idx_sentinels_spec_statement : Prop :=
  ∀ (divIdx s : Nat) (dn : List DivNode), divIdx < dn.length →
    (∀ l, dn.getLast? = some l → l.1 = s) →
    ∃ i, ∃ hi : i < dn.length, divIdx ≤ i ∧ dn[i].1 = s ∧
      (∀ k (hk : k < dn.length), divIdx ≤ k → k < i → dn[k].1 ≠ s) ∧
      ((∃ j, calcIdxSentinels divIdx s dn = .ok (dn[i].2, j) ∧ i < j ∧ j ≤ dn.length ∧
          (∀ k (hk : k < dn.length), i < k → k < j → dn[k].2 = dn[i].2) ∧
          (∀ hj : j < dn.length, dn[j].2 ≠ dn[i].2) ∧ (j = dn.length → i + 1 = dn.length)) ∨
       (calcIdxSentinels divIdx s dn = .fault .index ∧ i + 1 < dn.length ∧
          ∀ k (hk : k < dn.length), i < k → dn[k].2 = dn[i].2))

theorem C05_calc_idx_sentinels_spec : C05_calc_idx_sentinels_spec_statement :=
  fun divIdx s dn h1 h2 => calcIdxSentinels_spec divIdx s dn h1 h2

-- non-vacuity: div nodes [(0,0),(2,3),(1,3),(2,5),(1,9)], searching train 1 from index 1
example : calcIdxSentinels 1 1 [(0, 0), (2, 3), (1, 3), (2, 5), (1, 9)] = .ok (3, 3) := by decide
-- the checked second loop running off the end: all later nodes share the dispatch-node index
example : calcIdxSentinels 0 1 [(1, 3), (2, 3), (1, 3)] = .fault .index := by decide
example : calcIdxSentinels 0 1 [(1, 3), (2, 3), (2, 4)] = .fault .assert := by decide

/-- `find_train_intersect`, all arguments with `link_idx_min < 2^32` in the `Range` arm: memory-safe,
    terminating; when it returns, the `link_idx_path` buffer is exactly what it was (sentinel restored)
    and the result lies in `[idx_split, max idx_split idx_sentinel]`. -/
def C05_find_train_intersect_bounds_statement : Prop :=
  ∀ (split sentinel : Nat) (t : LinkOpt) (path blocked : List Nat),
    (∀ mn df, t = .range mn df → mn < 4294967296) →
    Safe (findTrainIntersect split sentinel t path blocked) ∧
    ∀ i p, findTrainIntersect split sentinel t path blocked = .ok (i, p) →
      p = path ∧ split ≤ i ∧ i ≤ max split sentinel

theorem C05_find_train_intersect_bounds : C05_find_train_intersect_bounds_statement := by
  intro split sentinel t path blocked ht
  refine ⟨findTrainIntersect_safe split sentinel t path blocked ht, ?_⟩
  intro i p h
  by_cases h1 : split < sentinel
  · by_cases h2 : sentinel < path.length
    · rcases findTrainIntersect_spec split sentinel t path blocked h1 h2 ht with
        ⟨j, e, hj1, hj2⟩ | e | ⟨_, e⟩
      · rw [e] at h; cases h; exact ⟨rfl, hj1, by omega⟩
      · rw [e] at h; cases h
      · rw [e] at h; cases h
    · unfold findTrainIntersect at h
      rw [if_neg (by omega), if_pos h2] at h; cases h
  · unfold findTrainIntersect at h
    rw [if_pos (by omega)] at h
    cases h; exact ⟨rfl, le_refl _, by omega⟩

/-- the same statement WITHOUT the `< 2^32` hypothesis -/
def C05_find_train_intersect_unguarded_statement : Prop :=
  ∀ (split sentinel : Nat) (t : LinkOpt) (path blocked : List Nat),
    Safe (findTrainIntersect split sentinel t path blocked)

/-- FORCED hypothesis.  `Range(2^32, 0)`: the sentinel written is `(2^32 as u32) = 0`, which is not inside
    the window `[2^32, 2^32]`, so nothing stops the raw scan: it leaves the buffer.  (Unreachable from
    `update_free_path`, see `C05_link_opt_new_bounded`; replayed on the real function in a child process
    by the harness: the debug build's `get_unchecked` precondition check aborts.) -/
theorem C05_find_train_intersect_unguarded_counterexample :
    ¬ C05_find_train_intersect_unguarded_statement := by
  intro h
  have := (h 0 1 (.range 4294967296 0) [5, 7] []).1
  exact this (by decide)

-- non-vacuity: Single, Range and Check searches on a path with the ending sentinel slot
example : findTrainIntersect 0 4 (.single 7) [3, 0, 7, 0, 0] [] = .ok (2, [3, 0, 7, 0, 0]) := by decide
example : findTrainIntersect 0 4 (.single 9) [3, 0, 7, 0, 0] [] = .ok (4, [3, 0, 7, 0, 0]) := by decide
example : findTrainIntersect 0 4 (.range 6 2) [3, 0, 7, 8, 0] [0, 0, 0, 0, 0, 0, 0, 0, 2] =
    .ok (3, [3, 0, 7, 8, 0]) := by decide
example : findTrainIntersect 1 3 .check [3, 0, 2, 0, 0] [0, 0, 1, 0] = .ok (2, [3, 0, 2, 0, 0]) := by decide

/-- `LinkOptType::new` never fails, and every link index it stores is bounded by the largest blocking link
    index it was given; with `u32` link indices (`B = 2^32 - 1`) this is the hypothesis of
    `C05_find_train_intersect_bounds`. -/
def C05_link_opt_new_bounded_statement : Prop :=
  ∀ (blocking onPath : List Nat) (B : Nat), (∀ l ∈ blocking, l ≤ B) →
    ∃ t, linkOptNew blocking onPath = .ok t ∧
      (∀ mn df, t = .range mn df → mn ≤ B ∧ df ≤ 16) ∧ (∀ c, t = .single c → c ≤ B)

theorem C05_link_opt_new_bounded : C05_link_opt_new_bounded_statement :=
  fun blocking onPath B h => linkOptNew_bounded blocking onPath B h

example : linkOptNew [7, 3, 9, 5] [5, 7, 9, 11] = .ok (.range 5 4) := by decide

/-- the composition used by `update_free_path`: the search option computed by `LinkOptType::new` from `u32`
    link indices makes `find_train_intersect` memory-safe on every path / split / sentinel -/
def C05_find_after_new_statement : Prop :=
  ∀ (blocking onPath : List Nat) (split sentinel : Nat) (path blocked : List Nat),
    (∀ l ∈ blocking, l < 4294967296) →
    ∃ t, linkOptNew blocking onPath = .ok t ∧ Safe (findTrainIntersect split sentinel t path blocked)

theorem C05_find_after_new : C05_find_after_new_statement := by
  intro blocking onPath split sentinel path blocked hbl
  obtain ⟨t, e, hr, _⟩ := linkOptNew_bounded blocking onPath 4294967295 (fun l hl => by
    have := hbl l hl; omega)
  refine ⟨t, e, ?_⟩
  apply findTrainIntersect_safe
  intro mn df ht
  have := (hr mn df ht).1
  omega

/-- `add_blocking_trains`, `add_all_blocking_trains`, `concat_train_idx_views`: all arguments -/
def C05_blocking_views_bounds_statement : Prop :=
  ∀ (tb : List Nat) (v w : View),
    Safe (addBlockingTrains tb v w) ∧ Safe (addAllBlockingTrains tb v w) ∧ Safe (concatViews tb v w)

theorem C05_blocking_views_bounds : C05_blocking_views_bounds_statement :=
  fun tb v w => ⟨addBlockingTrains_safe tb v w, addAllBlockingTrains_safe tb v w, concatViews_safe tb v w⟩

/-- ALL arguments: whenever one of the three functions returns, the old `train_idxs_blocking` buffer is a
    prefix of the new one — the sentinel slot that `add_blocking_trains` overwrites (and the entries it
    pushes) lie beyond the old content, which is never disturbed. -/
def C05_blocking_views_preserve_statement : Prop :=
  ∀ (tb : List Nat) (v w : View) (out : List Nat) (r : View),
    (addBlockingTrains tb v w = .ok (out, r) → out.take tb.length = tb ∧ r = (v.1, out.length)) ∧
    (addAllBlockingTrains tb v w = .ok (out, r) → out.take tb.length = tb) ∧
    (concatViews tb v w = .ok (out, r) → out.take tb.length = tb)

theorem C05_blocking_views_preserve : C05_blocking_views_preserve_statement := by
  intro tb v w out r
  refine ⟨fun h => ?_, fun h => (addAllBlockingTrains_prefix tb v w out r h).1,
    fun h => (concatViews_prefix tb v w out r h).1⟩
  obtain ⟨h1, _, h3⟩ := addBlockingTrains_prefix tb v w out r h
  exact ⟨h1, h3⟩

/-- `add_blocking_trains` when its `assert!`s pass and the add view lies inside the buffer: old buffer kept
    as a prefix (no sentinel left behind), appended part = the trains of the add view missing from the base
    view, returned view = `[base.begin, new length)`. -/
def C05_add_blocking_trains_spec_statement : Prop :=
  ∀ (tb : List Nat) (base add : View), base.1 ≤ base.2 → tb.length = base.2 → add.1 ≤ add.2 →
    add.2 ≤ tb.length →
    ∃ out, addBlockingTrains tb base add = .ok (out, (base.1, out.length)) ∧
      out.take tb.length = tb ∧
      ∀ x, x ∈ out.drop tb.length ↔
        (x ∉ tb.drop base.1 ∧ ∃ ia, add.1 ≤ ia ∧ ia < add.2 ∧ tb[ia]? = some x)

theorem C05_add_blocking_trains_spec : C05_add_blocking_trains_spec_statement :=
  fun tb base add h1 h2 h3 h4 => addBlockingTrains_spec tb base add h1 h2 h3 h4

-- non-vacuity: buffer [0,4,2,5,2,3], base view [3,6) = {5,2,3}, add view [1,3) = {4,2}: 4 is new
example : addBlockingTrains [0, 4, 2, 5, 2, 3] (3, 6) (1, 3) = .ok ([0, 4, 2, 5, 2, 3, 4], (3, 7)) := by
  decide
-- the last new train is moved into the sentinel slot: the appended part is a rotation
example : concatViews [0, 4, 2, 5, 3] (1, 3) (3, 5) = .ok ([0, 4, 2, 5, 3, 2, 4], (3, 7)) := by decide
example : concatViews [0, 4, 2, 5, 3] (1, 3) (2, 4) = .ok ([0, 4, 2, 5, 3, 4, 2, 5], (5, 8)) := by decide

/-! ## 2. The plan checker -/

section plan
variable {α : Type} [Add α] [LE α] [DecidableLE α]

/-- `HopPath est b j t tf k`: from est node `j`, reached at time `t`, `k` further steps through
    non-Arrive nodes lead to an Arrive node of link `b`, reached — free running: `+ time_to_next` along
    `idx_next`, `+ 0` along `idx_next_alt` (the fake node sits at the same place) — at time `tf`. -/
inductive HopPath (est : List (EstNode α)) (b : Nat) : Nat → α → α → Nat → Prop where
  | arrive (j : Nat) (t : α) (m : EstNode α) :
      est[j]? = some m → m.ty = 0 → m.link = b → HopPath est b j t t 0
  | prim (j : Nat) (t tf : α) (k : Nat) (m : EstNode α) :
      est[j]? = some m → m.ty ≠ 0 → m.next ≠ 0 → HopPath est b m.next (t + m.ttn) tf k →
      HopPath est b j t tf (k + 1)
  | alt (j : Nat) (t tf : α) (k : Nat) (m : EstNode α) :
      est[j]? = some m → m.ty ≠ 0 → m.alt ≠ 0 → HopPath est b m.alt t tf k →
      HopPath est b j t tf (k + 1)

/-- The hop `a@ta → b@tb` is not faster than the train's own free running: some path of its
    estimated-time network from an Arrive event of `a` to an Arrive event of `b` (no other Arrive event
    in between, at most `est.length` nodes — no restriction in an acyclic network) takes the train, free
    running from `ta`, to `b` no later than `tb`. -/
def FreeHop (est : List (EstNode α)) (a : Nat) (ta : α) (b : Nat) (tb : α) : Prop :=
  ∃ (i : Nat) (n : EstNode α), est[i]? = some n ∧ n.ty = 0 ∧ n.link = a ∧
    ((n.next ≠ 0 ∧ ∃ tf k, k < est.length ∧ HopPath est b n.next (ta + n.ttn) tf k ∧ tf ≤ tb) ∨
     (n.alt ≠ 0 ∧ ∃ tf k, k < est.length ∧ HopPath est b n.alt ta tf k ∧ tf ≤ tb))

/-- link `a` leads to link `b` in the network (`idx_next` or `idx_next_alt`) -/
def Connected (adj : Adj) (a b : Nat) : Prop :=
  b ≠ 0 ∧ ∃ n na, adj[a]? = some (n, na) ∧ (n = b ∨ na = b)

/-- the clauses of C05 for one train's route -/
structure RouteSpec (adj : Adj) (tr : TrainIn α) (rt : Route α) : Prop where
  /-- a route is returned (the train is not dropped) -/
  nonempty : rt ≠ []
  /-- starts on one of its origin segments at or after its departure time -/
  origin : ∀ x, rt.head? = some x → x.1 ∈ tr.origs ∧ tr.depart ≤ x.2
  /-- ends on one of its destination segments -/
  dest : ∀ x, rt.getLast? = some x → x.1 ∈ tr.dests
  /-- contiguous in the network, arrival times non-decreasing and never faster than the train's own
      free-running times between consecutive segments -/
  hops : rt.IsChain (fun x y => Connected adj x.1 y.1 ∧ x.2 ≤ y.2 ∧ FreeHop tr.est x.1 x.2 y.1 y.2)

/-- one valid route per train, none missing -/
def PlanSpec (adj : Adj) (trains : List (TrainIn α)) (plan : List (Route α)) : Prop :=
  trains.length = plan.length ∧
  ∀ (i : Nat) (tr : TrainIn α) (rt : Route α), trains[i]? = some tr → plan[i]? = some rt → RouteSpec adj tr rt

theorem hopSearch_iff (est : List (EstNode α)) (b : Nat) (tb : α) :
    ∀ (f j : Nat) (t : α),
      hopSearch est b tb f j t = true ↔ ∃ tf k, k < f ∧ HopPath est b j t tf k ∧ tf ≤ tb := by
  intro f
  induction f with
  | zero =>
    intro j t
    simp only [hopSearch, Bool.false_eq_true, false_iff]
    rintro ⟨tf, k, hk, _⟩; omega
  | succ f ih =>
    intro j t
    unfold hopSearch
    cases hj : est[j]? with
    | none =>
      simp only [Bool.false_eq_true, false_iff]
      rintro ⟨tf, k, _, hp, _⟩
      cases hp with
      | arrive _ _ m h => rw [hj] at h; cases h
      | prim _ _ _ _ m h => rw [hj] at h; cases h
      | alt _ _ _ _ m h => rw [hj] at h; cases h
    | some m =>
      simp only []
      by_cases hty : m.ty = 0
      · rw [if_pos hty]
        simp only [Bool.and_eq_true, beq_iff_eq, decide_eq_true_eq]
        constructor
        · rintro ⟨hl, hle⟩
          exact ⟨t, 0, by omega, HopPath.arrive j t m hj hty hl, hle⟩
        · rintro ⟨tf, k, _, hp, hle⟩
          cases hp with
          | arrive _ _ m' h _ hl =>
            rw [hj] at h; cases h; exact ⟨hl, hle⟩
          | prim _ _ _ _ m' h hne => rw [hj] at h; cases h; exact absurd hty hne
          | alt _ _ _ _ m' h hne => rw [hj] at h; cases h; exact absurd hty hne
      · rw [if_neg hty]
        simp only [Bool.or_eq_true, Bool.and_eq_true, bne_iff_ne, ne_eq, ih]
        constructor
        · rintro (⟨hn, tf, k, hk, hp, hle⟩ | ⟨hn, tf, k, hk, hp, hle⟩)
          · exact ⟨tf, k + 1, by omega, HopPath.prim j t tf k m hj hty hn hp, hle⟩
          · exact ⟨tf, k + 1, by omega, HopPath.alt j t tf k m hj hty hn hp, hle⟩
        · rintro ⟨tf, k, hk, hp, hle⟩
          cases hp with
          | arrive _ _ m' h hz => rw [hj] at h; cases h; exact absurd hz hty
          | prim _ _ _ k' m' h _ hn hp' =>
            rw [hj] at h; cases h
            left; exact ⟨hn, tf, k', by omega, hp', hle⟩
          | alt _ _ _ k' m' h _ hn hp' =>
            rw [hj] at h; cases h
            right; exact ⟨hn, tf, k', by omega, hp', hle⟩

theorem hopOk_iff (est : List (EstNode α)) (a : Nat) (ta : α) (b : Nat) (tb : α) :
    hopOk est a ta b tb = true ↔ FreeHop est a ta b tb := by
  unfold hopOk FreeHop
  rw [List.any_eq_true]
  constructor
  · rintro ⟨i, _, h⟩
    unfold hopFrom at h
    cases hi : est[i]? with
    | none => rw [hi] at h; cases h
    | some n =>
      rw [hi] at h
      simp only [Bool.and_eq_true, beq_iff_eq, Bool.or_eq_true, bne_iff_ne, ne_eq,
        hopSearch_iff] at h
      obtain ⟨⟨hty, hl⟩, hor⟩ := h
      exact ⟨i, n, hi, hty, hl, hor⟩
  · rintro ⟨i, n, hi, hty, hl, hor⟩
    refine ⟨i, ?_, ?_⟩
    · rw [List.mem_range]
      by_contra hlt
      rw [List.getElem?_eq_none (by omega)] at hi; cases hi
    · unfold hopFrom
      rw [hi]
      simp only [Bool.and_eq_true, beq_iff_eq, Bool.or_eq_true, bne_iff_ne, ne_eq, hopSearch_iff]
      exact ⟨⟨hty, hl⟩, hor⟩

theorem connected_iff (adj : Adj) (a b : Nat) : connected adj a b = true ↔ Connected adj a b := by
  unfold connected Connected
  cases h : adj[a]? with
  | none => simp
  | some p =>
    obtain ⟨n, na⟩ := p
    simp only [Bool.and_eq_true, bne_iff_ne, ne_eq, Bool.or_eq_true, beq_iff_eq, Option.some.injEq,
      Prod.mk.injEq]
    constructor
    · rintro ⟨h1, h2⟩; exact ⟨h1, n, na, ⟨rfl, rfl⟩, h2⟩
    · rintro ⟨h1, n', na', ⟨rfl, rfl⟩, h2⟩; exact ⟨h1, h2⟩

theorem hopsOk_iff (adj : Adj) (est : List (EstNode α)) : ∀ (rt : Route α),
    hopsOk adj est rt = true ↔
      rt.IsChain (fun x y => Connected adj x.1 y.1 ∧ x.2 ≤ y.2 ∧ FreeHop est x.1 x.2 y.1 y.2) := by
  intro rt
  induction rt with
  | nil => simp [hopsOk]
  | cons x rest ih =>
    cases rest with
    | nil => simp [hopsOk]
    | cons y rest' =>
      obtain ⟨a, ta⟩ := x
      obtain ⟨b, tb⟩ := y
      unfold hopsOk
      rw [List.isChain_cons_cons, ← ih]
      simp only [Bool.and_eq_true, decide_eq_true_eq, connected_iff, hopOk_iff]
      tauto

/-- **C05, plan validity (per train).**  The decision procedure accepts a route iff it satisfies the clauses
    of the property. -/
def C05_routeOk_iff_spec_statement : Prop :=
  ∀ (adj : Adj) (tr : TrainIn α) (rt : Route α), routeOk adj tr rt = true ↔ RouteSpec adj tr rt

theorem C05_routeOk_iff_spec : C05_routeOk_iff_spec_statement (α := α) := by
  intro adj tr rt
  unfold routeOk
  cases rt with
  | nil =>
    simp only [List.head?_nil, List.getLast?_nil, Bool.false_eq_true, false_iff]
    intro h; exact h.nonempty rfl
  | cons x rest =>
    have hlast : ∃ y, (x :: rest).getLast? = some y := by
      cases h : (x :: rest).getLast? with
      | none => simp at h
      | some y => exact ⟨y, rfl⟩
    obtain ⟨y, hy⟩ := hlast
    obtain ⟨l0, t0⟩ := x
    obtain ⟨ln, tn⟩ := y
    rw [hy]
    simp only [List.head?_cons, Bool.and_eq_true, List.contains_iff_mem, decide_eq_true_eq, hopsOk_iff]
    constructor
    · rintro ⟨⟨⟨ho, hd⟩, hdst⟩, hh⟩
      refine ⟨by simp, ?_, ?_, hh⟩
      · intro z hz; simp only [List.head?_cons, Option.some.injEq] at hz; subst hz; exact ⟨ho, hd⟩
      · intro z hz; rw [hy] at hz; cases hz; exact hdst
    · intro h
      have h1 := h.origin (l0, t0) (by simp)
      have h2 := h.dest (ln, tn) hy
      exact ⟨⟨⟨h1.1, h1.2⟩, h2⟩, h.hops⟩

theorem routesOk_iff (adj : Adj) : ∀ (trains : List (TrainIn α)) (plan : List (Route α)),
    routesOk adj trains plan = true ↔ PlanSpec adj trains plan := by
  intro trains
  induction trains with
  | nil =>
    intro plan
    cases plan with
    | nil => simp [routesOk, PlanSpec]
    | cons r rs => simp [routesOk, PlanSpec]
  | cons tr trs ih =>
    intro plan
    cases plan with
    | nil => simp [routesOk, PlanSpec]
    | cons r rs =>
      unfold routesOk
      rw [Bool.and_eq_true, ih rs, C05_routeOk_iff_spec adj tr r]
      unfold PlanSpec
      constructor
      · rintro ⟨h0, hl, hall⟩
        refine ⟨by simp [hl], ?_⟩
        intro i tr' rt' h1 h2
        cases i with
        | zero => simp at h1 h2; subst h1; subst h2; exact h0
        | succ i => simp at h1 h2; exact hall i tr' rt' h1 h2
      · rintro ⟨hl, hall⟩
        refine ⟨hall 0 tr r (by simp) (by simp), by simpa using hl, ?_⟩
        intro i tr' rt' h1 h2
        exact hall (i + 1) tr' rt' (by simpa using h1) (by simpa using h2)

/-- **C05, plan validity and completeness.**  `planOk` accepts iff there is exactly one route per train
    (none missing, none extra) and every route satisfies `RouteSpec`. -/
def C05_planOk_iff_spec_statement : Prop :=
  ∀ (adj : Adj) (trains : List (TrainIn α)) (plan : List (Route α)),
    planOk adj trains plan = true ↔ PlanSpec adj trains plan

theorem C05_planOk_iff_spec : C05_planOk_iff_spec_statement (α := α) :=
  fun adj trains plan => routesOk_iff adj trains plan

end plan

/-! ## 3. Queue bookkeeping of the outer loop -/

section queue
variable {α : Type} [LT α] [DecidableLT α]

/-- **C05, accounting.**  Start with all `n` trains queued; run the outer loop for any number of
    iterations with ARBITRARY outcomes of the routing search (`answers`).  Then
    (a) every train 1..n is in exactly one of queue / parked / finished (the concatenation of the three
        containers is a duplicate-free arrangement of 1..n),
    (b) if the loop has ended (queue empty) every train is finished or is named in the error, and `Ok` is
        returned only when all trains are finished — no train is dropped silently,
    (c) the train popped in an iteration is never in the parked list (the `debug_assert!` in the requeue). -/
def C05_dispatch_accounting_statement : Prop :=
  ∀ (departs : List α) (answers : List (Ans α)),
    let s := (qRun (qInit departs) answers).2
    let n := departs.length
    (s.queue.map (·.2) ++ (s.parked.map (·.2) ++ s.finished)).Perm (List.range' 1 n) ∧
    (s.queue.map (·.2) ++ (s.parked.map (·.2) ++ s.finished)).Nodup ∧
    (∀ stuck, qResult s = some stuck →
      (∀ t, 1 ≤ t → t ≤ n → (t ∈ s.finished ∧ t ∉ stuck) ∨ (t ∈ stuck ∧ t ∉ s.finished)) ∧
      (stuck = [] → s.finished.Perm (List.range' 1 n)))

theorem C05_dispatch_accounting : C05_dispatch_accounting_statement (α := α) := by
  intro departs answers s n
  have hperm : (ids s).Perm (List.range' 1 n) := by
    have := qRun_ids answers (qInit departs)
    rw [ids_qInit] at this
    exact this
  have hnodup : (ids s).Nodup := hperm.nodup_iff.mpr (List.nodup_range' 1)
  refine ⟨hperm, hnodup, ?_⟩
  intro stuck hres
  unfold qResult at hres
  split_ifs at hres with hq
  simp only [Option.some.injEq] at hres
  have hqe : s.queue = [] := by simpa using hq
  have hids : ids s = s.parked.map (·.2) ++ s.finished := by unfold ids; rw [hqe]; rfl
  rw [hids] at hperm hnodup
  rw [hres] at hperm hnodup
  constructor
  · intro t h1 h2
    have hmem : t ∈ stuck ++ s.finished := by
      apply hperm.symm.subset
      rw [List.mem_range']
      exact ⟨t - 1, by omega, by omega⟩
    have hdis := List.nodup_append.mp hnodup
    rcases List.mem_append.mp hmem with h | h
    · right; exact ⟨h, fun hf => hdis.2.2 t h t hf rfl⟩
    · left; exact ⟨h, fun hs => hdis.2.2 t hs t h rfl⟩
  · intro he
    rw [he] at hperm
    simpa using hperm

/-- one iteration: the popped train comes from the queue, and — because the containers are disjoint — it
    is not in the parked list that is drained back into the queue (`debug_assert!(train_idx !=
    train_idx_curr)` cannot fire) -/
def C05_requeue_assert_statement : Prop :=
  ∀ (departs : List α) (answers : List (Ans α)) (a : Ans α) (i : Nat) (s' : QSt α),
    qStep (qRun (qInit departs) answers).2 a = some (i, s') →
    i ∉ (qRun (qInit departs) answers).2.parked.map (·.2)

theorem C05_requeue_assert : C05_requeue_assert_statement (α := α) := by
  intro departs answers a i s' h
  have hacc := C05_dispatch_accounting departs answers
  obtain ⟨_, hnodup, _⟩ := hacc
  have hi := (qStep_ids _ s' a i h).2
  intro hp
  have hdis := List.nodup_append.mp hnodup
  exact hdis.2.2 i hi i (List.mem_append.mpr (Or.inl hp)) rfl

end queue

/-- the popped key is first in the order of `impl Ord for TrainDispNext` (in a linear order of times):
    no remaining key pops before it -/
def C05_pop_is_least_statement (α : Type) [LinearOrder α] : Prop :=
  ∀ (q : List (α × Nat)) (m : α × Nat) (r : List (α × Nat)),
    popMin q = some (m, r) → ∀ x ∈ r, keyLt x m = false

theorem C05_pop_is_least (α : Type) [LinearOrder α] : C05_pop_is_least_statement α := by
  intro q
  induction q with
  | nil => intro m r h; simp [popMin] at h
  | cons x xs ih =>
    intro m r h y hy
    unfold popMin at h
    cases hp : popMin xs with
    | none =>
      rw [hp] at h
      simp only [Option.some.injEq, Prod.mk.injEq] at h
      obtain ⟨rfl, rfl⟩ := h
      cases hy
    | some mr =>
      obtain ⟨m', r'⟩ := mr
      rw [hp] at h
      have hmin := ih m' r' hp
      have hxs : xs.Perm (m' :: r') := popMin_perm xs m' r' hp
      simp only [] at h
      -- the order is total and transitive on keys
      have key_trans : ∀ a b c : α × Nat, keyLt a b = false → keyLt b c = false → keyLt a c = false := by
        intro a b c h1 h2
        unfold keyLt at *
        simp only [Bool.or_eq_false_iff, decide_eq_false_iff_not, Bool.and_eq_false_iff,
          Bool.not_eq_false', decide_eq_true_eq, not_lt] at *
        obtain ⟨h1a, h1b⟩ := h1
        obtain ⟨h2a, h2b⟩ := h2
        refine ⟨le_trans h2a h1a, ?_⟩
        rcases h1b with h1b | h1b
        · left; exact lt_of_le_of_lt h2a h1b
        · rcases h2b with h2b | h2b
          · left; exact lt_of_lt_of_le h2b h1a
          · right; omega
      split_ifs at h with hk
      · simp only [Option.some.injEq, Prod.mk.injEq] at h
        obtain ⟨rfl, rfl⟩ := h
        rcases List.mem_cons.mp hy with rfl | hy
        · -- x itself: keyLt m' x holds, so keyLt x m' fails
          unfold keyLt at hk ⊢
          simp only [Bool.or_eq_true, decide_eq_true_eq, Bool.and_eq_true, Bool.not_eq_true',
            decide_eq_false_iff_not, not_lt] at hk
          simp only [Bool.or_eq_false_iff, decide_eq_false_iff_not, not_lt, Bool.and_eq_false_iff,
            Bool.not_eq_false', decide_eq_true_eq]
          rcases hk with hk | ⟨hk1, hk2⟩
          · exact ⟨le_of_lt hk, Or.inl hk⟩
          · exact ⟨hk1, Or.inr (by omega)⟩
        · exact hmin y hy
      · simp only [Option.some.injEq, Prod.mk.injEq] at h
        obtain ⟨rfl, rfl⟩ := h
        have hk' : keyLt m' x = false := by simpa using hk
        have hy' : y ∈ m' :: r' := hxs.subset hy
        rcases List.mem_cons.mp hy' with rfl | hy'
        · exact hk'
        · exact key_trans y m' x (hmin y hy') hk'

-- non-vacuity of the accounting: 3 trains, equal departure times for trains 1 and 2 (tie broken by
-- index), train 1 parked then requeued when train 2 moves
example :
    let r := qRun (qInit ([0, 0, 5] : List Rat))
      [⟨true, false, 0⟩, ⟨false, false, 7⟩, ⟨false, true, 3⟩, ⟨false, true, 9⟩, ⟨true, false, 9⟩]
    r.1 = [1, 2, 1, 3, 2] ∧ qResult r.2 = some [2] ∧ r.2.finished = [1, 3] := by
  decide +kernel

-- non-vacuity of the plan checker: two links 1 → 2, est nodes: 0 fake, 1 fake, 2 arrive(1), 3 clear(1),
-- 4 arrive(2), 5 clear(2), 6 end; the hop 1 → 2 takes 10 + 20 = 30 free running
def exEst : List (EstNode Rat) :=
  [⟨1, 0, 0, 0, 2⟩, ⟨2, 0, 0, 0, 2⟩, ⟨3, 0, 10, 1, 0⟩, ⟨4, 0, 20, 1, 1⟩, ⟨5, 0, 15, 2, 0⟩,
   ⟨6, 0, 0, 2, 1⟩, ⟨0, 0, 0, 0, 2⟩]
def exTrain : TrainIn Rat := ⟨[1], [2], 100, exEst⟩
example : planOk [(0, 0), (2, 0), (0, 0)] [exTrain] [[(1, 100), (2, 130)]] = true := by decide +kernel
example : planOk [(0, 0), (2, 0), (0, 0)] [exTrain] [[(1, 100), (2, 129)]] = false := by decide +kernel
example : planOk [(0, 0), (2, 0), (0, 0)] [exTrain] [[(1, 99), (2, 130)]] = false := by decide +kernel
example : planOk [(0, 0), (2, 0), (0, 0)] [exTrain] [] = false := by decide +kernel
example : planOk [(0, 0), (2, 0), (0, 0)] [exTrain] [[(1, 100)]] = false := by decide +kernel

end Altrios.Proofs.C05
