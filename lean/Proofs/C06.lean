import Proofs.Lemmas.TpcL
import Mathlib.Algebra.Order.Ring.Rat
import Mathlib.Algebra.Field.Rat
import Mathlib.Tactic.NormNum
/-
  C06 — "Path geometry handed to the train model equals the network's geometry".

  Model: `Altrios/PathTpc.lean` (`PathTpc::new`, `PathTpc::extend`, the count cross-checks of
  `ObjState for PathTpc`).  Vocabulary (`Proofs/Lemmas/TpcL.lean`): `LinkOK` = what `Link::validate`
  enforces, `Resolves net route links` = every route index is in range and names `links`,
  closed forms `routeLPs / routeGrades / routeCurves / routeCats`, `routeElev` = elevation obtained by
  walking the route's own elevation points, `contig` = the contiguity `ensure!`s.

  Clauses (for `extend … (Tpc.new par) route = .ok t`; several also from an arbitrary state):
    2a  C06_linkpoints      link-point offsets = cumulative lengths, indices = the route, one dummy
    2b  C06_counts          `countsConsistent`, per-link counts;  C06_counts_preserved (any state)
    2e  C06_cats            catenary sections = shifted concatenation
    3   C06_accept_iff(_general), C06_ok_contig, C06_noncontig_not_ok,
        C06_reject, C06_reject_first                      contiguity / fake index ⇒ `Err`
    2c  C06_grades, C06_grade_point, C06_elev, C06_elev_exists          grades and elevation
    2d  C06_curves, C06_curve_point, C06_curve_no_headings              curve coefficients
    1   C06_extend_append, C06_partition(_indep), C06_inv               any partition, invariant
    4   extend_one_elev_counterexample, C06_counts_needs_LinkOK,
        extend_append_counterexample, C06_extend_append_needs_hyp       `LinkOK` is forced
    2d' C06_wrap, curveCoeff_eq, C06_wrap_route: the wrapped heading change is the angular distance
        `min |Δh| (REV − |Δh|)` for every pair of validated headings (repaired code).
    +   REPAIRED DEFECT (kept as documentation, about the original formula `wrapOld`):
        C06_wrapOld_counterexample / C06_wrapOld_fails / C06_wrapOld_partial — the original formula
        returned `|Δh|` instead of `REV − |Δh|` for `Δh < −REV/2` (heading increasing through north).
-/
set_option linter.unusedSectionVars false
set_option linter.unusedVariables false
namespace Altrios.Proofs.C06
open Altrios Altrios.SP Altrios.Tpc Altrios.Proofs.TpcL

/-! ## A concrete network over `ℚ` (non-vacuity witnesses, counterexamples) -/
namespace Ex
/-- `REV = 6` (any positive value), `2`, `DEG = 1/60`, `100 ft = 30`, `RADPM = 1` -/
def gq : GeoConsts ℚ := ⟨6, 2, 1/60, 30, 1⟩
def par : TrainPar ℚ := ⟨⟨100, 30, 1000, 10, 40⟩, 0, 1, 2, 3⟩
def u32 : ℚ → Nat := fun _ => 0
/-- the fake link at index 0 -/
def l0 : Link ℚ := ⟨0, 0, 0, 0, 0, 0, [], [], none, [], []⟩
/-- three elevation points, two headings, a speed limit, a catenary section -/
def l1 : Link ℚ := ⟨1, 0, 0, 2, 0, 1000, [⟨0, 10⟩, ⟨400, 14⟩, ⟨1000, 8⟩], [⟨0, 0⟩, ⟨1000, 1/10⟩],
  some ⟨true, [], [⟨0, 1000, 20⟩]⟩, [], [⟨100, 900, 5000, some 1⟩]⟩
/-- no headings -/
def l2 : Link ℚ := ⟨2, 1, 0, 3, 0, 500, [⟨0, 8⟩, ⟨500, 9⟩], [], some ⟨true, [], []⟩, [], []⟩
/-- headings that wrap around, speed set found by train type, catenary over the whole link -/
def l3 : Link ℚ := ⟨3, 2, 0, 0, 0, 800, [⟨0, 9⟩, ⟨300, 12⟩, ⟨800, 12⟩], [⟨0, 59/10⟩, ⟨800, 1/5⟩],
  none, [(0, ⟨false, [], [⟨200, 600, 15⟩]⟩)], [⟨0, 800, 3000, none⟩]⟩
/-- exactly ONE elevation point (rejected by `Link::validate`) -/
def l4 : Link ℚ := ⟨4, 1, 0, 6, 0, 100, [⟨0, 5⟩], [], some ⟨true, [], []⟩, [], []⟩
/-- linked to nothing on the route (`idx_prev = 7`) -/
def l5 : Link ℚ := ⟨5, 7, 0, 0, 0, 300, [⟨0, 1⟩, ⟨300, 2⟩], [], some ⟨true, [], []⟩, [], []⟩
/-- follows `l4` -/
def l6 : Link ℚ := ⟨6, 4, 0, 0, 0, 200, [⟨0, 7⟩, ⟨200, 9⟩], [], some ⟨true, [], []⟩, [], []⟩
def net : List (Link ℚ) := [l0, l1, l2, l3, l4, l5, l6]
def links : List (Link ℚ) := [l1, l2, l3]
/-- the example network without the invalid one-point link -/
def netV : List (Link ℚ) := [l0, l1, l2, l3, l0, l5, l6]
theorem netV_ok : ∀ l ∈ netV, l.elevs.length ≠ 1 := by
  intro l hl
  simp only [netV, List.mem_cons, List.not_mem_nil, or_false] at hl
  rcases hl with rfl | rfl | rfl | rfl | rfl | rfl | rfl <;> decide

theorem res123 : Resolves net [1, 2, 3] links := rfl

theorem ok1 : LinkOK l1 :=
  ⟨by decide +kernel, by decide, by decide +kernel, rfl, rfl,
   Or.inr ⟨by decide, by decide +kernel, rfl, rfl⟩⟩
theorem ok2 : LinkOK l2 :=
  ⟨by decide +kernel, by decide, by decide +kernel, rfl, rfl, Or.inl rfl⟩
theorem ok3 : LinkOK l3 :=
  ⟨by decide +kernel, by decide, by decide +kernel, rfl, rfl,
   Or.inr ⟨by decide, by decide +kernel, rfl, rfl⟩⟩
theorem ok5 : LinkOK l5 :=
  ⟨by decide +kernel, by decide, by decide +kernel, rfl, rfl, Or.inl rfl⟩

theorem oklinks : ∀ l ∈ links, LinkOK l := by
  intro l hl
  simp only [links, List.mem_cons, List.not_mem_nil, or_false] at hl
  rcases hl with rfl | rfl | rfl
  exacts [ok1, ok2, ok3]

theorem netIdx : ∀ (i : Nat) (l : Link ℚ), net[i]? = some l → l.idxCurr = i := by
  intro i l h
  match i, h with
  | 0, h | 1, h | 2, h | 3, h | 4, h | 5, h | 6, h => cases h; rfl
  | n + 7, h => simp [net] at h

/-- the three-link route is accepted in one call -/
theorem ext123 : ∃ t, extend u32 gq net (Tpc.new par) [1, 2, 3] = .ok t :=
  (okAnd_exists (p := fun _ => true) (by decide +kernel)).imp fun _ h => h.1
end Ex

section
variable {α : Type} [Field α] [LinearOrder α] [IsStrictOrderedRing α]

/-- closed form of the first `extend` call on a fresh path -/
theorem extend_new_closed (toU32 : α → Nat) (g : GeoConsts α) (net : List (Link α)) (par : TrainPar α)
    {route : List Nat} {links : List (Link α)} {t : Tpc α}
    (h : extend toU32 g net (Tpc.new par) route = .ok t) (hres : Resolves net route links)
    (hok : ∀ l ∈ links, LinkOK l) :
    t.linkPoints = routeLPs ⟨0, 0, 0, 0, 0⟩ links ∧
    t.grades = routeGrades 0 0 (initNet [] 0 links) links ∧
    t.curves = routeCurves g par 0 0 0 links ∧
    t.cats = routeCats 0 links ∧
    routeSpeeds toU32 par [⟨0, par.tp.speedMax⟩] 0 links = .ok t.speedPoints ∧
    t.par = par ∧ t.isFinished = false := by
  obtain ⟨_, _, sp, hsp, rfl⟩ := (extend_ok_iff toU32 g net route links (Tpc.new par) t []
    ⟨0, 0, 0, 0, 0⟩ [] [] 0 0 0 0 0 hres hok rfl rfl rfl (by simp [Tpc.new])).mp h
  exact ⟨rfl, rfl, rfl, rfl, hsp, rfl, rfl⟩

/-! ## 2a — link points -/

theorem routeLPs_linkIdx : ∀ (links : List (Link α)) (o : α),
    (routeLPs ⟨o, 0, 0, 0, 0⟩ links).map (·.linkIdx) = links.map (·.idxCurr) ++ [0]
  | [], _ => rfl
  | l :: ls, o => by simp [routeLPs, routeLPs_linkIdx ls]

theorem routeLPs_zero_getLast (links : List (Link α)) (o : α) :
    (routeLPs ⟨o, 0, 0, 0, 0⟩ links).getLast? = some ⟨o + routeLen links, 0, 0, 0, 0⟩ := by
  cases links with
  | nil => simp [routeLPs, routeLen]
  | cons l ls => exact routeLPs_getLast (l :: ls) _ (by simp)

theorem resolves_idx {net : List (Link α)} : ∀ {route : List Nat} {links : List (Link α)},
    Resolves net route links → (∀ (i : Nat) (l : Link α), net[i]? = some l → l.idxCurr = i) →
    links.map (·.idxCurr) = route := by
  intro route links
  induction links generalizing route with
  | nil => intro h _; rw [resolves_nil.mp h]; rfl
  | cons l ls ih =>
    intro h hnet
    obtain ⟨i, r, rfl, hi, hr⟩ := resolves_cons.mp h
    rw [List.map_cons, hnet i l hi, ih hr hnet]

/-- **C06 (2a).**  Link-point offsets are the cumulative link lengths `0, l₁, l₁+l₂, …`
    (`prefixOffs 0`), the link indices are those of the route's links (the route itself when the
    network stores every link at its own index), behind them sits exactly one dummy point at the total
    length.  No hypothesis on the links is needed. -/
def C06_linkpoints_statement : Prop :=
  ∀ (toU32 : α → Nat) (g : GeoConsts α) (net : List (Link α)) (par : TrainPar α)
    (route : List Nat) (links : List (Link α)) (t : Tpc α),
    extend toU32 g net (Tpc.new par) route = .ok t → Resolves net route links →
      t.linkPoints.map (·.off) = prefixOffs 0 links ∧
      t.linkPoints.map (·.linkIdx) = links.map (·.idxCurr) ++ [0] ∧
      t.linkPoints.length = links.length + 1 ∧
      t.linkPoints.getLast? = some ⟨routeLen links, 0, 0, 0, 0⟩ ∧
      -- forced for the last conjunct: `extend` copies `link.idx_curr`, not the route index
      ((∀ (i : Nat) (l : Link α), net[i]? = some l → l.idxCurr = i) →
        t.linkPoints.map (·.linkIdx) = route ++ [0])

theorem C06_linkpoints : C06_linkpoints_statement (α := α) := by
  intro toU32 g net par route links t h hres
  have hlp : t.linkPoints = routeLPs ⟨0, 0, 0, 0, 0⟩ links :=
    (extend_ok_linkPoints toU32 g net h hres (L := []) (last := ⟨0, 0, 0, 0, 0⟩) rfl).1
  refine ⟨?_, ?_, ?_, ?_, ?_⟩
  · rw [hlp, routeLPs_off]
  · rw [hlp, routeLPs_linkIdx]
  · have := congrArg List.length (routeLPs_linkIdx links (0 : α))
    rw [hlp]; simpa using this
  · rw [hlp, routeLPs_zero_getLast, zero_add]
  · intro hnet; rw [hlp, routeLPs_linkIdx, resolves_idx hres hnet]

example : ∃ t, extend Ex.u32 Ex.gq Ex.net (Tpc.new Ex.par) [1, 2, 3] = .ok t ∧
    t.linkPoints.map (·.off) = [0, 1000, 1500, 2300] ∧
    t.linkPoints.map (·.linkIdx) = [1, 2, 3, 0] := by
  obtain ⟨t, h⟩ := Ex.ext123
  obtain ⟨h1, _, _, _, h5⟩ := C06_linkpoints _ _ _ _ _ _ t h Ex.res123
  refine ⟨t, h, ?_, h5 Ex.netIdx⟩
  rw [h1]; simp [prefixOffs, Ex.links, Ex.l1, Ex.l2, Ex.l3]; norm_num

/-! ## 2b — counts -/

/-- **C06 (2b, any state).**  The internal index counts stay mutually consistent under every
    accepted `extend` on validated links, from any state whose three profiles end at the same offset. -/
def C06_counts_preserved_statement : Prop :=
  ∀ (toU32 : α → Nat) (g : GeoConsts α) (net : List (Link α))
    (route : List Nat) (links : List (Link α)) (t t' : Tpc α),
    extend toU32 g net t route = .ok t' → Resolves net route links → (∀ l ∈ links, LinkOK l) →
    Inv t → countsConsistent t = true → countsConsistent t' = true

theorem C06_counts_preserved : C06_counts_preserved_statement (α := α) := by
  intro toU32 g net route links t t' h hres hok hinv hcc
  obtain ⟨L, last, G, gl, C, cl, hL, hG, hC, _, _, e1, e2, e3, e4, _, e5, e6⟩ :=
    extend_ok_closed toU32 g net h hres hok hinv
  have ht : t = ⟨L ++ [last], G ++ [gl], C ++ [cl], t.speedPoints, t.cats, t.par, t.isFinished⟩ := by
    cases t; simp only at hL hG hC; subst hL hG hC; rfl
  rw [ht] at hcc
  have := counts_closed g links hok L last G C gl cl t.cats t.speedPoints t'.speedPoints t.par
    t.isFinished last.off gl.coeff (initNet G gl.net links) cl.coeff cl.net hcc
  have ht' : t' = ⟨L ++ routeLPs last links,
      G ++ routeGrades last.off gl.coeff (initNet G gl.net links) links,
      C ++ routeCurves g t.par last.off cl.coeff cl.net links, t'.speedPoints,
      t.cats ++ routeCats last.off links, t.par, t.isFinished⟩ := by
    cases t'; simp only at e1 e2 e3 e4 e5 e6; subst e1 e2 e3 e4 e5 e6; rfl
  rw [ht']; exact this

/-- **C06 (2b).**  The count cross-checks of `ObjState for PathTpc` hold, every real link point
    carries the number of grade / curve / catenary entries its link contributed. -/
def C06_counts_statement : Prop :=
  ∀ (toU32 : α → Nat) (g : GeoConsts α) (net : List (Link α)) (par : TrainPar α)
    (route : List Nat) (links : List (Link α)) (t : Tpc α),
    extend toU32 g net (Tpc.new par) route = .ok t → Resolves net route links →
    -- forced: a link with one elevation point breaks the first check (`extend_one_elev_counterexample`)
    (∀ l ∈ links, LinkOK l) →
      countsConsistent t = true ∧
      t.linkPoints.dropLast.map (·.gradeCount) = links.map (fun l => l.elevs.length - 1) ∧
      t.linkPoints.dropLast.map (·.curveCount) = links.map (fun l => max l.headings.length 2 - 1) ∧
      t.linkPoints.dropLast.map (·.catCount) = links.map (fun l => l.cats.length) ∧
      t.grades.length = (links.map (fun l => l.elevs.length - 1)).sum + 1 ∧
      t.curves.length = (links.map (fun l => max l.headings.length 2 - 1)).sum + 1 ∧
      t.cats.length = (links.map (fun l => l.cats.length)).sum

theorem C06_counts : C06_counts_statement (α := α) := by
  intro toU32 g net par route links t h hres hok
  obtain ⟨e1, e2, e3, e4, _⟩ := extend_new_closed toU32 g net par h hres hok
  have s1 : links.map (fun l => max l.elevs.length 2 - 1) = links.map (fun l => l.elevs.length - 1) :=
    List.map_congr_left fun l hl => gradeCount_ok (hok l hl)
  have s2 : links.map (fun l => if l.headings.isEmpty then 1 else l.headings.length - 1) =
      links.map (fun l => max l.headings.length 2 - 1) :=
    List.map_congr_left fun l hl => (curveCount_ok (hok l hl)).symm
  refine ⟨?_, ?_, ?_, ?_, ?_, ?_, ?_⟩
  · exact C06_counts_preserved toU32 g net route links _ t h hres hok (inv_new par)
      (by simp [countsConsistent, Tpc.new])
  · rw [e1, routeLPs_dropLast, lpsBody_gradeCount, s1]
  · rw [e1, routeLPs_dropLast, lpsBody_curveCount]
  · rw [e1, routeLPs_dropLast, lpsBody_catCount]
  · rw [e2, routeGrades_length]
  · rw [e3, routeCurves_length, s2]
  · rw [e4, routeCats_length]

example : ∃ t, extend Ex.u32 Ex.gq Ex.net (Tpc.new Ex.par) [1, 2, 3] = .ok t ∧
    countsConsistent t = true ∧ t.linkPoints.dropLast.map (·.gradeCount) = [2, 1, 2] := by
  obtain ⟨t, h⟩ := Ex.ext123
  obtain ⟨h1, h2, _⟩ := C06_counts _ _ _ _ _ _ t h Ex.res123 Ex.oklinks
  exact ⟨t, h, h1, h2⟩

/-! ## 2e — catenary -/

/-- **C06 (2e).**  The catenary sections are the route's sections, link by link, each shifted by the
    link's base offset. -/
def C06_cats_statement : Prop :=
  ∀ (toU32 : α → Nat) (g : GeoConsts α) (net : List (Link α)) (par : TrainPar α)
    (route : List Nat) (links : List (Link α)) (t : Tpc α),
    extend toU32 g net (Tpc.new par) route = .ok t → Resolves net route links →
    -- forced: the base comes from `grades.last().offset`, which is the cumulative length only for
    -- validated links (`extend_one_elev_counterexample`)
    (∀ l ∈ links, LinkOK l) →
      t.cats = ((prefixOffs 0 links).zip links).flatMap
        (fun ol => ol.2.cats.map (fun c => { c with s := ol.1 + c.s, e := ol.1 + c.e }))

theorem C06_cats : C06_cats_statement (α := α) := by
  intro toU32 g net par route links t h hres hok
  obtain ⟨_, _, _, e4, _⟩ := extend_new_closed toU32 g net par h hres hok
  rw [e4, routeCats_eq_flatMap]; rfl

example : ∃ t, extend Ex.u32 Ex.gq Ex.net (Tpc.new Ex.par) [1, 2, 3] = .ok t ∧
    t.cats = [⟨100, 900, 5000, some 1⟩, ⟨1500, 2300, 3000, none⟩] := by
  obtain ⟨t, h⟩ := Ex.ext123
  refine ⟨t, h, ?_⟩
  rw [C06_cats _ _ _ _ _ _ t h Ex.res123 Ex.oklinks]
  simp [prefixOffs, Ex.links, Ex.l1, Ex.l2, Ex.l3]; norm_num

/-! ## 3 — contiguity: acceptance and rejection -/

/-- what the four `ensure!`s of the contiguity block test -/
theorem linked_iff (prev : Nat) (l : Link α) :
    linked prev l = true ↔ prev ≠ 0 ∧ (l.idxPrev ≠ l.idxPrevAlt ∨ l.idxPrevAlt = 0) ∧
      (l.idxNext ≠ l.idxNextAlt ∨ l.idxNextAlt = 0) ∧ (l.idxPrev = prev ∨ l.idxPrevAlt = prev) := by
  simp [linked, and_assoc]

/-- **C06 (3, acceptance).**  On a fresh path a resolved (in-range) route is accepted exactly when
    no index is fake, every consecutive pair passes the contiguity checks (`linked`: the previous link
    is real, `idx_prev`/`idx_prev_alt` name it, and the `alt` entries are not duplicates) and the
    speed-limit part (`add_speeds`, C02/C13; includes "a speed set is available") does not fail.
    The first link of a fresh path is never checked (the block only runs when
    `link_points.len() >= 2`).  No hypothesis on the links: loop 2 cannot fail after loop 1. -/
def C06_accept_iff_statement : Prop :=
  ∀ (toU32 : α → Nat) (g : GeoConsts α) (net : List (Link α)) (par : TrainPar α)
    (route : List Nat) (links : List (Link α)),
    Resolves net route links →
    ((∃ t, extend toU32 g net (Tpc.new par) route = .ok t) ↔
      (∀ i ∈ route, i ≠ 0) ∧ links.IsChain (fun a b => linked a.idxCurr b = true) ∧
      ∃ sp, routeSpeeds toU32 par [⟨0, par.tp.speedMax⟩] 0 links = .ok sp)

theorem C06_accept_iff : C06_accept_iff_statement (α := α) := by
  intro toU32 g net par route links hres
  have key := extend_accept_iff toU32 g net (Tpc.new par) route links [] ⟨0, 0, 0, 0, 0⟩ hres rfl
    (by simp [Tpc.new]) (by simp [Tpc.new]) (by simp [Tpc.new])
  have hc : contig none links = true ↔ links.IsChain (fun a b => linked a.idxCurr b = true) := by
    rw [contig_iff]; simp [linkedOpt]
  rw [key]
  constructor
  · rintro ⟨h0, h1, h2⟩; exact ⟨h0, hc.mp h1, h2⟩
  · rintro ⟨h0, h1, h2⟩; exact ⟨h0, hc.mpr h1, h2⟩

example : (∀ i ∈ [1, 2, 3], i ≠ 0) ∧ Ex.links.IsChain (fun a b => linked a.idxCurr b = true) ∧
    ∃ sp, routeSpeeds Ex.u32 Ex.par [⟨0, Ex.par.tp.speedMax⟩] 0 Ex.links = .ok sp :=
  (C06_accept_iff Ex.u32 Ex.gq Ex.net Ex.par [1, 2, 3] Ex.links Ex.res123).mp Ex.ext123

/-- the same from any state with non-empty vectors: the link in front of the first new link is the one
    of the last real link point (`prevIdx`), the speed part starts at the last link-point offset -/
def C06_accept_iff_general_statement : Prop :=
  ∀ (toU32 : α → Nat) (g : GeoConsts α) (net : List (Link α)) (t : Tpc α)
    (route : List Nat) (links : List (Link α)),
    Resolves net route links →
    -- forced: the four `ensure!`s at the top of `extend`
    t.grades ≠ [] → t.curves ≠ [] → t.speedPoints ≠ [] →
    ∀ lastOff, t.linkPoints.getLast?.map (·.off) = some lastOff →
    ((∃ t', extend toU32 g net t route = .ok t') ↔
      (∀ i ∈ route, i ≠ 0) ∧ contig (prevIdx t.linkPoints) links = true ∧
      ∃ sp, routeSpeeds toU32 t.par t.speedPoints lastOff links = .ok sp)

theorem C06_accept_iff_general : C06_accept_iff_general_statement (α := α) := by
  intro toU32 g net t route links hres hg hc hS lastOff hlast
  obtain ⟨L, last, hL, rfl⟩ := getLast?_map_some hlast
  have hp : prevIdx t.linkPoints = L.getLast?.map (·.linkIdx) := by
    unfold prevIdx; rw [hL, List.dropLast_concat]
  rw [hp]
  exact extend_accept_iff toU32 g net t route links L last hres hL hg hc hS

/-- **C06 (3, an accepted route is contiguous).**  No hypothesis on the links: if `extend` returns
    `Ok` then no route index is fake and every consecutive pair is linked — contrapositively a
    non-contiguous route is never accepted. -/
def C06_ok_contig_statement : Prop :=
  ∀ (toU32 : α → Nat) (g : GeoConsts α) (net : List (Link α)) (par : TrainPar α)
    (route : List Nat) (links : List (Link α)) (t : Tpc α),
    extend toU32 g net (Tpc.new par) route = .ok t → Resolves net route links →
      (∀ i ∈ route, i ≠ 0) ∧ links.IsChain (fun a b => linked a.idxCurr b = true)

theorem C06_ok_contig : C06_ok_contig_statement (α := α) := by
  intro toU32 g net par route links t h hres
  obtain ⟨h0, h1⟩ := extend_ok_contig toU32 g net h hres (L := []) (last := ⟨0, 0, 0, 0, 0⟩) rfl
  refine ⟨h0, ?_⟩
  rw [contig_iff] at h1; exact h1.2

/-- contrapositive form: a route with a fake index or an unlinked consecutive pair is not accepted -/
theorem C06_noncontig_not_ok (toU32 : α → Nat) (g : GeoConsts α) (net : List (Link α))
    (par : TrainPar α) (route : List Nat) (links : List (Link α)) (hres : Resolves net route links)
    (hbad : (∃ i ∈ route, i = 0) ∨ ¬ links.IsChain (fun a b => linked a.idxCurr b = true)) :
    ∀ t, extend toU32 g net (Tpc.new par) route ≠ .ok t := by
  intro t h
  obtain ⟨h0, h1⟩ := C06_ok_contig toU32 g net par route links t h hres
  rcases hbad with ⟨i, hi, rfl⟩ | hbad
  · exact h0 0 hi rfl
  · exact hbad h1

example : ∀ t, extend Ex.u32 Ex.gq Ex.net (Tpc.new Ex.par) [1, 5] ≠ .ok t :=
  C06_noncontig_not_ok _ _ _ _ _ [Ex.l1, Ex.l5] rfl (Or.inr (by decide +kernel))

/-- **C06 (3, rejection is an `Err`).**  If the part of the route in front of a link is accepted, the
    link is in range, and it is fake or fails a contiguity check against the link in front of it,
    then the whole call returns `Err` (not a panic, not `Ok`). -/
def C06_reject_statement : Prop :=
  ∀ (toU32 : α → Nat) (g : GeoConsts α) (net : List (Link α)) (t t1 : Tpc α)
    (pre : List Nat) (idx : Nat) (rest : List Nat) (l : Link α),
    extend toU32 g net t pre = .ok t1 → net[idx]? = some l →
    (idx = 0 ∨ linkedOpt (prevIdx t1.linkPoints) l = false) →
    ∃ tag, extend toU32 g net t (pre ++ idx :: rest) = .err tag

theorem C06_reject : C06_reject_statement (α := α) := by
  intro toU32 g net t t1 pre idx rest l hpre hl hbad
  obtain ⟨n1, _⟩ := extend_ok_ne_nil toU32 g net hpre
  obtain ⟨L, last, hL⟩ := eq_append_of_ne_nil n1
  have hp : prevIdx t1.linkPoints = L.getLast?.map (·.linkIdx) := by
    unfold prevIdx; rw [hL, List.dropLast_concat]
  rw [hp] at hbad
  exact extend_reject_mid toU32 g net t t1 pre idx rest L last l hpre hL hl hbad

example : ∃ tag, extend Ex.u32 Ex.gq Ex.net (Tpc.new Ex.par) ([1, 2] ++ 5 :: [3]) = .err tag := by
  obtain ⟨t1, h1, hp⟩ := okAnd_exists
    (r := extend Ex.u32 Ex.gq Ex.net (Tpc.new Ex.par) [1, 2])
    (p := fun t1 => linkedOpt (prevIdx t1.linkPoints) Ex.l5 == false) (by decide +kernel)
  exact C06_reject _ _ _ _ t1 [1, 2] 5 [3] Ex.l5 h1 rfl (Or.inr (by simpa using hp))

/-- the first link of a call against the last link already in the path (any state) -/
def C06_reject_first_statement : Prop :=
  ∀ (toU32 : α → Nat) (g : GeoConsts α) (net : List (Link α)) (t : Tpc α)
    (idx : Nat) (rest : List Nat) (l : Link α),
    t.linkPoints ≠ [] → t.grades ≠ [] → t.curves ≠ [] → t.speedPoints ≠ [] → net[idx]? = some l →
    (idx = 0 ∨ linkedOpt (prevIdx t.linkPoints) l = false) →
    ∃ tag, extend toU32 g net t (idx :: rest) = .err tag

theorem C06_reject_first : C06_reject_first_statement (α := α) := by
  intro toU32 g net t idx rest l n1 n2 n3 n4 hl hbad
  obtain ⟨L, last, hL⟩ := eq_append_of_ne_nil n1
  have hp : prevIdx t.linkPoints = L.getLast?.map (·.linkIdx) := by
    unfold prevIdx; rw [hL, List.dropLast_concat]
  rw [hp] at hbad
  exact extend_reject_first toU32 g net t idx rest L last l hL n2 n3 n4 hl hbad

example : ∃ tag, extend Ex.u32 Ex.gq Ex.net (Tpc.new Ex.par) (0 :: [1]) = .err tag :=
  C06_reject_first _ _ _ _ 0 [1] Ex.l0 (by simp [Tpc.new]) (by simp [Tpc.new]) (by simp [Tpc.new])
    (by simp [Tpc.new]) rfl (Or.inl rfl)

/-! ## 2c — grades and elevation -/

/-- the elevation the profile starts from: the first elevation of the first link -/
def startElev (links : List (Link α)) : α :=
  match links with
  | [] => 0
  | l :: _ => elevFirst l.elevs

theorem initNet_new (links : List (Link α)) : initNet [] 0 links = startElev links := by
  cases links <;> rfl

theorem routeElev_eq (links : List (Link α)) (x : α) :
    routeElev links x = routeElevFrom (startElev links) links x := by
  cases links <;> rfl

/-- **C06 (2c, closed form).**  `grades` is, link by link, one point per consecutive elevation pair
    `(p, c)` at offset `base + p.off` with slope `(c.elev − p.elev)/(c.off − p.off)` and cumulative
    value `start + (rise of the links in front) + (p.elev − first elevation of the link)`, followed by
    one terminal point at the total length (`routeGrades`, unfolded by `rfl`/`simp`). -/
def C06_grades_statement : Prop :=
  ∀ (toU32 : α → Nat) (g : GeoConsts α) (net : List (Link α)) (par : TrainPar α)
    (route : List Nat) (links : List (Link α)) (t : Tpc α),
    extend toU32 g net (Tpc.new par) route = .ok t → Resolves net route links →
    (∀ l ∈ links, LinkOK l) →   -- forced (`extend_one_elev_counterexample`)
      t.grades = routeGrades 0 0 (startElev links) links

theorem C06_grades : C06_grades_statement (α := α) := by
  intro toU32 g net par route links t h hres hok
  obtain ⟨_, e2, _⟩ := extend_new_closed toU32 g net par h hres hok
  rw [e2, initNet_new]

/-- **C06 (2c, every grade point).**  For the `k`-th link `l` of the route (`links = pre ++ l :: post`)
    and each consecutive elevation pair `(p, c)` of `l` (`l.elevs = es1 ++ p :: c :: es2`): the grade
    point with index `(sum of the grade counts of the links in front) + es1.length` sits at offset
    `(length of pre) + p.off`, has coefficient `(c.elev − p.elev)/(c.off − p.off)` and cumulative value
    `start + rise(pre) + (p.elev − first elevation of l)`. -/
def C06_grade_point_statement : Prop :=
  ∀ (toU32 : α → Nat) (g : GeoConsts α) (net : List (Link α)) (par : TrainPar α)
    (route : List Nat) (links : List (Link α)) (t : Tpc α),
    extend toU32 g net (Tpc.new par) route = .ok t → Resolves net route links →
    (∀ l ∈ links, LinkOK l) →
    ∀ (pre : List (Link α)) (l : Link α) (post : List (Link α)) (es1 : List (Elev α)) (p c : Elev α)
      (es2 : List (Elev α)), links = pre ++ l :: post → l.elevs = es1 ++ p :: c :: es2 →
      t.grades[(pre.map gradeCnt).sum + es1.length]? =
        some ⟨routeLen pre + p.off, (c.elev - p.elev) / (c.off - p.off),
              startElev links + routeRise pre + (p.elev - elevFirst l.elevs)⟩

theorem C06_grade_point : C06_grade_point_statement (α := α) := by
  intro toU32 g net par route links t h hres hok pre l post es1 p c es2 hlinks hes
  rw [C06_grades toU32 g net par route links t h hres hok, hlinks]
  have hj : es1.length < gradeCnt l := by
    unfold gradeCnt; rw [hes]; simp
  rw [routeGrades_getElem pre l post 0 0 _ es1.length hj, hes, segGrades_getElem, zero_add]

example : ∃ t, extend Ex.u32 Ex.gq Ex.net (Tpc.new Ex.par) [1, 2, 3] = .ok t ∧
    t.grades[4]? = some ⟨1800, 0, 12⟩ := by
  obtain ⟨t, h⟩ := Ex.ext123
  have := C06_grade_point _ _ _ _ _ _ t h Ex.res123 Ex.oklinks [Ex.l1, Ex.l2] Ex.l3 []
    [⟨0, 9⟩] ⟨300, 12⟩ ⟨800, 12⟩ [] rfl rfl
  refine ⟨t, h, ?_⟩
  have e : ([Ex.l1, Ex.l2].map gradeCnt).sum + [(⟨0, 9⟩ : Elev ℚ)].length = 4 := by decide
  rw [e] at this
  rw [this]
  simp [routeLen, routeRise, startElev, elevFirst, elevLast, Ex.links, Ex.l1, Ex.l2, Ex.l3]
  norm_num

/-- **C06 (2c, elevation).**  Neighbouring grade points have strictly increasing offsets inside
    `[0, total length]`, and on the closed segment between them the piecewise-linear value
    `res_net + res_coeff·(x − offset)` (`prcVal`, = `PathResCoeff::calc_res_val`) equals the elevation
    obtained by walking the route's own elevation points (`routeElev`).  Both ends are included, so the
    profile is continuous across point and link boundaries. -/
def C06_elev_statement : Prop :=
  ∀ (toU32 : α → Nat) (g : GeoConsts α) (net : List (Link α)) (par : TrainPar α)
    (route : List Nat) (links : List (Link α)) (t : Tpc α),
    extend toU32 g net (Tpc.new par) route = .ok t → Resolves net route links →
    (∀ l ∈ links, LinkOK l) →   -- forced: offsets must increase (slope denominators) and span `[0, length]`
    ∀ (i : Nat) (hi : i + 1 < t.grades.length),
      0 ≤ t.grades[i].off ∧ t.grades[i].off < t.grades[i + 1].off ∧
      t.grades[i + 1].off ≤ routeLen links ∧
      ∀ x, t.grades[i].off ≤ x → x ≤ t.grades[i + 1].off →
        prcVal t.grades[i] x = routeElev links x

theorem C06_elev : C06_elev_statement (α := α) := by
  intro toU32 g net par route links t h hres hok i hi
  have hg := C06_grades toU32 g net par route links t h hres hok
  have hch := routeGrades_chain links hok 0 0 (startElev links)
  rw [← hg, List.isChain_iff_getElem] at hch
  obtain ⟨h1, h2, h3, h4⟩ := hch i hi
  refine ⟨h1, h2, by simpa using h3, ?_⟩
  intro x hx1 hx2
  rw [h4 x hx1 hx2, routeElev_eq]
  dsimp only
  rw [sub_zero]

example : ∃ t, extend Ex.u32 Ex.gq Ex.net (Tpc.new Ex.par) [1, 2, 3] = .ok t ∧
    ∃ hi : 3 + 1 < t.grades.length, ∀ x, t.grades[3].off ≤ x → x ≤ t.grades[3 + 1].off →
      prcVal t.grades[3] x = routeElev Ex.links x := by
  obtain ⟨t, h⟩ := Ex.ext123
  have hlen : t.grades.length = 6 := by
    rw [(C06_counts _ _ _ _ _ _ t h Ex.res123 Ex.oklinks).2.2.2.2.1]; decide
  exact ⟨t, h, by omega, (C06_elev _ _ _ _ _ _ t h Ex.res123 Ex.oklinks 3 (by omega)).2.2.2⟩

/-- every position of the route lies in some segment, so `C06_elev` determines the elevation at every
    `x ∈ [0, total length]` -/
theorem exists_seg (x : α) : ∀ (l : List (PRC α)) (a : PRC α) (hi : α), l ≠ [] →
    (a :: l).getLast?.map (·.off) = some hi → a.off ≤ x → x ≤ hi →
    ∃ (i : Nat) (h : i + 1 < (a :: l).length), (a :: l)[i].off ≤ x ∧ x ≤ (a :: l)[i + 1].off := by
  intro l
  induction l with
  | nil => intro a hi h; exact absurd rfl h
  | cons b t ih =>
    intro a hi _ hlast ha hx
    by_cases hb : x ≤ b.off
    · exact ⟨0, by simp, ha, hb⟩
    · cases t with
      | nil =>
        simp at hlast; subst hlast; exact absurd hx hb
      | cons c t' =>
        rw [List.getLast?_cons_cons] at hlast
        obtain ⟨i, hi', h1, h2⟩ := ih b hi (by simp) hlast (le_of_lt (not_le.mp hb)) hx
        exact ⟨i + 1, by simpa using hi', by simpa using h1, by simpa using h2⟩

def C06_elev_exists_statement : Prop :=
  ∀ (toU32 : α → Nat) (g : GeoConsts α) (net : List (Link α)) (par : TrainPar α)
    (route : List Nat) (links : List (Link α)) (t : Tpc α),
    extend toU32 g net (Tpc.new par) route = .ok t → Resolves net route links →
    (∀ l ∈ links, LinkOK l) → links ≠ [] →
    ∀ x, 0 ≤ x → x ≤ routeLen links →
      ∃ (i : Nat) (hi : i + 1 < t.grades.length), t.grades[i].off ≤ x ∧ x ≤ t.grades[i + 1].off ∧
        prcVal t.grades[i] x = routeElev links x

theorem C06_elev_exists : C06_elev_exists_statement (α := α) := by
  intro toU32 g net par route links t h hres hok hne x hx0 hx1
  have hg := C06_grades toU32 g net par route links t h hres hok
  obtain ⟨T, rest, hT, hToff⟩ := routeGrades_head links hok 0 0 (startElev links)
  have hlast := routeGrades_getLast_off links 0 0 (startElev links)
  rw [hT, zero_add] at hlast
  have hrest : rest ≠ [] := by
    intro h0
    have hlen := routeGrades_length links 0 0 (startElev links)
    rw [hT, h0] at hlen
    obtain ⟨l, ls, rfl⟩ := List.exists_cons_of_ne_nil hne
    have := (hok l (by simp)).elev_two
    simp at hlen; omega
  obtain ⟨i, hi, h1, h2⟩ := exists_seg x rest T (routeLen links) hrest hlast (by rw [hToff]; exact hx0) hx1
  have hgt : t.grades = T :: rest := by rw [hg, hT]
  have hi' : i + 1 < t.grades.length := by rw [hgt]; exact hi
  refine ⟨i, hi', ?_, ?_, ?_⟩
  · simpa [hgt] using h1
  · simpa [hgt] using h2
  · exact (C06_elev toU32 g net par route links t h hres hok i hi').2.2.2 x
      (by simpa [hgt] using h1) (by simpa [hgt] using h2)

example : ∃ t, extend Ex.u32 Ex.gq Ex.net (Tpc.new Ex.par) [1, 2, 3] = .ok t ∧
    ∃ (i : Nat) (hi : i + 1 < t.grades.length), prcVal t.grades[i] 1250 = routeElev Ex.links 1250 := by
  obtain ⟨t, h⟩ := Ex.ext123
  obtain ⟨i, hi, _, _, h3⟩ := C06_elev_exists _ _ _ _ _ _ t h Ex.res123 Ex.oklinks (by simp [Ex.links])
    1250 (by norm_num) (by simp [routeLen, Ex.links, Ex.l1, Ex.l2, Ex.l3]; norm_num)
  exact ⟨t, h, i, hi, h3⟩

/-- the walked elevation at 1250 m of the example route: 8 m at the end of link 1, then half of the
    1 m rise of link 2 -/
example : routeElev Ex.links 1250 = 17 / 2 := by decide +kernel

/-! ## 2d — curves -/

/-- **C06 (2d, closed form).**  `curves` is, link by link, one point per consecutive heading pair
    `(p, c)` at offset `base + p.off` with coefficient `curveCoeff g par (c.heading − p.heading)
    (c.off − p.off)`; a link without headings contributes the single point `⟨base, 0, net⟩`; one
    terminal point at the total length (`routeCurves`). -/
def C06_curves_statement : Prop :=
  ∀ (toU32 : α → Nat) (g : GeoConsts α) (net : List (Link α)) (par : TrainPar α)
    (route : List Nat) (links : List (Link α)) (t : Tpc α),
    extend toU32 g net (Tpc.new par) route = .ok t → Resolves net route links →
    (∀ l ∈ links, LinkOK l) →   -- forced: the base is `grades.last().offset`
      t.curves = routeCurves g par 0 0 0 links

theorem C06_curves : C06_curves_statement (α := α) := by
  intro toU32 g net par route links t h hres hok
  exact (extend_new_closed toU32 g net par h hres hok).2.2.1

/-- **C06 (2d, every curve point).** -/
def C06_curve_point_statement : Prop :=
  ∀ (toU32 : α → Nat) (g : GeoConsts α) (net : List (Link α)) (par : TrainPar α)
    (route : List Nat) (links : List (Link α)) (t : Tpc α),
    extend toU32 g net (Tpc.new par) route = .ok t → Resolves net route links →
    (∀ l ∈ links, LinkOK l) →
    ∀ (pre : List (Link α)) (l : Link α) (post : List (Link α)) (hs1 : List (Heading α))
      (p c : Heading α) (hs2 : List (Heading α)), links = pre ++ l :: post →
      l.headings = hs1 ++ p :: c :: hs2 →
      ∃ nk, t.curves[(pre.map curveCnt).sum + hs1.length]? =
        some ⟨routeLen pre + p.off, curveCoeff g par (c.heading - p.heading) (c.off - p.off), nk⟩

theorem C06_curve_point : C06_curve_point_statement (α := α) := by
  intro toU32 g net par route links t h hres hok pre l post hs1 p c hs2 hlinks hhs
  rw [C06_curves toU32 g net par route links t h hres hok, hlinks]
  have hne : l.headings.isEmpty = false := by rw [hhs]; cases hs1 <;> rfl
  have hj : hs1.length < curveCnt l := by
    unfold curveCnt; rw [hne, hhs]; simp
  obtain ⟨nk, hk⟩ := routeCurves_getElem g par pre l post 0 0 hs1.length hj
  obtain ⟨nk', hk'⟩ := segCurves_getElem g par (0 + routeLen pre) hs1 p c hs2 nk
  refine ⟨nk', ?_⟩
  rw [hk, hne]
  simp only [Bool.false_eq_true, if_false]
  rw [hhs, hk', zero_add]

example : ∃ t, extend Ex.u32 Ex.gq Ex.net (Tpc.new Ex.par) [1, 2, 3] = .ok t ∧
    ∃ nk, t.curves[2]? = some ⟨1500, curveCoeff Ex.gq Ex.par (1/5 - 59/10) 800, nk⟩ := by
  obtain ⟨t, h⟩ := Ex.ext123
  obtain ⟨nk, hk⟩ := C06_curve_point _ _ _ _ _ _ t h Ex.res123 Ex.oklinks [Ex.l1, Ex.l2] Ex.l3 []
    [] ⟨0, 59/10⟩ ⟨800, 1/5⟩ [] rfl rfl
  refine ⟨t, h, nk, ?_⟩
  have e : ([Ex.l1, Ex.l2].map curveCnt).sum + ([] : List (Heading ℚ)).length = 2 := by decide
  rw [e] at hk
  rw [hk]
  simp [routeLen, Ex.l1, Ex.l2]
  norm_num

/-- **C06 (2d, links without headings).**  A link without headings contributes exactly one curve
    point: at its base offset, with coefficient `0`; the next point sits one link length further. -/
def C06_curve_no_headings_statement : Prop :=
  ∀ (toU32 : α → Nat) (g : GeoConsts α) (net : List (Link α)) (par : TrainPar α)
    (route : List Nat) (links : List (Link α)) (t : Tpc α),
    extend toU32 g net (Tpc.new par) route = .ok t → Resolves net route links →
    (∀ l ∈ links, LinkOK l) →
    ∀ (pre : List (Link α)) (l : Link α) (post : List (Link α)), links = pre ++ l :: post →
      l.headings = [] →
      curveCnt l = 1 ∧
      ∃ nk T, t.curves[(pre.map curveCnt).sum]? = some ⟨routeLen pre, 0, nk⟩ ∧
        t.curves[(pre.map curveCnt).sum + 1]? = some T ∧ T.off = routeLen pre + l.length

theorem C06_curve_no_headings : C06_curve_no_headings_statement (α := α) := by
  intro toU32 g net par route links t h hres hok pre l post hlinks hh
  have hpost : ∀ x ∈ post, LinkOK x := fun x hx => hok x (by rw [hlinks]; simp [hx])
  refine ⟨by unfold curveCnt; rw [hh]; rfl, ?_⟩
  obtain ⟨nk, hd⟩ := routeCurves_drop g par pre (l :: post) 0 0
  obtain ⟨T, rest, hT, hToff⟩ := routeCurves_head g par post hpost (0 + routeLen pre + l.length) 0
    (curvesNet g par nk l.headings)
  rw [routeCurves, hh] at hd
  simp only [List.isEmpty_nil, if_true, List.singleton_append] at hd
  rw [hh] at hT
  rw [hT] at hd
  have hc := C06_curves toU32 g net par route links t h hres hok
  rw [hlinks] at hc
  rw [← hc] at hd
  refine ⟨nk, T, ?_, ?_, ?_⟩
  · have := congrArg (fun l => l[0]?) hd
    simpa [List.getElem?_drop] using this
  · have := congrArg (fun l => l[1]?) hd
    simpa [List.getElem?_drop] using this
  · rw [hToff, zero_add]

example : ∃ t, extend Ex.u32 Ex.gq Ex.net (Tpc.new Ex.par) [1, 2, 3] = .ok t ∧
    ∃ nk T, t.curves[1]? = some ⟨1000, 0, nk⟩ ∧ t.curves[2]? = some T ∧ T.off = 1500 := by
  obtain ⟨t, h⟩ := Ex.ext123
  obtain ⟨_, nk, T, h1, h2, h3⟩ := C06_curve_no_headings _ _ _ _ _ _ t h Ex.res123 Ex.oklinks
    [Ex.l1] Ex.l2 [Ex.l3] rfl rfl
  have e : ([Ex.l1].map curveCnt).sum = 1 := by decide
  rw [e] at h1 h2
  refine ⟨t, h, nk, T, ?_, h2, ?_⟩
  · rw [h1]; simp [routeLen, Ex.l1]
  · rw [h3]; simp [routeLen, Ex.l1, Ex.l2]; norm_num

/-! ## 1 — any partition of the route -/

/-- **C06 (1, two calls).**  `extend` over `a ++ b` is `extend` over `a` followed by `extend` over
    `b`: the same `PathTpc` in all fields, and the same `Err`/panic outcome otherwise.  Any state `t`,
    any network, no contiguity or validity assumption beyond the one stated. -/
def C06_extend_append_statement : Prop :=
  ∀ (toU32 : α → Nat) (g : GeoConsts α) (net : List (Link α)) (t : Tpc α) (a b : List Nat),
    -- forced (`extend_append_counterexample`): on a fresh path, a first part made only of links with
    -- exactly one elevation point leaves `grades.len() == 1` and the second call re-applies the
    -- initial elevation.  `Link::validate` demands at least two points.
    (t.grades.length = 1 → ∀ i ∈ a, ∀ l, net[i]? = some l → l.elevs.length ≠ 1) →
    extend toU32 g net t (a ++ b) =
      (extend toU32 g net t a).bind (fun t' => extend toU32 g net t' b)

theorem C06_extend_append : C06_extend_append_statement (α := α) :=
  fun toU32 g net t a b h => extend_append toU32 g net t a b h

example : extend Ex.u32 Ex.gq Ex.net (Tpc.new Ex.par) ([1] ++ [2, 3]) =
    (extend Ex.u32 Ex.gq Ex.net (Tpc.new Ex.par) [1]).bind
      (fun t' => extend Ex.u32 Ex.gq Ex.net t' [2, 3]) :=
  C06_extend_append _ _ _ _ _ _ (by
    intro _ i hi l hl
    rw [List.mem_singleton.mp hi] at hl
    cases hl; decide)

/-- **C06 (1, any partition).**  Splitting a route into any non-empty sequence of successive `extend`
    calls (`extendSeq`) gives the outcome of the single call on the whole route. -/
def C06_partition_statement : Prop :=
  ∀ (toU32 : α → Nat) (g : GeoConsts α) (net : List (Link α)) (t : Tpc α) (parts : List (List Nat)),
    (∀ l ∈ net, l.elevs.length ≠ 1) →   -- forced, as above
    parts ≠ [] →   -- zero calls return `t` itself, whereas `extend t []` re-runs the four `ensure!`s
    extendSeq toU32 g net t parts = extend toU32 g net t parts.flatten

theorem C06_partition : C06_partition_statement (α := α) :=
  fun toU32 g net t parts hnet hne => extendSeq_eq toU32 g net hnet parts t hne

/-- two partitions of the same route build the identical profile -/
theorem C06_partition_indep (toU32 : α → Nat) (g : GeoConsts α) (net : List (Link α)) (t : Tpc α)
    (p1 p2 : List (List Nat)) (hnet : ∀ l ∈ net, l.elevs.length ≠ 1) (h1 : p1 ≠ []) (h2 : p2 ≠ [])
    (h : p1.flatten = p2.flatten) :
    extendSeq toU32 g net t p1 = extendSeq toU32 g net t p2 := by
  rw [C06_partition toU32 g net t p1 hnet h1, C06_partition toU32 g net t p2 hnet h2, h]

example : extendSeq Ex.u32 Ex.gq Ex.netV (Tpc.new Ex.par) [[1], [], [2, 3]] =
    extendSeq Ex.u32 Ex.gq Ex.netV (Tpc.new Ex.par) [[1, 2], [3]] :=
  C06_partition_indep _ _ _ _ _ _ Ex.netV_ok (by simp) (by simp) rfl

example : (extendSeq Ex.u32 Ex.gq Ex.netV (Tpc.new Ex.par) [[1], [], [2, 3]]).isOk = true := by
  decide +kernel

/-- **C06 (invariant).**  `grades.last.off = curves.last.off = linkPoints.last.off` holds for a fresh
    path and is preserved by every accepted `extend` on validated links — the reason the two different
    base offsets used by the two loops coincide. -/
def C06_inv_statement : Prop :=
  (∀ par : TrainPar α, Inv (Tpc.new par)) ∧
  ∀ (toU32 : α → Nat) (g : GeoConsts α) (net : List (Link α))
    (route : List Nat) (links : List (Link α)) (t t' : Tpc α),
    extend toU32 g net t route = .ok t' → Resolves net route links →
    (∀ l ∈ links, LinkOK l) →   -- forced (`extend_one_elev_counterexample`: 0 vs 100)
    Inv t → Inv t'

theorem C06_inv : C06_inv_statement (α := α) :=
  ⟨inv_new, fun toU32 g net _ _ _ _ h hres hok hinv => extend_inv toU32 g net h hres hok hinv⟩

example : ∃ t, extend Ex.u32 Ex.gq Ex.net (Tpc.new Ex.par) [1, 2, 3] = .ok t ∧ Inv t := by
  obtain ⟨t, h⟩ := Ex.ext123
  exact ⟨t, h, C06_inv.2 _ _ _ _ _ _ t h Ex.res123 Ex.oklinks (C06_inv.1 _)⟩

/-- non-vacuity of the any-state theorems: extend by `[1]`, then by `[2, 3]` -/
example : ∃ t1 t2, extend Ex.u32 Ex.gq Ex.net (Tpc.new Ex.par) [1] = .ok t1 ∧
    extend Ex.u32 Ex.gq Ex.net t1 [2, 3] = .ok t2 ∧ countsConsistent t2 = true ∧ Inv t2 := by
  obtain ⟨t1, h1, _⟩ := okAnd_exists (r := extend Ex.u32 Ex.gq Ex.net (Tpc.new Ex.par) [1])
    (p := fun _ => true) (by decide +kernel)
  obtain ⟨t2, h2, _⟩ := okAnd_exists
    (r := (extend Ex.u32 Ex.gq Ex.net (Tpc.new Ex.par) [1]).bind (extend Ex.u32 Ex.gq Ex.net · [2, 3]))
    (p := fun _ => true) (by decide +kernel)
  rw [h1, bind_ok] at h2
  have ok1 : ∀ l ∈ [Ex.l1], LinkOK l := fun l hl => by
    rw [List.mem_singleton.mp hl]; exact Ex.ok1
  have ok23 : ∀ l ∈ [Ex.l2, Ex.l3], LinkOK l := fun l hl => Ex.oklinks l (by
    simp only [List.mem_cons, List.not_mem_nil, or_false] at hl
    rcases hl with rfl | rfl <;> simp [Ex.links])
  have inv1 : Inv t1 := C06_inv.2 _ _ _ _ [Ex.l1] _ t1 h1 rfl ok1 (C06_inv.1 _)
  have cc1 : countsConsistent t1 = true := (C06_counts _ _ _ _ _ [Ex.l1] t1 h1 rfl ok1).1
  exact ⟨t1, t2, h1, h2,
    C06_counts_preserved _ _ _ _ [Ex.l2, Ex.l3] t1 t2 h2 rfl ok23 inv1 cc1,
    C06_inv.2 _ _ _ _ [Ex.l2, Ex.l3] t1 t2 h2 rfl ok23 inv1⟩

example : ∃ t1, extend Ex.u32 Ex.gq Ex.net (Tpc.new Ex.par) [1] = .ok t1 ∧
    ((∃ t', extend Ex.u32 Ex.gq Ex.net t1 [2, 3] = .ok t') ↔
      (∀ i ∈ [2, 3], i ≠ 0) ∧ contig (prevIdx t1.linkPoints) [Ex.l2, Ex.l3] = true ∧
      ∃ sp, routeSpeeds Ex.u32 t1.par t1.speedPoints 1000 [Ex.l2, Ex.l3] = .ok sp) := by
  obtain ⟨t1, h1, hp⟩ := okAnd_exists (r := extend Ex.u32 Ex.gq Ex.net (Tpc.new Ex.par) [1])
    (p := fun t => t.linkPoints.getLast?.map (·.off) == some 1000) (by decide +kernel)
  obtain ⟨_, n2, n3, n4⟩ := extend_ok_ne_nil _ _ _ h1
  exact ⟨t1, h1, C06_accept_iff_general Ex.u32 Ex.gq Ex.net t1 [2, 3] [Ex.l2, Ex.l3] rfl n2 n3 n4
    1000 (by simpa using hp)⟩

end

/-! ## 4 — `LinkOK` is forced: a link with exactly one elevation point -/

/-- A link with exactly ONE elevation point pushes no grade point but is counted as one
    (`max 1 2 − 1 = 1`): the count cross-check fails, `grades` keeps its single point, and the base of
    the next link's grades (`grades.last.off = 0`) no longer equals the link-point base (`100`).
    Unreachable from a validated network (`Link::validate` demands two points). -/
theorem extend_one_elev_counterexample :
    ∃ t, extend Ex.u32 Ex.gq Ex.net (Tpc.new Ex.par) [4] = .ok t ∧
      countsConsistent t = false ∧ t.grades.length = 1 ∧
      t.linkPoints.dropLast.map (·.gradeCount) = [1] ∧
      t.grades.getLast?.map (·.off) = some 0 ∧ t.linkPoints.getLast?.map (·.off) = some 100 := by
  obtain ⟨t, h, hp⟩ := okAnd_exists
    (r := extend Ex.u32 Ex.gq Ex.net (Tpc.new Ex.par) [4])
    (p := fun t => !countsConsistent t && t.grades.length == 1 &&
      t.linkPoints.dropLast.map (·.gradeCount) == [1] &&
      t.grades.getLast?.map (·.off) == some 0 && t.linkPoints.getLast?.map (·.off) == some 100)
    (by decide +kernel)
  simp only [Bool.and_eq_true, Bool.not_eq_true', beq_iff_eq] at hp
  obtain ⟨⟨⟨⟨h1, h2⟩, h3⟩, h4⟩, h5⟩ := hp
  exact ⟨t, h, h1, h2, h3, h4, h5⟩

/-- hence `C06_counts` is false without `LinkOK` -/
theorem C06_counts_needs_LinkOK :
    ¬ ∀ (route : List Nat) (links : List (Link ℚ)) (t : Tpc ℚ),
      extend Ex.u32 Ex.gq Ex.net (Tpc.new Ex.par) route = .ok t → Resolves Ex.net route links →
      countsConsistent t = true := by
  intro hall
  obtain ⟨t, h, hc, _⟩ := extend_one_elev_counterexample
  have := hall [4] [Ex.l4] t h rfl
  rw [hc] at this; cases this

/-- and `C06_extend_append` is false without its hypothesis: extending by `[4, 6]` in one call keeps
    the initial elevation `5` of link 4, extending by `[4]` and then `[6]` overwrites it with the first
    elevation `7` of link 6. -/
theorem extend_append_counterexample :
    ∃ t1 t2, extend Ex.u32 Ex.gq Ex.net (Tpc.new Ex.par) ([4] ++ [6]) = .ok t1 ∧
      (extend Ex.u32 Ex.gq Ex.net (Tpc.new Ex.par) [4]).bind
        (fun t' => extend Ex.u32 Ex.gq Ex.net t' [6]) = .ok t2 ∧
      t1.grades.map (·.net) = [5, 7] ∧ t2.grades.map (·.net) = [7, 9] := by
  obtain ⟨t1, h1, hp1⟩ := okAnd_exists
    (r := extend Ex.u32 Ex.gq Ex.net (Tpc.new Ex.par) ([4] ++ [6]))
    (p := fun t => t.grades.map (·.net) == [5, 7]) (by decide +kernel)
  obtain ⟨t2, h2, hp2⟩ := okAnd_exists
    (r := (extend Ex.u32 Ex.gq Ex.net (Tpc.new Ex.par) [4]).bind
      (fun t' => extend Ex.u32 Ex.gq Ex.net t' [6]))
    (p := fun t => t.grades.map (·.net) == [7, 9]) (by decide +kernel)
  exact ⟨t1, t2, h1, h2, by simpa using hp1, by simpa using hp2⟩

theorem C06_extend_append_needs_hyp :
    ¬ ∀ (t : Tpc ℚ) (a b : List Nat), extend Ex.u32 Ex.gq Ex.net t (a ++ b) =
      (extend Ex.u32 Ex.gq Ex.net t a).bind (fun t' => extend Ex.u32 Ex.gq Ex.net t' b) := by
  intro hall
  obtain ⟨t1, t2, h1, h2, g1, g2⟩ := extend_append_counterexample
  rw [hall, h2] at h1
  cases h1
  rw [g1] at g2
  exact absurd g2 (by decide)

/-! ## The heading wrap-around (2d, semantic part) — and the repaired defect

  `extend` computes the curvature of a heading segment as `|wrap(Δh)| / length`.  Validated headings
  lie in `[0, REV)`, so `Δh ∈ (−REV, REV)`.

  REPAIRED DEFECT.  The original code was `(-REV/2 + (Δh + REV/2) % REV).abs()`.  Rust's `%` on floats
  keeps the sign of the dividend, so for `Δh < −REV/2` (a heading that increases through north, e.g.
  350° → 10°, `Δh = −340°`) it returned `|Δh|` (340°) instead of the angular distance `REV − |Δh|`
  (20°): `wrapOld`, `C06_wrapOld_counterexample`, `C06_wrapOld_fails`, `C06_wrapOld_partial` below.
  The repaired code brings the remainder into `[0, REV)` first (`wrapAbs`); `C06_wrap` proves that it
  is the angular distance on the whole range. -/

section wrapdefs
variable {α : Type} [Add α] [Sub α] [Mul α] [Div α] [Neg α] [LT α] [LE α]
  [DecidableLT α] [DecidableLE α] [OfNat α 0] [OfNat α 1]

/-- the wrapped heading-change magnitude that `extend` divides by the segment length (repaired code) -/
def wrapAbs (g : GeoConsts α) (dh : α) : α :=
  absv (-g.rev / g.two +
    (if fmodSmall (dh + g.rev / g.two) g.rev < 0 then fmodSmall (dh + g.rev / g.two) g.rev + g.rev
     else fmodSmall (dh + g.rev / g.two) g.rev))

/-- the same magnitude as the ORIGINAL code computed it (before the repair) -/
def wrapOld (g : GeoConsts α) (dh : α) : α :=
  absv (-g.rev / g.two + fmodSmall (dh + g.rev / g.two) g.rev)

/-- the three-coefficient curve-resistance formula on a curvature -/
def curveOf (g : GeoConsts α) (par : TrainPar α) (k : α) : α :=
  (if k < g.deg / g.ft100 then par.c0 * k
   else par.c0 * (g.deg / g.ft100) + par.c1 * (k - g.deg / g.ft100)
        + par.c2 * (k - g.deg / g.ft100) * (k - g.deg / g.ft100) / g.radpm) / g.radpm

/-- `curveCoeff` is the three-coefficient formula applied to `wrapAbs / length` -/
theorem curveCoeff_eq (g : GeoConsts α) (par : TrainPar α) (dh len : α) :
    curveCoeff g par dh len = curveOf g par (wrapAbs g dh / len) := rfl
end wrapdefs

section wrap
variable {α : Type} [Field α] [LinearOrder α] [IsStrictOrderedRing α]

/-- **C06 (2d, heading-change rate).**  For every heading difference of two validated headings the
    wrapped magnitude is the angular distance `min |Δh| (REV − |Δh|)`; hence (`curveCoeff_eq`) every
    curve coefficient is the three-coefficient formula of the heading-change rate
    `angular distance / segment length`. -/
def C06_wrap_statement : Prop :=
  ∀ (g : GeoConsts α) (dh : α),
    0 < g.rev → g.two = 2 →            -- the unit constants `uc::REV`, `2.0`
    -g.rev < dh → dh < g.rev →         -- headings are validated into `[0, REV)`
    wrapAbs g dh = min |dh| (g.rev - |dh|)

theorem C06_wrap : C06_wrap_statement (α := α) := by
  intro g dh hrev htwo hlo hhi
  have hneg : -g.rev / 2 = -(g.rev / 2) := by ring
  unfold wrapAbs fmodSmall
  rw [Basic.absv_eq_abs, htwo]
  by_cases h0 : dh + g.rev / 2 < 0
  · -- `Δh < −REV/2`: the remainder is negative and is shifted by `REV`
    simp only [if_pos h0]
    have e : -g.rev / 2 + (dh + g.rev / 2 + g.rev) = dh + g.rev := by ring
    rw [e, abs_of_pos (by linarith), abs_of_neg (by linarith), min_eq_right (by linarith)]
    ring
  · simp only [if_neg h0]
    by_cases h1 : dh + g.rev / 2 < g.rev
    · simp only [if_pos h1, if_neg h0]
      have e : -g.rev / 2 + (dh + g.rev / 2) = dh := by ring
      rw [e]
      have : |dh| ≤ g.rev / 2 := by
        rw [abs_le]; constructor <;> linarith
      exact (min_eq_left (by linarith)).symm
    · have h2 : ¬ dh + g.rev / 2 - g.rev < 0 := by linarith [not_lt.mp h1]
      simp only [if_neg h1, if_neg h2]
      have e : -g.rev / 2 + (dh + g.rev / 2 - g.rev) = dh - g.rev := by ring
      have hd : g.rev / 2 ≤ dh := by linarith [not_lt.mp h1]
      rw [e, abs_of_nonpos (by linarith), abs_of_nonneg (by linarith), min_eq_right (by linarith)]
      ring

/-! ### the original formula (documentation of the repaired defect) -/

/-- what the original formula was meant to satisfy — FALSE, see `C06_wrapOld_counterexample` -/
def C06_wrapOld_statement : Prop :=
  ∀ (g : GeoConsts α) (dh : α), 0 < g.rev → g.two = 2 → -g.rev < dh → dh < g.rev →
    wrapOld g dh = min |dh| (g.rev - |dh|)

/-- strongest true variant for the original formula: the extra hypothesis `−REV/2 ≤ Δh` is forced -/
def C06_wrapOld_partial_statement : Prop :=
  ∀ (g : GeoConsts α) (dh : α), 0 < g.rev → g.two = 2 → -g.rev / 2 ≤ dh → dh < g.rev →
    wrapOld g dh = min |dh| (g.rev - |dh|)

theorem C06_wrapOld_partial : C06_wrapOld_partial_statement (α := α) := by
  intro g dh hrev htwo hlo hhi
  unfold wrapOld fmodSmall
  rw [Basic.absv_eq_abs, htwo]
  have h0 : ¬ dh + g.rev / 2 < 0 := by
    have : -g.rev / 2 = -(g.rev / 2) := by ring
    linarith
  rw [if_neg h0]
  split_ifs with h1
  · have e : -g.rev / 2 + (dh + g.rev / 2) = dh := by ring
    rw [e]
    have : |dh| ≤ g.rev / 2 := by
      rw [abs_le]; constructor
      · have : -g.rev / 2 = -(g.rev / 2) := by ring
        linarith
      · linarith
    exact (min_eq_left (by linarith)).symm
  · have e : -g.rev / 2 + (dh + g.rev / 2 - g.rev) = dh - g.rev := by ring
    have hd : g.rev / 2 ≤ dh := by linarith [not_lt.mp h1]
    rw [e, abs_of_nonpos (by linarith), abs_of_nonneg (by linarith)]
    rw [min_eq_right (by linarith)]; ring

/-- on the remaining range the original code returned `|Δh|`, which exceeds half a revolution -/
theorem C06_wrapOld_fails (g : GeoConsts α) (dh : α) (hrev : 0 < g.rev) (htwo : g.two = 2)
    (hlo : -g.rev < dh) (hhi : dh < -g.rev / 2) :
    wrapOld g dh = |dh| ∧ g.rev - |dh| < |dh| := by
  have hneg : -g.rev / 2 = -(g.rev / 2) := by ring
  have h0 : dh + g.rev / 2 < 0 := by linarith
  unfold wrapOld fmodSmall
  rw [Basic.absv_eq_abs, htwo, if_pos h0]
  have e : -g.rev / 2 + (dh + g.rev / 2) = dh := by ring
  rw [e]
  refine ⟨rfl, ?_⟩
  rw [abs_of_neg (by linarith)]; linarith

/-- old and repaired formula agree wherever the old one was right -/
theorem wrapAbs_eq_wrapOld (g : GeoConsts α) (dh : α) (hrev : 0 < g.rev) (htwo : g.two = 2)
    (hlo : -g.rev / 2 ≤ dh) (hhi : dh < g.rev) : wrapAbs g dh = wrapOld g dh := by
  rw [C06_wrap g dh hrev htwo (by have : -g.rev / 2 = -(g.rev / 2) := by ring
                                  linarith) hhi,
    C06_wrapOld_partial g dh hrev htwo hlo hhi]

end wrap

/-- `REV = 6`, headings `59/10 → 1/5` (a turn by `+3/10` through north): the repaired code gives
    `3/10` -/
example : wrapAbs Ex.gq (1/5 - 59/10 : ℚ) =
    min |(1/5 - 59/10 : ℚ)| (Ex.gq.rev - |(1/5 - 59/10 : ℚ)|) :=
  C06_wrap Ex.gq _ (by decide +kernel) rfl (by decide +kernel) (by decide +kernel)

example : wrapAbs Ex.gq (1/5 - 59/10 : ℚ) = 3/10 := by decide +kernel

example : wrapOld Ex.gq (3 - 1/2 : ℚ) = min |(3 - 1/2 : ℚ)| (Ex.gq.rev - |(3 - 1/2 : ℚ)|) :=
  C06_wrapOld_partial Ex.gq _ (by decide +kernel) rfl (by decide +kernel) (by decide +kernel)

/-- `REV = 6`, headings `59/10 → 1/5`: the ORIGINAL code used `57/10` instead of `3/10`. -/
theorem C06_wrapOld_counterexample : ¬ C06_wrapOld_statement (α := ℚ) := by
  intro h
  have := h Ex.gq (1/5 - 59/10) (by decide +kernel) rfl (by decide +kernel) (by decide +kernel)
  revert this
  decide +kernel

example : wrapOld Ex.gq (1/5 - 59/10 : ℚ) = 57/10 ∧ (1/5 - 59/10 : ℚ) < -Ex.gq.rev / 2 :=
  ⟨(C06_wrapOld_fails Ex.gq _ (by decide +kernel) rfl (by decide +kernel) (by decide +kernel)).1.trans
    (by decide +kernel), by decide +kernel⟩

/-- the example route after the repair: link 3 turns by `3/10` over 800 m (`59/10 → 1/5` through
    north) and its curve coefficient is that of the small turn, in either direction of travel; the
    original code would have used a curvature of `57/10 / 800`. -/
theorem C06_wrap_route :
    curveCoeff Ex.gq Ex.par (1/5 - 59/10) 800 = curveOf Ex.gq Ex.par (3/10 / 800) ∧
    curveCoeff Ex.gq Ex.par (1/5 - 59/10) 800 = curveCoeff Ex.gq Ex.par (3/10) 800 ∧
    curveCoeff Ex.gq Ex.par (59/10 - 1/5) 800 = curveCoeff Ex.gq Ex.par (3/10) 800 ∧
    curveOf Ex.gq Ex.par (wrapOld Ex.gq (1/5 - 59/10) / 800) ≠
      curveCoeff Ex.gq Ex.par (1/5 - 59/10) 800 := by
  have w1 : wrapAbs Ex.gq (1/5 - 59/10) = 3/10 := by decide +kernel
  have w3 : wrapAbs Ex.gq (3/10) = 3/10 := by decide +kernel
  have w4 : wrapAbs Ex.gq (59/10 - 1/5) = 3/10 := by decide +kernel
  have w5 : wrapOld Ex.gq (1/5 - 59/10) = 57/10 := by decide +kernel
  simp only [curveCoeff_eq, w1, w3, w4, w5, true_and]
  norm_num [curveOf, Ex.gq, Ex.par]

/-- the curve point of link 3 on the built path carries the small-turn coefficient -/
example : ∃ t, extend Ex.u32 Ex.gq Ex.net (Tpc.new Ex.par) [1, 2, 3] = .ok t ∧
    ∃ nk, t.curves[2]? = some ⟨1500, curveCoeff Ex.gq Ex.par (3/10) 800, nk⟩ := by
  obtain ⟨t, h⟩ := Ex.ext123
  obtain ⟨nk, hk⟩ := C06_curve_point _ _ _ _ _ _ t h Ex.res123 Ex.oklinks [Ex.l1, Ex.l2] Ex.l3 []
    [] ⟨0, 59/10⟩ ⟨800, 1/5⟩ [] rfl rfl
  refine ⟨t, h, nk, ?_⟩
  have e : ([Ex.l1, Ex.l2].map curveCnt).sum + ([] : List (Heading ℚ)).length = 2 := by decide
  rw [e] at hk
  rw [hk, ← C06_wrap_route.2.1]
  simp [routeLen, Ex.l1, Ex.l2]
  norm_num

end Altrios.Proofs.C06
