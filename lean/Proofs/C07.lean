import Altrios.Resist
import Proofs.Lemmas.Basic
import Proofs.Lemmas.ResistL
import Mathlib.Algebra.Order.Field.Basic
import Mathlib.Algebra.Order.Field.Rat
import Mathlib.Algebra.Order.Ring.Rat
import Mathlib.Tactic.Linarith
import Mathlib.Tactic.Ring
import Mathlib.Tactic.NormNum
/-
  C07 — Train resistance forces equal their physical definitions at every position.

  Model: `Altrios/Resist.lean` (`calcIdx` = `LinSearchHint::calc_idx`, `strapCoeff` =
  `path_res::Strap::calc_res`, `updateRes` = `method::Strap::update_res`).
  Vocabulary (defined in `Proofs/Lemmas/ResistL.lean`):

    Profile pts     offsets strictly increasing and `net_{i+1} = net_i + coeff_i·(off_{i+1} − off_i)`
                    (the invariant of `PathTpc::extend` on `grades` and `curves`)
    segOf  pts x    forward  convention: THE `i` with `off_i <  x ≤ off_{i+1}`   (`= #{off < x} − 1`)
    segOfB pts x    backward convention: THE `i` with `off_i ≤ x <  off_{i+1}`   (`= #{off ≤ x} − 1`)
    Seg pts i x     `x` lies in the closed segment `i`;  `Seg pts i x ↔ segOf pts x ≤ i ≤ segOfB pts x`
    E pts x         declarative cumulative value at `x` (elevation / cumulative curve resistance)
    StrapInv        the invariant of the cached indices of one `path_res::Strap`

  Layout:
    §1  `calc_idx` returns the declarative index (forward, backward); stale hints; out-of-range hints
    §2  the value read through the returned index is `E pts x` (continuity at breakpoints)
    §4  `Strap::calc_res` returns `(E front − E rear)/length` in both branches, indices re-established
    §5  `Strap::update_res`: every force equals its definition
    §6  no panic (out-of-range index, loop overrun, underflow, `debug_assert`)
    §3  the hint invariant along runs (forward, backward, `Unk`-then-`Bwd` as in
        `BrakingPoints::recalc`) and across `PathTpc::extend`
-/
set_option linter.unusedSectionVars false
namespace Altrios.Proofs.C07
open Altrios Altrios.Tpc Altrios.Rs Altrios.Proofs.ResistL

variable {α : Type} [Field α] [LinearOrder α] [IsStrictOrderedRing α]

/-! ## Concrete rational fixtures (non-vacuity witnesses and counterexamples) -/
namespace Ex

/-- elevation profile: 100 m, up 1 % for 1000 m, down 0.5 % for 2000 m, level 500 m, up 2 % for 500 m -/
def gradesQ : List (PRC ℚ) :=
  [⟨0, 1/100, 100⟩, ⟨1000, -1/200, 110⟩, ⟨3000, 0, 100⟩, ⟨3500, 1/50, 100⟩, ⟨4000, 0, 110⟩]
def lastG : PRC ℚ := ⟨4000, 0, 110⟩
def firstG : PRC ℚ := ⟨0, 1/100, 100⟩
/-- cumulative curve resistance: tangent, a 500 m curve, tangent -/
def curvesQ : List (PRC ℚ) := [⟨0, 0, 0⟩, ⟨2000, 1/1000, 0⟩, ⟨2500, 0, 1/2⟩, ⟨4000, 0, 1/2⟩]
def lastC : PRC ℚ := ⟨4000, 0, 1/2⟩
def firstC : PRC ℚ := ⟨0, 0, 0⟩

theorem gradesQ_profile : Profile gradesQ := by
  simp only [gradesQ, profile_cons_cons, profile_singleton, and_true]; norm_num
theorem curvesQ_profile : Profile curvesQ := by
  simp only [curvesQ, profile_cons_cons, profile_singleton, and_true]; norm_num

/-- a 700 m train (longer than the 500 m segments, shorter than the others) with its front at 3200 m -/
def stQ : ResState ℚ :=
  { offset := 3200, offsetBack := 0, speed := 20, length := 700, massStatic := 1000000,
    weightStatic := 0, resRolling := 0, resBearing := 0, resDavisB := 0, resAero := 0,
    resGrade := 0, resCurve := 0, gradeFront := 0, gradeBack := 0, elevFront := 0 }
/-- the same train with its front at 3400 m: front and rear in one segment -/
def stQ2 : ResState ℚ := { stQ with offset := 3400, length := 300 }
def rQ : ResStrap ℚ :=
  { bearingForce := 4000, rollingRatio := 3/4000, davisB := 1/100000, cdArea := 5,
    grade := ⟨1, 0⟩, curve := ⟨0, 0⟩ }

/-- Boolean test of an outcome: accepted and the new value satisfies `p` -/
def okAnd {σ} (p : σ → Bool) : Res σ → Bool | .ok x => p x | _ => false

/-- decidable view of a `Res` (avoids a global `DecidableEq (Res _)` instance) -/
def view {σ : Type} : Res σ → σ ⊕ (Bool × String)
  | .ok v => .inl v
  | .err e => .inr (false, e)
  | .panic e => .inr (true, e)

theorem view_inj {σ : Type} {a b : Res σ} (h : view a = view b) : a = b := by
  cases a <;> cases b <;> simp_all [view]

end Ex

/-! ## §1  `calc_idx` computes the declarative segment index -/

/-- `segOf pts x` satisfies its defining inequalities `off_i < x ≤ off_{i+1}` (or `i = 0` and
    `x ≤ off_1`), and is the only index that does. -/
def C07_segOf_spec_statement : Prop :=
  ∀ (pts : List (PRC α)) (l : PRC α) (x : α),
    Sorted pts → 2 ≤ pts.length → pts.getLast? = some l → x ≤ l.off →
    ∃ h : segOf pts x + 1 < pts.length,
      (segOf pts x = 0 ∨ (pts[segOf pts x]'(by omega)).off < x) ∧ x ≤ pts[segOf pts x + 1].off ∧
      ∀ (i : Nat) (hi : i + 1 < pts.length),
        (i = 0 ∨ (pts[i]'(by omega)).off < x) → x ≤ pts[i + 1].off → i = segOf pts x

theorem C07_segOf_spec : C07_segOf_spec_statement (α := α) := by
  intro pts l x hs h2 hl hx
  have h := segOf_succ_lt hs h2 hl hx
  refine ⟨h, ?_, ?_, ?_⟩
  · by_cases h0 : segOf pts x = 0
    · exact Or.inl h0
    · right
      apply (lt_iff_cntLt hs x _ (by omega)).mpr
      unfold segOf at h0 ⊢; omega
  · apply not_lt.mp
    intro hh
    have := (lt_iff_cntLt hs x _ h).mp hh
    unfold segOf at this; omega
  · intro i hi h1 h2'
    exact (segOf_unique hs hi h1 h2').symm

-- all hypotheses hold on the fixture (the conclusion is then the three inequalities + uniqueness)
example : (3000 : ℚ) < 3200 ∧ (3200 : ℚ) ≤ 3500 := by
  obtain ⟨_, _, _, huniq⟩ := C07_segOf_spec Ex.gradesQ Ex.lastG 3200 Ex.gradesQ_profile.sorted
    (by decide) rfl (by decide +kernel)
  have h2 : 2 = segOf Ex.gradesQ 3200 :=
    huniq 2 (by decide) (Or.inr (by decide +kernel)) (by decide +kernel)
  exact ⟨by decide +kernel, by decide +kernel⟩
example : segOf Ex.gradesQ 3200 = 2 ∧ segOf Ex.gradesQ 3000 = 1 ∧ segOf Ex.gradesQ 0 = 0 ∧
    segOf Ex.gradesQ 4000 = 3 := by decide +kernel
example : segOfB Ex.gradesQ 3200 = 2 ∧ segOfB Ex.gradesQ 3000 = 2 ∧ segOfB Ex.gradesQ 0 = 0 ∧
    segOfB Ex.gradesQ 4000 = 4 := by decide +kernel

/-- `segOfB pts x` satisfies `off_i ≤ x < off_{i+1}` (no upper bound for the last index) and is the
    only index that does. -/
def C07_segOfB_spec_statement : Prop :=
  ∀ (pts : List (PRC α)) (p0 : PRC α) (x : α),
    Sorted pts → pts.head? = some p0 → p0.off ≤ x →
    ∃ h : segOfB pts x < pts.length,
      pts[segOfB pts x].off ≤ x ∧ (∀ h' : segOfB pts x + 1 < pts.length, x < pts[segOfB pts x + 1].off) ∧
      ∀ (i : Nat) (hi : i < pts.length),
        pts[i].off ≤ x → (∀ h' : i + 1 < pts.length, x < pts[i + 1].off) → i = segOfB pts x

theorem C07_segOfB_spec : C07_segOfB_spec_statement (α := α) := by
  intro pts p0 x hs hh hx
  have hne : pts ≠ [] := by intro h0; simp [h0] at hh
  obtain ⟨hn, hhe⟩ := head?_eq_getElem_of hh
  have h := segOfB_lt_length hne x
  have hc : 1 ≤ cntLe pts x := (le_iff_cntLe hs x 0 hn).mp (by rw [hhe]; exact hx)
  refine ⟨h, ?_, ?_, ?_⟩
  · apply (le_iff_cntLe hs x _ h).mpr
    unfold segOfB; omega
  · intro h'
    apply not_le.mp
    intro hh'
    have := (le_iff_cntLe hs x _ h').mp hh'
    unfold segOfB at this; omega
  · intro i hi h1 h2
    exact (segOfB_unique hs hi h1 h2).symm

example : 2 = segOfB Ex.gradesQ 3000 := by
  obtain ⟨_, _, _, huniq⟩ := C07_segOfB_spec Ex.gradesQ Ex.firstG 3000 Ex.gradesQ_profile.sorted rfl
    (by decide +kernel)
  exact huniq 2 (by decide) (by decide +kernel) (fun _ => by decide +kernel +revert)

/-- **`calc_idx`, forward / unknown direction.**
    Hypotheses the proof forces:
    * `Sorted pts` — the loop stops at the first right end not left of `x`; on an unsorted list this
      need not be the counted index;
    * `x ≤ last.off` — the code's own `ensure!` (otherwise `Err`);
    * `2 ≤ pts.length` — on a one-point list `self[idx + 1]` is out of range (`C07_calcIdx_fwd_oob`);
    * `idx ≤ segOf pts x` — a hint beyond the true index is returned unchanged
      (`C07_calcIdx_fwd_stale`). -/
def C07_calcIdx_fwd_statement : Prop :=
  ∀ (pts : List (PRC α)) (dir : Dir) (l : PRC α) (x : α) (idx : Nat),
    Sorted pts → dir ≠ .bwd → pts.getLast? = some l → x ≤ l.off → 2 ≤ pts.length →
    idx ≤ segOf pts x → calcIdx pts x idx dir = .ok (segOf pts x)

theorem C07_calcIdx_fwd : C07_calcIdx_fwd_statement (α := α) := by
  intro pts dir l x idx hs hdir hl hx h2 hidx
  have := segOf_succ_lt hs h2 hl hx
  rw [calcIdx_fwd_gen hs hdir hl hx (by omega), max_eq_right hidx]

example : calcIdx Ex.gradesQ 3200 1 .fwd = .ok (segOf Ex.gradesQ 3200) :=
  C07_calcIdx_fwd Ex.gradesQ .fwd Ex.lastG 3200 1 Ex.gradesQ_profile.sorted (by decide) rfl
    (by decide +kernel) (by decide) (by decide +kernel)
example : calcIdx Ex.gradesQ 3200 1 .fwd = .ok 2 := Ex.view_inj (by decide +kernel)

/-- `Sorted` is forced: on an unsorted list the loop does not return the counted index -/
theorem C07_sorted_forced_counterexample :
    calcIdx [(⟨0, 0, 0⟩ : PRC ℚ), ⟨5, 0, 0⟩, ⟨3, 0, 0⟩, ⟨10, 0, 0⟩] 4 0 .fwd = .ok 0 ∧
    segOf [(⟨0, 0, 0⟩ : PRC ℚ), ⟨5, 0, 0⟩, ⟨3, 0, 0⟩, ⟨10, 0, 0⟩] 4 = 1 :=
  ⟨Ex.view_inj (by decide +kernel), by decide +kernel⟩

/-- **`calc_idx`, backward direction** (left-closed convention).  Forced: `first.off ≤ x` (the code's
    `ensure!`), `idx < pts.length` (`self[idx]`), `segOfB pts x ≤ idx` (`C07_calcIdx_bwd_stale`). -/
def C07_calcIdx_bwd_statement : Prop :=
  ∀ (pts : List (PRC α)) (p0 : PRC α) (x : α) (idx : Nat),
    Sorted pts → pts.head? = some p0 → p0.off ≤ x → idx < pts.length →
    segOfB pts x ≤ idx → calcIdx pts x idx .bwd = .ok (segOfB pts x)

theorem C07_calcIdx_bwd : C07_calcIdx_bwd_statement (α := α) := by
  intro pts p0 x idx hs hh hx hidx hle
  rw [calcIdx_bwd_gen hs hh hx hidx, min_eq_right hle]

example : calcIdx Ex.gradesQ 3000 4 .bwd = .ok (segOfB Ex.gradesQ 3000) :=
  C07_calcIdx_bwd Ex.gradesQ Ex.firstG 3000 4 Ex.gradesQ_profile.sorted rfl
    (by decide +kernel) (by decide) (by decide +kernel)
example : calcIdx Ex.gradesQ 3000 4 .bwd = .ok 2 := Ex.view_inj (by decide +kernel)

/-- **Stale hint, forward.**  A hint beyond the true index comes back unchanged: the search never
    moves backwards.  This is why the hint invariant matters. -/
def C07_calcIdx_fwd_stale_statement : Prop :=
  ∀ (pts : List (PRC α)) (dir : Dir) (l : PRC α) (x : α) (idx : Nat),
    Sorted pts → dir ≠ .bwd → pts.getLast? = some l → x ≤ l.off → idx + 1 < pts.length →
    segOf pts x < idx → calcIdx pts x idx dir = .ok idx

theorem C07_calcIdx_fwd_stale : C07_calcIdx_fwd_stale_statement (α := α) := by
  intro pts dir l x idx hs hdir hl hx hidx hlt
  rw [calcIdx_fwd_gen hs hdir hl hx hidx, max_eq_left (le_of_lt hlt)]

example : calcIdx Ex.gradesQ 500 2 .fwd = .ok 2 :=
  C07_calcIdx_fwd_stale Ex.gradesQ .fwd Ex.lastG 500 2 Ex.gradesQ_profile.sorted (by decide) rfl
    (by decide +kernel) (by decide) (by decide +kernel)
/-- … and the elevation read through the stale index is wrong (100 m instead of 105 m) -/
theorem C07_calcIdx_fwd_stale_wrong_value :
    calcIdx Ex.gradesQ 500 2 .fwd = .ok 2 ∧ prcVal (⟨3000, 0, 100⟩ : PRC ℚ) 500 = 100 ∧
      Ex.gradesQ[2]? = some ⟨3000, 0, 100⟩ ∧ E Ex.gradesQ 500 = 105 :=
  ⟨Ex.view_inj (by decide +kernel), by decide +kernel, rfl, by decide +kernel⟩

/-- **Stale hint, backward.** -/
def C07_calcIdx_bwd_stale_statement : Prop :=
  ∀ (pts : List (PRC α)) (p0 : PRC α) (x : α) (idx : Nat),
    Sorted pts → pts.head? = some p0 → p0.off ≤ x → idx < pts.length →
    idx < segOfB pts x → calcIdx pts x idx .bwd = .ok idx

theorem C07_calcIdx_bwd_stale : C07_calcIdx_bwd_stale_statement (α := α) := by
  intro pts p0 x idx hs hh hx hidx hlt
  rw [calcIdx_bwd_gen hs hh hx hidx, min_eq_left (le_of_lt hlt)]

example : calcIdx Ex.gradesQ 3200 0 .bwd = .ok 0 :=
  C07_calcIdx_bwd_stale Ex.gradesQ Ex.firstG 3200 0 Ex.gradesQ_profile.sorted rfl
    (by decide +kernel) (by decide) (by decide +kernel)

/-- **Out-of-range hint, forward: the look-ahead `self[idx + 1]` panics.**  In particular EVERY forward
    query on a one-point list that passes the `ensure!` panics (an empty link path leaves
    `grades = [⟨0,0,0⟩]`; `path_res::Strap::new` special-cases `len ≤ 1`, `calc_res` does not). -/
def C07_calcIdx_fwd_oob_statement : Prop :=
  ∀ (pts : List (PRC α)) (dir : Dir) (l : PRC α) (x : α) (idx : Nat),
    dir ≠ .bwd → pts.getLast? = some l → x ≤ l.off → pts.length ≤ idx + 1 →
    calcIdx pts x idx dir = .panic "index"

theorem C07_calcIdx_fwd_oob : C07_calcIdx_fwd_oob_statement (α := α) := by
  intro pts dir l x idx hdir hl hx hidx
  unfold calcIdx
  rw [if_pos hdir, hl]
  simp only [if_pos hx]
  unfold scanFwd
  rw [getP_oob hidx]; rfl

theorem C07_calcIdx_single_point_counterexample :
    calcIdx [(⟨0, 0, 0⟩ : PRC ℚ)] 0 0 .fwd = .panic "index" := Ex.view_inj (by decide +kernel)

example : calcIdx Ex.gradesQ 4000 4 .fwd = .panic "index" :=
  C07_calcIdx_fwd_oob Ex.gradesQ .fwd Ex.lastG 4000 4 (by decide) rfl (by decide +kernel) (by decide)

/-! ## §2  The value read through the returned index is the declarative profile value -/

/-- continuity: consecutive segments agree at their common breakpoint (this is what `Profile` buys) -/
def C07_boundary_statement : Prop :=
  ∀ (pts : List (PRC α)) (i : Nat) (h : i + 1 < pts.length), Profile pts →
    prcVal (pts[i]'(by omega)) pts[i + 1].off = prcVal pts[i + 1] pts[i + 1].off

theorem C07_boundary : C07_boundary_statement (α := α) :=
  fun _ i h hp => hp.prcVal_boundary i h

example : prcVal (⟨1000, -1/200, 110⟩ : PRC ℚ) 3000 = prcVal (⟨3000, 0, 100⟩ : PRC ℚ) 3000 :=
  C07_boundary Ex.gradesQ 1 (by decide) Ex.gradesQ_profile

/-- `E` is the piecewise-linear interpolant: on `[off_i, off_{i+1}]` it is the line through
    `(off_i, net_i)` with slope `coeff_i` — with BOTH ends included. -/
def C07_E_spec_statement : Prop :=
  ∀ (pts : List (PRC α)) (i : Nat) (x : α) (h : i + 1 < pts.length), Profile pts →
    (pts[i]'(by omega)).off ≤ x → x ≤ pts[i + 1].off →
    E pts x = (pts[i]'(by omega)).net + (pts[i]'(by omega)).coeff * (x - (pts[i]'(by omega)).off)

theorem C07_E_spec : C07_E_spec_statement (α := α) := by
  intro pts i x h hp h1 h2
  have hseg : Seg pts i x := ⟨by omega, Or.inr h1, fun _ => h2⟩
  exact (prcVal_of_seg hp hseg).symm

example : E Ex.gradesQ 3000 = 110 + (-1/200) * (3000 - 1000) :=
  C07_E_spec Ex.gradesQ 1 3000 (by decide) Ex.gradesQ_profile (by decide +kernel) (by decide +kernel)
example : E Ex.gradesQ 3000 = 100 + 0 * (3000 - 3000) :=
  C07_E_spec Ex.gradesQ 2 3000 (by decide) Ex.gradesQ_profile (by decide +kernel) (by decide +kernel)

/-- **Value correctness, forward.**  Under the hypotheses of `C07_calcIdx_fwd` the line of the returned
    point evaluated at `x` is `E pts x`.  (Needs `Profile`, not just `Sorted`, only through `E`.) -/
def C07_calcIdx_value_fwd_statement : Prop :=
  ∀ (pts : List (PRC α)) (dir : Dir) (l : PRC α) (x : α) (idx : Nat),
    Profile pts → dir ≠ .bwd → pts.getLast? = some l → x ≤ l.off → 2 ≤ pts.length →
    idx ≤ segOf pts x →
    ∃ (i : Nat) (h : i < pts.length), calcIdx pts x idx dir = .ok i ∧ prcVal pts[i] x = E pts x

theorem C07_calcIdx_value_fwd : C07_calcIdx_value_fwd_statement (α := α) := by
  intro pts dir l x idx hp hdir hl hx h2 hidx
  have hne : pts ≠ [] := by intro h0; simp [h0] at h2
  have hseg := seg_segOf hp.sorted hne x
  exact ⟨_, hseg.1, C07_calcIdx_fwd pts dir l x idx hp.sorted hdir hl hx h2 hidx,
    prcVal_of_seg hp hseg⟩

example : ∃ (i : Nat) (h : i < Ex.gradesQ.length),
    calcIdx Ex.gradesQ 3200 1 .unk = .ok i ∧ prcVal Ex.gradesQ[i] 3200 = E Ex.gradesQ 3200 :=
  C07_calcIdx_value_fwd Ex.gradesQ .unk Ex.lastG 3200 1 Ex.gradesQ_profile (by decide) rfl
    (by decide +kernel) (by decide) (by decide +kernel)

/-- **Value correctness, backward.**  The backward search uses the other boundary convention
    (`off_i ≤ x < off_{i+1}`); by continuity the value is the same `E pts x`. -/
def C07_calcIdx_value_bwd_statement : Prop :=
  ∀ (pts : List (PRC α)) (p0 : PRC α) (x : α) (idx : Nat),
    Profile pts → pts.head? = some p0 → p0.off ≤ x → idx < pts.length → segOfB pts x ≤ idx →
    ∃ (i : Nat) (h : i < pts.length), calcIdx pts x idx .bwd = .ok i ∧ prcVal pts[i] x = E pts x

theorem C07_calcIdx_value_bwd : C07_calcIdx_value_bwd_statement (α := α) := by
  intro pts p0 x idx hp hh hx hidx hle
  have hne : pts ≠ [] := by intro h0; simp [h0] at hh
  have hseg := seg_segOfB hp.sorted hne x
  exact ⟨_, hseg.1, C07_calcIdx_bwd pts p0 x idx hp.sorted hh hx hidx hle, prcVal_of_seg hp hseg⟩

-- at the breakpoint 3000 the two conventions return different indices (1 and 2) and the same value
example : ∃ (i : Nat) (h : i < Ex.gradesQ.length),
    calcIdx Ex.gradesQ 3000 4 .bwd = .ok i ∧ prcVal Ex.gradesQ[i] 3000 = E Ex.gradesQ 3000 :=
  C07_calcIdx_value_bwd Ex.gradesQ Ex.firstG 3000 4 Ex.gradesQ_profile rfl
    (by decide +kernel) (by decide) (by decide +kernel)
example : calcIdx Ex.gradesQ 3000 0 .fwd = .ok 1 ∧ calcIdx Ex.gradesQ 3000 4 .bwd = .ok 2 ∧
    E Ex.gradesQ 3000 = 100 :=
  ⟨Ex.view_inj (by decide +kernel), Ex.view_inj (by decide +kernel), by decide +kernel⟩

/-- **Value correctness under the WEAK hint invariant** (what actually holds when directions are
    mixed, e.g. `Unk` followed by `Bwd` at the same position): forward with a hint up to the
    left-closed index, backward with a hint down to the right-closed index.  The returned index is
    `max idx (segOf pts x)` resp. `min idx (segOfB pts x)`, it is a closed segment containing `x`,
    and the value is `E pts x`. -/
def C07_calcIdx_value_weak_statement : Prop :=
  ∀ (pts : List (PRC α)) (x : α) (idx : Nat), Profile pts →
    (∀ (dir : Dir) (l : PRC α), dir ≠ .bwd → pts.getLast? = some l → x ≤ l.off →
      idx + 1 < pts.length → idx ≤ segOfB pts x →
      ∃ h : max idx (segOf pts x) < pts.length,
        calcIdx pts x idx dir = .ok (max idx (segOf pts x)) ∧
        Seg pts (max idx (segOf pts x)) x ∧ prcVal pts[max idx (segOf pts x)] x = E pts x) ∧
    (∀ (p0 : PRC α), pts.head? = some p0 → p0.off ≤ x → idx < pts.length → segOf pts x ≤ idx →
      ∃ h : min idx (segOfB pts x) < pts.length,
        calcIdx pts x idx .bwd = .ok (min idx (segOfB pts x)) ∧
        Seg pts (min idx (segOfB pts x)) x ∧ prcVal pts[min idx (segOfB pts x)] x = E pts x)

theorem C07_calcIdx_value_weak : C07_calcIdx_value_weak_statement (α := α) := by
  intro pts x idx hp
  constructor
  · intro dir l hdir hl hx hidx hle
    have hne : pts ≠ [] := by intro h0; simp [h0] at hidx
    have hseg : Seg pts (max idx (segOf pts x)) x :=
      (seg_iff hp.sorted hne _ _).mpr ⟨le_max_right _ _, max_le hle (segOf_le_segOfB _ _)⟩
    exact ⟨hseg.1, calcIdx_fwd_gen hp.sorted hdir hl hx hidx, hseg, prcVal_of_seg hp hseg⟩
  · intro p0 hh hx hidx hle
    have hne : pts ≠ [] := by intro h0; simp [h0] at hidx
    have hseg : Seg pts (min idx (segOfB pts x)) x :=
      (seg_iff hp.sorted hne _ _).mpr ⟨le_min hle (segOf_le_segOfB _ _), min_le_right _ _⟩
    exact ⟨hseg.1, calcIdx_bwd_gen hp.sorted hh hx hidx, hseg, prcVal_of_seg hp hseg⟩

-- forward from the backward answer at a breakpoint: index 2 stays (stale w.r.t. `segOf = 1`), value right
example : ∃ h : max 2 (segOf Ex.gradesQ 3000) < Ex.gradesQ.length,
    calcIdx Ex.gradesQ 3000 2 .fwd = .ok (max 2 (segOf Ex.gradesQ 3000)) ∧
    Seg Ex.gradesQ (max 2 (segOf Ex.gradesQ 3000)) 3000 ∧
    prcVal Ex.gradesQ[max 2 (segOf Ex.gradesQ 3000)] 3000 = E Ex.gradesQ 3000 :=
  (C07_calcIdx_value_weak Ex.gradesQ 3000 2 Ex.gradesQ_profile).1 .fwd Ex.lastG (by decide) rfl
    (by decide +kernel) (by decide) (by decide +kernel)
-- backward from the forward answer at a breakpoint: index 1 stays (stale w.r.t. `segOfB = 2`), value right
example : ∃ h : min 1 (segOfB Ex.gradesQ 3000) < Ex.gradesQ.length,
    calcIdx Ex.gradesQ 3000 1 .bwd = .ok (min 1 (segOfB Ex.gradesQ 3000)) ∧
    Seg Ex.gradesQ (min 1 (segOfB Ex.gradesQ 3000)) 3000 ∧
    prcVal Ex.gradesQ[min 1 (segOfB Ex.gradesQ 3000)] 3000 = E Ex.gradesQ 3000 :=
  (C07_calcIdx_value_weak Ex.gradesQ 3000 1 Ex.gradesQ_profile).2 Ex.firstG rfl
    (by decide +kernel) (by decide) (by decide +kernel)

/-! ## §4  `path_res::Strap::calc_res` -/

/-- **`calc_res`, forward / unknown direction.**  With cached indices not beyond the true ones, BOTH
    branches (coincident indices: single slope; otherwise: two-point difference) return the
    difference quotient of the declarative profile between rear and front, and the new cached
    indices are the true ones.
    Forced: `0 < length` (`debug_assert!`, and the quotient), `offsetBack = offset − length` (in the
    coincident branch the code returns the slope, which is the difference quotient only for this
    rear position), `offset ≤ last.off` (`ensure!`), `2 ≤ pts.length` (look-ahead), the two hint
    bounds (stale indices otherwise).  NOT needed: `first.off ≤ offsetBack` — the forward search has
    no such `ensure!`, and a rear before the first point is extrapolated with the first slope
    by the code and by `E` alike. -/
def C07_strapCoeff_fwd_statement : Prop :=
  ∀ (pts : List (PRC α)) (dir : Dir) (l : PRC α) (offset offsetBack length : α) (s : StrapIdx),
    Profile pts → dir ≠ .bwd → pts.getLast? = some l → 0 < length →
    offsetBack = offset - length → offset ≤ l.off → 2 ≤ pts.length →
    s.front ≤ segOf pts offset → s.back ≤ segOf pts offsetBack →
    strapCoeff pts s offset offsetBack length dir =
      .ok (⟨segOf pts offset, segOf pts offsetBack⟩, (E pts offset - E pts offsetBack) / length)

theorem C07_strapCoeff_fwd : C07_strapCoeff_fwd_statement (α := α) := by
  intro pts dir l offset offsetBack length s hp hdir hl hlen hback hx h2 hf hb
  have hxb : offsetBack ≤ l.off := by rw [hback]; linarith
  have h1 := segOf_succ_lt hp.sorted h2 hl hx
  have h1' := segOf_succ_lt hp.sorted h2 hl hxb
  rw [strapCoeff_fwd_gen hp hdir hl hlen hback hx (by omega) (by omega)
    (le_trans hf (segOf_le_segOfB _ _)) (le_trans hb (segOf_le_segOfB _ _)),
    max_eq_right hf, max_eq_right hb]

-- two-index branch: a 700 m train over the 500 m level segment, rear on the down grade
example : strapCoeff Ex.gradesQ ⟨1, 0⟩ 3200 2500 700 .fwd =
    .ok (⟨segOf Ex.gradesQ 3200, segOf Ex.gradesQ 2500⟩, (E Ex.gradesQ 3200 - E Ex.gradesQ 2500) / 700) :=
  C07_strapCoeff_fwd Ex.gradesQ .fwd Ex.lastG 3200 2500 700 ⟨1, 0⟩ Ex.gradesQ_profile (by decide) rfl
    (by decide +kernel) (by decide +kernel) (by decide +kernel) (by decide) (by decide +kernel)
    (by decide +kernel)
example : strapCoeff Ex.gradesQ ⟨1, 0⟩ 3200 2500 700 .fwd = .ok (⟨2, 1⟩, (100 - 205/2) / 700) :=
  Ex.view_inj (by decide +kernel)
-- coincident branch with a STALE rear index before the call (`back = 2 = segOf 3100`, front moves 2 → 2)
example : strapCoeff Ex.gradesQ ⟨2, 2⟩ 3400 3100 300 .fwd =
    .ok (⟨segOf Ex.gradesQ 3400, segOf Ex.gradesQ 3100⟩, (E Ex.gradesQ 3400 - E Ex.gradesQ 3100) / 300) :=
  C07_strapCoeff_fwd Ex.gradesQ .fwd Ex.lastG 3400 3100 300 ⟨2, 2⟩ Ex.gradesQ_profile (by decide) rfl
    (by decide +kernel) (by decide +kernel) (by decide +kernel) (by decide) (by decide +kernel)
    (by decide +kernel)

/-- `offsetBack = offset − length` is forced: in the coincident branch the code returns the slope
    `1/100`, the difference quotient over a 700 m "length" with the rear only 100 m behind is `1/700`
    (not reachable through `update_res`, which sets `offset_back` first) -/
theorem C07_offsetBack_forced_counterexample :
    strapCoeff Ex.gradesQ ⟨0, 0⟩ 500 400 700 .fwd = .ok (⟨0, 0⟩, 1/100) ∧
    (E Ex.gradesQ 500 - E Ex.gradesQ 400) / 700 = 1/700 :=
  ⟨Ex.view_inj (by decide +kernel), by decide +kernel⟩

/-- **`calc_res`, backward direction** (left-closed indices).  Forced: `0 < length`,
    `offsetBack = offset − length`, `first.off ≤ offsetBack` (`ensure!`), both cached indices in range
    (`self[idx]`) and not before the true ones.  NOT needed: `offset ≤ last.off`. -/
def C07_strapCoeff_bwd_statement : Prop :=
  ∀ (pts : List (PRC α)) (p0 : PRC α) (offset offsetBack length : α) (s : StrapIdx),
    Profile pts → pts.head? = some p0 → 0 < length →
    offsetBack = offset - length → p0.off ≤ offsetBack →
    s.front < pts.length → s.back < pts.length →
    segOfB pts offset ≤ s.front → segOfB pts offsetBack ≤ s.back →
    strapCoeff pts s offset offsetBack length .bwd =
      .ok (⟨segOfB pts offset, segOfB pts offsetBack⟩, (E pts offset - E pts offsetBack) / length)

theorem C07_strapCoeff_bwd : C07_strapCoeff_bwd_statement (α := α) := by
  intro pts p0 offset offsetBack length s hp hh hlen hback hx hfr hbr hf hb
  rw [strapCoeff_bwd_gen hp hh hlen hback hx hfr hbr
    (le_trans (segOf_le_segOfB _ _) hf) (le_trans (segOf_le_segOfB _ _) hb),
    min_eq_right hf, min_eq_right hb]

example : strapCoeff Ex.gradesQ ⟨4, 3⟩ 3200 2500 700 .bwd =
    .ok (⟨segOfB Ex.gradesQ 3200, segOfB Ex.gradesQ 2500⟩, (E Ex.gradesQ 3200 - E Ex.gradesQ 2500) / 700) :=
  C07_strapCoeff_bwd Ex.gradesQ Ex.firstG 3200 2500 700 ⟨4, 3⟩ Ex.gradesQ_profile rfl
    (by decide +kernel) (by decide +kernel) (by decide +kernel) (by decide) (by decide)
    (by decide +kernel) (by decide +kernel)

/-- **`calc_res` under the weak (mixed-direction) invariant**: cached indices in range and on the right
    side of the OTHER convention's index.  The coefficient is still the difference quotient; the
    new indices are `max old (segOf ·)` / `min old (segOfB ·)`. -/
def C07_strapCoeff_weak_statement : Prop :=
  ∀ (pts : List (PRC α)) (offset offsetBack length : α) (s : StrapIdx),
    Profile pts → 0 < length → offsetBack = offset - length →
    (∀ (dir : Dir) (l : PRC α), dir ≠ .bwd → pts.getLast? = some l → offset ≤ l.off →
      s.front + 1 < pts.length → s.back + 1 < pts.length →
      s.front ≤ segOfB pts offset → s.back ≤ segOfB pts offsetBack →
      strapCoeff pts s offset offsetBack length dir =
        .ok (⟨max s.front (segOf pts offset), max s.back (segOf pts offsetBack)⟩,
             (E pts offset - E pts offsetBack) / length)) ∧
    (∀ (p0 : PRC α), pts.head? = some p0 → p0.off ≤ offsetBack →
      s.front < pts.length → s.back < pts.length →
      segOf pts offset ≤ s.front → segOf pts offsetBack ≤ s.back →
      strapCoeff pts s offset offsetBack length .bwd =
        .ok (⟨min s.front (segOfB pts offset), min s.back (segOfB pts offsetBack)⟩,
             (E pts offset - E pts offsetBack) / length))

theorem C07_strapCoeff_weak : C07_strapCoeff_weak_statement (α := α) := by
  intro pts offset offsetBack length s hp hlen hback
  exact ⟨fun dir l hdir hl hx hf hb hif hib => strapCoeff_fwd_gen hp hdir hl hlen hback hx hf hb hif hib,
    fun p0 hh hx hf hb hif hib => strapCoeff_bwd_gen hp hh hlen hback hx hf hb hif hib⟩

-- `Bwd` straight after `Unk` at the end of the path: cached ⟨3, 2⟩ are the forward indices of 4000 / 3300
example : strapCoeff Ex.gradesQ ⟨3, 2⟩ 4000 3300 700 .bwd =
    .ok (⟨min 3 (segOfB Ex.gradesQ 4000), min 2 (segOfB Ex.gradesQ 3300)⟩,
         (E Ex.gradesQ 4000 - E Ex.gradesQ 3300) / 700) :=
  (C07_strapCoeff_weak Ex.gradesQ 4000 3300 700 ⟨3, 2⟩ Ex.gradesQ_profile (by decide +kernel)
    (by decide +kernel)).2 Ex.firstG rfl (by decide +kernel) (by decide) (by decide)
    (by decide +kernel) (by decide +kernel)

/-! ## §5  `method::Strap::update_res` -/

/-- **Scalar forces.**  Every accepted `update_res`: weight = static mass × g, rolling = ratio × weight,
    Davis-B = coefficient × speed × weight, bearing = the per-axle total, aerodynamic = drag area ×
    air density × speed², rear position = front − length; position, speed, length, mass and the
    coefficients themselves are not touched.  No hypothesis. -/
def C07_updateRes_scalars_statement : Prop :=
  ∀ (g rho : α) (grades curves : List (PRC α)) (r r' : ResStrap α) (st st' : ResState α) (dir : Dir),
    updateRes g rho grades curves r st dir = .ok (r', st') →
      st'.weightStatic = st.massStatic * g ∧
      st'.resRolling = r.rollingRatio * st'.weightStatic ∧
      st'.resDavisB = r.davisB * st.speed * st'.weightStatic ∧
      st'.resBearing = r.bearingForce ∧
      st'.resAero = r.cdArea * rho * st.speed * st.speed ∧
      st'.offsetBack = st.offset - st.length ∧
      (st'.offset = st.offset ∧ st'.speed = st.speed ∧ st'.length = st.length ∧
        st'.massStatic = st.massStatic) ∧
      (r'.bearingForce = r.bearingForce ∧ r'.rollingRatio = r.rollingRatio ∧
        r'.davisB = r.davisB ∧ r'.cdArea = r.cdArea)

theorem C07_updateRes_scalars : C07_updateRes_scalars_statement (α := α) := by
  intro g rho grades curves r r' st st' dir h
  obtain ⟨h1, h2, h3, h4, h5, h6, h7, h8⟩ := updateRes_scalars h
  exact ⟨h4, h6, h7, h5, h8, h3, h1, h2⟩

example : Ex.okAnd (fun out : ResStrap ℚ × ResState ℚ =>
      decide (out.2.weightStatic = 1000000 * (981/100)) && decide (out.2.resBearing = 4000) &&
      decide (out.2.resAero = 5 * (6/5) * 20 * 20))
    (updateRes (981/100) (6/5) Ex.gradesQ Ex.curvesQ Ex.rQ Ex.stQ .fwd) = true := by decide +kernel

/-- what `update_res` guarantees about the path-dependent fields when both cached index pairs end up
    at `gi` (grades) and `ci` (curves) -/
def PathClauses (g : α) (grades curves : List (PRC α)) (st st' : ResState α) (r' : ResStrap α)
    (gi ci : StrapIdx) : Prop :=
  r'.grade = gi ∧ r'.curve = ci ∧
  st'.resGrade =
    (E grades st.offset - E grades (st.offset - st.length)) / st.length * (st.massStatic * g) ∧
  st'.resCurve =
    (E curves st.offset - E curves (st.offset - st.length)) / st.length * (st.massStatic * g) ∧
  st'.elevFront = E grades st.offset ∧
  (∃ pf, grades[gi.front]? = some pf ∧ st'.gradeFront = pf.coeff) ∧
  (∃ pb, grades[gi.back]? = some pb ∧ st'.gradeBack = pb.coeff)

/-- **Path forces, forward / unknown direction** (set-speed and speed-limited runs).  Grade resistance =
    weight × (elevation front − elevation rear) / length, curve resistance likewise with the
    cumulative curve resistance, front elevation = elevation at the front, front / rear grade = slope
    of the segment `off_i < · ≤ off_{i+1}` containing the front / the rear; the cached indices are the
    true ones again.  Hypotheses as in `C07_strapCoeff_fwd`, for both lists. -/
def C07_updateRes_fwd_statement : Prop :=
  ∀ (g rho : α) (grades curves : List (PRC α)) (lg lc : PRC α) (r : ResStrap α) (st : ResState α)
    (dir : Dir),
    Profile grades → Profile curves → dir ≠ .bwd →
    grades.getLast? = some lg → curves.getLast? = some lc → 0 < st.length →
    st.offset ≤ lg.off → st.offset ≤ lc.off → 2 ≤ grades.length → 2 ≤ curves.length →
    r.grade.front ≤ segOf grades st.offset → r.grade.back ≤ segOf grades (st.offset - st.length) →
    r.curve.front ≤ segOf curves st.offset → r.curve.back ≤ segOf curves (st.offset - st.length) →
    ∃ r' st', updateRes g rho grades curves r st dir = .ok (r', st') ∧
      PathClauses g grades curves st st' r'
        ⟨segOf grades st.offset, segOf grades (st.offset - st.length)⟩
        ⟨segOf curves st.offset, segOf curves (st.offset - st.length)⟩

theorem pathClauses_of {g rho : α} {grades curves : List (PRC α)} {r : ResStrap α} {st : ResState α}
    {dir : Dir} {gi ci : StrapIdx} (hg : Profile grades)
    (h1 : strapCoeff grades r.grade st.offset (st.offset - st.length) st.length dir =
      .ok (gi, (E grades st.offset - E grades (st.offset - st.length)) / st.length))
    (h2 : strapCoeff curves r.curve st.offset (st.offset - st.length) st.length dir =
      .ok (ci, (E curves st.offset - E curves (st.offset - st.length)) / st.length))
    (hf : Seg grades gi.front st.offset) (hb : gi.back < grades.length) :
    ∃ r' st', updateRes g rho grades curves r st dir = .ok (r', st') ∧
      PathClauses g grades curves st st' r' gi ci := by
  refine ⟨_, _, updateRes_ok_of h1 h2 hf.1 hb, rfl, rfl, rfl, rfl, ?_, ?_, ?_⟩
  · exact prcVal_of_seg hg hf
  · exact ⟨_, List.getElem?_eq_getElem hf.1, rfl⟩
  · exact ⟨_, List.getElem?_eq_getElem hb, rfl⟩

theorem C07_updateRes_fwd : C07_updateRes_fwd_statement (α := α) := by
  intro g rho grades curves lg lc r st dir hg hc hdir hlg hlc hlen hxg hxc h2g h2c hgf hgb hcf hcb
  have hneg : grades ≠ [] := by intro h0; simp [h0] at h2g
  have h1 := C07_strapCoeff_fwd grades dir lg st.offset _ st.length r.grade hg hdir hlg hlen rfl hxg
    h2g hgf hgb
  have h2 := C07_strapCoeff_fwd curves dir lc st.offset _ st.length r.curve hc hdir hlc hlen rfl hxc
    h2c hcf hcb
  exact pathClauses_of hg h1 h2 (seg_segOf hg.sorted hneg _) (segOf_lt_length hneg _)

example : ∃ r' st', updateRes (981/100) (6/5) Ex.gradesQ Ex.curvesQ Ex.rQ Ex.stQ .fwd = .ok (r', st') ∧
    PathClauses (981/100) Ex.gradesQ Ex.curvesQ Ex.stQ st' r'
      ⟨segOf Ex.gradesQ Ex.stQ.offset, segOf Ex.gradesQ (Ex.stQ.offset - Ex.stQ.length)⟩
      ⟨segOf Ex.curvesQ Ex.stQ.offset, segOf Ex.curvesQ (Ex.stQ.offset - Ex.stQ.length)⟩ :=
  C07_updateRes_fwd (981/100) (6/5) Ex.gradesQ Ex.curvesQ Ex.lastG Ex.lastC Ex.rQ Ex.stQ .fwd
    Ex.gradesQ_profile Ex.curvesQ_profile (by decide) rfl rfl (by decide +kernel) (by decide +kernel)
    (by decide +kernel) (by decide) (by decide) (by decide +kernel) (by decide +kernel)
    (by decide +kernel) (by decide +kernel)

/-- **Path forces, backward direction** (braking-curve construction).  As above with the left-closed
    indices: front / rear grade = slope of the segment `off_i ≤ · < off_{i+1}`. -/
def C07_updateRes_bwd_statement : Prop :=
  ∀ (g rho : α) (grades curves : List (PRC α)) (g0 c0 : PRC α) (r : ResStrap α) (st : ResState α),
    Profile grades → Profile curves →
    grades.head? = some g0 → curves.head? = some c0 → 0 < st.length →
    g0.off ≤ st.offset - st.length → c0.off ≤ st.offset - st.length →
    r.grade.front < grades.length → r.grade.back < grades.length →
    r.curve.front < curves.length → r.curve.back < curves.length →
    segOfB grades st.offset ≤ r.grade.front → segOfB grades (st.offset - st.length) ≤ r.grade.back →
    segOfB curves st.offset ≤ r.curve.front → segOfB curves (st.offset - st.length) ≤ r.curve.back →
    ∃ r' st', updateRes g rho grades curves r st .bwd = .ok (r', st') ∧
      PathClauses g grades curves st st' r'
        ⟨segOfB grades st.offset, segOfB grades (st.offset - st.length)⟩
        ⟨segOfB curves st.offset, segOfB curves (st.offset - st.length)⟩

theorem C07_updateRes_bwd : C07_updateRes_bwd_statement (α := α) := by
  intro g rho grades curves g0 c0 r st hg hc hhg hhc hlen hxg hxc hgfr hgbr hcfr hcbr hgf hgb hcf hcb
  have hneg : grades ≠ [] := by intro h0; simp [h0] at hhg
  have h1 := C07_strapCoeff_bwd grades g0 st.offset _ st.length r.grade hg hhg hlen rfl hxg
    hgfr hgbr hgf hgb
  have h2 := C07_strapCoeff_bwd curves c0 st.offset _ st.length r.curve hc hhc hlen rfl hxc
    hcfr hcbr hcf hcb
  exact pathClauses_of hg h1 h2 (seg_segOfB hg.sorted hneg _) (segOfB_lt_length hneg _)

example : ∃ r' st', updateRes (981/100) (6/5) Ex.gradesQ Ex.curvesQ
      { Ex.rQ with grade := ⟨4, 3⟩, curve := ⟨3, 3⟩ } Ex.stQ .bwd = .ok (r', st') ∧
    PathClauses (981/100) Ex.gradesQ Ex.curvesQ Ex.stQ st' r'
      ⟨segOfB Ex.gradesQ Ex.stQ.offset, segOfB Ex.gradesQ (Ex.stQ.offset - Ex.stQ.length)⟩
      ⟨segOfB Ex.curvesQ Ex.stQ.offset, segOfB Ex.curvesQ (Ex.stQ.offset - Ex.stQ.length)⟩ :=
  C07_updateRes_bwd (981/100) (6/5) Ex.gradesQ Ex.curvesQ Ex.firstG Ex.firstC
    { Ex.rQ with grade := ⟨4, 3⟩, curve := ⟨3, 3⟩ } Ex.stQ
    Ex.gradesQ_profile Ex.curvesQ_profile rfl rfl (by decide +kernel) (by decide +kernel)
    (by decide +kernel) (by decide) (by decide) (by decide) (by decide) (by decide +kernel)
    (by decide +kernel) (by decide +kernel) (by decide +kernel)

/-! ## §6  No out-of-range access, loop overrun, underflow or failed `debug_assert` -/

/-- **`calc_idx` never panics on an in-range hint** — whatever `x`, whatever the list (sorted or
    not): a violated `ensure!` is an `Err`.  Forced: the range of the hint (`C07_calcIdx_fwd_oob`). -/
def C07_calcIdx_no_panic_statement : Prop :=
  ∀ (pts : List (PRC α)) (x : α) (idx : Nat) (dir : Dir) (m : String),
    (dir ≠ .bwd → idx + 1 < pts.length) → (dir = .bwd → idx < pts.length) →
    calcIdx pts x idx dir ≠ .panic m

theorem C07_calcIdx_no_panic : C07_calcIdx_no_panic_statement (α := α) := by
  intro pts x idx dir m h1 h2
  by_cases hd : dir = .bwd
  · subst hd; exact (calcIdx_post_bwd pts x (h2 rfl)).noPanic m
  · exact (calcIdx_post_fwd pts x hd (h1 hd)).noPanic m

example : calcIdx Ex.gradesQ 5000 3 .fwd ≠ .panic "index" :=
  C07_calcIdx_no_panic Ex.gradesQ 5000 3 .fwd _ (fun _ => by decide) (fun h => by cases h)
example : calcIdx Ex.gradesQ 5000 3 .fwd = .err "offset-beyond-last" := Ex.view_inj (by decide +kernel)

/-- **`calc_res` and `update_res` never panic** on in-range cached indices (`InRange`: `idx + 1` in range
    for forward / unknown, `idx` in range for backward) and a positive train length, and they leave
    in-range indices behind — so no run started in range can ever panic.
    Forced: `0 < length` (`debug_assert!(state.length > 0)` in the two-index branch). -/
def C07_no_panic_statement : Prop :=
  (∀ (pts : List (PRC α)) (s : StrapIdx) (offset offsetBack length : α) (dir : Dir),
    0 < length → InRange dir pts.length s →
    (∀ m, strapCoeff pts s offset offsetBack length dir ≠ .panic m) ∧
    (∀ out, strapCoeff pts s offset offsetBack length dir = .ok out → InRange dir pts.length out.1)) ∧
  (∀ (g rho : α) (grades curves : List (PRC α)) (r : ResStrap α) (st : ResState α) (dir : Dir),
    0 < st.length → InRange dir grades.length r.grade → InRange dir curves.length r.curve →
    (∀ m, updateRes g rho grades curves r st dir ≠ .panic m) ∧
    (∀ out, updateRes g rho grades curves r st dir = .ok out →
      InRange dir grades.length out.1.grade ∧ InRange dir curves.length out.1.curve))

theorem C07_no_panic : C07_no_panic_statement (α := α) := by
  constructor
  · intro pts s offset offsetBack length dir hlen hs
    have h := strapCoeff_post pts s offset offsetBack length dir hlen hs
    exact ⟨h.noPanic, fun out e => h.of_ok e⟩
  · intro g rho grades curves r st dir hlen hg hc
    have h := updateRes_post g rho grades curves r st dir hlen hg hc
    exact ⟨h.noPanic, fun out e => h.of_ok e⟩

example : ∀ m, updateRes (981/100) (6/5) Ex.gradesQ Ex.curvesQ Ex.rQ Ex.stQ .fwd ≠ .panic m :=
  (C07_no_panic.2 (981/100) (6/5) Ex.gradesQ Ex.curvesQ Ex.rQ Ex.stQ .fwd (by decide +kernel)
    ⟨by decide, by decide⟩ ⟨by decide, by decide⟩).1

example : ∀ m, strapCoeff Ex.gradesQ ⟨3, 0⟩ 3200 2500 700 .unk ≠ .panic m :=
  (C07_no_panic.1 Ex.gradesQ ⟨3, 0⟩ 3200 2500 700 .unk (by decide +kernel) ⟨by decide, by decide⟩).1

/-- the `debug_assert!` is reachable with a non-positive length (debug builds only) -/
theorem C07_debug_assert_counterexample :
    strapCoeff Ex.gradesQ ⟨0, 0⟩ 3200 3200 0 .unk = .ok (⟨2, 2⟩, 0) ∧
    strapCoeff Ex.gradesQ ⟨0, 0⟩ 2500 3200 (-700) .unk = .panic "debug_assert" :=
  ⟨Ex.view_inj (by decide +kernel), Ex.view_inj (by decide +kernel)⟩

/-! ## §3  The hint invariant along runs and across `extend` -/

/-- **Forward query runs.**  Queries `x₁ ≤ x₂ ≤ … ≤ last.off`, each answered with the previous answer as
    hint, the first hint not beyond the first true index: every answer is the true index. -/
def C07_idxRun_fwd_statement : Prop :=
  ∀ (pts : List (PRC α)) (dir : Dir) (l : PRC α) (xs : List α) (h : Nat),
    Sorted pts → 2 ≤ pts.length → dir ≠ .bwd → pts.getLast? = some l →
    xs.Pairwise (· ≤ ·) → (∀ x ∈ xs, x ≤ l.off) → (∀ x ∈ xs.head?, h ≤ segOf pts x) →
    idxRun pts dir h xs = .ok (xs.map (segOf pts))

theorem C07_idxRun_fwd : C07_idxRun_fwd_statement (α := α) :=
  fun _ _ _ xs h hs h2 hdir hl hpw hle hh => idxRun_fwd hs h2 hdir hl xs h hpw hle hh

example : idxRun Ex.gradesQ .fwd 0 [500, 1000, 1001, 3600, 3600, 4000] =
    .ok ([500, 1000, 1001, 3600, 3600, 4000].map (segOf Ex.gradesQ)) :=
  C07_idxRun_fwd Ex.gradesQ .fwd Ex.lastG _ 0 Ex.gradesQ_profile.sorted (by decide) (by decide) rfl
    (by decide +kernel) (by decide +kernel) (by decide +kernel)
example : [500, 1000, 1001, 3600, 3600, 4000].map (segOf Ex.gradesQ) = [0, 0, 1, 3, 3, 3] := by
  decide +kernel

/-- **Backward query runs.**  Queries `x₁ ≥ x₂ ≥ … ≥ first.off`, first hint in range and not before the
    first true (left-closed) index. -/
def C07_idxRun_bwd_statement : Prop :=
  ∀ (pts : List (PRC α)) (p0 : PRC α) (xs : List α) (h : Nat),
    Sorted pts → pts.head? = some p0 →
    xs.Pairwise (· ≥ ·) → (∀ x ∈ xs, p0.off ≤ x) → h < pts.length →
    (∀ x ∈ xs.head?, segOfB pts x ≤ h) →
    idxRun pts .bwd h xs = .ok (xs.map (segOfB pts))

theorem C07_idxRun_bwd : C07_idxRun_bwd_statement (α := α) :=
  fun _ _ xs h hs hh hpw hle hlt hhint => idxRun_bwd hs hh xs h hpw hle hlt hhint

example : idxRun Ex.gradesQ .bwd 4 [4000, 3600, 3000, 3000, 999, 0] =
    .ok ([4000, 3600, 3000, 3000, 999, 0].map (segOfB Ex.gradesQ)) :=
  C07_idxRun_bwd Ex.gradesQ Ex.firstG _ 4 Ex.gradesQ_profile.sorted rfl
    (by decide +kernel) (by decide +kernel) (by decide) (by decide +kernel)

/-- **Runs of `calc_res`, any admissible mixture of directions.**  From cached indices satisfying
    `StrapInv` at position `x`, along steps each of which is `StepOK` after the previous one
    (forward / unknown: position not decreasing, `≤ last.off`; backward: position not increasing,
    rear `≥ first.off`), every returned coefficient is the declarative difference quotient and
    `StrapInv` holds at the final position.  Covers set-speed and speed-limited runs (all `Fwd`) and
    `BrakingPoints::recalc` (one `Unk` at the end of the path, then `Bwd` steps downwards). -/
def C07_strapRun_statement : Prop :=
  ∀ (pts : List (PRC α)) (len : α) (l p0 : PRC α) (steps : List (α × Dir)) (s : StrapIdx) (x : α),
    Profile pts → 0 < len → pts.getLast? = some l → pts.head? = some p0 →
    StrapInv pts len s x → StepsOK len l.off p0.off x steps →
    ∃ s', strapRun pts len s steps =
        .ok (s', steps.map (fun xd => (E pts xd.1 - E pts (xd.1 - len)) / len)) ∧
      StrapInv pts len s' (steps.foldl (fun _ xd => xd.1) x)

theorem C07_strapRun : C07_strapRun_statement (α := α) :=
  fun _ _ _ _ steps s x hp hlen hl hh hinv hsteps => strapRun_correct hp hlen hl hh steps s x hinv hsteps

/-- the initial cached indices `⟨1, 0⟩` are valid for a 700 m train with its front at 1500 m -/
theorem Ex.inv0 : StrapInv Ex.gradesQ 700 ⟨1, 0⟩ 1500 := by
  refine ⟨by decide, by decide, ?_, ?_⟩ <;>
    exact (seg_iff Ex.gradesQ_profile.sorted (by decide) _ _).mpr (by decide +kernel)

-- forward to 3200 and 3400, `Unk` at the end of the path, then backward through two breakpoints
example : ∃ s', strapRun Ex.gradesQ 700 ⟨1, 0⟩
      [(3200, .fwd), (3400, .fwd), (4000, .unk), (4000, .bwd), (3700, .bwd), (3000, .bwd), (700, .bwd)] =
      .ok (s', [(3200, Dir.fwd), (3400, .fwd), (4000, .unk), (4000, .bwd), (3700, .bwd), (3000, .bwd),
        (700, .bwd)].map (fun xd => (E Ex.gradesQ xd.1 - E Ex.gradesQ (xd.1 - 700)) / 700)) ∧
    StrapInv Ex.gradesQ 700 s' 700 :=
  C07_strapRun Ex.gradesQ 700 Ex.lastG Ex.firstG _ ⟨1, 0⟩ 1500 Ex.gradesQ_profile (by decide +kernel)
    rfl rfl Ex.inv0 (by simp only [StepsOK, StepOK]; decide +kernel)

/-- **The invariant is established by `path_res::Strap::new`** (for `len > 1` points it is
    `idx_back = calc_idx(offset − length, 0, Fwd)`, `idx_front = calc_idx(offset, idx_back, Fwd)`):
    both calls return the true indices and these satisfy `StrapInv`. -/
def C07_strapInv_init_statement : Prop :=
  ∀ (pts : List (PRC α)) (l : PRC α) (x len : α),
    Sorted pts → 2 ≤ pts.length → pts.getLast? = some l → x ≤ l.off → 0 ≤ len →
    calcIdx pts (x - len) 0 .fwd = .ok (segOf pts (x - len)) ∧
    calcIdx pts x (segOf pts (x - len)) .fwd = .ok (segOf pts x) ∧
    StrapInv pts len ⟨segOf pts x, segOf pts (x - len)⟩ x

theorem C07_strapInv_init : C07_strapInv_init_statement (α := α) := by
  intro pts l x len hs h2 hl hx hlen
  have hne : pts ≠ [] := by intro h0; simp [h0] at h2
  have hxb : x - len ≤ l.off := by linarith
  refine ⟨C07_calcIdx_fwd pts .fwd l _ 0 hs (by simp) hl hxb h2 (Nat.zero_le _),
    C07_calcIdx_fwd pts .fwd l _ _ hs (by simp) hl hx h2 (segOf_mono pts (by linarith)),
    segOf_succ_lt hs h2 hl hx, segOf_succ_lt hs h2 hl hxb, seg_segOf hs hne _, seg_segOf hs hne _⟩

example : calcIdx Ex.gradesQ (3200 - 700) 0 .fwd = .ok (segOf Ex.gradesQ (3200 - 700)) ∧
    calcIdx Ex.gradesQ 3200 (segOf Ex.gradesQ (3200 - 700)) .fwd = .ok (segOf Ex.gradesQ 3200) ∧
    StrapInv Ex.gradesQ 700 ⟨segOf Ex.gradesQ 3200, segOf Ex.gradesQ (3200 - 700)⟩ 3200 :=
  C07_strapInv_init Ex.gradesQ Ex.lastG 3200 700 Ex.gradesQ_profile.sorted (by decide) rfl
    (by decide +kernel) (by decide +kernel)

/-- **One `update_res` step keeps the invariant** of both cached index pairs and yields all path clauses,
    whatever admissible direction: this is the induction step for every simulated run. -/
def C07_updateRes_step_statement : Prop :=
  ∀ (g rho : α) (grades curves : List (PRC α)) (lg lc g0 c0 : PRC α) (r : ResStrap α)
    (st : ResState α) (dir : Dir) (x : α),
    Profile grades → Profile curves → 0 < st.length →
    grades.getLast? = some lg → curves.getLast? = some lc →
    grades.head? = some g0 → curves.head? = some c0 →
    StrapInv grades st.length r.grade x → StrapInv curves st.length r.curve x →
    StepOK st.length lg.off g0.off x st.offset dir → StepOK st.length lc.off c0.off x st.offset dir →
    ∃ r' st', updateRes g rho grades curves r st dir = .ok (r', st') ∧
      StrapInv grades st.length r'.grade st.offset ∧ StrapInv curves st.length r'.curve st.offset ∧
      PathClauses g grades curves st st' r' r'.grade r'.curve

theorem C07_updateRes_step : C07_updateRes_step_statement (α := α) := by
  intro g rho grades curves lg lc g0 c0 r st dir x hg hc hlen hlg hlc hhg hhc hig hic hsg hsc
  obtain ⟨gi, h1, hgi⟩ := strapCoeff_step hg hlen hlg hhg hig hsg
  obtain ⟨ci, h2, hci⟩ := strapCoeff_step hc hlen hlc hhc hic hsc
  obtain ⟨r', st', hok, hcl⟩ := pathClauses_of (g := g) (rho := rho) hg h1 h2 hgi.front
    (by have := hgi.backR; omega)
  have e1 : r'.grade = gi := hcl.1
  have e2 : r'.curve = ci := hcl.2.1
  exact ⟨r', st', hok, by rw [e1]; exact hgi, by rw [e2]; exact hci, by rw [e1, e2]; exact hcl⟩

theorem Ex.invC0 : StrapInv Ex.curvesQ 700 ⟨0, 0⟩ 1500 := by
  refine ⟨by decide, by decide, ?_, ?_⟩ <;>
    exact (seg_iff Ex.curvesQ_profile.sorted (by decide) _ _).mpr (by decide +kernel)

example : ∃ r' st', updateRes (981/100) (6/5) Ex.gradesQ Ex.curvesQ Ex.rQ Ex.stQ .fwd = .ok (r', st') ∧
    StrapInv Ex.gradesQ Ex.stQ.length r'.grade Ex.stQ.offset ∧
    StrapInv Ex.curvesQ Ex.stQ.length r'.curve Ex.stQ.offset ∧
    PathClauses (981/100) Ex.gradesQ Ex.curvesQ Ex.stQ st' r' r'.grade r'.curve :=
  C07_updateRes_step (981/100) (6/5) Ex.gradesQ Ex.curvesQ Ex.lastG Ex.lastC Ex.firstG Ex.firstC
    Ex.rQ Ex.stQ .fwd 1500 Ex.gradesQ_profile Ex.curvesQ_profile (by decide +kernel) rfl rfl rfl rfl
    Ex.inv0 Ex.invC0 (Or.inl ⟨by decide, by decide +kernel, by decide +kernel⟩)
    (Or.inl ⟨by decide, by decide +kernel, by decide +kernel⟩)

/-- **Across `extend`.**  `extend` rewrites the (placeholder) slope of the old last point and appends:
    `Extends pts pts'` says `pts' = setLast pts f ++ more` with `f` keeping the offset.  If the result
    is sorted, then for every position up to the old end: both segment indices are unchanged; the
    profile value is unchanged (the old list must have had a segment, `2 ≤ length`, since the slope of
    a lone first point IS rewritten); and valid cached indices stay valid. -/
def C07_extend_statement : Prop :=
  ∀ (pts pts' : List (PRC α)) (l : PRC α) (x : α),
    Extends pts pts' → Sorted pts' → Sorted pts → pts.getLast? = some l → x ≤ l.off →
    (segOf pts' x = segOf pts x ∧ segOfB pts' x = segOfB pts x) ∧
    (2 ≤ pts.length → E pts' x = E pts x) ∧
    (∀ (len : α) (s : StrapIdx), 0 ≤ len → StrapInv pts len s x → StrapInv pts' len s x)

theorem C07_extend : C07_extend_statement (α := α) := by
  intro pts pts' l x hext hs hs0 hl hx
  obtain ⟨f, more, hf, rfl⟩ := hext
  exact ⟨segOf_extend hf hs hl hx, fun h2 => E_extend hf hs hs0 h2 hl hx,
    fun len s hlen hinv => StrapInv_extend hf hs hs0 hl hlen hx hinv⟩

/-- the extension used in the examples: the last slope becomes −1 % and a point at 5000 m is added -/
def Ex.gradesQ' : List (PRC ℚ) :=
  setLast Ex.gradesQ (fun p => { p with coeff := -1/100 }) ++ [⟨5000, 0, 100⟩]

example :
    (segOf Ex.gradesQ' 3200 = segOf Ex.gradesQ 3200 ∧ segOfB Ex.gradesQ' 3200 = segOfB Ex.gradesQ 3200) ∧
    (2 ≤ Ex.gradesQ.length → E Ex.gradesQ' 3200 = E Ex.gradesQ 3200) ∧
    (∀ (len : ℚ) (s : StrapIdx), 0 ≤ len → StrapInv Ex.gradesQ len s 3200 →
      StrapInv Ex.gradesQ' len s 3200) :=
  C07_extend Ex.gradesQ Ex.gradesQ' Ex.lastG 3200 ⟨fun p => { p with coeff := -1/100 }, [⟨5000, 0, 100⟩], fun _ => rfl, rfl⟩
    (by unfold Sorted; decide +kernel) Ex.gradesQ_profile.sorted rfl (by decide +kernel)

/-- **The model's `PathTpc::extend` has this shape**, for `grades` and for `curves` (initial-elevation
    fix-up, per-link `pushGrades` / `pushCurves` or the flat fallback, folded over the link path). -/
def C07_extend_model_statement : Prop :=
  ∀ (toU32 : α → Nat) (g : GeoConsts α) (net : List (Link α)) (t t' : Tpc α) (path : List Nat),
    Tpc.extend toU32 g net t path = .ok t' →
    Extends t.grades t'.grades ∧ Extends t.curves t'.curves

theorem C07_extend_model : C07_extend_model_statement (α := α) :=
  fun _ _ _ _ _ _ h => extend_extends h

namespace Ex
theorem okAnd_exists {σ} {p : σ → Bool} {r : Res σ} (h : okAnd p r = true) :
    ∃ x, r = .ok x ∧ p x = true := by
  cases r <;> simp_all [okAnd]

def parQ : TrainPar ℚ := ⟨⟨700, 25, 1000000, 10000, 400⟩, 0, 1/1000, 1/500, 1/100⟩
def geoQ : GeoConsts ℚ := ⟨44/7, 2, 11/630, 762/25, 1⟩
/-- a fake link 0, a straight 1000 m link climbing 10 m, a curved 500 m link with three elevations -/
def netQ : List (Link ℚ) :=
  [ ⟨0, 0, 0, 0, 0, 0, [], [], none, [], []⟩,
    ⟨1, 0, 0, 2, 0, 1000, [⟨0, 100⟩, ⟨1000, 110⟩], [], some ⟨true, [], []⟩, [], []⟩,
    ⟨2, 1, 0, 0, 0, 500, [⟨0, 110⟩, ⟨250, 110⟩, ⟨500, 105⟩], [⟨0, 0⟩, ⟨500, 1/10⟩],
      some ⟨true, [], []⟩, [], []⟩ ]
end Ex

-- two successive `extend` calls of the model (the second one rewrites a slope and appends two points)
example : ∃ t t', Tpc.extend (fun _ => 0) Ex.geoQ Ex.netQ (Tpc.new Ex.parQ) [1] = .ok t ∧
    Tpc.extend (fun _ => 0) Ex.geoQ Ex.netQ t [2] = .ok t' ∧
    t.grades.length = 2 ∧ t'.grades.length = 4 ∧
    Extends t.grades t'.grades ∧ Extends t.curves t'.curves := by
  obtain ⟨t, ht, hp⟩ := Ex.okAnd_exists
    (p := fun t : Tpc ℚ => decide (t.grades.length = 2) &&
      Ex.okAnd (fun t' : Tpc ℚ => decide (t'.grades.length = 4)) (Tpc.extend (fun _ => 0) Ex.geoQ Ex.netQ t [2]))
    (r := Tpc.extend (fun _ => 0) Ex.geoQ Ex.netQ (Tpc.new Ex.parQ) [1]) (by decide +kernel)
  simp only [Bool.and_eq_true, decide_eq_true_eq] at hp
  obtain ⟨t', ht', hp'⟩ := Ex.okAnd_exists hp.2
  have := C07_extend_model _ _ _ _ _ _ ht'
  exact ⟨t, t', ht, ht', hp.1, by simpa using hp', this.1, this.2⟩

/-- plain append: `Profile (pts ++ more)` restricts to `Profile pts`, and indices / values up to the old
    end are those of `pts` -/
def C07_extend_append_statement : Prop :=
  ∀ (pts more : List (PRC α)) (l : PRC α) (x : α),
    Profile (pts ++ more) → pts.getLast? = some l → x ≤ l.off →
    Profile pts ∧ segOf (pts ++ more) x = segOf pts x ∧ segOfB (pts ++ more) x = segOfB pts x ∧
    (2 ≤ pts.length → E (pts ++ more) x = E pts x)

theorem C07_extend_append : C07_extend_append_statement (α := α) := by
  intro pts more l x hp hl hx
  have hne : pts ≠ [] := by intro h0; simp [h0] at hl
  have hid : setLast pts id = pts := by
    rw [setLast_eq pts id hne]; exact List.dropLast_append_getLast hne
  have hs0 : Sorted pts := (List.pairwise_append.mp hp.sorted).1
  have hp0 : Profile pts := by
    refine ⟨hs0, fun i h => ?_⟩
    have := hp.cont i (by rw [List.length_append]; omega)
    rw [List.getElem_append_left h, List.getElem_append_left (by omega)] at this
    exact this
  have hs : Sorted (setLast pts id ++ more) := by rw [hid]; exact hp.sorted
  have h1 := segOf_extend (f := id) (fun _ => rfl) hs hl hx
  rw [hid] at h1
  refine ⟨hp0, h1.1, h1.2, fun h2 => ?_⟩
  have := E_extend (f := id) (fun _ => rfl) hs hs0 h2 hl hx
  rwa [hid] at this

example : Profile (Ex.gradesQ.take 3) ∧
    segOf (Ex.gradesQ.take 3 ++ Ex.gradesQ.drop 3) 2500 = segOf (Ex.gradesQ.take 3) 2500 ∧
    segOfB (Ex.gradesQ.take 3 ++ Ex.gradesQ.drop 3) 2500 = segOfB (Ex.gradesQ.take 3) 2500 ∧
    (2 ≤ (Ex.gradesQ.take 3).length →
      E (Ex.gradesQ.take 3 ++ Ex.gradesQ.drop 3) 2500 = E (Ex.gradesQ.take 3) 2500) :=
  C07_extend_append (Ex.gradesQ.take 3) (Ex.gradesQ.drop 3) ⟨3000, 0, 100⟩ 2500
    (by rw [List.take_append_drop]; exact Ex.gradesQ_profile) rfl (by decide +kernel)

end Altrios.Proofs.C07
