import Altrios.Powertrain
import Proofs.Lemmas.Basic
import Proofs.Lemmas.Interp
import Mathlib.Algebra.Order.Field.Basic
import Mathlib.Algebra.Order.Ring.Rat
import Mathlib.Algebra.Field.Rat
import Mathlib.Tactic.Linarith
import Mathlib.Tactic.Ring
import Mathlib.Tactic.SplitIfs
import Mathlib.Tactic.NormNum
import Mathlib.Tactic.Positivity
import Mathlib.Data.List.Chain
/-
  C08 — "Every component obeys the second law; a switched-off engine burns nothing."

  Interpolation (proofs in `Proofs/Lemmas/Interp.lean`)
    * `C08_interp1d_range`, `C08_interp3d_range`   : the interpolated value lies in the range of the map
  One component call (`…_step`): η ∈ (0,1], loss ≥ 0, out ≤ in (both directions for the reversible
  ones), dynamic-brake clauses, cumulative energies do not decrease when `0 ≤ dt`
    * `C08_fc_step`, `C08_gen_step`, `C08_edrv_step`, `C08_edrv_dyn_zero`, `C08_res_step`
  Engine off
    * `C08_engine_off_fc`, `C08_engine_off_aux`, `C08_engine_off_conv`, `C08_engine_off_loco`
  Whole locomotive, one step / whole traces (`locoWalk` = left fold of `locoSimStep`)
    * `C08_loco_step`, `locoSimStep_params`, `C08_walk_monotone`, `C08_walk_step`

  Every hypothesis is either FORCED (the clause is false without it; witnesses `…_forced`) or a
  GUARD for a division the model totalises (`x / 0 = 0` in a field, NaN at `Float`); both kinds are
  marked at the statement.  Every main theorem is followed (section `Examples`) by an instance over
  `ℚ` with all hypotheses discharged.
-/
set_option linter.unusedSectionVars false
namespace Altrios.Proofs.C08
open Altrios Altrios.Interp Altrios.PT Altrios.Proofs.Basic Altrios.Proofs.InterpL

variable {α : Type} [Field α] [LinearOrder α] [IsStrictOrderedRing α]

def Map1OK (frac eta : List α) : Prop :=
  eta ≠ [] ∧ frac.IsChain (· ≠ ·) ∧ ∀ v ∈ eta, 0 < v ∧ v ≤ 1

/-- A whole locomotive simulation: the left fold of `LocomotiveSimulation::solve_step` over the
    trace of `(pwr_out_req, dt, engine_on)` samples, aborting at the first rejected step.
    (Stated with the same operation classes as the model, so it also runs at `Float`/`Rat`.) -/
def locoWalk {β : Type} [Add β] [Sub β] [Mul β] [Div β] [Neg β] [LT β] [LE β]
    [DecidableLT β] [DecidableLE β] [OfNat β 0] [OfNat β 1]
    (k : Consts β) (l : Loco β) : List (β × β × Option Bool) → Res (Loco β)
  | [] => .ok l
  | (req, dt, eo) :: t => (locoSimStep k l req dt eo).bind fun l' => locoWalk k l' t

/-! ### what an accepted component call computes -/

/-- the fuel-converter record written by an accepted `fcSolve` whose map lookup returned `eta` -/
def fcNext (fc : FC α) (req dt : α) (on : Bool) (eta : α) : FC α :=
  let idle := if on then fc.pwrIdleFuel else 0
  let pwrFuel := req / eta + idle
  let pwrLoss := pwrFuel - req
  let s := fc.state
  { fc with state := { s with
    pwrBrake := req, eta := eta, engineOn := on, pwrIdleFuel := idle,
    pwrFuel := pwrFuel, pwrLoss := pwrLoss,
    energyBrake := s.energyBrake + req * dt,
    energyFuel := s.energyFuel + pwrFuel * dt,
    energyLoss := s.energyLoss + pwrLoss * dt,
    energyIdleFuel := s.energyIdleFuel + idle * dt } }

theorem fcSolve_ok (k : Consts α) (fc fc' : FC α) (req dt : α) (on al : Bool)
    (h : fcSolve k fc req dt on al = .ok fc') :
    ∃ eta, 0 ≤ req ∧ interp1d (req / fc.pwrOutMax) fc.fracInterp fc.etaInterp = .ok eta ∧
      (on = true ∨ req = 0) ∧ fc' = fcNext fc req dt on eta := by
  unfold fcSolve at h
  cases al
  all_goals
    simp only [bind, pure, bind_ok_iff, ensure_ok_iff, decide_eq_true_iff, if_true, if_false,
      Bool.false_eq_true, exists_const, Bool.or_eq_true, eqb_iff] at h
  · obtain ⟨h0, eta, hi, ho, -, hr⟩ := h
    cases hr
    exact ⟨eta, h0, hi, ho, rfl⟩
  · obtain ⟨-, -, h0, eta, hi, ho, -, hr⟩ := h
    cases hr
    exact ⟨eta, h0, hi, ho, rfl⟩

/-- the generator record written by an accepted `genReq` whose map lookup returned `eta` -/
def genNext (g : Gen α) (prop aux dt eta : α) : Gen α :=
  let s := g.state
  let mechIn := (prop + aux) / eta
  let loss := mechIn - (prop + aux)
  { g with state := { s with
    eta := eta, pwrElecPropOut := prop, pwrElecAux := aux, pwrMechIn := mechIn, pwrLoss := loss,
    energyElecPropOut := s.energyElecPropOut + prop * dt,
    energyElecAux := s.energyElecAux + aux * dt,
    energyMechIn := s.energyMechIn + mechIn * dt,
    energyLoss := s.energyLoss + loss * dt } }

theorem genReq_ok (g g' : Gen α) (prop aux dt : α) (h : genReq g prop aux dt = .ok g') :
    ∃ eta, 0 ≤ prop ∧ prop + aux ≤ g.pwrOutMax ∧
      interp1d (absv (prop / g.pwrOutMax)) g.fracInterp g.etaInterp = .ok eta ∧
      g' = genNext g prop aux dt eta := by
  unfold genReq at h
  simp only [bind, pure, bind_ok_iff, ensure_ok_iff, decide_eq_true_iff, exists_const] at h
  obtain ⟨h0, h1, eta, hi, hr⟩ := h
  cases hr
  exact ⟨eta, h0, h1, hi, rfl⟩

/-- the drivetrain record written by an accepted `edrvReq` whose map lookup returned `eta` -/
def edrvNext (e : Edrv α) (req dt eta : α) : Edrv α :=
  let s := e.state
  let prop := mx req (-s.pwrMechRegenMax)
  let dyn := -(req - prop)
  let elecIn := if 0 < req then prop / eta else prop * eta
  let elecDyn := dyn * eta
  let loss := absv (prop - elecIn)
  { e with state := { s with
    pwrOutReq := req, eta := eta, pwrMechPropOut := prop, pwrMechDynBrake := dyn,
    pwrElecPropIn := elecIn, pwrElecDynBrake := elecDyn, pwrLoss := loss,
    energyMechPropOut := s.energyMechPropOut + prop * dt,
    energyMechDynBrake := s.energyMechDynBrake + dyn * dt,
    energyElecPropIn := s.energyElecPropIn + elecIn * dt,
    energyElecDynBrake := s.energyElecDynBrake + elecDyn * dt,
    energyLoss := s.energyLoss + loss * dt } }

theorem edrvReq_ok (e e' : Edrv α) (req dt : α) (h : edrvReq e req dt = .ok e') :
    ∃ eta, req ≤ e.pwrOutMax ∧
      interp1d (absv (req / e.pwrOutMax)) e.fracInterp e.etaInterp = .ok eta ∧
      e' = edrvNext e req dt eta := by
  unfold edrvReq at h
  simp only [bind, pure, bind_ok_iff, ensure_ok_iff, decide_eq_true_iff, exists_const] at h
  obtain ⟨h0, eta, hi, -, hr⟩ := h
  cases hr
  exact ⟨eta, h0, hi, rfl⟩

/-- the battery record written by an accepted `resSolve` whose table lookup returned `eta` -/
def resNext (r : RES α) (prop aux dt eta : α) : RES α :=
  let s := r.state
  let elec := prop + aux
  let chem := if 0 < elec then elec / eta else elec * eta
  let loss := absv (chem - elec)
  { r with state := { s with
    pwrOutPropulsion := prop, pwrAux := aux, pwrOutElectrical := elec, eta := eta,
    pwrOutChemical := chem, pwrLoss := loss,
    energyOutPropulsion := s.energyOutPropulsion + prop * dt,
    energyAux := s.energyAux + aux * dt,
    energyOutElectrical := s.energyOutElectrical + elec * dt,
    energyOutChemical := s.energyOutChemical + chem * dt,
    energyLoss := s.energyLoss + loss * dt,
    soc := s.soc - chem * dt / r.energyCapacity } }

theorem resSolve_ok (k : Consts α) (r r' : RES α) (prop aux dt : α)
    (h : resSolve k r prop aux dt = .ok r') :
    ∃ eta, interp3d r.state.temperature r.state.soc ((prop + aux) / r.capWh)
        r.gridT r.gridSoc r.gridC r.etaVals = .ok eta ∧
      r' = resNext r prop aux dt eta := by
  unfold resSolve at h
  simp only [bind, pure] at h
  split_ifs at h with h1 h2 h2
  all_goals
    simp only [bind_ok_iff, ensure_ok_iff, exists_const] at h
    obtain ⟨-, -, -, -, eta, hi, hr⟩ := h
    cases hr
    refine ⟨eta, ?_, by simp only [resNext, h2, if_true, if_false]⟩
    split at hi
    · cases hi; assumption
    · cases hi
    · cases hi

/-! ### arithmetic of one conversion -/

theorem le_div_eta {a eta : α} (ha : 0 ≤ a) (h0 : 0 < eta) (h1 : eta ≤ 1) : a ≤ a / eta := by
  rw [le_div_iff₀ h0]; nlinarith

theorem abs_mul_eta_le (a : α) {eta : α} (h0 : 0 < eta) (h1 : eta ≤ 1) : |a * eta| ≤ |a| := by
  rw [abs_mul, abs_of_pos h0]; nlinarith [abs_nonneg a]

theorem exists_of_isOk {σ : Type} {r : Res σ} (h : r.isOk = true) : ∃ s, r = .ok s := by
  cases r <;> simp_all [Res.isOk]

/-! ### per-step clauses, component by component -/

/-- all table entries of the battery efficiency map lie in (0,1] -/
def TableOK (vals : List (List (List α))) : Prop := ∀ a ∈ vals, ∀ b ∈ a, ∀ c ∈ b, 0 < c ∧ c ≤ 1

/-- second-law clauses on a fuel-converter state -/
def FCStateOK (s : FCState α) : Prop :=
  (0 < s.eta ∧ s.eta ≤ 1) ∧ 0 ≤ s.pwrLoss ∧ s.pwrBrake ≤ s.pwrFuel ∧ 0 ≤ s.pwrFuel
def FCEnergyLE (s s' : FCState α) : Prop :=
  s.energyFuel ≤ s'.energyFuel ∧ s.energyLoss ≤ s'.energyLoss

def GenStateOK (s : GenState α) : Prop :=
  (0 < s.eta ∧ s.eta ≤ 1) ∧ 0 ≤ s.pwrLoss ∧ s.pwrElecPropOut + s.pwrElecAux ≤ s.pwrMechIn
def GenEnergyLE (s s' : GenState α) : Prop := s.energyLoss ≤ s'.energyLoss

/-- second-law clauses on a drivetrain state; the demand of the step is the stored `pwrOutReq` -/
def EdrvStateOK (s : EdrvState α) : Prop :=
  (0 < s.eta ∧ s.eta ≤ 1) ∧ 0 ≤ s.pwrLoss ∧
  (0 < s.pwrOutReq → s.pwrMechPropOut ≤ s.pwrElecPropIn) ∧
  (s.pwrOutReq ≤ 0 → |s.pwrElecPropIn| ≤ |s.pwrMechPropOut|) ∧
  0 ≤ s.pwrMechDynBrake ∧ 0 ≤ s.pwrElecDynBrake ∧
  (-s.pwrMechRegenMax ≤ s.pwrOutReq → s.pwrMechDynBrake = 0 ∧ s.pwrElecDynBrake = 0)
def EdrvEnergyLE (s s' : EdrvState α) : Prop :=
  s.energyLoss ≤ s'.energyLoss ∧ s.energyMechDynBrake ≤ s'.energyMechDynBrake ∧
  s.energyElecDynBrake ≤ s'.energyElecDynBrake

/-- second-law clauses on a battery state; the flow direction is the sign of `pwrOutElectrical` -/
def ResStateOK (s : ResState α) : Prop :=
  (0 < s.eta ∧ s.eta ≤ 1) ∧ 0 ≤ s.pwrLoss ∧
  (0 < s.pwrOutElectrical → s.pwrOutElectrical ≤ s.pwrOutChemical) ∧
  (s.pwrOutElectrical ≤ 0 → |s.pwrOutChemical| ≤ |s.pwrOutElectrical|)
def ResEnergyLE (s s' : ResState α) : Prop := s.energyLoss ≤ s'.energyLoss

/-- **Fuel converter, one step.** -/
def C08_fc_step_statement : Prop :=
  ∀ (α : Type) [Field α] [LinearOrder α] [IsStrictOrderedRing α]
    (k : Consts α) (fc fc' : FC α) (req dt : α) (on al : Bool),
    -- forced: η leaves (0,1] as soon as one map value does / the map is empty;
    -- the adjacency part guards the division inside `interp1d`
    Map1OK fc.fracInterp fc.etaInterp →
    fc.pwrOutMax ≠ 0 →        -- guard for the query `req / pwrOutMax` (not used by the field proof)
    0 ≤ fc.pwrIdleFuel →      -- forced: a negative idle-fuel parameter gives a negative loss at req = 0
    fcSolve k fc req dt on al = .ok fc' →
      FCStateOK fc'.state ∧
      (0 ≤ dt → FCEnergyLE fc.state fc'.state)   -- `0 ≤ dt` forced: energies are `+ pwr * dt`

theorem C08_fc_step : C08_fc_step_statement := by
  intro α _ _ _ k fc fc' req dt on al hm _ hidle h
  obtain ⟨eta, h0, hi, -, rfl⟩ := fcSolve_ok k fc fc' req dt on al h
  obtain ⟨he0, he1⟩ := interp1d_pos_le_one _ _ _ _ hi hm.1 hm.2.1 hm.2.2
  have hid : 0 ≤ (if on = true then fc.pwrIdleFuel else 0) := by split_ifs <;> simp [hidle]
  have hdiv : req ≤ req / eta := le_div_eta h0 he0 he1
  simp only [fcNext, FCStateOK, FCEnergyLE]
  refine ⟨⟨⟨he0, he1⟩, by linarith, by linarith, by linarith⟩, fun hdt => ⟨?_, ?_⟩⟩
  · have : 0 ≤ (req / eta + if on = true then fc.pwrIdleFuel else 0) * dt :=
      mul_nonneg (by linarith) hdt
    linarith
  · have : 0 ≤ ((req / eta + if on = true then fc.pwrIdleFuel else 0) - req) * dt :=
      mul_nonneg (by linarith) hdt
    linarith

/-- **Generator, one step.** -/
def C08_gen_step_statement : Prop :=
  ∀ (α : Type) [Field α] [LinearOrder α] [IsStrictOrderedRing α]
    (g g' : Gen α) (prop aux dt : α),
    Map1OK g.fracInterp g.etaInterp →   -- forced (as for the fuel converter)
    g.pwrOutMax ≠ 0 →                   -- guard for the query `prop / pwrOutMax`
    0 ≤ prop + aux →                    -- forced: see `C08_gen_step_load_forced`
    genReq g prop aux dt = .ok g' →
      GenStateOK g'.state ∧ (0 ≤ dt → GenEnergyLE g.state g'.state)

theorem C08_gen_step : C08_gen_step_statement := by
  intro α _ _ _ g g' prop aux dt hm _ hpa h
  obtain ⟨eta, -, -, hi, rfl⟩ := genReq_ok g g' prop aux dt h
  obtain ⟨he0, he1⟩ := interp1d_pos_le_one _ _ _ _ hi hm.1 hm.2.1 hm.2.2
  have hdiv : prop + aux ≤ (prop + aux) / eta := le_div_eta hpa he0 he1
  simp only [genNext, GenStateOK, GenEnergyLE]
  refine ⟨⟨⟨he0, he1⟩, by linarith, hdiv⟩, fun hdt => ?_⟩
  have : 0 ≤ ((prop + aux) / eta - (prop + aux)) * dt := mul_nonneg (by linarith) hdt
  linarith

/-- **Electric drivetrain, one step** (both traction directions). -/
def C08_edrv_step_statement : Prop :=
  ∀ (α : Type) [Field α] [LinearOrder α] [IsStrictOrderedRing α]
    (e e' : Edrv α) (req dt : α),
    Map1OK e.fracInterp e.etaInterp →   -- forced
    e.pwrOutMax ≠ 0 →                   -- guard for the query `req / pwrOutMax`
    edrvReq e req dt = .ok e' →
      e'.state.pwrOutReq = req ∧ e'.state.pwrMechRegenMax = e.state.pwrMechRegenMax ∧
      EdrvStateOK e'.state ∧ (0 ≤ dt → EdrvEnergyLE e.state e'.state)

theorem C08_edrv_step : C08_edrv_step_statement := by
  intro α _ _ _ e e' req dt hm _ h
  obtain ⟨eta, -, hi, rfl⟩ := edrvReq_ok e e' req dt h
  obtain ⟨he0, he1⟩ := interp1d_pos_le_one _ _ _ _ hi hm.1 hm.2.1 hm.2.2
  simp only [edrvNext, EdrvStateOK, EdrvEnergyLE, mx_eq_max, absv_eq_abs]
  set P := max req (-e.state.pwrMechRegenMax) with hP
  have hPr : req ≤ P := le_max_left _ _
  have hdyn : 0 ≤ -(req - P) := by linarith
  have hedyn : 0 ≤ -(req - P) * eta := mul_nonneg hdyn he0.le
  refine ⟨trivial, trivial, ⟨⟨he0, he1⟩, abs_nonneg _, ?_, ?_, hdyn, hedyn, ?_⟩, fun hdt => ⟨?_, ?_, ?_⟩⟩
  · intro hpos
    rw [if_pos hpos]
    exact le_div_eta (by linarith) he0 he1
  · intro hneg
    rw [if_neg (not_lt.mpr hneg)]
    exact abs_mul_eta_le P he0 he1
  · intro hreg
    have : P = req := max_eq_left hreg
    rw [this]; simp
  · have := mul_nonneg (abs_nonneg (P - if 0 < req then P / eta else P * eta)) hdt
    linarith
  · have := mul_nonneg hdyn hdt
    linarith
  · have := mul_nonneg hedyn hdt
    linarith

/-- dynamic braking is zero unless braking is demanded (needs a non-negative regeneration limit) -/
def C08_edrv_dyn_zero_statement : Prop :=
  ∀ (α : Type) [Field α] [LinearOrder α] [IsStrictOrderedRing α]
    (e e' : Edrv α) (req dt : α),
    0 ≤ e.state.pwrMechRegenMax →   -- forced: with a negative limit `max req (-limit) > req` at small `req ≥ 0`
    0 ≤ req → edrvReq e req dt = .ok e' →
      e'.state.pwrMechDynBrake = 0 ∧ e'.state.pwrElecDynBrake = 0

theorem C08_edrv_dyn_zero : C08_edrv_dyn_zero_statement := by
  intro α _ _ _ e e' req dt hR hreq h
  obtain ⟨eta, -, -, rfl⟩ := edrvReq_ok e e' req dt h
  simp only [edrvNext, mx_eq_max]
  have : max req (-e.state.pwrMechRegenMax) = req := max_eq_left (by linarith)
  rw [this]; simp

/-- **Battery, one step** (discharging and charging). -/
def C08_res_step_statement : Prop :=
  ∀ (α : Type) [Field α] [LinearOrder α] [IsStrictOrderedRing α]
    (k : Consts α) (r r' : RES α) (prop aux dt : α),
    TableOK r.etaVals →    -- forced
    r.capWh ≠ 0 →          -- guard for the C-rate query `elec / capWh`
    resSolve k r prop aux dt = .ok r' →
      r'.state.pwrOutElectrical = prop + aux ∧
      ResStateOK r'.state ∧ (0 ≤ dt → ResEnergyLE r.state r'.state)

theorem C08_res_step : C08_res_step_statement := by
  intro α _ _ _ k r r' prop aux dt hm _ h
  obtain ⟨eta, hi, rfl⟩ := resSolve_ok k r r' prop aux dt h
  obtain ⟨he0, he1⟩ := interp3d_pos_le_one _ _ _ _ _ _ _ _ hi hm
  simp only [resNext, ResStateOK, ResEnergyLE, absv_eq_abs]
  refine ⟨trivial, ⟨⟨he0, he1⟩, abs_nonneg _, ?_, ?_⟩, fun hdt => ?_⟩
  · intro hpos
    rw [if_pos hpos]
    exact le_div_eta hpos.le he0 he1
  · intro hneg
    rw [if_neg (not_lt.mpr hneg)]
    exact abs_mul_eta_le _ he0 he1
  · have := mul_nonneg (abs_nonneg
      ((if 0 < prop + aux then (prop + aux) / eta else (prop + aux) * eta) - (prop + aux))) hdt
    linarith

/-! ### engine off -/

/-- **Engine off, fuel converter**: an accepted step with the engine commanded off has zero demand,
    burns no fuel (neither traction nor idle) and leaves the cumulative fuel unchanged. -/
def C08_engine_off_fc_statement : Prop :=
  ∀ (α : Type) [Field α] [LinearOrder α] [IsStrictOrderedRing α]
    (k : Consts α) (fc fc' : FC α) (req dt : α) (al : Bool),
    -- guard for `0 / η` (η ≠ 0); in the field model `0 / 0 = 0` would hide it, at Float it is NaN
    Map1OK fc.fracInterp fc.etaInterp →
    fc.pwrOutMax ≠ 0 →   -- guard for the query `req / pwrOutMax`
    fcSolve k fc req dt false al = .ok fc' →
      req = 0 ∧ fc'.state.pwrFuel = 0 ∧ fc'.state.pwrIdleFuel = 0 ∧ fc'.state.engineOn = false ∧
      fc'.state.energyFuel = fc.state.energyFuel

theorem C08_engine_off_fc : C08_engine_off_fc_statement := by
  intro α _ _ _ k fc fc' req dt al _ _ h
  obtain ⟨eta, -, -, ho, rfl⟩ := fcSolve_ok k fc fc' req dt false al h
  have hr : req = 0 := by simpa using ho
  subst hr
  simp [fcNext]

/-- **Engine off, auxiliary load**: `set_pwr_aux(Some(false))` publishes zero auxiliary power. -/
def C08_engine_off_aux_statement : Prop :=
  ∀ (α : Type) [Field α] [LinearOrder α] [IsStrictOrderedRing α] (l : Loco α),
    (locoSetAux l (some false)).state.pwrAux = 0

theorem C08_engine_off_aux : C08_engine_off_aux_statement := by
  intro α _ _ _ l
  simp [locoSetAux]

theorem convSolve_ok (k : Consts α) (fc : FC α) (gen : Gen α) (e : Edrv α) (req dt : α) (on : Bool)
    (aux : α) (al : Bool) (pt : Powertrain α) (h : convSolve k fc gen e req dt on aux al = .ok pt) :
    ∃ e' g' fc', edrvReq e req dt = .ok e' ∧
      genReq gen e'.state.pwrElecPropIn (if on then aux else 0) dt = .ok g' ∧
      0 ≤ g'.state.pwrMechIn ∧ fcSolve k fc g'.state.pwrMechIn dt on al = .ok fc' ∧
      pt = .conv fc' g' e' := by
  unfold convSolve at h
  simp only [bind, pure, bind_ok_iff, ensure_ok_iff, decide_eq_true_iff, exists_const] at h
  obtain ⟨e', he, g', hg, hm, fc', hf, hr⟩ := h
  cases hr
  exact ⟨e', g', fc', he, hg, hm, hf, rfl⟩

theorem belSolve_ok (k : Consts α) (r : RES α) (e : Edrv α) (req dt aux : α) (pt : Powertrain α)
    (h : belSolve k r e req dt aux = .ok pt) :
    ∃ e' r' aux', edrvReq e req dt = .ok e' ∧
      resSolve k r e'.state.pwrElecPropIn aux' dt = .ok r' ∧ pt = .bel r' e' := by
  unfold belSolve at h
  simp only [bind, pure, bind_ok_iff] at h
  obtain ⟨e', he, r', hr', hr⟩ := h
  cases hr
  split_ifs at hr'
  · exact ⟨e', r', _, he, hr', rfl⟩
  · exact ⟨e', r', _, he, hr', rfl⟩

/-- **Engine off, conventional powertrain**: no fuel, no auxiliary load on the generator. -/
def C08_engine_off_conv_statement : Prop :=
  ∀ (α : Type) [Field α] [LinearOrder α] [IsStrictOrderedRing α]
    (k : Consts α) (fc : FC α) (gen : Gen α) (e : Edrv α) (req dt aux : α) (al : Bool)
    (pt : Powertrain α),
    Map1OK fc.fracInterp fc.etaInterp → fc.pwrOutMax ≠ 0 →   -- guards, as in `C08_engine_off_fc`
    convSolve k fc gen e req dt false aux al = .ok pt →
      ∃ fc' gen' e', pt = .conv fc' gen' e' ∧
        fc'.state.pwrFuel = 0 ∧ fc'.state.pwrIdleFuel = 0 ∧ gen'.state.pwrElecAux = 0

theorem C08_engine_off_conv : C08_engine_off_conv_statement := by
  intro α _ _ _ k fc gen e req dt aux al pt hm hp h
  obtain ⟨e', g', fc', -, hg, -, hf, rfl⟩ := convSolve_ok k fc gen e req dt false aux al pt h
  obtain ⟨-, h1, h2, -, -⟩ := C08_engine_off_fc α k fc fc' _ dt al hm hp hf
  obtain ⟨eta, -, -, -, rfl⟩ := genReq_ok gen g' _ _ dt hg
  exact ⟨fc', _, e', rfl, h1, h2, by simp [genNext]⟩

/-! ### parameters are preserved, limit updates do not touch the energy counters -/

/-- the parameters the C08 hypotheses talk about -/
def FCParams (fc fc' : FC α) : Prop :=
  fc'.fracInterp = fc.fracInterp ∧ fc'.etaInterp = fc.etaInterp ∧ fc'.pwrOutMax = fc.pwrOutMax ∧
  fc'.pwrIdleFuel = fc.pwrIdleFuel ∧ fc'.pwrRampLag = fc.pwrRampLag
def GenParams (g g' : Gen α) : Prop :=
  g'.fracInterp = g.fracInterp ∧ g'.etaInterp = g.etaInterp ∧ g'.pwrOutMax = g.pwrOutMax
def EdrvParams (e e' : Edrv α) : Prop :=
  e'.fracInterp = e.fracInterp ∧ e'.etaInterp = e.etaInterp ∧ e'.pwrOutMax = e.pwrOutMax
def ResParams (r r' : RES α) : Prop :=
  r'.etaVals = r.etaVals ∧ r'.gridT = r.gridT ∧ r'.gridSoc = r.gridSoc ∧ r'.gridC = r.gridC ∧
  r'.capWh = r.capWh ∧ r'.pwrOutMax = r.pwrOutMax ∧ r'.energyCapacity = r.energyCapacity ∧
  r'.minSoc = r.minSoc ∧ r'.maxSoc = r.maxSoc

/-- parameters kept and the C08 energy counters untouched (the `set_cur_pwr_*` calls) -/
def FCCarry (fc fc' : FC α) : Prop :=
  FCParams fc fc' ∧ fc'.state.energyFuel = fc.state.energyFuel ∧
  fc'.state.energyLoss = fc.state.energyLoss
def GenCarry (g g' : Gen α) : Prop := GenParams g g' ∧ g'.state.energyLoss = g.state.energyLoss
def EdrvCarry (e e' : Edrv α) : Prop :=
  EdrvParams e e' ∧ e'.state.energyLoss = e.state.energyLoss ∧
  e'.state.energyMechDynBrake = e.state.energyMechDynBrake ∧
  e'.state.energyElecDynBrake = e.state.energyElecDynBrake
def ResCarry (r r' : RES α) : Prop := ResParams r r' ∧ r'.state.energyLoss = r.state.energyLoss

theorem fcSetCurMax_carry (k : Consts α) (fc fc' : FC α) (dt : α)
    (h : fcSetCurMax k fc dt = .ok fc') : 0 < dt ∧ FCCarry fc fc' := by
  unfold fcSetCurMax at h
  simp only [bind, pure, bind_ok_iff, ensure_ok_iff, decide_eq_true_iff, exists_const] at h
  obtain ⟨hdt, hr⟩ := h
  cases hr
  exact ⟨hdt, ⟨rfl, rfl, rfl, rfl, rfl⟩, rfl, rfl⟩

theorem genSetCurMax_carry (g g' : Gen α) (pin aux : α)
    (h : genSetCurMax g pin aux = .ok g') : GenCarry g g' := by
  unfold genSetCurMax at h
  simp only [bind, pure, bind_ok_iff] at h
  obtain ⟨cache, -, eta, -, hr⟩ := h
  cases hr
  exact ⟨⟨rfl, rfl, rfl⟩, rfl⟩

theorem edrvSetCurMax_carry (e e' : Edrv α) (pin : α)
    (h : edrvSetCurMax e pin = .ok e') : EdrvCarry e e' := by
  unfold edrvSetCurMax at h
  simp only [bind, pure, bind_ok_iff] at h
  obtain ⟨cache, -, eta, -, hr⟩ := h
  cases hr
  exact ⟨⟨rfl, rfl, rfl⟩, rfl, rfl, rfl⟩

theorem edrvSetRegenMax_carry (e e' : Edrv α) (pin : α)
    (h : edrvSetRegenMax e pin = .ok e') : EdrvCarry e e' := by
  unfold edrvSetRegenMax at h
  simp only [bind, pure, bind_ok_iff, ensure_ok_iff, exists_const] at h
  obtain ⟨cache, -, eta, -, -, hr⟩ := h
  cases hr
  exact ⟨⟨rfl, rfl, rfl⟩, rfl, rfl, rfl⟩

theorem resSetCurMax_carry (k : Consts α) (r r' : RES α) (aux cb db : α)
    (h : resSetCurMax k r aux cb db = .ok r') : ResCarry r r' := by
  unfold resSetCurMax at h
  simp only [bind, pure, bind_ok_iff] at h
  obtain ⟨d, -, c, -, hr⟩ := h
  cases hr
  exact ⟨⟨rfl, rfl, rfl, rfl, rfl, rfl, rfl, rfl, rfl⟩, rfl⟩

theorem EdrvCarry.trans {a b c : Edrv α} (h1 : EdrvCarry a b) (h2 : EdrvCarry b c) :
    EdrvCarry a c := by
  obtain ⟨⟨p1, p2, p3⟩, q1, q2, q3⟩ := h1
  obtain ⟨⟨r1, r2, r3⟩, s1, s2, s3⟩ := h2
  exact ⟨⟨r1.trans p1, r2.trans p2, r3.trans p3⟩, s1.trans q1, s2.trans q2, s3.trans q3⟩

/-- relation between the powertrains before and after `set_cur_pwr_max_out` -/
def PtCarry : Powertrain α → Powertrain α → Prop
  | .conv fc g e, .conv fc' g' e' => FCCarry fc fc' ∧ GenCarry g g' ∧ EdrvCarry e e'
  | .bel r e, .bel r' e' => ResCarry r r' ∧ EdrvCarry e e'
  | _, _ => False

theorem locoSetCurMax_carry (k : Consts α) (l l' : Loco α) (dt : α)
    (h : locoSetCurMax k l dt = .ok l') :
    PtCarry l.pt l'.pt ∧ l'.state.pwrAux = l.state.pwrAux ∧ l'.assertLimits = l.assertLimits := by
  unfold locoSetCurMax at h
  simp only [bind, pure] at h
  split at h
  · rename_i fc g e hpt
    simp only [bind_ok_iff] at h
    obtain ⟨fc', hfc, g', hg, e', he, h⟩ := h
    split_ifs at h
    cases h
    rw [hpt]
    obtain ⟨-, cf⟩ := fcSetCurMax_carry k fc fc' dt hfc
    have cg := genSetCurMax_carry g g' _ _ hg
    have ce := edrvSetCurMax_carry e e' _ he
    exact ⟨⟨cf, cg, ce⟩, rfl, rfl⟩
  · rename_i r e hpt
    simp only [bind_ok_iff] at h
    obtain ⟨r', hr, e', he, e'', he', h⟩ := h
    cases h
    rw [hpt]
    have cr := resSetCurMax_carry k r r' _ _ _ hr
    have ce := (edrvSetCurMax_carry e e' _ he).trans (edrvSetRegenMax_carry e' e'' _ he')
    exact ⟨⟨cr, ce⟩, rfl, rfl⟩

theorem fcSolve_params (k : Consts α) (fc fc' : FC α) (req dt : α) (on al : Bool)
    (h : fcSolve k fc req dt on al = .ok fc') : FCParams fc fc' := by
  obtain ⟨eta, -, -, -, rfl⟩ := fcSolve_ok k fc fc' req dt on al h
  exact ⟨rfl, rfl, rfl, rfl, rfl⟩

theorem genReq_params (g g' : Gen α) (prop aux dt : α) (h : genReq g prop aux dt = .ok g') :
    GenParams g g' := by
  obtain ⟨eta, -, -, -, rfl⟩ := genReq_ok g g' prop aux dt h
  exact ⟨rfl, rfl, rfl⟩

theorem edrvReq_params (e e' : Edrv α) (req dt : α) (h : edrvReq e req dt = .ok e') :
    EdrvParams e e' := by
  obtain ⟨eta, -, -, rfl⟩ := edrvReq_ok e e' req dt h
  exact ⟨rfl, rfl, rfl⟩

theorem resSolve_params (k : Consts α) (r r' : RES α) (prop aux dt : α)
    (h : resSolve k r prop aux dt = .ok r') : ResParams r r' := by
  obtain ⟨eta, -, rfl⟩ := resSolve_ok k r r' prop aux dt h
  exact ⟨rfl, rfl, rfl, rfl, rfl, rfl, rfl, rfl, rfl⟩

/-! ### whole locomotive, one step -/

/-- C08 hypotheses on the parameters of each component -/
def FCOK (fc : FC α) : Prop :=
  Map1OK fc.fracInterp fc.etaInterp ∧ fc.pwrOutMax ≠ 0 ∧ 0 ≤ fc.pwrIdleFuel
def GenOK (g : Gen α) : Prop := Map1OK g.fracInterp g.etaInterp ∧ g.pwrOutMax ≠ 0
def EdrvOK (e : Edrv α) : Prop := Map1OK e.fracInterp e.etaInterp ∧ e.pwrOutMax ≠ 0
def ResOK (r : RES α) : Prop := TableOK r.etaVals ∧ r.capWh ≠ 0

def PtOK : Powertrain α → Prop
  | .conv fc g e => FCOK fc ∧ GenOK g ∧ EdrvOK e
  | .bel r e => ResOK r ∧ EdrvOK e

/-- same kind of powertrain, same maps and ratings -/
def PtParams : Powertrain α → Powertrain α → Prop
  | .conv fc g e, .conv fc' g' e' => FCParams fc fc' ∧ GenParams g g' ∧ EdrvParams e e'
  | .bel r e, .bel r' e' => ResParams r r' ∧ EdrvParams e e'
  | _, _ => False

/-- every per-step second-law clause of every component -/
def PtStepOK : Powertrain α → Prop
  | .conv fc g e => FCStateOK fc.state ∧ GenStateOK g.state ∧ EdrvStateOK e.state
  | .bel r e => ResStateOK r.state ∧ EdrvStateOK e.state

/-- cumulative fuel / loss / dynamic-braking energies of every component did not decrease -/
def PtEnergyLE : Powertrain α → Powertrain α → Prop
  | .conv fc g e, .conv fc' g' e' =>
      FCEnergyLE fc.state fc'.state ∧ GenEnergyLE g.state g'.state ∧ EdrvEnergyLE e.state e'.state
  | .bel r e, .bel r' e' => ResEnergyLE r.state r'.state ∧ EdrvEnergyLE e.state e'.state
  | _, _ => False

theorem FCOK.of_params {fc fc' : FC α} (h : FCOK fc) (p : FCParams fc fc') : FCOK fc' := by
  obtain ⟨p1, p2, p3, p4, -⟩ := p
  unfold FCOK; rw [p1, p2, p3, p4]; exact h
theorem GenOK.of_params {g g' : Gen α} (h : GenOK g) (p : GenParams g g') : GenOK g' := by
  obtain ⟨p1, p2, p3⟩ := p
  unfold GenOK; rw [p1, p2, p3]; exact h
theorem EdrvOK.of_params {e e' : Edrv α} (h : EdrvOK e) (p : EdrvParams e e') : EdrvOK e' := by
  obtain ⟨p1, p2, p3⟩ := p
  unfold EdrvOK; rw [p1, p2, p3]; exact h
theorem ResOK.of_params {r r' : RES α} (h : ResOK r) (p : ResParams r r') : ResOK r' := by
  obtain ⟨p1, -, -, -, p5, -⟩ := p
  unfold ResOK; rw [p1, p5]; exact h

theorem FCParams.trans {a b c : FC α} (h1 : FCParams a b) (h2 : FCParams b c) : FCParams a c := by
  obtain ⟨p1, p2, p3, p4, p5⟩ := h1
  obtain ⟨q1, q2, q3, q4, q5⟩ := h2
  exact ⟨q1.trans p1, q2.trans p2, q3.trans p3, q4.trans p4, q5.trans p5⟩
theorem GenParams.trans {a b c : Gen α} (h1 : GenParams a b) (h2 : GenParams b c) :
    GenParams a c := by
  obtain ⟨p1, p2, p3⟩ := h1
  obtain ⟨q1, q2, q3⟩ := h2
  exact ⟨q1.trans p1, q2.trans p2, q3.trans p3⟩
theorem EdrvParams.trans {a b c : Edrv α} (h1 : EdrvParams a b) (h2 : EdrvParams b c) :
    EdrvParams a c := by
  obtain ⟨p1, p2, p3⟩ := h1
  obtain ⟨q1, q2, q3⟩ := h2
  exact ⟨q1.trans p1, q2.trans p2, q3.trans p3⟩
theorem ResParams.trans {a b c : RES α} (h1 : ResParams a b) (h2 : ResParams b c) :
    ResParams a c := by
  obtain ⟨p1, p2, p3, p4, p5, p6, p7, p8, p9⟩ := h1
  obtain ⟨q1, q2, q3, q4, q5, q6, q7, q8, q9⟩ := h2
  exact ⟨q1.trans p1, q2.trans p2, q3.trans p3, q4.trans p4, q5.trans p5, q6.trans p6,
    q7.trans p7, q8.trans p8, q9.trans p9⟩

theorem PtParams.trans {a b c : Powertrain α} (h1 : PtParams a b) (h2 : PtParams b c) :
    PtParams a c := by
  cases a <;> cases b <;> cases c <;> simp only [PtParams] at h1 h2 ⊢
  · exact ⟨h1.1.trans h2.1, h1.2.1.trans h2.2.1, h1.2.2.trans h2.2.2⟩
  · exact ⟨h1.1.trans h2.1, h1.2.trans h2.2⟩

theorem PtOK.of_params {a b : Powertrain α} (h : PtOK a) (p : PtParams a b) : PtOK b := by
  cases a <;> cases b <;> simp only [PtParams, PtOK] at h p ⊢
  · exact ⟨h.1.of_params p.1, h.2.1.of_params p.2.1, h.2.2.of_params p.2.2⟩
  · exact ⟨h.1.of_params p.1, h.2.of_params p.2⟩

theorem PtEnergyLE.trans {a b c : Powertrain α} (h1 : PtEnergyLE a b) (h2 : PtEnergyLE b c) :
    PtEnergyLE a c := by
  cases a <;> cases b <;> cases c <;>
    simp only [PtEnergyLE, FCEnergyLE, GenEnergyLE, EdrvEnergyLE, ResEnergyLE] at h1 h2 ⊢
  · obtain ⟨⟨a1, a2⟩, a3, a4, a5, a6⟩ := h1
    obtain ⟨⟨b1, b2⟩, b3, b4, b5, b6⟩ := h2
    exact ⟨⟨a1.trans b1, a2.trans b2⟩, a3.trans b3, a4.trans b4, a5.trans b5, a6.trans b6⟩
  · obtain ⟨a1, a2, a3, a4⟩ := h1
    obtain ⟨b1, b2, b3, b4⟩ := h2
    exact ⟨a1.trans b1, a2.trans b2, a3.trans b3, a4.trans b4⟩

theorem PtEnergyLE.refl_of_params {a : Powertrain α} : PtEnergyLE a a := by
  cases a <;> simp [PtEnergyLE, FCEnergyLE, GenEnergyLE, EdrvEnergyLE, ResEnergyLE]

theorem PtParams.refl (a : Powertrain α) : PtParams a a := by
  cases a <;> simp [PtParams, FCParams, GenParams, EdrvParams, ResParams]

theorem PtCarry.params {a b : Powertrain α} (h : PtCarry a b) : PtParams a b := by
  cases a <;> cases b <;> simp only [PtCarry, PtParams] at h ⊢
  · exact ⟨h.1.1, h.2.1.1, h.2.2.1⟩
  · exact ⟨h.1.1, h.2.1⟩

theorem PtCarry.energy {a b : Powertrain α} (h : PtCarry a b) : PtEnergyLE a b := by
  cases a <;> cases b <;>
    simp only [PtCarry, PtEnergyLE, FCCarry, GenCarry, EdrvCarry, ResCarry, FCEnergyLE,
      GenEnergyLE, EdrvEnergyLE, ResEnergyLE] at h ⊢
  · obtain ⟨⟨-, a1, a2⟩, ⟨-, a3⟩, -, a4, a5, a6⟩ := h
    exact ⟨⟨a1.ge, a2.ge⟩, a3.ge, a4.ge, a5.ge, a6.ge⟩
  · obtain ⟨⟨-, a1⟩, -, a4, a5, a6⟩ := h
    exact ⟨a1.ge, a4.ge, a5.ge, a6.ge⟩

/-- one accepted `ConventionalLoco::solve_energy_consumption` -/
theorem convSolve_step (k : Consts α) (fc : FC α) (g : Gen α) (e : Edrv α) (req dt : α) (on : Bool)
    (aux : α) (al : Bool) (pt : Powertrain α) (hfc : FCOK fc) (hg : GenOK g) (he : EdrvOK e)
    (h : convSolve k fc g e req dt on aux al = .ok pt) :
    PtParams (.conv fc g e) pt ∧ PtStepOK pt ∧ pt.edrv.state.pwrOutReq = req ∧
      (0 ≤ dt → PtEnergyLE (.conv fc g e) pt) := by
  obtain ⟨e', g', fc', h1, h2, h3, h4, rfl⟩ := convSolve_ok k fc g e req dt on aux al pt h
  obtain ⟨e1, -, e3, e4⟩ := C08_edrv_step α e e' req dt he.1 he.2 h1
  have hpa : 0 ≤ e'.state.pwrElecPropIn + (if on then aux else 0) := by
    obtain ⟨eta, -, -, hi, hg'⟩ := genReq_ok g g' _ _ dt h2
    obtain ⟨he0, -⟩ := interp1d_pos_le_one _ _ _ _ hi hg.1.1 hg.1.2.1 hg.1.2.2
    rw [hg'] at h3
    simp only [genNext] at h3
    by_contra hc
    exact absurd h3 (not_le.mpr (div_neg_of_neg_of_pos (not_le.mp hc) he0))
  obtain ⟨g3, g4⟩ := C08_gen_step α g g' _ _ dt hg.1 hg.2 hpa h2
  obtain ⟨f3, f4⟩ := C08_fc_step α k fc fc' _ dt on al hfc.1 hfc.2.1 hfc.2.2 h4
  exact ⟨⟨fcSolve_params k fc fc' _ dt on al h4, genReq_params g g' _ _ dt h2,
      edrvReq_params e e' req dt h1⟩, ⟨f3, g3, e3⟩, e1, fun hdt => ⟨f4 hdt, g4 hdt, e4 hdt⟩⟩

/-- one accepted `BatteryElectricLoco::solve_energy_consumption` -/
theorem belSolve_step (k : Consts α) (r : RES α) (e : Edrv α) (req dt aux : α)
    (pt : Powertrain α) (hr : ResOK r) (he : EdrvOK e)
    (h : belSolve k r e req dt aux = .ok pt) :
    PtParams (.bel r e) pt ∧ PtStepOK pt ∧ pt.edrv.state.pwrOutReq = req ∧
      (0 ≤ dt → PtEnergyLE (.bel r e) pt) := by
  obtain ⟨e', r', aux', h1, h2, rfl⟩ := belSolve_ok k r e req dt aux pt h
  obtain ⟨e1, -, e3, e4⟩ := C08_edrv_step α e e' req dt he.1 he.2 h1
  obtain ⟨-, r3, r4⟩ := C08_res_step α k r r' _ _ dt hr.1 hr.2 h2
  exact ⟨⟨resSolve_params k r r' _ _ dt h2, edrvReq_params e e' req dt h1⟩, ⟨r3, e3⟩, e1,
    fun hdt => ⟨r4 hdt, e4 hdt⟩⟩

theorem locoSolve_ok (k : Consts α) (l l' : Loco α) (req dt : α) (eo : Option Bool)
    (h : locoSolve k l req dt eo = .ok l') :
    (match l.pt with
      | .conv fc g e =>
          convSolve k fc g e req dt (eo.getD true) l.state.pwrAux l.assertLimits
      | .bel r e => belSolve k r e req dt l.state.pwrAux) = .ok l'.pt ∧
    l'.state.pwrAux = l.state.pwrAux := by
  unfold locoSolve at h
  simp only [bind, pure, bind_ok_iff] at h
  obtain ⟨pt, hpt, hr⟩ := h
  cases hr
  exact ⟨hpt, rfl⟩

theorem locoSimStep_ok (k : Consts α) (l l' : Loco α) (req dt : α) (eo : Option Bool)
    (h : locoSimStep k l req dt eo = .ok l') :
    ∃ l1, locoSetCurMax k (locoSetAux l eo) dt = .ok l1 ∧ locoSolve k l1 req dt eo = .ok l' := by
  unfold locoSimStep at h
  simp only [bind, pure, bind_ok_iff, ensure_ok_iff, exists_const] at h
  obtain ⟨l1, h1, l2, h2, -, hr⟩ := h
  cases hr
  exact ⟨l1, h1, h2⟩

/-- `locoSimStep` never changes the kind of powertrain, its maps or its ratings
    (`fcSetCurMax` writes `pwrOutMaxInit`, `ensureInFrac` fills the cache: neither is a C08 input). -/
theorem locoSimStep_params (k : Consts α) (l l' : Loco α) (req dt : α) (eo : Option Bool)
    (h : locoSimStep k l req dt eo = .ok l') : PtParams l.pt l'.pt := by
  obtain ⟨l1, h1, h2⟩ := locoSimStep_ok k l l' req dt eo h
  obtain ⟨c, -, -⟩ := locoSetCurMax_carry k _ l1 dt h1
  have c : PtCarry l.pt l1.pt := c
  refine c.params.trans ?_
  obtain ⟨hs, -⟩ := locoSolve_ok k l1 l' req dt eo h2
  cases hpt : l1.pt with
  | conv fc g e =>
    rw [hpt] at hs
    obtain ⟨e', g', fc', h1, h2, -, h4, hr⟩ := convSolve_ok k fc g e req dt _ _ _ _ hs
    rw [hr]
    exact ⟨fcSolve_params k fc fc' _ dt _ _ h4, genReq_params g g' _ _ dt h2,
      edrvReq_params e e' req dt h1⟩
  | bel r e =>
    rw [hpt] at hs
    obtain ⟨e', r', aux', h1, h2, hr⟩ := belSolve_ok k r e req dt _ _ hs
    rw [hr]
    exact ⟨resSolve_params k r r' _ _ dt h2, edrvReq_params e e' req dt h1⟩

theorem locoSimStep_step (k : Consts α) (l l' : Loco α) (req dt : α) (eo : Option Bool)
    (hok : PtOK l.pt) (h : locoSimStep k l req dt eo = .ok l') :
    PtStepOK l'.pt ∧ l'.pt.edrv.state.pwrOutReq = req ∧ (0 ≤ dt → PtEnergyLE l.pt l'.pt) := by
  obtain ⟨l1, h1, h2⟩ := locoSimStep_ok k l l' req dt eo h
  obtain ⟨c, -, -⟩ := locoSetCurMax_carry k _ l1 dt h1
  have c : PtCarry l.pt l1.pt := c
  have ok1 : PtOK l1.pt := hok.of_params c.params
  obtain ⟨hs, -⟩ := locoSolve_ok k l1 l' req dt eo h2
  cases hpt : l1.pt with
  | conv fc g e =>
    rw [hpt] at hs ok1 c
    obtain ⟨-, s, rq, en⟩ := convSolve_step k fc g e req dt _ _ _ _ ok1.1 ok1.2.1 ok1.2.2 hs
    exact ⟨s, rq, fun hdt => c.energy.trans (en hdt)⟩
  | bel r e =>
    rw [hpt] at hs ok1 c
    obtain ⟨-, s, rq, en⟩ := belSolve_step k r e req dt _ _ ok1.1 ok1.2 hs
    exact ⟨s, rq, fun hdt => c.energy.trans (en hdt)⟩

/-- **One simulation step of a whole locomotive** (either type): every second-law clause holds for
    every component of the new state, the maps and ratings are unchanged, and no cumulative
    fuel / loss / dynamic-braking energy decreased. -/
def C08_loco_step_statement : Prop :=
  ∀ (α : Type) [Field α] [LinearOrder α] [IsStrictOrderedRing α]
    (k : Consts α) (l l' : Loco α) (req dt : α) (eo : Option Bool),
    PtOK l.pt →    -- forced: the component hypotheses (maps in (0,1], non-negative idle fuel) + guards
    locoSimStep k l req dt eo = .ok l' →
      PtParams l.pt l'.pt ∧ PtOK l'.pt ∧ PtStepOK l'.pt ∧ l'.pt.edrv.state.pwrOutReq = req ∧
      (0 ≤ dt → PtEnergyLE l.pt l'.pt)

theorem C08_loco_step : C08_loco_step_statement := by
  intro α _ _ _ k l l' req dt eo hok h
  have p := locoSimStep_params k l l' req dt eo h
  obtain ⟨s, rq, en⟩ := locoSimStep_step k l l' req dt eo hok h
  exact ⟨p, hok.of_params p, s, rq, en⟩

/-- **Engine off, whole locomotive step**: a conventional unit whose engine is commanded off burns
    no fuel (traction or idle) and draws no auxiliary power in that step. -/
def C08_engine_off_loco_statement : Prop :=
  ∀ (α : Type) [Field α] [LinearOrder α] [IsStrictOrderedRing α]
    (k : Consts α) (l l' : Loco α) (req dt : α) (fc : FC α) (g : Gen α) (e : Edrv α),
    l.pt = .conv fc g e →
    Map1OK fc.fracInterp fc.etaInterp → fc.pwrOutMax ≠ 0 →   -- guards, as in `C08_engine_off_fc`
    locoSimStep k l req dt (some false) = .ok l' →
      ∃ fc' g' e', l'.pt = .conv fc' g' e' ∧ fc'.state.pwrFuel = 0 ∧ fc'.state.pwrIdleFuel = 0 ∧
        l'.state.pwrAux = 0 ∧ g'.state.pwrElecAux = 0

theorem C08_engine_off_loco : C08_engine_off_loco_statement := by
  intro α _ _ _ k l l' req dt fc g e hl hm hp h
  obtain ⟨l1, h1, h2⟩ := locoSimStep_ok k l l' req dt _ h
  obtain ⟨c, haux, -⟩ := locoSetCurMax_carry k _ l1 dt h1
  have c : PtCarry l.pt l1.pt := c
  have haux : l1.state.pwrAux = 0 := by rw [haux]; exact C08_engine_off_aux α l
  obtain ⟨hs, haux'⟩ := locoSolve_ok k l1 l' req dt _ h2
  rw [hl] at c
  cases hpt : l1.pt with
  | conv fc1 g1 e1 =>
    rw [hpt] at hs c
    obtain ⟨⟨p1, p2, p3, -, -⟩, -, -⟩ := c.1
    obtain ⟨fc', g', e', hr, f1, f2, f3⟩ := C08_engine_off_conv α k fc1 g1 e1 req dt _ _ _
      (by rw [p1, p2]; exact hm) (by rw [p3]; exact hp) hs
    exact ⟨fc', g', e', hr, f1, f2, by rw [haux', haux], f3⟩
  | bel r1 e1 =>
    rw [hpt] at c
    exact absurd c (by simp [PtCarry])

/-- after an accepted `set_cur_pwr_max_out` the drivetrain's regeneration limit is non-negative:
    a conventional unit asserts it is 0, a battery unit `ensure`s `0 ≤` in `edrvSetRegenMax` -/
theorem locoSetCurMax_regen_nonneg (k : Consts α) (l l' : Loco α) (dt : α)
    (h : locoSetCurMax k l dt = .ok l') : 0 ≤ l'.pt.edrv.state.pwrMechRegenMax := by
  unfold locoSetCurMax at h
  simp only [bind, pure] at h
  split at h
  · simp only [bind_ok_iff] at h
    obtain ⟨fc', -, g', -, e', -, h⟩ := h
    split_ifs at h with hreg
    cases h
    simp only [Bool.not_eq_true', ← Bool.not_eq_true, eqb_iff, not_not] at hreg
    simp only [Powertrain.edrv]
    exact hreg.ge
  · simp only [bind_ok_iff] at h
    obtain ⟨r', -, e', -, e'', he', h⟩ := h
    cases h
    simp only [Powertrain.edrv]
    unfold edrvSetRegenMax at he'
    simp only [bind, pure, bind_ok_iff, ensure_ok_iff, exists_const, decide_eq_true_iff] at he'
    obtain ⟨cache, -, eta, -, hr, he'⟩ := he'
    cases he'
    exact hr

/-- **Dynamic braking is zero unless braking is demanded**, for every accepted simulation step of
    either locomotive type, with NO hypothesis on the parameters: the regeneration limit the step
    itself publishes is non-negative, so `0 ≤ req` leaves nothing for the dynamic brake. -/
def C08_loco_dyn_zero_statement : Prop :=
  ∀ (α : Type) [Field α] [LinearOrder α] [IsStrictOrderedRing α]
    (k : Consts α) (l l' : Loco α) (req dt : α) (eo : Option Bool),
    locoSimStep k l req dt eo = .ok l' → 0 ≤ req →
      l'.pt.edrv.state.pwrMechDynBrake = 0 ∧ l'.pt.edrv.state.pwrElecDynBrake = 0

theorem C08_loco_dyn_zero : C08_loco_dyn_zero_statement := by
  intro α _ _ _ k l l' req dt eo h hreq
  obtain ⟨l1, h1, h2⟩ := locoSimStep_ok k l l' req dt eo h
  have hreg := locoSetCurMax_regen_nonneg k _ l1 dt h1
  obtain ⟨hs, -⟩ := locoSolve_ok k l1 l' req dt eo h2
  cases hpt : l1.pt with
  | conv fc g e =>
    rw [hpt] at hs hreg
    obtain ⟨e', g', fc', h1, -, -, -, hr⟩ := convSolve_ok k fc g e req dt _ _ _ _ hs
    rw [hr]
    exact C08_edrv_dyn_zero α e e' req dt hreg hreq h1
  | bel r e =>
    rw [hpt] at hs hreg
    obtain ⟨e', r', aux', h1, -, hr⟩ := belSolve_ok k r e req dt _ _ hs
    rw [hr]
    exact C08_edrv_dyn_zero α e e' req dt hreg hreq h1

/-! ### whole traces -/

theorem locoWalk_nil (k : Consts α) (l : Loco α) : locoWalk k l [] = .ok l := rfl

theorem locoWalk_cons (k : Consts α) (l : Loco α) (req dt : α) (eo : Option Bool)
    (t : List (α × α × Option Bool)) :
    locoWalk k l ((req, dt, eo) :: t) = (locoSimStep k l req dt eo).bind fun l' => locoWalk k l' t :=
  rfl

/-- a walk over `t1 ++ t2` is accepted iff the walk over `t1` is and the walk over `t2` from its
    end state is: every prefix of an accepted simulation is an accepted simulation -/
theorem locoWalk_append (k : Consts α) (l l2 : Loco α) (t1 t2 : List (α × α × Option Bool)) :
    locoWalk k l (t1 ++ t2) = .ok l2 ↔ ∃ l1, locoWalk k l t1 = .ok l1 ∧ locoWalk k l1 t2 = .ok l2 := by
  induction t1 generalizing l with
  | nil => simp [locoWalk_nil]
  | cons s t ih =>
    obtain ⟨req, dt, eo⟩ := s
    simp only [List.cons_append, locoWalk_cons, bind_ok_iff, ih]
    constructor
    · rintro ⟨l', h1, l1, h2, h3⟩; exact ⟨l1, ⟨l', h1, h2⟩, h3⟩
    · rintro ⟨l1, ⟨l', h1, h2⟩, h3⟩; exact ⟨l', h1, l1, h2, h3⟩

theorem locoWalk_params (k : Consts α) (l l' : Loco α) (t : List (α × α × Option Bool))
    (h : locoWalk k l t = .ok l') : PtParams l.pt l'.pt := by
  induction t generalizing l with
  | nil => cases h; exact PtParams.refl _
  | cons s t ih =>
    obtain ⟨req, dt, eo⟩ := s
    rw [locoWalk_cons, bind_ok_iff] at h
    obtain ⟨l1, h1, h2⟩ := h
    exact (locoSimStep_params k l l1 req dt eo h1).trans (ih l1 h2)

theorem locoWalk_energy (k : Consts α) (l l' : Loco α) (t : List (α × α × Option Bool))
    (hok : PtOK l.pt) (hdt : ∀ s ∈ t, 0 ≤ s.2.1) (h : locoWalk k l t = .ok l') :
    PtEnergyLE l.pt l'.pt := by
  induction t generalizing l with
  | nil => cases h; exact PtEnergyLE.refl_of_params
  | cons s t ih =>
    obtain ⟨req, dt, eo⟩ := s
    rw [locoWalk_cons, bind_ok_iff] at h
    obtain ⟨l1, h1, h2⟩ := h
    obtain ⟨-, ok1, -, -, en⟩ := C08_loco_step α k l l1 req dt eo hok h1
    exact (en (hdt (req, dt, eo) (by simp))).trans
      (ih l1 ok1 (fun s hs => hdt s (by simp [hs])) h2)

/-- **Cumulative energies never decrease along any prefix of any accepted simulation.**
    For every split `trace = t1 ++ t2` of an accepted walk, the walk over the prefix `t1` is accepted
    and every cumulative fuel / loss / dynamic-braking energy of every component satisfies
    `start ≤ after t1 ≤ end`; the maps and ratings at the end are those of the start. -/
def C08_walk_monotone_statement : Prop :=
  ∀ (α : Type) [Field α] [LinearOrder α] [IsStrictOrderedRing α]
    (k : Consts α) (l l2 : Loco α) (t1 t2 : List (α × α × Option Bool)),
    PtOK l.pt →                           -- forced (see `C08_loco_step`)
    (∀ s ∈ t1 ++ t2, 0 ≤ s.2.1) →         -- forced: every time step is non-negative
    locoWalk k l (t1 ++ t2) = .ok l2 →
      ∃ l1, locoWalk k l t1 = .ok l1 ∧ PtEnergyLE l.pt l1.pt ∧ PtEnergyLE l1.pt l2.pt ∧
        PtParams l.pt l2.pt ∧ PtOK l2.pt

theorem C08_walk_monotone : C08_walk_monotone_statement := by
  intro α _ _ _ k l l2 t1 t2 hok hdt h
  obtain ⟨l1, h1, h2⟩ := (locoWalk_append k l l2 t1 t2).mp h
  have p1 := locoWalk_params k l l1 t1 h1
  have p := locoWalk_params k l l2 _ h
  exact ⟨l1, h1,
    locoWalk_energy k l l1 t1 hok (fun s hs => hdt s (List.mem_append_left _ hs)) h1,
    locoWalk_energy k l1 l2 t2 (hok.of_params p1) (fun s hs => hdt s (List.mem_append_right _ hs)) h2,
    p, hok.of_params p⟩

/-- **Every step of every accepted simulation obeys the second law**: after the last step of any
    accepted prefix `t1 ++ [s]`, every per-step clause holds for every component; if that step had
    the engine commanded off, a conventional unit burnt no fuel and drew no auxiliary power. -/
def C08_walk_step_statement : Prop :=
  ∀ (α : Type) [Field α] [LinearOrder α] [IsStrictOrderedRing α]
    (k : Consts α) (l l1 : Loco α) (t1 : List (α × α × Option Bool)) (req dt : α) (eo : Option Bool),
    PtOK l.pt →
    locoWalk k l (t1 ++ [(req, dt, eo)]) = .ok l1 →
      PtStepOK l1.pt ∧ l1.pt.edrv.state.pwrOutReq = req ∧
      (0 ≤ req → l1.pt.edrv.state.pwrMechDynBrake = 0 ∧ l1.pt.edrv.state.pwrElecDynBrake = 0) ∧
      (eo = some false → ∀ fc g e, l1.pt = .conv fc g e →
        fc.state.pwrFuel = 0 ∧ fc.state.pwrIdleFuel = 0 ∧ l1.state.pwrAux = 0 ∧
        g.state.pwrElecAux = 0)

theorem C08_walk_step : C08_walk_step_statement := by
  intro α _ _ _ k l l1 t1 req dt eo hok h
  obtain ⟨l0, h0, h1⟩ := (locoWalk_append k l l1 t1 _).mp h
  rw [locoWalk_cons, bind_ok_iff] at h1
  obtain ⟨l1', hs, hr⟩ := h1
  cases hr
  have ok0 : PtOK l0.pt := hok.of_params (locoWalk_params k l l0 t1 h0)
  obtain ⟨-, -, s, rq, -⟩ := C08_loco_step α k l0 l1 req dt eo ok0 hs
  refine ⟨s, rq, C08_loco_dyn_zero α k l0 l1 req dt eo hs, ?_⟩
  rintro rfl fc g e hpt
  have p := locoSimStep_params k l0 l1 req dt _ hs
  cases hpt0 : l0.pt with
  | conv fc0 g0 e0 =>
    rw [hpt0] at ok0
    obtain ⟨fc', g', e', hr, f1, f2, f3, f4⟩ := C08_engine_off_loco α k l0 l1 req dt fc0 g0 e0 hpt0
      ok0.1.1 ok0.1.2.1 hs
    rw [hpt] at hr
    cases hr
    exact ⟨f1, f2, f3, f4⟩
  | bel r0 e0 =>
    rw [hpt0, hpt] at p
    exact absurd p (by simp [PtParams])

/-! ### interpolation clauses (proved in `Proofs/Lemmas/Interp.lean`) -/

/-- **interp1d stays within the range of its map**; the `x` grid is NOT assumed sorted. -/
def C08_interp1d_range_statement : Prop :=
  ∀ (α : Type) [Field α] [LinearOrder α] [IsStrictOrderedRing α]
    (x : α) (xs ys : List α) (y lo hi : α),
    interp1d x xs ys = .ok y →
    ys ≠ [] →                    -- forced: `C08_interp1d_nonempty_forced`
    xs.IsChain (· ≠ ·) →         -- guard for the division by `xr - xl` (see `interp1d_range_of_sel`)
    (∀ v ∈ ys, lo ≤ v ∧ v ≤ hi) →
      lo ≤ y ∧ y ≤ hi

theorem C08_interp1d_range : C08_interp1d_range_statement := by
  intro α _ _ _ x xs ys y lo hi h hys hadj hb
  exact interp1d_range x xs ys y lo hi h hys hadj hb

/-- **interp3d stays within the range of its table**; no hypothesis on the axes is needed. -/
def C08_interp3d_range_statement : Prop :=
  ∀ (α : Type) [Field α] [LinearOrder α] [IsStrictOrderedRing α]
    (x y z : α) (gx gy gz : List α) (vals : List (List (List α))) (v lo hi : α),
    interp3d x y z gx gy gz vals = .ok v →
    (∀ a ∈ vals, ∀ b ∈ a, ∀ c ∈ b, lo ≤ c ∧ c ≤ hi) →
      lo ≤ v ∧ v ≤ hi

theorem C08_interp3d_range : C08_interp3d_range_statement := by
  intro α _ _ _ x y z gx gy gz vals v lo hi h hb
  exact interp3d_range x y z gx gy gz vals v lo hi h hb

/-! ### non-vacuity: concrete instances over ℚ -/

section Examples

/-- `r` is accepted and its value satisfies the decidable test `p` -/
def okAnd {σ : Type} (r : Res σ) (p : σ → Bool) : Bool :=
  match r with
  | .ok s => p s
  | _ => false

theorem okAnd_elim {σ : Type} {r : Res σ} {p : σ → Bool} (h : okAnd r p = true) :
    ∃ s, r = .ok s ∧ p s = true := by
  cases r <;> simp_all [okAnd]

def kQ : Consts ℚ := { tol := 1 / 1000, eps := 1 / 100000000, c005 := 1 / 20, ten := 10 }

/-- an engine whose map has its first two `x` knots out of order, as the shipped one has -/
def fcQ : FC ℚ :=
  { state := { pwrOutMax := 1000, eta := 0, pwrBrake := 0, pwrFuel := 0, pwrLoss := 0,
               pwrIdleFuel := 0, energyBrake := 0, energyFuel := 5, energyLoss := 3,
               energyIdleFuel := 0, engineOn := true },
    pwrOutMax := 1000, pwrOutMaxInit := 100, pwrRampLag := 1,
    fracInterp := [1 / 100, 0, 1 / 2, 1], etaInterp := [1 / 5, 1 / 10, 2 / 5, 3 / 10],
    pwrIdleFuel := 20 }

def genQ : Gen ℚ :=
  { state := { eta := 0, pwrElecPropOutMax := 0, pwrElecOutMax := 0, pwrRateOutMax := 0,
               pwrMechIn := 0, pwrElecPropOut := 0, pwrElecAux := 0, pwrLoss := 0,
               energyMechIn := 0, energyElecPropOut := 0, energyElecAux := 0, energyLoss := 1 },
    pwrOutMax := 900, fracInterp := [0, 1 / 2, 1], etaInterp := [4 / 5, 9 / 10, 19 / 20],
    inFracInterp := [] }

def edrvQ : Edrv ℚ :=
  { state := { eta := 0, pwrMechOutMax := 0, pwrMechRegenMax := 0, pwrRateOutMax := 0,
               pwrOutReq := 0, pwrElecPropIn := 0, pwrMechPropOut := 0, pwrMechDynBrake := 0,
               pwrElecDynBrake := 0, pwrLoss := 0, energyElecPropIn := 0, energyMechPropOut := 0,
               energyMechDynBrake := 2, energyElecDynBrake := 1, energyLoss := 1 },
    pwrOutMax := 800, fracInterp := [0, 1 / 2, 1], etaInterp := [17 / 20, 9 / 10, 23 / 25],
    inFracInterp := [] }

def resQ : RES ℚ :=
  { state := { pwrPropOutMax := 0, pwrRegenOutMax := 0, pwrDischMax := 1000, pwrChargeMax := 1000,
               soc := 1 / 2, eta := 0, pwrOutElectrical := 0, pwrOutPropulsion := 0, pwrAux := 0,
               pwrLoss := 0, pwrOutChemical := 0, energyOutElectrical := 0,
               energyOutPropulsion := 0, energyAux := 0, energyLoss := 4, energyOutChemical := 0,
               maxSoc := 9 / 10, socHiRampStart := 17 / 20, minSoc := 1 / 10,
               socLoRampStart := 3 / 20, temperature := 25 },
    pwrOutMax := 1000, energyCapacity := 7200000, capWh := 2000, minSoc := 1 / 10, maxSoc := 9 / 10,
    socHiRampStart := none, socLoRampStart := none,
    gridT := [0, 20, 40], gridSoc := [0, 1 / 2, 1], gridC := [-1, 0, 1],
    etaVals := [[[9 / 10, 19 / 20, 9 / 10], [23 / 25, 24 / 25, 23 / 25], [9 / 10, 19 / 20, 9 / 10]],
                [[91 / 100, 24 / 25, 91 / 100], [47 / 50, 49 / 50, 47 / 50], [91 / 100, 24 / 25, 91 / 100]],
                [[9 / 10, 19 / 20, 9 / 10], [23 / 25, 24 / 25, 23 / 25], [9 / 10, 1, 9 / 10]]] }

def locoStateQ : LocoState ℚ :=
  { pwrOutMax := 0, pwrRateOutMax := 0, pwrRegenMax := 0, pwrOut := 0, pwrAux := 0,
    energyOut := 0, energyAux := 0 }

def convQ : Loco ℚ :=
  { pt := .conv fcQ genQ edrvQ, state := locoStateQ, assertLimits := true,
    pwrAuxOffset := 5, pwrAuxTractionCoeff := 1 / 100 }

def belQ : Loco ℚ :=
  { pt := .bel resQ edrvQ, state := locoStateQ, assertLimits := true,
    pwrAuxOffset := 5, pwrAuxTractionCoeff := 1 / 100 }

/-- traction with the engine on, dynamic braking with the engine off, traction again -/
def traceConvQ : List (ℚ × ℚ × Option Bool) :=
  [(200, 1, some true), (-100, 1, some false), (300, 1 / 2, none)]

/-- traction, regenerative braking, braking beyond the regeneration limit (dynamic brake) -/
def traceBelQ : List (ℚ × ℚ × Option Bool) :=
  [(200, 1, none), (-300, 1, none), (-1000, 2, some true)]

theorem fcQ_map : Map1OK fcQ.fracInterp fcQ.etaInterp := by
  unfold Map1OK; decide +kernel
theorem genQ_map : Map1OK genQ.fracInterp genQ.etaInterp := by
  unfold Map1OK; decide +kernel
theorem edrvQ_map : Map1OK edrvQ.fracInterp edrvQ.etaInterp := by
  unfold Map1OK; decide +kernel
theorem resQ_table : TableOK resQ.etaVals := by
  unfold TableOK; decide +kernel

theorem convQ_ok : PtOK convQ.pt :=
  ⟨⟨fcQ_map, by decide +kernel, by decide +kernel⟩, ⟨genQ_map, by decide +kernel⟩,
    ⟨edrvQ_map, by decide +kernel⟩⟩
theorem belQ_ok : PtOK belQ.pt :=
  ⟨⟨resQ_table, by decide +kernel⟩, ⟨edrvQ_map, by decide +kernel⟩⟩

/-- `C08_interp1d_range` on the unsorted engine map, query between the two out-of-order knots -/
example : ∃ y, interp1d (1 / 200 : ℚ) fcQ.fracInterp fcQ.etaInterp = .ok y ∧ 1 / 10 ≤ y ∧ y ≤ 2 / 5 := by
  obtain ⟨y, h⟩ := exists_of_isOk (r := interp1d (1 / 200 : ℚ) fcQ.fracInterp fcQ.etaInterp)
    (by decide +kernel)
  exact ⟨y, h, C08_interp1d_range ℚ _ _ _ y _ _ h (by decide +kernel) fcQ_map.2.1 (by decide +kernel)⟩

/-- the query below the out-of-order first knot: the clamp fires with `xl > xr` -/
example : ∃ y, interp1d (0 : ℚ) fcQ.fracInterp fcQ.etaInterp = .ok y ∧ y = 1 / 5 := by
  obtain ⟨y, h, hp⟩ := okAnd_elim (r := interp1d (0 : ℚ) fcQ.fracInterp fcQ.etaInterp)
    (p := fun y => decide (y = 1 / 5)) (by decide +kernel)
  exact ⟨y, h, of_decide_eq_true hp⟩

/-- `ys ≠ []` is forced in `C08_interp1d_range`: an empty map returns `0/0`, outside any range
    that excludes 0 -/
theorem C08_interp1d_nonempty_forced :
    ∃ y, interp1d (0 : ℚ) [0, 1] [] = .ok y ∧ (∀ v ∈ ([] : List ℚ), 1 ≤ v ∧ v ≤ 2) ∧ ¬ (1 ≤ y) := by
  obtain ⟨y, h, hp⟩ := okAnd_elim (r := interp1d (0 : ℚ) [0, 1] [])
    (p := fun y => decide (¬ (1 ≤ y))) (by decide +kernel)
  exact ⟨y, h, by simp, of_decide_eq_true hp⟩

/-- `C08_interp3d_range` on the battery table -/
example : ∃ v, interp3d (25 : ℚ) (2 / 5) (1 / 10) resQ.gridT resQ.gridSoc resQ.gridC resQ.etaVals
    = .ok v ∧ 9 / 10 ≤ v ∧ v ≤ 1 := by
  obtain ⟨v, h⟩ := exists_of_isOk
    (r := interp3d (25 : ℚ) (2 / 5) (1 / 10) resQ.gridT resQ.gridSoc resQ.gridC resQ.etaVals)
    (by decide +kernel)
  exact ⟨v, h, C08_interp3d_range ℚ _ _ _ _ _ _ _ v _ _ h (by decide +kernel)⟩

/-- `C08_fc_step`: engine on, 300 W demand, 1 s -/
example : ∃ fc', fcSolve kQ fcQ 300 1 true true = .ok fc' ∧ FCStateOK fc'.state ∧
    FCEnergyLE fcQ.state fc'.state := by
  obtain ⟨fc', h⟩ := exists_of_isOk (r := fcSolve kQ fcQ 300 1 true true) (by decide +kernel)
  obtain ⟨h1, h2⟩ := C08_fc_step ℚ kQ fcQ fc' 300 1 true true fcQ_map (by decide +kernel)
    (by decide +kernel) h
  exact ⟨fc', h, h1, h2 (by norm_num)⟩

/-- `C08_engine_off_fc`: engine off is accepted at zero demand -/
example : ∃ fc', fcSolve kQ fcQ 0 1 false true = .ok fc' ∧ fc'.state.pwrFuel = 0 ∧
    fc'.state.pwrIdleFuel = 0 := by
  obtain ⟨fc', h⟩ := exists_of_isOk (r := fcSolve kQ fcQ 0 1 false true) (by decide +kernel)
  obtain ⟨-, h1, h2, -⟩ := C08_engine_off_fc ℚ kQ fcQ fc' 0 1 true fcQ_map (by decide +kernel) h
  exact ⟨fc', h, h1, h2⟩

/-- `C08_gen_step` -/
example : ∃ g', genReq genQ 300 5 1 = .ok g' ∧ GenStateOK g'.state ∧
    GenEnergyLE genQ.state g'.state := by
  obtain ⟨g', h⟩ := exists_of_isOk (r := genReq genQ 300 5 1) (by decide +kernel)
  obtain ⟨h1, h2⟩ := C08_gen_step ℚ genQ g' 300 5 1 genQ_map (by decide +kernel) (by norm_num) h
  exact ⟨g', h, h1, h2 (by norm_num)⟩

/-- `0 ≤ prop + aux` is forced in `C08_gen_step`: a generator called on its own with a negative
    auxiliary load reports a negative loss.  (Inside a locomotive the call is followed by
    `ensure 0 ≤ pwrMechIn`, which rejects exactly these steps: see `convSolve_step`.) -/
theorem C08_gen_step_load_forced :
    ∃ g', genReq genQ 0 (-10) 1 = .ok g' ∧ g'.state.pwrLoss < 0 ∧
      g'.state.energyLoss < genQ.state.energyLoss := by
  obtain ⟨g', h, hp⟩ := okAnd_elim (r := genReq genQ 0 (-10) 1)
    (p := fun g' => decide (g'.state.pwrLoss < 0) && decide (g'.state.energyLoss < genQ.state.energyLoss))
    (by decide +kernel)
  simp only [Bool.and_eq_true, decide_eq_true_iff] at hp
  exact ⟨g', h, hp.1, hp.2⟩

/-- `0 ≤ pwrIdleFuel` is forced in `C08_fc_step`: with a negative idle-fuel parameter an idling
    engine reports a negative loss (and `pwrBrake > pwrFuel`) -/
theorem C08_fc_step_idle_forced :
    ∃ fc', fcSolve kQ { fcQ with pwrIdleFuel := -20 } 0 (1 / 10) true true = .ok fc' ∧
      fc'.state.pwrLoss < 0 ∧ fc'.state.pwrFuel < fc'.state.pwrBrake := by
  obtain ⟨fc', h, hp⟩ := okAnd_elim
    (r := fcSolve kQ { fcQ with pwrIdleFuel := -20 } 0 (1 / 10) true true)
    (p := fun fc' => decide (fc'.state.pwrLoss < 0) && decide (fc'.state.pwrFuel < fc'.state.pwrBrake))
    (by decide +kernel)
  simp only [Bool.and_eq_true, decide_eq_true_iff] at hp
  exact ⟨fc', h, hp.1, hp.2⟩

/-- `0 ≤ dt` is forced in the energy clauses: a component called on its own with a negative time
    step is accepted and its cumulative loss decreases.  (`fcSetCurMax` rejects `dt ≤ 0`, so a
    conventional unit never gets there; a battery-electric unit has no such check.) -/
theorem C08_energy_dt_forced :
    ∃ e', edrvReq edrvQ 200 (-1) = .ok e' ∧ e'.state.energyLoss < edrvQ.state.energyLoss := by
  obtain ⟨e', h, hp⟩ := okAnd_elim (r := edrvReq edrvQ 200 (-1))
    (p := fun e' => decide (e'.state.energyLoss < edrvQ.state.energyLoss)) (by decide +kernel)
  exact ⟨e', h, of_decide_eq_true hp⟩

/-- `0 ≤ pwrMechRegenMax` is forced in `C08_edrv_dyn_zero`: with a negative regeneration limit a
    small traction demand is "braked" (`pwrMechDynBrake > 0` although `0 ≤ req`).
    (`edrvSetRegenMax` ensures the limit it writes is non-negative.) -/
theorem C08_edrv_dyn_zero_regen_forced :
    ∃ e', edrvReq { edrvQ with state := { edrvQ.state with pwrMechRegenMax := -50 } } 10 1 = .ok e' ∧
      0 < e'.state.pwrMechDynBrake := by
  obtain ⟨e', h, hp⟩ := okAnd_elim
    (r := edrvReq { edrvQ with state := { edrvQ.state with pwrMechRegenMax := -50 } } 10 1)
    (p := fun e' => decide (0 < e'.state.pwrMechDynBrake)) (by decide +kernel)
  exact ⟨e', h, of_decide_eq_true hp⟩

/-- `C08_edrv_step`, traction -/
example : ∃ e', edrvReq edrvQ 200 1 = .ok e' ∧ EdrvStateOK e'.state ∧
    EdrvEnergyLE edrvQ.state e'.state := by
  obtain ⟨e', h⟩ := exists_of_isOk (r := edrvReq edrvQ 200 1) (by decide +kernel)
  obtain ⟨-, -, h1, h2⟩ := C08_edrv_step ℚ edrvQ e' 200 1 edrvQ_map (by decide +kernel) h
  exact ⟨e', h, h1, h2 (by norm_num)⟩

/-- `C08_edrv_step`, braking (regeneration limit 0: everything goes to the dynamic brake) -/
example : ∃ e', edrvReq edrvQ (-200) 1 = .ok e' ∧ EdrvStateOK e'.state ∧
    e'.state.pwrMechDynBrake = 200 := by
  obtain ⟨e', h, hp⟩ := okAnd_elim (r := edrvReq edrvQ (-200) 1)
    (p := fun e' => decide (e'.state.pwrMechDynBrake = 200)) (by decide +kernel)
  obtain ⟨-, -, h1, -⟩ := C08_edrv_step ℚ edrvQ e' (-200) 1 edrvQ_map (by decide +kernel) h
  exact ⟨e', h, h1, of_decide_eq_true hp⟩

/-- `C08_edrv_dyn_zero` -/
example : ∃ e', edrvReq edrvQ 200 1 = .ok e' ∧ e'.state.pwrMechDynBrake = 0 := by
  obtain ⟨e', h⟩ := exists_of_isOk (r := edrvReq edrvQ 200 1) (by decide +kernel)
  exact ⟨e', h, (C08_edrv_dyn_zero ℚ edrvQ e' 200 1 (by decide +kernel) (by norm_num) h).1⟩

/-- `C08_res_step`, discharging and charging -/
example : ∃ r', resSolve kQ resQ 500 10 1 = .ok r' ∧ ResStateOK r'.state ∧
    ResEnergyLE resQ.state r'.state := by
  obtain ⟨r', h⟩ := exists_of_isOk (r := resSolve kQ resQ 500 10 1) (by decide +kernel)
  obtain ⟨-, h1, h2⟩ := C08_res_step ℚ kQ resQ r' 500 10 1 resQ_table (by decide +kernel) h
  exact ⟨r', h, h1, h2 (by norm_num)⟩
example : ∃ r', resSolve kQ resQ (-500) 10 1 = .ok r' ∧ ResStateOK r'.state ∧
    ResEnergyLE resQ.state r'.state := by
  obtain ⟨r', h⟩ := exists_of_isOk (r := resSolve kQ resQ (-500) 10 1) (by decide +kernel)
  obtain ⟨-, h1, h2⟩ := C08_res_step ℚ kQ resQ r' (-500) 10 1 resQ_table (by decide +kernel) h
  exact ⟨r', h, h1, h2 (by norm_num)⟩

/-- `C08_engine_off_conv` -/
example : ∃ fc' g' e', convSolve kQ fcQ genQ edrvQ (-100) 1 false 0 true = .ok (.conv fc' g' e') ∧
    fc'.state.pwrFuel = 0 ∧ g'.state.pwrElecAux = 0 := by
  obtain ⟨pt, h⟩ := exists_of_isOk (r := convSolve kQ fcQ genQ edrvQ (-100) 1 false 0 true)
    (by decide +kernel)
  obtain ⟨fc', g', e', rfl, h1, -, h3⟩ := C08_engine_off_conv ℚ kQ fcQ genQ edrvQ (-100) 1 0 true pt
    fcQ_map (by decide +kernel) h
  exact ⟨fc', g', e', h, h1, h3⟩

/-- `C08_loco_step` and `C08_engine_off_loco` on a conventional unit, engine commanded off while
    braking -/
example : ∃ l', locoSimStep kQ convQ (-100) 1 (some false) = .ok l' ∧ PtStepOK l'.pt ∧
    PtEnergyLE convQ.pt l'.pt ∧ l'.state.pwrAux = 0 := by
  obtain ⟨l', h⟩ := exists_of_isOk (r := locoSimStep kQ convQ (-100) 1 (some false))
    (by decide +kernel)
  obtain ⟨-, -, h1, -, h2⟩ := C08_loco_step ℚ kQ convQ l' (-100) 1 _ convQ_ok h
  obtain ⟨_, _, _, -, -, -, h3, -⟩ := C08_engine_off_loco ℚ kQ convQ l' (-100) 1 fcQ genQ edrvQ rfl
    fcQ_map (by decide +kernel) h
  exact ⟨l', h, h1, h2 (by norm_num), h3⟩

/-- `C08_loco_dyn_zero` on a battery-electric unit in traction -/
example : ∃ l', locoSimStep kQ belQ 200 1 none = .ok l' ∧ l'.pt.edrv.state.pwrMechDynBrake = 0 := by
  obtain ⟨l', h⟩ := exists_of_isOk (r := locoSimStep kQ belQ 200 1 none) (by decide +kernel)
  exact ⟨l', h, (C08_loco_dyn_zero ℚ kQ belQ l' 200 1 none h (by norm_num)).1⟩

/-- `0 ≤ dt` is forced in `C08_walk_monotone` even for whole simulation steps: a battery-electric
    unit accepts a step with `dt = -1` (no component checks the sign of `dt`; only the fuel
    converter's `set_cur_pwr_out_max` does) and the cumulative battery loss decreases. -/
theorem C08_walk_dt_forced :
    ∃ l', locoWalk kQ belQ [(200, -1, none)] = .ok l' ∧ ¬ PtEnergyLE belQ.pt l'.pt := by
  obtain ⟨l', h, hp⟩ := okAnd_elim (r := locoWalk kQ belQ [(200, -1, none)])
    (p := fun l' => match l'.pt with
      | .bel r _ => decide (r.state.energyLoss < resQ.state.energyLoss)
      | _ => false) (by decide +kernel)
  refine ⟨l', h, ?_⟩
  cases hpt : l'.pt with
  | conv fc g e => simp [PtEnergyLE, belQ]
  | bel r e =>
    rw [hpt] at hp
    simp only [decide_eq_true_iff] at hp
    simp only [PtEnergyLE, belQ, ResEnergyLE, not_and_or, not_le]
    exact Or.inl hp

/-- `C08_walk_monotone` / `C08_walk_step`: a three-step conventional run with an engine-off step -/
example : ∃ l2, locoWalk kQ convQ traceConvQ = .ok l2 ∧ PtEnergyLE convQ.pt l2.pt ∧
    PtStepOK l2.pt := by
  obtain ⟨l2, h⟩ := exists_of_isOk (r := locoWalk kQ convQ traceConvQ) (by decide +kernel)
  obtain ⟨l1, -, e1, e2, -, -⟩ := C08_walk_monotone ℚ kQ convQ l2 (traceConvQ.take 2)
    (traceConvQ.drop 2) convQ_ok (by decide +kernel) h
  obtain ⟨s, -, -, -⟩ := C08_walk_step ℚ kQ convQ l2 (traceConvQ.take 2) 300 (1 / 2) none convQ_ok h
  exact ⟨l2, h, e1.trans e2, s⟩

/-- the same for a battery-electric unit: traction, regeneration, dynamic braking -/
example : ∃ l2, locoWalk kQ belQ traceBelQ = .ok l2 ∧ PtEnergyLE belQ.pt l2.pt ∧
    PtStepOK l2.pt := by
  obtain ⟨l2, h⟩ := exists_of_isOk (r := locoWalk kQ belQ traceBelQ) (by decide +kernel)
  obtain ⟨l1, -, e1, e2, -, -⟩ := C08_walk_monotone ℚ kQ belQ l2 (traceBelQ.take 1)
    (traceBelQ.drop 1) belQ_ok (by decide +kernel) h
  obtain ⟨s, -, -, -⟩ := C08_walk_step ℚ kQ belQ l2 (traceBelQ.take 2) (-1000) 2 (some true) belQ_ok h
  exact ⟨l2, h, e1.trans e2, s⟩

/-- the engine-off step inside the conventional run: fuel and auxiliary power are zero after it -/
example : ∃ l1 fc g e, locoWalk kQ convQ (traceConvQ.take 2) = .ok l1 ∧ l1.pt = .conv fc g e ∧
    fc.state.pwrFuel = 0 ∧ l1.state.pwrAux = 0 ∧ g.state.pwrElecAux = 0 := by
  obtain ⟨l1, h⟩ := exists_of_isOk (r := locoWalk kQ convQ (traceConvQ.take 2)) (by decide +kernel)
  obtain ⟨-, -, -, h3⟩ := C08_walk_step ℚ kQ convQ l1 (traceConvQ.take 1) (-100) 1 (some false)
    convQ_ok h
  cases hpt : l1.pt with
  | conv fc g e =>
    obtain ⟨f1, -, f3, f4⟩ := h3 rfl fc g e hpt
    exact ⟨l1, fc, g, e, h, hpt, f1, f3, f4⟩
  | bel r e =>
    have p := locoWalk_params kQ convQ l1 _ h
    rw [hpt] at p
    exact absurd p (by simp [PtParams, convQ])

end Examples

end Altrios.Proofs.C08
