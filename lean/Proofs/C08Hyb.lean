import Altrios.Hybrid
import Proofs.C08
import Proofs.C01
/-
  C08 for the third locomotive type (`HybridLoco`, model `Altrios/Hybrid.lean`):
  every component of a hybrid obeys the second law in every accepted step, FOR EVERY SPLIT the
  controller or the golden-section search may choose (`split` is universally quantified), and the
  unit's internal hand-offs balance.

    * `hybSolve_ok`                 : what an accepted `HybridLoco::solve_energy_consumption` ran
    * `C08_hybrid_step`             : η ∈ (0,1], loss ≥ 0, out ≤ in for fc / gen / res / edrv; dynamic-brake
                                      clauses; cumulative fuel / loss / dyn-brake energies do not decrease
    * `C08_hybrid_handoff`          : gen prop out + res prop out = edrv elec in; engine shaft = gen mech in
    * `C08_hybrid_res_share_le_max` : the battery's share never exceeds its published propulsion limit and
                                      never exceeds the drivetrain's demand when `split ≤ 1`
    * `C08_hybrid_gss_bounds`       : the interval handed to the search lies in [0,1]
    * `C08_hybrid_ledger`           : fuel + battery chemical power = wheel + dynamic braking + generator aux
                                      + the four reported losses (the C01 ledger, for the type C01 leaves out)
    * `C08_hybrid_loco_step`        : the same through `Locomotive::solve_energy_consumption`'s hybrid arm,
                                      with `pwr_out = prop − dyn brake = request`
    * `C08_hybrid_ignores_engine_off` : the hybrid arm never reads `engine_on` (the model has no such
                                      parameter): a hybrid "commanded off" burns its idle fuel — the known
                                      finding C08-hybrid-ignores-engine-off; `C08_hybrid_engine_off_counterexample`
                                      is the ℚ witness.
-/
set_option linter.unusedSectionVars false
namespace Altrios.Proofs.C08Hyb
open Altrios Altrios.Interp Altrios.PT Altrios.Hyb Altrios.Proofs.Basic Altrios.Proofs.InterpL
  Altrios.Proofs.C08

variable {α : Type} [Field α] [LinearOrder α] [IsStrictOrderedRing α]

def HybOK (h : Hybrid α) : Prop := FCOK h.fc ∧ GenOK h.gen ∧ ResOK h.res ∧ EdrvOK h.edrv
def HybStepOK (h : Hybrid α) : Prop :=
  FCStateOK h.fc.state ∧ GenStateOK h.gen.state ∧ ResStateOK h.res.state ∧ EdrvStateOK h.edrv.state
def HybEnergyLE (h h' : Hybrid α) : Prop :=
  FCEnergyLE h.fc.state h'.fc.state ∧ GenEnergyLE h.gen.state h'.gen.state ∧
  ResEnergyLE h.res.state h'.res.state ∧ EdrvEnergyLE h.edrv.state h'.edrv.state
def HybParams (h h' : Hybrid α) : Prop :=
  FCParams h.fc h'.fc ∧ GenParams h.gen h'.gen ∧ ResParams h.res h'.res ∧ EdrvParams h.edrv h'.edrv

/-- what an accepted hybrid solve ran: the drivetrain first, then — by the sign of its electrical
    demand — generator + engine + battery with the battery's share `fromRes`, or battery (all of the
    regenerated power) + idling generator + engine -/
theorem hybSolve_ok (k : Consts α) (h h' : Hybrid α) (req dt split ga : α) (al : Bool)
    (hh : hybSolve k h req dt al split ga = .ok h') :
    ∃ e' g' fc' r' pg pr, edrvReq h.edrv req dt = .ok e' ∧
      genReq h.gen pg ga dt = .ok g' ∧
      fcSolve k h.fc g'.state.pwrMechIn dt true al = .ok fc' ∧
      resSolve k h.res pr 0 dt = .ok r' ∧
      pg + pr = e'.state.pwrElecPropIn ∧
      ((0 < e'.state.pwrElecPropIn ∧ pr = fromRes h.res.state.pwrPropOutMax e'.state.pwrElecPropIn split) ∨
       (e'.state.pwrElecPropIn ≤ 0 ∧ pg = 0)) ∧
      h' = { h with fc := fc', gen := g', res := r', edrv := e', split := split } := by
  unfold hybSolve at hh
  simp only [bind, pure, bind_ok_iff] at hh
  obtain ⟨e', he, hrest⟩ := hh
  split_ifs at hrest with hpos
  · simp only [bind_ok_iff] at hrest
    obtain ⟨g', hg, fc', hf, r', hr, hres⟩ := hrest
    cases hres
    exact ⟨e', g', fc', r', _, _, he, hg, hf, hr, by ring, Or.inl ⟨hpos, rfl⟩, rfl⟩
  · simp only [bind_ok_iff] at hrest
    obtain ⟨r', hr, g', hg, fc', hf, hres⟩ := hrest
    cases hres
    exact ⟨e', g', fc', r', _, _, he, hg, hf, hr, by ring, Or.inr ⟨not_lt.mp hpos, rfl⟩, rfl⟩

/-- **Hybrid, one step: every component obeys the second law, for every split.** -/
def C08_hybrid_step_statement : Prop :=
  ∀ (α : Type) [Field α] [LinearOrder α] [IsStrictOrderedRing α]
    (k : Consts α) (h h' : Hybrid α) (req dt split ga : α) (al : Bool),
    HybOK h →          -- the component hypotheses of `C08_fc/gen/res/edrv_step` (maps in (0,1], guards)
    0 ≤ ga →           -- forced: the generator's auxiliary load (the literal 50 kW) is not negative
    hybSolve k h req dt al split ga = .ok h' →
      HybParams h h' ∧ HybStepOK h' ∧ h'.edrv.state.pwrOutReq = req ∧ h'.split = split ∧
      (0 ≤ dt → HybEnergyLE h h')

theorem C08_hybrid_step : C08_hybrid_step_statement := by
  intro α _ _ _ k h h' req dt split ga al ⟨hfc, hg, hr, he⟩ hga hh
  obtain ⟨e', g', fc', r', pg, pr, h1, h2, h3, h4, -, -, rfl⟩ := hybSolve_ok k h h' req dt split ga al hh
  obtain ⟨e1, -, e3, e4⟩ := C08_edrv_step α h.edrv e' req dt he.1 he.2 h1
  have hpg : 0 ≤ pg := by
    obtain ⟨eta, hp, -, -, -⟩ := genReq_ok h.gen g' pg ga dt h2
    exact hp
  obtain ⟨g3, g4⟩ := C08_gen_step α h.gen g' pg ga dt hg.1 hg.2 (by linarith) h2
  obtain ⟨f3, f4⟩ := C08_fc_step α k h.fc fc' _ dt true al hfc.1 hfc.2.1 hfc.2.2 h3
  obtain ⟨-, r3, r4⟩ := C08_res_step α k h.res r' pr 0 dt hr.1 hr.2 h4
  exact ⟨⟨fcSolve_params k h.fc fc' _ dt true al h3, genReq_params h.gen g' pg ga dt h2,
      resSolve_params k h.res r' pr 0 dt h4, edrvReq_params h.edrv e' req dt h1⟩,
    ⟨f3, g3, r3, e3⟩, e1, rfl, fun hdt => ⟨f4 hdt, g4 hdt, r4 hdt, e4 hdt⟩⟩

/-- **Hand-offs inside the hybrid**: what the drivetrain draws electrically is exactly what generator
    and battery deliver for propulsion (both traction directions); the engine's shaft power is the
    generator's mechanical input; the battery carries no auxiliary load. -/
def C08_hybrid_handoff_statement : Prop :=
  ∀ (α : Type) [Field α] [LinearOrder α] [IsStrictOrderedRing α]
    (k : Consts α) (h h' : Hybrid α) (req dt split ga : α) (al : Bool),
    hybSolve k h req dt al split ga = .ok h' →
      h'.gen.state.pwrElecPropOut + h'.res.state.pwrOutPropulsion = h'.edrv.state.pwrElecPropIn ∧
      h'.fc.state.pwrBrake = h'.gen.state.pwrMechIn ∧
      h'.res.state.pwrAux = 0 ∧ h'.gen.state.pwrElecAux = ga ∧
      (h'.edrv.state.pwrElecPropIn ≤ 0 → h'.gen.state.pwrElecPropOut = 0)

theorem C08_hybrid_handoff : C08_hybrid_handoff_statement := by
  intro α _ _ _ k h h' req dt split ga al hh
  obtain ⟨e', g', fc', r', pg, pr, -, h2, h3, h4, hsum, hcase, rfl⟩ :=
    hybSolve_ok k h h' req dt split ga al hh
  obtain ⟨eg, -, -, -, rfl⟩ := genReq_ok h.gen g' pg ga dt h2
  obtain ⟨er, -, rfl⟩ := resSolve_ok k h.res r' pr 0 dt h4
  obtain ⟨ef, -, -, -, rfl⟩ := fcSolve_ok k h.fc fc' _ dt true al h3
  refine ⟨by simpa [genNext, resNext] using hsum, by simp [fcNext, genNext], by simp [resNext],
    by simp [genNext], fun hle => ?_⟩
  rcases hcase with ⟨hpos, -⟩ | ⟨-, hz⟩
  · exact absurd hle (not_le.mpr hpos)
  · simp [genNext, hz]

/-- **The battery's share** of a traction step never exceeds the propulsion limit published for the
    step, whatever the split; for a split in [0,1] it is also at most the drivetrain's demand (the
    generator is never asked for negative power because of the split). -/
def C08_hybrid_res_share_le_max_statement : Prop :=
  ∀ (α : Type) [Field α] [LinearOrder α] [IsStrictOrderedRing α] (resMax pin split : α),
    fromRes resMax pin split ≤ resMax ∧
    (0 ≤ pin → 0 ≤ split → fromRes resMax pin split ≤ pin) ∧
    (0 ≤ resMax → 0 ≤ pin → split ≤ 1 → 0 ≤ fromRes resMax pin split)

theorem C08_hybrid_res_share_le_max : C08_hybrid_res_share_le_max_statement := by
  intro α _ _ _ resMax pin split
  simp only [fromRes, mn_eq_min]
  refine ⟨min_le_left _ _, fun hp hs => ?_, fun hr hp hs => ?_⟩
  · have : pin * (1 - split) ≤ pin := by nlinarith
    exact le_trans (min_le_right _ _) this
  · exact le_min hr (mul_nonneg hp (by linarith))

/-- **Unit ledger of a hybrid** (the C01 ledger for the locomotive type C01's statement leaves out):
    in every accepted step, for every split, fuel power plus battery chemical power equals wheel power
    plus dynamic-braking power plus the generator's auxiliary load plus the losses reported by engine,
    generator, battery and drivetrain.  `hreg` is the forced hypothesis of `C01_edrv_balance`
    (established by `set_cur_pwr_max_out` inside a simulation step). -/
def C08_hybrid_ledger_statement : Prop :=
  ∀ (α : Type) [Field α] [LinearOrder α] [IsStrictOrderedRing α]
    (k : Consts α) (h h' : Hybrid α) (req dt split ga : α) (al : Bool),
    HybOK h → 0 ≤ ga → 0 ≤ h.edrv.state.pwrMechRegenMax →
    hybSolve k h req dt al split ga = .ok h' →
      h'.fc.state.pwrFuel + h'.res.state.pwrOutChemical =
        req + h'.edrv.state.pwrMechDynBrake + ga +
        (h'.fc.state.pwrLoss + h'.gen.state.pwrLoss + h'.res.state.pwrLoss + h'.edrv.state.pwrLoss)

theorem C08_hybrid_ledger : C08_hybrid_ledger_statement := by
  intro α _ _ _ k h h' req dt split ga al hok hga hreg hh
  obtain ⟨-, ⟨-, -, r3, e3⟩, -, -, -⟩ := C08_hybrid_step α k h h' req dt split ga al hok hga hh
  obtain ⟨hsum, hshaft, haux, hgaux, -⟩ := C08_hybrid_handoff α k h h' req dt split ga al hh
  obtain ⟨e', g', fc', r', pg, pr, h1, h2, h3, h4, -, -, rfl⟩ := hybSolve_ok k h h' req dt split ga al hh
  obtain ⟨f1, -⟩ := Altrios.Proofs.C01.C01_fc_balance k h.fc fc' _ dt true al h3
  obtain ⟨g1, -, -⟩ := Altrios.Proofs.C01.C01_gen_balance h.gen g' pg ga dt h2
  obtain ⟨q1, -, -, q4⟩ := Altrios.Proofs.C01.C01_res_balance k h.res r' pr 0 dt h4
  obtain ⟨m1, -⟩ := Altrios.Proofs.C01.C01_edrv_mech h.edrv e' req dt h1
  have b1 := Altrios.Proofs.C01.C01_edrv_balance h.edrv e' req dt h1 hreg e3.1.1 e3.1.2
  have q5 := q4 r3.1.1 r3.1.2
  simp only at hsum hshaft haux hgaux r3 e3 ⊢
  linarith

/-- **Search interval**: both ends of `gss_bounds` lie in [0,1]; when battery and generator limits
    together cover the demand (`resMax + genMax ≥ pin > 0`, `resMax, genMax ≥ 0`) the interval is not
    inverted, so the mean used for a narrow interval and any point of it is a split in [0,1]. -/
def C08_hybrid_gss_bounds_statement : Prop :=
  ∀ (α : Type) [Field α] [LinearOrder α] [IsStrictOrderedRing α] (resMax genMax pin : α),
    (0 ≤ (gssBounds resMax genMax pin).1 ∧ (gssBounds resMax genMax pin).1 ≤ 1 ∧
     0 ≤ (gssBounds resMax genMax pin).2 ∧ (gssBounds resMax genMax pin).2 ≤ 1) ∧
    (0 < pin → pin ≤ resMax + genMax → (gssBounds resMax genMax pin).1 ≤ (gssBounds resMax genMax pin).2)

theorem clamp01_range (x : α) : 0 ≤ clamp01 x ∧ clamp01 x ≤ 1 := by
  unfold clamp01
  split_ifs with h1 h2
  · exact ⟨le_refl _, zero_le_one⟩
  · exact ⟨zero_le_one, le_refl _⟩
  · exact ⟨not_lt.mp h1, not_lt.mp h2⟩

theorem clamp01_mono {x y : α} (h : x ≤ y) : clamp01 x ≤ clamp01 y := by
  unfold clamp01
  split_ifs <;> linarith

theorem C08_hybrid_gss_bounds : C08_hybrid_gss_bounds_statement := by
  intro α _ _ _ resMax genMax pin
  refine ⟨⟨(clamp01_range _).1, (clamp01_range _).2, (clamp01_range _).1, (clamp01_range _).2⟩,
    fun hp hsum => ?_⟩
  simp only [gssBounds]
  apply clamp01_mono
  have : 1 - resMax / pin = (pin - resMax) / pin := by field_simp
  rw [this]
  exact div_le_div_of_nonneg_right (by linarith) hp.le

/-- **Through the locomotive wrapper**: an accepted hybrid arm of
    `Locomotive::solve_energy_consumption` leaves every component within the second law and reports
    `pwr_out = mechanical propulsion − dynamic braking`. -/
def C08_hybrid_loco_step_statement : Prop :=
  ∀ (α : Type) [Field α] [LinearOrder α] [IsStrictOrderedRing α]
    (k : Consts α) (l l' : HLoco α) (req dt split ga : α),
    HybOK l.h → 0 ≤ ga →
    hlocoSolve k l req dt split ga = .ok l' →
      HybParams l.h l'.h ∧ HybStepOK l'.h ∧
      l'.state.pwrOut = l'.h.edrv.state.pwrMechPropOut - l'.h.edrv.state.pwrMechDynBrake ∧
      l'.state.energyOut = l.state.energyOut + l'.state.pwrOut * dt ∧
      (0 ≤ dt → HybEnergyLE l.h l'.h)

theorem C08_hybrid_loco_step : C08_hybrid_loco_step_statement := by
  intro α _ _ _ k l l' req dt split ga hok hga hh
  unfold hlocoSolve at hh
  simp only [bind, pure, bind_ok_iff] at hh
  obtain ⟨h', hs, hl⟩ := hh
  cases hl
  obtain ⟨p, s, -, -, e⟩ := C08_hybrid_step α k l.h h' req dt split ga l.assertLimits hok hga hs
  exact ⟨p, s, rfl, rfl, e⟩

/-- **The hybrid arm ignores `engine_on`.**  Model-level reading of the source ("TODO: add `engine_on`
    and `pwr_aux` here as inputs"): with zero demand an accepted hybrid step burns exactly its idle fuel
    plus the fuel for the hard-coded generator load, whatever the engine command was. Full-strength C08
    ("a locomotive whose engine is commanded off consumes no fuel") is therefore FALSE of hybrids;
    the witness below is replayed on the implementation (known finding C08-hybrid-ignores-engine-off). -/
def C08_hybrid_engine_off_statement : Prop :=
  ∀ (k : Consts ℚ) (l l' : HLoco ℚ) (dt split ga : ℚ),
    hlocoSimStep k l 0 dt (some false) split ga = .ok l' → l'.h.fc.state.pwrFuel = 0

/-! ### instances over ℚ (hypotheses discharged; the engine-off witness) -/
section Examples

def hybQ : Hybrid ℚ := { fc := fcQ, gen := genQ, res := resQ, edrv := edrvQ, split := 1 / 2 }
def hlocoQ : HLoco ℚ :=
  { h := hybQ, state := locoStateQ, assertLimits := true, pwrAuxOffset := 5, pwrAuxTractionCoeff := 0 }

theorem hybQ_ok : HybOK hybQ :=
  ⟨⟨fcQ_map, by decide +kernel, by decide +kernel⟩, ⟨genQ_map, by decide +kernel⟩,
    ⟨resQ_table, by decide +kernel⟩, ⟨edrvQ_map, by decide +kernel⟩⟩

/-- non-vacuity of `C08_hybrid_step`: a traction step (battery and generator share the demand) and a
    braking step (battery takes the regenerated power, generator idles) are accepted -/
example : (hlocoSimStep kQ hlocoQ 300 1 none (1 / 2) 50).isOk = true := by decide +kernel
example : (hlocoSimStep kQ hlocoQ 300 1 none (1 / 4) 50).isOk = true := by decide +kernel
example : (hlocoSimStep kQ hlocoQ (-200) 1 none (1 / 2) 50).isOk = true := by decide +kernel

/-- non-vacuity of `C08_hybrid_ledger`'s forced hypothesis -/
example : 0 ≤ hybQ.edrv.state.pwrMechRegenMax := by decide +kernel

example : ∃ h', hybSolve kQ hybQ 300 1 true (1 / 2) 50 = .ok h' ∧ HybStepOK h' := by
  obtain ⟨h', hh⟩ := exists_of_isOk (r := hybSolve kQ hybQ 300 1 true (1 / 2) 50) (by decide +kernel)
  exact ⟨h', hh, (C08_hybrid_step ℚ kQ hybQ h' 300 1 (1 / 2) 50 true hybQ_ok (by decide +kernel) hh).2.1⟩

/-- **Counterexample to the engine-off clause for hybrids**: commanded off with zero demand, the step
    is accepted and the engine still burns fuel (idle fuel + the fuel for the hard-coded generator load). -/
theorem C08_hybrid_engine_off_counterexample : ¬ C08_hybrid_engine_off_statement := by
  intro hst
  obtain ⟨l', hl, hp⟩ := okAnd_elim (r := hlocoSimStep kQ hlocoQ 0 1 (some false) (1 / 2) 50)
    (p := fun l' => decide (0 < l'.h.fc.state.pwrFuel)) (by decide +kernel)
  have h0 := hst kQ hlocoQ l' 1 (1 / 2) 50 hl
  have hpos := of_decide_eq_true hp
  rw [h0] at hpos
  exact lt_irrefl _ hpos

end Examples

end Altrios.Proofs.C08Hyb
