import Altrios.Hybrid
import Proofs.C08
import Proofs.C01
/-
  C08 for the third locomotive type (`HybridLoco`, model `Altrios/Hybrid.lean`):
  every component of a hybrid obeys the second law in every accepted step, FOR EVERY SPLIT the
  controller or the golden-section search may choose (`split` is universally quantified), and the
  unit's internal hand-offs balance.

    * `hybSolve_ok`                 : what an accepted `HybridLoco::solve_energy_consumption` ran
    * `C08_hybrid_step`             : η ∈ (0,1], loss ≥ 0, out ≤ in for fc / gen / res / edrv; dynamic-brake
                                      clauses; cumulative fuel / loss / dyn-brake energies do not decrease
    * `C08_hybrid_handoff`          : gen prop out + res prop out = edrv elec in; engine shaft = gen mech in
    * `C08_hybrid_res_share_le_max` : the battery's share never exceeds its published propulsion limit and
                                      never exceeds the drivetrain's demand when `split ≤ 1`
    * `C08_hybrid_gss_bounds`       : the interval handed to the search lies in [0,1]
    * `C08_hybrid_ledger`           : fuel + battery chemical power = wheel + dynamic braking + generator aux
                                      + the four reported losses (the C01 ledger, for the type C01 leaves out)
    * `C08_hybrid_loco_step`        : the same through `Locomotive::solve_energy_consumption`'s hybrid arm,
                                      with `pwr_out = prop − dyn brake = request`
    * `C08_hybrid_ignores_engine_off` : the hybrid arm never reads `engine_on` (the model has no such
                                      parameter): a hybrid "commanded off" burns its idle fuel — the known
                                      finding C08-hybrid-ignores-engine-off; `C08_hybrid_engine_off_counterexample`
                                      is the ℚ witness.
-/
set_option linter.unusedSectionVars false
namespace Altrios.Proofs.C08Hyb
open Altrios Altrios.Interp Altrios.PT Altrios.Hyb Altrios.Proofs.Basic Altrios.Proofs.InterpL
  Altrios.Proofs.C08

variable {α : Type} [Field α] [LinearOrder α] [IsStrictOrderedRing α]

def HybOK (h : Hybrid α) : Prop := FCOK h.fc ∧ GenOK h.gen ∧ ResOK h.res ∧ EdrvOK h.edrv
def HybStepOK (h : Hybrid α) : Prop :=
  FCStateOK h.fc.state ∧ GenStateOK h.gen.state ∧ ResStateOK h.res.state ∧ EdrvStateOK h.edrv.state
def HybEnergyLE (h h' : Hybrid α) : Prop :=
  FCEnergyLE h.fc.state h'.fc.state ∧ GenEnergyLE h.gen.state h'.gen.state ∧
  ResEnergyLE h.res.state h'.res.state ∧ EdrvEnergyLE h.edrv.state h'.edrv.state
def HybParams (h h' : Hybrid α) : Prop :=
  FCParams h.fc h'.fc ∧ GenParams h.gen h'.gen ∧ ResParams h.res h'.res ∧ EdrvParams h.edrv h'.edrv

/-- what an accepted hybrid solve ran: the drivetrain first, then — by the sign of its electrical
    demand — generator + engine + battery with the battery's share `fromRes`, or battery (all of the
    regenerated power) + idling generator + engine -/
theorem hybSolve_ok (k : Consts α) (h h' : Hybrid α) (req dt split ga : α) (al : Bool)
    (hh : hybSolve k h req dt al split ga = .ok h') :
    ∃ e' g' fc' r' pg pr, edrvReq h.edrv req dt = .ok e' ∧
      genReq h.gen pg ga dt = .ok g' ∧
      fcSolve k h.fc g'.state.pwrMechIn dt true al = .ok fc' ∧
      resSolve k h.res pr 0 dt = .ok r' ∧
      pg + pr = e'.state.pwrElecPropIn ∧
      ((0 < e'.state.pwrElecPropIn ∧ pr = fromRes h.res.state.pwrPropOutMax e'.state.pwrElecPropIn split) ∨
       (e'.state.pwrElecPropIn ≤ 0 ∧ pg = 0)) ∧
      h' = { h with fc := fc', gen := g', res := r', edrv := e', split := split } := by
  unfold hybSolve at hh
  simp only [bind, pure, bind_ok_iff] at hh
  obtain ⟨e', he, hrest⟩ := hh
  split_ifs at hrest with hpos
  · simp only [bind_ok_iff] at hrest
    obtain ⟨g', hg, fc', hf, r', hr, hres⟩ := hrest
    cases hres
    exact ⟨e', g', fc', r', _, _, he, hg, hf, hr, by ring, Or.inl ⟨hpos, rfl⟩, rfl⟩
  · simp only [bind_ok_iff] at hrest
    obtain ⟨r', hr, g', hg, fc', hf, hres⟩ := hrest
    cases hres
    exact ⟨e', g', fc', r', _, _, he, hg, hf, hr, by ring, Or.inr ⟨not_lt.mp hpos, rfl⟩, rfl⟩

/-- **Hybrid, one step: every component obeys the second law, for every split.** -/
def C08_hybrid_step_statement : Prop :=
  ∀ (α : Type) [Field α] [LinearOrder α] [IsStrictOrderedRing α]
    (k : Consts α) (h h' : Hybrid α) (req dt split ga : α) (al : Bool),
    HybOK h →          -- the component hypotheses of `C08_fc/gen/res/edrv_step` (maps in (0,1], guards)
    0 ≤ ga →           -- forced: the generator's auxiliary load (the literal 50 kW) is not negative
    hybSolve k h req dt al split ga = .ok h' →
      HybParams h h' ∧ HybStepOK h' ∧ h'.edrv.state.pwrOutReq = req ∧ h'.split = split ∧
      (0 ≤ dt → HybEnergyLE h h')

theorem C08_hybrid_step : C08_hybrid_step_statement := by
  intro α _ _ _ k h h' req dt split ga al ⟨hfc, hg, hr, he⟩ hga hh
  obtain ⟨e', g', fc', r', pg, pr, h1, h2, h3, h4, -, -, rfl⟩ := hybSolve_ok k h h' req dt split ga al hh
  obtain ⟨e1, -, e3, e4⟩ := C08_edrv_step α h.edrv e' req dt he.1 he.2 h1
  have hpg : 0 ≤ pg := by
    obtain ⟨eta, hp, -, -, -⟩ := genReq_ok h.gen g' pg ga dt h2
    exact hp
  obtain ⟨g3, g4⟩ := C08_gen_step α h.gen g' pg ga dt hg.1 hg.2 (by linarith) h2
  obtain ⟨f3, f4⟩ := C08_fc_step α k h.fc fc' _ dt true al hfc.1 hfc.2.1 hfc.2.2 h3
  obtain ⟨-, r3, r4⟩ := C08_res_step α k h.res r' pr 0 dt hr.1 hr.2 h4
  exact ⟨⟨fcSolve_params k h.fc fc' _ dt true al h3, genReq_params h.gen g' pg ga dt h2,
      resSolve_params k h.res r' pr 0 dt h4, edrvReq_params h.edrv e' req dt h1⟩,
    ⟨f3, g3, r3, e3⟩, e1, rfl, fun hdt => ⟨f4 hdt, g4 hdt, r4 hdt, e4 hdt⟩⟩

/-- **Hand-offs inside the hybrid**: what the drivetrain draws electrically is exactly what generator
    and battery deliver for propulsion (both traction directions); the engine's shaft power is the
    generator's mechanical input; the battery carries no auxiliary load. -/
def C08_hybrid_handoff_statement : Prop :=
  ∀ (α : Type) [Field α] [LinearOrder α] [IsStrictOrderedRing α]
    (k : Consts α) (h h' : Hybrid α) (req dt split ga : α) (al : Bool),
    hybSolve k h req dt al split ga = .ok h' →
      h'.gen.state.pwrElecPropOut + h'.res.state.pwrOutPropulsion = h'.edrv.state.pwrElecPropIn ∧
      h'.fc.state.pwrBrake = h'.gen.state.pwrMechIn ∧
      h'.res.state.pwrAux = 0 ∧ h'.gen.state.pwrElecAux = ga ∧
      (h'.edrv.state.pwrElecPropIn ≤ 0 → h'.gen.state.pwrElecPropOut = 0)

theorem C08_hybrid_handoff : C08_hybrid_handoff_statement := by
  intro α _ _ _ k h h' req dt split ga al hh
  obtain ⟨e', g', fc', r', pg, pr, -, h2, h3, h4, hsum, hcase, rfl⟩ :=
    hybSolve_ok k h h' req dt split ga al hh
  obtain ⟨eg, -, -, -, rfl⟩ := genReq_ok h.gen g' pg ga dt h2
  obtain ⟨er, -, rfl⟩ := resSolve_ok k h.res r' pr 0 dt h4
  obtain ⟨ef, -, -, -, rfl⟩ := fcSolve_ok k h.fc fc' _ dt true al h3
  refine ⟨by simpa [genNext, resNext] using hsum, by simp [fcNext, genNext], by simp [resNext],
    by simp [genNext], fun hle => ?_⟩
  rcases hcase with ⟨hpos, -⟩ | ⟨-, hz⟩
  · exact absurd hle (not_le.mpr hpos)
  · simp [genNext, hz]

/-- **The battery's share** of a traction step never exceeds the propulsion limit published for the
    step, whatever the split; for a split in [0,1] it is also at most the drivetrain's demand (the
    generator is never asked for negative power because of the split). -/
def C08_hybrid_res_share_le_max_statement : Prop :=
  ∀ (α : Type) [Field α] [LinearOrder α] [IsStrictOrderedRing α] (resMax pin split : α),
    fromRes resMax pin split ≤ resMax ∧
    (0 ≤ pin → 0 ≤ split → fromRes resMax pin split ≤ pin) ∧
    (0 ≤ resMax → 0 ≤ pin → split ≤ 1 → 0 ≤ fromRes resMax pin split)

theorem C08_hybrid_res_share_le_max : C08_hybrid_res_share_le_max_statement := by
  intro α _ _ _ resMax pin split
  simp only [fromRes, mn_eq_min]
  refine ⟨min_le_left _ _, fun hp hs => ?_, fun hr hp hs => ?_⟩
  · have : pin * (1 - split) ≤ pin := by nlinarith
    exact le_trans (min_le_right _ _) this
  · exact le_min hr (mul_nonneg hp (by linarith))

/-- **Unit ledger of a hybrid** (the C01 ledger for the locomotive type C01's statement leaves out):
    in every accepted step, for every split, fuel power plus battery chemical power equals wheel power
    plus dynamic-braking power plus the generator's auxiliary load plus the losses reported by engine,
    generator, battery and drivetrain.  `hreg` is the forced hypothesis of `C01_edrv_balance`
    (established by `set_cur_pwr_max_out` inside a simulation step). -/
def C08_hybrid_ledger_statement : Prop :=
  ∀ (α : Type) [Field α] [LinearOrder α] [IsStrictOrderedRing α]
    (k : Consts α) (h h' : Hybrid α) (req dt split ga : α) (al : Bool),
    HybOK h → 0 ≤ ga → 0 ≤ h.edrv.state.pwrMechRegenMax →
    hybSolve k h req dt al split ga = .ok h' →
      h'.fc.state.pwrFuel + h'.res.state.pwrOutChemical =
        req + h'.edrv.state.pwrMechDynBrake + ga +
        (h'.fc.state.pwrLoss + h'.gen.state.pwrLoss + h'.res.state.pwrLoss + h'.edrv.state.pwrLoss)

theorem C08_hybrid_ledger : C08_hybrid_ledger_statement := by
  intro α _ _ _ k h h' req dt split ga al hok hga hreg hh
  obtain ⟨-, ⟨-, -, r3, e3⟩, -, -, -⟩ := C08_hybrid_step α k h h' req dt split ga al hok hga hh
  obtain ⟨hsum, hshaft, haux, hgaux, -⟩ := C08_hybrid_handoff α k h h' req dt split ga al hh
  obtain ⟨e', g', fc', r', pg, pr, h1, h2, h3, h4, -, -, rfl⟩ := hybSolve_ok k h h' req dt split ga al hh
  obtain ⟨f1, -⟩ := Altrios.Proofs.C01.C01_fc_balance k h.fc fc' _ dt true al h3
  obtain ⟨g1, -, -⟩ := Altrios.Proofs.C01.C01_gen_balance h.gen g' pg ga dt h2
  obtain ⟨q1, -, -, q4⟩ := Altrios.Proofs.C01.C01_res_balance k h.res r' pr 0 dt h4
  obtain ⟨m1, -⟩ := Altrios.Proofs.C01.C01_edrv_mech h.edrv e' req dt h1
  have b1 := Altrios.Proofs.C01.C01_edrv_balance h.edrv e' req dt h1 hreg e3.1.1 e3.1.2
  have q5 := q4 r3.1.1 r3.1.2
  simp only at hsum hshaft haux hgaux r3 e3 ⊢
  linarith

/-- **Search interval**: both ends of `gss_bounds` lie in [0,1]; when battery and generator limits
    together cover the demand (`resMax + genMax ≥ pin > 0`, `resMax, genMax ≥ 0`) the interval is not
    inverted, so the mean used for a narrow interval and any point of it is a split in [0,1]. -/
def C08_hybrid_gss_bounds_statement : Prop :=
  ∀ (α : Type) [Field α] [LinearOrder α] [IsStrictOrderedRing α] (resMax genMax pin : α),
    (0 ≤ (gssBounds resMax genMax pin).1 ∧ (gssBounds resMax genMax pin).1 ≤ 1 ∧
     0 ≤ (gssBounds resMax genMax pin).2 ∧ (gssBounds resMax genMax pin).2 ≤ 1) ∧
    (0 < pin → pin ≤ resMax + genMax → (gssBounds resMax genMax pin).1 ≤ (gssBounds resMax genMax pin).2)

theorem clamp01_range (x : α) : 0 ≤ clamp01 x ∧ clamp01 x ≤ 1 := by
  unfold clamp01
  split_ifs with h1 h2
  · exact ⟨le_refl _, zero_le_one⟩
  · exact ⟨zero_le_one, le_refl _⟩
  · exact ⟨not_lt.mp h1, not_lt.mp h2⟩

theorem clamp01_mono {x y : α} (h : x ≤ y) : clamp01 x ≤ clamp01 y := by
  unfold clamp01
  split_ifs <;> linarith

theorem C08_hybrid_gss_bounds : C08_hybrid_gss_bounds_statement := by
  intro α _ _ _ resMax genMax pin
  refine ⟨⟨(clamp01_range _).1, (clamp01_range _).2, (clamp01_range _).1, (clamp01_range _).2⟩,
    fun hp hsum => ?_⟩
  simp only [gssBounds]
  apply clamp01_mono
  have : 1 - resMax / pin = (pin - resMax) / pin := by field_simp
  rw [this]
  exact div_le_div_of_nonneg_right (by linarith) hp.le

/-- **Through the locomotive wrapper**: an accepted hybrid arm of
    `Locomotive::solve_energy_consumption` leaves every component within the second law and reports
    `pwr_out = mechanical propulsion − dynamic braking`. -/
def C08_hybrid_loco_step_statement : Prop :=
  ∀ (α : Type) [Field α] [LinearOrder α] [IsStrictOrderedRing α]
    (k : Consts α) (l l' : HLoco α) (req dt split ga : α),
    HybOK l.h → 0 ≤ ga →
    hlocoSolve k l req dt split ga = .ok l' →
      HybParams l.h l'.h ∧ HybStepOK l'.h ∧
      l'.state.pwrOut = l'.h.edrv.state.pwrMechPropOut - l'.h.edrv.state.pwrMechDynBrake ∧
      l'.state.energyOut = l.state.energyOut + l'.state.pwrOut * dt ∧
      (0 ≤ dt → HybEnergyLE l.h l'.h)

theorem C08_hybrid_loco_step : C08_hybrid_loco_step_statement := by
  intro α _ _ _ k l l' req dt split ga hok hga hh
  unfold hlocoSolve at hh
  simp only [bind, pure, bind_ok_iff] at hh
  obtain ⟨h', hs, hl⟩ := hh
  cases hl
  obtain ⟨p, s, -, -, e⟩ := C08_hybrid_step α k l.h h' req dt split ga l.assertLimits hok hga hs
  exact ⟨p, s, rfl, rfl, e⟩

/-! ### whole hybrid simulations -/

/-- A whole hybrid simulation: the left fold of `LocomotiveSimulation::solve_step` over the trace of
    `(pwr_out_req, dt, engine_on, split)` samples — `split` is the value the controller / the search
    ends that step with — aborting at the first rejected step. -/
def hlocoWalk {β : Type} [Add β] [Sub β] [Mul β] [Div β] [Neg β] [LT β] [LE β]
    [DecidableLT β] [DecidableLE β] [OfNat β 0] [OfNat β 1]
    (k : Consts β) (ga : β) (l : HLoco β) : List (β × β × Option Bool × β) → Res (HLoco β)
  | [] => .ok l
  | (req, dt, eo, split) :: t => (hlocoSimStep k l req dt eo split ga).bind fun l' => hlocoWalk k ga l' t

theorem hlocoWalk_cons (k : Consts α) (ga : α) (l : HLoco α) (req dt : α) (eo : Option Bool) (split : α)
    (t : List (α × α × Option Bool × α)) :
    hlocoWalk k ga l ((req, dt, eo, split) :: t) =
      (hlocoSimStep k l req dt eo split ga).bind fun l' => hlocoWalk k ga l' t := rfl

theorem hlocoWalk_append (k : Consts α) (ga : α) (l l2 : HLoco α) (t1 t2 : List (α × α × Option Bool × α)) :
    hlocoWalk k ga l (t1 ++ t2) = .ok l2 ↔ ∃ l1, hlocoWalk k ga l t1 = .ok l1 ∧ hlocoWalk k ga l1 t2 = .ok l2 := by
  induction t1 generalizing l with
  | nil => simp [hlocoWalk]
  | cons s t ih =>
    obtain ⟨req, dt, eo, split⟩ := s
    simp only [List.cons_append, hlocoWalk_cons, bind_ok_iff, ih]
    constructor
    · rintro ⟨l', h1, l1, h2, h3⟩; exact ⟨l1, ⟨l', h1, h2⟩, h3⟩
    · rintro ⟨l1, ⟨l', h1, h2⟩, h3⟩; exact ⟨l', h1, l1, h2, h3⟩

def HybCarry (h h' : Hybrid α) : Prop :=
  FCCarry h.fc h'.fc ∧ GenCarry h.gen h'.gen ∧ ResCarry h.res h'.res ∧ EdrvCarry h.edrv h'.edrv

theorem hybSetCurMax_carry (k : Consts α) (h h' : Hybrid α) (aux dt : α)
    (hh : hybSetCurMax k h aux dt = .ok h') : HybCarry h h' := by
  unfold hybSetCurMax at hh
  simp only [bind, pure, bind_ok_iff] at hh
  obtain ⟨r', hr, fc', hf, g', hg, e', he, e'', he', hres⟩ := hh
  cases hres
  obtain ⟨-, cf⟩ := fcSetCurMax_carry k h.fc fc' dt hf
  have cg := genSetCurMax_carry h.gen g' _ _ hg
  have cr := resSetCurMax_carry k h.res r' _ _ _ hr
  have ce := (edrvSetCurMax_carry h.edrv e' _ he).trans (edrvSetRegenMax_carry e' e'' _ he')
  exact ⟨cf, cg, cr, ce⟩

theorem HybCarry.params {a b : Hybrid α} (h : HybCarry a b) : HybParams a b :=
  ⟨h.1.1, h.2.1.1, h.2.2.1.1, h.2.2.2.1⟩

theorem HybCarry.energy {a b : Hybrid α} (h : HybCarry a b) : HybEnergyLE a b := by
  obtain ⟨⟨-, a1, a2⟩, ⟨-, a3⟩, ⟨-, a4⟩, -, a5, a6, a7⟩ := h
  exact ⟨⟨a1.ge, a2.ge⟩, a3.ge, a4.ge, a5.ge, a6.ge, a7.ge⟩

theorem HybParams.trans {a b c : Hybrid α} (h1 : HybParams a b) (h2 : HybParams b c) : HybParams a c :=
  ⟨h1.1.trans h2.1, h1.2.1.trans h2.2.1, h1.2.2.1.trans h2.2.2.1, h1.2.2.2.trans h2.2.2.2⟩

theorem HybParams.refl (a : Hybrid α) : HybParams a a := by
  simp [HybParams, FCParams, GenParams, EdrvParams, ResParams]

theorem HybOK.of_params {a b : Hybrid α} (h : HybOK a) (p : HybParams a b) : HybOK b :=
  ⟨h.1.of_params p.1, h.2.1.of_params p.2.1, h.2.2.1.of_params p.2.2.1, h.2.2.2.of_params p.2.2.2⟩

theorem HybEnergyLE.trans {a b c : Hybrid α} (h1 : HybEnergyLE a b) (h2 : HybEnergyLE b c) :
    HybEnergyLE a c := by
  simp only [HybEnergyLE, FCEnergyLE, GenEnergyLE, EdrvEnergyLE, ResEnergyLE] at h1 h2 ⊢
  obtain ⟨⟨a1, a2⟩, a3, a4, a5, a6, a7⟩ := h1
  obtain ⟨⟨b1, b2⟩, b3, b4, b5, b6, b7⟩ := h2
  exact ⟨⟨a1.trans b1, a2.trans b2⟩, a3.trans b3, a4.trans b4, a5.trans b5, a6.trans b6, a7.trans b7⟩

theorem HybEnergyLE.refl (a : Hybrid α) : HybEnergyLE a a := by
  simp [HybEnergyLE, FCEnergyLE, GenEnergyLE, EdrvEnergyLE, ResEnergyLE]

/-- one accepted simulation step of a hybrid: parameters kept, every component within the second law,
    cumulative energies not decreased (`0 ≤ dt`), wheel power = request up to the step's own tolerance -/
theorem hlocoSimStep_step (k : Consts α) (l l' : HLoco α) (req dt : α) (eo : Option Bool) (split ga : α)
    (hok : HybOK l.h) (hga : 0 ≤ ga) (hs : hlocoSimStep k l req dt eo split ga = .ok l') :
    HybParams l.h l'.h ∧ HybOK l'.h ∧ HybStepOK l'.h ∧ l'.h.edrv.state.pwrOutReq = req ∧
      l'.h.split = split ∧ (0 ≤ dt → HybEnergyLE l.h l'.h) := by
  unfold hlocoSimStep at hs
  simp only [bind, pure, bind_ok_iff, ensure_ok_iff, exists_const] at hs
  obtain ⟨l1, h1, l2, h2, -, hr⟩ := hs
  cases hr
  unfold hlocoSetCurMax at h1
  simp only [bind, pure, bind_ok_iff] at h1
  obtain ⟨hy1, hc, hl1⟩ := h1
  cases hl1
  have c1 := hybSetCurMax_carry k _ hy1 _ dt hc
  have ok1 : HybOK hy1 := hok.of_params c1.params
  unfold hlocoSolve at h2
  simp only [bind, pure, bind_ok_iff] at h2
  obtain ⟨hy2, hsol, hl2⟩ := h2
  cases hl2
  obtain ⟨p2, s2, rq, sp, e2⟩ := C08_hybrid_step α k hy1 hy2 req dt split ga _ ok1 hga hsol
  have p : HybParams l.h hy2 := c1.params.trans p2
  exact ⟨p, hok.of_params p, s2, rq, sp, fun hdt => c1.energy.trans (e2 hdt)⟩

/-- **Whole hybrid traces, for every sequence of splits**: for every decomposition `t1 ++ t2` of an
    accepted walk the prefix is accepted; every cumulative fuel / loss / dynamic-braking energy of
    engine, generator, battery and drivetrain satisfies `start ≤ after t1 ≤ end`; maps and ratings are
    kept; and after the last step of any non-empty accepted prefix every component obeys the
    second law — whatever split the controller or the search chose in each step. -/
def C08_hybrid_walk_statement : Prop :=
  ∀ (α : Type) [Field α] [LinearOrder α] [IsStrictOrderedRing α]
    (k : Consts α) (ga : α) (l l2 : HLoco α) (t1 t2 : List (α × α × Option Bool × α)),
    HybOK l.h → 0 ≤ ga →
    (∀ s ∈ t1 ++ t2, 0 ≤ s.2.1) →         -- forced: every time step is non-negative
    hlocoWalk k ga l (t1 ++ t2) = .ok l2 →
      ∃ l1, hlocoWalk k ga l t1 = .ok l1 ∧ HybEnergyLE l.h l1.h ∧ HybEnergyLE l1.h l2.h ∧
        HybParams l.h l2.h ∧ HybOK l2.h ∧ (t1 ++ t2 ≠ [] → HybStepOK l2.h)

theorem hlocoWalk_inv (k : Consts α) (ga : α) (l l' : HLoco α) (t : List (α × α × Option Bool × α))
    (hok : HybOK l.h) (hga : 0 ≤ ga) (hdt : ∀ s ∈ t, 0 ≤ s.2.1) (h : hlocoWalk k ga l t = .ok l') :
    HybParams l.h l'.h ∧ HybEnergyLE l.h l'.h ∧ (t ≠ [] → HybStepOK l'.h) := by
  induction t generalizing l with
  | nil => cases h; exact ⟨HybParams.refl _, HybEnergyLE.refl _, fun hne => absurd rfl hne⟩
  | cons s t ih =>
    obtain ⟨req, dt, eo, split⟩ := s
    rw [hlocoWalk_cons, bind_ok_iff] at h
    obtain ⟨l1, h1, h2⟩ := h
    obtain ⟨p1, ok1, s1, -, -, e1⟩ := hlocoSimStep_step k l l1 req dt eo split ga hok hga h1
    obtain ⟨p2, e2, s2⟩ := ih l1 ok1 (fun s hs => hdt s (by simp [hs])) h2
    refine ⟨p1.trans p2, (e1 (hdt (req, dt, eo, split) (by simp))).trans e2, fun _ => ?_⟩
    cases t with
    | nil => cases h2; exact s1
    | cons s' t' => exact s2 (by simp)

theorem C08_hybrid_walk : C08_hybrid_walk_statement := by
  intro α _ _ _ k ga l l2 t1 t2 hok hga hdt h
  obtain ⟨l1, h1, h2⟩ := (hlocoWalk_append k ga l l2 t1 t2).mp h
  obtain ⟨p1, e1, -⟩ := hlocoWalk_inv k ga l l1 t1 hok hga (fun s hs => hdt s (List.mem_append_left _ hs)) h1
  obtain ⟨-, e2, -⟩ := hlocoWalk_inv k ga l1 l2 t2 (hok.of_params p1) hga
    (fun s hs => hdt s (List.mem_append_right _ hs)) h2
  obtain ⟨p, -, s⟩ := hlocoWalk_inv k ga l l2 _ hok hga hdt h
  exact ⟨l1, h1, e1, e2, p, hok.of_params p, s⟩

/-- **The hybrid arm ignores `engine_on`.**  Model-level reading of the source ("TODO: add `engine_on`
    and `pwr_aux` here as inputs"): with zero demand an accepted hybrid step burns exactly its idle fuel
    plus the fuel for the hard-coded generator load, whatever the engine command was. Full-strength C08
    ("a locomotive whose engine is commanded off consumes no fuel") is therefore FALSE of hybrids;
    the witness below is replayed on the implementation (known finding C08-hybrid-ignores-engine-off). -/
def C08_hybrid_engine_off_statement : Prop :=
  ∀ (k : Consts ℚ) (l l' : HLoco ℚ) (dt split ga : ℚ),
    hlocoSimStep k l 0 dt (some false) split ga = .ok l' → l'.h.fc.state.pwrFuel = 0

/-! ### instances over ℚ (hypotheses discharged; the engine-off witness) -/
section Examples

def hybQ : Hybrid ℚ := { fc := fcQ, gen := genQ, res := resQ, edrv := edrvQ, split := 1 / 2 }
def hlocoQ : HLoco ℚ :=
  { h := hybQ, state := locoStateQ, assertLimits := true, pwrAuxOffset := 5, pwrAuxTractionCoeff := 0 }

theorem hybQ_ok : HybOK hybQ :=
  ⟨⟨fcQ_map, by decide +kernel, by decide +kernel⟩, ⟨genQ_map, by decide +kernel⟩,
    ⟨resQ_table, by decide +kernel⟩, ⟨edrvQ_map, by decide +kernel⟩⟩

/-- non-vacuity of `C08_hybrid_step`: a traction step (battery and generator share the demand) and a
    braking step (battery takes the regenerated power, generator idles) are accepted -/
example : (hlocoSimStep kQ hlocoQ 300 1 none (1 / 2) 50).isOk = true := by decide +kernel
example : (hlocoSimStep kQ hlocoQ 300 1 none (1 / 4) 50).isOk = true := by decide +kernel
example : (hlocoSimStep kQ hlocoQ (-200) 1 none (1 / 2) 50).isOk = true := by decide +kernel

/-- non-vacuity of `C08_hybrid_ledger`'s forced hypothesis -/
example : 0 ≤ hybQ.edrv.state.pwrMechRegenMax := by decide +kernel

example : ∃ h', hybSolve kQ hybQ 300 1 true (1 / 2) 50 = .ok h' ∧ HybStepOK h' := by
  obtain ⟨h', hh⟩ := exists_of_isOk (r := hybSolve kQ hybQ 300 1 true (1 / 2) 50) (by decide +kernel)
  exact ⟨h', hh, (C08_hybrid_step ℚ kQ hybQ h' 300 1 (1 / 2) 50 true hybQ_ok (by decide +kernel) hh).2.1⟩

/-- non-vacuity of `C08_hybrid_walk`: a three-step trace with three different splits is accepted -/
example : (hlocoWalk kQ 50 hlocoQ [(300, 1, none, 1 / 2), (-200, 1, some true, 1 / 4), (100, 1 / 2, none, 3 / 4)]).isOk = true := by
  decide +kernel

/-- **Counterexample to the engine-off clause for hybrids**: commanded off with zero demand, the step
    is accepted and the engine still burns fuel (idle fuel + the fuel for the hard-coded generator load). -/
theorem C08_hybrid_engine_off_counterexample : ¬ C08_hybrid_engine_off_statement := by
  intro hst
  obtain ⟨l', hl, hp⟩ := okAnd_elim (r := hlocoSimStep kQ hlocoQ 0 1 (some false) (1 / 2) 50)
    (p := fun l' => decide (0 < l'.h.fc.state.pwrFuel)) (by decide +kernel)
  have h0 := hst kQ hlocoQ l' 1 (1 / 2) 50 hl
  have hpos := of_decide_eq_true hp
  rw [h0] at hpos
  exact lt_irrefl _ hpos

end Examples

end Altrios.Proofs.C08Hyb
