import Altrios.Powertrain
import Altrios.Consist
import Proofs.Lemmas.Basic
import Proofs.Lemmas.Limits
import Mathlib.Algebra.Order.Field.Basic
import Mathlib.Tactic.Linarith
import Mathlib.Tactic.Ring
import Mathlib.Tactic.FieldSimp
import Mathlib.Tactic.Positivity
import Mathlib.Tactic.SplitIfs
import Mathlib.Tactic.NormNum
/-
  C09 — "Successful steps respect ratings, transient limits, ramp rate and SOC window".

  Reading of "within": the code's own acceptance rule
      `almost_le(a, b, tol)  =  a < b·(1+tol) ∨ a < b + tol`      (`LimitsL.AlmostLe`)
      `almost_ge(a, b, tol)  =  a > b·(1−tol) ∨ a > b − tol`      (`LimitsL.AlmostGe`)
  with `tol = k.tol` (1e-3 in the crate), and the exact (`≤`) comparisons exactly where the code
  uses exact comparisons (generator, drivetrain, consist).

  Sections
    1. engine: published transient limit (ramp, floor, rating, sign)
    2. accepted component / locomotive-powertrain steps
    3. battery: published SOC-dependent limits and their closed form
    4. locomotive: published limits, accepted locomotive step
    5. consist
    6. SOC window (one step, forced step-size hypothesis, runs, locomotive-level invariance)

  Clauses that are FALSE of the model as literally stated (each with a `…_statement`, a
  `…_counterexample` over ℚ and the strongest true variant):
    * ramp clause without the floor `max(init, rating/10)`      `C09_fc_ramp_strict_counterexample`
    * "never above rating" when `pwr_out_max_init > rating`      `C09_fc_le_rating_counterexample`
    * drivetrain power within rating on the BRAKING side         `C09_edrv_abs_counterexample`
    * standalone unit: tractive power within the published limit `C09_loco_unit_limit_counterexample`
    * SOC window without a step-size bound                       `C09_soc_window_counterexample`
    * SOC window with a constant slack for bare battery calls    `C09_soc_run_const_slack_counterexample`
      (true again at the locomotive level: `C09_bel_soc_run`)
  Configuration hazards proved on the way: a degenerate SOC grid makes `set_cur_pwr_out_max` fail
  (`C09_res_degenerate_lo_err/hi_err`), a decreasing one can panic (`C09_res_decreasing_lo_panic`).
-/
set_option linter.unusedSectionVars false
namespace Altrios.Proofs.C09
open Altrios Altrios.Interp Altrios.PT Altrios.CS Altrios.Proofs.Basic Altrios.Proofs.LimitsL

variable {α : Type} [Field α] [LinearOrder α] [IsStrictOrderedRing α]

/-! ## Concrete `ℚ` inputs shared by the non-vacuity examples -/

/-- the crate's literals -/
def kQ : Consts ℚ := { tol := 1/1000, eps := 1/100000000, c005 := 1/20, ten := 10 }

def fcStQ : FCState ℚ :=
  { pwrOutMax := 0, eta := 0, pwrBrake := 100, pwrFuel := 0, pwrLoss := 0, pwrIdleFuel := 0,
    energyBrake := 0, energyFuel := 0, energyLoss := 0, energyIdleFuel := 0, engineOn := true }

/-- 1 kW engine, 20 s ramp lag, floor 50 W, previous shaft power 100 W, two-point efficiency map -/
def fcQ : FC ℚ :=
  { state := fcStQ, pwrOutMax := 1000, pwrOutMaxInit := 50, pwrRampLag := 20,
    fracInterp := [0, 1], etaInterp := [3/10, 2/5], pwrIdleFuel := 5 }

/-! ## 1. Engine: the published transient limit -/

/-- **C09.1a** the floor is `max(init, rating/10)`, written back into the parameter; nothing else
    of the configuration moves; the call requires `dt > 0`. -/
def C09_fc_init_statement : Prop :=
  ∀ (k : Consts α) (fc : FC α) (dt : α) (fc' : FC α), fcSetCurMax k fc dt = .ok fc' →
    fc'.pwrOutMaxInit = max fc.pwrOutMaxInit (fc.pwrOutMax / k.ten) ∧
    fc'.pwrOutMax = fc.pwrOutMax ∧ fc'.pwrRampLag = fc.pwrRampLag ∧
    fc'.state.pwrBrake = fc.state.pwrBrake ∧ 0 < dt

theorem C09_fc_init : C09_fc_init_statement (α := α) := by
  intro k fc dt fc' h
  obtain ⟨hdt, rfl⟩ := fcSetCurMax_ok h
  exact ⟨rfl, rfl, rfl, rfl, hdt⟩

example : ∃ fc', fcSetCurMax kQ fcQ 1 = .ok fc' ∧
    fc'.pwrOutMaxInit = max fcQ.pwrOutMaxInit (fcQ.pwrOutMax / kQ.ten) := by
  obtain ⟨fc', h⟩ := (isOk_iff _).mp (show (fcSetCurMax kQ fcQ 1).isOk = true by decide +kernel)
  exact ⟨fc', h, (C09_fc_init kQ fcQ 1 fc' h).1⟩

/-- **C09.1b** exact value of the published limit:
    `max (min (brake_prev + rating/lag·dt) rating) floor'`. -/
def C09_fc_cur_eq_statement : Prop :=
  ∀ (k : Consts α) (fc : FC α) (dt : α) (fc' : FC α), fcSetCurMax k fc dt = .ok fc' →
    fc'.state.pwrOutMax =
      max (min (fc.state.pwrBrake + fc.pwrOutMax / fc.pwrRampLag * dt) fc.pwrOutMax)
        fc'.pwrOutMaxInit

theorem C09_fc_cur_eq : C09_fc_cur_eq_statement (α := α) := by
  intro k fc dt fc' h
  obtain ⟨_, rfl⟩ := fcSetCurMax_ok h
  rfl

/-- **C09.1c (ramp clause, as it holds).**  The published limit never exceeds the previous shaft
    power plus `rating/lag·dt`, EXCEPT for the floor `max(init, rating/10)`. -/
def C09_fc_ramp_statement : Prop :=
  ∀ (k : Consts α) (fc : FC α) (dt : α) (fc' : FC α), fcSetCurMax k fc dt = .ok fc' →
    fc'.state.pwrOutMax ≤
      max (fc.state.pwrBrake + fc.pwrOutMax / fc.pwrRampLag * dt) fc'.pwrOutMaxInit

theorem C09_fc_ramp : C09_fc_ramp_statement (α := α) := by
  intro k fc dt fc' h
  rw [C09_fc_cur_eq k fc dt fc' h]
  exact max_le_max (min_le_left _ _) (le_refl _)

example : ∃ fc', fcSetCurMax kQ fcQ 1 = .ok fc' ∧
    fc'.state.pwrOutMax ≤ max (fcQ.state.pwrBrake + fcQ.pwrOutMax / fcQ.pwrRampLag * 1)
      fc'.pwrOutMaxInit := by
  obtain ⟨fc', h⟩ := (isOk_iff _).mp (show (fcSetCurMax kQ fcQ 1).isOk = true by decide +kernel)
  exact ⟨fc', h, C09_fc_ramp kQ fcQ 1 fc' h⟩

-- what the model returns on this input: 100 W + 1000 W / 20 s · 1 s = 150 W, floor 100 W
example : okVal (fcSetCurMax kQ fcQ 1) (fun f => (f.state.pwrOutMax, f.pwrOutMaxInit))
    = some (150, 100) := by decide +kernel

/-- The ramp clause read literally ("never rises faster than the ramp rate above the previous
    shaft power"), i.e. WITHOUT the floor.  FALSE: see the counterexample. -/
def C09_fc_ramp_strict_statement : Prop :=
  ∀ (k : Consts α) (fc : FC α) (dt : α) (fc' : FC α), fcSetCurMax k fc dt = .ok fc' →
    fc'.state.pwrOutMax ≤ fc.state.pwrBrake + fc.pwrOutMax / fc.pwrRampLag * dt

/-- idling engine (previous shaft power 0): ramp allows 0 + 1000/20·1 = 50 W, the published limit
    is the floor `rating/10 = 100 W`. -/
theorem C09_fc_ramp_strict_counterexample : ¬ C09_fc_ramp_strict_statement (α := ℚ) := by
  intro hs
  have hv : okVal (fcSetCurMax kQ { fcQ with state := { fcStQ with pwrBrake := 0 } } 1)
      (fun f => f.state.pwrOutMax) = some 100 := by decide +kernel
  obtain ⟨fc', h, hval⟩ := (okVal_eq_some _ _ _).mp hv
  have := hs kQ _ 1 fc' h
  rw [hval] at this
  norm_num [fcQ, fcStQ] at this

/-- the strict ramp clause holds whenever the floor does not bind -/
theorem C09_fc_ramp_strict_partial (k : Consts α) (fc : FC α) (dt : α) (fc' : FC α)
    (h : fcSetCurMax k fc dt = .ok fc')
    -- FORCED (see `C09_fc_ramp_strict_counterexample`): the floor is below the ramp value
    (hfloor : fc'.pwrOutMaxInit ≤ fc.state.pwrBrake + fc.pwrOutMax / fc.pwrRampLag * dt) :
    fc'.state.pwrOutMax ≤ fc.state.pwrBrake + fc.pwrOutMax / fc.pwrRampLag * dt :=
  (C09_fc_ramp k fc dt fc' h).trans (max_le (le_refl _) hfloor)

example : ∃ fc', fcSetCurMax kQ fcQ 1 = .ok fc' ∧
    fc'.state.pwrOutMax ≤ fcQ.state.pwrBrake + fcQ.pwrOutMax / fcQ.pwrRampLag * 1 := by
  have hv : okVal (fcSetCurMax kQ fcQ 1) (fun f => f.pwrOutMaxInit) = some 100 := by
    decide +kernel
  obtain ⟨fc', h, hval⟩ := (okVal_eq_some _ _ _).mp hv
  refine ⟨fc', h, C09_fc_ramp_strict_partial kQ fcQ 1 fc' h ?_⟩
  rw [hval]; norm_num [fcQ, fcStQ]

/-- **C09.1d (never above rating).** -/
def C09_fc_le_rating_statement : Prop :=
  ∀ (k : Consts α) (fc : FC α) (dt : α) (fc' : FC α), fcSetCurMax k fc dt = .ok fc' →
    -- FORCED: a configured floor above the rating is published as is
    -- (`C09_fc_le_rating_counterexample`)
    fc.pwrOutMaxInit ≤ fc.pwrOutMax →
    -- FORCED: `rating/ten ≤ rating` needs both (a negative rating publishes `rating/10 > rating`)
    1 ≤ k.ten → 0 ≤ fc.pwrOutMax →
    fc'.state.pwrOutMax ≤ fc.pwrOutMax ∧ fc'.pwrOutMaxInit ≤ fc'.pwrOutMax

theorem C09_fc_le_rating : C09_fc_le_rating_statement (α := α) := by
  intro k fc dt fc' h hinit hten hP
  obtain ⟨_, rfl⟩ := fcSetCurMax_ok h
  have h10 : fc.pwrOutMax / k.ten ≤ fc.pwrOutMax :=
    div_le_self hP hten
  exact ⟨max_le (min_le_right _ _) (max_le hinit h10), max_le hinit h10⟩

example : ∃ fc', fcSetCurMax kQ fcQ 1 = .ok fc' ∧ fc'.state.pwrOutMax ≤ fcQ.pwrOutMax := by
  obtain ⟨fc', h⟩ := (isOk_iff _).mp (show (fcSetCurMax kQ fcQ 1).isOk = true by decide +kernel)
  exact ⟨fc', h, (C09_fc_le_rating kQ fcQ 1 fc' h (by norm_num [fcQ]) (by norm_num [kQ])
    (by norm_num [fcQ])).1⟩

/-- the same without `init ≤ rating` — FALSE -/
def C09_fc_le_rating_nohyp_statement : Prop :=
  ∀ (k : Consts α) (fc : FC α) (dt : α) (fc' : FC α), fcSetCurMax k fc dt = .ok fc' →
    1 ≤ k.ten → 0 ≤ fc.pwrOutMax → fc'.state.pwrOutMax ≤ fc.pwrOutMax

/-- `pwr_out_max_init = 2000 W` on a 1000 W engine: the published limit is 2000 W. -/
theorem C09_fc_le_rating_counterexample : ¬ C09_fc_le_rating_nohyp_statement (α := ℚ) := by
  intro hs
  have hv : okVal (fcSetCurMax kQ { fcQ with pwrOutMaxInit := 2000 } 1)
      (fun f => f.state.pwrOutMax) = some 2000 := by decide +kernel
  obtain ⟨fc', h, hval⟩ := (okVal_eq_some _ _ _).mp hv
  have := hs kQ _ 1 fc' h (by norm_num [kQ]) (by norm_num [fcQ])
  rw [hval] at this
  norm_num [fcQ] at this

-- FORCED `0 ≤ rating`: a (nonsensical) negative rating publishes `rating/10 > rating`
example : okVal (fcSetCurMax kQ { fcQ with pwrOutMax := -1000, pwrOutMaxInit := -2000 } 1)
    (fun f => (f.state.pwrOutMax, f.pwrOutMax)) = some (-100, -1000) := by decide +kernel

/-- **C09.1e (never negative).** -/
def C09_fc_nonneg_statement : Prop :=
  ∀ (k : Consts α) (fc : FC α) (dt : α) (fc' : FC α), fcSetCurMax k fc dt = .ok fc' →
    0 ≤ fc.pwrOutMax → 0 < k.ten → 0 ≤ fc'.state.pwrOutMax

theorem C09_fc_nonneg : C09_fc_nonneg_statement (α := α) := by
  intro k fc dt fc' h hP hten
  obtain ⟨_, rfl⟩ := fcSetCurMax_ok h
  exact le_max_of_le_right (le_max_of_le_right (div_nonneg hP hten.le))

example : ∃ fc', fcSetCurMax kQ fcQ 1 = .ok fc' ∧ 0 ≤ fc'.state.pwrOutMax := by
  obtain ⟨fc', h⟩ := (isOk_iff _).mp (show (fcSetCurMax kQ fcQ 1).isOk = true by decide +kernel)
  exact ⟨fc', h, C09_fc_nonneg kQ fcQ 1 fc' h (by norm_num [fcQ]) (by norm_num [kQ])⟩

/-! ## 2. Accepted steps -/

def genStQ : GenState ℚ :=
  { eta := 0, pwrElecPropOutMax := 0, pwrElecOutMax := 0, pwrRateOutMax := 0, pwrMechIn := 0,
    pwrElecPropOut := 0, pwrElecAux := 0, pwrLoss := 0, energyMechIn := 0, energyElecPropOut := 0,
    energyElecAux := 0, energyLoss := 0 }

def genQ : Gen ℚ :=
  { state := genStQ, pwrOutMax := 900, fracInterp := [0, 1], etaInterp := [9/10, 19/20],
    inFracInterp := [] }

def edrvStQ : EdrvState ℚ :=
  { eta := 0, pwrMechOutMax := 0, pwrMechRegenMax := 0, pwrRateOutMax := 0, pwrOutReq := 0,
    pwrElecPropIn := 0, pwrMechPropOut := 0, pwrMechDynBrake := 0, pwrElecDynBrake := 0,
    pwrLoss := 0, energyElecPropIn := 0, energyMechPropOut := 0, energyMechDynBrake := 0,
    energyElecDynBrake := 0, energyLoss := 0 }

def edrvQ : Edrv ℚ :=
  { state := edrvStQ, pwrOutMax := 800, fracInterp := [0, 1], etaInterp := [4/5, 9/10],
    inFracInterp := [] }

def resStQ : ResState ℚ :=
  { pwrPropOutMax := 0, pwrRegenOutMax := 0, pwrDischMax := 0, pwrChargeMax := 0, soc := 1/2,
    eta := 0, pwrOutElectrical := 0, pwrOutPropulsion := 0, pwrAux := 0, pwrLoss := 0,
    pwrOutChemical := 0, energyOutElectrical := 0, energyOutPropulsion := 0, energyAux := 0,
    energyLoss := 0, energyOutChemical := 0, maxSoc := 0, socHiRampStart := 0, minSoc := 0,
    socLoRampStart := 0, temperature := 20 }

/-- 1 kW / 1 kWh battery, SOC window [0.2, 0.8], default 0.05 ramps, constant efficiency 0.9
    (one-point grids: `interp3d` returns the single table value) -/
def resQ : RES ℚ :=
  { state := resStQ, pwrOutMax := 1000, energyCapacity := 3600000, capWh := 1000,
    minSoc := 1/5, maxSoc := 4/5, socHiRampStart := none, socLoRampStart := none,
    gridT := [0], gridSoc := [0], gridC := [0], etaVals := [[[9/10]]] }

/-- **C09.2a engine.**  An accepted engine step with limit checking on: the new shaft power is
    within (tolerantly) the rating and the transient limit standing in the state, and is not
    negative.  Rating and published limit are not touched by the step, so the statement reads
    on the NEW record alone. -/
def C09_fc_accept_statement : Prop :=
  ∀ (k : Consts α) (fc : FC α) (req dt : α) (on : Bool) (fc' : FC α),
    fcSolve k fc req dt on true = .ok fc' →
    AlmostLe req fc.pwrOutMax k.tol ∧ AlmostLe req fc.state.pwrOutMax k.tol ∧ 0 ≤ req ∧
    fc'.state.pwrBrake = req ∧ fc'.pwrOutMax = fc.pwrOutMax ∧
    fc'.state.pwrOutMax = fc.state.pwrOutMax

theorem C09_fc_accept : C09_fc_accept_statement (α := α) := by
  intro k fc req dt on fc' h
  obtain ⟨hl, h0, hb, hp, hs, _, _⟩ := fcSolve_ok h
  obtain ⟨h1, h2⟩ := hl rfl
  exact ⟨(almostLe_iff _ _ _).mp h1, (almostLe_iff _ _ _).mp h2, h0, hb, hp, hs⟩

/-- publish, then solve: the shaft power of an accepted step is within the limit published FOR
    THAT STEP, which itself obeys the ramp clause w.r.t. the previous shaft power -/
theorem C09_fc_step (k : Consts α) (fc fc1 fc2 : FC α) (req dt : α) (on : Bool)
    (h1 : fcSetCurMax k fc dt = .ok fc1) (h2 : fcSolve k fc1 req dt on true = .ok fc2) :
    AlmostLe fc2.state.pwrBrake fc2.pwrOutMax k.tol ∧
    AlmostLe fc2.state.pwrBrake fc2.state.pwrOutMax k.tol ∧ 0 ≤ fc2.state.pwrBrake ∧
    fc2.state.pwrOutMax ≤
      max (fc.state.pwrBrake + fc.pwrOutMax / fc.pwrRampLag * dt) fc2.pwrOutMaxInit := by
  obtain ⟨a1, a2, a3, a4, a5, a6⟩ := C09_fc_accept k fc1 req dt on fc2 h2
  obtain ⟨_, _, _, _, _, i1, _⟩ := fcSolve_ok h2
  rw [a4, a5, a6, i1]
  exact ⟨a1, a2, a3, C09_fc_ramp k fc dt fc1 h1⟩

example : ∃ fc1 fc2, fcSetCurMax kQ fcQ 1 = .ok fc1 ∧ fcSolve kQ fc1 150 1 true true = .ok fc2 ∧
    AlmostLe fc2.state.pwrBrake fc2.state.pwrOutMax kQ.tol := by
  obtain ⟨fc1, h1⟩ := (isOk_iff _).mp (show (fcSetCurMax kQ fcQ 1).isOk = true by decide +kernel)
  have h2' : (fcSetCurMax kQ fcQ 1 >>= fun f => fcSolve kQ f 150 1 true true).isOk = true := by
    decide +kernel
  rw [h1] at h2'
  obtain ⟨fc2, h2⟩ := (isOk_iff _).mp h2'
  exact ⟨fc1, fc2, h1, h2, (C09_fc_step kQ fcQ fc1 fc2 150 1 true h1 h2).2.1⟩

-- 150 W is exactly the published limit and is accepted; 150.2 W (> 150·1.001 and > 150+0.001)
-- is rejected
example : (fcSetCurMax kQ fcQ 1 >>= fun f => fcSolve kQ f (751/5) 1 true true).isOk = false := by
  decide +kernel

/-- **C09.2b generator** (exact comparisons, as coded) -/
def C09_gen_accept_statement : Prop :=
  ∀ (g : Gen α) (prop aux dt : α) (g' : Gen α), genReq g prop aux dt = .ok g' →
    0 ≤ prop ∧ prop + aux ≤ g.pwrOutMax ∧ g'.state.pwrElecPropOut = prop ∧
    g'.state.pwrElecAux = aux ∧ g'.pwrOutMax = g.pwrOutMax

theorem C09_gen_accept : C09_gen_accept_statement (α := α) := by
  intro g prop aux dt g' h
  exact genReq_ok h

example : ∃ g', genReq genQ 700 100 1 = .ok g' ∧ (700 : ℚ) + 100 ≤ genQ.pwrOutMax := by
  obtain ⟨g', h⟩ := (isOk_iff _).mp (show (genReq genQ 700 100 1).isOk = true by decide +kernel)
  exact ⟨g', h, (C09_gen_accept genQ 700 100 1 g' h).2.1⟩

example : (genReq genQ 850 100 1).isOk = false := by decide +kernel

/-- **C09.2c drivetrain**: UPPER side only.  Remark: the code's message prints `req.abs()` but the
    `ensure!` is `req ≤ rating`; braking beyond the rating is NOT rejected at unit level
    (`edrvReq_accepts_large_braking_example`); inside a consist the split bounds it (C10). -/
def C09_edrv_accept_statement : Prop :=
  ∀ (e : Edrv α) (req dt : α) (e' : Edrv α), edrvReq e req dt = .ok e' →
    req ≤ e.pwrOutMax ∧ e'.state.pwrOutReq = req ∧ e'.pwrOutMax = e.pwrOutMax ∧
    e'.state.pwrMechPropOut - e'.state.pwrMechDynBrake = req ∧ 0 ≤ e'.state.pwrMechDynBrake

theorem C09_edrv_accept : C09_edrv_accept_statement (α := α) := by
  intro e req dt e' h
  obtain ⟨h0, h1, h2, h3, h4, h5, _, _⟩ := edrvReq_ok h
  refine ⟨h0, h2, h1, ?_, h5⟩
  rw [h3, h4]; ring

example : ∃ e', edrvReq edrvQ 600 1 = .ok e' ∧ (600 : ℚ) ≤ edrvQ.pwrOutMax := by
  obtain ⟨e', h⟩ := (isOk_iff _).mp (show (edrvReq edrvQ 600 1).isOk = true by decide +kernel)
  exact ⟨e', h, (C09_edrv_accept edrvQ 600 1 e' h).1⟩

/-- the two-sided reading "drivetrain power within its rating" — FALSE at unit level -/
def C09_edrv_abs_statement : Prop :=
  ∀ (e : Edrv α) (req dt : α) (e' : Edrv α), edrvReq e req dt = .ok e' → |req| ≤ e.pwrOutMax

/-- an 800 W drivetrain accepts a braking request of 1 MW (all of it as dynamic braking) -/
theorem edrvReq_accepts_large_braking_example :
    okVal (edrvReq edrvQ (-1000000) 1) (fun e => (e.pwrOutMax, e.state.pwrOutReq, e.state.pwrMechDynBrake))
      = some (800, -1000000, 1000000) := by decide +kernel

theorem C09_edrv_abs_counterexample : ¬ C09_edrv_abs_statement (α := ℚ) := by
  intro hs
  obtain ⟨e', h, _⟩ := (okVal_eq_some _ _ _).mp edrvReq_accepts_large_braking_example
  have := hs edrvQ (-1000000) 1 e' h
  norm_num [edrvQ] at this

/-- **C09.2d battery.**  Accepted battery step: tolerant comparison of the electrical power
    `prop + aux` against the rating and the SOC-derated limit of the branch taken (the sign of
    `prop + aux`), and the two SOC guards on the state's dynamic window. -/
def C09_res_accept_statement : Prop :=
  ∀ (k : Consts α) (r : RES α) (prop aux dt : α) (r' : RES α),
    resSolve k r prop aux dt = .ok r' →
    (0 ≤ prop + aux → AlmostLe (prop + aux) r.pwrOutMax k.tol ∧
                      AlmostLe (prop + aux) r.state.pwrDischMax k.tol) ∧
    (prop + aux < 0 → AlmostGe (prop + aux) (-r.pwrOutMax) k.tol ∧
                      AlmostGe (prop + aux) (-r.state.pwrChargeMax) k.tol) ∧
    (r.state.soc ≤ r.state.maxSoc ∨ 0 ≤ prop) ∧ (r.state.minSoc ≤ r.state.soc ∨ prop ≤ 0) ∧
    r'.state.pwrOutElectrical = prop + aux ∧ r'.pwrOutMax = r.pwrOutMax ∧
    r'.state.pwrDischMax = r.state.pwrDischMax ∧ r'.state.pwrChargeMax = r.state.pwrChargeMax

theorem C09_res_accept : C09_res_accept_statement (α := α) := by
  intro k r prop aux dt r' h
  obtain ⟨g1, g2, hd, hc, eta, _, rfl⟩ := resSolve_ok h
  refine ⟨fun h0 => ?_, fun h0 => ?_, g1, g2, rfl, rfl, rfl, rfl⟩
  · exact ⟨(almostLe_iff _ _ _).mp (hd h0).1, (almostLe_iff _ _ _).mp (hd h0).2⟩
  · exact ⟨(almostGe_iff _ _ _).mp (hc h0).1, (almostGe_iff _ _ _).mp (hc h0).2⟩

-- publish limits (SOC 0.5: both limits = rating), then discharge 700 + 50 W
example : ∃ r1 r2, resSetCurMax kQ resQ 50 0 0 = .ok r1 ∧ resSolve kQ r1 700 50 1 = .ok r2 ∧
    AlmostLe (700 + 50) r1.state.pwrDischMax kQ.tol := by
  obtain ⟨r1, h1⟩ := (isOk_iff _).mp (show (resSetCurMax kQ resQ 50 0 0).isOk = true by
    decide +kernel)
  have h2' : (resSetCurMax kQ resQ 50 0 0 >>= fun r => resSolve kQ r 700 50 1).isOk = true := by
    decide +kernel
  rw [h1] at h2'
  obtain ⟨r2, h2⟩ := (isOk_iff _).mp h2'
  exact ⟨r1, r2, h1, h2, ((C09_res_accept kQ r1 700 50 1 r2 h2).1 (by norm_num)).2⟩

-- and charging 600 W
example : ∃ r1 r2, resSetCurMax kQ resQ 50 0 0 = .ok r1 ∧ resSolve kQ r1 (-650) 50 1 = .ok r2 ∧
    AlmostGe (-650 + 50) (-r1.state.pwrChargeMax) kQ.tol := by
  obtain ⟨r1, h1⟩ := (isOk_iff _).mp (show (resSetCurMax kQ resQ 50 0 0).isOk = true by
    decide +kernel)
  have h2' : (resSetCurMax kQ resQ 50 0 0 >>= fun r => resSolve kQ r (-650) 50 1).isOk = true := by
    decide +kernel
  rw [h1] at h2'
  obtain ⟨r2, h2⟩ := (isOk_iff _).mp h2'
  exact ⟨r1, r2, h1, h2, ((C09_res_accept kQ r1 (-650) 50 1 r2 h2).2.1 (by norm_num)).2⟩

/-- **C09.2e conventional locomotive step** (limit checking on): every component check, read on
    the new powertrain. -/
def C09_conv_step_statement : Prop :=
  ∀ (k : Consts α) (fc : FC α) (gen : Gen α) (edrv : Edrv α) (req dt aux : α) (on : Bool)
    (pt : Powertrain α), convSolve k fc gen edrv req dt on aux true = .ok pt →
    ∃ fc' gen' edrv', pt = .conv fc' gen' edrv' ∧
      fc'.pwrOutMax = fc.pwrOutMax ∧ fc'.state.pwrOutMax = fc.state.pwrOutMax ∧
      gen'.pwrOutMax = gen.pwrOutMax ∧ edrv'.pwrOutMax = edrv.pwrOutMax ∧
      -- drivetrain (upper side only)
      edrv'.state.pwrOutReq = req ∧ req ≤ edrv'.pwrOutMax ∧
      -- generator
      0 ≤ gen'.state.pwrElecPropOut ∧
      gen'.state.pwrElecPropOut + gen'.state.pwrElecAux ≤ gen'.pwrOutMax ∧
      -- engine: shaft power = generator mechanical input
      fc'.state.pwrBrake = gen'.state.pwrMechIn ∧ 0 ≤ fc'.state.pwrBrake ∧
      AlmostLe fc'.state.pwrBrake fc'.pwrOutMax k.tol ∧
      AlmostLe fc'.state.pwrBrake fc'.state.pwrOutMax k.tol

theorem C09_conv_step : C09_conv_step_statement (α := α) := by
  intro k fc gen edrv req dt aux on pt h
  unfold convSolve at h
  simp only [bind_eq_ok, ensure_eq_ok, pure_eq_ok, exists_and_left, exists_const,
    decide_eq_true_iff] at h
  obtain ⟨e', he, g', hg, _, f', hf, rfl⟩ := h
  obtain ⟨e0, e1, e2, _, _, _, _, _⟩ := edrvReq_ok he
  obtain ⟨g0, g1, g2, g3, g4⟩ := genReq_ok hg
  obtain ⟨a1, a2, a3, a4, a5, a6⟩ := C09_fc_accept k fc _ dt on f' hf
  refine ⟨f', g', e', rfl, a5, a6, g4, e1, e2, by rw [e1]; exact e0, by rw [g2]; exact g0,
    by rw [g2, g3, g4]; exact g1, a4, by rw [a4]; exact a3, ?_, ?_⟩
  · rw [a4, a5]; exact a1
  · rw [a4, a6]; exact a2

example : ∃ fc1 pt, fcSetCurMax kQ fcQ 1 = .ok fc1 ∧
    convSolve kQ fc1 genQ edrvQ 80 1 true 20 true = .ok pt ∧
    ∃ fc' gen' edrv', pt = .conv fc' gen' edrv' ∧
      AlmostLe fc'.state.pwrBrake fc'.state.pwrOutMax kQ.tol := by
  obtain ⟨fc1, pt, h1, h2⟩ := isOk_bind (show (fcSetCurMax kQ fcQ 1 >>= fun f =>
    convSolve kQ f genQ edrvQ 80 1 true 20 true).isOk = true by decide +kernel)
  obtain ⟨f', g', e', hp, hrest⟩ := C09_conv_step kQ fc1 genQ edrvQ 80 1 20 true pt h2
  exact ⟨fc1, pt, h1, h2, f', g', e', hp, hrest.2.2.2.2.2.2.2.2.2.2.2⟩

-- the same unit refuses 120 W at the wheels: the shaft power would exceed the 150 W transient limit
example : (fcSetCurMax kQ fcQ 1 >>= fun f =>
    convSolve kQ f genQ edrvQ 120 1 true 20 true).isOk = false := by decide +kernel

/-- **C09.2f battery-electric locomotive step**: drivetrain upper bound and all battery checks;
    `aux'` is the auxiliary load actually drawn (the code reduces it when regenerating). -/
def C09_bel_step_statement : Prop :=
  ∀ (k : Consts α) (res : RES α) (edrv : Edrv α) (req dt aux : α) (pt : Powertrain α),
    belSolve k res edrv req dt aux = .ok pt →
    ∃ res' edrv', pt = .bel res' edrv' ∧
      res'.pwrOutMax = res.pwrOutMax ∧ edrv'.pwrOutMax = edrv.pwrOutMax ∧
      res'.state.pwrDischMax = res.state.pwrDischMax ∧
      res'.state.pwrChargeMax = res.state.pwrChargeMax ∧
      edrv'.state.pwrOutReq = req ∧ req ≤ edrv'.pwrOutMax ∧
      res'.state.pwrOutPropulsion = edrv'.state.pwrElecPropIn ∧
      res'.state.pwrOutElectrical = res'.state.pwrOutPropulsion + res'.state.pwrAux ∧
      (0 ≤ res'.state.pwrOutElectrical →
        AlmostLe res'.state.pwrOutElectrical res'.pwrOutMax k.tol ∧
        AlmostLe res'.state.pwrOutElectrical res'.state.pwrDischMax k.tol) ∧
      (res'.state.pwrOutElectrical < 0 →
        AlmostGe res'.state.pwrOutElectrical (-res'.pwrOutMax) k.tol ∧
        AlmostGe res'.state.pwrOutElectrical (-res'.state.pwrChargeMax) k.tol) ∧
      (res.state.soc ≤ res.state.maxSoc ∨ 0 ≤ res'.state.pwrOutPropulsion) ∧
      (res.state.minSoc ≤ res.state.soc ∨ res'.state.pwrOutPropulsion ≤ 0)

theorem C09_bel_step : C09_bel_step_statement (α := α) := by
  intro k res edrv req dt aux pt h
  unfold belSolve at h
  simp only [bind_eq_ok, pure_eq_ok] at h
  obtain ⟨e', he, r', hr, rfl⟩ := h
  obtain ⟨e0, e1, e2, _, _, _, _, _⟩ := edrvReq_ok he
  have key : ∃ aux', resSolve k res e'.state.pwrElecPropIn aux' dt = .ok r' := by
    split_ifs at hr
    · exact ⟨_, hr⟩
    · exact ⟨_, hr⟩
  obtain ⟨aux', hs⟩ := key
  obtain ⟨b1, b2, b3, b4, b5, b6, b7, b8⟩ := C09_res_accept k res _ aux' dt r' hs
  obtain ⟨_, _, _, _, eta, _, hr'⟩ := resSolve_ok hs
  have p1 : r'.state.pwrOutPropulsion = e'.state.pwrElecPropIn := by rw [hr']
  have p2 : r'.state.pwrAux = aux' := by rw [hr']
  refine ⟨r', e', rfl, b6, e1, b7, b8, e2, by rw [e1]; exact e0, p1, by rw [b5, p1, p2],
    ?_, ?_, by rw [p1]; exact b3, by rw [p1]; exact b4⟩
  · rw [b5, b6, b7]; exact b1
  · rw [b5, b6, b8]; exact b2

example : ∃ r1 pt, resSetCurMax kQ resQ 50 0 0 = .ok r1 ∧ belSolve kQ r1 edrvQ 500 1 50 = .ok pt ∧
    ∃ res' edrv', pt = .bel res' edrv' ∧ (0 ≤ res'.state.pwrOutElectrical →
      AlmostLe res'.state.pwrOutElectrical res'.state.pwrDischMax kQ.tol) := by
  obtain ⟨r1, pt, h1, h2⟩ := isOk_bind (show (resSetCurMax kQ resQ 50 0 0 >>= fun r =>
    belSolve kQ r edrvQ 500 1 50).isOk = true by decide +kernel)
  obtain ⟨r', e', hp, hrest⟩ := C09_bel_step kQ r1 edrvQ 500 1 50 pt h2
  exact ⟨r1, pt, h1, h2, r', e', hp, fun h0 => (hrest.2.2.2.2.2.2.2.2.1 h0).2⟩

/-! ## 3. Battery: the published SOC-dependent limits

  `resSetCurMax k r aux cb db` interpolates the discharge limit on the grid
  `[sMin r cb, sLo k r cb] ↦ [0, rating]` and the charge limit on `[sHi k r db, sMax r db] ↦
  [rating, 0]`, where (definitions in `LimitsL`, `E = r.energyCapacity`)
      `sMin = min (r.minSoc + cb/E) r.maxSoc`      `sLo = min (lo + cb/E) r.maxSoc`
      `sMax = max (r.maxSoc − db/E) r.minSoc`      `sHi = max (hi − db/E) r.minSoc`
      `lo = r.socLoRampStart.unwrap_or(r.minSoc + 0.05)`, `hi = r.socHiRampStart.unwrap_or(r.maxSoc − 0.05)`.
  An `Ok` outcome means exactly that both interpolations succeeded (`resSetCurMax_of_interp`). -/

/-- the four knots without buffers (what the locomotive passes), for a sane configuration -/
theorem knots_no_buffer (k : Consts α) (r : RES α)
    (h1 : r.minSoc ≤ r.maxSoc) (h2 : resLo k r ≤ r.maxSoc) (h3 : r.minSoc ≤ resHi k r) :
    sMin r 0 = r.minSoc ∧ sLo k r 0 = resLo k r ∧ sHi k r 0 = resHi k r ∧ sMax r 0 = r.maxSoc := by
  unfold sMin sLo sHi sMax
  simp only [zero_div, add_zero, sub_zero]
  exact ⟨min_eq_left h1, min_eq_left h2, max_eq_left h3, max_eq_left h1⟩

/-- **C09.3a** published battery limits are never negative, never above the rating, and the
    propulsion-side limits differ from them by exactly the auxiliary load ("never negative beyond
    auxiliary load").  No hypothesis on the grids is needed: degenerate grids do not return `Ok`
    (or return the constant when `rating = 0`). -/
def C09_res_limits_statement : Prop :=
  ∀ (k : Consts α) (r : RES α) (aux cb db : α) (r' : RES α),
    resSetCurMax k r aux cb db = .ok r' →
    -- FORCED: with a negative rating the interpolated limits lie in `[rating, 0]`
    0 ≤ r.pwrOutMax →
    (0 ≤ r'.state.pwrDischMax ∧ r'.state.pwrDischMax ≤ r'.pwrOutMax) ∧
    (0 ≤ r'.state.pwrChargeMax ∧ r'.state.pwrChargeMax ≤ r'.pwrOutMax) ∧
    r'.state.pwrPropOutMax = r'.state.pwrDischMax - aux ∧ -aux ≤ r'.state.pwrPropOutMax ∧
    r'.state.pwrRegenOutMax = r'.state.pwrChargeMax + aux ∧
    r'.pwrOutMax = r.pwrOutMax ∧ r'.state.soc = r.state.soc ∧
    r'.state.minSoc = sMin r cb ∧ r'.state.socLoRampStart = sLo k r cb ∧
    r'.state.socHiRampStart = sHi k r db ∧ r'.state.maxSoc = sMax r db

theorem C09_res_limits : C09_res_limits_statement (α := α) := by
  intro k r aux cb db r' h hP
  obtain ⟨d, c, hd, hc, rfl⟩ := resSetCurMax_ok h
  have rd := interp1d_two_range _ _ _ _ _ _ hd
  have rc := interp1d_two_range _ _ _ _ _ _ hc
  rw [min_eq_left hP, max_eq_right hP] at rd
  rw [min_eq_right hP, max_eq_left hP] at rc
  refine ⟨rd, rc, rfl, ?_, rfl, rfl, rfl, rfl, rfl, rfl, rfl⟩
  show -aux ≤ d - aux
  linarith [rd.1]

example : ∃ r', resSetCurMax kQ resQ 50 0 0 = .ok r' ∧
    0 ≤ r'.state.pwrDischMax ∧ r'.state.pwrDischMax ≤ r'.pwrOutMax := by
  obtain ⟨r', h⟩ := (isOk_iff _).mp (show (resSetCurMax kQ resQ 50 0 0).isOk = true by
    decide +kernel)
  exact ⟨r', h, (C09_res_limits kQ resQ 50 0 0 r' h (by norm_num [resQ])).1⟩

-- FORCED `0 ≤ rating`: with a negative rating the published limits are negative
example : okVal (resSetCurMax kQ { resQ with pwrOutMax := -1000 } 50 0 0)
    (fun r => (r.state.pwrDischMax, r.state.pwrChargeMax)) = some (-1000, -1000) := by
  decide +kernel

-- inside the low ramp (SOC 0.21 of [0.2, 0.25]): 200 W of 1000 W; propulsion limit 150 W
example : okVal (resSetCurMax kQ { resQ with state := { resStQ with soc := 21/100 } } 50 0 0)
    (fun r => (r.state.pwrDischMax, r.state.pwrChargeMax, r.state.pwrPropOutMax,
               r.state.pwrRegenOutMax)) = some (200, 1000, 150, 1050) := by decide +kernel

/-- the knots and what the call leaves alone (no hypothesis) -/
theorem C09_res_knots (k : Consts α) (r : RES α) (aux cb db : α) (r' : RES α)
    (h : resSetCurMax k r aux cb db = .ok r') :
    r'.pwrOutMax = r.pwrOutMax ∧ r'.state.soc = r.state.soc ∧
    r'.state.minSoc = sMin r cb ∧ r'.state.socLoRampStart = sLo k r cb ∧
    r'.state.socHiRampStart = sHi k r db ∧ r'.state.maxSoc = sMax r db := by
  obtain ⟨d, c, _, _, rfl⟩ := resSetCurMax_ok h
  exact ⟨rfl, rfl, rfl, rfl, rfl, rfl⟩

/-- **C09.3b** a degenerate low grid (`sMin = sLo`, e.g. `soc_lo_ramp_start = min_soc`, or a charge
    buffer pushing both knots to `max_soc`) with a non-zero rating makes the call fail (`Err`). -/
theorem C09_res_degenerate_lo_err (k : Consts α) (r : RES α) (aux cb db : α)
    (hP : r.pwrOutMax ≠ 0) (hdeg : sMin r cb = sLo k r cb) :
    resSetCurMax k r aux cb db = .err "all-x-equal" := by
  have hd : interp1d r.state.soc [sMin r cb, sLo k r cb] [0, r.pwrOutMax] = .err "all-x-equal" := by
    rw [hdeg]; exact interp1d_two_degenerate _ _ _ _ (Ne.symm hP)
  unfold sMin sLo resLo at hd
  unfold resSetCurMax
  simp only [mx_eq_max, mn_eq_min]
  cases h1 : r.socLoRampStart <;> simp only [h1] at hd ⊢ <;> simp only [hd, bind, Res.bind]

/-- likewise for the high grid (when the low one is fine) -/
theorem C09_res_degenerate_hi_err (k : Consts α) (r : RES α) (aux cb db : α)
    (hP : r.pwrOutMax ≠ 0) (hlo : sMin r cb < sLo k r cb) (hdeg : sHi k r db = sMax r db) :
    resSetCurMax k r aux cb db = .err "all-x-equal" := by
  have hd := interp1d_disch r.state.soc _ _ r.pwrOutMax hlo
  have hc : interp1d r.state.soc [sHi k r db, sMax r db] [r.pwrOutMax, 0] = .err "all-x-equal" := by
    rw [hdeg]; exact interp1d_two_degenerate _ _ _ _ hP
  unfold sMin sLo resLo at hd
  unfold sHi sMax resHi at hc
  unfold resSetCurMax
  simp only [mx_eq_max, mn_eq_min]
  cases h1 : r.socLoRampStart <;> cases h2 : r.socHiRampStart <;>
    simp only [h1, h2] at hd hc ⊢ <;> simp only [hd, hc, bind, Res.bind]

-- `soc_lo_ramp_start = min_soc = 0.2`: the call fails
example : resSetCurMax kQ { resQ with socLoRampStart := some (1/5) } 50 0 0 = .err "all-x-equal" :=
  C09_res_degenerate_lo_err kQ _ 50 0 0 (by norm_num [resQ])
    (by norm_num [sMin, sLo, resLo, resQ])

-- `soc_hi_ramp_start = max_soc = 0.8`: the call fails
example : resSetCurMax kQ { resQ with socHiRampStart := some (4/5) } 50 0 0 = .err "all-x-equal" :=
  C09_res_degenerate_hi_err kQ _ 50 0 0 (by norm_num [resQ])
    (by norm_num [sMin, sLo, resLo, resQ, kQ]) (by norm_num [sHi, sMax, resHi, resQ])

/-- Remark (configuration hazard): a DECREASING low grid (`soc_lo_ramp_start < min_soc`) is not
    rejected; with SOC strictly between the two knots `interp1d`'s linear search indexes past the
    end — a panic, not an `Err`. -/
theorem C09_res_decreasing_lo_panic (k : Consts α) (r : RES α) (aux cb db : α)
    (hP : r.pwrOutMax ≠ 0) (h1 : sLo k r cb < r.state.soc) (h2 : r.state.soc < sMin r cb) :
    resSetCurMax k r aux cb db = .panic "index" := by
  have hd := interp1d_two_decreasing_panic r.state.soc (sMin r cb) (sLo k r cb) 0 r.pwrOutMax
    (Ne.symm hP) h1 h2
  unfold sMin sLo resLo at hd
  unfold resSetCurMax
  simp only [mx_eq_max, mn_eq_min]
  cases h1 : r.socLoRampStart <;> simp only [h1] at hd ⊢ <;> simp only [hd, bind, Res.bind]

-- `soc_lo_ramp_start = 0.1 < min_soc = 0.2`, SOC 0.15 between the knots: index panic
example : resSetCurMax kQ { resQ with socLoRampStart := some (1/10),
                                      state := { resStQ with soc := 3/20 } } 50 0 0
    = .panic "index" :=
  C09_res_decreasing_lo_panic kQ _ 50 0 0 (by norm_num [resQ])
    (by norm_num [sLo, resLo, resQ, resStQ]) (by norm_num [sMin, resQ, resStQ])

/-- **C09.3c derating in closed form.**  With non-degenerate increasing grids
    (`sMin < sLo`, `sHi < sMax`) the call succeeds and publishes
    `disch = 0` for `soc ≤ sMin`, `= rating` for `sLo ≤ soc`, `= rating·(soc−sMin)/(sLo−sMin)`
    between; `charge = rating` for `soc ≤ sHi`, `= 0` for `sMax ≤ soc`,
    `= rating·(sMax−soc)/(sMax−sHi)` between (`LimitsL.dischRamp`, `LimitsL.chargeRamp`; the
    code's `yl + (yr−yl)/(xr−xl)·(x−xl)` is shown equal to these in `interp1d_disch/charge`). -/
def C09_res_derating_statement : Prop :=
  ∀ (k : Consts α) (r : RES α) (aux cb db : α),
    -- FORCED: otherwise `Err` (`C09_res_degenerate_*_err`) or a panic
    -- (`C09_res_decreasing_lo_panic`) unless `rating = 0`
    sMin r cb < sLo k r cb → sHi k r db < sMax r db →
    ∃ r', resSetCurMax k r aux cb db = .ok r' ∧
      r'.state.pwrDischMax = dischRamp r.pwrOutMax (sMin r cb) (sLo k r cb) r.state.soc ∧
      r'.state.pwrChargeMax = chargeRamp r.pwrOutMax (sHi k r db) (sMax r db) r.state.soc

theorem C09_res_derating : C09_res_derating_statement (α := α) := by
  intro k r aux cb db hlo hhi
  have hd := interp1d_disch r.state.soc _ _ r.pwrOutMax hlo
  have hc := interp1d_charge r.state.soc _ _ r.pwrOutMax hhi
  obtain ⟨r', h⟩ := (isOk_iff _).mp (resSetCurMax_of_interp (aux := aux) hd hc)
  obtain ⟨d, c, hd', hc', rfl⟩ := resSetCurMax_ok h
  rw [hd] at hd'; rw [hc] at hc'
  cases hd'; cases hc'
  exact ⟨_, h, rfl, rfl⟩

/-- the three regimes of `dischRamp`, spelled out -/
theorem dischRamp_cases (P a b soc : α) :
    (soc ≤ a → dischRamp P a b soc = 0) ∧
    (a < soc → b ≤ soc → dischRamp P a b soc = P) ∧
    (a < soc → soc < b → dischRamp P a b soc = P * (soc - a) / (b - a)) := by
  unfold dischRamp
  refine ⟨fun h => if_pos h, fun h1 h2 => ?_, fun h1 h2 => ?_⟩
  · rw [if_neg (not_le.mpr h1), if_pos h2]
  · rw [if_neg (not_le.mpr h1), if_neg (not_le.mpr h2)]

theorem chargeRamp_cases (P a b soc : α) :
    (soc ≤ a → chargeRamp P a b soc = P) ∧
    (a < soc → b ≤ soc → chargeRamp P a b soc = 0) ∧
    (a < soc → soc < b → chargeRamp P a b soc = P * (b - soc) / (b - a)) := by
  unfold chargeRamp
  refine ⟨fun h => if_pos h, fun h1 h2 => ?_, fun h1 h2 => ?_⟩
  · rw [if_neg (not_le.mpr h1), if_pos h2]
  · rw [if_neg (not_le.mpr h1), if_neg (not_le.mpr h2)]

example : ∃ r', resSetCurMax kQ resQ 50 0 0 = .ok r' ∧
    r'.state.pwrDischMax = dischRamp resQ.pwrOutMax (sMin resQ 0) (sLo kQ resQ 0) resQ.state.soc ∧
    r'.state.pwrChargeMax = chargeRamp resQ.pwrOutMax (sHi kQ resQ 0) (sMax resQ 0) resQ.state.soc :=
  C09_res_derating kQ resQ 50 0 0 (by norm_num [sMin, sLo, resLo, resQ, kQ])
    (by norm_num [sHi, sMax, resHi, resQ, kQ])

/-! ## 4. Locomotive: published limits -/

def locoStQ : LocoState ℚ :=
  { pwrOutMax := 0, pwrRateOutMax := 0, pwrRegenMax := 0, pwrOut := 0, pwrAux := 20,
    energyOut := 0, energyAux := 0 }

def locoConvQ : Loco ℚ :=
  { pt := .conv fcQ genQ edrvQ, state := locoStQ, assertLimits := true, pwrAuxOffset := 20,
    pwrAuxTractionCoeff := 0 }

def locoBelQ : Loco ℚ :=
  { pt := .bel resQ edrvQ, state := locoStQ, assertLimits := true, pwrAuxOffset := 20,
    pwrAuxTractionCoeff := 0 }

/-- **C09.4** the tractive limit a unit publishes never exceeds its drivetrain rating (which the
    call does not change); a battery unit publishes a regeneration limit in `[0, rating]`
    (the lower bound from the modelled `ensure!`), a conventional unit publishes 0 (from the
    modelled `assert_eq!`). -/
def C09_loco_limits_statement : Prop :=
  ∀ (k : Consts α) (l : Loco α) (dt : α) (l' : Loco α), locoSetCurMax k l dt = .ok l' →
    l'.state.pwrOutMax ≤ l'.pt.edrv.pwrOutMax ∧
    l'.pt.edrv.pwrOutMax = l.pt.edrv.pwrOutMax ∧ l'.pt.isBel = l.pt.isBel ∧
    (l.pt.isBel = true → 0 ≤ l'.state.pwrRegenMax ∧ l'.state.pwrRegenMax ≤ l'.pt.edrv.pwrOutMax) ∧
    (l.pt.isBel = false → l'.state.pwrRegenMax = 0)

theorem C09_loco_limits : C09_loco_limits_statement (α := α) := by
  intro k l dt l' h
  cases hpt : l.pt with
  | conv fc gen edrv =>
    obtain ⟨fc', gen', edrv', hp', _, he, _, _, ⟨eta, ho⟩, hr, hz, hlo, hlr, _, _⟩ :=
      locoSetCurMax_conv_ok hpt h
    rw [hp', hlo, hlr, ho, hr, hz]
    simp only [Powertrain.edrv, Powertrain.isBel, he]
    exact ⟨min_le_left _ _, by simp⟩
  | bel res edrv =>
    obtain ⟨res', edrv', hp', _, he, ⟨eta, ho⟩, ⟨eta2, hr, hr0⟩, hlo, hlr, _, _⟩ :=
      locoSetCurMax_bel_ok hpt h
    rw [hp', hlo, hlr, ho]
    simp only [Powertrain.edrv, Powertrain.isBel, he]
    refine ⟨min_le_left _ _, ?_⟩
    simp only [true_and, forall_const, Bool.true_eq_false, IsEmpty.forall_iff, and_true]
    exact ⟨hr0, by rw [hr]; exact min_le_right _ _⟩

example : ∃ l', locoSetCurMax kQ locoConvQ 1 = .ok l' ∧
    l'.state.pwrOutMax ≤ l'.pt.edrv.pwrOutMax ∧ l'.state.pwrRegenMax = 0 := by
  obtain ⟨l', h⟩ := (isOk_iff _).mp (show (locoSetCurMax kQ locoConvQ 1).isOk = true by
    decide +kernel)
  obtain ⟨a, _, _, _, b⟩ := C09_loco_limits kQ locoConvQ 1 l' h
  exact ⟨l', h, a, b rfl⟩

example : ∃ l', locoSetCurMax kQ locoBelQ 1 = .ok l' ∧
    0 ≤ l'.state.pwrRegenMax ∧ l'.state.pwrRegenMax ≤ l'.pt.edrv.pwrOutMax := by
  obtain ⟨l', h⟩ := (isOk_iff _).mp (show (locoSetCurMax kQ locoBelQ 1).isOk = true by
    decide +kernel)
  obtain ⟨_, _, _, b, _⟩ := C09_loco_limits kQ locoBelQ 1 l' h
  exact ⟨l', h, b rfl⟩

-- the battery unit: limits are capped by the 800 W drivetrain rating
example : okVal (locoSetCurMax kQ locoBelQ 1) (fun l => (l.state.pwrOutMax, l.state.pwrRegenMax))
    = some (800, 800) := by decide +kernel

/-- the chain behind a battery unit's tractive limit: `min rating ((disch − aux)·η)`, so with an
    efficiency in `[0, 1]` it is never below `−aux` ("never negative beyond auxiliary load").
    The efficiency is whatever `interp1d` returns on the drivetrain map (bounded by C08). -/
theorem C09_bel_limit_lower (k : Consts α) (l l' : Loco α) (dt : α) (res : RES α) (edrv : Edrv α)
    (hpt : l.pt = .bel res edrv) (h : locoSetCurMax k l dt = .ok l')
    (hP : 0 ≤ res.pwrOutMax) (haux : 0 ≤ l.state.pwrAux) (hrate : 0 ≤ edrv.pwrOutMax)
    -- the drivetrain map only produces efficiencies in `[0, 1]` (C08)
    (heta : ∀ x xs v, interp1d x xs edrv.etaInterp = .ok v → 0 ≤ v ∧ v ≤ 1) :
    -l.state.pwrAux ≤ l'.state.pwrOutMax := by
  unfold locoSetCurMax at h
  rw [hpt] at h
  simp only [bind_eq_ok] at h
  obtain ⟨res', hres, e1, he1, e2, he2, h⟩ := h
  obtain ⟨_, _, _, hlow, _⟩ := C09_res_limits k res _ 0 0 res' hres hP
  unfold edrvSetCurMax at he1
  simp only [bind_eq_ok, pure_eq_ok, mn_eq_min] at he1
  obtain ⟨cache, _, eta, heta1, rfl⟩ := he1
  obtain ⟨c2, eta2, _, rfl⟩ := edrvSetRegenMax_ok he2
  rw [pure_eq_ok] at h
  subst h
  obtain ⟨e0, e1⟩ := heta _ _ _ heta1
  show -l.state.pwrAux ≤ min edrv.pwrOutMax (res'.state.pwrPropOutMax * eta)
  refine le_min (by linarith) ?_
  by_cases hp : 0 ≤ res'.state.pwrPropOutMax
  · have := mul_nonneg hp e0; linarith
  · have hp' : res'.state.pwrPropOutMax ≤ 0 := (not_le.mp hp).le
    nlinarith [mul_le_mul_of_nonneg_left e1 (neg_nonneg.mpr hp')]

/-- nearly empty battery unit: SOC at `min_soc` (discharge limit 0), auxiliary load 20 W,
    constant drivetrain efficiency 0.9 -/
def resLowQ : RES ℚ := { resQ with state := { resStQ with soc := 1/5 } }
def edrvConstQ : Edrv ℚ := { edrvQ with etaInterp := [9/10, 9/10] }
def locoBelLowQ : Loco ℚ := { locoBelQ with pt := .bel resLowQ edrvConstQ }

-- the published tractive limit is −18 W ≥ −20 W
example : ∃ l', locoSetCurMax kQ locoBelLowQ 1 = .ok l' ∧ -(20 : ℚ) ≤ l'.state.pwrOutMax := by
  obtain ⟨l', h⟩ := (isOk_iff _).mp (show (locoSetCurMax kQ locoBelLowQ 1).isOk = true by
    decide +kernel)
  refine ⟨l', h, C09_bel_limit_lower kQ locoBelLowQ l' 1 resLowQ edrvConstQ rfl h
    (by norm_num [resLowQ, resQ]) (by norm_num [locoBelLowQ, locoBelQ, locoStQ])
    (by norm_num [edrvConstQ, edrvQ]) ?_⟩
  intro x xs v hv
  rw [show edrvConstQ.etaInterp = [9/10, 9/10] from rfl, interp1d_const_two] at hv
  cases hv
  norm_num

example : okVal (locoSetCurMax kQ locoBelLowQ 1) (fun l => l.state.pwrOutMax) = some (-18) := by
  decide +kernel

/-- **C09.4b accepted locomotive step** (either type): the delivered tractive power is exactly the
    request, and the request is at most the drivetrain RATING (exact, upper side only).  Nothing
    at unit level compares the request with the published `state.pwr_out_max`; inside a consist
    the consist-level check does (C09.5a). -/
def C09_loco_step_statement : Prop :=
  ∀ (k : Consts α) (l : Loco α) (req dt : α) (on : Option Bool) (l' : Loco α),
    locoSolve k l req dt on = .ok l' →
    l'.state.pwrOut = req ∧ req ≤ l.pt.edrv.pwrOutMax ∧
    l'.pt.edrv.pwrOutMax = l.pt.edrv.pwrOutMax ∧ l'.state.pwrOutMax = l.state.pwrOutMax

theorem C09_loco_step : C09_loco_step_statement (α := α) := by
  intro k l req dt on l' h
  unfold locoSolve at h
  simp only [bind_eq_ok, pure_eq_ok] at h
  obtain ⟨pt, hpt, rfl⟩ := h
  have key : ∃ e', edrvReq l.pt.edrv req dt = .ok e' ∧ pt.edrv = e' := by
    cases hl : l.pt with
    | conv fc gen edrv =>
      rw [hl] at hpt
      simp only at hpt
      unfold convSolve at hpt
      simp only [bind_eq_ok, pure_eq_ok] at hpt
      obtain ⟨e', he, _, _, _, _, _, _, rfl⟩ := hpt
      exact ⟨e', he, rfl⟩
    | bel res edrv =>
      rw [hl] at hpt
      simp only at hpt
      obtain ⟨res', edrv', _, hp', he, _⟩ := belSolve_inv hpt
      subst hp'
      exact ⟨edrv', he, rfl⟩
  obtain ⟨e', he, hpe⟩ := key
  obtain ⟨a1, a2, a3, a4, a5⟩ := C09_edrv_accept _ req dt e' he
  simp only [hpe]
  exact ⟨a4, a1, a3, trivial⟩

example : ∃ l1 l2, locoSetCurMax kQ locoBelQ 1 = .ok l1 ∧ locoSolve kQ l1 500 1 (some true) = .ok l2 ∧
    l2.state.pwrOut = 500 := by
  obtain ⟨l1, l2, h1, h2⟩ := isOk_bind (show (locoSetCurMax kQ locoBelQ 1 >>= fun l =>
    locoSolve kQ l 500 1 (some true)).isOk = true by decide +kernel)
  exact ⟨l1, l2, h1, h2, (C09_loco_step kQ l1 500 1 (some true) l2 h2).1⟩

/-- "tractive power is within the published locomotive limit" for a STANDALONE unit, in the
    tolerant reading — FALSE (nothing checks it; the component checks sit at other points of the
    chain). -/
def C09_loco_unit_limit_statement : Prop :=
  ∀ (k : Consts α) (l : Loco α) (req dt : α) (on : Option Bool) (l1 l2 : Loco α),
    locoSetCurMax k l dt = .ok l1 → locoSolve k l1 req dt on = .ok l2 →
    AlmostLe req l1.state.pwrOutMax k.tol

/-- battery unit in its low ramp (discharge limit 200 W), auxiliary load 100 W, constant
    drivetrain efficiency 0.9: the published tractive limit is `(200−100)·0.9 = 90 W`; a request of
    90.15 W is accepted (the battery sees `90.15/0.9 + 100 = 200.17 < 200·1.001`), although
    `90.15 ≥ 90·1.001` and `90.15 ≥ 90 + 0.001`.  The gap is `tol·aux·η` here. -/
def locoBelAuxQ : Loco ℚ :=
  { locoBelQ with pt := .bel { resQ with state := { resStQ with soc := 21/100 } } edrvConstQ,
                  state := { locoStQ with pwrAux := 100 } }

theorem C09_loco_unit_limit_counterexample : ¬ C09_loco_unit_limit_statement (α := ℚ) := by
  intro hs
  have hv : okVal (locoSetCurMax kQ locoBelAuxQ 1) (fun l => l.state.pwrOutMax) = some 90 := by
    decide +kernel
  obtain ⟨l1, h1, he⟩ := (okVal_eq_some _ _ _).mp hv
  have h2' : (locoSetCurMax kQ locoBelAuxQ 1 >>= fun l =>
      locoSolve kQ l (9015/100) 1 (some true)).isOk = true := by decide +kernel
  rw [h1] at h2'
  obtain ⟨l2, h2⟩ := (isOk_iff _).mp h2'
  have := hs kQ locoBelAuxQ (9015/100) 1 (some true) l1 l2 h1 h2
  rw [he] at this
  norm_num [AlmostLe, kQ] at this

/-! ## 5. Consist -/

def consStQ : ConsistState ℚ :=
  { pwrOutMax := 0, pwrRateOutMax := 0, pwrRegenMax := 0, pwrOutMaxReves := 0, pwrOutDeficit := 0,
    pwrOutMaxNonReves := 0, pwrRegenDeficit := 0, pwrDynBrakeMax := 1600, pwrOutReq := 0,
    pwrOut := 0, pwrReves := 0, pwrFuel := 0, energyOut := 0, energyOutPos := 0,
    energyOutNeg := 0, energyRes := 0, energyFuel := 0 }

/-- one conventional and one battery unit, proportional split, limit checking on -/
def consQ : Consist ℚ :=
  { locos := [locoConvQ, locoBelQ], pdct := .proportional, assertLimits := true, state := consStQ }

/-- **C09.5a** an accepted consist step with limit checking on: the request is within the published
    consist limit and the braking request within the stored dynamic-braking limit — both EXACT
    comparisons — and the delivered power matches the request up to `almost_eq(…, 1e-8)`.
    Remark: the braking check reads the STORED `state.pwr_dyn_brake_max` (set at construction and
    by the previous step); the step then re-computes it as the sum of the drivetrain ratings
    (`dynBrakeMax`), which no modelled call changes. -/
def C09_consist_accept_statement : Prop :=
  ∀ (k : Consts α) (c : Consist α) (req dt : α) (on : Option Bool) (c' : Consist α),
    consistSolve k c req dt on = .ok c' → c.assertLimits = true →
    req ≤ c.state.pwrOutMax ∧ -req ≤ c.state.pwrDynBrakeMax ∧
    c'.state.pwrOutReq = req ∧ almostEq req c'.state.pwrOut k.eps = true ∧
    c'.state.pwrOutMax = c.state.pwrOutMax ∧ c'.state.pwrDynBrakeMax = dynBrakeMax c.locos

theorem C09_consist_accept : C09_consist_accept_statement (α := α) := by
  intro k c req dt on c' h hA
  obtain ⟨h1, h2, h3, h4, h5, h6⟩ := consistSolve_ok h hA
  exact ⟨h2, h1, h4, h3, h5, h6⟩

/-- **C09.5b** the consist limits are the left-to-right sums of the unit limits just published;
    every unit satisfies C09.4; hence the consist tractive limit is at most the sum of the
    drivetrain ratings. -/
def C09_consist_limits_statement : Prop :=
  ∀ (k : Consts α) (c : Consist α) (dt : α) (c' : Consist α), consistSetCurMax k c dt = .ok c' →
    c'.state.pwrOutMax = sumLeft (c'.locos.map (·.state.pwrOutMax)) ∧
    c'.state.pwrRegenMax = sumLeft (c'.locos.map (·.state.pwrRegenMax)) ∧
    c'.state.pwrOutMaxReves =
      sumLeft (c'.locos.map (fun l => if l.pt.isBel then l.state.pwrOutMax else 0)) ∧
    c'.state.pwrOutMaxNonReves = c'.state.pwrOutMax - c'.state.pwrOutMaxReves ∧
    (∀ l' ∈ c'.locos, ∃ l ∈ c.locos, locoSetCurMax k l dt = .ok l') ∧
    c'.locos.length = c.locos.length ∧
    (∀ l' ∈ c'.locos, l'.state.pwrOutMax ≤ l'.pt.edrv.pwrOutMax) ∧
    c'.state.pwrOutMax ≤ dynBrakeMax c'.locos ∧
    c'.assertLimits = c.assertLimits

theorem C09_consist_limits : C09_consist_limits_statement (α := α) := by
  intro k c dt c' h
  obtain ⟨hm, h1, h2, _, h4, h5, _, h7⟩ := consistSetCurMax_ok h
  have hmem := mapM'_ok_mem _ _ _ hm
  have hunit : ∀ l' ∈ c'.locos, l'.state.pwrOutMax ≤ l'.pt.edrv.pwrOutMax := by
    intro l' hl'
    obtain ⟨l, _, hl⟩ := hmem l' hl'
    exact (C09_loco_limits k l dt l' hl).1
  refine ⟨h1, h2, h4, h5, hmem, mapM'_ok_length _ _ _ hm, hunit, ?_, h7⟩
  rw [h1]
  unfold dynBrakeMax
  rw [sumLeft_eq_sum, sumLeft_eq_sum]
  exact List.sum_le_sum hunit

/-- publish, then solve (limit checking on): request ≤ Σ published unit limits ≤ Σ ratings -/
theorem C09_consist_step (k : Consts α) (c c1 c2 : Consist α) (req dt : α) (on : Option Bool)
    (hA : c.assertLimits = true)
    (h1 : consistSetCurMax k c dt = .ok c1) (h2 : consistSolve k c1 req dt on = .ok c2) :
    req ≤ sumLeft (c1.locos.map (·.state.pwrOutMax)) ∧
    sumLeft (c1.locos.map (·.state.pwrOutMax)) ≤ sumLeft (c1.locos.map (·.pt.edrv.pwrOutMax)) ∧
    -req ≤ c.state.pwrDynBrakeMax := by
  obtain ⟨e1, _, _, _, _, _, _, e8, e9⟩ := C09_consist_limits k c dt c1 h1
  obtain ⟨_, _, _, _, _, _, e7, _⟩ := consistSetCurMax_ok h1
  obtain ⟨a1, a2, _⟩ := C09_consist_accept k c1 req dt on c2 h2 (e9.trans hA)
  rw [e1] at a1 e8
  rw [e7] at a2
  exact ⟨a1, e8, a2⟩

example : ∃ c1 c2, consistSetCurMax kQ consQ 1 = .ok c1 ∧
    consistSolve kQ c1 200 1 (some true) = .ok c2 ∧
    (200 : ℚ) ≤ sumLeft (c1.locos.map (·.state.pwrOutMax)) := by
  obtain ⟨c1, c2, h1, h2⟩ := isOk_bind (show (consistSetCurMax kQ consQ 1 >>= fun c =>
    consistSolve kQ c 200 1 (some true)).isOk = true by decide +kernel)
  exact ⟨c1, c2, h1, h2, (C09_consist_step kQ consQ c1 c2 200 1 (some true) rfl h1 h2).1⟩

-- braking 1000 W is accepted (≤ 1600 W stored limit), 1700 W is refused
example : (consistSetCurMax kQ consQ 1 >>= fun c =>
    consistSolve kQ c (-1000) 1 (some true)).isOk = true := by decide +kernel
example : (consistSetCurMax kQ consQ 1 >>= fun c =>
    consistSolve kQ c (-1700) 1 (some true)).isOk = false := by decide +kernel

/-! ## 6. SOC window

  `soc' = soc − chem·dt/E`, `chem = elec/η` when discharging (`elec > 0`), `elec·η` otherwise.
  The limit checks bound `elec` by the SOC-derated limits *at the start of the step*; whether the
  step can leave the window therefore depends on the step size: hypothesis `H_dt` ("one step at
  `(1+tol)·rating` does not cross the whole ramp") is FORCED (`C09_soc_window_counterexample`).
  The absolute branch of `almost_le` (`a < b + tol`) admits `tol` watts beyond a limit of 0 W:
  this is the slack `δ`. -/

/-- `r.state` carries the limits `resSetCurMax` publishes, in the closed form of C09.3c, on
    non-degenerate increasing grids (knots as stored in the state) -/
structure Published (r : RES α) : Prop where
  lo : r.state.minSoc < r.state.socLoRampStart
  hi : r.state.socHiRampStart < r.state.maxSoc
  disch : r.state.pwrDischMax =
    dischRamp r.pwrOutMax r.state.minSoc r.state.socLoRampStart r.state.soc
  charge : r.state.pwrChargeMax =
    chargeRamp r.pwrOutMax r.state.socHiRampStart r.state.maxSoc r.state.soc

/-- `resSetCurMax` on non-degenerate increasing grids establishes `Published` -/
theorem published_of_setCurMax (k : Consts α) (r r' : RES α) (aux cb db : α)
    (h : resSetCurMax k r aux cb db = .ok r')
    (hlo : sMin r cb < sLo k r cb) (hhi : sHi k r db < sMax r db) : Published r' := by
  obtain ⟨r'', h', hd, hc⟩ := C09_res_derating k r aux cb db hlo hhi
  rw [h] at h'; cases h'
  obtain ⟨e6, e7, e8, e9, e10, e11⟩ := C09_res_knots k r aux cb db r' h
  exact ⟨by rw [e8, e9]; exact hlo, by rw [e10, e11]; exact hhi,
    by rw [hd, e6, e7, e8, e9], by rw [hc, e6, e7, e10, e11]⟩

/-- **C09.6a one accepted battery step** (general form: also from OUTSIDE the window).
    With `δ↓ = tol·dt/(ηlo·E)` and `δ↑ = tol·ηhi·dt/E`:
    `min soc minSoc − δ↓ ≤ soc' ≤ max soc maxSoc + δ↑`. -/
def C09_soc_step_statement : Prop :=
  ∀ (k : Consts α) (r : RES α) (prop aux dt : α) (r' : RES α) (etaLo etaHi : α),
    resSolve k r prop aux dt = .ok r' → Published r →
    0 ≤ r.pwrOutMax → 0 ≤ k.tol → 0 < dt → 0 < r.energyCapacity →
    -- FORCED: the chemical power is `elec/η`; a small efficiency drains faster than `H_dt` allows
    0 < etaLo → etaLo ≤ r'.state.eta → r'.state.eta ≤ etaHi →
    -- FORCED (`C09_soc_window_counterexample`): step-size bounds, the domain bound on `dt`
    r.pwrOutMax * (1 + k.tol) * dt ≤
      etaLo * r.energyCapacity * (r.state.socLoRampStart - r.state.minSoc) →
    r.pwrOutMax * etaHi * dt ≤ r.energyCapacity * (r.state.maxSoc - r.state.socHiRampStart) →
    min r.state.soc r.state.minSoc - k.tol * dt / (etaLo * r.energyCapacity) ≤ r'.state.soc ∧
    r'.state.soc ≤ max r.state.soc r.state.maxSoc + k.tol * etaHi * dt / r.energyCapacity

/-- the step in terms of an arbitrary absolute slack `a` on the two transient checks -/
theorem soc_step_core (k : Consts α) (r : RES α) (prop aux dt : α) (r' : RES α)
    (etaLo etaHi a : α) (h : resSolve k r prop aux dt = .ok r') (hp : Published r)
    (hP : 0 ≤ r.pwrOutMax) (ha : 0 ≤ a) (hdt : 0 < dt) (hcap : 0 < r.energyCapacity)
    (hlo : 0 < etaLo) (heta1 : etaLo ≤ r'.state.eta) (heta2 : r'.state.eta ≤ etaHi)
    (hD : 0 < prop + aux → prop + aux ≤ r.state.pwrDischMax * (1 + k.tol) + a)
    (hC : prop + aux < 0 → -(prop + aux) ≤ r.state.pwrChargeMax + a)
    (H1 : r.pwrOutMax * (1 + k.tol) * dt ≤
      etaLo * r.energyCapacity * (r.state.socLoRampStart - r.state.minSoc))
    (H2 : r.pwrOutMax * etaHi * dt ≤
      r.energyCapacity * (r.state.maxSoc - r.state.socHiRampStart)) :
    min r.state.soc r.state.minSoc - a * dt / (etaLo * r.energyCapacity) ≤ r'.state.soc ∧
    r'.state.soc ≤ max r.state.soc r.state.maxSoc + a * etaHi * dt / r.energyCapacity := by
  obtain ⟨_, _, _, _, eta, _, hr'⟩ := resSolve_ok h
  have heta : r'.state.eta = eta := by rw [hr']
  have hsoc : r'.state.soc = r.state.soc - chem (prop + aux) eta * dt / r.energyCapacity := by
    rw [hr']; rfl
  rw [heta] at heta1 heta2
  rw [hsoc]
  constructor
  · exact soc_lower_core _ _ _ _ _ _ _ _ _ _ _ hdt hcap hlo heta1 ha hp.lo
      (by rw [← hp.disch]; exact hD) H1
  · exact soc_upper_core _ _ _ _ _ _ _ _ _ _ hdt hcap (hlo.le.trans heta1) heta2 hP ha hp.hi
      (by rw [← hp.charge]; exact hC) H2

theorem C09_soc_step : C09_soc_step_statement (α := α) := by
  intro k r prop aux dt r' etaLo etaHi h hp hP htol hdt hcap hlo heta1 heta2 H1 H2
  obtain ⟨hd, hc, _⟩ := C09_res_accept k r prop aux dt r' h
  have hD0 : 0 ≤ r.state.pwrDischMax := by
    rw [hp.disch]; exact dischRamp_nonneg _ _ _ _ hp.lo hP
  have hC0 : 0 ≤ r.state.pwrChargeMax := by
    rw [hp.charge]; exact chargeRamp_nonneg _ _ _ _ hp.hi hP
  exact soc_step_core k r prop aux dt r' etaLo etaHi k.tol h hp hP htol hdt hcap hlo heta1 heta2
    (fun h0 => ((hd h0.le).2.lt_add hD0 htol).le)
    (fun h0 => ((hc h0).2.neg_lt_add hC0 htol).le) H1 H2

/-- **C09.6b `soc_window_partial`** (the form of the property): a step that starts inside the
    window ends inside `[minSoc − δ, maxSoc + δ]`, `δ = tol·dt/(ηmin·E)`. -/
def soc_window_partial_statement : Prop :=
  ∀ (k : Consts α) (r : RES α) (prop aux dt : α) (r' : RES α) (etaMin : α),
    resSolve k r prop aux dt = .ok r' → Published r →
    0 ≤ r.pwrOutMax → 0 ≤ k.tol → 0 < dt → 0 < r.energyCapacity →
    0 < etaMin → etaMin ≤ r'.state.eta → r'.state.eta ≤ 1 →
    r.state.minSoc ≤ r.state.soc → r.state.soc ≤ r.state.maxSoc →
    -- H_dt_lo, H_dt_hi: FORCED (`C09_soc_window_counterexample`)
    r.pwrOutMax * (1 + k.tol) * dt ≤
      etaMin * r.energyCapacity * (r.state.socLoRampStart - r.state.minSoc) →
    r.pwrOutMax * (1 + k.tol) * dt ≤
      r.energyCapacity * (r.state.maxSoc - r.state.socHiRampStart) →
    r.state.minSoc - k.tol * dt / (etaMin * r.energyCapacity) ≤ r'.state.soc ∧
    r'.state.soc ≤ r.state.maxSoc + k.tol * dt / (etaMin * r.energyCapacity)

theorem soc_window_partial : soc_window_partial_statement (α := α) := by
  intro k r prop aux dt r' etaMin h hp hP htol hdt hcap hlo heta1 heta2 hs1 hs2 H1 H2
  have H2' : r.pwrOutMax * 1 * dt ≤
      r.energyCapacity * (r.state.maxSoc - r.state.socHiRampStart) := by
    refine le_trans ?_ H2
    have : 0 ≤ r.pwrOutMax * k.tol * dt := mul_nonneg (mul_nonneg hP htol) hdt.le
    nlinarith
  obtain ⟨l, u⟩ := C09_soc_step k r prop aux dt r' etaMin 1 h hp hP htol hdt hcap hlo heta1 heta2
    H1 H2'
  rw [min_eq_right hs1] at l
  rw [max_eq_right hs2] at u
  refine ⟨l, u.trans ?_⟩
  have hm1 : etaMin ≤ 1 := heta1.trans heta2
  have : k.tol * 1 * dt / r.energyCapacity ≤ k.tol * dt / (etaMin * r.energyCapacity) := by
    rw [mul_one]
    apply div_le_div_of_nonneg_left (mul_nonneg htol hdt.le) (mul_pos hlo hcap)
    calc etaMin * r.energyCapacity ≤ 1 * r.energyCapacity :=
          mul_le_mul_of_nonneg_right hm1 hcap.le
      _ = r.energyCapacity := one_mul _
  linarith

/-- **C09.6c** if the two transient checks pass on their RELATIVE branch alone
    (`elec < disch·(1+tol)`, resp. `elec > −charge·(1−tol)`), there is no slack at all:
    `min soc minSoc ≤ soc' ≤ max soc maxSoc`; in particular `[minSoc, maxSoc]` is exactly
    invariant. -/
theorem C09_soc_step_relative (k : Consts α) (r : RES α) (prop aux dt : α) (r' : RES α)
    (etaLo etaHi : α) (h : resSolve k r prop aux dt = .ok r') (hp : Published r)
    (hP : 0 ≤ r.pwrOutMax) (htol : 0 ≤ k.tol) (hdt : 0 < dt) (hcap : 0 < r.energyCapacity)
    (hlo : 0 < etaLo) (heta1 : etaLo ≤ r'.state.eta) (heta2 : r'.state.eta ≤ etaHi)
    (hrelD : 0 < prop + aux → prop + aux < r.state.pwrDischMax * (1 + k.tol))
    (hrelC : prop + aux < 0 → -r.state.pwrChargeMax * (1 - k.tol) < prop + aux)
    (H1 : r.pwrOutMax * (1 + k.tol) * dt ≤
      etaLo * r.energyCapacity * (r.state.socLoRampStart - r.state.minSoc))
    (H2 : r.pwrOutMax * etaHi * dt ≤
      r.energyCapacity * (r.state.maxSoc - r.state.socHiRampStart)) :
    min r.state.soc r.state.minSoc ≤ r'.state.soc ∧
    r'.state.soc ≤ max r.state.soc r.state.maxSoc := by
  have hC0 : 0 ≤ r.state.pwrChargeMax := by
    rw [hp.charge]; exact chargeRamp_nonneg _ _ _ _ hp.hi hP
  have := soc_step_core k r prop aux dt r' etaLo etaHi 0 h hp hP (le_refl _) hdt hcap hlo heta1
    heta2 (fun h0 => by linarith [hrelD h0])
    (fun h0 => by nlinarith [hrelC h0, mul_nonneg hC0 htol]) H1 H2
  simpa using this

/-! ### ℚ instances of the single step -/

deriving instance DecidableEq for Altrios.PT.ResState
deriving instance DecidableEq for Altrios.PT.RES
deriving instance DecidableEq for Altrios.Res

/-- `resQ` after `resSetCurMax kQ resQ 50 0 0` (SOC 0.5: both limits at the rating) -/
def resPubQ : RES ℚ :=
  { resQ with
    socHiRampStart := some (3/4), socLoRampStart := some (1/4),
    state := { resStQ with
      socLoRampStart := 1/4, minSoc := 1/5, socHiRampStart := 3/4, maxSoc := 4/5,
      pwrDischMax := 1000, pwrChargeMax := 1000, pwrPropOutMax := 950, pwrRegenOutMax := 1050 } }

example : resSetCurMax kQ resQ 50 0 0 = .ok resPubQ := by decide +kernel

theorem published_resPubQ : Published resPubQ := by
  constructor <;> norm_num [resPubQ, resQ, resStQ, dischRamp, chargeRamp]

-- non-vacuity of `soc_window_partial`: 750 W for 1 s out of a 1 kWh battery at SOC 0.5
example : ∃ r', resSolve kQ resPubQ 700 50 1 = .ok r' ∧
    resPubQ.state.minSoc - kQ.tol * 1 / (9/10 * resPubQ.energyCapacity) ≤ r'.state.soc ∧
    r'.state.soc ≤ resPubQ.state.maxSoc + kQ.tol * 1 / (9/10 * resPubQ.energyCapacity) := by
  have hv : okVal (resSolve kQ resPubQ 700 50 1) (fun r => r.state.eta) = some (9/10) := by
    decide +kernel
  obtain ⟨r', h, he⟩ := (okVal_eq_some _ _ _).mp hv
  refine ⟨r', h, soc_window_partial kQ resPubQ 700 50 1 r' (9/10) h published_resPubQ ?_ ?_ ?_ ?_
    ?_ ?_ ?_ ?_ ?_ ?_ ?_⟩
  · norm_num [resPubQ, resQ]
  · norm_num [kQ]
  · norm_num
  · norm_num [resPubQ, resQ]
  · norm_num
  · rw [he]
  · rw [he]; norm_num
  · norm_num [resPubQ, resQ, resStQ]
  · norm_num [resPubQ, resQ, resStQ]
  · norm_num [resPubQ, resQ, resStQ, kQ]
  · norm_num [resPubQ, resQ, resStQ, kQ]

example : okVal (resSolve kQ resPubQ 700 50 1) (fun r => r.state.soc) =
    some (1/2 - (750 / (9/10)) * 1 / 3600000) := by decide +kernel

/-- the window clause WITHOUT the step-size hypotheses — FALSE -/
def C09_soc_window_statement : Prop :=
  ∀ (k : Consts α) (r : RES α) (prop aux dt : α) (r' : RES α) (etaMin : α),
    resSolve k r prop aux dt = .ok r' → Published r →
    0 ≤ r.pwrOutMax → 0 ≤ k.tol → 0 < dt → 0 < r.energyCapacity →
    0 < etaMin → etaMin ≤ r'.state.eta → r'.state.eta ≤ 1 →
    r.state.minSoc ≤ r.state.soc → r.state.soc ≤ r.state.maxSoc →
    r.state.minSoc - k.tol * dt / (etaMin * r.energyCapacity) ≤ r'.state.soc ∧
    r'.state.soc ≤ r.state.maxSoc + k.tol * dt / (etaMin * r.energyCapacity)

/-- a 1 kW battery of only 1000 J at SOC 0.5 (limits at the rating, all checks pass) asked for
    900 W during 1 s at efficiency 0.9 ends at SOC −0.5: far below `min_soc = 0.2`.
    (`H_dt_lo` fails: `1000·1.001·1 > 0.9·1000·0.05`.) -/
theorem C09_soc_window_counterexample : ¬ C09_soc_window_statement (α := ℚ) := by
  intro hs
  have hp : Published { resPubQ with energyCapacity := 1000 } := by
    constructor <;> norm_num [resPubQ, resQ, resStQ, dischRamp, chargeRamp]
  have hv : okVal (resSolve kQ { resPubQ with energyCapacity := 1000 } 900 0 1)
      (fun r => (r.state.eta, r.state.soc)) = some (9/10, -1/2) := by decide +kernel
  obtain ⟨r', h, he⟩ := (okVal_eq_some _ _ _).mp hv
  have he1 : r'.state.eta = 9/10 := congrArg Prod.fst he
  have he2 : r'.state.soc = -1/2 := congrArg Prod.snd he
  have := (hs kQ _ 900 0 1 r' (9/10) h hp (by norm_num [resPubQ, resQ]) (by norm_num [kQ])
    (by norm_num) (by norm_num) (by norm_num) (by rw [he1]) (by rw [he1]; norm_num)
    (by norm_num [resPubQ, resQ, resStQ]) (by norm_num [resPubQ, resQ, resStQ])).1
  rw [he2] at this
  norm_num [resPubQ, resQ, resStQ, kQ] at this

/-! ### Runs: `set_cur_pwr_out_max; solve_energy_consumption` repeated -/

section run
variable {β : Type} [Add β] [Sub β] [Mul β] [Div β] [Neg β] [LT β] [LE β]
  [DecidableLT β] [DecidableLE β] [OfNat β 0] [OfNat β 1]

/-- inputs of one battery step: the auxiliary load used when publishing the limits, the
    propulsion and auxiliary power requested, the step size -/
structure Step (β : Type) where
  auxLim : β
  prop : β
  aux : β
  dt : β

/-- one step as the battery locomotive drives its battery: publish the limits without buffers,
    then solve -/
def resStep (k : Consts β) (r : RES β) (s : Step β) : Res (RES β) := do
  let r1 ← resSetCurMax k r s.auxLim 0 0
  resSolve k r1 s.prop s.aux s.dt

/-- a sequence of steps; the first rejected step aborts -/
def resRun (k : Consts β) : RES β → List (Step β) → Res (RES β)
  | r, [] => .ok r
  | r, s :: ss => do
    let r' ← resStep k r s
    resRun k r' ss

end run

/-- sane static configuration of a battery: `minSoc < lo ≤ maxSoc`, `minSoc ≤ hi < maxSoc`,
    non-negative rating, positive capacity -/
structure Cfg (k : Consts α) (r : RES α) : Prop where
  lo : r.minSoc < resLo k r
  lo' : resLo k r ≤ r.maxSoc
  hi : r.minSoc ≤ resHi k r
  hi' : resHi k r < r.maxSoc
  rating : 0 ≤ r.pwrOutMax
  cap : 0 < r.energyCapacity

/-- the parameters (everything the limits and the efficiency lookup depend on) agree -/
structure SameCfg (k : Consts α) (r r' : RES α) : Prop where
  pwrOutMax : r'.pwrOutMax = r.pwrOutMax
  energyCapacity : r'.energyCapacity = r.energyCapacity
  capWh : r'.capWh = r.capWh
  minSoc : r'.minSoc = r.minSoc
  maxSoc : r'.maxSoc = r.maxSoc
  lo : resLo k r' = resLo k r
  hi : resHi k r' = resHi k r
  gridT : r'.gridT = r.gridT
  gridSoc : r'.gridSoc = r.gridSoc
  gridC : r'.gridC = r.gridC
  etaVals : r'.etaVals = r.etaVals

theorem SameCfg.refl (k : Consts α) (r : RES α) : SameCfg k r r :=
  ⟨rfl, rfl, rfl, rfl, rfl, rfl, rfl, rfl, rfl, rfl, rfl⟩

theorem SameCfg.trans {k : Consts α} {r1 r2 r3 : RES α} (a : SameCfg k r1 r2)
    (b : SameCfg k r2 r3) : SameCfg k r1 r3 :=
  ⟨b.1.trans a.1, b.2.trans a.2, b.3.trans a.3, b.4.trans a.4, b.5.trans a.5, b.6.trans a.6,
   b.7.trans a.7, b.8.trans a.8, b.9.trans a.9, b.10.trans a.10, b.11.trans a.11⟩

theorem sameCfg_setCurMax {k : Consts α} {r r' : RES α} {aux cb db : α}
    (h : resSetCurMax k r aux cb db = .ok r') : SameCfg k r r' := by
  obtain ⟨d, c, _, _, rfl⟩ := resSetCurMax_ok h
  exact ⟨rfl, rfl, rfl, rfl, rfl, rfl, rfl, rfl, rfl, rfl, rfl⟩

theorem sameCfg_solve {k : Consts α} {r r' : RES α} {prop aux dt : α}
    (h : resSolve k r prop aux dt = .ok r') : SameCfg k r r' := by
  obtain ⟨_, _, _, _, eta, _, rfl⟩ := resSolve_ok h
  exact ⟨rfl, rfl, rfl, rfl, rfl, rfl, rfl, rfl, rfl, rfl, rfl⟩

theorem Cfg.of_same {k : Consts α} {r r' : RES α} (c : Cfg k r) (s : SameCfg k r r') :
    Cfg k r' := by
  refine ⟨?_, ?_, ?_, ?_, ?_, ?_⟩
  · rw [s.minSoc, s.lo]; exact c.lo
  · rw [s.maxSoc, s.lo]; exact c.lo'
  · rw [s.minSoc, s.hi]; exact c.hi
  · rw [s.maxSoc, s.hi]; exact c.hi'
  · rw [s.pwrOutMax]; exact c.rating
  · rw [s.energyCapacity]; exact c.cap

/-- every efficiency the table lookup can return lies in `[lo, hi]` (C08 gives this from the
    table entries) -/
def EtaRange (r : RES α) (lo hi : α) : Prop :=
  ∀ T s c v, interp3d T s c r.gridT r.gridSoc r.gridC r.etaVals = .ok v → lo ≤ v ∧ v ≤ hi

theorem EtaRange.of_same {k : Consts α} {r r' : RES α} {lo hi : α} (e : EtaRange r lo hi)
    (s : SameCfg k r r') : EtaRange r' lo hi := by
  intro T x c v hv
  rw [s.gridT, s.gridSoc, s.gridC, s.etaVals] at hv
  exact e T x c v hv

/-- the step-size condition `H_dt` for a step of size `dt`, in terms of the static
    configuration: one step at `(1+tol)·rating` (resp. `ηhi·rating`) does not cross the whole low
    (resp. high) ramp -/
def DtOK (k : Consts α) (r : RES α) (etaLo etaHi dt : α) : Prop :=
  0 < dt ∧
  r.pwrOutMax * (1 + k.tol) * dt ≤ etaLo * r.energyCapacity * (resLo k r - r.minSoc) ∧
  r.pwrOutMax * etaHi * dt ≤ r.energyCapacity * (r.maxSoc - resHi k r)

theorem DtOK.of_same {k : Consts α} {r r' : RES α} {lo hi dt : α}
    (e : DtOK k r lo hi dt) (c : SameCfg k r r') : DtOK k r' lo hi dt := by
  unfold DtOK
  rw [c.pwrOutMax, c.energyCapacity, c.lo, c.hi, c.minSoc, c.maxSoc]
  exact e

/-- `DtOK` for the step size of a `Step` -/
def StepOK (k : Consts α) (r : RES α) (etaLo etaHi : α) (s : Step α) : Prop :=
  DtOK k r etaLo etaHi s.dt

theorem StepOK.of_same {k : Consts α} {r r' : RES α} {lo hi : α} {s : Step α}
    (e : StepOK k r lo hi s) (c : SameCfg k r r') : StepOK k r' lo hi s :=
  DtOK.of_same e c

/-- **C09.6d one `resStep`** under a sane configuration: the single-step bound with the static
    window `[r.minSoc, r.maxSoc]`, and the configuration is preserved. -/
theorem C09_soc_resStep (k : Consts α) (r r' : RES α) (s : Step α) (etaLo etaHi : α)
    (h : resStep k r s = .ok r') (c : Cfg k r) (he : EtaRange r etaLo etaHi)
    (hlo : 0 < etaLo) (htol : 0 ≤ k.tol) (hs : StepOK k r etaLo etaHi s) :
    SameCfg k r r' ∧
    min r.state.soc r.minSoc - k.tol * s.dt / (etaLo * r.energyCapacity) ≤ r'.state.soc ∧
    r'.state.soc ≤ max r.state.soc r.maxSoc + k.tol * etaHi * s.dt / r.energyCapacity := by
  unfold resStep at h
  obtain ⟨r1, h1, h2⟩ := (bind_eq_ok _ _ _).mp h
  have s1 := sameCfg_setCurMax h1
  have s2 := sameCfg_solve h2
  obtain ⟨k1, k2, k3, k4⟩ := knots_no_buffer k r (c.lo.le.trans c.lo') c.lo' c.hi
  obtain ⟨e1, e2, e3, e4, e5, e6⟩ := C09_res_knots k r s.auxLim 0 0 r1 h1
  rw [k1] at e3; rw [k2] at e4; rw [k3] at e5; rw [k4] at e6
  have hp : Published r1 := published_of_setCurMax k r r1 s.auxLim 0 0 h1
    (by rw [k1, k2]; exact c.lo) (by rw [k3, k4]; exact c.hi')
  obtain ⟨_, _, _, _, eta, heta, hr'⟩ := resSolve_ok h2
  have hetaeq : r'.state.eta = eta := by rw [hr']
  have hrange := (he.of_same s1) _ _ _ _ heta
  obtain ⟨hdt, H1, H2⟩ := hs
  have := C09_soc_step k r1 s.prop s.aux s.dt r' etaLo etaHi h2 hp
    (by rw [e1]; exact c.rating) htol hdt (by rw [s1.energyCapacity]; exact c.cap) hlo
    (by rw [hetaeq]; exact hrange.1) (by rw [hetaeq]; exact hrange.2)
    (by rw [e1, e3, e4, s1.energyCapacity]; exact H1)
    (by rw [e1, e5, e6, s1.energyCapacity]; exact H2)
  rw [e2, e3, e6, s1.energyCapacity] at this
  exact ⟨s1.trans s2, this⟩

/-- total simulated time of a run -/
def totalDt (steps : List (Step α)) : α := (steps.map (·.dt)).sum

/-- **C09.6e any accepted run** (this IS inductive): the slack grows with the elapsed time,
    `minSoc − tol·T/(ηlo·E) ≤ soc_T ≤ maxSoc + tol·ηhi·T/E` for a run of total duration `T` that
    starts inside the window (stated from any start: `min soc₀ minSoc`, `max soc₀ maxSoc`).
    The invariant with a CONSTANT slack is not inductive at this level
    (`C09_soc_run_const_slack_counterexample`). -/
def C09_soc_run_statement : Prop :=
  ∀ (k : Consts α) (r r' : RES α) (steps : List (Step α)) (etaLo etaHi : α),
    resRun k r steps = .ok r' → Cfg k r → EtaRange r etaLo etaHi → 0 < etaLo → 0 ≤ k.tol →
    (∀ s ∈ steps, StepOK k r etaLo etaHi s) →
    SameCfg k r r' ∧
    min r.state.soc r.minSoc - k.tol * totalDt steps / (etaLo * r.energyCapacity) ≤ r'.state.soc ∧
    r'.state.soc ≤ max r.state.soc r.maxSoc + k.tol * etaHi * totalDt steps / r.energyCapacity

theorem C09_soc_run : C09_soc_run_statement (α := α) := by
  intro k r r' steps etaLo etaHi h c he hlo htol hs
  induction steps generalizing r with
  | nil =>
    rw [resRun] at h; cases h
    simp only [totalDt, List.map_nil, List.sum_nil, mul_zero, zero_div, sub_zero, add_zero]
    exact ⟨SameCfg.refl k _, min_le_left _ _, le_max_left _ _⟩
  | cons s ss ih =>
    rw [resRun] at h
    obtain ⟨r1, h1, h2⟩ := (bind_eq_ok _ _ _).mp h
    have hs0 := hs s (by simp)
    obtain ⟨sc, l1, u1⟩ := C09_soc_resStep k r r1 s etaLo etaHi h1 c he hlo htol hs0
    obtain ⟨sc2, l2, u2⟩ := ih r1 h2 (c.of_same sc) (he.of_same sc)
      (fun s' hs' => (hs s' (by simp [hs'])).of_same sc)
    rw [sc.minSoc, sc.energyCapacity] at l2
    rw [sc.maxSoc, sc.energyCapacity] at u2
    have hq : 0 < etaLo * r.energyCapacity := mul_pos hlo c.cap
    have hhi : 0 ≤ etaHi := by
      -- `etaLo ≤ etaHi` because the step produced an efficiency in the range
      unfold resStep at h1
      obtain ⟨r0, h10, h11⟩ := (bind_eq_ok _ _ _).mp h1
      obtain ⟨_, _, _, _, eta, heta, _⟩ := resSolve_ok h11
      have := (he.of_same (sameCfg_setCurMax h10)) _ _ _ _ heta
      linarith [this.1, this.2]
    have e : totalDt (s :: ss) = s.dt + totalDt ss := by
      simp [totalDt]
    have d1 : 0 ≤ k.tol * s.dt / (etaLo * r.energyCapacity) :=
      div_nonneg (mul_nonneg htol hs0.1.le) hq.le
    have d2 : 0 ≤ k.tol * etaHi * s.dt / r.energyCapacity :=
      div_nonneg (mul_nonneg (mul_nonneg htol hhi) hs0.1.le) c.cap.le
    refine ⟨sc.trans sc2, ?_, ?_⟩
    · -- min soc₀ m − δ₁ ≤ min soc₁ m
      have hm : min r.state.soc r.minSoc - k.tol * s.dt / (etaLo * r.energyCapacity)
          ≤ min r1.state.soc r.minSoc :=
        le_min l1 (by linarith [min_le_right r.state.soc r.minSoc])
      have : k.tol * (s.dt + totalDt ss) / (etaLo * r.energyCapacity) =
          k.tol * s.dt / (etaLo * r.energyCapacity)
            + k.tol * totalDt ss / (etaLo * r.energyCapacity) := by ring
      rw [e, this]
      linarith
    · have hm : max r1.state.soc r.maxSoc ≤
          max r.state.soc r.maxSoc + k.tol * etaHi * s.dt / r.energyCapacity :=
        max_le u1 (by linarith [le_max_right r.state.soc r.maxSoc])
      have : k.tol * etaHi * (s.dt + totalDt ss) / r.energyCapacity =
          k.tol * etaHi * s.dt / r.energyCapacity
            + k.tol * etaHi * totalDt ss / r.energyCapacity := by ring
      rw [e, this]
      linarith

/-! ### ℚ instances of the run theorem -/

theorem cfg_resQ (soc : ℚ) : Cfg kQ { resQ with state := { resStQ with soc := soc } } := by
  constructor <;> norm_num [resLo, resHi, resQ, kQ]

theorem etaRange_resQ (soc : ℚ) :
    EtaRange { resQ with state := { resStQ with soc := soc } } (9/10) (9/10) := by
  intro T s c v hv
  rw [show ({ resQ with state := { resStQ with soc := soc } } : RES ℚ).gridT = [0] from rfl,
    show ({ resQ with state := { resStQ with soc := soc } } : RES ℚ).gridSoc = [0] from rfl,
    show ({ resQ with state := { resStQ with soc := soc } } : RES ℚ).gridC = [0] from rfl,
    show ({ resQ with state := { resStQ with soc := soc } } : RES ℚ).etaVals = [[[9/10]]] from rfl,
    interp3d_single] at hv
  cases hv
  exact ⟨le_refl _, le_refl _⟩

/-- discharge 750 W for 1 s, charge 600 W for 2 s, idle 1 s -/
def stepsQ : List (Step ℚ) :=
  [⟨50, 700, 50, 1⟩, ⟨50, -650, 50, 2⟩, ⟨0, 0, 0, 1⟩]

example : ∃ r', resRun kQ resQ stepsQ = .ok r' ∧
    resQ.minSoc - kQ.tol * 4 / (9/10 * resQ.energyCapacity) ≤ r'.state.soc ∧
    r'.state.soc ≤ resQ.maxSoc + kQ.tol * (9/10) * 4 / resQ.energyCapacity := by
  obtain ⟨r', h⟩ := (isOk_iff _).mp (show (resRun kQ resQ stepsQ).isOk = true by decide +kernel)
  obtain ⟨_, l, u⟩ := C09_soc_run kQ resQ r' stepsQ (9/10) (9/10) h (cfg_resQ (1/2))
    (etaRange_resQ (1/2)) (by norm_num) (by norm_num [kQ]) (by
      intro s hs
      simp only [stepsQ, List.mem_cons, List.not_mem_nil, or_false] at hs
      rcases hs with rfl | rfl | rfl <;>
        norm_num [StepOK, DtOK, resLo, resHi, resQ, kQ])
  have e : totalDt stepsQ = 4 := by norm_num [totalDt, stepsQ]
  rw [e] at l u
  have e1 : min resQ.state.soc resQ.minSoc = resQ.minSoc := by norm_num [resQ, resStQ]
  have e2 : max resQ.state.soc resQ.maxSoc = resQ.maxSoc := by norm_num [resQ, resStQ]
  rw [e1] at l; rw [e2] at u
  exact ⟨r', h, l, u⟩

/-- "every accepted run that starts inside the window stays within the ONE-step slack
    `δ = tol·dtMax/(ηlo·E)`" — FALSE for the bare battery calls: the slack accumulates. -/
def C09_soc_run_const_slack_statement : Prop :=
  ∀ (k : Consts α) (r r' : RES α) (steps : List (Step α)) (etaLo etaHi dtMax : α),
    resRun k r steps = .ok r' → Cfg k r → EtaRange r etaLo etaHi → 0 < etaLo → 0 ≤ k.tol →
    (∀ s ∈ steps, StepOK k r etaLo etaHi s ∧ s.dt ≤ dtMax) →
    r.minSoc ≤ r.state.soc → r.state.soc ≤ r.maxSoc →
    r.minSoc - k.tol * dtMax / (etaLo * r.energyCapacity) ≤ r'.state.soc

/-- battery exactly at `min_soc` (discharge limit 0 W), no propulsion, an auxiliary load of
    0.9 mW: accepted by the absolute branch `0.0009 < 0 + 0.001` of `almost_le`, step after step
    (below `min_soc` the SOC guard only requires `prop ≤ 0`).  After two 1 s steps SOC is
    `1.8·δ` below `min_soc`. -/
theorem C09_soc_run_const_slack_counterexample :
    ¬ C09_soc_run_const_slack_statement (α := ℚ) := by
  intro hs
  have hv : okVal (resRun kQ { resQ with state := { resStQ with soc := 1/5 } }
      [⟨0, 0, 9/10000, 1⟩, ⟨0, 0, 9/10000, 1⟩]) (fun r => r.state.soc)
      = some (1/5 - 1/1800000000) := by decide +kernel
  obtain ⟨r', h, he⟩ := (okVal_eq_some _ _ _).mp hv
  have := hs kQ _ r' _ (9/10) (9/10) 1 h (cfg_resQ (1/5)) (etaRange_resQ (1/5)) (by norm_num)
    (by norm_num [kQ]) (by
      intro s hs
      simp only [List.mem_cons, List.not_mem_nil, or_false] at hs
      rcases hs with rfl | rfl <;> norm_num [StepOK, DtOK, resLo, resHi, resQ, kQ])
    (by norm_num [resQ, resStQ]) (by norm_num [resQ, resStQ])
  rw [he] at this
  norm_num [resQ, kQ] at this

/-! ### At the LOCOMOTIVE level the window with a constant slack IS inductive

  `belSolve` never lets the battery supply auxiliary power the published propulsion limit does
  not cover when the drivetrain input is `≤ 0` (`aux' = max (min aux (prop_out_max − pin)) 0`),
  and the SOC guards refuse traction below `min_soc` / regeneration above `max_soc`.  Hence a
  step that STARTS outside the window never moves SOC further out, and the one-step slack does
  not accumulate — provided the auxiliary load is non-negative. -/

theorem res_prop_eq (k : Consts α) (r r' : RES α) (aux cb db : α)
    (h : resSetCurMax k r aux cb db = .ok r') :
    r'.state.pwrPropOutMax = r'.state.pwrDischMax - aux := by
  obtain ⟨d, c, _, _, rfl⟩ := resSetCurMax_ok h
  rfl

/-- **C09.6f** outside the window a battery-locomotive step never moves SOC further out -/
theorem C09_bel_soc_outside (k : Consts α) (res res' : RES α) (edrv edrv' : Edrv α)
    (req dt aux : α) (h : belSolve k res edrv req dt aux = .ok (.bel res' edrv'))
    (hp : Published res) (hprop : res.state.pwrPropOutMax = res.state.pwrDischMax - aux)
    (hdt : 0 ≤ dt) (hcap : 0 < res.energyCapacity) (heta : 0 ≤ res'.state.eta) :
    (res.state.soc < res.state.minSoc → res.state.soc ≤ res'.state.soc) ∧
    -- `0 ≤ aux` is FORCED for the upper side only: with traction (`pin > 0`) the full `aux` is
    -- drawn, and a negative auxiliary "load" larger than `pin` charges (up to `tol` watts pass
    -- the absolute branch of the charge check at 0 W)
    (0 ≤ aux → res.state.maxSoc < res.state.soc → res'.state.soc ≤ res.state.soc) := by
  obtain ⟨r', e', aux', hpt, _, hs, ha1, ha2⟩ := belSolve_inv h
  cases hpt
  obtain ⟨g1, g2, _, _, eta, _, hr'⟩ := resSolve_ok hs
  have heq : res'.state.eta = eta := by rw [hr']
  have hsoc : res'.state.soc = res.state.soc -
      chem (edrv'.state.pwrElecPropIn + aux') eta * dt / res.energyCapacity := by
    rw [hr']; rfl
  rw [heq] at heta
  rw [hsoc]
  constructor
  · intro hlow
    have hpin : edrv'.state.pwrElecPropIn ≤ 0 := by
      rcases g2 with g | g
      · exact absurd hlow (not_lt.mpr g)
      · exact g
    have haux' := ha2 (not_lt.mpr hpin)
    have hD : res.state.pwrDischMax = 0 := by
      rw [hp.disch]; exact (dischRamp_cases _ _ _ _).1 hlow.le
    rw [hprop, hD] at haux'
    have helec : edrv'.state.pwrElecPropIn + aux' ≤ 0 := by
      rw [haux']
      rcases le_total (min aux (0 - aux - edrv'.state.pwrElecPropIn)) 0 with hm | hm
      · rw [max_eq_right hm]; linarith
      · rw [max_eq_left hm]
        have := min_le_right aux (0 - aux - edrv'.state.pwrElecPropIn)
        have := min_le_left aux (0 - aux - edrv'.state.pwrElecPropIn)
        linarith
    have hc : chem (edrv'.state.pwrElecPropIn + aux') eta ≤ 0 := by
      unfold chem
      rw [if_neg (not_lt.mpr helec)]
      exact mul_nonpos_of_nonpos_of_nonneg helec heta
    have : chem (edrv'.state.pwrElecPropIn + aux') eta * dt / res.energyCapacity ≤ 0 :=
      div_nonpos_of_nonpos_of_nonneg (mul_nonpos_of_nonpos_of_nonneg hc hdt) hcap.le
    linarith
  · intro haux hhigh
    have hpin : 0 ≤ edrv'.state.pwrElecPropIn := by
      rcases g1 with g | g
      · exact absurd hhigh (not_lt.mpr g)
      · exact g
    have haux0 : 0 ≤ aux' := by
      by_cases hp0 : 0 < edrv'.state.pwrElecPropIn
      · rw [ha1 hp0]; exact haux
      · rw [ha2 hp0]; exact le_max_right _ _
    have helec : 0 ≤ edrv'.state.pwrElecPropIn + aux' := add_nonneg hpin haux0
    have hc : 0 ≤ chem (edrv'.state.pwrElecPropIn + aux') eta := by
      unfold chem
      split_ifs with h0
      · exact div_nonneg helec heta
      · have : edrv'.state.pwrElecPropIn + aux' = 0 := le_antisymm (not_lt.mp h0) helec
        rw [this, zero_mul]
    have : 0 ≤ chem (edrv'.state.pwrElecPropIn + aux') eta * dt / res.energyCapacity :=
      div_nonneg (mul_nonneg hc hdt) hcap.le
    linarith

/-- **C09.6g** one battery-locomotive step preserves `[minSoc − D↓, maxSoc + D↑]` for every
    `D↓ ≥ tol·dt/(ηlo·E)`, `D↑ ≥ tol·ηhi·dt/E` -/
theorem C09_bel_soc_inductive (k : Consts α) (res res' : RES α) (edrv edrv' : Edrv α)
    (req dt aux etaLo etaHi Dlo Dhi : α)
    (h : belSolve k res edrv req dt aux = .ok (.bel res' edrv'))
    (hp : Published res) (hprop : res.state.pwrPropOutMax = res.state.pwrDischMax - aux)
    (haux : 0 ≤ aux) (hP : 0 ≤ res.pwrOutMax) (htol : 0 ≤ k.tol) (hdt : 0 < dt)
    (hcap : 0 < res.energyCapacity) (hlo : 0 < etaLo) (heta1 : etaLo ≤ res'.state.eta)
    (heta2 : res'.state.eta ≤ etaHi)
    (H1 : res.pwrOutMax * (1 + k.tol) * dt ≤
      etaLo * res.energyCapacity * (res.state.socLoRampStart - res.state.minSoc))
    (H2 : res.pwrOutMax * etaHi * dt ≤
      res.energyCapacity * (res.state.maxSoc - res.state.socHiRampStart))
    (hDlo : k.tol * dt / (etaLo * res.energyCapacity) ≤ Dlo)
    (hDhi : k.tol * etaHi * dt / res.energyCapacity ≤ Dhi) :
    (res.state.minSoc - Dlo ≤ res.state.soc → res.state.minSoc - Dlo ≤ res'.state.soc) ∧
    (res.state.soc ≤ res.state.maxSoc + Dhi → res'.state.soc ≤ res.state.maxSoc + Dhi) := by
  obtain ⟨o1, o2'⟩ := C09_bel_soc_outside k res res' edrv edrv' req dt aux h hp hprop hdt.le
    hcap (hlo.le.trans heta1)
  have o2 := o2' haux
  obtain ⟨r', e', aux', hpt, _, hs, _, _⟩ := belSolve_inv h
  cases hpt
  obtain ⟨l, u⟩ := C09_soc_step k res _ aux' dt res' etaLo etaHi hs hp hP htol hdt hcap hlo
    heta1 heta2 H1 H2
  constructor
  · intro hin
    rcases lt_or_ge res.state.soc res.state.minSoc with hc | hc
    · exact hin.trans (o1 hc)
    · rw [min_eq_right hc] at l; linarith
  · intro hin
    rcases lt_or_ge res.state.maxSoc res.state.soc with hc | hc
    · exact (o2 hc).trans hin
    · rw [max_eq_right hc] at u; linarith

section simrun
variable {β : Type} [Add β] [Sub β] [Mul β] [Div β] [Neg β] [LT β] [LE β]
  [DecidableLT β] [DecidableLE β] [OfNat β 0] [OfNat β 1]

/-- one sample of a `LocomotiveSimulation` power trace -/
structure TracePt (β : Type) where
  req : β
  dt : β
  on : Option Bool

/-- `LocomotiveSimulation::walk`: `solve_step` for every sample; the first error aborts -/
def locoSimRun (k : Consts β) : Loco β → List (TracePt β) → Res (Loco β)
  | l, [] => .ok l
  | l, p :: ps => do
    let l' ← locoSimStep k l p.req p.dt p.on
    locoSimRun k l' ps

end simrun

/-- **C09.6h one `LocomotiveSimulation::solve_step` of a battery unit** keeps SOC inside
    `[minSoc − D↓, maxSoc + D↑]` (static window of the configuration). -/
theorem C09_locoSim_soc_step (k : Consts α) (l l' : Loco α) (req dt : α) (on : Option Bool)
    (res : RES α) (edrv : Edrv α) (etaLo etaHi Dlo Dhi : α)
    (hpt : l.pt = .bel res edrv) (h : locoSimStep k l req dt on = .ok l')
    (c : Cfg k res) (he : EtaRange res etaLo etaHi) (hlo : 0 < etaLo) (htol : 0 ≤ k.tol)
    -- FORCED for the upper bound (see `C09_bel_soc_outside`): non-negative auxiliary load
    (ho : 0 ≤ l.pwrAuxOffset) (hc : 0 ≤ l.pwrAuxTractionCoeff)
    (hs : DtOK k res etaLo etaHi dt)
    (hDlo : k.tol * dt / (etaLo * res.energyCapacity) ≤ Dlo)
    (hDhi : k.tol * etaHi * dt / res.energyCapacity ≤ Dhi) :
    ∃ res' edrv', l'.pt = .bel res' edrv' ∧ SameCfg k res res' ∧
      l'.pwrAuxOffset = l.pwrAuxOffset ∧ l'.pwrAuxTractionCoeff = l.pwrAuxTractionCoeff ∧
      (res.minSoc - Dlo ≤ res.state.soc → res.minSoc - Dlo ≤ res'.state.soc) ∧
      (res.state.soc ≤ res.maxSoc + Dhi → res'.state.soc ≤ res.maxSoc + Dhi) := by
  obtain ⟨aux, res1, edrv1, haux, h1, h2, p1, p2⟩ := locoSimStep_bel_ok hpt h
  obtain ⟨res', edrv', hpt', _⟩ := C09_bel_step k res1 edrv1 req dt aux l'.pt h2
  rw [hpt'] at h2
  have s1 := sameCfg_setCurMax h1
  obtain ⟨r', e', aux', hpt'', _, hsolve, _, _⟩ := belSolve_inv h2
  cases hpt''
  have s2 := sameCfg_solve hsolve
  obtain ⟨k1, k2, k3, k4⟩ := knots_no_buffer k res (c.lo.le.trans c.lo') c.lo' c.hi
  obtain ⟨e1, e2, e3, e4, e5, e6⟩ := C09_res_knots k res aux 0 0 res1 h1
  rw [k1] at e3; rw [k2] at e4; rw [k3] at e5; rw [k4] at e6
  have hp : Published res1 := published_of_setCurMax k res res1 aux 0 0 h1
    (by rw [k1, k2]; exact c.lo) (by rw [k3, k4]; exact c.hi')
  obtain ⟨_, _, _, _, eta, heta, hr'⟩ := resSolve_ok hsolve
  have hetaeq : res'.state.eta = eta := by rw [hr']
  have hrange := (he.of_same s1) _ _ _ _ heta
  obtain ⟨hdt, H1, H2⟩ := hs
  have haux0 : 0 ≤ aux := by rw [haux]; exact locoSetAux_nonneg l on ho hc
  have := C09_bel_soc_inductive k res1 res' edrv1 edrv' req dt aux etaLo etaHi Dlo Dhi h2 hp
    (res_prop_eq k res res1 aux 0 0 h1) haux0 (by rw [e1]; exact c.rating) htol hdt
    (by rw [s1.energyCapacity]; exact c.cap) hlo (by rw [hetaeq]; exact hrange.1)
    (by rw [hetaeq]; exact hrange.2)
    (by rw [e1, e3, e4, s1.energyCapacity]; exact H1)
    (by rw [e1, e5, e6, s1.energyCapacity]; exact H2)
    (by rw [s1.energyCapacity]; exact hDlo) (by rw [s1.energyCapacity]; exact hDhi)
  rw [e2, e3, e6] at this
  exact ⟨res', edrv', hpt', s1.trans s2, p1, p2, this⟩

/-- **C09.6i every accepted battery-locomotive simulation run** whose steps satisfy the step-size
    condition and are at most `dtMax` long keeps SOC inside
    `[minSoc − tol·dtMax/(ηlo·E), maxSoc + tol·ηhi·dtMax/E]` — a CONSTANT slack — if it starts
    there (in particular if it starts inside `[minSoc, maxSoc]`). -/
def C09_bel_soc_run_statement : Prop :=
  ∀ (k : Consts α) (l l' : Loco α) (trace : List (TracePt α)) (res : RES α) (edrv : Edrv α)
    (etaLo etaHi dtMax : α),
    l.pt = .bel res edrv → locoSimRun k l trace = .ok l' →
    Cfg k res → EtaRange res etaLo etaHi → 0 < etaLo → 0 ≤ etaHi → 0 ≤ k.tol →
    0 ≤ l.pwrAuxOffset → 0 ≤ l.pwrAuxTractionCoeff →
    (∀ p ∈ trace, DtOK k res etaLo etaHi p.dt ∧ p.dt ≤ dtMax) →
    res.minSoc - k.tol * dtMax / (etaLo * res.energyCapacity) ≤ res.state.soc →
    res.state.soc ≤ res.maxSoc + k.tol * etaHi * dtMax / res.energyCapacity →
    ∃ res' edrv', l'.pt = .bel res' edrv' ∧ SameCfg k res res' ∧
      res.minSoc - k.tol * dtMax / (etaLo * res.energyCapacity) ≤ res'.state.soc ∧
      res'.state.soc ≤ res.maxSoc + k.tol * etaHi * dtMax / res.energyCapacity

theorem C09_bel_soc_run : C09_bel_soc_run_statement (α := α) := by
  intro k l l' trace res edrv etaLo etaHi dtMax hpt h c he hlo hhi htol ho hc hs hl hu
  induction trace generalizing l res edrv with
  | nil =>
    rw [locoSimRun] at h; cases h
    exact ⟨res, edrv, hpt, SameCfg.refl k res, hl, hu⟩
  | cons p ps ih =>
    rw [locoSimRun] at h
    obtain ⟨l1, h1, h2⟩ := (bind_eq_ok _ _ _).mp h
    obtain ⟨hdtok, hdtmax⟩ := hs p (by simp)
    have hq : 0 < etaLo * res.energyCapacity := mul_pos hlo c.cap
    have hDlo : k.tol * p.dt / (etaLo * res.energyCapacity) ≤
        k.tol * dtMax / (etaLo * res.energyCapacity) :=
      div_le_div_of_nonneg_right (mul_le_mul_of_nonneg_left hdtmax htol) hq.le
    have hDhi : k.tol * etaHi * p.dt / res.energyCapacity ≤
        k.tol * etaHi * dtMax / res.energyCapacity :=
      div_le_div_of_nonneg_right (mul_le_mul_of_nonneg_left hdtmax (mul_nonneg htol hhi))
        c.cap.le
    obtain ⟨res1, edrv1, hpt1, sc, q1, q2, il, iu⟩ := C09_locoSim_soc_step k l l1 p.req p.dt p.on
      res edrv etaLo etaHi _ _ hpt h1 c he hlo htol ho hc hdtok hDlo hDhi
    obtain ⟨res', edrv', hpt', sc', l2, u2⟩ := ih l1 res1 edrv1 hpt1 h2 (c.of_same sc)
      (he.of_same sc) (by rw [q1]; exact ho) (by rw [q2]; exact hc)
      (fun p' hp' => ⟨(hs p' (by simp [hp'])).1.of_same sc, (hs p' (by simp [hp'])).2⟩)
      (by rw [sc.minSoc, sc.energyCapacity]; exact il hl)
      (by rw [sc.maxSoc, sc.energyCapacity]; exact iu hu)
    rw [sc.minSoc, sc.energyCapacity] at l2
    rw [sc.maxSoc, sc.energyCapacity] at u2
    exact ⟨res', edrv', hpt', sc.trans sc', l2, u2⟩

/-! ### ℚ instances at the locomotive level -/

/-- traction 500 W, braking 300 W (regenerated), idle with the engine flag off; 1 s each -/
def traceQ : List (TracePt ℚ) := [⟨500, 1, some true⟩, ⟨-300, 1, some true⟩, ⟨0, 1, some false⟩]

example : ∃ l' res' edrv', locoSimRun kQ locoBelQ traceQ = .ok l' ∧ l'.pt = .bel res' edrv' ∧
    resQ.minSoc - kQ.tol * 1 / (9/10 * resQ.energyCapacity) ≤ res'.state.soc ∧
    res'.state.soc ≤ resQ.maxSoc + kQ.tol * (9/10) * 1 / resQ.energyCapacity := by
  obtain ⟨l', h⟩ := (isOk_iff _).mp (show (locoSimRun kQ locoBelQ traceQ).isOk = true by
    decide +kernel)
  obtain ⟨res', edrv', hpt, _, lo, hi⟩ := C09_bel_soc_run kQ locoBelQ l' traceQ resQ edrvQ (9/10)
    (9/10) 1 rfl h (cfg_resQ (1/2)) (etaRange_resQ (1/2)) (by norm_num) (by norm_num)
    (by norm_num [kQ]) (by norm_num [locoBelQ]) (by norm_num [locoBelQ])
    (by
      intro p hp
      simp only [traceQ, List.mem_cons, List.not_mem_nil, or_false] at hp
      rcases hp with rfl | rfl | rfl <;> norm_num [DtOK, resLo, resHi, resQ, kQ])
    (by norm_num [resQ, resStQ, kQ]) (by norm_num [resQ, resStQ, kQ])
  exact ⟨l', res', edrv', h, hpt, lo, hi⟩

-- SOC after the three steps (0.5 − 623.9…/3.6e6 + …): what the model returns
example : okVal (locoSimRun kQ locoBelQ traceQ)
    (fun l => match l.pt with | .bel r _ => decide (1/5 ≤ r.state.soc ∧ r.state.soc < 1/2) | _ => false)
    = some true := by decide +kernel

-- `C09_soc_step_relative`: 750 W against a 1000 W limit passes on the relative branch
example : ∃ r', resSolve kQ resPubQ 700 50 1 = .ok r' ∧
    min resPubQ.state.soc resPubQ.state.minSoc ≤ r'.state.soc ∧
    r'.state.soc ≤ max resPubQ.state.soc resPubQ.state.maxSoc := by
  have hv : okVal (resSolve kQ resPubQ 700 50 1) (fun r => r.state.eta) = some (9/10) := by
    decide +kernel
  obtain ⟨r', h, he⟩ := (okVal_eq_some _ _ _).mp hv
  refine ⟨r', h, C09_soc_step_relative kQ resPubQ 700 50 1 r' (9/10) (9/10) h published_resPubQ
    ?_ ?_ ?_ ?_ ?_ ?_ ?_ ?_ ?_ ?_ ?_⟩
  · norm_num [resPubQ, resQ]
  · norm_num [kQ]
  · norm_num
  · norm_num [resPubQ, resQ]
  · norm_num
  · rw [he]
  · rw [he]
  · intro _; norm_num [resPubQ, resQ, resStQ, kQ]
  · intro h0; norm_num at h0
  · norm_num [resPubQ, resQ, resStQ, kQ]
  · norm_num [resPubQ, resQ, resStQ, kQ]

/-- battery just below `min_soc` (0.19 < 0.2) behind a drivetrain that may regenerate 800 W -/
def resBelowQ : RES ℚ := { resQ with state := { resStQ with soc := 19/100 } }
def edrvRegenQ : Edrv ℚ := { edrvQ with state := { edrvStQ with pwrMechRegenMax := 800 } }

-- `C09_bel_soc_outside`: braking 100 W from below the window charges; SOC does not fall
example : ∃ r1 res' edrv', resSetCurMax kQ resBelowQ 20 0 0 = .ok r1 ∧
    belSolve kQ r1 edrvRegenQ (-100) 1 20 = .ok (.bel res' edrv') ∧
    r1.state.soc ≤ res'.state.soc := by
  obtain ⟨r1, pt, h1, h2⟩ := isOk_bind (show (resSetCurMax kQ resBelowQ 20 0 0 >>= fun r =>
    belSolve kQ r edrvRegenQ (-100) 1 20).isOk = true by decide +kernel)
  obtain ⟨res', edrv', hpt, _⟩ := C09_bel_step kQ r1 edrvRegenQ (-100) 1 20 pt h2
  subst hpt
  have hp : Published r1 := published_of_setCurMax kQ resBelowQ r1 20 0 0 h1
    (by norm_num [sMin, sLo, resLo, resBelowQ, resQ, kQ])
    (by norm_num [sHi, sMax, resHi, resBelowQ, resQ, kQ])
  obtain ⟨_, e2, e3, _⟩ := C09_res_knots kQ resBelowQ 20 0 0 r1 h1
  have hcap : r1.energyCapacity = 3600000 := (sameCfg_setCurMax h1).energyCapacity
  obtain ⟨r', e', aux', hpt', _, hsolve, _, _⟩ := belSolve_inv h2
  cases hpt'
  obtain ⟨_, _, _, _, eta, heta, hr'⟩ := resSolve_ok hsolve
  have hrange := ((etaRange_resQ (19/100)).of_same (sameCfg_setCurMax h1)) _ _ _ _ heta
  have heq : res'.state.eta = eta := by rw [hr']
  refine ⟨r1, res', edrv', h1, h2, (C09_bel_soc_outside kQ r1 res' edrvRegenQ edrv' (-100) 1 20 h2
    hp (res_prop_eq kQ resBelowQ r1 20 0 0 h1) (by norm_num)
    (by rw [hcap]; norm_num) (by rw [heq]; linarith [hrange.1])).1 ?_⟩
  rw [e2, e3]
  norm_num [sMin, resBelowQ, resQ, resStQ]

end Altrios.Proofs.C09
