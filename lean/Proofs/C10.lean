import Altrios.Consist
import Proofs.Lemmas.Basic
import Proofs.Lemmas.Split
import Mathlib.Algebra.Order.Field.Basic
import Mathlib.Tactic.Linarith
import Mathlib.Tactic.Ring
import Mathlib.Tactic.NormNum
import Mathlib.Tactic.SplitIfs
import Mathlib.Data.List.Basic
import Mathlib.Data.List.Forall2
import Mathlib.Algebra.Order.BigOperators.Group.List
/-
  C10 — "Consist power split conserves demand and honours each unit's capability".

  Model: `splitProp`, `splitGreedy`, `splitNeg`, `regenVec`, `consistSolve` (Altrios/Consist.lean).
  A unit's published limits are `l.state.pwrOutMax` (traction) and `l.state.pwrRegenMax`
  (regeneration); its drivetrain rating is `l.pt.edrv.pwrOutMax`.

  Clauses (exact arithmetic over an arbitrary linearly ordered field):
    1. `C10_sum_prop`, `C10_sum_greedy_nodeficit`, `C10_sum_greedy_deficit`,
       `C10_sum_brake_nodeficit`, `C10_sum_brake_deficit` (weakest hypotheses, denominators ≠ 0)
       and `C10_sum` (combined; the denominators are shown non-zero): the shares sum to the request
    2. `C10_bounds_partial`   per-unit bounds, no unit opposes the consist — needs `0 ≤ pwrOutMaxᵢ`;
       `C10_bounds_statement` (without it) is FALSE: `C10_negative_share_counterexample`,
       `C10_bounds_counterexample`, `C10_simstep_counterexample` (a whole accepted step)
    3. `C10_regen`, `C10_regen_edrv`  regeneration only on battery units, never above the limit
       (braking needs only what the code guarantees, `UnitsOKWeak`)
    4. `C10_battery_first`    RESGreedy: fuel-burning units deliver exactly `max (req − Σ_bel) 0`
    5. `C10_no_panic`         the `assert_almost_eq` of RESGreedy and the consist sum check cannot fire
    6. `C10_end_to_end`       all of it for one accepted `consistSolve` step
    6'. `C10_simstep`         the same for `consistSimStep`, with `UnitsOKWeak`/`Published` DERIVED
                              from `consistSetCurMax` instead of assumed
-/
set_option linter.unusedSectionVars false
set_option autoImplicit false
namespace Altrios.Proofs.C10
open Altrios Altrios.PT Altrios.CS Altrios.Proofs.Basic Altrios.Proofs.SplitL

variable {α : Type} [Field α] [LinearOrder α] [IsStrictOrderedRing α]

/-! ## Predicates -/

/-- what `consistSetCurMax` guarantees about the regeneration limits of the units:
    non-negative (`ensure!` in `set_cur_pwr_regen_max`), and zero on fuel-burning units
    (`assert_eq!` in `ConventionalLoco::set_cur_pwr_max_out`). All the SUM clause needs. -/
def RegenOK (locos : List (Loco α)) : Prop :=
  ∀ l ∈ locos, 0 ≤ l.state.pwrRegenMax ∧ (l.pt.isBel = false → l.state.pwrRegenMax = 0)

/-- `UnitsOK` without the (forced, NOT guaranteed by the code) clause `0 ≤ pwrOutMax` -/
def UnitsOKWeak (locos : List (Loco α)) : Prop :=
  ∀ l ∈ locos, 0 ≤ l.state.pwrRegenMax ∧ l.state.pwrRegenMax ≤ l.pt.edrv.pwrOutMax ∧
    (l.pt.isBel = false → l.state.pwrRegenMax = 0)

/-- well-formed published unit limits -/
def UnitsOK (locos : List (Loco α)) : Prop :=
  ∀ l ∈ locos, 0 ≤ l.state.pwrOutMax ∧ 0 ≤ l.state.pwrRegenMax ∧
    l.state.pwrRegenMax ≤ l.pt.edrv.pwrOutMax ∧ (l.pt.isBel = false → l.state.pwrRegenMax = 0)

theorem UnitsOK.regenOK {locos : List (Loco α)} (h : UnitsOK locos) : RegenOK locos :=
  fun l hl => ⟨(h l hl).2.1, (h l hl).2.2.2⟩

theorem UnitsOK.weak {locos : List (Loco α)} (h : UnitsOK locos) : UnitsOKWeak locos :=
  fun l hl => (h l hl).2

/-- the consist-level sums as written by `Consist::set_cur_pwr_max_out` (`consistSetCurMax`) -/
structure Published (s : ConsistState α) (locos : List (Loco α)) : Prop where
  outMax : s.pwrOutMax = sumLeft (locos.map (fun l => l.state.pwrOutMax))
  regenMax : s.pwrRegenMax = sumLeft (locos.map (fun l => l.state.pwrRegenMax))
  reves : s.pwrOutMaxReves =
    sumLeft (locos.map (fun l => if l.pt.isBel then l.state.pwrOutMax else 0))
  nonReves : s.pwrOutMaxNonReves = s.pwrOutMax - s.pwrOutMaxReves

/-- the fields written by the first lines of `Consist::solve_energy_consumption` (`stepState`) -/
structure Stepped (s : ConsistState α) (req : α) : Prop where
  reqEq : s.pwrOutReq = req
  outDeficit : s.pwrOutDeficit = max (req - s.pwrOutMaxReves) 0
  regenDeficit : s.pwrRegenDeficit = max (-req - s.pwrRegenMax) 0

/-- `Published` is what `consistSetCurMax` establishes -/
theorem published_of_setCurMax {k : Consts α} {c c' : Consist α} {dt : α}
    (h : consistSetCurMax k c dt = .ok c') : Published c'.state c'.locos := by
  obtain ⟨_, h1, h2, h3, h4, _⟩ := consistSetCurMax_ok h
  exact ⟨h1, h2, h3, h4⟩

theorem published_step {s : ConsistState α} {locos : List (Loco α)} (req : α)
    (h : Published s locos) : Published (stepState s locos req) locos :=
  ⟨h.outMax, h.regenMax, h.reves, h.nonReves⟩

theorem stepped_step (s : ConsistState α) (locos : List (Loco α)) (req : α) :
    Stepped (stepState s locos req) req :=
  ⟨rfl, mx_eq_max _ _, mx_eq_max _ _⟩

section conv
variable {s : ConsistState α} {locos : List (Loco α)} {req : α}

theorem Published.outMax' (h : Published s locos) :
    s.pwrOutMax = (locos.map (fun l => l.state.pwrOutMax)).sum := by
  rw [← sumLeft_eq_sum]; exact h.outMax

theorem Published.regenMax' (h : Published s locos) :
    s.pwrRegenMax = (locos.map (fun l => l.state.pwrRegenMax)).sum := by
  rw [← sumLeft_eq_sum]; exact h.regenMax

theorem Published.reves' (h : Published s locos) :
    s.pwrOutMaxReves = (locos.map (fun l => if l.pt.isBel then l.state.pwrOutMax else 0)).sum := by
  rw [← sumLeft_eq_sum]; exact h.reves

/-- `pwr_out_max_non_reves` is the sum over the fuel-burning units -/
theorem Published.nonReves' (h : Published s locos) :
    s.pwrOutMaxNonReves =
      (locos.map (fun l => if l.pt.isBel then 0 else l.state.pwrOutMax)).sum := by
  have := sum_map_compl locos (fun l => l.pt.isBel) (fun l => l.state.pwrOutMax)
  rw [h.nonReves, h.outMax', h.reves', this]; ring

theorem max_zero_cases (a : α) : (max a 0 = 0 ∧ a ≤ 0) ∨ (max a 0 = a ∧ 0 < a) := by
  rcases le_or_gt a 0 with h | h
  · exact Or.inl ⟨max_eq_right h, h⟩
  · exact Or.inr ⟨max_eq_left h.le, h⟩

/-- no traction deficit: the battery units can cover the request -/
theorem Stepped.out_nodef (hs : Stepped s req) (hd : s.pwrOutDeficit = 0) :
    req ≤ s.pwrOutMaxReves := by
  rcases max_zero_cases (req - s.pwrOutMaxReves) with ⟨_, h⟩ | ⟨h1, h2⟩
  · linarith
  · rw [hs.outDeficit, h1] at hd; linarith

/-- traction deficit: it is `req - pwr_out_max_reves > 0` -/
theorem Stepped.out_def (hs : Stepped s req) (hd : s.pwrOutDeficit ≠ 0) :
    s.pwrOutDeficit = req - s.pwrOutMaxReves ∧ 0 < req - s.pwrOutMaxReves := by
  rcases max_zero_cases (req - s.pwrOutMaxReves) with ⟨h1, _⟩ | ⟨h1, h2⟩
  · exact absurd (hs.outDeficit.trans h1) hd
  · exact ⟨hs.outDeficit.trans h1, h2⟩

theorem Stepped.regen_nodef (hs : Stepped s req) (hd : s.pwrRegenDeficit = 0) :
    -req ≤ s.pwrRegenMax := by
  rcases max_zero_cases (-req - s.pwrRegenMax) with ⟨_, h⟩ | ⟨h1, h2⟩
  · linarith
  · rw [hs.regenDeficit, h1] at hd; linarith

theorem Stepped.regen_def (hs : Stepped s req) (hd : s.pwrRegenDeficit ≠ 0) :
    s.pwrRegenDeficit = -req - s.pwrRegenMax ∧ 0 < -req - s.pwrRegenMax := by
  rcases max_zero_cases (-req - s.pwrRegenMax) with ⟨h1, _⟩ | ⟨h1, h2⟩
  · exact absurd (hs.regenDeficit.trans h1) hd
  · exact ⟨hs.regenDeficit.trans h1, h2⟩

theorem RegenOK.sum_nonneg (h : RegenOK locos) (hP : Published s locos) : 0 ≤ s.pwrRegenMax := by
  rw [hP.regenMax']
  apply List.sum_nonneg
  intro x hx
  obtain ⟨l, hl, rfl⟩ := List.mem_map.mp hx
  exact (h l hl).1

/-- with a regen deficit `frac` is 1 (or there is nothing to regenerate) -/
theorem regen_def_frac (hs : Stepped s req) (hG : 0 ≤ s.pwrRegenMax) (hd : s.pwrRegenDeficit ≠ 0) :
    s.pwrRegenMax = 0 ∨ 1 ≤ -s.pwrOutReq / s.pwrRegenMax := by
  by_cases h0 : s.pwrRegenMax = 0
  · exact Or.inl h0
  · right
    have hpos : 0 < s.pwrRegenMax := lt_of_le_of_ne hG (Ne.symm h0)
    rw [hs.reqEq, one_le_div hpos]
    linarith [(hs.regen_def hd).2]
end conv

/-! ## Concrete data over `ℚ` (non-vacuity examples and counterexamples) -/
namespace Ex

/-- decidable view of a `Res` (avoids a global `DecidableEq (Res _)` instance) -/
def okVal {σ : Type} : Res σ → Option σ
  | .ok v => some v
  | _ => none

theorem okVal_some {σ : Type} {r : Res σ} {v : σ} (h : okVal r = some v) : r = .ok v := by
  cases r <;> simp [okVal] at h; rw [h]

def zE : EdrvState ℚ := ⟨0,0,0,0,0,0,0,0,0,0,0,0,0,0,0⟩
/-- drivetrain with constant efficiency 1 -/
def edrv (rating regen : ℚ) : Edrv ℚ :=
  ⟨{ zE with pwrMechRegenMax := regen }, rating, [0, 1], [1, 1], []⟩
def fc : FC ℚ := ⟨⟨10,0,0,0,0,0,0,0,0,0,true⟩, 10, 1, 1, [0, 1], [1, 1], 0⟩
def gen : Gen ℚ := ⟨⟨0,0,0,0,0,0,0,0,0,0,0,0⟩, 10, [0, 1], [1, 1], []⟩
def zR : ResState ℚ := ⟨0,0,0,0,0,0,0,0,0,0,0,0,0,0,0,0,0,0,0,0,0⟩
/-- 10 kW / 100 kJ battery with efficiency 1 at state of charge `soc` -/
def res (soc disch : ℚ) : RES ℚ :=
  ⟨{ zR with soc := soc, maxSoc := 1, minSoc := 0, pwrDischMax := disch, pwrChargeMax := 10 },
   10, 100, 100, 0, 1, none, none, [0], [0], [0], [[[1]]]⟩
/-- a unit with given published traction limit, regen limit and drivetrain rating -/
def loco (bel : Bool) (pOut pRegen rating : ℚ) : Loco ℚ :=
  { pt := if bel then .bel (res (1/2) 10) (edrv rating pRegen) else .conv fc gen (edrv rating pRegen),
    state := ⟨pOut, 0, pRegen, 0, 0, 0, 0⟩, assertLimits := true,
    pwrAuxOffset := 0, pwrAuxTractionCoeff := 0 }
/-- the consist state `consistSetCurMax` would publish for these units -/
def publish (locos : List (Loco ℚ)) : ConsistState ℚ :=
  let o := sumLeft (locos.map (fun l => l.state.pwrOutMax))
  let r := sumLeft (locos.map (fun l => if l.pt.isBel then l.state.pwrOutMax else 0))
  { pwrOutMax := o, pwrRateOutMax := 0,
    pwrRegenMax := sumLeft (locos.map (fun l => l.state.pwrRegenMax)),
    pwrOutMaxReves := r, pwrOutDeficit := 0, pwrOutMaxNonReves := o - r, pwrRegenDeficit := 0,
    pwrDynBrakeMax := dynBrakeMax locos, pwrOutReq := 0, pwrOut := 0, pwrReves := 0,
    pwrFuel := 0, energyOut := 0, energyOutPos := 0, energyOutNeg := 0, energyRes := 0,
    energyFuel := 0 }
def k : Consts ℚ := ⟨1/1000, 1/100000000, 1/20, 10⟩

/-- battery (3 kW, regen 2, rating 4) — diesel (5 kW, rating 6) — battery (1 kW, regen 1, rating 2):
    limits 9 kW traction, 4 kW of it battery, 3 kW regen, 12 kW dynamic braking -/
def locos : List (Loco ℚ) := [loco true 3 2 4, loco false 5 0 6, loco true 1 1 2]
def st (req : ℚ) : ConsistState ℚ := stepState (publish locos) locos req
def consist (p : Policy) : Consist ℚ := ⟨locos, p, true, publish locos⟩

theorem unitsOK : UnitsOK locos := by unfold UnitsOK; decide +kernel
theorem published0 : Published (publish locos) locos :=
  ⟨by decide +kernel, by decide +kernel, by decide +kernel, by decide +kernel⟩
theorem published (req : ℚ) : Published (st req) locos := published_step req published0
theorem stepped (req : ℚ) : Stepped (st req) req := stepped_step _ _ _

/-- **the defect witness**: a battery unit at minimum state of charge (discharge limit 0) with a
    1 kW auxiliary load, leading a diesel unit -/
def lowBel : Loco ℚ :=
  { pt := .bel (res 0 0) (edrv 4 0), state := ⟨0, 0, 0, 0, 0, 0, 0⟩, assertLimits := true,
    pwrAuxOffset := 1, pwrAuxTractionCoeff := 0 }
def lowConsist (p : Policy) : Consist ℚ :=
  ⟨[lowBel, loco false 0 0 6], p, true, { publish [] with pwrDynBrakeMax := 10 }⟩
/-- the same two units with the limits they publish (battery: `0 − 1 = −1` kW traction) -/
def lowLocos : List (Loco ℚ) := [loco true (-1) 4 4, loco false 6 0 6]
def lowSt (req : ℚ) : ConsistState ℚ := stepState (publish lowLocos) lowLocos req

end Ex

/-! ## Clause 1 — the shares sum to the request -/

/-- **1a. Proportional, traction.** -/
def C10_sum_prop_statement : Prop :=
  ∀ (locos : List (Loco α)) (s : ConsistState α),
    s.pwrOutMax = sumLeft (locos.map (fun l => l.state.pwrOutMax)) →
    -- FORCED (denominator): with `pwrOutMax = 0` every share is `x/0·req`
    s.pwrOutMax ≠ 0 →
    sumLeft (splitProp locos s) = s.pwrOutReq

theorem C10_sum_prop : C10_sum_prop_statement (α := α) := by
  intro locos s hS h0
  rw [sumLeft_eq_sum] at hS ⊢
  exact propShare_sum locos s hS h0

/-- non-vacuity: 6 kW split 2 : 10/3 : 2/3 -/
example : sumLeft (splitProp Ex.locos (Ex.st 6)) = (Ex.st 6).pwrOutReq ∧
    splitProp Ex.locos (Ex.st 6) = [2, 10/3, 2/3] :=
  ⟨C10_sum_prop Ex.locos (Ex.st 6) (by decide +kernel) (by decide +kernel), by decide +kernel⟩

/-- **1b. RESGreedy, traction, no deficit** (battery units alone cover the request). -/
def C10_sum_greedy_nodeficit_statement : Prop :=
  ∀ (k : Consts α) (locos : List (Loco α)) (s : ConsistState α) (v : List α),
    s.pwrOutMaxReves =
      sumLeft (locos.map (fun l => if l.pt.isBel then l.state.pwrOutMax else 0)) →
    -- FORCED (denominator)
    s.pwrOutMaxReves ≠ 0 →
    s.pwrOutDeficit = 0 →
    splitGreedy k locos s = .ok v →
    sumLeft v = s.pwrOutReq

theorem C10_sum_greedy_nodeficit : C10_sum_greedy_nodeficit_statement (α := α) := by
  intro k locos s v hR h0 hd hv
  rw [sumLeft_eq_sum] at hR ⊢
  rw [splitGreedy_ok hv]
  exact greedyShare_sum_nodef locos s hR h0 hd

/-- non-vacuity: 2 kW from the two battery units alone, 3/2 : 0 : 1/2 -/
example : sumLeft ([3/2, 0, 1/2] : List ℚ) = (Ex.st 2).pwrOutReq :=
  C10_sum_greedy_nodeficit Ex.k Ex.locos (Ex.st 2) [3/2, 0, 1/2] (by decide +kernel)
    (by decide +kernel) (by decide +kernel) (Ex.okVal_some (by decide +kernel))

/-- **1c. RESGreedy, traction, deficit** (battery units at their limit, the rest pro rata). -/
def C10_sum_greedy_deficit_statement : Prop :=
  ∀ (k : Consts α) (locos : List (Loco α)) (s : ConsistState α) (v : List α),
    Published s locos →
    -- FORCED (denominator)
    s.pwrOutMaxNonReves ≠ 0 →
    s.pwrOutDeficit ≠ 0 →
    s.pwrOutDeficit = s.pwrOutReq - s.pwrOutMaxReves →
    splitGreedy k locos s = .ok v →
    sumLeft v = s.pwrOutReq

theorem C10_sum_greedy_deficit : C10_sum_greedy_deficit_statement (α := α) := by
  intro k locos s v hP h0 hd hD hv
  rw [sumLeft_eq_sum, splitGreedy_ok hv,
    greedyShare_sum_def locos s hP.reves' hP.nonReves' h0 hd, hD]
  ring

/-- non-vacuity: 6 kW, batteries at their limits 3 and 1, the diesel covers the deficit 2 -/
example : sumLeft ([3, 2, 1] : List ℚ) = (Ex.st 6).pwrOutReq :=
  C10_sum_greedy_deficit Ex.k Ex.locos (Ex.st 6) [3, 2, 1] (Ex.published 6) (by decide +kernel)
    (by decide +kernel) (by decide +kernel) (Ex.okVal_some (by decide +kernel))

/-- **1d. Braking, no regen deficit** (all braking is regenerated, pro rata of the regen limits). -/
def C10_sum_brake_nodeficit_statement : Prop :=
  ∀ (locos : List (Loco α)) (s : ConsistState α) (v : List α),
    s.pwrRegenMax = sumLeft (locos.map (fun l => l.state.pwrRegenMax)) →
    -- FORCED: a fuel-burning unit with a non-zero regen limit is counted in `pwrRegenMax`
    -- but gets no entry in `get_pwr_regen_vec` (the code asserts this when publishing)
    (∀ l ∈ locos, l.pt.isBel = false → l.state.pwrRegenMax = 0) →
    -- FORCED (denominator; with `pwrRegenMax = 0` the code sets `frac = 0`)
    s.pwrRegenMax ≠ 0 →
    -s.pwrOutReq / s.pwrRegenMax ≤ 1 →
    s.pwrRegenDeficit = 0 →
    splitNeg locos s = .ok v →
    sumLeft v = s.pwrOutReq

theorem C10_sum_brake_nodeficit : C10_sum_brake_nodeficit_statement (α := α) := by
  intro locos s v hG hnb hG0 h1 hd hv
  rw [sumLeft_eq_sum] at hG ⊢
  rw [(splitNeg_ok hv).1]
  exact negShare_sum_nodef locos s hG hnb hG0 h1 hd

/-- non-vacuity: 2 kW braking, all regenerated, 4/3 : 0 : 2/3 -/
example : sumLeft ([-4/3, 0, -2/3] : List ℚ) = (Ex.st (-2)).pwrOutReq :=
  C10_sum_brake_nodeficit Ex.locos (Ex.st (-2)) [-4/3, 0, -2/3] (by decide +kernel)
    (fun l hl => (Ex.unitsOK l hl).2.2.2) (by decide +kernel) (by decide +kernel)
    (by decide +kernel) (Ex.okVal_some (by decide +kernel))

/-- **1e. Braking with regen deficit** (regen saturated, the rest spread as dynamic braking over
    the surplus `ratingᵢ − regenᵢ`). -/
def C10_sum_brake_deficit_statement : Prop :=
  ∀ (locos : List (Loco α)) (s : ConsistState α) (v : List α),
    s.pwrRegenMax = sumLeft (locos.map (fun l => l.state.pwrRegenMax)) →
    (∀ l ∈ locos, l.pt.isBel = false → l.state.pwrRegenMax = 0) →
    -- `frac = 1` unless there is nothing to regenerate (FORCED: for `pwrRegenMax < 0` the sum is off)
    (s.pwrRegenMax = 0 ∨ 1 ≤ -s.pwrOutReq / s.pwrRegenMax) →
    -- FORCED (denominator `pwr_surplus_sum`); in the field model `x/0 = 0` passes the
    -- `surplus-frac` check, in IEEE arithmetic `x/0 = ±inf/NaN` fails it
    dynBrakeMax locos - s.pwrRegenMax ≠ 0 →
    s.pwrRegenDeficit ≠ 0 →
    s.pwrRegenDeficit = -s.pwrOutReq - s.pwrRegenMax →
    splitNeg locos s = .ok v →
    sumLeft v = s.pwrOutReq

theorem C10_sum_brake_deficit : C10_sum_brake_deficit_statement (α := α) := by
  intro locos s v hG hnb hfr hSS hd hD hv
  unfold dynBrakeMax at hSS
  rw [sumLeft_eq_sum] at hG hSS ⊢
  rw [(splitNeg_ok hv).1, negShare_sum_def locos s hG hnb hfr hSS hd, hD]
  ring

/-- non-vacuity: 6 kW braking, 3 regenerated (2 + 1), 3 spread over the surplus 2 : 6 : 1 -/
example : sumLeft ([-8/3, -2, -4/3] : List ℚ) = (Ex.st (-6)).pwrOutReq :=
  C10_sum_brake_deficit Ex.locos (Ex.st (-6)) [-8/3, -2, -4/3] (by decide +kernel)
    (fun l hl => (Ex.unitsOK l hl).2.2.2) (by decide +kernel) (by decide +kernel)
    (by decide +kernel) (by decide +kernel) (Ex.okVal_some (by decide +kernel))

/-- **1. Combined.** For a state prepared as `consistSolve` does, a request within the consist
    limits, and regen limits as the code publishes them, the share vector computed by
    `consistSolve` (`sharesOf`, whichever of the five branches, or the all-zero vector for
    `req = 0`) sums to the request exactly.  All denominators are shown non-zero here. -/
def C10_sum_statement : Prop :=
  ∀ (k : Consts α) (pdct : Policy) (locos : List (Loco α)) (s : ConsistState α) (req : α)
    (v : List α),
    RegenOK locos → Published s locos → Stepped s req →
    -- the two consist-level limit checks (`assert_limits`); FORCED only through the denominators
    req ≤ s.pwrOutMax → -req ≤ dynBrakeMax locos →
    sharesOf k pdct locos s req = .ok v →
    sumLeft v = req

theorem C10_sum : C10_sum_statement (α := α) := by
  intro k pdct locos s req v hR hP hS hle hbr hv
  unfold sharesOf at hv
  split_ifs at hv with hpos hneg
  · cases pdct with
    | proportional =>
      cases hv
      rw [C10_sum_prop locos s hP.outMax (ne_of_gt (lt_of_lt_of_le hpos hle)), hS.reqEq]
    | resGreedy =>
      simp only at hv
      by_cases hd : s.pwrOutDeficit = 0
      · have hle' := hS.out_nodef hd
        rw [C10_sum_greedy_nodeficit k locos s v hP.reves
          (ne_of_gt (lt_of_lt_of_le hpos hle')) hd hv, hS.reqEq]
      · obtain ⟨hD, hDpos⟩ := hS.out_def hd
        have hN : s.pwrOutMaxNonReves ≠ 0 := by
          rw [hP.nonReves]; apply ne_of_gt; linarith
        rw [C10_sum_greedy_deficit k locos s v hP hN hd (by rw [hS.reqEq]; exact hD) hv, hS.reqEq]
  · have hnb : ∀ l ∈ locos, l.pt.isBel = false → l.state.pwrRegenMax = 0 :=
      fun l hl => (hR l hl).2
    by_cases hd : s.pwrRegenDeficit = 0
    · have h1 := hS.regen_nodef hd
      have hGpos : 0 < s.pwrRegenMax := by linarith
      rw [C10_sum_brake_nodeficit locos s v hP.regenMax hnb (ne_of_gt hGpos)
        (by rw [hS.reqEq, div_le_one hGpos]; exact h1) hd hv, hS.reqEq]
    · obtain ⟨hD, hDpos⟩ := hS.regen_def hd
      have hG := hR.sum_nonneg hP
      rw [C10_sum_brake_deficit locos s v hP.regenMax hnb (regen_def_frac hS hG hd)
        (by apply ne_of_gt; linarith) hd (by rw [hS.reqEq]; exact hD) hv, hS.reqEq]
  · cases hv
    rw [sumLeft_eq_sum, sum_map_zero']
    exact le_antisymm (not_lt.mp hneg) (not_lt.mp hpos)

/-- non-vacuity (one instance per branch is above; here the combined statement, braking) -/
example : sumLeft ([-8/3, -2, -4/3] : List ℚ) = -6 :=
  C10_sum Ex.k .proportional Ex.locos (Ex.st (-6)) (-6) _ Ex.unitsOK.regenOK (Ex.published _)
    (Ex.stepped _) (by decide +kernel) (by decide +kernel) (Ex.okVal_some (by decide +kernel))

/-! ## Clause 2 — per-unit bounds; no unit opposes the consist -/

/-- a unit's share respects its capability and never opposes the consist:
    in traction `0 ≤ share ≤ pwrOutMax`, in braking `-rating ≤ share ≤ 0`, else `0`. -/
def ShareOK (req : α) (l : Loco α) (x : α) : Prop :=
  (0 < req → 0 ≤ x ∧ x ≤ l.state.pwrOutMax) ∧
  (req < 0 → -l.pt.edrv.pwrOutMax ≤ x ∧ x ≤ 0) ∧
  (req = 0 → x = 0)

/-- **2 (as the property reads; FALSE, see `C10_bounds_counterexample`).**  With only what the
    code guarantees about the published limits (`UnitsOKWeak`) and every consist-level check. -/
def C10_bounds_statement : Prop :=
  ∀ (k : Consts α) (pdct : Policy) (locos : List (Loco α)) (s : ConsistState α) (req : α)
    (v : List α),
    UnitsOKWeak locos → Published s locos → Stepped s req →
    req ≤ s.pwrOutMax → -req ≤ dynBrakeMax locos →
    sharesOf k pdct locos s req = .ok v →
    List.Forall₂ (ShareOK req) locos v

/-- **2 (true variant).**  Extra hypothesis: every published traction limit is non-negative
    (the first conjunct of `UnitsOK`; FORCED, see the counterexample). -/
def C10_bounds_partial_statement : Prop :=
  ∀ (k : Consts α) (pdct : Policy) (locos : List (Loco α)) (s : ConsistState α) (req : α)
    (v : List α),
    UnitsOK locos → Published s locos → Stepped s req →
    -- FORCED: without it shares exceed the published limits (and denominators may vanish)
    req ≤ s.pwrOutMax →
    sharesOf k pdct locos s req = .ok v →
    List.Forall₂ (ShareOK req) locos v

theorem C10_bounds_partial : C10_bounds_partial_statement (α := α) := by
  intro k pdct locos s req v hU hP hS hle hv
  unfold sharesOf at hv
  split_ifs at hv with hpos hneg
  · have hfin : ∀ f : Loco α → α, (∀ l ∈ locos, 0 ≤ f l ∧ f l ≤ l.state.pwrOutMax) →
        List.Forall₂ (ShareOK req) locos (locos.map f) := by
      intro f hf
      rw [List.forall₂_map_right_iff, List.forall₂_same]
      intro l hl
      exact ⟨fun _ => hf l hl, fun h => absurd h (not_lt.mpr hpos.le),
        fun h => absurd h (ne_of_gt hpos)⟩
    cases pdct with
    | proportional =>
      cases hv
      rw [splitProp_eq]
      apply hfin
      intro l hl
      exact propShare_bounds s l (lt_of_lt_of_le hpos hle) (by rw [hS.reqEq]; exact hpos.le)
        (by rw [hS.reqEq]; exact hle) (hU l hl).1
    | resGreedy =>
      simp only at hv
      rw [splitGreedy_ok hv]
      apply hfin
      intro l hl
      by_cases hd : s.pwrOutDeficit = 0
      · have hle' := hS.out_nodef hd
        exact greedyShare_bounds_nodef s l hd (lt_of_lt_of_le hpos hle')
          (by rw [hS.reqEq]; exact hpos.le) (by rw [hS.reqEq]; exact hle') (hU l hl).1
      · obtain ⟨hD, hDpos⟩ := hS.out_def hd
        have hN : s.pwrOutDeficit ≤ s.pwrOutMaxNonReves := by rw [hP.nonReves, hD]; linarith
        exact greedyShare_bounds_def s l hd (by rw [hD] at hN; linarith)
          (by rw [hD]; exact hDpos.le) hN (hU l hl).1
  · obtain ⟨hv', hsf⟩ := splitNeg_ok hv
    rw [hv', List.forall₂_map_right_iff, List.forall₂_same]
    intro l hl
    have hG := hU.regenOK.sum_nonneg hP
    obtain ⟨hf0, hf1⟩ := negFrac_bounds s hG (by rw [hS.reqEq]; linarith)
    obtain ⟨_, hg0, hgr, _⟩ := hU l hl
    refine ⟨fun h => absurd h hpos, fun _ => ?_, fun h => absurd h (ne_of_lt hneg)⟩
    by_cases hd : s.pwrRegenDeficit = 0
    · have := negShare_bounds_nodef locos s l hd hf0 hf1 hg0 hgr
      exact ⟨this.1, this.2.1⟩
    · obtain ⟨h0, h1⟩ := hsf ((eqb_false_iff _ _).mpr hd)
      have := negShare_bounds_def locos s l hd hf0 hf1 h0 h1 hg0 hgr
      exact ⟨this.1, this.2.1⟩
  · cases hv
    rw [List.forall₂_map_right_iff, List.forall₂_same]
    intro l _
    exact ⟨fun h => absurd h hpos, fun h => absurd h hneg, fun _ => rfl⟩

/-- non-vacuity: RESGreedy with deficit, `[3, 2, 1]` against limits `[3, 5, 1]` -/
example : List.Forall₂ (ShareOK (6 : ℚ)) Ex.locos [3, 2, 1] :=
  C10_bounds_partial Ex.k .resGreedy Ex.locos (Ex.st 6) 6 _ Ex.unitsOK (Ex.published _)
    (Ex.stepped _) (by decide +kernel) (Ex.okVal_some (by decide +kernel))

/-- non-vacuity: braking with regen deficit, `[-8/3, -2, -4/3]` against ratings `[4, 6, 2]` -/
example : List.Forall₂ (ShareOK (-6 : ℚ)) Ex.locos [-8/3, -2, -4/3] :=
  C10_bounds_partial Ex.k .resGreedy Ex.locos (Ex.st (-6)) (-6) _ Ex.unitsOK (Ex.published _)
    (Ex.stepped _) (by decide +kernel) (Ex.okVal_some (by decide +kernel))

/-- **Counterexample (split level).**  A battery unit publishing `pwrOutMax = −1` (discharge limit
    0 minus a 1 kW auxiliary load) ahead of a 6 kW diesel, demand `+1` kW, every hypothesis the code
    guarantees and every limit check satisfied.  RESGreedy assigns `[−1, 2]`, Proportional
    `[−1/5, 6/5]`: the battery unit is asked to BRAKE while the consist pushes, and under
    "battery first" the diesel delivers 2 kW, twice the demand. -/
theorem C10_negative_share_counterexample :
    UnitsOKWeak Ex.lowLocos ∧ Published (Ex.lowSt 1) Ex.lowLocos ∧ Stepped (Ex.lowSt 1) 1 ∧
    (1 : ℚ) ≤ (Ex.lowSt 1).pwrOutMax ∧ -(1 : ℚ) ≤ dynBrakeMax Ex.lowLocos ∧
    sharesOf Ex.k .resGreedy Ex.lowLocos (Ex.lowSt 1) 1 = .ok [-1, 2] ∧
    sharesOf Ex.k .proportional Ex.lowLocos (Ex.lowSt 1) 1 = .ok [-1/5, 6/5] :=
  ⟨by unfold UnitsOKWeak; decide +kernel,
   published_step 1 ⟨by decide +kernel, by decide +kernel, by decide +kernel, by decide +kernel⟩,
   stepped_step _ _ _, by decide +kernel, by decide +kernel,
   Ex.okVal_some (by decide +kernel), Ex.okVal_some (by decide +kernel)⟩

/-- clause 2 as the property reads is false -/
theorem C10_bounds_counterexample : ¬ C10_bounds_statement (α := ℚ) := by
  intro h
  obtain ⟨h1, h2, h3, h4, h5, h6, _⟩ := C10_negative_share_counterexample
  have := h Ex.k .resGreedy Ex.lowLocos (Ex.lowSt 1) 1 [-1, 2] h1 h2 h3 h4 h5 h6
  change List.Forall₂ _ (_ :: _) (_ :: _) at this
  have h0 := ((List.forall₂_cons.mp this).1.1 (by norm_num)).1
  norm_num at h0

/-- **Counterexample (whole step).**  The published limits of the previous counterexample are what
    `consistSimStep` (set_pwr_aux; set_cur_pwr_max_out; solve_energy_consumption — all checks on)
    really computes for a battery unit at minimum state of charge, and the step is ACCEPTED:
    published limits `[−1, 6]`, delivered powers `[−1, 2]` for a consist demand of `+1`.
    The battery unit is charged by the diesel (its SOC rises) while the consist is in traction. -/
theorem C10_simstep_counterexample :
    Ex.okVal ((consistSimStep Ex.k (Ex.lowConsist .resGreedy) 1 1).bind (fun c' =>
      .ok (c'.locos.map (fun l => l.state.pwrOutMax), c'.locos.map (fun l => l.state.pwrOut),
           c'.state.pwrOut)))
      = some ([-1, 6], [-1, 2], 1) ∧
    Ex.okVal ((consistSimStep Ex.k (Ex.lowConsist .proportional) 1 1).bind (fun c' =>
      .ok (c'.locos.map (fun l => l.state.pwrOutMax), c'.locos.map (fun l => l.state.pwrOut),
           c'.state.pwrOut)))
      = some ([-1, 6], [-1/5, 6/5], 1) :=
  ⟨by decide +kernel, by decide +kernel⟩

/-! ## Clause 3 — regeneration -/

/-- with a regen deficit every unit's regen entry is its full published limit -/
theorem regenOf_saturated {s : ConsistState α} {locos : List (Loco α)} {req : α}
    (hR : RegenOK locos) (hP : Published s locos) (hS : Stepped s req)
    (hd : s.pwrRegenDeficit ≠ 0) (l : Loco α) (hl : l ∈ locos) :
    regenOf (negFrac s) l = l.state.pwrRegenMax := by
  have hG := hR.sum_nonneg hP
  obtain ⟨hg0, hnb⟩ := hR l hl
  rcases regen_def_frac hS hG hd with h0 | h1
  · have hle : l.state.pwrRegenMax ≤ s.pwrRegenMax := by
      rw [hP.regenMax']
      apply List.single_le_sum
      · intro x hx
        obtain ⟨l', hl', rfl⟩ := List.mem_map.mp hx
        exact (hR l' hl').1
      · exact List.mem_map.mpr ⟨l, hl, rfl⟩
    have hz : l.state.pwrRegenMax = 0 := le_antisymm (by rw [h0] at hle; exact hle) hg0
    unfold regenOf; rw [hz]; split_ifs <;> simp
  · have hne : s.pwrRegenMax ≠ 0 := by
      intro h; rw [h, div_zero] at h1; exact absurd h1 (not_le.mpr zero_lt_one)
    have hf : negFrac s = 1 := by
      unfold negFrac
      rw [if_neg (by rw [eqb_iff]; exact hne), mn_eq_min, min_eq_right h1]
    unfold regenOf; rw [hf, mul_one]
    cases hb : l.pt.isBel
    · simp [hnb hb]
    · simp

/-- **3. Regeneration in the split.**  Braking without regen deficit: every unit's braking share is
    its regen limit times the common fraction `-req / pwrRegenMax ∈ (0, 1]`, hence within the limit,
    and zero on fuel-burning units.  With regen deficit: every unit brakes at least its full regen
    limit (regeneration saturated), the excess — up to the rating — being dynamic braking. -/
def C10_regen_statement : Prop :=
  ∀ (locos : List (Loco α)) (s : ConsistState α) (req : α) (v : List α),
    UnitsOKWeak locos → Published s locos → Stepped s req → req < 0 →
    splitNeg locos s = .ok v →
    (s.pwrRegenDeficit = 0 →
      0 < s.pwrRegenMax ∧ 0 < -req / s.pwrRegenMax ∧ -req / s.pwrRegenMax ≤ 1 ∧
      List.Forall₂ (fun (l : Loco α) x =>
        -x = l.state.pwrRegenMax * (-req / s.pwrRegenMax) ∧ 0 ≤ -x ∧ -x ≤ l.state.pwrRegenMax ∧
        (l.pt.isBel = false → x = 0)) locos v) ∧
    (s.pwrRegenDeficit ≠ 0 →
      List.Forall₂ (fun (l : Loco α) x =>
        l.state.pwrRegenMax ≤ -x ∧ -x ≤ l.pt.edrv.pwrOutMax) locos v)

theorem C10_regen : C10_regen_statement (α := α) := by
  intro locos s req v hU hP hS hneg hv
  have hR : RegenOK locos := fun l hl => ⟨(hU l hl).1, (hU l hl).2.2⟩
  have hG := hR.sum_nonneg hP
  obtain ⟨hv', hsf⟩ := splitNeg_ok hv
  obtain ⟨hf0, hf1⟩ := negFrac_bounds s hG (by rw [hS.reqEq]; linarith)
  constructor
  · intro hd
    have h1 := hS.regen_nodef hd
    have hGpos : 0 < s.pwrRegenMax := by linarith
    have hfr1 : -req / s.pwrRegenMax ≤ 1 := by rw [div_le_one hGpos]; exact h1
    have hfr0 : 0 < -req / s.pwrRegenMax := div_pos (by linarith) hGpos
    have hfrac : negFrac s = -req / s.pwrRegenMax := by
      rw [negFrac_nodef s (ne_of_gt hGpos) (by rw [hS.reqEq]; exact hfr1), hS.reqEq]
    refine ⟨hGpos, hfr0, hfr1, ?_⟩
    rw [hv', List.forall₂_map_right_iff, List.forall₂_same]
    intro l hl
    obtain ⟨hg0, hgr, hnb⟩ := hU l hl
    have hb := regenOf_bounds (negFrac s) l hf0 hf1 hg0
    rw [negShare_nodef locos s l hd, neg_neg]
    refine ⟨?_, hb.1, hb.2, ?_⟩
    · unfold regenOf; rw [hfrac]
      cases hbel : l.pt.isBel
      · simp [hnb hbel]
      · simp
    · intro hbel; unfold regenOf; simp [hbel]
  · intro hd
    obtain ⟨h0, h1⟩ := hsf ((eqb_false_iff _ _).mpr hd)
    rw [hv', List.forall₂_map_right_iff, List.forall₂_same]
    intro l hl
    obtain ⟨hg0, hgr, _⟩ := hU l hl
    have hb := negShare_bounds_def locos s l hd hf0 hf1 h0 h1 hg0 hgr
    rw [regenOf_saturated hR hP hS hd l hl] at hb
    exact ⟨hb.2.2, by linarith [hb.1]⟩

/-- non-vacuity (both regimes; the two implications are instantiated with true premises) -/
example : (Ex.st (-2)).pwrRegenDeficit = 0 ∧ (Ex.st (-6)).pwrRegenDeficit ≠ 0 ∧
    List.Forall₂ (fun (l : Loco ℚ) x => -x = l.state.pwrRegenMax * (2 / 3) ∧ 0 ≤ -x ∧
      -x ≤ l.state.pwrRegenMax ∧ (l.pt.isBel = false → x = 0)) Ex.locos [-4/3, 0, -2/3] ∧
    List.Forall₂ (fun (l : Loco ℚ) x => l.state.pwrRegenMax ≤ -x ∧ -x ≤ l.pt.edrv.pwrOutMax)
      Ex.locos [-8/3, -2, -4/3] := by
  have hA := (C10_regen Ex.locos (Ex.st (-2)) (-2) [-4/3, 0, -2/3] Ex.unitsOK.weak (Ex.published _)
    (Ex.stepped _) (by norm_num) (Ex.okVal_some (by decide +kernel))).1 (by decide +kernel)
  have hB := (C10_regen Ex.locos (Ex.st (-6)) (-6) [-8/3, -2, -4/3] Ex.unitsOK.weak
    (Ex.published _) (Ex.stepped _) (by norm_num) (Ex.okVal_some (by decide +kernel))).2
    (by decide +kernel)
  have e : (-(-2 : ℚ)) / (Ex.st (-2)).pwrRegenMax = 2 / 3 := by decide +kernel
  rw [e] at hA
  exact ⟨by decide +kernel, by decide +kernel, hA.2.2.2, hB⟩

/-- **3 (drivetrain).**  What `ElectricDrivetrain::set_pwr_in_req` does with a share: the net
    mechanical output `prop − dyn_brake` is the share; the regenerated power `−prop` never exceeds
    `pwr_mech_regen_max`; for a braking share and a non-negative limit it is exactly
    `min (−share) limit`; a unit with limit 0 regenerates nothing. -/
def C10_regen_edrv_statement : Prop :=
  ∀ (e e' : Edrv α) (share dt : α), edrvReq e share dt = .ok e' →
    e'.state.pwrMechPropOut - e'.state.pwrMechDynBrake = share ∧
    -e'.state.pwrMechPropOut ≤ e.state.pwrMechRegenMax ∧
    0 ≤ e'.state.pwrMechDynBrake ∧
    (share ≤ 0 → 0 ≤ e.state.pwrMechRegenMax →
      -e'.state.pwrMechPropOut = min (-share) e.state.pwrMechRegenMax) ∧
    (share ≤ 0 → e.state.pwrMechRegenMax = 0 → e'.state.pwrMechPropOut = 0)

theorem C10_regen_edrv : C10_regen_edrv_statement (α := α) := by
  intro e e' share dt h
  obtain ⟨_, h2, h3, _⟩ := edrvReq_ok h
  refine ⟨edrvReq_net h, edrvReq_regen_le h, ?_, ?_, ?_⟩
  · rw [h3]; linarith [le_max_left share (-e.state.pwrMechRegenMax)]
  · intro _ _
    rw [h2]
    rcases le_total share (-e.state.pwrMechRegenMax) with h | h
    · rw [max_eq_right h, min_eq_right (by linarith)]; ring
    · rw [max_eq_left h, min_eq_left (by linarith)]
  · intro hs hg
    exact (edrvReq_regen_zero h hs hg).1

/-- non-vacuity: a 4 kW drivetrain with regen limit 2 asked for −3: regenerates 2, dissipates 1 -/
example : ∃ e' : Edrv ℚ, edrvReq (Ex.edrv 4 2) (-3) 1 = .ok e' ∧
    e'.state.pwrMechPropOut = -2 ∧ e'.state.pwrMechDynBrake = 1 := by
  have h : (edrvReq (Ex.edrv 4 2) (-3) 1).isOk = true := by decide +kernel
  cases he : edrvReq (Ex.edrv 4 2) (-3) 1 with
  | ok e' =>
    obtain ⟨h1, _, _, h4, _⟩ := C10_regen_edrv _ e' _ _ he
    have h4' := h4 (by norm_num) (by decide +kernel)
    have hm : min (-(-3 : ℚ)) (Ex.edrv 4 2).state.pwrMechRegenMax = 2 := by decide +kernel
    rw [hm] at h4'
    exact ⟨e', rfl, by linarith, by linarith⟩
  | err m => rw [he] at h; cases h
  | panic m => rw [he] at h; cases h

/-! ## Clause 4 — battery first (RESGreedy) -/

/-- the traction assigned to the fuel-burning units / to the battery units -/
def fuelPart (locos : List (Loco α)) (v : List α) : α :=
  sumLeft (List.zipWith (fun (l : Loco α) x => if l.pt.isBel then 0 else x) locos v)
def batteryPart (locos : List (Loco α)) (v : List α) : α :=
  sumLeft (List.zipWith (fun (l : Loco α) x => if l.pt.isBel then x else 0) locos v)

/-- **4.** Under RESGreedy traction the fuel-burning units together deliver exactly the part of the
    request the battery units' published limits cannot cover, `max (req − Σ_bel pwrOutMax) 0`, and
    the battery units deliver `min req (Σ_bel pwrOutMax)`.  (No sign hypothesis needed.) -/
def C10_battery_first_statement : Prop :=
  ∀ (k : Consts α) (locos : List (Loco α)) (s : ConsistState α) (req : α) (v : List α),
    Published s locos → Stepped s req → 0 < req →
    -- FORCED only through the denominator `pwrOutMaxNonReves ≠ 0`
    req ≤ s.pwrOutMax →
    splitGreedy k locos s = .ok v →
    fuelPart locos v = max (req - s.pwrOutMaxReves) 0 ∧
    batteryPart locos v = min req s.pwrOutMaxReves

theorem C10_battery_first : C10_battery_first_statement (α := α) := by
  intro k locos s req v hP hS hpos hle hv
  have hsum : sumLeft v = req := by
    by_cases hd : s.pwrOutDeficit = 0
    · have hle' := hS.out_nodef hd
      rw [C10_sum_greedy_nodeficit k locos s v hP.reves
        (ne_of_gt (lt_of_lt_of_le hpos hle')) hd hv, hS.reqEq]
    · obtain ⟨hD, hDpos⟩ := hS.out_def hd
      have hN : s.pwrOutMaxNonReves ≠ 0 := by
        rw [hP.nonReves]; apply ne_of_gt; linarith
      rw [C10_sum_greedy_deficit k locos s v hP hN hd (by rw [hS.reqEq]; exact hD) hv, hS.reqEq]
  have hv' := splitGreedy_ok hv
  have hfuel : fuelPart locos v = max (req - s.pwrOutMaxReves) 0 := by
    unfold fuelPart
    rw [hv', List.zipWith_map_right, List.zipWith_self, sumLeft_eq_sum, ← hS.outDeficit]
    by_cases hd : s.pwrOutDeficit = 0
    · rw [greedy_nonbel_sum_nodef locos s hd, hd]
    · obtain ⟨hD, hDpos⟩ := hS.out_def hd
      have hN : s.pwrOutMaxNonReves ≠ 0 := by
        rw [hP.nonReves]; apply ne_of_gt; linarith
      exact greedy_nonbel_sum_def locos s hP.nonReves' hN hd
  refine ⟨hfuel, ?_⟩
  have hsplit : batteryPart locos v + fuelPart locos v = sumLeft v := by
    unfold batteryPart fuelPart
    rw [hv', List.zipWith_map_right, List.zipWith_self, List.zipWith_map_right,
      List.zipWith_self, sumLeft_eq_sum, sumLeft_eq_sum, sumLeft_eq_sum]
    exact (sum_map_compl locos (fun l => l.pt.isBel) (greedyShare s)).symm
  have : batteryPart locos v = req - max (req - s.pwrOutMaxReves) 0 := by
    rw [← hfuel, ← hsum, ← hsplit]; ring
  rw [this]
  rcases max_zero_cases (req - s.pwrOutMaxReves) with ⟨h1, h2⟩ | ⟨h1, h2⟩
  · rw [h1, min_eq_left (by linarith)]; ring
  · rw [h1, min_eq_right (by linarith)]; ring

/-- non-vacuity: 6 kW demand, batteries can cover 4: the diesel delivers 2, the batteries 4 -/
example : fuelPart Ex.locos ([3, 2, 1] : List ℚ) = 2 ∧ batteryPart Ex.locos ([3, 2, 1] : List ℚ) = 4 := by
  have h := C10_battery_first Ex.k Ex.locos (Ex.st 6) 6 [3, 2, 1] (Ex.published _) (Ex.stepped _)
    (by norm_num) (by decide +kernel) (Ex.okVal_some (by decide +kernel))
  have e1 : max ((6 : ℚ) - (Ex.st 6).pwrOutMaxReves) 0 = 2 := by decide +kernel
  have e2 : min (6 : ℚ) (Ex.st 6).pwrOutMaxReves = 4 := by decide +kernel
  rw [e1, e2] at h; exact h

/-- RESGreedy traction: the closed-form share vector sums to the request -/
theorem greedy_total {s : ConsistState α} {locos : List (Loco α)} {req : α}
    (hP : Published s locos) (hS : Stepped s req) (hpos : 0 < req) (hle : req ≤ s.pwrOutMax) :
    sumLeft (locos.map (greedyShare s)) = req := by
  rw [sumLeft_eq_sum]
  by_cases hd : s.pwrOutDeficit = 0
  · have hle' := hS.out_nodef hd
    rw [greedyShare_sum_nodef locos s hP.reves' (ne_of_gt (lt_of_lt_of_le hpos hle')) hd,
      hS.reqEq]
  · obtain ⟨hD, hDpos⟩ := hS.out_def hd
    have hN : s.pwrOutMaxNonReves ≠ 0 := by
      rw [hP.nonReves]; apply ne_of_gt; linarith
    rw [greedyShare_sum_def locos s hP.reves' hP.nonReves' hN hd, hD]; ring

/-! ## Clause 5 — the sum assertions cannot fire -/

/-- **5.** Under the hypotheses of clause 1 and a positive tolerance, computing the shares never
    panics (the `assert_almost_eq_uom!` at the end of `RESGreedy::solve_positive_traction` is
    unreachable) and the consist-level `almost_eq(req, Σ shares)` check always passes. -/
def C10_no_panic_statement : Prop :=
  ∀ (k : Consts α) (pdct : Policy) (locos : List (Loco α)) (s : ConsistState α) (req : α),
    RegenOK locos → Published s locos → Stepped s req →
    req ≤ s.pwrOutMax → -req ≤ dynBrakeMax locos →
    -- FORCED: `almost_eq(x, x, eps)` is false for `eps ≤ 0`
    0 < k.eps →
    (∀ m, sharesOf k pdct locos s req ≠ .panic m) ∧
    (∀ v, sharesOf k pdct locos s req = .ok v → almostEq req (sumLeft v) k.eps = true)

theorem C10_no_panic : C10_no_panic_statement (α := α) := by
  intro k pdct locos s req hR hP hS hle hbr heps
  refine ⟨?_, ?_⟩
  · intro m hm
    unfold sharesOf at hm
    split_ifs at hm with hpos hneg
    · cases pdct with
      | proportional => cases hm
      | resGreedy =>
        simp only at hm
        rw [splitGreedy_cases] at hm
        have ht : sumLeft (locos.map (greedyShare s)) = s.pwrOutReq := by
          rw [greedy_total hP hS hpos hle, hS.reqEq]
        rw [ht, almostEq_self _ _ heps, if_pos rfl] at hm
        cases hm
    · rw [splitNeg_cases] at hm
      split_ifs at hm
  · intro v hv
    rw [C10_sum k pdct locos s req v hR hP hS hle hbr hv]
    exact almostEq_self req k.eps heps

/-- non-vacuity -/
example : (∀ m, sharesOf Ex.k .resGreedy Ex.locos (Ex.st 6) 6 ≠ .panic m) ∧
    (∀ v, sharesOf Ex.k .resGreedy Ex.locos (Ex.st 6) 6 = .ok v →
      almostEq 6 (sumLeft v) Ex.k.eps = true) :=
  C10_no_panic Ex.k .resGreedy Ex.locos (Ex.st 6) 6 Ex.unitsOK.regenOK (Ex.published _)
    (Ex.stepped _) (by decide +kernel) (by decide +kernel) (by decide +kernel)

/-! ## Clause 6 — one accepted consist step, end to end -/

/-- every share vector `consistSolve` can compute is `locos.map f` (one entry per unit, in order) -/
theorem sharesOf_map {k : Consts α} {pdct : Policy} {locos : List (Loco α)} {s : ConsistState α}
    {req : α} {v : List α} (h : sharesOf k pdct locos s req = .ok v) :
    ∃ f : Loco α → α, v = locos.map f := by
  unfold sharesOf at h
  split_ifs at h
  · cases pdct with
    | proportional => cases h; exact ⟨propShare s, rfl⟩
    | resGreedy => exact ⟨_, splitGreedy_ok h⟩
  · exact ⟨_, (splitNeg_ok h).1⟩
  · cases h; exact ⟨_, rfl⟩

theorem map_eq_of_forall₂ {β γ δ : Type} {f : β → δ} {g : γ → δ} {l : List β} {u : List γ}
    (h : List.Forall₂ (fun a b => f a = g b) l u) : l.map f = u.map g := by
  induction h with
  | nil => rfl
  | cons h _ ih => simp [h, ih]

theorem forall₂_exists_left {β γ : Type} {R : β → γ → Prop} {l : List β} {u : List γ}
    (h : List.Forall₂ R l u) : ∀ b ∈ u, ∃ a ∈ l, R a b := by
  induction h with
  | nil => intro b hb; cases hb
  | cons hab _ ih =>
    intro b hb
    rcases List.mem_cons.mp hb with rfl | hm
    · exact ⟨_, List.mem_cons_self, hab⟩
    · obtain ⟨a, ha, hr⟩ := ih b hm
      exact ⟨a, List.mem_cons_of_mem _ ha, hr⟩

/-- what an accepted step did to unit `l` (before) ↦ `l'` (after) -/
def UnitStepOK (req : α) (l l' : Loco α) : Prop :=
  -- the unit's reported output respects its capability and does not oppose the consist
  ShareOK req l l'.state.pwrOut ∧
  -- it is the drivetrain's net mechanical output
  l'.pt.edrv.state.pwrMechPropOut - l'.pt.edrv.state.pwrMechDynBrake = l'.state.pwrOut ∧
  -- regenerated power within the drivetrain's current regen limit
  -l'.pt.edrv.state.pwrMechPropOut ≤ l.pt.edrv.state.pwrMechRegenMax ∧
  -- kind, published limits and rating are untouched by the step
  l'.pt.isBel = l.pt.isBel ∧ l'.state.pwrOutMax = l.state.pwrOutMax ∧
  l'.state.pwrRegenMax = l.state.pwrRegenMax ∧ l'.pt.edrv.pwrOutMax = l.pt.edrv.pwrOutMax

/-- the conclusion of clause 6 for a step `c ↦ c'` with demand `req` -/
def AcceptedStepOK (k : Consts α) (c c' : Consist α) (req : α) : Prop :=
  -- the demand was between full dynamic braking and full traction
  (-c.state.pwrDynBrakeMax ≤ req ∧ req ≤ c.state.pwrOutMax) ∧
  -- the shares used: sum to the request, respect every unit's capability
  (∃ shares : List α,
    sharesOf k c.pdct c.locos (stepState c.state c.locos req) req = .ok shares ∧
    sumLeft shares = req ∧
    List.Forall₂ (ShareOK req) c.locos shares ∧
    List.Forall₂ (fun (l' : Loco α) x => l'.state.pwrOut = x) c'.locos shares) ∧
  c'.state.pwrOut = req ∧
  sumLeft (c'.locos.map (fun l' => l'.state.pwrOut)) = req ∧
  List.Forall₂ (UnitStepOK req) c.locos c'.locos ∧
  -- invariants re-established for the next step
  (c'.state.pwrDynBrakeMax = dynBrakeMax c'.locos ∧ Published c'.state c'.locos)

/-- **6.** -/
def C10_end_to_end_statement : Prop :=
  ∀ (k : Consts α) (c c' : Consist α) (req dt : α) (on : Option Bool),
    c.assertLimits = true →
    UnitsOK c.locos →
    Published c.state c.locos →
    -- the brake limit check uses the value stored BEFORE the step; it must not overstate the sum
    -- of the ratings (`init()` and every previous step store exactly `dynBrakeMax locos`, see the
    -- last conjunct).  FORCED only through the totalised division `deficit / 0 = 0` when
    -- `Σ rating = Σ regen limit`; in IEEE arithmetic that division makes the step fail.
    c.state.pwrDynBrakeMax ≤ dynBrakeMax c.locos →
    consistSolve k c req dt on = .ok c' →
    AcceptedStepOK k c c' req

theorem C10_end_to_end : C10_end_to_end_statement (α := α) := by
  intro k c c' req dt on hal hU hP hdyn h
  unfold AcceptedStepOK
  obtain ⟨h1, h2, shares, hsh, hsu, hout, hkeep, hdb⟩ := consistSolve_ok hal h
  have hP' := published_step (locos := c.locos) req hP
  have hS' := stepped_step c.state c.locos req
  have hsum : sumLeft shares = req :=
    C10_sum k c.pdct c.locos _ req shares hU.regenOK hP' hS' h2 (by linarith) hsh
  have hb := C10_bounds_partial k c.pdct c.locos _ req shares hU hP' hS' h2 hsh
  obtain ⟨f, hf⟩ := sharesOf_map hsh
  subst hf
  have hunits := solveUnits_map_ok f hsu
  have hb' := hb
  rw [List.forall₂_map_right_iff, List.forall₂_same] at hb'
  have hall : List.Forall₂ (fun l l' => ShareOK req l (f l) ∧ locoSolve k l (f l) dt on = .ok l')
      c.locos c'.locos := (List.forall₂_and_left _ _).mpr ⟨hb', hunits⟩
  have hpw : List.Forall₂ (fun (l' : Loco α) (l : Loco α) => l'.state.pwrOut = f l)
      c'.locos c.locos :=
    List.Forall₂.flip (hunits.imp (fun l l' hl => (locoSolve_ok hl).2.1))
  have hstep : List.Forall₂ (UnitStepOK req) c.locos c'.locos := by
    refine hall.imp ?_
    rintro l l' ⟨hs, hl⟩
    obtain ⟨he, hp, hbel, hm, hr, hrt⟩ := locoSolve_ok hl
    exact ⟨by rw [hp]; exact hs, by rw [hp]; exact edrvReq_net he, edrvReq_regen_le he,
      hbel, hm, hr, hrt⟩
  have hflip : List.Forall₂ (fun (l' l : Loco α) => UnitStepOK req l l') c'.locos c.locos :=
    List.Forall₂.flip hstep
  have hmapOut : c'.locos.map (fun l' => l'.state.pwrOut) = c.locos.map f := map_eq_of_forall₂ hpw
  refine ⟨⟨by linarith, h2⟩, ⟨_, hsh, hsum, hb, List.forall₂_map_right_iff.mpr hpw⟩,
    hout.trans hsum, by rw [hmapOut]; exact hsum, hstep, ?_, ?_⟩
  · rw [hdb]; unfold dynBrakeMax
    congr 1
    exact (map_eq_of_forall₂ (hflip.imp (fun l' l h => h.2.2.2.2.2.2))).symm
  · have e1 : c'.locos.map (fun l => l.state.pwrOutMax) = c.locos.map (fun l => l.state.pwrOutMax) :=
      map_eq_of_forall₂ (hflip.imp (fun l' l h => h.2.2.2.2.1))
    have e2 : c'.locos.map (fun l => l.state.pwrRegenMax)
        = c.locos.map (fun l => l.state.pwrRegenMax) :=
      map_eq_of_forall₂ (hflip.imp (fun l' l h => h.2.2.2.2.2.1))
    have e3 : c'.locos.map (fun l => if l.pt.isBel then l.state.pwrOutMax else 0)
        = c.locos.map (fun l => if l.pt.isBel then l.state.pwrOutMax else 0) :=
      map_eq_of_forall₂ (hflip.imp (fun l' l h => by rw [h.2.2.2.1, h.2.2.2.2.1]))
    obtain ⟨k1, k2, k3, k4⟩ := hkeep
    exact ⟨by rw [k1, e1]; exact hP.outMax, by rw [k2, e2]; exact hP.regenMax,
      by rw [k3, e3]; exact hP.reves, by rw [k4, k1, k3]; exact hP.nonReves⟩

/-- non-vacuity: the example consist accepts `+6` kW (RESGreedy) and `−6` kW (Proportional);
    all hypotheses of `C10_end_to_end` hold, so its conclusion applies to the results. -/
example (req : ℚ) (p : Policy) (hreq : (req = 6 ∧ p = .resGreedy) ∨ (req = -6 ∧ p = .proportional)) :
    ∃ c', consistSolve Ex.k (Ex.consist p) req 1 none = .ok c' ∧ c'.state.pwrOut = req ∧
      List.Forall₂ (UnitStepOK req) Ex.locos c'.locos := by
  have hok : (consistSolve Ex.k (Ex.consist p) req 1 none).isOk = true := by
    rcases hreq with ⟨rfl, rfl⟩ | ⟨rfl, rfl⟩ <;> decide +kernel
  cases he : consistSolve Ex.k (Ex.consist p) req 1 none with
  | ok c' =>
    have h := C10_end_to_end Ex.k (Ex.consist p) c' req 1 none rfl Ex.unitsOK Ex.published0
      (le_refl _) he
    exact ⟨c', rfl, h.2.2.1, h.2.2.2.2.1⟩
  | err m => rw [he] at hok; cases hok
  | panic m => rw [he] at hok; cases hok

/-- **Why `pwrDynBrakeMax ≤ dynBrakeMax locos` is needed in clause 6 (model artefact, not a code
    defect).**  One battery unit whose regen limit equals its rating (4 kW), a stale stored brake
    limit of 5 kW, and a braking demand exceeding the regen limit by `10⁻⁹ < eps`: the surplus sum is
    0, the field model evaluates `deficit / 0 = 0`, the `surplus-frac` check passes, the unit gets
    `−4` and the consist reports `−4 ≠ req`; the final `almost_eq` check cannot see a `10⁻⁹`
    mismatch.  In IEEE arithmetic `deficit / 0 = +inf` fails the `surplus-frac` check instead. -/
theorem C10_stale_brake_limit_counterexample :
    let c : Consist ℚ := ⟨[Ex.loco true 4 4 4], .resGreedy, true,
      { Ex.publish [Ex.loco true 4 4 4] with pwrDynBrakeMax := 5 }⟩
    UnitsOK c.locos ∧ Published c.state c.locos ∧ ¬ c.state.pwrDynBrakeMax ≤ dynBrakeMax c.locos ∧
    Ex.okVal ((consistSolve Ex.k c (-4 - 1/1000000000) 1 none).bind
      (fun c' => .ok c'.state.pwrOut)) = some (-4) := by
  intro c
  exact ⟨by unfold UnitsOK; decide +kernel,
    ⟨by decide +kernel, by decide +kernel, by decide +kernel, by decide +kernel⟩,
    by decide +kernel, by decide +kernel⟩

/-! ## Clause 6' — the whole simulation step `set_pwr_aux; set_cur_pwr_max_out; solve` -/

/-- **6'.** For an accepted `ConsistSimulation::solve_step` nothing has to be assumed about the
    published regen limits or the consist sums — the code establishes `UnitsOKWeak` and `Published`
    itself — but the non-negativity of the published traction limits remains a hypothesis
    (`C10_simstep_counterexample` shows it can fail and what happens then). -/
def C10_simstep_statement : Prop :=
  ∀ (k : Consts α) (c c' : Consist α) (req dt : α),
    c.assertLimits = true →
    -- drivetrain ratings are non-negative (parameter sanity; needed for `0 = regen ≤ rating` on
    -- conventional units, i.e. FORCED for the braking bound `-rating ≤ share`)
    (∀ l ∈ c.locos, 0 ≤ l.pt.edrv.pwrOutMax) →
    c.state.pwrDynBrakeMax ≤ dynBrakeMax c.locos →
    consistSimStep k c req dt = .ok c' →
    ∃ c1, consistSetCurMax k (consistSetAux c (some true)) dt = .ok c1 ∧
      consistSolve k c1 req dt (some true) = .ok c' ∧
      UnitsOKWeak c1.locos ∧ Published c1.state c1.locos ∧
      -- FORCED (see `C10_simstep_counterexample`)
      ((∀ l ∈ c1.locos, 0 ≤ l.state.pwrOutMax) →
        AcceptedStepOK k c1 c' req ∧
        -- regeneration: within the published limit, none on fuel-burning units
        List.Forall₂ (fun (l l' : Loco α) =>
          -l'.pt.edrv.state.pwrMechPropOut ≤ l.state.pwrRegenMax ∧
          (l.pt.isBel = false → 0 ≤ l'.pt.edrv.state.pwrMechPropOut)) c1.locos c'.locos)

theorem C10_simstep : C10_simstep_statement (α := α) := by
  intro k c c' req dt hal hrat hdyn h
  obtain ⟨c1, h1, h2⟩ := consistSimStep_ok h
  obtain ⟨hmap, _, _, _, _, hdb, hal1, _⟩ := consistSetCurMax_ok h1
  have hP := published_of_setCurMax h1
  have hunits := mapM'_ok hmap
  -- per-unit facts after publishing, paired with the unit before
  have hfacts : ∀ l1 ∈ c1.locos,
      l1.pt.edrv.state.pwrMechRegenMax = l1.state.pwrRegenMax ∧
      0 ≤ l1.state.pwrRegenMax ∧ l1.state.pwrRegenMax ≤ l1.pt.edrv.pwrOutMax ∧
      (l1.pt.isBel = false → l1.state.pwrRegenMax = 0) := by
    intro l1 hl1
    obtain ⟨l, hl, hok⟩ := forall₂_exists_left hunits l1 hl1
    obtain ⟨g1, _, g3, g4, g5, g6, g7⟩ := locoSetCurMax_ok hok
    refine ⟨g1, g3, ?_, g4⟩
    -- rating of `l` is that of a unit of `c`
    have hr : 0 ≤ l1.pt.edrv.pwrOutMax := by
      rw [g7]
      unfold consistSetAux at hl
      obtain ⟨l0, hl0, rfl⟩ := List.mem_map.mp hl
      exact hrat l0 hl0
    cases hb : l1.pt.isBel
    · rw [g4 hb]; exact hr
    · exact g5 hb
  have hW : UnitsOKWeak c1.locos := fun l hl => (hfacts l hl).2
  refine ⟨c1, h1, h2, hW, hP, ?_⟩
  intro hpos
  have hU : UnitsOK c1.locos := fun l hl => ⟨hpos l hl, hW l hl⟩
  have hdyn1 : c1.state.pwrDynBrakeMax ≤ dynBrakeMax c1.locos := by
    rw [hdb]
    have : dynBrakeMax c1.locos = dynBrakeMax c.locos := by
      unfold dynBrakeMax
      congr 1
      have e : (consistSetAux c (some true)).locos.map (fun l => l.pt.edrv.pwrOutMax)
          = c.locos.map (fun l => l.pt.edrv.pwrOutMax) := by
        unfold consistSetAux; rw [List.map_map]; rfl
      rw [← e]
      exact (map_eq_of_forall₂ (hunits.imp (fun l l1 hl => (locoSetCurMax_ok hl).2.2.2.2.2.2.symm))).symm
    rw [this]; exact hdyn
  have hE := C10_end_to_end k c1 c' req dt (some true) (by rw [hal1]; exact hal) hU hP hdyn1 h2
  refine ⟨hE, ?_⟩
  have hstep := hE.2.2.2.2.1
  have : List.Forall₂ (fun (l l' : Loco α) => l ∈ c1.locos ∧ UnitStepOK req l l') c1.locos c'.locos :=
    (List.forall₂_and_left _ _).mpr ⟨fun _ h => h, hstep⟩
  refine this.imp ?_
  rintro l l' ⟨hl, hs⟩
  obtain ⟨g1, _, _, g4⟩ := hfacts l hl
  have hle := hs.2.2.1
  rw [g1] at hle
  exact ⟨hle, fun hb => by rw [g4 hb] at hle; linarith⟩

/-- non-vacuity: the example consist, run through the whole step with a demand of `+6` kW under
    RESGreedy; the limits it publishes are `[4, 6, 2]`, all non-negative. -/
example : ∃ c1 c', consistSimStep Ex.k (Ex.consist .resGreedy) 6 1 = .ok c' ∧
    AcceptedStepOK Ex.k c1 c' 6 := by
  have hok : (consistSimStep Ex.k (Ex.consist .resGreedy) 6 1).isOk = true := by decide +kernel
  cases he : consistSimStep Ex.k (Ex.consist .resGreedy) 6 1 with
  | ok c' =>
    obtain ⟨c1, h1, _, _, _, hfin⟩ := C10_simstep Ex.k (Ex.consist .resGreedy) c' 6 1 rfl
      (by decide +kernel) (le_refl _) he
    have hm : c1.locos.map (fun l => l.state.pwrOutMax) = [4, 6, 2] := by
      have h := (by decide +kernel : Ex.okVal
        ((consistSetCurMax Ex.k (consistSetAux (Ex.consist .resGreedy) (some true)) 1).bind
          (fun c1 => .ok (c1.locos.map (fun l => l.state.pwrOutMax)))) = some [4, 6, 2])
      rw [h1] at h
      exact Option.some.inj h
    have hpos : ∀ l ∈ c1.locos, 0 ≤ l.state.pwrOutMax := by
      intro l hl
      have : l.state.pwrOutMax ∈ c1.locos.map (fun l => l.state.pwrOutMax) :=
        List.mem_map.mpr ⟨l, hl, rfl⟩
      rw [hm] at this
      simp only [List.mem_cons, List.not_mem_nil, or_false] at this
      rcases this with h | h | h <;> rw [h] <;> norm_num
    exact ⟨c1, c', rfl, (hfin hpos).1⟩
  | err m => rw [he] at hok; cases hok
  | panic m => rw [he] at hok; cases hok

end Altrios.Proofs.C10
