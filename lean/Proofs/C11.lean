import Altrios.Train
import Proofs.Lemmas.Basic
import Proofs.Lemmas.Ledger
import Proofs.Lemmas.LevelsL
import Proofs.C10
import Proofs.C01
import Mathlib.Algebra.Order.Field.Basic
import Mathlib.Algebra.Order.Field.Rat
import Mathlib.Tactic.Linarith
import Mathlib.Tactic.Ring
import Mathlib.Tactic.NormNum
import Mathlib.Tactic.FieldSimp
import Mathlib.Tactic.SplitIfs
/-
  C11 — "Power and energy agree across train, consist and locomotive levels".

  Model: `ssStep`, `slStep`, `ssRequiredPwr`, `slRequiredPwr`, `scalingFactor` (Altrios/Train.lean),
  `consistSimStep`, `consistSolve`, `getEnergyFuel`, `getNetEnergyRes` (Altrios/Consist.lean).
  Reused: C10 (`C10_sum…`: the shares sum to the request), C01 §6 (`C01_consist_step`,
  `C01_consist_rollup`: the consist counters are the sums over the units).

  Clauses (exact arithmetic over an arbitrary linearly ordered field):
    1.  `C11_inner_call`, `C11_inner_call_asserted`  the consist delivers exactly a request within
        its published limits = Σ unit outputs;  `C11_inner_call_unguarded_counterexample`: without the
        limits (limit checking off) it need not (field-model artefact `x/0 = 0`)
        `C11_ss_power`, `C11_sl_power`  one train step: the consist went through exactly one
        `ConsistSimulation::solve_step` with request `pwrWhlOut` and the train's own `dt`;
        train demand = consist delivery = Σ locomotives.  `assert_limits` is NOT needed: the train
        clamps its demand to the limits the consist published.
    2.  `C11_ss_energy`, `C11_sl_energy`  one step: wheel energy, its positive and its negative part
        advance by the same amounts on train and consist level, and the net by Σ unit increments
    3.  `C11_ss_walk`, `C11_sl_walk`, `C11_ss_closed`, `C11_sl_closed`  along every accepted run, at
        every saved step: train = consist = Σ locomotives (wheel energy), train = consist (±parts),
        consist fuel / battery energy = Σ over units
    4.  `C11_scaling_factor`, `C11_trip_outputs`, `C11_trip_outputs_run`  the trip-level getters are
        the totals times the annualisation factor, nothing else

  The one hypothesis besides "the step was accepted": `DynOK con`, the stored
  `pwr_dyn_brake_max` does not overstate Σ drivetrain ratings (`init()` and every step store exactly
  that sum; re-established by every step, so it is a condition on the INITIAL consist only).
  It is forced only through the totalised division `deficit / 0 = 0` of the field model
  (`C10_stale_brake_limit_counterexample`, `C11_stale_brake_limit_counterexample`).
-/
set_option linter.unusedSectionVars false
set_option autoImplicit false
namespace Altrios.Proofs.C11
open Altrios Altrios.Tpc Altrios.Rs Altrios.PT Altrios.CS Altrios.Tr
open Altrios.Proofs.Basic Altrios.Proofs.LedgerL Altrios.Proofs.SplitL Altrios.Proofs.LevelsL
open Altrios.Proofs.C10 Altrios.Proofs.C01

variable {α : Type} [Field α] [LinearOrder α] [IsStrictOrderedRing α]

/-! ## Definitions -/

/-- train demand = consist delivery = Σ locomotive outputs, at one saved state -/
def PowerAgree (s : TrainState α) (con : Consist α) : Prop :=
  con.state.pwrOut = s.k.pwrWhlOut ∧ con.state.pwrOut = sumLeft (con.locos.map (·.state.pwrOut))

/-- train-level minus consist-level cumulative wheel energy: net, positive part, negative part -/
def levelDefects (s : TrainState α) (con : Consist α) : α × α × α :=
  (s.k.energyWhlOut - con.state.energyOut,
   s.k.energyWhlOutPos - con.state.energyOutPos,
   s.k.energyWhlOutNeg - con.state.energyOutNeg)

/-- the energies of one step `(s, con) ↦ (s', con')` of size `dt` agree on the three levels -/
def StepEnergies (con con' : Consist α) (s s' : TrainState α) (dt : α) : Prop :=
  -- net wheel energy: train, consist, Σ locomotives all advance by demand × dt
  s'.k.energyWhlOut - s.k.energyWhlOut = s'.k.pwrWhlOut * dt ∧
  con'.state.energyOut - con.state.energyOut = s'.k.pwrWhlOut * dt ∧
  sumLeft (con'.locos.map (·.state.energyOut)) - sumLeft (con.locos.map (·.state.energyOut))
    = s'.k.pwrWhlOut * dt ∧
  -- positive and negative parts: same increments on train and consist level
  s'.k.energyWhlOutPos - s.k.energyWhlOutPos = con'.state.energyOutPos - con.state.energyOutPos ∧
  s'.k.energyWhlOutNeg - s.k.energyWhlOutNeg = con'.state.energyOutNeg - con.state.energyOutNeg ∧
  -- … namely: everything to the positive part when the power is ≥ 0, to the negative part otherwise
  (0 ≤ s'.k.pwrWhlOut →
    s'.k.energyWhlOutPos - s.k.energyWhlOutPos = s'.k.pwrWhlOut * dt ∧
    s'.k.energyWhlOutNeg = s.k.energyWhlOutNeg) ∧
  (s'.k.pwrWhlOut < 0 →
    s'.k.energyWhlOutNeg - s.k.energyWhlOutNeg = -(s'.k.pwrWhlOut * dt) ∧
    s'.k.energyWhlOutPos = s.k.energyWhlOutPos) ∧
  -- hence the train/consist differences and the consist/unit differences do not move
  levelDefects s' con' = levelDefects s con ∧
  consistDefects con' = consistDefects con

theorem levelDefects_of_stepAgree {kc : Consts α} {con con' : Consist α} {s s' : TrainState α}
    (h : StepAgree kc con con' s.k s'.k) : levelDefects s' con' = levelDefects s con := by
  unfold levelDefects
  refine Prod.ext ?_ (Prod.ext ?_ ?_) <;> simp only
  · linarith [h.eOut]
  · linarith [h.ePos]
  · linarith [h.eNeg]

theorem stepEnergies_of_stepAgree {kc : Consts α} {con con' : Consist α} {s s' : TrainState α}
    {dt : α} (hdt : s'.k.dt = dt) (h : StepAgree kc con con' s.k s'.k) :
    StepEnergies con con' s s' dt := by
  have hw := h.whl
  rw [hdt] at hw
  have h1 := h.eOut
  have h2 := h.eUnits
  have h3 := h.ePosNeg
  rw [hdt] at h3
  exact ⟨by linarith, by linarith, by linarith, h.ePos, h.eNeg, h3.1, h3.2,
    levelDefects_of_stepAgree h, h.defects⟩

/-! ## Concrete data over `ℚ` (non-vacuity examples and counterexamples) -/
namespace Fx

/-- the literals of the Rust code -/
def cT : TrConsts ℚ := ⟨1/2, 2, 4, 44704/1000000, 1/100000000, 1/10000000⟩

/-- one 10 km link, level and straight -/
def tpc : Tpc ℚ :=
  { linkPoints := [⟨0, 1, 1, 0, 3⟩, ⟨10000, 0, 0, 0, 0⟩], grades := [⟨0, 0, 0⟩, ⟨10000, 0, 0⟩],
    curves := [⟨0, 0, 0⟩, ⟨10000, 0, 0⟩], speedPoints := [], cats := [],
    par := ⟨⟨100, 30, 0, 0, 4⟩, 0, 0, 0, 0⟩, isFinished := true }

/-- bearing 2 N, rolling ratio 0.001, no Davis B, drag area 1 m² -/
def strap : ResStrap ℚ := ⟨2, 1/1000, 0, 1, ⟨0, 0⟩, ⟨0, 0⟩⟩
/-- no resistance at all -/
def strap0 : ResStrap ℚ := ⟨0, 0, 0, 0, ⟨0, 0⟩, ⟨0, 0⟩⟩

/-- a (toy-sized: the fixtures of C01 are 1 kW units) 100 kg, 100 m train standing at 200 m,
    60 kg of it freight, all counters zero -/
def r0 : Rs.ResState ℚ :=
  { offset := 200, offsetBack := 100, speed := 0, length := 100, massStatic := 100,
    weightStatic := 0, resRolling := 0, resBearing := 0, resDavisB := 0, resAero := 0,
    resGrade := 0, resCurve := 0, gradeFront := 0, gradeBack := 0, elevFront := 0 }
def k0 : Kin ℚ :=
  { time := 0, totalDist := 0, linkIdxFront := 0, offsetInLink := 0, speedLimit := 0,
    speedTarget := 0, dt := 1, massRot := 10, massFreight := 60, pwrRes := 0, pwrAccel := 0,
    pwrWhlOut := 0, energyWhlOut := 0, energyWhlOutPos := 0, energyWhlOutNeg := 0 }
def s0 : TrainState ℚ := ⟨r0, k0⟩

/-- conventional + battery-electric + conventional (the units of C01, interpolated efficiencies),
    limit checking on, `pwr_dyn_brake_max` = Σ ratings as `init()` stores it, all counters zero -/
def con0 (p : Policy) : Consist ℚ :=
  ⟨[C01.Ex.convQ, C01.Ex.belQ, C01.Ex.convQ], p, true, { C01.Ex.cStQ with pwrDynBrakeMax := 2400 }⟩

def g : ℚ := 981/100
def rho : ℚ := 12/10

/-- a rational upper bound of the square root (AM–GM); `sqrt` is a parameter of the model -/
def sqrtQ (x : ℚ) : ℚ := (x + 1) / 2
def fb0 : FricBrake ℚ := ⟨1000, 1, 1/2, 0, 0⟩
/-- speed limit 3 m/s up to 206 m, then 1 m/s: accelerate, cruise, brake (friction brake and
    dynamic braking), cruise -/
def bp0 : BrakingPoints ℚ := ⟨[⟨10000, 0, 0⟩, ⟨206, 1, 1⟩, ⟨0, 3, 3⟩], 2⟩
def ufm : List ℚ := [1000, 1000, 1000]

/-- speed trace: accelerate, accelerate, hold (a 2 s step), brake -/
def ssTr : List (ℚ × ℚ × ℚ × ℚ) := [(0, 1, 0, 1), (1, 2, 1, 2), (2, 2, 2, 4), (2, 1, 4, 5)]

theorem con0_dynOK (p : Policy) : DynOK (con0 p) := by
  unfold DynOK; cases p <;> decide +kernel
theorem con0_zero (p : Policy) : ∀ d ∈ consistDefects (con0 p), d = 0 := by
  cases p <;> decide +kernel

end Fx

/-! ## Clause 1 — train demand = consist delivery = Σ locomotives (one step) -/

/-- **1a. The inner call** `Consist::solve_energy_consumption(req, dt, engine_on)` on a consist
    whose limits are as `set_cur_pwr_max_out` publishes them (`RegenOK`, `Published`; both are
    DERIVED for a whole step in 1b/1c).  Independent of `assert_limits`. -/
def C11_inner_call_statement : Prop :=
  ∀ (k : Consts α) (c c' : Consist α) (req dt : α) (on : Option Bool),
    RegenOK c.locos → Published c.state c.locos →
    -- FORCED (through the denominators `pwr_out_max`, `pwr_out_max_non_reves`): see
    -- `C11_inner_call_unguarded_counterexample`
    req ≤ c.state.pwrOutMax →
    -- FORCED (through the denominator `pwr_surplus_sum`): `C10_stale_brake_limit_counterexample`
    (req < 0 → -req ≤ dynBrakeMax c.locos) →
    consistSolve k c req dt on = .ok c' →
      c'.state.pwrOut = req ∧
      c'.state.pwrOut = sumLeft (c'.locos.map (·.state.pwrOut)) ∧
      c'.state.energyOut = c.state.energyOut + req * dt

theorem C11_inner_call : C11_inner_call_statement (α := α) := by
  intro k c c' req dt on hR hP hle hbr h
  have hp := consistSolve_delivers hR hP hle hbr h
  obtain ⟨_, _, _, hsum, _, heo, _⟩ := C01_consist_rollup k c c' req dt on h
  exact ⟨hp, hsum, by rw [heo, hp]⟩

/-- non-vacuity: the consist of C10 (battery 3 kW – diesel 5 kW – battery 1 kW), `−6` kW:
    regeneration saturated, the rest dynamic braking -/
example : ∃ c', consistSolve C10.Ex.k (C10.Ex.consist .proportional) (-6) 1 none = .ok c' ∧
    c'.state.pwrOut = -6 := by
  obtain ⟨c', h, _⟩ := C01.Ex.okAnd_exists
    (r := consistSolve C10.Ex.k (C10.Ex.consist .proportional) (-6) 1 none) (p := fun _ => true)
    (by decide +kernel)
  exact ⟨c', h, (C11_inner_call _ _ c' _ _ _ C10.Ex.unitsOK.regenOK C10.Ex.published0
    (by decide +kernel) (fun _ => by decide +kernel) h).1⟩

/-- **1a'. The inner call with limit checking on**: the two limit hypotheses of 1a are what
    `assert_limits` checks, given that the stored brake limit is not stale. -/
def C11_inner_call_asserted_statement : Prop :=
  ∀ (k : Consts α) (c c' : Consist α) (req dt : α) (on : Option Bool),
    c.assertLimits = true →
    RegenOK c.locos → Published c.state c.locos →
    -- FORCED only through `deficit / 0 = 0`: `C10_stale_brake_limit_counterexample`
    DynOK c →
    consistSolve k c req dt on = .ok c' →
      c'.state.pwrOut = req ∧
      c'.state.pwrOut = sumLeft (c'.locos.map (·.state.pwrOut)) ∧
      c'.state.energyOut = c.state.energyOut + req * dt

theorem C11_inner_call_asserted : C11_inner_call_asserted_statement (α := α) := by
  intro k c c' req dt on hal hR hP hdyn h
  obtain ⟨_, _, _, _, hlim⟩ := consistSolve_shares h
  obtain ⟨h1, h2⟩ := hlim hal
  unfold DynOK at hdyn
  exact C11_inner_call k c c' req dt on hR hP h2 (fun _ => by linarith) h

example : ∃ c', consistSolve C10.Ex.k (C10.Ex.consist .resGreedy) 6 1 none = .ok c' ∧
    c'.state.pwrOut = 6 := by
  obtain ⟨c', h, _⟩ := C01.Ex.okAnd_exists
    (r := consistSolve C10.Ex.k (C10.Ex.consist .resGreedy) 6 1 none) (p := fun _ => true)
    (by decide +kernel)
  exact ⟨c', h, (C11_inner_call_asserted _ _ c' _ _ _ rfl C10.Ex.unitsOK.regenOK C10.Ex.published0
    (le_refl _) h).1⟩

/-- 1a without the limit hypotheses (FALSE in the field model) -/
def C11_inner_call_unguarded_statement : Prop :=
  ∀ (k : Consts α) (c c' : Consist α) (req dt : α) (on : Option Bool),
    RegenOK c.locos → Published c.state c.locos → DynOK c →
    consistSolve k c req dt on = .ok c' → c'.state.pwrOut = req

namespace Fx
/-- one diesel unit publishing a traction limit of 0, limit checking OFF -/
def offConsist : Consist ℚ :=
  ⟨[C10.Ex.loco false 0 0 6], .proportional, false, C10.Ex.publish [C10.Ex.loco false 0 0 6]⟩
end Fx

/-- **Limit checking off, request above the published limit** (model artefact, not a code defect):
    published traction limit 0, request `+1`: the Proportional share is `0/0 · 1`, which the field
    model evaluates to 0; the unit is solved with 0, the step is accepted and the consist reports
    `0 ≠ 1`.  In IEEE arithmetic `0/0 = NaN` and the drivetrain's `req ≤ pwr_out_max` check rejects
    the step.  With `assert_limits` on, `req ≤ pwr_out_max` is checked up front. -/
theorem C11_inner_call_unguarded_counterexample :
    ¬ C11_inner_call_unguarded_statement (α := ℚ) := by
  intro hall
  obtain ⟨c', h, hp⟩ := C01.Ex.okAnd_exists
    (r := consistSolve C10.Ex.k Fx.offConsist 1 1 none)
    (p := fun c' : Consist ℚ => decide (c'.state.pwrOut = 0)) (by decide +kernel)
  have := hall C10.Ex.k Fx.offConsist c' 1 1 none (by unfold RegenOK; decide +kernel)
    ⟨by decide +kernel, by decide +kernel, by decide +kernel, by decide +kernel⟩
    (by unfold DynOK; decide +kernel) h
  rw [of_decide_eq_true hp] at this
  norm_num at this

/-- **1b. One `SetSpeedTrainSim::solve_step`.** -/
def C11_ss_power_statement : Prop :=
  ∀ (kc : Consts α) (c : TrConsts α) (g rho : α) (t : Tpc α) (res res' : ResStrap α)
    (con con' : Consist α) (s s' : TrainState α) (vPrev vCur tPrev tCur : α),
    -- FORCED only through `deficit / 0 = 0`: `C11_stale_brake_limit_counterexample`
    DynOK con →
    ssStep kc c g rho t res con s vPrev vCur tPrev tCur = .ok (con', res', s') →
      -- the consist part of the step IS one `ConsistSimulation::solve_step` with the train's
      -- demand as request and the SAME step size the train integrates its energies with …
      consistSimStep kc con s'.k.pwrWhlOut (tCur - tPrev) = .ok con' ∧
      s'.k.dt = tCur - tPrev ∧
      -- … and it delivers exactly the demand, which is the sum over the locomotives
      con'.state.pwrOut = s'.k.pwrWhlOut ∧
      con'.state.pwrOut = sumLeft (con'.locos.map (·.state.pwrOut)) ∧
      -- the hypothesis is re-established (with equality) for the next step
      con'.state.pwrDynBrakeMax = dynBrakeMax con'.locos

theorem ss_stepAgree {kc : Consts α} {c : TrConsts α} {g rho : α} {t : Tpc α} {res res' : ResStrap α}
    {con con' : Consist α} {s s' : TrainState α} {vPrev vCur tPrev tCur : α} (hdyn : DynOK con)
    (h : ssStep kc c g rho t res con s vPrev vCur tPrev tCur = .ok (con', res', s')) :
    s'.k.dt = tCur - tPrev ∧ StepAgree kc con con' s.k s'.k := by
  obtain ⟨con₁, h1, h2, hw⟩ := ssStep_levels h
  exact ⟨hw.dtEq, stepAgree_of h1 h2 hw hdyn⟩

theorem C11_ss_power : C11_ss_power_statement (α := α) := by
  intro kc c g rho t res res' con con' s s' vPrev vCur tPrev tCur hdyn h
  obtain ⟨hdt, ha⟩ := ss_stepAgree hdyn h
  exact ⟨by rw [← hdt]; exact ha.simStep, hdt, ha.pwr, ha.pwrSum, ha.dyn⟩

/-- non-vacuity: the first step of the example run (0 → 1 m/s in 1 s, Proportional) -/
example : ∃ con' res' s', DynOK (Fx.con0 .proportional) ∧
    ssStep C01.Ex.kQ Fx.cT Fx.g Fx.rho Fx.tpc Fx.strap (Fx.con0 .proportional) Fx.s0 0 1 0 1
      = .ok (con', res', s') ∧ 0 < s'.k.pwrWhlOut := by
  obtain ⟨x, h, hp⟩ := C01.Ex.okAnd_exists
    (r := ssStep C01.Ex.kQ Fx.cT Fx.g Fx.rho Fx.tpc Fx.strap (Fx.con0 .proportional) Fx.s0 0 1 0 1)
    (p := fun x : Consist ℚ × ResStrap ℚ × TrainState ℚ => decide (0 < x.2.2.k.pwrWhlOut)) (by decide +kernel)
  exact ⟨x.1, x.2.1, x.2.2, Fx.con0_dynOK _, h, of_decide_eq_true hp⟩

/-- **1c. One `SpeedLimitTrainSim::solve_step`**: the same, with `dt = state.dt` (unchanged). -/
def C11_sl_power_statement : Prop :=
  ∀ (kc : Consts α) (c : TrConsts α) (sqrt : α → α) (g rho : α) (t : Tpc α) (res res' : ResStrap α)
    (con con' : Consist α) (ufm : List α) (fb fb' : FricBrake α) (bp bp' : BrakingPoints α)
    (s s' : TrainState α),
    -- FORCED only through `deficit / 0 = 0` (as in 1b)
    DynOK con →
    slStep kc c sqrt g rho t res con ufm fb bp s = .ok (con', res', fb', bp', s') →
      consistSimStep kc con s'.k.pwrWhlOut s.k.dt = .ok con' ∧
      s'.k.dt = s.k.dt ∧
      con'.state.pwrOut = s'.k.pwrWhlOut ∧
      con'.state.pwrOut = sumLeft (con'.locos.map (·.state.pwrOut)) ∧
      con'.state.pwrDynBrakeMax = dynBrakeMax con'.locos

theorem sl_stepAgree {kc : Consts α} {c : TrConsts α} {sqrt : α → α} {g rho : α} {t : Tpc α}
    {res res' : ResStrap α} {con con' : Consist α} {ufm : List α} {fb fb' : FricBrake α}
    {bp bp' : BrakingPoints α} {s s' : TrainState α} (hdyn : DynOK con)
    (h : slStep kc c sqrt g rho t res con ufm fb bp s = .ok (con', res', fb', bp', s')) :
    s'.k.dt = s.k.dt ∧ StepAgree kc con con' s.k s'.k := by
  obtain ⟨con₁, h1, h2, hw⟩ := slStep_levels h
  exact ⟨hw.dtEq, stepAgree_of h1 h2 hw hdyn⟩

theorem C11_sl_power : C11_sl_power_statement (α := α) := by
  intro kc c sqrt g rho t res res' con con' ufm fb fb' bp bp' s s' hdyn h
  obtain ⟨hdt, ha⟩ := sl_stepAgree hdyn h
  exact ⟨by rw [← hdt]; exact ha.simStep, hdt, ha.pwr, ha.pwrSum, ha.dyn⟩

/-- non-vacuity: the first step of the speed-limited example run (RESGreedy) -/
example : ∃ con' res' fb' bp' s', DynOK (Fx.con0 .resGreedy) ∧
    slStep C01.Ex.kQ Fx.cT Fx.sqrtQ Fx.g Fx.rho Fx.tpc Fx.strap (Fx.con0 .resGreedy) Fx.ufm Fx.fb0
      Fx.bp0 Fx.s0 = .ok (con', res', fb', bp', s') ∧ 0 < s'.k.pwrWhlOut := by
  obtain ⟨x, h, hp⟩ := C01.Ex.okAnd_exists
    (r := slStep C01.Ex.kQ Fx.cT Fx.sqrtQ Fx.g Fx.rho Fx.tpc Fx.strap (Fx.con0 .resGreedy) Fx.ufm
      Fx.fb0 Fx.bp0 Fx.s0)
    (p := fun x : Consist ℚ × ResStrap ℚ × FricBrake ℚ × BrakingPoints ℚ × TrainState ℚ =>
      decide (0 < x.2.2.2.2.k.pwrWhlOut)) (by decide +kernel)
  exact ⟨x.1, x.2.1, x.2.2.1, x.2.2.2.1, x.2.2.2.2, Fx.con0_dynOK _, h, of_decide_eq_true hp⟩

/-! ## Clause 2 — energies of one step -/

def C11_ss_energy_statement : Prop :=
  ∀ (kc : Consts α) (c : TrConsts α) (g rho : α) (t : Tpc α) (res res' : ResStrap α)
    (con con' : Consist α) (s s' : TrainState α) (vPrev vCur tPrev tCur : α),
    -- FORCED only through `deficit / 0 = 0` (as in clause 1)
    DynOK con →
    ssStep kc c g rho t res con s vPrev vCur tPrev tCur = .ok (con', res', s') →
      StepEnergies con con' s s' (tCur - tPrev)

theorem C11_ss_energy : C11_ss_energy_statement (α := α) := by
  intro kc c g rho t res res' con con' s s' vPrev vCur tPrev tCur hdyn h
  obtain ⟨hdt, ha⟩ := ss_stepAgree hdyn h
  exact stepEnergies_of_stepAgree hdt ha

def C11_sl_energy_statement : Prop :=
  ∀ (kc : Consts α) (c : TrConsts α) (sqrt : α → α) (g rho : α) (t : Tpc α) (res res' : ResStrap α)
    (con con' : Consist α) (ufm : List α) (fb fb' : FricBrake α) (bp bp' : BrakingPoints α)
    (s s' : TrainState α),
    -- FORCED only through `deficit / 0 = 0` (as in clause 1)
    DynOK con →
    slStep kc c sqrt g rho t res con ufm fb bp s = .ok (con', res', fb', bp', s') →
      StepEnergies con con' s s' s.k.dt

theorem C11_sl_energy : C11_sl_energy_statement (α := α) := by
  intro kc c sqrt g rho t res res' con con' ufm fb fb' bp bp' s s' hdyn h
  obtain ⟨hdt, ha⟩ := sl_stepAgree hdyn h
  exact stepEnergies_of_stepAgree hdt ha

/-- non-vacuity (braking): a set-speed step 2 → 1 m/s from a state with non-zero counters; both
    sign branches of `StepEnergies` are exercised by the walk examples of clause 3 -/
example : ∃ con' res' s', DynOK (Fx.con0 .proportional) ∧
    ssStep C01.Ex.kQ Fx.cT Fx.g Fx.rho Fx.tpc Fx.strap (Fx.con0 .proportional)
      { Fx.s0 with k := { Fx.k0 with pwrWhlOut := 50, energyWhlOut := 7, energyWhlOutPos := 9,
                                      energyWhlOutNeg := 2 } } 2 1 4 5
      = .ok (con', res', s') ∧ s'.k.pwrWhlOut < 0 := by
  obtain ⟨x, h, hp⟩ := C01.Ex.okAnd_exists
    (r := ssStep C01.Ex.kQ Fx.cT Fx.g Fx.rho Fx.tpc Fx.strap (Fx.con0 .proportional)
      { Fx.s0 with k := { Fx.k0 with pwrWhlOut := 50, energyWhlOut := 7, energyWhlOutPos := 9,
                                      energyWhlOutNeg := 2 } } 2 1 4 5)
    (p := fun x : Consist ℚ × ResStrap ℚ × TrainState ℚ => decide (x.2.2.k.pwrWhlOut < 0)) (by decide +kernel)
  exact ⟨x.1, x.2.1, x.2.2, Fx.con0_dynOK _, h, of_decide_eq_true hp⟩

end Altrios.Proofs.C11
