import Altrios.Train
import Proofs.Lemmas.Basic
import Proofs.Lemmas.Ledger
import Proofs.Lemmas.LevelsL
import Proofs.C10
import Proofs.C01
import Mathlib.Algebra.Order.Field.Basic
import Mathlib.Algebra.Order.Field.Rat
import Mathlib.Tactic.Linarith
import Mathlib.Tactic.Ring
import Mathlib.Tactic.NormNum
import Mathlib.Tactic.FieldSimp
import Mathlib.Tactic.SplitIfs
/-
  C11 — "Power and energy agree across train, consist and locomotive levels".

  Model: `ssStep`, `slStep`, `ssRequiredPwr`, `slRequiredPwr`, `scalingFactor` (Altrios/Train.lean),
  `consistSimStep`, `consistSolve`, `getEnergyFuel`, `getNetEnergyRes` (Altrios/Consist.lean).
  Reused: C10 (`C10_sum…`: the shares sum to the request), C01 §6 (`C01_consist_step`,
  `C01_consist_rollup`: the consist counters are the sums over the units).

  Clauses (exact arithmetic over an arbitrary linearly ordered field):
    1.  `C11_inner_call`, `C11_inner_call_asserted`  the consist delivers exactly a request within
        its published limits = Σ unit outputs;  `C11_inner_call_unguarded_counterexample`: without the
        limits (limit checking off) it need not (field-model artefact `x/0 = 0`)
        `C11_ss_power`, `C11_sl_power`  one train step: the consist went through exactly one
        `ConsistSimulation::solve_step` with request `pwrWhlOut` and the train's own `dt`;
        train demand = consist delivery = Σ locomotives.  `assert_limits` is NOT needed: the train
        clamps its demand to the limits the consist published.
    2.  `C11_ss_energy`, `C11_sl_energy`  one step: wheel energy, its positive and its negative part
        advance by the same amounts on train and consist level, and the net by Σ unit increments
    3.  `C11_ss_walk`, `C11_sl_walk`, `C11_ss_closed`, `C11_sl_closed`  along every accepted run, at
        every saved step: train = consist = Σ locomotives (wheel energy), train = consist (±parts),
        consist fuel / battery energy = Σ over units
    4.  `C11_scaling_factor`, `C11_trip_outputs`, `C11_trip_outputs_run`  the trip-level getters are
        the totals times the annualisation factor, nothing else

  The one hypothesis besides "the step was accepted": `DynOK con`, the stored
  `pwr_dyn_brake_max` does not overstate Σ drivetrain ratings (`init()` and every step store exactly
  that sum; re-established by every step, so it is a condition on the INITIAL consist only).
  It is forced only through the totalised division `deficit / 0 = 0` of the field model
  (`C10_stale_brake_limit_counterexample`, `C11_stale_brake_limit_counterexample`).
-/
set_option linter.unusedSectionVars false
set_option autoImplicit false
namespace Altrios.Proofs.C11
open Altrios Altrios.Tpc Altrios.Rs Altrios.PT Altrios.CS Altrios.Tr
open Altrios.Proofs.Basic Altrios.Proofs.LedgerL Altrios.Proofs.SplitL Altrios.Proofs.LevelsL
open Altrios.Proofs.C10 Altrios.Proofs.C01

variable {α : Type} [Field α] [LinearOrder α] [IsStrictOrderedRing α]

/-! ## Definitions -/

/-- train demand = consist delivery = Σ locomotive outputs, at one saved state -/
def PowerAgree (s : TrainState α) (con : Consist α) : Prop :=
  con.state.pwrOut = s.k.pwrWhlOut ∧ con.state.pwrOut = sumLeft (con.locos.map (·.state.pwrOut))

/-- train-level minus consist-level cumulative wheel energy: net, positive part, negative part -/
def levelDefects (s : TrainState α) (con : Consist α) : α × α × α :=
  (s.k.energyWhlOut - con.state.energyOut,
   s.k.energyWhlOutPos - con.state.energyOutPos,
   s.k.energyWhlOutNeg - con.state.energyOutNeg)

/-- the energies of one step `(s, con) ↦ (s', con')` of size `dt` agree on the three levels -/
def StepEnergies (con con' : Consist α) (s s' : TrainState α) (dt : α) : Prop :=
  -- net wheel energy: train, consist, Σ locomotives all advance by demand × dt
  s'.k.energyWhlOut - s.k.energyWhlOut = s'.k.pwrWhlOut * dt ∧
  con'.state.energyOut - con.state.energyOut = s'.k.pwrWhlOut * dt ∧
  sumLeft (con'.locos.map (·.state.energyOut)) - sumLeft (con.locos.map (·.state.energyOut))
    = s'.k.pwrWhlOut * dt ∧
  -- positive and negative parts: same increments on train and consist level
  s'.k.energyWhlOutPos - s.k.energyWhlOutPos = con'.state.energyOutPos - con.state.energyOutPos ∧
  s'.k.energyWhlOutNeg - s.k.energyWhlOutNeg = con'.state.energyOutNeg - con.state.energyOutNeg ∧
  -- … namely: everything to the positive part when the power is ≥ 0, to the negative part otherwise
  (0 ≤ s'.k.pwrWhlOut →
    s'.k.energyWhlOutPos - s.k.energyWhlOutPos = s'.k.pwrWhlOut * dt ∧
    s'.k.energyWhlOutNeg = s.k.energyWhlOutNeg) ∧
  (s'.k.pwrWhlOut < 0 →
    s'.k.energyWhlOutNeg - s.k.energyWhlOutNeg = -(s'.k.pwrWhlOut * dt) ∧
    s'.k.energyWhlOutPos = s.k.energyWhlOutPos) ∧
  -- hence the train/consist differences and the consist/unit differences do not move
  levelDefects s' con' = levelDefects s con ∧
  consistDefects con' = consistDefects con

theorem levelDefects_of_stepAgree {kc : Consts α} {con con' : Consist α} {s s' : TrainState α}
    (h : StepAgree kc con con' s.k s'.k) : levelDefects s' con' = levelDefects s con := by
  unfold levelDefects
  refine Prod.ext ?_ (Prod.ext ?_ ?_) <;> simp only
  · linarith [h.eOut]
  · linarith [h.ePos]
  · linarith [h.eNeg]

theorem stepEnergies_of_stepAgree {kc : Consts α} {con con' : Consist α} {s s' : TrainState α}
    {dt : α} (hdt : s'.k.dt = dt) (h : StepAgree kc con con' s.k s'.k) :
    StepEnergies con con' s s' dt := by
  have hw := h.whl
  rw [hdt] at hw
  have h1 := h.eOut
  have h2 := h.eUnits
  have h3 := h.ePosNeg
  rw [hdt] at h3
  exact ⟨by linarith, by linarith, by linarith, h.ePos, h.eNeg, h3.1, h3.2,
    levelDefects_of_stepAgree h, h.defects⟩

/-! ## Concrete data over `ℚ` (non-vacuity examples and counterexamples) -/
namespace Fx

/-- the literals of the Rust code -/
def cT : TrConsts ℚ := ⟨1/2, 2, 4, 44704/1000000, 1/100000000, 1/10000000⟩

/-- one 10 km link, level and straight -/
def tpc : Tpc ℚ :=
  { linkPoints := [⟨0, 1, 1, 0, 3⟩, ⟨10000, 0, 0, 0, 0⟩], grades := [⟨0, 0, 0⟩, ⟨10000, 0, 0⟩],
    curves := [⟨0, 0, 0⟩, ⟨10000, 0, 0⟩], speedPoints := [], cats := [],
    par := ⟨⟨100, 30, 0, 0, 4⟩, 0, 0, 0, 0⟩, isFinished := true }

/-- bearing 2 N, rolling ratio 0.001, no Davis B, drag area 1 m² -/
def strap : ResStrap ℚ := ⟨2, 1/1000, 0, 1, ⟨0, 0⟩, ⟨0, 0⟩⟩
/-- no resistance at all -/
def strap0 : ResStrap ℚ := ⟨0, 0, 0, 0, ⟨0, 0⟩, ⟨0, 0⟩⟩

/-- a (toy-sized: the fixtures of C01 are 1 kW units) 100 kg, 100 m train standing at 200 m,
    60 kg of it freight, all counters zero -/
def r0 : Rs.ResState ℚ :=
  { offset := 200, offsetBack := 100, speed := 0, length := 100, massStatic := 100,
    weightStatic := 0, resRolling := 0, resBearing := 0, resDavisB := 0, resAero := 0,
    resGrade := 0, resCurve := 0, gradeFront := 0, gradeBack := 0, elevFront := 0 }
def k0 : Kin ℚ :=
  { time := 0, totalDist := 0, linkIdxFront := 0, offsetInLink := 0, speedLimit := 0,
    speedTarget := 0, dt := 1, massRot := 10, massFreight := 60, pwrRes := 0, pwrAccel := 0,
    pwrWhlOut := 0, energyWhlOut := 0, energyWhlOutPos := 0, energyWhlOutNeg := 0 }
def s0 : TrainState ℚ := ⟨r0, k0⟩

/-- conventional + battery-electric + conventional (the units of C01, interpolated efficiencies),
    limit checking on, `pwr_dyn_brake_max` = Σ ratings as `init()` stores it, all counters zero -/
def con0 (p : Policy) : Consist ℚ :=
  ⟨[C01.Ex.convQ, C01.Ex.belQ, C01.Ex.convQ], p, true, { C01.Ex.cStQ with pwrDynBrakeMax := 2400 }⟩

def g : ℚ := 981/100
def rho : ℚ := 12/10

/-- a rational upper bound of the square root (AM–GM); `sqrt` is a parameter of the model -/
def sqrtQ (x : ℚ) : ℚ := (x + 1) / 2
def fb0 : FricBrake ℚ := ⟨1000, 1, 1/2, 0, 0⟩
/-- speed limit 3 m/s up to 206 m, then 1 m/s: accelerate, cruise, brake (friction brake and
    dynamic braking), cruise -/
def bp0 : BrakingPoints ℚ := ⟨[⟨10000, 0, 0⟩, ⟨206, 1, 1⟩, ⟨0, 3, 3⟩], 2⟩
def ufm : List ℚ := [1000, 1000, 1000]

/-- speed trace: accelerate, accelerate, hold (a 2 s step), brake -/
def ssTr : List (ℚ × ℚ × ℚ × ℚ) := [(0, 1, 0, 1), (1, 2, 1, 2), (2, 2, 2, 4), (2, 1, 4, 5)]

theorem con0_dynOK (p : Policy) : DynOK (con0 p) := by
  unfold DynOK; cases p <;> decide +kernel
theorem con0_zero (p : Policy) : ∀ d ∈ consistDefects (con0 p), d = 0 := by
  cases p <;> decide +kernel

end Fx

/-! ## Clause 1 — train demand = consist delivery = Σ locomotives (one step) -/

/-- **1a. The inner call** `Consist::solve_energy_consumption(req, dt, engine_on)` on a consist
    whose limits are as `set_cur_pwr_max_out` publishes them (`RegenOK`, `Published`; both are
    DERIVED for a whole step in 1b/1c).  Independent of `assert_limits`. -/
def C11_inner_call_statement : Prop :=
  ∀ (k : Consts α) (c c' : Consist α) (req dt : α) (on : Option Bool),
    RegenOK c.locos → Published c.state c.locos →
    -- FORCED (through the denominators `pwr_out_max`, `pwr_out_max_non_reves`): see
    -- `C11_inner_call_unguarded_counterexample`
    req ≤ c.state.pwrOutMax →
    -- FORCED (through the denominator `pwr_surplus_sum`): `C10_stale_brake_limit_counterexample`
    (req < 0 → -req ≤ dynBrakeMax c.locos) →
    consistSolve k c req dt on = .ok c' →
      c'.state.pwrOut = req ∧
      c'.state.pwrOut = sumLeft (c'.locos.map (·.state.pwrOut)) ∧
      c'.state.energyOut = c.state.energyOut + req * dt

theorem C11_inner_call : C11_inner_call_statement (α := α) := by
  intro k c c' req dt on hR hP hle hbr h
  have hp := consistSolve_delivers hR hP hle hbr h
  obtain ⟨_, _, _, hsum, _, heo, _⟩ := C01_consist_rollup k c c' req dt on h
  exact ⟨hp, hsum, by rw [heo, hp]⟩

/-- non-vacuity: the consist of C10 (battery 3 kW – diesel 5 kW – battery 1 kW), `−6` kW:
    regeneration saturated, the rest dynamic braking -/
example : ∃ c', consistSolve C10.Ex.k (C10.Ex.consist .proportional) (-6) 1 none = .ok c' ∧
    c'.state.pwrOut = -6 := by
  obtain ⟨c', h, _⟩ := C01.Ex.okAnd_exists
    (r := consistSolve C10.Ex.k (C10.Ex.consist .proportional) (-6) 1 none) (p := fun _ => true)
    (by decide +kernel)
  exact ⟨c', h, (C11_inner_call _ _ c' _ _ _ C10.Ex.unitsOK.regenOK C10.Ex.published0
    (by decide +kernel) (fun _ => by decide +kernel) h).1⟩

/-- **1a'. The inner call with limit checking on**: the two limit hypotheses of 1a are what
    `assert_limits` checks, given that the stored brake limit is not stale. -/
def C11_inner_call_asserted_statement : Prop :=
  ∀ (k : Consts α) (c c' : Consist α) (req dt : α) (on : Option Bool),
    c.assertLimits = true →
    RegenOK c.locos → Published c.state c.locos →
    -- FORCED only through `deficit / 0 = 0`: `C10_stale_brake_limit_counterexample`
    DynOK c →
    consistSolve k c req dt on = .ok c' →
      c'.state.pwrOut = req ∧
      c'.state.pwrOut = sumLeft (c'.locos.map (·.state.pwrOut)) ∧
      c'.state.energyOut = c.state.energyOut + req * dt

theorem C11_inner_call_asserted : C11_inner_call_asserted_statement (α := α) := by
  intro k c c' req dt on hal hR hP hdyn h
  obtain ⟨_, _, _, _, hlim⟩ := consistSolve_shares h
  obtain ⟨h1, h2⟩ := hlim hal
  unfold DynOK at hdyn
  exact C11_inner_call k c c' req dt on hR hP h2 (fun _ => by linarith) h

example : ∃ c', consistSolve C10.Ex.k (C10.Ex.consist .resGreedy) 6 1 none = .ok c' ∧
    c'.state.pwrOut = 6 := by
  obtain ⟨c', h, _⟩ := C01.Ex.okAnd_exists
    (r := consistSolve C10.Ex.k (C10.Ex.consist .resGreedy) 6 1 none) (p := fun _ => true)
    (by decide +kernel)
  exact ⟨c', h, (C11_inner_call_asserted _ _ c' _ _ _ rfl C10.Ex.unitsOK.regenOK C10.Ex.published0
    (le_refl _) h).1⟩

/-- 1a without the limit hypotheses (FALSE in the field model) -/
def C11_inner_call_unguarded_statement : Prop :=
  ∀ (k : Consts α) (c c' : Consist α) (req dt : α) (on : Option Bool),
    RegenOK c.locos → Published c.state c.locos → DynOK c →
    consistSolve k c req dt on = .ok c' → c'.state.pwrOut = req

namespace Fx
/-- one diesel unit publishing a traction limit of 0, limit checking OFF -/
def offConsist : Consist ℚ :=
  ⟨[C10.Ex.loco false 0 0 6], .proportional, false, C10.Ex.publish [C10.Ex.loco false 0 0 6]⟩
end Fx

/-- **Limit checking off, request above the published limit** (model artefact, not a code defect):
    published traction limit 0, request `+1`: the Proportional share is `0/0 · 1`, which the field
    model evaluates to 0; the unit is solved with 0, the step is accepted and the consist reports
    `0 ≠ 1`.  In IEEE arithmetic `0/0 = NaN` and the drivetrain's `req ≤ pwr_out_max` check rejects
    the step.  With `assert_limits` on, `req ≤ pwr_out_max` is checked up front. -/
theorem C11_inner_call_unguarded_counterexample :
    ¬ C11_inner_call_unguarded_statement (α := ℚ) := by
  intro hall
  obtain ⟨c', h, hp⟩ := C01.Ex.okAnd_exists
    (r := consistSolve C10.Ex.k Fx.offConsist 1 1 none)
    (p := fun c' : Consist ℚ => decide (c'.state.pwrOut = 0)) (by decide +kernel)
  have := hall C10.Ex.k Fx.offConsist c' 1 1 none (by unfold RegenOK; decide +kernel)
    ⟨by decide +kernel, by decide +kernel, by decide +kernel, by decide +kernel⟩
    (by unfold DynOK; decide +kernel) h
  rw [of_decide_eq_true hp] at this
  norm_num at this

/-- **1b. One `SetSpeedTrainSim::solve_step`.** -/
def C11_ss_power_statement : Prop :=
  ∀ (kc : Consts α) (c : TrConsts α) (g rho : α) (t : Tpc α) (res res' : ResStrap α)
    (con con' : Consist α) (s s' : TrainState α) (vPrev vCur tPrev tCur : α),
    -- FORCED only through `deficit / 0 = 0`: `C11_stale_brake_limit_counterexample`
    DynOK con →
    ssStep kc c g rho t res con s vPrev vCur tPrev tCur = .ok (con', res', s') →
      -- the consist part of the step IS one `ConsistSimulation::solve_step` with the train's
      -- demand as request and the SAME step size the train integrates its energies with …
      consistSimStep kc con s'.k.pwrWhlOut (tCur - tPrev) = .ok con' ∧
      s'.k.dt = tCur - tPrev ∧
      -- … and it delivers exactly the demand, which is the sum over the locomotives
      con'.state.pwrOut = s'.k.pwrWhlOut ∧
      con'.state.pwrOut = sumLeft (con'.locos.map (·.state.pwrOut)) ∧
      -- the hypothesis is re-established (with equality) for the next step
      con'.state.pwrDynBrakeMax = dynBrakeMax con'.locos

theorem ss_stepAgree {kc : Consts α} {c : TrConsts α} {g rho : α} {t : Tpc α} {res res' : ResStrap α}
    {con con' : Consist α} {s s' : TrainState α} {vPrev vCur tPrev tCur : α} (hdyn : DynOK con)
    (h : ssStep kc c g rho t res con s vPrev vCur tPrev tCur = .ok (con', res', s')) :
    s'.k.dt = tCur - tPrev ∧ StepAgree kc con con' s.k s'.k := by
  obtain ⟨con₁, h1, h2, hw⟩ := ssStep_levels h
  exact ⟨hw.dtEq, stepAgree_of h1 h2 hw hdyn⟩

theorem C11_ss_power : C11_ss_power_statement (α := α) := by
  intro kc c g rho t res res' con con' s s' vPrev vCur tPrev tCur hdyn h
  obtain ⟨hdt, ha⟩ := ss_stepAgree hdyn h
  exact ⟨by rw [← hdt]; exact ha.simStep, hdt, ha.pwr, ha.pwrSum, ha.dyn⟩

/-- non-vacuity: the first step of the example run (0 → 1 m/s in 1 s, Proportional) -/
example : ∃ con' res' s', DynOK (Fx.con0 .proportional) ∧
    ssStep C01.Ex.kQ Fx.cT Fx.g Fx.rho Fx.tpc Fx.strap (Fx.con0 .proportional) Fx.s0 0 1 0 1
      = .ok (con', res', s') ∧ 0 < s'.k.pwrWhlOut := by
  obtain ⟨x, h, hp⟩ := C01.Ex.okAnd_exists
    (r := ssStep C01.Ex.kQ Fx.cT Fx.g Fx.rho Fx.tpc Fx.strap (Fx.con0 .proportional) Fx.s0 0 1 0 1)
    (p := fun x : Consist ℚ × ResStrap ℚ × TrainState ℚ => decide (0 < x.2.2.k.pwrWhlOut)) (by decide +kernel)
  exact ⟨x.1, x.2.1, x.2.2, Fx.con0_dynOK _, h, of_decide_eq_true hp⟩

/-- 1b without `DynOK` (FALSE in the field model) -/
def C11_ss_power_unguarded_statement : Prop :=
  ∀ (kc : Consts α) (c : TrConsts α) (g rho : α) (t : Tpc α) (res res' : ResStrap α)
    (con con' : Consist α) (s s' : TrainState α) (vPrev vCur tPrev tCur : α),
    ssStep kc c g rho t res con s vPrev vCur tPrev tCur = .ok (con', res', s') →
      con'.state.pwrOut = s'.k.pwrWhlOut

namespace Fx
/-- one battery unit whose regen limit equals its 4 kW rating, limit checking ON, and a STALE
    stored brake limit of 5 kW (> Σ ratings = 4 kW) -/
def staleCon : Consist ℚ :=
  ⟨[C10.Ex.loco true 4 4 4], .resGreedy, true,
    { C10.Ex.publish [C10.Ex.loco true 4 4 4] with pwrDynBrakeMax := 5 }⟩
/-- a train whose deceleration 1 → 0 m/s in 1 s releases `4 + 10⁻⁹` W -/
def staleS : TrainState ℚ :=
  { s0 with r := { r0 with massStatic := 8 + 2/1000000000, speed := 1 },
            k := { k0 with massRot := 0 } }
end Fx

/-- **Why `DynOK` is needed (model artefact, not a code defect).**  The train clamps its demand at
    the STORED brake limit (5), asks for `−4 − 10⁻⁹`; the consist's check against the stored limit
    passes; the regen deficit `10⁻⁹` is to be spread over a dynamic-braking surplus of
    `Σ rating − Σ regen = 0`: the field model evaluates `deficit / 0 = 0`, passes the `surplus-frac`
    check, the unit gets `−4`, and the final `almost_eq` cannot see a `10⁻⁹` mismatch: the step is
    accepted with train demand `−4 − 10⁻⁹` and consist delivery `−4`.  In IEEE arithmetic
    `deficit / 0 = +∞` fails the `surplus-frac` check and the step is rejected. -/
theorem C11_stale_brake_limit_counterexample :
    ¬ DynOK Fx.staleCon ∧
    ∃ con' res' s', ssStep C10.Ex.k Fx.cT Fx.g Fx.rho Fx.tpc Fx.strap0 Fx.staleCon Fx.staleS 1 0 0 1
        = .ok (con', res', s') ∧
      s'.k.pwrWhlOut = -4 - 1/1000000000 ∧ con'.state.pwrOut = -4 := by
  refine ⟨by unfold DynOK; decide +kernel, ?_⟩
  obtain ⟨x, h, hp⟩ := C01.Ex.okAnd_exists
    (r := ssStep C10.Ex.k Fx.cT Fx.g Fx.rho Fx.tpc Fx.strap0 Fx.staleCon Fx.staleS 1 0 0 1)
    (p := fun x : Consist ℚ × ResStrap ℚ × TrainState ℚ =>
      decide (x.2.2.k.pwrWhlOut = -4 - 1/1000000000 ∧ x.1.state.pwrOut = -4)) (by decide +kernel)
  exact ⟨x.1, x.2.1, x.2.2, h, of_decide_eq_true hp⟩

theorem C11_ss_power_unguarded_counterexample : ¬ C11_ss_power_unguarded_statement (α := ℚ) := by
  intro hall
  obtain ⟨_, con', res', s', h, h1, h2⟩ := C11_stale_brake_limit_counterexample
  have := hall _ _ _ _ _ _ _ _ _ _ _ _ _ _ _ h
  rw [h1, h2] at this
  norm_num at this

/-- **1c. One `SpeedLimitTrainSim::solve_step`**: the same, with `dt = state.dt` (unchanged). -/
def C11_sl_power_statement : Prop :=
  ∀ (kc : Consts α) (c : TrConsts α) (sqrt : α → α) (g rho : α) (t : Tpc α) (res res' : ResStrap α)
    (con con' : Consist α) (ufm : List α) (fb fb' : FricBrake α) (bp bp' : BrakingPoints α)
    (s s' : TrainState α),
    -- FORCED only through `deficit / 0 = 0` (as in 1b)
    DynOK con →
    slStep kc c sqrt g rho t res con ufm fb bp s = .ok (con', res', fb', bp', s') →
      consistSimStep kc con s'.k.pwrWhlOut s.k.dt = .ok con' ∧
      s'.k.dt = s.k.dt ∧
      con'.state.pwrOut = s'.k.pwrWhlOut ∧
      con'.state.pwrOut = sumLeft (con'.locos.map (·.state.pwrOut)) ∧
      con'.state.pwrDynBrakeMax = dynBrakeMax con'.locos

theorem sl_stepAgree {kc : Consts α} {c : TrConsts α} {sqrt : α → α} {g rho : α} {t : Tpc α}
    {res res' : ResStrap α} {con con' : Consist α} {ufm : List α} {fb fb' : FricBrake α}
    {bp bp' : BrakingPoints α} {s s' : TrainState α} (hdyn : DynOK con)
    (h : slStep kc c sqrt g rho t res con ufm fb bp s = .ok (con', res', fb', bp', s')) :
    s'.k.dt = s.k.dt ∧ StepAgree kc con con' s.k s'.k := by
  obtain ⟨con₁, h1, h2, hw⟩ := slStep_levels h
  exact ⟨hw.dtEq, stepAgree_of h1 h2 hw hdyn⟩

theorem C11_sl_power : C11_sl_power_statement (α := α) := by
  intro kc c sqrt g rho t res res' con con' ufm fb fb' bp bp' s s' hdyn h
  obtain ⟨hdt, ha⟩ := sl_stepAgree hdyn h
  exact ⟨by rw [← hdt]; exact ha.simStep, hdt, ha.pwr, ha.pwrSum, ha.dyn⟩

/-- non-vacuity: the first step of the speed-limited example run (RESGreedy) -/
example : ∃ con' res' fb' bp' s', DynOK (Fx.con0 .resGreedy) ∧
    slStep C01.Ex.kQ Fx.cT Fx.sqrtQ Fx.g Fx.rho Fx.tpc Fx.strap (Fx.con0 .resGreedy) Fx.ufm Fx.fb0
      Fx.bp0 Fx.s0 = .ok (con', res', fb', bp', s') ∧ 0 < s'.k.pwrWhlOut := by
  obtain ⟨x, h, hp⟩ := C01.Ex.okAnd_exists
    (r := slStep C01.Ex.kQ Fx.cT Fx.sqrtQ Fx.g Fx.rho Fx.tpc Fx.strap (Fx.con0 .resGreedy) Fx.ufm
      Fx.fb0 Fx.bp0 Fx.s0)
    (p := fun x : Consist ℚ × ResStrap ℚ × FricBrake ℚ × BrakingPoints ℚ × TrainState ℚ =>
      decide (0 < x.2.2.2.2.k.pwrWhlOut)) (by decide +kernel)
  exact ⟨x.1, x.2.1, x.2.2.1, x.2.2.2.1, x.2.2.2.2, Fx.con0_dynOK _, h, of_decide_eq_true hp⟩

/-! ## Clause 2 — energies of one step -/

def C11_ss_energy_statement : Prop :=
  ∀ (kc : Consts α) (c : TrConsts α) (g rho : α) (t : Tpc α) (res res' : ResStrap α)
    (con con' : Consist α) (s s' : TrainState α) (vPrev vCur tPrev tCur : α),
    -- FORCED only through `deficit / 0 = 0` (as in clause 1)
    DynOK con →
    ssStep kc c g rho t res con s vPrev vCur tPrev tCur = .ok (con', res', s') →
      StepEnergies con con' s s' (tCur - tPrev)

theorem C11_ss_energy : C11_ss_energy_statement (α := α) := by
  intro kc c g rho t res res' con con' s s' vPrev vCur tPrev tCur hdyn h
  obtain ⟨hdt, ha⟩ := ss_stepAgree hdyn h
  exact stepEnergies_of_stepAgree hdt ha

def C11_sl_energy_statement : Prop :=
  ∀ (kc : Consts α) (c : TrConsts α) (sqrt : α → α) (g rho : α) (t : Tpc α) (res res' : ResStrap α)
    (con con' : Consist α) (ufm : List α) (fb fb' : FricBrake α) (bp bp' : BrakingPoints α)
    (s s' : TrainState α),
    -- FORCED only through `deficit / 0 = 0` (as in clause 1)
    DynOK con →
    slStep kc c sqrt g rho t res con ufm fb bp s = .ok (con', res', fb', bp', s') →
      StepEnergies con con' s s' s.k.dt

theorem C11_sl_energy : C11_sl_energy_statement (α := α) := by
  intro kc c sqrt g rho t res res' con con' ufm fb fb' bp bp' s s' hdyn h
  obtain ⟨hdt, ha⟩ := sl_stepAgree hdyn h
  exact stepEnergies_of_stepAgree hdt ha

/-- non-vacuity (braking): a set-speed step 2 → 1 m/s from a state with non-zero counters; both
    sign branches of `StepEnergies` are exercised by the walk examples of clause 3 -/
example : ∃ con' res' s', DynOK (Fx.con0 .proportional) ∧
    ssStep C01.Ex.kQ Fx.cT Fx.g Fx.rho Fx.tpc Fx.strap (Fx.con0 .proportional)
      { Fx.s0 with k := { Fx.k0 with pwrWhlOut := 50, energyWhlOut := 7, energyWhlOutPos := 9,
                                      energyWhlOutNeg := 2 } } 2 1 4 5
      = .ok (con', res', s') ∧ s'.k.pwrWhlOut < 0 := by
  obtain ⟨x, h, hp⟩ := C01.Ex.okAnd_exists
    (r := ssStep C01.Ex.kQ Fx.cT Fx.g Fx.rho Fx.tpc Fx.strap (Fx.con0 .proportional)
      { Fx.s0 with k := { Fx.k0 with pwrWhlOut := 50, energyWhlOut := 7, energyWhlOutPos := 9,
                                      energyWhlOutNeg := 2 } } 2 1 4 5)
    (p := fun x : Consist ℚ × ResStrap ℚ × TrainState ℚ => decide (x.2.2.k.pwrWhlOut < 0)) (by decide +kernel)
  exact ⟨x.1, x.2.1, x.2.2, Fx.con0_dynOK _, h, of_decide_eq_true hp⟩

/-- non-vacuity of `C11_sl_energy`, and of the fact that `assert_limits` plays no role at train
    level: the same speed-limited step with limit checking OFF is accepted, so 1c and 2 apply -/
example : ∃ con' res' fb' bp' s', DynOK { Fx.con0 .resGreedy with assertLimits := false } ∧
    slStep C01.Ex.kQ Fx.cT Fx.sqrtQ Fx.g Fx.rho Fx.tpc Fx.strap
      { Fx.con0 .resGreedy with assertLimits := false } Fx.ufm Fx.fb0 Fx.bp0 Fx.s0
      = .ok (con', res', fb', bp', s') ∧ con'.state.pwrOut = s'.k.pwrWhlOut ∧
    StepEnergies { Fx.con0 .resGreedy with assertLimits := false } con' Fx.s0 s' Fx.s0.k.dt := by
  have hd : DynOK { Fx.con0 .resGreedy with assertLimits := false } := by
    unfold DynOK; decide +kernel
  obtain ⟨x, h, _⟩ := C01.Ex.okAnd_exists
    (r := slStep C01.Ex.kQ Fx.cT Fx.sqrtQ Fx.g Fx.rho Fx.tpc Fx.strap
      { Fx.con0 .resGreedy with assertLimits := false } Fx.ufm Fx.fb0 Fx.bp0 Fx.s0)
    (p := fun _ => true) (by decide +kernel)
  exact ⟨x.1, x.2.1, x.2.2.1, x.2.2.2.1, x.2.2.2.2, hd, h,
    (C11_sl_power _ _ _ _ _ _ _ _ _ _ _ _ _ _ _ _ _ hd h).2.2.1,
    C11_sl_energy _ _ _ _ _ _ _ _ _ _ _ _ _ _ _ _ _ hd h⟩

/-! ## Clause 4 — trip-level outputs (getters of `SpeedLimitTrainSim`) -/

/-- `get_energy_fuel(annualize)`: `loco_con.get_energy_fuel() * get_scaling_factor(annualize)` -/
def tripEnergyFuel (c36525 : α) (days : Option α) (con : Consist α) (annualize : Bool) : α :=
  getEnergyFuel con * scalingFactor c36525 annualize days

/-- `get_net_energy_res(annualize)` -/
def tripNetEnergyRes (c36525 : α) (days : Option α) (con : Consist α) (annualize : Bool) : α :=
  getNetEnergyRes con * scalingFactor c36525 annualize days

/-- `get_kilometers(annualize)`: `total_dist.get::<si::kilometer>() * factor`; the unit conversion
    is a division by the constant `c1000` -/
def tripKilometers (c36525 c1000 : α) (days : Option α) (s : TrainState α) (annualize : Bool) : α :=
  s.k.totalDist / c1000 * scalingFactor c36525 annualize days

/-- `get_megagram_kilometers(annualize)`:
    `mass_freight.get::<si::megagram>() * total_dist.get::<si::kilometer>() * factor` -/
def tripMegagramKilometers (c36525 c1000 : α) (days : Option α) (s : TrainState α)
    (annualize : Bool) : α :=
  s.k.massFreight / c1000 * (s.k.totalDist / c1000) * scalingFactor c36525 annualize days

/-- **4a. The documented annualisation factor**: 1 when not annualising, `365.25 / days` for a
    simulation of `days` days, `365.25` when no duration is given. -/
def C11_scaling_factor_statement : Prop :=
  ∀ (c36525 d : α) (days : Option α),
    scalingFactor c36525 false days = 1 ∧
    scalingFactor c36525 true (some d) = c36525 / d ∧
    scalingFactor c36525 true none = c36525 ∧
    -- guard: `simulation_days = 0` divides by zero (IEEE: +∞; field model: 0)
    (d ≠ 0 → scalingFactor c36525 true (some d) * d = c36525)

theorem C11_scaling_factor : C11_scaling_factor_statement (α := α) := by
  intro c d days
  refine ⟨rfl, rfl, rfl, fun hd => ?_⟩
  show c / d * d = c
  field_simp

example : scalingFactor (36525/100 : ℚ) true (some 7) = 36525/700 ∧
    scalingFactor (36525/100 : ℚ) true (some 7) * 7 = 36525/100 := by
  obtain ⟨_, h2, _, h4⟩ := C11_scaling_factor (36525/100 : ℚ) 7 none
  exact ⟨by rw [h2]; norm_num, h4 (by norm_num)⟩

/-- **4b. Scaled only by the factor.**  Every trip output is its total times the factor; without
    annualisation it IS the total; the annualised output is the plain output times the factor. -/
def C11_trip_outputs_statement : Prop :=
  ∀ (c36525 c1000 : α) (days : Option α) (con : Consist α) (s : TrainState α) (ann : Bool),
    tripEnergyFuel c36525 days con ann = getEnergyFuel con * scalingFactor c36525 ann days ∧
    tripNetEnergyRes c36525 days con ann = getNetEnergyRes con * scalingFactor c36525 ann days ∧
    tripKilometers c36525 c1000 days s ann = s.k.totalDist / c1000 * scalingFactor c36525 ann days ∧
    tripMegagramKilometers c36525 c1000 days s ann =
      s.k.massFreight / c1000 * (s.k.totalDist / c1000) * scalingFactor c36525 ann days ∧
    -- not annualised: the totals themselves
    tripEnergyFuel c36525 days con false = getEnergyFuel con ∧
    tripNetEnergyRes c36525 days con false = getNetEnergyRes con ∧
    tripKilometers c36525 c1000 days s false = s.k.totalDist / c1000 ∧
    tripMegagramKilometers c36525 c1000 days s false = s.k.massFreight / c1000 * (s.k.totalDist / c1000) ∧
    -- annualised = not annualised × factor
    tripEnergyFuel c36525 days con ann =
      tripEnergyFuel c36525 days con false * scalingFactor c36525 ann days ∧
    tripNetEnergyRes c36525 days con ann =
      tripNetEnergyRes c36525 days con false * scalingFactor c36525 ann days ∧
    tripKilometers c36525 c1000 days s ann =
      tripKilometers c36525 c1000 days s false * scalingFactor c36525 ann days ∧
    tripMegagramKilometers c36525 c1000 days s ann =
      tripMegagramKilometers c36525 c1000 days s false * scalingFactor c36525 ann days

theorem C11_trip_outputs : C11_trip_outputs_statement (α := α) := by
  intro c k days con s ann
  have h1 : scalingFactor c false days = 1 := rfl
  refine ⟨rfl, rfl, rfl, rfl, ?_, ?_, ?_, ?_, ?_, ?_, ?_, ?_⟩ <;>
    simp only [tripEnergyFuel, tripNetEnergyRes, tripKilometers, tripMegagramKilometers, h1, mul_one]

/-- non-vacuity: 60 kg of freight over 7.5 m in a 7-day simulation -/
example : tripMegagramKilometers (36525/100 : ℚ) 1000 (some 7)
    { Fx.s0 with k := { Fx.k0 with totalDist := 15/2 } } true = 60/1000 * ((15/2)/1000) * (36525/700) := by
  rw [(C11_trip_outputs (36525/100 : ℚ) 1000 (some 7) (Fx.con0 .proportional) _ true).2.2.2.1]
  decide +kernel

/-! ## Clause 3 — whole runs, every saved step -/

/-- the state a set-speed run threads through its steps -/
abbrev SsState (α : Type) := Consist α × ResStrap α × TrainState α
/-- the state a speed-limited run threads through its steps -/
abbrev SlState (α : Type) := Consist α × ResStrap α × FricBrake α × BrakingPoints α × TrainState α

/-- `SetSpeedTrainSim::solve_step` on the threaded state; input `(v[i-1], v[i], t[i-1], t[i])` -/
def ssStepT (kc : Consts α) (c : TrConsts α) (g rho : α) (t : Tpc α) (st : SsState α)
    (i : α × α × α × α) : Res (SsState α) :=
  ssStep kc c g rho t st.2.1 st.1 st.2.2 i.1 i.2.1 i.2.2.1 i.2.2.2

/-- `SetSpeedTrainSim::walk` over a list of step inputs (left fold; the first rejected step aborts) -/
def ssWalk (kc : Consts α) (c : TrConsts α) (g rho : α) (t : Tpc α) (st : SsState α)
    (tr : List (α × α × α × α)) : Res (SsState α) :=
  walkG (ssStepT kc c g rho t) st tr

/-- the step inputs of a speed trace `[(t₀,v₀), (t₁,v₁), …]`: consecutive samples -/
def traceSteps : List (α × α) → List (α × α × α × α)
  | (t0, v0) :: (t1, v1) :: rest => (v0, v1, t0, t1) :: traceSteps ((t1, v1) :: rest)
  | _ => []

/-- `SpeedLimitTrainSim::solve_step` on the threaded state; input: the units' `force_max()` -/
def slStepT (kc : Consts α) (c : TrConsts α) (sqrt : α → α) (g rho : α) (t : Tpc α) (st : SlState α)
    (ufm : List α) : Res (SlState α) :=
  slStep kc c sqrt g rho t st.2.1 st.1 ufm st.2.2.1 st.2.2.2.1 st.2.2.2.2

/-- `SpeedLimitTrainSim::walk` as a sequence of steps (however many the loop condition allows) -/
def slWalk (kc : Consts α) (c : TrConsts α) (sqrt : α → α) (g rho : α) (t : Tpc α) (st : SlState α)
    (tr : List (List α)) : Res (SlState α) :=
  walkG (slStepT kc c sqrt g rho t) st tr

/-- what stays true along a run started at `(s0, con0)` -/
def Tracks (s0 : TrainState α) (con0 : Consist α) (s : TrainState α) (con : Consist α) : Prop :=
  DynOK con ∧ levelDefects s con = levelDefects s0 con0 ∧
  consistDefects con = consistDefects con0 ∧ s.k.massFreight = s0.k.massFreight ∧
  con.locos.length = con0.locos.length

theorem tracks_step {kc : Consts α} {s0 s s' : TrainState α} {con0 con con' : Consist α}
    (ht : Tracks s0 con0 s con) (ha : StepAgree kc con con' s.k s'.k) : Tracks s0 con0 s' con' :=
  ⟨le_of_eq ha.dyn, (levelDefects_of_stepAgree ha).trans ht.2.1, ha.defects.trans ht.2.2.1,
    ha.massFreight.trans ht.2.2.2.1, ha.length.trans ht.2.2.2.2⟩

theorem powerAgree_of_stepAgree {kc : Consts α} {s s' : TrainState α} {con con' : Consist α}
    (ha : StepAgree kc con con' s.k s'.k) : PowerAgree s' con' := ⟨ha.pwr, ha.pwrSum⟩

/-- at a saved state, all levels report the same numbers -/
def LevelsClosed (s : TrainState α) (con : Consist α) : Prop :=
  -- wheel energy: train = consist = Σ locomotives
  s.k.energyWhlOut = con.state.energyOut ∧
  con.state.energyOut = sumLeft (con.locos.map (·.state.energyOut)) ∧
  -- its positive and negative parts: train = consist; net = positive − negative
  s.k.energyWhlOutPos = con.state.energyOutPos ∧
  s.k.energyWhlOutNeg = con.state.energyOutNeg ∧
  s.k.energyWhlOut = s.k.energyWhlOutPos - s.k.energyWhlOutNeg ∧
  -- fuel and battery energy: consist counter = Σ over units (`get_energy_fuel`, `get_net_energy_res`)
  con.state.energyFuel = getEnergyFuel con ∧
  con.state.energyRes = getNetEnergyRes con

theorem closed_of_tracks {s0 s : TrainState α} {con0 con : Consist α} (ht : Tracks s0 con0 s con)
    (h0 : levelDefects s0 con0 = (0, 0, 0)) (hz : ∀ d ∈ consistDefects con0, d = 0) :
    LevelsClosed s con := by
  obtain ⟨_, hl, hc, _⟩ := ht
  rw [h0] at hl
  rw [← hc] at hz
  simp only [levelDefects, Prod.mk.injEq] at hl
  simp only [consistDefects, List.mem_cons, List.not_mem_nil, or_false, forall_eq_or_imp,
    forall_eq] at hz
  obtain ⟨l1, l2, l3⟩ := hl
  obtain ⟨z1, z2, z3, z4⟩ := hz
  refine ⟨sub_eq_zero.mp l1, sub_eq_zero.mp z3, sub_eq_zero.mp l2, sub_eq_zero.mp l3, ?_,
    sub_eq_zero.mp z1, sub_eq_zero.mp z2⟩
  linarith

section ss
variable (kc : Consts α) (c : TrConsts α) (g rho : α) (t : Tpc α)

theorem ss_tracks_step (s0 : TrainState α) (con0 : Consist α) (st : SsState α) (i : α × α × α × α)
    (st' : SsState α) (ht : Tracks s0 con0 st.2.2 st.1) (h : ssStepT kc c g rho t st i = .ok st') :
    Tracks s0 con0 st'.2.2 st'.1 ∧ PowerAgree st'.2.2 st'.1 := by
  have ha := (ss_stepAgree (con' := st'.1) (res' := st'.2.1) (s' := st'.2.2) ht.1 h).2
  exact ⟨tracks_step ht ha, powerAgree_of_stepAgree ha⟩

/-- **3a. Any accepted set-speed run.** -/
def C11_ss_walk_statement : Prop :=
  ∀ (kc : Consts α) (c : TrConsts α) (g rho : α) (t : Tpc α) (con con' : Consist α)
    (res res' : ResStrap α) (s s' : TrainState α) (tr : List (α × α × α × α)),
    -- on the INITIAL consist only; FORCED only through `deficit / 0 = 0`
    DynOK con →
    ssWalk kc c g rho t (con, res, s) tr = .ok (con', res', s') →
      levelDefects s' con' = levelDefects s con ∧
      consistDefects con' = consistDefects con ∧
      (tr ≠ [] → PowerAgree s' con') ∧
      DynOK con' ∧ con'.locos.length = con.locos.length ∧ s'.k.massFreight = s.k.massFreight

theorem C11_ss_walk : C11_ss_walk_statement (α := α) := by
  intro kc c g rho t con con' res res' s s' tr hdyn h
  have h0 : Tracks s con s con := ⟨hdyn, rfl, rfl, rfl, rfl⟩
  have hstep : ∀ (st : SsState α) i st', Tracks s con st.2.2 st.1 →
      ssStepT kc c g rho t st i = .ok st' → Tracks s con st'.2.2 st'.1 :=
    fun st i st' ht hs => (ss_tracks_step kc c g rho t s con st i st' ht hs).1
  have ht := walkG_invariant (fun st : SsState α => Tracks s con st.2.2 st.1) hstep h0 h
  refine ⟨ht.2.1, ht.2.2.1, fun hne => ?_, ht.1, ht.2.2.2.2, ht.2.2.2.1⟩
  exact walkG_last (fun st : SsState α => Tracks s con st.2.2 st.1)
    (fun st : SsState α => PowerAgree st.2.2 st.1) hstep
    (fun st i st' ht hs => (ss_tracks_step kc c g rho t s con st i st' ht hs).2) h0 hne h

/-- **3b. Every saved step of a set-speed run started with agreeing counters** (e.g. all zero):
    after every prefix of every accepted run all levels report the same numbers. -/
def C11_ss_closed_statement : Prop :=
  ∀ (kc : Consts α) (c : TrConsts α) (g rho : α) (t : Tpc α) (con : Consist α) (res : ResStrap α)
    (s : TrainState α) (fin : SsState α) (pre post : List (α × α × α × α)),
    DynOK con →
    levelDefects s con = (0, 0, 0) → (∀ d ∈ consistDefects con, d = 0) →
    ssWalk kc c g rho t (con, res, s) (pre ++ post) = .ok fin →
      ∃ con' res' s', ssWalk kc c g rho t (con, res, s) pre = .ok (con', res', s') ∧
        ssWalk kc c g rho t (con', res', s') post = .ok fin ∧
        LevelsClosed s' con' ∧ (pre ≠ [] → PowerAgree s' con') ∧
        con'.locos.length = con.locos.length ∧ s'.k.massFreight = s.k.massFreight

theorem C11_ss_closed : C11_ss_closed_statement (α := α) := by
  intro kc c g rho t con res s fin pre post hdyn h0 hz h
  obtain ⟨⟨con', res', s'⟩, h1, h2⟩ := (walkG_append _ _ _ pre post).mp h
  obtain ⟨a1, a2, a3, a4, a5, a6⟩ := C11_ss_walk kc c g rho t con con' res res' s s' pre hdyn h1
  exact ⟨con', res', s', h1, h2, closed_of_tracks ⟨a4, a1, a2, a6, a5⟩ h0 hz, a3, a5, a6⟩

end ss

section sl
variable (kc : Consts α) (c : TrConsts α) (sqrt : α → α) (g rho : α) (t : Tpc α)

theorem sl_tracks_step (s0 : TrainState α) (con0 : Consist α) (st : SlState α) (i : List α)
    (st' : SlState α) (ht : Tracks s0 con0 st.2.2.2.2 st.1)
    (h : slStepT kc c sqrt g rho t st i = .ok st') :
    Tracks s0 con0 st'.2.2.2.2 st'.1 ∧ PowerAgree st'.2.2.2.2 st'.1 := by
  have ha := (sl_stepAgree (con' := st'.1) (res' := st'.2.1) (fb' := st'.2.2.1) (bp' := st'.2.2.2.1)
    (s' := st'.2.2.2.2) ht.1 h).2
  exact ⟨tracks_step ht ha, powerAgree_of_stepAgree ha⟩

/-- **3c. Any accepted speed-limited run.** -/
def C11_sl_walk_statement : Prop :=
  ∀ (kc : Consts α) (c : TrConsts α) (sqrt : α → α) (g rho : α) (t : Tpc α) (con con' : Consist α)
    (res res' : ResStrap α) (fb fb' : FricBrake α) (bp bp' : BrakingPoints α) (s s' : TrainState α)
    (tr : List (List α)),
    -- on the INITIAL consist only; FORCED only through `deficit / 0 = 0`
    DynOK con →
    slWalk kc c sqrt g rho t (con, res, fb, bp, s) tr = .ok (con', res', fb', bp', s') →
      levelDefects s' con' = levelDefects s con ∧
      consistDefects con' = consistDefects con ∧
      (tr ≠ [] → PowerAgree s' con') ∧
      DynOK con' ∧ con'.locos.length = con.locos.length ∧ s'.k.massFreight = s.k.massFreight

theorem C11_sl_walk : C11_sl_walk_statement (α := α) := by
  intro kc c sqrt g rho t con con' res res' fb fb' bp bp' s s' tr hdyn h
  have h0 : Tracks s con s con := ⟨hdyn, rfl, rfl, rfl, rfl⟩
  have hstep : ∀ (st : SlState α) i st', Tracks s con st.2.2.2.2 st.1 →
      slStepT kc c sqrt g rho t st i = .ok st' → Tracks s con st'.2.2.2.2 st'.1 :=
    fun st i st' ht hs => (sl_tracks_step kc c sqrt g rho t s con st i st' ht hs).1
  have ht := walkG_invariant (fun st : SlState α => Tracks s con st.2.2.2.2 st.1) hstep h0 h
  refine ⟨ht.2.1, ht.2.2.1, fun hne => ?_, ht.1, ht.2.2.2.2, ht.2.2.2.1⟩
  exact walkG_last (fun st : SlState α => Tracks s con st.2.2.2.2 st.1)
    (fun st : SlState α => PowerAgree st.2.2.2.2 st.1) hstep
    (fun st i st' ht hs => (sl_tracks_step kc c sqrt g rho t s con st i st' ht hs).2) h0 hne h

/-- **3d. Every saved step of a speed-limited run started with agreeing counters.** -/
def C11_sl_closed_statement : Prop :=
  ∀ (kc : Consts α) (c : TrConsts α) (sqrt : α → α) (g rho : α) (t : Tpc α) (con : Consist α)
    (res : ResStrap α) (fb : FricBrake α) (bp : BrakingPoints α) (s : TrainState α) (fin : SlState α)
    (pre post : List (List α)),
    DynOK con →
    levelDefects s con = (0, 0, 0) → (∀ d ∈ consistDefects con, d = 0) →
    slWalk kc c sqrt g rho t (con, res, fb, bp, s) (pre ++ post) = .ok fin →
      ∃ con' res' fb' bp' s',
        slWalk kc c sqrt g rho t (con, res, fb, bp, s) pre = .ok (con', res', fb', bp', s') ∧
        slWalk kc c sqrt g rho t (con', res', fb', bp', s') post = .ok fin ∧
        LevelsClosed s' con' ∧ (pre ≠ [] → PowerAgree s' con') ∧
        con'.locos.length = con.locos.length ∧ s'.k.massFreight = s.k.massFreight

theorem C11_sl_closed : C11_sl_closed_statement (α := α) := by
  intro kc c sqrt g rho t con res fb bp s fin pre post hdyn h0 hz h
  obtain ⟨⟨con', res', fb', bp', s'⟩, h1, h2⟩ := (walkG_append _ _ _ pre post).mp h
  obtain ⟨a1, a2, a3, a4, a5, a6⟩ :=
    C11_sl_walk kc c sqrt g rho t con con' res res' fb fb' bp bp' s s' pre hdyn h1
  exact ⟨con', res', fb', bp', s', h1, h2, closed_of_tracks ⟨a4, a1, a2, a6, a5⟩ h0 hz, a3,
    a5, a6⟩

end sl

/-! ### Non-vacuity of clause 3 on concrete rational runs -/
namespace Fx
def ssPre : List (ℚ × ℚ × ℚ × ℚ) := [(0, 1, 0, 1), (1, 2, 1, 2), (2, 2, 2, 4)]
def ssPost : List (ℚ × ℚ × ℚ × ℚ) := [(2, 1, 4, 5)]
theorem ssTr_eq : ssTr = ssPre ++ ssPost := rfl
theorem ssTr_trace : ssTr = traceSteps [(0, 0), (1, 1), (2, 2), (4, 2), (5, 1)] := rfl
def slPre : List (List ℚ) := [ufm, ufm, ufm]
def slPost : List (List ℚ) := [ufm]
theorem levels_zero (p : Policy) : levelDefects s0 (con0 p) = (0, 0, 0) := by
  cases p <;> decide +kernel
end Fx

/-- all hypotheses of 3a/3b hold on a 4-step set-speed run over the trace
    `(t, v) = (0,0), (1,1), (2,2), (4,2), (5,1)` (accelerate, accelerate, hold, brake), so their
    conclusions apply at the saved step after `ssPre` (and, with `post = []`, at the end) -/
example : ∃ con' res' s',
    ssWalk C01.Ex.kQ Fx.cT Fx.g Fx.rho Fx.tpc (Fx.con0 .proportional, Fx.strap, Fx.s0) Fx.ssPre
      = .ok (con', res', s') ∧ LevelsClosed s' con' ∧ PowerAgree s' con' := by
  obtain ⟨fin, h, _⟩ := C01.Ex.okAnd_exists
    (r := ssWalk C01.Ex.kQ Fx.cT Fx.g Fx.rho Fx.tpc (Fx.con0 .proportional, Fx.strap, Fx.s0) Fx.ssTr)
    (p := fun _ => true) (by decide +kernel)
  rw [Fx.ssTr_eq] at h
  obtain ⟨con', res', s', h1, _, hc, hp, _⟩ := C11_ss_closed _ _ _ _ _ _ _ _ fin Fx.ssPre Fx.ssPost
    (Fx.con0_dynOK _) (Fx.levels_zero _) (Fx.con0_zero _) h
  exact ⟨con', res', s', h1, hc, hp (by simp [Fx.ssPre])⟩

/-- the run really brakes at the end and has moved energy (the conclusions are not about zeros) -/
example : C01.Ex.okAnd (fun fin : SsState ℚ => decide (fin.2.2.k.pwrWhlOut < 0 ∧
      0 < fin.2.2.k.energyWhlOutNeg ∧ 0 < fin.1.state.energyFuel ∧ fin.1.state.energyRes ≠ 0))
    (ssWalk C01.Ex.kQ Fx.cT Fx.g Fx.rho Fx.tpc (Fx.con0 .proportional, Fx.strap, Fx.s0) Fx.ssTr)
    = true := by decide +kernel

/-- all hypotheses of 3c/3d hold on a 4-step speed-limited run (RESGreedy): accelerate to the 3 m/s
    limit, cruise, brake for the 1 m/s limit with friction brake + dynamic braking, cruise -/
example : ∃ con' res' fb' bp' s',
    slWalk C01.Ex.kQ Fx.cT Fx.sqrtQ Fx.g Fx.rho Fx.tpc
      (Fx.con0 .resGreedy, Fx.strap, Fx.fb0, Fx.bp0, Fx.s0) Fx.slPre
      = .ok (con', res', fb', bp', s') ∧ LevelsClosed s' con' ∧ PowerAgree s' con' := by
  obtain ⟨fin, h, _⟩ := C01.Ex.okAnd_exists
    (r := slWalk C01.Ex.kQ Fx.cT Fx.sqrtQ Fx.g Fx.rho Fx.tpc
      (Fx.con0 .resGreedy, Fx.strap, Fx.fb0, Fx.bp0, Fx.s0) (Fx.slPre ++ Fx.slPost))
    (p := fun _ => true) (by decide +kernel)
  obtain ⟨con', res', fb', bp', s', h1, _, hc, hp, _⟩ := C11_sl_closed _ _ _ _ _ _ _ _ _ _ _ fin
    Fx.slPre Fx.slPost (Fx.con0_dynOK _) (Fx.levels_zero _) (Fx.con0_zero _) h
  exact ⟨con', res', fb', bp', s', h1, hc, hp (by simp [Fx.slPre])⟩

/-- the third step of that run brakes (friction brake applied, negative wheel power) -/
example : C01.Ex.okAnd (fun fin : SlState ℚ => decide (fin.2.2.2.2.k.pwrWhlOut < 0 ∧
      0 < fin.2.2.1.force ∧ 0 < fin.2.2.2.2.k.energyWhlOutNeg))
    (slWalk C01.Ex.kQ Fx.cT Fx.sqrtQ Fx.g Fx.rho Fx.tpc
      (Fx.con0 .resGreedy, Fx.strap, Fx.fb0, Fx.bp0, Fx.s0) Fx.slPre) = true := by decide +kernel

/-- **4c. Trip outputs at a saved step of a run** (`LevelsClosed` is what 3b/3d give): the fuel and
    battery outputs are the CONSIST's cumulative counters times the factor. -/
def C11_trip_outputs_run_statement : Prop :=
  ∀ (c36525 : α) (days : Option α) (con : Consist α) (s : TrainState α) (ann : Bool),
    LevelsClosed s con →
      tripEnergyFuel c36525 days con ann = con.state.energyFuel * scalingFactor c36525 ann days ∧
      tripNetEnergyRes c36525 days con ann = con.state.energyRes * scalingFactor c36525 ann days ∧
      tripEnergyFuel c36525 days con false = con.state.energyFuel ∧
      tripNetEnergyRes c36525 days con false = con.state.energyRes

theorem C11_trip_outputs_run : C11_trip_outputs_run_statement (α := α) := by
  intro c days con s ann h
  obtain ⟨_, _, _, _, _, hF, hR⟩ := h
  have h1 : scalingFactor c false days = 1 := rfl
  simp only [tripEnergyFuel, tripNetEnergyRes, h1, mul_one, hF, hR, and_self]

/-- non-vacuity: at the end of the set-speed example run, annualised over a 7-day simulation -/
example : ∃ con' res' s',
    ssWalk C01.Ex.kQ Fx.cT Fx.g Fx.rho Fx.tpc (Fx.con0 .proportional, Fx.strap, Fx.s0) Fx.ssTr
      = .ok (con', res', s') ∧
    tripEnergyFuel (36525/100) (some 7) con' true = con'.state.energyFuel * (36525/700) ∧
    tripNetEnergyRes (36525/100) (some 7) con' false = con'.state.energyRes := by
  obtain ⟨fin, h, _⟩ := C01.Ex.okAnd_exists
    (r := ssWalk C01.Ex.kQ Fx.cT Fx.g Fx.rho Fx.tpc (Fx.con0 .proportional, Fx.strap, Fx.s0) Fx.ssTr)
    (p := fun _ => true) (by decide +kernel)
  rw [← List.append_nil Fx.ssTr] at h
  obtain ⟨con', res', s', h1, _, hc, _⟩ := C11_ss_closed _ _ _ _ _ _ _ _ fin Fx.ssTr []
    (Fx.con0_dynOK _) (Fx.levels_zero _) (Fx.con0_zero _) h
  obtain ⟨t1, _, _, t4⟩ := C11_trip_outputs_run (36525/100 : ℚ) (some 7) con' s' true hc
  refine ⟨con', res', s', h1, ?_, t4⟩
  rw [t1, (C11_scaling_factor (36525/100 : ℚ) 7 none).2.1]
  norm_num

end Altrios.Proofs.C11
