import Altrios.Hybrid
import Proofs.Lemmas.Basic
import Mathlib.Algebra.Order.Field.Basic
import Mathlib.Algebra.BigOperators.Group.List.Basic
import Mathlib.Tactic.Ring
/-
  C11, consist-level fuel / battery totals over ALL THREE locomotive types
  (`Consist::get_energy_fuel`, `Consist::get_net_energy_res`; model `Altrios.Hyb.consistFuel/consistChem`).

    * `C11_rollup_is_sum`        : the getters are the sums over every unit's engine fuel / battery energy
    * `C11_rollup_append`        : coupling two consists adds their totals
    * `C11_rollup_hybrid_counted`: a hybrid anywhere in the consist contributes its fuel AND its battery energy
    * `C11_rollup_order_independent` : any reordering of the units leaves both totals unchanged
-/
namespace Altrios.Proofs.C11Hyb
open Altrios Altrios.Hyb Altrios.Proofs.Basic

variable {α : Type} [Field α] [LinearOrder α] [IsStrictOrderedRing α]

def C11_rollup_is_sum_statement : Prop :=
  ∀ (α : Type) [Field α] [LinearOrder α] [IsStrictOrderedRing α] (us : List (UnitE α)),
    consistFuel us = (us.map unitFuel).sum ∧ consistChem us = (us.map unitChem).sum

theorem C11_rollup_is_sum : C11_rollup_is_sum_statement := by
  intro α _ _ _ us
  exact ⟨sumLeft_eq_sum _, sumLeft_eq_sum _⟩

def C11_rollup_append_statement : Prop :=
  ∀ (α : Type) [Field α] [LinearOrder α] [IsStrictOrderedRing α] (a b : List (UnitE α)),
    consistFuel (a ++ b) = consistFuel a + consistFuel b ∧
    consistChem (a ++ b) = consistChem a + consistChem b

theorem C11_rollup_append : C11_rollup_append_statement := by
  intro α _ _ _ a b
  simp only [consistFuel, consistChem, sumLeft_eq_sum, List.map_append, List.sum_append, and_self]

def C11_rollup_hybrid_counted_statement : Prop :=
  ∀ (α : Type) [Field α] [LinearOrder α] [IsStrictOrderedRing α] (a b : List (UnitE α)) (f c : α),
    consistFuel (a ++ UnitE.hyb f c :: b) = consistFuel a + f + consistFuel b ∧
    consistChem (a ++ UnitE.hyb f c :: b) = consistChem a + c + consistChem b

theorem C11_rollup_hybrid_counted : C11_rollup_hybrid_counted_statement := by
  intro α _ _ _ a b f c
  simp only [consistFuel, consistChem, sumLeft_eq_sum, List.map_append, List.map_cons, List.sum_append,
    List.sum_cons, unitFuel, unitChem]
  constructor <;> ring

def C11_rollup_order_independent_statement : Prop :=
  ∀ (α : Type) [Field α] [LinearOrder α] [IsStrictOrderedRing α] (us vs : List (UnitE α)),
    us.Perm vs → consistFuel us = consistFuel vs ∧ consistChem us = consistChem vs

theorem C11_rollup_order_independent : C11_rollup_order_independent_statement := by
  intro α _ _ _ us vs h
  simp only [consistFuel, consistChem, sumLeft_eq_sum]
  exact ⟨(h.map unitFuel).sum_eq, (h.map unitChem).sum_eq⟩

/-- a conventional, a hybrid and a battery unit: 5 + 7 of fuel, 3 + 11 of battery energy -/
example : consistFuel [UnitE.conv (5 : ℚ), .hyb 7 3, .bel 11] = 12 ∧
    consistChem [UnitE.conv (5 : ℚ), .hyb 7 3, .bel 11] = 14 := by decide +kernel

end Altrios.Proofs.C11Hyb
