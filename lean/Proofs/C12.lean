import Altrios.Train
import Proofs.Lemmas.Basic
import Proofs.Lemmas.Ledger
import Proofs.Lemmas.TrainL
import Mathlib.Algebra.Order.Field.Basic
import Mathlib.Tactic.Linarith
import Mathlib.Tactic.Ring
import Mathlib.Tactic.FieldSimp
import Mathlib.Tactic.NormNum
import Mathlib.Tactic.SplitIfs
import Mathlib.Data.List.Basic
import Mathlib.Data.List.Pairwise
/-
  C12 — "Time, position and distance bookkeeping is kinematically consistent".

  Model: `setLinkAndOffset`, `ssRequiredPwr`, `ssIntegrate`, `ssStep`, `slRequiredPwr`, `slStep`
  (Altrios/Train.lean) = `train_state.rs::set_link_and_offset`,
  `SetSpeedTrainSim::{solve_step, solve_required_pwr}`, `SpeedLimitTrainSim::{solve_step, solve_required_pwr}`.

  Clauses (exact arithmetic over an arbitrary linearly ordered field):
    1. `C12_ss_integrate`, `C12_ss_step`, `C12_ssStep`   set-speed step: `time = tCur`,
                              `Δoffset = dt · (vPrev+vCur)/2`, rear = front − length, `total_dist += |Δoffset|`
       `C12_ss_state_statement` (the clause read on SAVED STATES only) is FALSE at the first step when the
       initial state is not aligned with the trace: `C12_ss_state_counterexample`; `C12_ss_state_partial`
    2. `C12_sl_step`          speed-limited step: `time += dt`, `Δoffset = dt · (v + dv/2)`, rear, distance;
                              forced case split on the snap to the target speed
       `C12_sl_mean_statement` (Δoffset = dt · mean of saved speeds) is FALSE when the snap fires:
       `C12_snap_counterexample`; true variant `C12_sl_mean_partial`; deviation bound `C12_snap_bound`
    3. `C12_locate`, `C12_locate_unique`, `C12_locate_ok`   segment + in-segment offset identify the front position;
       other outcomes: `C12_locate_panic` (front at/before the first link point),
       `C12_locate_beyond_end` (front beyond the path end: trailing dummy point, "link 0"),
       `C12_locate_never_err`; remarks `C12_locate_nonmonotone_ambiguous`, `C12_backward_step_panics`
       (position update alone); positive: `C12_forward_step_ok`, `C12_ssStep_forward` (no backward motion,
       hence no underflow, once both samples are checked non-negative — the repaired `solve_step`)
    4. `C12_ss_run`, `C12_ss_walk`, `C12_sl_run`   the same over whole runs (telescoped sums)
-/
set_option linter.unusedSectionVars false
set_option linter.unusedSimpArgs false
set_option autoImplicit false
namespace Altrios.Proofs.C12
open Altrios Altrios.Tpc Altrios.Rs Altrios.PT Altrios.CS Altrios.Tr
open Altrios.Proofs.Basic Altrios.Proofs.LedgerL Altrios.Proofs.TrainL

/-! ## Concrete data over `ℚ` -/
namespace Ex

/-- the literals of the Rust code -/
def c : TrConsts ℚ := ⟨1/2, 2, 4, 44704/1000000, 1/100000000, 1/10000000⟩

def cs : ConsistState ℚ :=
  { pwrOutMax := 3000000, pwrRateOutMax := 100000, pwrRegenMax := 0, pwrOutMaxReves := 0,
    pwrOutDeficit := 0, pwrOutMaxNonReves := 3000000, pwrRegenDeficit := 0, pwrDynBrakeMax := 2000000,
    pwrOutReq := 0, pwrOut := 0, pwrReves := 0, pwrFuel := 0, energyOut := 0, energyOutPos := 0,
    energyOutNeg := 0, energyRes := 0, energyFuel := 0 }

/-- a 200 m, 1000 t train with its front at 500 m, total resistance 4 kN -/
def r : Rs.ResState ℚ :=
  { offset := 500, offsetBack := 300, speed := 10, length := 200, massStatic := 1000000,
    weightStatic := 9810000, resRolling := 1000, resBearing := 500, resDavisB := 200, resAero := 300,
    resGrade := 2000, resCurve := 0, gradeFront := 0, gradeBack := 0, elevFront := 0 }

def k : Kin ℚ :=
  { time := 7, totalDist := 100, linkIdxFront := 1, offsetInLink := 500, speedLimit := 30,
    speedTarget := 30, dt := 1, massRot := 50000, massFreight := 0, pwrRes := 0, pwrAccel := 0,
    pwrWhlOut := 500000, energyWhlOut := 1000, energyWhlOutPos := 1500, energyWhlOutNeg := 500 }

def s : TrainState ℚ := ⟨r, k⟩

/-- links 3, 5, 8 of 400 m, 4 m (much shorter than one step) and 596 m, then the trailing dummy point -/
def lps : List (LinkPt ℚ) :=
  [⟨0, 1, 1, 0, 3⟩, ⟨400, 1, 1, 0, 5⟩, ⟨404, 1, 1, 0, 8⟩, ⟨1000, 0, 0, 0, 0⟩]

/-- link points whose offsets are NOT monotone -/
def badLps : List (LinkPt ℚ) := [⟨0, 1, 1, 0, 3⟩, ⟨10, 1, 1, 0, 5⟩, ⟨5, 1, 1, 0, 8⟩, ⟨20, 0, 0, 0, 0⟩]

/-- data for the snap counterexample: a 1 kg point "train" at 10 m/s, no resistance, target 20 m/s,
    traction force limit a hair (1e-9 N) below what reaching the target needs -/
def cs2 : ConsistState ℚ :=
  { cs with pwrOutMax := 1000000, pwrRateOutMax := 1000000, pwrDynBrakeMax := 1000 }
def r2 : Rs.ResState ℚ :=
  { offset := 100, offsetBack := 50, speed := 10, length := 50, massStatic := 1,
    weightStatic := 0, resRolling := 0, resBearing := 0, resDavisB := 0, resAero := 0,
    resGrade := 0, resCurve := 0, gradeFront := 0, gradeBack := 0, elevFront := 0 }
def k2 : Kin ℚ :=
  { time := 0, totalDist := 0, linkIdxFront := 3, offsetInLink := 100, speedLimit := 30,
    speedTarget := 20, dt := 1, massRot := 0, massFreight := 0, pwrRes := 0, pwrAccel := 0,
    pwrWhlOut := 0, energyWhlOut := 0, energyWhlOutPos := 0, energyWhlOutNeg := 0 }
def s2 : TrainState ℚ := ⟨r2, k2⟩
def fb2 : FricBrake ℚ := ⟨100, 1, 1, 0, 0⟩
def bp2 : BrakingPoints ℚ := ⟨[⟨0, 30, 20⟩], 0⟩
/-- stand-in for `sqrt` (only used for `v_max`, which is not binding here) -/
def sqrt2 : ℚ → ℚ := fun _ => 1000
def fmc2 : ℚ := 10 - 1/1000000000

end Ex

/-! ## 1. Set-speed step -/

/-- **The kinematic tail of `SetSpeedTrainSim::solve_step`.** -/
def C12_ss_integrate_statement : Prop :=
  ∀ (α : Type) [Field α] [LinearOrder α] [IsStrictOrderedRing α]
    (c : TrConsts α) (lps : List (LinkPt α)) (s s' : TrainState α) (vPrev vCur tCur : α),
    c.half = 1 / 2 →      -- forced: the literal 0.5 (the model takes the literals as parameters)
    ssIntegrate c lps s vPrev vCur tCur = .ok s' →
      s'.k.time = tCur ∧ s'.r.speed = vCur ∧
      s'.r.offset - s.r.offset = s.k.dt * ((vPrev + vCur) / 2) ∧
      s'.r.length = s.r.length ∧
      s'.r.offsetBack = s'.r.offset - s'.r.length ∧
      s'.k.totalDist = s.k.totalDist + |s'.r.offset - s.r.offset| ∧
      s'.k.dt = s.k.dt

theorem C12_ss_integrate : C12_ss_integrate_statement := by
  intro α _ _ _ c lps s s' vPrev vCur tCur hhalf h
  have I := ssIntegrate_inv h
  have hΔ : s'.r.offset - s.r.offset = c.half * (vCur + vPrev) * s.k.dt := by rw [I.offset]; ring
  refine ⟨I.time, I.speed, ?_, I.length, by rw [I.offsetBack, I.length], ?_, I.dt⟩
  · rw [hΔ, hhalf]; ring
  · rw [I.totalDist, hΔ]

/-- non-vacuity: 10 → 12 m/s over the stored `dt = 1` moves the front 500 → 511 m (link 8 spans
    404–1000 m, in-segment offset 107 m); a step crossing two boundaries is shown in section 3 -/
example : Ex.c.half = 1 / 2 ∧
    okVal ((ssIntegrate Ex.c Ex.lps Ex.s 10 12 8).bind fun s' =>
      pure ((s'.k.time, s'.r.speed, s'.r.offset, s'.r.offsetBack),
            (s'.k.totalDist, s'.k.linkIdxFront, s'.k.offsetInLink)))
      = some ((8, 12, 511, 311), (111, 8, 107)) := by
  constructor <;> decide +kernel

/-- the kinematic core of one `SetSpeedTrainSim::solve_step`, abstracting from the consist and the
    resistance model: ANY consist state `cs` and ANY refreshed resistance part `r₁` that keeps
    `offset`, `length`, `speed` (what `update_res` guarantees, `updateRes_frame`) -/
def SsKinStep {α : Type} [Field α] [LinearOrder α] [IsStrictOrderedRing α]
    (c : TrConsts α) (lps : List (LinkPt α)) (s s' : TrainState α) (vPrev vCur tPrev tCur : α) : Prop :=
  ∃ (cs : ConsistState α) (r₁ : Rs.ResState α) (s₁ : TrainState α),
    r₁.offset = s.r.offset ∧ r₁.length = s.r.length ∧ r₁.speed = s.r.speed ∧
    ssRequiredPwr c cs { s with r := r₁ } vPrev vCur (tCur - tPrev) = .ok s₁ ∧
    ssIntegrate c lps s₁ vPrev vCur tCur = .ok s'

/-- every accepted `ssStep` contains a `SsKinStep` -/
theorem ssStep_kin {α : Type} [Field α] [LinearOrder α] [IsStrictOrderedRing α]
    {kc : Consts α} {c : TrConsts α} {g rho : α} {t : Tpc α} {res res' : ResStrap α}
    {con con' : Consist α} {s s' : TrainState α} {vPrev vCur tPrev tCur : α}
    (h : ssStep kc c g rho t res con s vPrev vCur tPrev tCur = .ok (con', res', s')) :
    SsKinStep c t.linkPoints s s' vPrev vCur tPrev tCur := by
  obtain ⟨_, _, con₁, r₁, s₁, _, h2, h3, _, h5⟩ := ssStep_inv h
  obtain ⟨f1, f2, f3, _, _⟩ := updateRes_frame h2
  exact ⟨con₁.state, r₁, s₁, f1, f2, f3, h3, h5⟩

/-- **One whole set-speed step** (`dtI = tCur − tPrev` is what `solve_required_pwr` stores in `state.dt`
    before the position update reads it). -/
def C12_ss_step_statement : Prop :=
  ∀ (α : Type) [Field α] [LinearOrder α] [IsStrictOrderedRing α]
    (c : TrConsts α) (lps : List (LinkPt α)) (s s' : TrainState α) (vPrev vCur tPrev tCur : α),
    c.half = 1 / 2 →      -- forced: the literal 0.5
    SsKinStep c lps s s' vPrev vCur tPrev tCur →
      s'.k.time = tCur ∧ s'.k.dt = tCur - tPrev ∧ s'.k.time - tPrev = s'.k.dt ∧
      s'.r.speed = vCur ∧
      s'.r.offset - s.r.offset = s'.k.dt * ((vPrev + vCur) / 2) ∧
      s'.r.length = s.r.length ∧
      s'.r.offsetBack = s'.r.offset - s'.r.length ∧
      s'.k.totalDist = s.k.totalDist + |s'.r.offset - s.r.offset|

theorem C12_ss_step : C12_ss_step_statement := by
  intro α _ _ _ c lps s s' vPrev vCur tPrev tCur hhalf h
  obtain ⟨cs, r₁, s₁, f1, f2, _, h3, h5⟩ := h
  have P := ssRequiredPwr_inv h3
  obtain ⟨i1, i2, i3, i4, i5, i6, i7⟩ := C12_ss_integrate α c lps s₁ s' vPrev vCur tCur hhalf h5
  have hr : s₁.r = r₁ := P.r
  have hdt : s'.k.dt = tCur - tPrev := by rw [i7, P.dt]
  rw [hr, f1] at i3 i6
  rw [hr, f2] at i4
  rw [P.totalDist] at i6
  rw [P.dt] at i3
  exact ⟨i1, hdt, by rw [i1, hdt], i2, by rw [hdt]; exact i3, i4, i5, i6⟩

/-- **One whole `ssStep`** (consist, resistance update, power, integration). -/
def C12_ssStep_statement : Prop :=
  ∀ (α : Type) [Field α] [LinearOrder α] [IsStrictOrderedRing α]
    (kc : Consts α) (c : TrConsts α) (g rho : α) (t : Tpc α) (res res' : ResStrap α)
    (con con' : Consist α) (s s' : TrainState α) (vPrev vCur tPrev tCur : α),
    c.half = 1 / 2 →      -- forced: the literal 0.5
    ssStep kc c g rho t res con s vPrev vCur tPrev tCur = .ok (con', res', s') →
      s'.k.time = tCur ∧ s'.k.dt = tCur - tPrev ∧ s'.k.time - tPrev = s'.k.dt ∧
      s'.r.speed = vCur ∧
      s'.r.offset - s.r.offset = (tCur - tPrev) * ((vPrev + vCur) / 2) ∧
      s'.r.length = s.r.length ∧
      s'.r.offsetBack = s'.r.offset - s'.r.length ∧
      s'.k.totalDist = s.k.totalDist + |s'.r.offset - s.r.offset|

theorem C12_ssStep : C12_ssStep_statement := by
  intro α _ _ _ kc c g rho t res res' con con' s s' vPrev vCur tPrev tCur hhalf h
  obtain ⟨h1, h2, h3, h4, h5, h6, h7, h8⟩ :=
    C12_ss_step α c t.linkPoints s s' vPrev vCur tPrev tCur hhalf (ssStep_kin h)
  exact ⟨h1, h2, h3, h4, by rw [h5, h2], h6, h7, h8⟩

/-- non-vacuity: a whole accepted step (diesel consist, resistance update, power, integration) -/
example : ExW.c.half = 1 / 2 ∧
    ∃ con' res' s', ssStep ExW.kc ExW.c ExW.g ExW.rho ExW.tpc ExW.strap ExW.con ExW.s 1 2 0 1
      = .ok (con', res', s') :=
  ⟨by decide +kernel, ExW.step_ok'⟩

/-- **1, read on saved states only (FALSE, see `C12_ss_state_counterexample`).**  "Saved time increases by
    exactly the step size; the front advances by the step size times the mean of the speeds before and
    after the step". -/
def C12_ss_state_statement : Prop :=
  ∀ (c : TrConsts ℚ) (lps : List (LinkPt ℚ)) (s s' : TrainState ℚ) (vPrev vCur tPrev tCur : ℚ),
    c.half = 1 / 2 →
    SsKinStep c lps s s' vPrev vCur tPrev tCur →
      s'.k.time = s.k.time + s'.k.dt ∧
      s'.r.offset - s.r.offset = s'.k.dt * ((s.r.speed + s'.r.speed) / 2)

/-- **1, true variant.**  Extra hypotheses: the state before the step carries the previous trace sample. -/
def C12_ss_state_partial_statement : Prop :=
  ∀ (α : Type) [Field α] [LinearOrder α] [IsStrictOrderedRing α]
    (c : TrConsts α) (lps : List (LinkPt α)) (s s' : TrainState α) (vPrev vCur tPrev tCur : α),
    c.half = 1 / 2 →
    SsKinStep c lps s s' vPrev vCur tPrev tCur →
      -- FORCED (first step only; afterwards it is the previous step's conclusion): `InitTrainState.time`
      -- is not compared with `speed_trace.time[0]`
      (s.k.time = tPrev → s'.k.time = s.k.time + s'.k.dt) ∧
      -- FORCED (first step only): `InitTrainState.speed` is not compared with `speed_trace.speed[0]`
      (s.r.speed = vPrev →
        s'.r.offset - s.r.offset = s'.k.dt * ((s.r.speed + s'.r.speed) / 2))

theorem C12_ss_state_partial : C12_ss_state_partial_statement := by
  intro α _ _ _ c lps s s' vPrev vCur tPrev tCur hhalf h
  obtain ⟨h1, h2, _, h4, h5, _⟩ := C12_ss_step α c lps s s' vPrev vCur tPrev tCur hhalf h
  exact ⟨fun ht => by rw [h1, h2, ht]; ring, fun hv => by rw [h5, hv, h4]⟩

/-- an accepted kinematic step from the example state: trace step (t, v) = (5, 10) → (9, 12), while the
    state carries time 7 and speed 10 -/
theorem Ex.kinStep : ∃ s', SsKinStep Ex.c Ex.lps Ex.s s' 10 12 5 9 ∧
    s'.k.time = 9 ∧ s'.k.dt = 4 ∧ s'.r.offset = 544 ∧ s'.r.speed = 12 := by
  obtain ⟨s₁, h₁⟩ : ∃ s₁, ssRequiredPwr Ex.c Ex.cs Ex.s 10 12 (9 - 5) = .ok s₁ :=
    ssRequiredPwr_ok _ _ _ _ _ _ (by norm_num [posMax, Ex.cs, Ex.s, Ex.k])
  have P := ssRequiredPwr_inv h₁
  have hoff : (ssMoved Ex.c s₁ 10 12 9).r.offset = 544 := by
    simp only [ssMoved, P.r, P.dt]; norm_num [Ex.s, Ex.r, Ex.c]
  have hloc : setLinkAndOffset Ex.lps (ssMoved Ex.c s₁ 10 12 9) = .ok (located (ssMoved Ex.c s₁ 10 12 9) Ex.lps[2]) := by
    apply setLinkAndOffset_of_first_ge (n := 2) (by decide)
    · rw [hoff]; norm_num [Ex.lps]
    · intro m hm; rw [hoff]
      have : m = 0 ∨ m = 1 ∨ m = 2 := by omega
      rcases this with rfl | rfl | rfl <;> norm_num [Ex.lps]
  refine ⟨_, ⟨Ex.cs, Ex.r, s₁, rfl, rfl, rfl, h₁, ssIntegrate_iff.mpr ⟨_, hloc, rfl⟩⟩, rfl, ?_, hoff, rfl⟩
  show s₁.k.dt = 4
  rw [P.dt]; norm_num

/-- **Counterexample to the saved-state reading at the FIRST step.**  State time 7 (from
    `InitTrainState`) but `speed_trace.time = [5, 9, …]`: the saved time goes 7 → 9 while the saved step
    size is 4 and the position advances by `4 s · 11 m/s`. -/
theorem C12_ss_state_counterexample : ¬ C12_ss_state_statement := by
  intro h
  obtain ⟨s', hk, ht, hdt, _, _⟩ := Ex.kinStep
  have := (h Ex.c Ex.lps Ex.s s' 10 12 5 9 (by decide +kernel) hk).1
  rw [ht, hdt] at this
  norm_num [Ex.s, Ex.k] at this

/-- non-vacuity of `C12_ss_step` and of the hypothesis `s.r.speed = vPrev` of the true variant -/
example : ∃ s', SsKinStep Ex.c Ex.lps Ex.s s' 10 12 5 9 ∧ Ex.s.r.speed = 10 ∧ Ex.c.half = 1 / 2 := by
  obtain ⟨s', hk, _⟩ := Ex.kinStep
  exact ⟨s', hk, rfl, by decide +kernel⟩

/-! ## 2. Speed-limited step -/

/-- **`SpeedLimitTrainSim::solve_required_pwr`: time, position, distance.**  `dv` is `vel_change`,
    the speed change before the snap to the target (an explicit function of the inputs and of the
    target returned by `calc_speeds`, which is saved in `speed_target`). -/
def C12_sl_step_statement : Prop :=
  ∀ (α : Type) [Field α] [LinearOrder α] [IsStrictOrderedRing α]
    (c : TrConsts α) (sqrt : α → α) (fmc : α) (cs : ConsistState α) (fb fb' : FricBrake α)
    (bp bp' : BrakingPoints α) (s s' : TrainState α) (dv : α),
    c.half = 1 / 2 →      -- forced: the literal 0.5
    dv = slDv c sqrt fmc cs fb s s'.k.speedTarget →
    slRequiredPwr c sqrt fmc cs fb bp s = .ok (fb', bp', s') →
      s'.k.time = s.k.time + s.k.dt ∧ s'.k.dt = s.k.dt ∧
      s'.r.offset - s.r.offset = s.k.dt * (s.r.speed + dv / 2) ∧
      s'.r.length = s.r.length ∧
      s'.r.offsetBack = s'.r.offset - s'.r.length ∧
      s'.k.totalDist = s.k.totalDist + |s'.r.offset - s.r.offset| ∧
      -- forced case split: either the saved speed is `v + dv` and the advance is `dt` × the mean of the
      -- saved speeds, or the snap fired and the advance misses that mean by `dt/2 · (v + dv − target)`
      ((s'.r.speed = s.r.speed + dv ∧
          s'.r.offset - s.r.offset = s.k.dt * ((s.r.speed + s'.r.speed) / 2)) ∨
       (almostEq (s.r.speed + dv) s'.k.speedTarget c.eps = true ∧ s'.r.speed = s'.k.speedTarget ∧
          (s'.r.offset - s.r.offset) - s.k.dt * ((s.r.speed + s'.r.speed) / 2)
            = s.k.dt / 2 * ((s.r.speed + dv) - s'.k.speedTarget) ∧
          |(s'.r.offset - s.r.offset) - s.k.dt * ((s.r.speed + s'.r.speed) / 2)|
            = |s.k.dt| / 2 * |s'.k.speedTarget - (s.r.speed + dv)|))

theorem C12_sl_step : C12_sl_step_statement := by
  intro α _ _ _ c sqrt fmc cs fb fb' bp bp' s s' dv hhalf hdv h
  obtain ⟨_, K⟩ := slRequiredPwr_inv h
  rw [← hdv] at K
  have hΔ : s'.r.offset - s.r.offset = s.k.dt * (s.r.speed + dv / 2) := by
    rw [K.offset, hhalf]; ring
  refine ⟨K.time, K.dt, hΔ, K.length, by rw [K.offsetBack, K.length], ?_, ?_⟩
  · rw [K.totalDist, hΔ, hhalf]; congr 2; ring
  · have hs := K.speed
    split_ifs at hs with hsnap
    · right
      have hsig : (s'.r.offset - s.r.offset) - s.k.dt * ((s.r.speed + s'.r.speed) / 2)
          = s.k.dt / 2 * ((s.r.speed + dv) - s'.k.speedTarget) := by rw [hΔ, hs]; ring
      refine ⟨hsnap, hs, hsig, ?_⟩
      rw [hsig, abs_mul, abs_div, abs_two, abs_sub_comm]
    · left
      exact ⟨hs, by rw [hΔ, hs]; ring⟩

/-- the tolerance that bounds the deviation when the snap fires -/
def C12_snap_bound_statement : Prop :=
  ∀ (α : Type) [Field α] [LinearOrder α] [IsStrictOrderedRing α] (a b eps : α),
    almostEq a b eps = true →
    a + b ≠ 0 →   -- guard: `almost_eq` divides by `a + b`
    0 < eps ∧ |b - a| < eps * max 1 |a + b|

theorem C12_snap_bound : C12_snap_bound_statement := by
  intro α _ _ _ a b eps h hab
  exact almostEq_bound h hab

example : almostEq (20 - 1/1000000000 : ℚ) 20 Ex.c.eps = true ∧ (20 - 1/1000000000 : ℚ) + 20 ≠ 0 := by
  constructor
  · decide +kernel
  · norm_num

/-- **2, "mean of the speeds before and after the step" (FALSE, see `C12_snap_counterexample`).** -/
def C12_sl_mean_statement : Prop :=
  ∀ (c : TrConsts ℚ) (sqrt : ℚ → ℚ) (fmc : ℚ) (cs : ConsistState ℚ) (fb fb' : FricBrake ℚ)
    (bp bp' : BrakingPoints ℚ) (s s' : TrainState ℚ),
    c.half = 1 / 2 →
    slRequiredPwr c sqrt fmc cs fb bp s = .ok (fb', bp', s') →
      s'.r.offset - s.r.offset = s.k.dt * ((s.r.speed + s'.r.speed) / 2)

/-- **2, true variant**: the snap does not fire, or it fires on an exact hit. -/
def C12_sl_mean_partial_statement : Prop :=
  ∀ (α : Type) [Field α] [LinearOrder α] [IsStrictOrderedRing α]
    (c : TrConsts α) (sqrt : α → α) (fmc : α) (cs : ConsistState α) (fb fb' : FricBrake α)
    (bp bp' : BrakingPoints α) (s s' : TrainState α),
    c.half = 1 / 2 →
    slRequiredPwr c sqrt fmc cs fb bp s = .ok (fb', bp', s') →
    -- FORCED (see `C12_snap_counterexample`)
    (almostEq (s.r.speed + slDv c sqrt fmc cs fb s s'.k.speedTarget) s'.k.speedTarget c.eps = false ∨
      s.r.speed + slDv c sqrt fmc cs fb s s'.k.speedTarget = s'.k.speedTarget) →
      s'.r.offset - s.r.offset = s.k.dt * ((s.r.speed + s'.r.speed) / 2)

theorem C12_sl_mean_partial : C12_sl_mean_partial_statement := by
  intro α _ _ _ c sqrt fmc cs fb fb' bp bp' s s' hhalf h hno
  obtain ⟨_, _, _, _, _, _, hc⟩ := C12_sl_step α c sqrt fmc cs fb fb' bp bp' s s' _ hhalf rfl h
  rcases hc with ⟨_, h2⟩ | ⟨hsnap, _, hsig, _⟩
  · exact h2
  · rcases hno with hno | hno
    · rw [hno] at hsnap; cases hsnap
    · rw [hno, sub_self, mul_zero] at hsig
      exact sub_eq_zero.mp hsig

/-- the accepted speed-limited step of the counterexample: 10 m/s, target 20 m/s, `f_applied` is the
    consist's force limit `10 − 1e-9 N`, so `v + dv = 20 − 1e-9`, which `almost_eq` snaps to 20 -/
theorem Ex.snapStep :
    okVal ((slRequiredPwr Ex.c Ex.sqrt2 Ex.fmc2 Ex.cs2 Ex.fb2 Ex.bp2 Ex.s2).bind fun x =>
      pure ((x.2.2.k.time, x.2.2.r.speed, x.2.2.k.speedTarget), (x.2.2.r.offset, x.2.2.r.offsetBack,
            x.2.2.k.totalDist)))
      = some ((1, 20, 20), (115 - 1/2000000000, 65 - 1/2000000000, 15 - 1/2000000000)) := by
  decide +kernel

/-- **Counterexample: the snap to the target breaks "advance = dt × mean of saved speeds".**
    Saved speeds 10 and 20 m/s, `dt = 1 s`, but the front advances `15 − 5·10⁻¹⁰ m`, not 15 m.
    The deviation is `dt/2 · |target − (v+dv)|`, below `dt/2 · eps · max 1 |v+dv+target|`
    (`C12_sl_step`, `C12_snap_bound`): 0.5 nm here — an exactness caveat, not a physical defect. -/
theorem C12_snap_counterexample : ¬ C12_sl_mean_statement := by
  intro h
  have hs := Ex.snapStep
  cases hr : slRequiredPwr Ex.c Ex.sqrt2 Ex.fmc2 Ex.cs2 Ex.fb2 Ex.bp2 Ex.s2 with
  | ok x =>
    obtain ⟨fb', bp', s'⟩ := x
    rw [hr] at hs
    simp only [Res.bind, pure, okVal, Option.some.injEq, Prod.mk.injEq] at hs
    obtain ⟨⟨_, hv, _⟩, ho, _, _⟩ := hs
    have := h Ex.c Ex.sqrt2 Ex.fmc2 Ex.cs2 Ex.fb2 fb' Ex.bp2 bp' Ex.s2 s' (by decide +kernel) hr
    rw [ho, hv] at this
    norm_num [Ex.s2, Ex.r2, Ex.k2] at this
  | err e => rw [hr] at hs; simp [Res.bind, okVal] at hs
  | panic e => rw [hr] at hs; simp [Res.bind, okVal] at hs

/-! ## 3. Front segment and in-segment offset -/

/-- "the reported front segment and in-segment offset identify position `x` on the route":
    segment `i` (from link point `i` to link point `i+1`) carries the reported link id, its base
    offset plus the in-segment offset is `x`, and the in-segment offset lies inside the segment -/
def Identifies {α : Type} [Field α] [LinearOrder α] [IsStrictOrderedRing α]
    (lps : List (LinkPt α)) (x : α) (linkIdx : Nat) (off : α) (i : Nat) : Prop :=
  ∃ hi : i + 1 < lps.length, linkIdx = lps[i].linkIdx ∧ lps[i].off + off = x ∧
    0 < off ∧ off ≤ lps[i + 1].off - lps[i].off

/-- **Locating the front.**  No hypothesis on the link points is needed for existence: the call picks
    the segment that ENDS at the first link point at or beyond the front. -/
def C12_locate_statement : Prop :=
  ∀ (α : Type) [Field α] [LinearOrder α] [IsStrictOrderedRing α]
    (lps : List (LinkPt α)) (s : TrainState α) (h0 : 0 < lps.length),
    lps[0].off < s.r.offset →                 -- forced: otherwise `panic` (`C12_locate_panic`)
    (∃ p ∈ lps, s.r.offset ≤ p.off) →         -- forced: otherwise the dummy point (`C12_locate_beyond_end`)
    ∃ i, ∃ hi : i + 1 < lps.length,
      setLinkAndOffset lps s = .ok (located s lps[i]) ∧
      lps[i].off < s.r.offset ∧ s.r.offset ≤ lps[i + 1].off ∧
      (∀ m (hm : m < i + 1), lps[m].off < s.r.offset) ∧
      Identifies lps s.r.offset (located s lps[i]).k.linkIdxFront (located s lps[i]).k.offsetInLink i

theorem C12_locate : C12_locate_statement := by
  intro α _ _ _ lps s h0 hfirst hex
  rcases setLinkAndOffset_cases lps s with ⟨_, hle⟩ | ⟨n, hn, hok, hx, hlt⟩ | ⟨_, _, hall⟩
  · exact absurd (hle h0) (not_le.mpr hfirst)
  · have hn' : lps[n].off < s.r.offset := hlt n (Nat.lt_succ_self n)
    refine ⟨n, hn, hok, hn', hx, hlt, hn, rfl, ?_, ?_, ?_⟩
    · show lps[n].off + (s.r.offset - lps[n].off) = s.r.offset
      ring
    · show 0 < s.r.offset - lps[n].off
      linarith
    · show s.r.offset - lps[n].off ≤ lps[n + 1].off - lps[n].off
      linarith
  · obtain ⟨p, hp, hxp⟩ := hex
    exact absurd (hall p hp) (not_lt.mpr hxp)

/-- **Uniqueness** of the identified segment needs (weakly) increasing link-point offsets. -/
def C12_locate_unique_statement : Prop :=
  ∀ (α : Type) [Field α] [LinearOrder α] [IsStrictOrderedRing α]
    (lps : List (LinkPt α)) (x : α) (i j : Nat) (hi : i + 1 < lps.length) (hj : j + 1 < lps.length),
    lps.Pairwise (fun a b => a.off ≤ b.off) →   -- forced: `C12_locate_nonmonotone_ambiguous`
    lps[i].off < x → x ≤ lps[i + 1].off → lps[j].off < x → x ≤ lps[j + 1].off → i = j

theorem C12_locate_unique : C12_locate_unique_statement := by
  intro α _ _ _ lps x i j hi hj hmono h1 h2 h3 h4
  rw [List.pairwise_iff_getElem] at hmono
  have key : ∀ (a b : Nat) (ha : a + 1 < lps.length) (hb : b + 1 < lps.length),
      lps[a].off < x → x ≤ lps[a + 1].off → lps[b].off < x → a < b → False := by
    intro a b ha hb _ ha2 hb1 hab
    rcases Nat.lt_or_eq_of_le (Nat.succ_le_of_lt hab) with hlt | heq
    · have := hmono (a + 1) b ha (Nat.lt_of_succ_lt hb) hlt
      exact absurd (lt_of_le_of_lt (le_trans ha2 this) hb1) (lt_irrefl _)
    · subst heq
      exact absurd (lt_of_le_of_lt ha2 hb1) (lt_irrefl _)
  rcases Nat.lt_trichotomy i j with h | h | h
  · exact (key i j hi hj h1 h2 h3 h).elim
  · exact h
  · exact (key j i hj hi h3 h4 h1 h).elim

/-- **What an accepted call reports** (any link points): if the front is not beyond the last link
    point, the saved segment and in-segment offset identify the front position; nothing else changes. -/
def C12_locate_ok_statement : Prop :=
  ∀ (α : Type) [Field α] [LinearOrder α] [IsStrictOrderedRing α]
    (lps : List (LinkPt α)) (s s' : TrainState α),
    setLinkAndOffset lps s = .ok s' →
    (∃ p ∈ lps, s.r.offset ≤ p.off) →     -- forced: `C12_locate_beyond_end`
      (∃ i, Identifies lps s.r.offset s'.k.linkIdxFront s'.k.offsetInLink i) ∧
      s'.r = s.r ∧ s'.k.time = s.k.time ∧ s'.k.totalDist = s.k.totalDist ∧ s'.k.dt = s.k.dt

theorem C12_locate_ok : C12_locate_ok_statement := by
  intro α _ _ _ lps s s' h hex
  rcases setLinkAndOffset_cases lps s with ⟨hp, _⟩ | ⟨n, hn, hok, hx, hlt⟩ | ⟨_, _, hall⟩
  · rw [hp] at h; cases h
  · rw [hok] at h; cases h
    have hn' : lps[n].off < s.r.offset := hlt n (Nat.lt_succ_self n)
    refine ⟨⟨n, hn, rfl, ?_, ?_, ?_⟩, rfl, rfl, rfl, rfl⟩
    · show lps[n].off + (s.r.offset - lps[n].off) = s.r.offset
      ring
    · show 0 < s.r.offset - lps[n].off
      linarith
    · show s.r.offset - lps[n].off ≤ lps[n + 1].off - lps[n].off
      linarith
  · obtain ⟨p, hp, hxp⟩ := hex
    exact absurd (hall p hp) (not_lt.mpr hxp)

/-- non-vacuity: the front at 402 m lies in the 4 m link (id 5) that starts at 400 m; at exactly 404 m
    it is still reported at the END of link 5 (in-segment offset = segment length), not at the start of link 8 -/
example : (0 : ℚ) < 402 ∧ (∃ p ∈ Ex.lps, (402 : ℚ) ≤ p.off) ∧
    okVal ((setLinkAndOffset Ex.lps { Ex.s with r := { Ex.r with offset := 402 } }).bind fun s' =>
      pure (s'.k.linkIdxFront, s'.k.offsetInLink)) = some (5, 2) ∧
    okVal ((setLinkAndOffset Ex.lps { Ex.s with r := { Ex.r with offset := 404 } }).bind fun s' =>
      pure (s'.k.linkIdxFront, s'.k.offsetInLink)) = some (5, 4) ∧
    Ex.lps.Pairwise (fun a b => a.off ≤ b.off) := by
  refine ⟨by norm_num, ⟨⟨1000, 0, 0, 0, 0⟩, by simp [Ex.lps], by norm_num⟩, by decide +kernel,
    by decide +kernel, ?_⟩
  simp only [Ex.lps, List.pairwise_cons, List.mem_cons, List.not_mem_nil, or_false, forall_eq_or_imp,
    forall_eq, List.Pairwise.nil, and_true, IsEmpty.forall_iff, implies_true]
  norm_num

/-- **Front at or before the first link point: panic** (`position(..) = 0`, then `0usize - 1`).
    REMARK on reachability: `PathTpc::new` puts the first link point at offset 0 and `TrainState::new`
    puts the front at `max(init.offset, length)` with `length > 0` validated, so a run STARTS with
    `x > 0 = first.off`; the front can only come back to `≤ 0` by moving backwards
    (`C12_backward_step_panics`, position update alone), which whole accepted steps with
    non-decreasing time stamps never do (`C12_ssStep_forward`). -/
def C12_locate_panic_statement : Prop :=
  ∀ (α : Type) [Field α] [LinearOrder α] [IsStrictOrderedRing α]
    (lps : List (LinkPt α)) (s : TrainState α),
    (∀ h : 0 < lps.length, s.r.offset ≤ lps[0].off) →
    setLinkAndOffset lps s = .panic "underflow"

theorem C12_locate_panic : C12_locate_panic_statement := by
  intro α _ _ _ lps s h
  cases lps with
  | nil => exact setLinkAndOffset_nil s
  | cons p ps => exact setLinkAndOffset_panic (h (by simp))

/-- the front exactly AT the first link point panics too -/
example : isPanic (setLinkAndOffset Ex.lps { Ex.s with r := { Ex.r with offset := 0 } }) = true := by
  decide +kernel

/-- **Front beyond every link point: accepted, reported on the trailing dummy point.**  The call
    returns `Ok` with the link id stored in the LAST link point (the dummy point pushed by `extend`,
    link id 0 = the fake link) and in-segment offset = overshoot beyond the path end. The saved pair
    does NOT identify a position inside a segment. Reachable on the last step of a run that
    overshoots `offset_end` (the next step then fails in `update_res`). -/
def C12_locate_beyond_end_statement : Prop :=
  ∀ (α : Type) [Field α] [LinearOrder α] [IsStrictOrderedRing α]
    (lps : List (LinkPt α)) (s : TrainState α) (hne : lps ≠ []),
    (∀ p ∈ lps, p.off < s.r.offset) →
      setLinkAndOffset lps s = .ok (located s (lps.getLast hne)) ∧
      (located s (lps.getLast hne)).k.linkIdxFront = (lps.getLast hne).linkIdx ∧
      (located s (lps.getLast hne)).k.offsetInLink = s.r.offset - (lps.getLast hne).off ∧
      0 < (located s (lps.getLast hne)).k.offsetInLink ∧
      ¬ ∃ i, Identifies lps s.r.offset (located s (lps.getLast hne)).k.linkIdxFront
              (located s (lps.getLast hne)).k.offsetInLink i

theorem C12_locate_beyond_end : C12_locate_beyond_end_statement := by
  intro α _ _ _ lps s hne hall
  have hlast := hall _ (List.getLast_mem hne)
  refine ⟨setLinkAndOffset_beyond hne hall, rfl, rfl, ?_, ?_⟩
  · show 0 < s.r.offset - (lps.getLast hne).off
    linarith
  · rintro ⟨i, hi, _, hsum, hpos, hle⟩
    have h1 := hall _ (List.getElem_mem hi)
    linarith

example : okVal ((setLinkAndOffset Ex.lps { Ex.s with r := { Ex.r with offset := 1003 } }).bind
    fun s' => pure (s'.k.linkIdxFront, s'.k.offsetInLink)) = some (0, 3) := by
  decide +kernel

/-- the `Err` branch of `set_link_and_offset` is dead code: the outcome is `Ok` or a panic -/
def C12_locate_never_err_statement : Prop :=
  ∀ (α : Type) [Field α] [LinearOrder α] [IsStrictOrderedRing α]
    (lps : List (LinkPt α)) (s : TrainState α) (e : String), setLinkAndOffset lps s ≠ .err e

theorem C12_locate_never_err : C12_locate_never_err_statement := by
  intro α _ _ _ lps s e
  exact setLinkAndOffset_ne_err lps s e

/-- REMARK: with non-monotone link-point offsets (the Rust comment: "which may not always be true")
    the position 7 lies in two "segments" (0–10 and 5–20); the call reports the first -/
theorem C12_locate_nonmonotone_ambiguous :
    okVal ((setLinkAndOffset Ex.badLps { Ex.s with r := { Ex.r with offset := 7 } }).bind fun s' =>
      pure (s'.k.linkIdxFront, s'.k.offsetInLink)) = some (3, 7) ∧
    (Ex.badLps[2].off < 7 ∧ (7 : ℚ) ≤ Ex.badLps[3].off) ∧
    ¬ Ex.badLps.Pairwise (fun a b => a.off ≤ b.off) := by
  refine ⟨by decide +kernel, by decide +kernel, ?_⟩
  intro h
  rw [List.pairwise_iff_getElem] at h
  have := h 1 2 (by decide) (by decide) (by decide)
  norm_num [Ex.badLps] at this

/-- REMARK (kept, at the `ssIntegrate` level ONLY): the position update by itself moves the train
    backwards on a negative previous sample, and if the front reaches the first link point it PANICS
    (`usize` underflow; a release build without overflow checks wraps and returns the dead `Err`).
    `speed = [−1200, 0]`, `dt = 1`: mean −600 m/s, front 500 m → −100 m.
    Through a WHOLE `ssStep` this is no longer reachable: since the fix in /repo `solve_step` rejects a
    negative previous sample (`C14_first_sample_rejected`), and with non-negative samples and a
    non-negative step size the front never moves backwards (`C12_forward_step_ok`, `C12_ssStep_forward`). -/
theorem C12_backward_step_panics :
    (0 : ℚ) ≤ 0 ∧ isPanic (ssIntegrate Ex.c Ex.lps Ex.s (-1200) 0 8) = true := by
  constructor <;> decide +kernel

/-- **The position update cannot underflow on non-negative samples.**  Front beyond the first link
    point, both samples non-negative, step size non-negative: `ssIntegrate` is accepted (no panic; the
    `Err` branch is dead anyway) and the front does not move backwards. -/
def C12_forward_step_ok_statement : Prop :=
  ∀ (α : Type) [Field α] [LinearOrder α] [IsStrictOrderedRing α]
    (c : TrConsts α) (lps : List (LinkPt α)) (s : TrainState α) (vPrev vCur tCur : α)
    (h0 : 0 < lps.length),
    c.half = 1 / 2 →                -- forced: the literal 0.5
    lps[0].off < s.r.offset →       -- forced: `C12_locate_panic`
    0 ≤ vPrev →                     -- forced: `C12_backward_step_panics`
    0 ≤ vCur →                      -- forced (same example with the samples swapped)
    0 ≤ s.k.dt →                    -- forced: a negative step size with positive speeds moves backwards too
    ∃ s', ssIntegrate c lps s vPrev vCur tCur = .ok s' ∧ s.r.offset ≤ s'.r.offset

theorem C12_forward_step_ok : C12_forward_step_ok_statement := by
  intro α _ _ _ c lps s vPrev vCur tCur h0 hhalf hfirst hp hc hdt
  have hmove : s.r.offset ≤ (ssMoved c s vPrev vCur tCur).r.offset := by
    show s.r.offset ≤ s.r.offset + c.half * (vCur + vPrev) * s.k.dt
    have : 0 ≤ c.half * (vCur + vPrev) * s.k.dt := by
      rw [hhalf]; exact mul_nonneg (mul_nonneg (by norm_num) (add_nonneg hc hp)) hdt
    linarith
  have hroff : ∀ s₂ lp, s₂ = located (ssMoved c s vPrev vCur tCur) lp →
      ∀ s', s' = ({ s₂ with k := { s₂.k with
          totalDist := s₂.k.totalDist + |c.half * (vCur + vPrev) * s₂.k.dt| } } : TrainState α) →
      s.r.offset ≤ s'.r.offset := by
    rintro _ lp rfl _ rfl; exact hmove
  rcases setLinkAndOffset_cases lps (ssMoved c s vPrev vCur tCur) with
    ⟨_, hle⟩ | ⟨n, hn, hok, _, _⟩ | ⟨hne, hok, _⟩
  · exact absurd (lt_of_lt_of_le hfirst hmove) (not_lt.mpr (hle h0))
  · exact ⟨_, ssIntegrate_iff.mpr ⟨_, hok, rfl⟩, hroff _ _ rfl _ rfl⟩
  · exact ⟨_, ssIntegrate_iff.mpr ⟨_, hok, rfl⟩, hroff _ _ rfl _ rfl⟩

/-- non-vacuity (the example of section 1) -/
example : ∃ h0 : 0 < Ex.lps.length, Ex.c.half = 1 / 2 ∧ Ex.lps[0].off < Ex.s.r.offset ∧
    (0 : ℚ) ≤ 10 ∧ (0 : ℚ) ≤ 12 ∧ 0 ≤ Ex.s.k.dt :=
  ⟨by decide, by decide +kernel, by decide +kernel, by norm_num, by norm_num, by decide +kernel⟩

/-- **A whole accepted `ssStep` never moves the front backwards** when the time stamps do not decrease
    (both samples are `≥ 0` by the two `ensure!`s of the repaired `solve_step`). -/
def C12_ssStep_forward_statement : Prop :=
  ∀ (α : Type) [Field α] [LinearOrder α] [IsStrictOrderedRing α]
    (kc : Consts α) (c : TrConsts α) (g rho : α) (t : Tpc α) (res res' : ResStrap α)
    (con con' : Consist α) (s s' : TrainState α) (vPrev vCur tPrev tCur : α),
    c.half = 1 / 2 →      -- forced: the literal 0.5
    -- forced: the time trace is not validated to be increasing (only `FuelConverter::
    -- set_cur_pwr_out_max` insists on `dt > 0`, so a consist with a diesel unit checks it indirectly)
    tPrev ≤ tCur →
    ssStep kc c g rho t res con s vPrev vCur tPrev tCur = .ok (con', res', s') →
      s.r.offset ≤ s'.r.offset ∧ s'.k.totalDist = s.k.totalDist + (s'.r.offset - s.r.offset)

theorem C12_ssStep_forward : C12_ssStep_forward_statement := by
  intro α _ _ _ kc c g rho t res res' con con' s s' vPrev vCur tPrev tCur hhalf ht h
  obtain ⟨hc, hp, _⟩ := ssStep_inv h
  obtain ⟨_, _, _, _, h5, _, _, h8⟩ :=
    C12_ssStep α kc c g rho t res res' con con' s s' vPrev vCur tPrev tCur hhalf h
  have hΔ : 0 ≤ s'.r.offset - s.r.offset := by
    rw [h5]; exact mul_nonneg (sub_nonneg.mpr ht) (div_nonneg (add_nonneg hp hc) (by norm_num))
  exact ⟨by linarith, by rw [h8, abs_of_nonneg hΔ]⟩

example : ExW.c.half = 1 / 2 ∧ (0 : ℚ) ≤ 1 ∧
    ∃ con' res' s', ssStep ExW.kc ExW.c ExW.g ExW.rho ExW.tpc ExW.strap ExW.con ExW.s 1 2 0 1
      = .ok (con', res', s') :=
  ⟨by decide +kernel, by norm_num, ExW.step_ok'⟩

/-- the located front after the position update of the two simulations -/
def C12_step_located_statement : Prop :=
  ∀ (α : Type) [Field α] [LinearOrder α] [IsStrictOrderedRing α]
    (c : TrConsts α) (lps : List (LinkPt α)) (s s' : TrainState α),
    -- forced: the new front is not beyond the path end
    (∃ p ∈ lps, s'.r.offset ≤ p.off) →
    ((∃ vPrev vCur tCur, ssIntegrate c lps s vPrev vCur tCur = .ok s') ∨
      (∃ sqrt fmc cs fb fb' bp bp' s₁, slRequiredPwr c sqrt fmc cs fb bp s = .ok (fb', bp', s₁) ∧
        setLinkAndOffset lps s₁ = .ok s')) →
    ∃ i, Identifies lps s'.r.offset s'.k.linkIdxFront s'.k.offsetInLink i

theorem C12_step_located : C12_step_located_statement := by
  intro α _ _ _ c lps s s' hex h
  rcases h with ⟨vPrev, vCur, tCur, h⟩ | ⟨sqrt, fmc, cs, fb, fb', bp, bp', s₁, _, h⟩
  · have I := ssIntegrate_inv h
    obtain ⟨s₂, h2, e1, e2⟩ := I.loc
    have hoff : (ssMoved c s vPrev vCur tCur).r.offset = s'.r.offset := I.offset.symm
    obtain ⟨hid, _⟩ := C12_locate_ok α lps _ s₂ h2 (by rw [hoff]; exact hex)
    rw [hoff, ← e1, ← e2] at hid
    exact hid
  · have hr : s'.r = s₁.r := by
      obtain ⟨lp, _, rfl⟩ := setLinkAndOffset_inv h; rfl
    rw [hr] at hex ⊢
    exact (C12_locate_ok α lps s₁ s' h hex).1

/-- non-vacuity: a 4 s step at mean 11 m/s from 390 m (link 3) crosses TWO boundaries (400 m and
    404 m: the 4 m link 5 is skipped entirely) and lands in link 8 at 434 m, in-segment offset 30 m -/
example : okVal ((ssIntegrate Ex.c Ex.lps
      { Ex.s with r := { Ex.r with offset := 390 }, k := { Ex.k with dt := 4 } } 10 12 11).bind fun s' =>
      pure (s'.r.offset, s'.k.linkIdxFront, s'.k.offsetInLink, s'.k.totalDist))
      = some (434, 8, 30, 144) := by
  decide +kernel

/-! ## 4. Whole runs -/

section Runs
variable {α : Type} [Field α] [LinearOrder α] [IsStrictOrderedRing α]

/-- position increments prescribed by a trace: `dt_j · (v_{j-1} + v_j)/2`; samples are `(time, speed)` -/
def trapz : α × α → List (α × α) → List α
  | _, [] => []
  | p, q :: tr => (q.1 - p.1) * ((p.2 + q.2) / 2) :: trapz q tr

/-- a set-speed run: `s` is the state carrying sample `p`; the remaining samples `tr` are consumed by
    accepted kinematic steps (arbitrary accepted consist / resistance sub-results) ending in `s'` -/
inductive SsRun (c : TrConsts α) (lps : List (LinkPt α)) :
    TrainState α → α × α → List (α × α) → TrainState α → Prop
  | nil (s : TrainState α) (p : α × α) : SsRun c lps s p [] s
  | cons {s s₁ s' : TrainState α} {p q : α × α} {tr : List (α × α)} :
      SsKinStep c lps s s₁ p.2 q.2 p.1 q.1 → SsRun c lps s₁ q tr s' → SsRun c lps s p (q :: tr) s'

/-- a speed-limited run, recording the position increments of its steps -/
inductive SlRun (c : TrConsts α) (lps : List (LinkPt α)) :
    TrainState α → List α → TrainState α → Prop
  | nil (s : TrainState α) : SlRun c lps s [] s
  | cons {s s₁ s₂ s' : TrainState α} {ds : List α} {sqrt : α → α} {fmc : α} {cs : ConsistState α}
      {fb fb' : FricBrake α} {bp bp' : BrakingPoints α} {r₁ : Rs.ResState α} :
      r₁.offset = s.r.offset → r₁.length = s.r.length →
      slRequiredPwr c sqrt fmc cs fb bp { s with r := r₁ } = .ok (fb', bp', s₁) →
      setLinkAndOffset lps s₁ = .ok s₂ →
      SlRun c lps s₂ ds s' → SlRun c lps s ((s₂.r.offset - s.r.offset) :: ds) s'

theorem ssWalk_run {kc : Consts α} {c : TrConsts α} {g rho : α} {t : Tpc α} :
    ∀ (tr : List (α × α)) (p : α × α) (res res' : ResStrap α) (con con' : Consist α)
      (s s' : TrainState α),
      ssWalk kc c g rho t (res, con, s) p tr = .ok (res', con', s') → SsRun c t.linkPoints s p tr s'
  | [], p, res, res', con, con', s, s', h => by
    simp only [ssWalk, Res.ok.injEq, Prod.mk.injEq] at h
    obtain ⟨_, _, rfl⟩ := h
    exact .nil _ _
  | q :: tr, p, res, res', con, con', s, s', h => by
    simp only [ssWalk] at h
    cases hs : ssStep kc c g rho t res con s p.2 q.2 p.1 q.1 with
    | ok x =>
      obtain ⟨con₁, res₁, s₁⟩ := x
      rw [hs] at h
      exact .cons (ssStep_kin hs) (ssWalk_run tr q res₁ res' con₁ con' s₁ s' h)
    | err e => rw [hs] at h; cases h
    | panic e => rw [hs] at h; cases h

/-- one accepted `slStep` prepends one step to a speed-limited run -/
theorem SlRun.of_slStep {kc : Consts α} {c : TrConsts α} {sqrt : α → α} {g rho : α} {t : Tpc α}
    {res res' : ResStrap α} {con con' : Consist α} {ufm : List α} {fb fb' : FricBrake α}
    {bp bp' : BrakingPoints α} {s s₂ s' : TrainState α} {ds : List α}
    (h : slStep kc c sqrt g rho t res con ufm fb bp s = .ok (con', res', fb', bp', s₂))
    (hrun : SlRun c t.linkPoints s₂ ds s') :
    SlRun c t.linkPoints s ((s₂.r.offset - s.r.offset) :: ds) s' := by
  obtain ⟨con₁, r₁, s₁, _, h2, h3, _, h5⟩ := slStep_inv h
  obtain ⟨f1, f2, _⟩ := updateRes_frame h2
  exact .cons f1 f2 h3 h5 hrun

end Runs

/-- **Set-speed runs.**  After any accepted sequence of steps: position = start + Σ trapezoids of the
    trace, total distance = start + Σ |trapezoids| (= Σ |Δoffset_j|), the rear is the front minus the
    (constant) length, and time and speed are the last consumed trace sample. -/
def C12_ss_run_statement : Prop :=
  ∀ (α : Type) [Field α] [LinearOrder α] [IsStrictOrderedRing α]
    (c : TrConsts α) (lps : List (LinkPt α)) (s s' : TrainState α) (p : α × α) (tr : List (α × α)),
    c.half = 1 / 2 →      -- forced: the literal 0.5
    SsRun c lps s p tr s' →
      s'.r.offset = s.r.offset + (trapz p tr).sum ∧
      s'.k.totalDist = s.k.totalDist + ((trapz p tr).map (fun d => |d|)).sum ∧
      s'.r.length = s.r.length ∧
      (∀ q, tr.getLast? = some q →
        s'.k.time = q.1 ∧ s'.r.speed = q.2 ∧ s'.r.offsetBack = s'.r.offset - s'.r.length)

theorem C12_ss_run : C12_ss_run_statement := by
  intro α _ _ _ c lps s s' p tr hhalf h
  induction h with
  | nil s p => simp [trapz]
  | @cons s s₁ s' p q tr hstep hrun ih =>
    obtain ⟨h1, h2, _, h4, h5, h6, h7, h8⟩ :=
      C12_ss_step α c lps s s₁ p.2 q.2 p.1 q.1 hhalf hstep
    obtain ⟨i1, i2, i3, i4⟩ := ih
    have hΔ : s₁.r.offset - s.r.offset = (q.1 - p.1) * ((p.2 + q.2) / 2) := by rw [h5, h2]
    refine ⟨?_, ?_, by rw [i3, h6], ?_⟩
    · rw [i1, trapz, List.sum_cons, ← hΔ]; ring
    · rw [i2, trapz, List.map_cons, List.sum_cons, ← hΔ, h8]; ring
    · intro q' hq'
      cases tr with
      | nil =>
        cases hrun
        simp only [List.getLast?_singleton, Option.some.injEq] at hq'
        subst hq'
        exact ⟨h1, h4, h7⟩
      | cons q₂ tr₂ =>
        rw [List.getLast?_cons_cons] at hq'
        exact i4 q' hq'

/-- non-vacuity: a one-step run from the example state -/
example : ∃ s', SsRun Ex.c Ex.lps Ex.s (5, 10) [(9, 12)] s' ∧ Ex.c.half = 1 / 2 ∧
    trapz ((5 : ℚ), (10 : ℚ)) [(9, 12)] = [44] := by
  obtain ⟨s', hk, _⟩ := Ex.kinStep
  refine ⟨s', .cons hk (.nil _ _), by decide +kernel, ?_⟩
  simp only [trapz]; norm_num

/-- the same for the fold of whole `ssStep`s (`SetSpeedTrainSim::walk`) -/
theorem C12_ss_walk {α : Type} [Field α] [LinearOrder α] [IsStrictOrderedRing α]
    (kc : Consts α) (c : TrConsts α) (g rho : α) (t : Tpc α) (res res' : ResStrap α)
    (con con' : Consist α) (s s' : TrainState α) (p : α × α) (tr : List (α × α))
    (hhalf : c.half = 1 / 2)
    (h : ssWalk kc c g rho t (res, con, s) p tr = .ok (res', con', s')) :
    s'.r.offset = s.r.offset + (trapz p tr).sum ∧
    s'.k.totalDist = s.k.totalDist + ((trapz p tr).map (fun d => |d|)).sum ∧
    s'.r.length = s.r.length ∧
    (∀ q, tr.getLast? = some q →
      s'.k.time = q.1 ∧ s'.r.speed = q.2 ∧ s'.r.offsetBack = s'.r.offset - s'.r.length) :=
  C12_ss_run α c t.linkPoints s s' p tr hhalf (ssWalk_run tr p res res' con con' s s' h)

/-- non-vacuity: a three-step walk 1 → 2 → 2 → 1 m/s at times 0, 1, 3, 4 (non-uniform steps) is
    accepted: the front moves 1.5 + 4 + 1.5 = 7 m, and the consist's energy ledger agrees (7 J) -/
example : ExW.c.half = 1 / 2 ∧
    okVal ((ssWalk ExW.kc ExW.c ExW.g ExW.rho ExW.tpc (ExW.strap, ExW.con, ExW.s) (0, 1)
        [(1, 2), (3, 2), (4, 1)]).bind fun x =>
      pure [x.2.2.k.time, x.2.2.r.speed, x.2.2.r.offset, x.2.2.r.offsetBack, x.2.2.k.totalDist,
            x.2.2.k.offsetInLink, x.2.2.k.energyWhlOut, x.2.1.state.energyOut])
      = some [4, 1, 507, 307, 7, 507, 7, 7] ∧
    trapz ((0 : ℚ), (1 : ℚ)) [(1, 2), (3, 2), (4, 1)] = [3/2, 4, 3/2] := by
  refine ⟨by decide +kernel, by decide +kernel, ?_⟩
  simp only [trapz]; norm_num

/-- **Speed-limited runs.**  After `n` accepted steps: time = start + n · dt (the step size never
    changes), position = start + Σ Δoffset_j, total distance = start + Σ |Δoffset_j|, rear = front − length. -/
def C12_sl_run_statement : Prop :=
  ∀ (α : Type) [Field α] [LinearOrder α] [IsStrictOrderedRing α]
    (c : TrConsts α) (lps : List (LinkPt α)) (s s' : TrainState α) (ds : List α),
    SlRun c lps s ds s' →
      s'.k.dt = s.k.dt ∧
      s'.k.time = s.k.time + ds.length * s.k.dt ∧
      s'.r.offset = s.r.offset + ds.sum ∧
      s'.k.totalDist = s.k.totalDist + (ds.map (fun d => |d|)).sum ∧
      s'.r.length = s.r.length ∧
      (ds ≠ [] → s'.r.offsetBack = s'.r.offset - s'.r.length)

theorem C12_sl_run : C12_sl_run_statement := by
  intro α _ _ _ c lps s s' ds h
  induction h with
  | nil s => simp
  | @cons s s₁ s₂ s' ds sqrt fmc cs fb fb' bp bp' r₁ f1 f2 hp hl hrun ih =>
    obtain ⟨_, K⟩ := slRequiredPwr_inv hp
    obtain ⟨lp, _, rfl⟩ := setLinkAndOffset_inv hl
    obtain ⟨i1, i2, i3, i4, i5, i6⟩ := ih
    have e1 : (located s₁ lp).r = s₁.r := rfl
    have e2 : (located s₁ lp).k.dt = s₁.k.dt := rfl
    have e3 : (located s₁ lp).k.time = s₁.k.time := rfl
    have e4 : (located s₁ lp).k.totalDist = s₁.k.totalDist := rfl
    have kdt : s₁.k.dt = s.k.dt := K.dt
    have ktime : s₁.k.time = s.k.time + s.k.dt := K.time
    have klen : s₁.r.length = s.r.length := K.length.trans f2
    have kdist : s₁.k.totalDist = s.k.totalDist + |s₁.r.offset - s.r.offset| := by
      have h1 := K.offset
      have h2 := K.totalDist
      change s₁.r.offset = r₁.offset + _ at h1
      rw [f1] at h1
      rw [h2, h1, add_sub_cancel_left]
    rw [e1] at i3 i5 ⊢
    rw [e2] at i1 i2
    rw [e3] at i2
    rw [e4] at i4
    refine ⟨i1.trans kdt, ?_, ?_, ?_, i5.trans klen, fun _ => ?_⟩
    · rw [i2, ktime, kdt, List.length_cons]; push_cast; ring
    · rw [i3, List.sum_cons]; ring
    · rw [i4, kdist, List.map_cons, List.sum_cons]; ring
    · cases ds with
      | nil =>
        cases hrun
        show s₁.r.offsetBack = s₁.r.offset - s₁.r.length
        rw [K.offsetBack, K.length]
      | cons d ds' => exact i6 (by simp)

/-- non-vacuity: the snap example as a one-step speed-limited run -/
example : ∃ s' d, SlRun Ex.c [⟨0, 1, 1, 0, 3⟩, ⟨1000, 0, 0, 0, 0⟩] Ex.s2 [d] s' := by
  cases hr : slRequiredPwr Ex.c Ex.sqrt2 Ex.fmc2 Ex.cs2 Ex.fb2 Ex.bp2 Ex.s2 with
  | ok x =>
    obtain ⟨fb', bp', s₁⟩ := x
    have hs := Ex.snapStep
    rw [hr] at hs
    simp only [Res.bind, pure, okVal, Option.some.injEq, Prod.mk.injEq] at hs
    obtain ⟨_, ho, _, _⟩ := hs
    obtain ⟨s₂, hloc⟩ : ∃ s₂, setLinkAndOffset [⟨0, 1, 1, 0, 3⟩, ⟨1000, 0, 0, 0, 0⟩] s₁ = .ok s₂ := by
      refine ⟨_, setLinkAndOffset_of_first_ge (n := 0) (by decide) ?_ ?_⟩
      · rw [ho]; norm_num
      · intro m hm
        have : m = 0 := by omega
        subst this; rw [ho]; norm_num
    exact ⟨_, _, .cons (r₁ := Ex.r2) rfl rfl hr hloc (.nil _)⟩
  | err e => have hs := Ex.snapStep; rw [hr] at hs; simp [Res.bind, okVal] at hs
  | panic e => have hs := Ex.snapStep; rw [hr] at hs; simp [Res.bind, okVal] at hs

end Altrios.Proofs.C12
