import Altrios.SpeedPoints
import Proofs.Lemmas.SP
import Mathlib.Algebra.Order.Field.Basic
import Mathlib.Tactic.Linarith
import Mathlib.Tactic.Ring
/-
  C13 — the enforced speed-limit profile is *exactly* the tightest posted restriction and the
  stored profile is canonical.   (C02, the `≤` half, is derived from this in `Proofs/C02.lean`.)

  Theorems are about the structural `insertSpeed` (DESIGN.md §2.1); the literal transcription
  `insertSpeedIdx` and the real `insert_speed` are tied to it by the three-way correspondence.
-/
namespace Altrios.Proofs.C13
open Altrios Altrios.SP

variable {α : Type} [Field α] [LinearOrder α] [IsStrictOrderedRing α]

/-- offsets non-decreasing -/
def Sorted (pts : List (Pt α)) : Prop := pts.Pairwise (fun a b => a.off ≤ b.off)

/-- no two neighbouring points carry the same speed -/
def NoDup (pts : List (Pt α)) : Prop := pts.IsChain (fun a b => a.spd ≠ b.spd)

/-- canonical stored profile: sorted, no redundant equal-valued neighbours -/
def Canonical (pts : List (Pt α)) : Prop := Sorted pts ∧ NoDup pts

/-- The contract of `insert_speed` (its `debug_assert!`s): non-empty sorted points, a
    well-formed restriction that does not start before the first point. -/
structure Pre (pts : List (Pt α)) (l : Lim α) : Prop where
  sorted : Sorted pts
  le : l.s ≤ l.e
  head : ∃ p ps, pts = p :: ps ∧ p.off ≤ l.s

/-- **C13 (one insertion), exactness.**  After inserting a restriction the profile is the old
    profile, lowered to the sign-aware minimum exactly on `[start, end)`. -/
def C13_insert_exact_statement : Prop :=
  ∀ (pts : List (Pt α)) (l : Lim α), Pre pts l → ∀ x : α,
    val (insertSpeed pts l) x =
      if l.s ≤ x ∧ x < l.e then minSpeed (val pts x) l.v else val pts x

/-- **C13 (one insertion), canonicity.** -/
def C13_insert_canonical_statement : Prop :=
  ∀ (pts : List (Pt α)) (l : Lim α), Pre pts l → Canonical pts → Canonical (insertSpeed pts l)

/-- the contract is re-established for the next restriction (same first offset) -/
def C13_insert_pre_statement : Prop :=
  ∀ (pts : List (Pt α)) (l l' : Lim α), Pre pts l → l'.s ≤ l'.e →
    (∀ p ps, pts = p :: ps → p.off ≤ l'.s) → Pre (insertSpeed pts l) l'

theorem C13_insert_exact : C13_insert_exact_statement (α := α) := by
  intro pts l h x
  exact SPL.insertSpeed_exact pts l h.sorted h.le h.head x

theorem C13_insert_canonical : C13_insert_canonical_statement (α := α) := by
  intro pts l h hc
  exact ⟨SPL.insertSpeed_sorted pts l h.sorted h.le h.head,
    SPL.insertSpeed_chain pts l h.sorted h.le h.head hc.2⟩

/-- the first offset never moves -/
theorem insert_head_off (pts : List (Pt α)) (l : Lim α) (h : Pre pts l) (p : Pt α)
    (ps : List (Pt α)) (hp : pts = p :: ps) :
    ∃ p' ps', insertSpeed pts l = p' :: ps' ∧ p'.off = p.off :=
  SPL.insertSpeed_head pts l h.sorted h.le h.head p ps hp

theorem C13_insert_pre : C13_insert_pre_statement (α := α) := by
  intro pts l l' h hle' hh
  refine ⟨SPL.insertSpeed_sorted pts l h.sorted h.le h.head, hle', ?_⟩
  obtain ⟨p, ps, hp, _⟩ := h.head
  obtain ⟨p', ps', e, ho⟩ := insert_head_off pts l h p ps hp
  exact ⟨p', ps', e, ho ▸ hh p ps hp⟩

/-! ### Any sequence of restrictions, starting from the train's own maximum speed -/

/-- what the profile must be: fold of sign-aware minima over the covering restrictions -/
def tightest (vmax : α) (lims : List (Lim α)) (x : α) : α :=
  lims.foldl (fun acc l => if l.s ≤ x ∧ x < l.e then minSpeed acc l.v else acc) vmax

/-- `PathTpc::new` + any number of `insert_speed` calls -/
def profile (vmax : α) (lims : List (Lim α)) : List (Pt α) :=
  lims.foldl insertSpeed [⟨0, vmax⟩]

/-- invariant of the fold: sorted, first offset 0, no equal neighbours, value = fold of minima -/
theorem fold_inv (lims : List (Lim α)) (pts : List (Pt α))
    (hl : ∀ l ∈ lims, 0 ≤ l.s ∧ l.s ≤ l.e) (hs : Sorted pts)
    (hh : ∃ p ps, pts = p :: ps ∧ p.off = 0) :
    Sorted (lims.foldl insertSpeed pts) ∧
    (∃ p ps, lims.foldl insertSpeed pts = p :: ps ∧ p.off = 0) ∧
    (NoDup pts → NoDup (lims.foldl insertSpeed pts)) ∧
    ∀ x, val (lims.foldl insertSpeed pts) x =
      lims.foldl (fun acc l => if l.s ≤ x ∧ x < l.e then minSpeed acc l.v else acc) (val pts x) := by
  induction lims generalizing pts with
  | nil => exact ⟨hs, hh, id, fun _ => rfl⟩
  | cons l ls ih =>
    have hl0 := hl l (by simp)
    have hpre : Pre pts l := by
      obtain ⟨p, ps, hp, h0⟩ := hh
      exact ⟨hs, hl0.2, p, ps, hp, h0 ▸ hl0.1⟩
    have hs' : Sorted (insertSpeed pts l) := (C13_insert_pre pts l l hpre hl0.2 (by
      intro p ps hp
      obtain ⟨p', ps', hp', h0⟩ := hh
      rw [hp] at hp'; cases hp'; exact h0 ▸ hl0.1)).sorted
    have hh' : ∃ p ps, insertSpeed pts l = p :: ps ∧ p.off = 0 := by
      obtain ⟨p, ps, hp, h0⟩ := hh
      obtain ⟨p', ps', e, ho⟩ := insert_head_off pts l hpre p ps hp
      exact ⟨p', ps', e, ho.trans h0⟩
    obtain ⟨i1, i2, i3, i4⟩ := ih (insertSpeed pts l) (fun l' hl' => hl l' (by simp [hl'])) hs' hh'
    simp only [List.foldl_cons]
    refine ⟨i1, i2, fun hn => i3 (C13_insert_canonical pts l hpre ⟨hs, hn⟩).2, fun x => ?_⟩
    rw [i4 x, C13_insert_exact pts l hpre x]

/-- **C13 (any sequence).**  For every list of well-formed restrictions (`0 ≤ start ≤ end`)
    and every position `x ≥ 0`, the stored profile evaluates to the minimum of the train's
    maximum speed and all restrictions covering `x`, and it is canonical. -/
theorem C13_profile_exact (vmax : α) (lims : List (Lim α))
    (hl : ∀ l ∈ lims, 0 ≤ l.s ∧ l.s ≤ l.e) (x : α) (hx : 0 ≤ x) :
    val (profile vmax lims) x = tightest vmax lims x := by
  have hbase : val [(⟨0, vmax⟩ : Pt α)] x = vmax := by
    unfold val; rw [SPL.valAt_cons, SPL.valAt_nil]; exact if_pos hx
  unfold profile tightest
  rw [(fold_inv lims [⟨0, vmax⟩] hl (List.pairwise_singleton _ _) ⟨_, _, rfl, rfl⟩).2.2.2 x, hbase]

theorem C13_profile_canonical (vmax : α) (lims : List (Lim α))
    (hl : ∀ l ∈ lims, 0 ≤ l.s ∧ l.s ≤ l.e) :
    Canonical (profile vmax lims) := by
  have h := fold_inv lims [(⟨0, vmax⟩ : Pt α)] hl (List.pairwise_singleton _ _) ⟨_, _, rfl, rfl⟩
  exact ⟨h.1, h.2.2.1 (List.isChain_singleton _)⟩

/-- the stored profile always starts at offset 0 (so `Pre` holds for the next restriction) -/
theorem profile_pre (vmax : α) (lims : List (Lim α))
    (hl : ∀ l ∈ lims, 0 ≤ l.s ∧ l.s ≤ l.e) (l : Lim α) (h0 : 0 ≤ l.s) (hle : l.s ≤ l.e) :
    Pre (profile vmax lims) l := by
  have h := fold_inv lims [(⟨0, vmax⟩ : Pt α)] hl (List.pairwise_singleton _ _) ⟨_, _, rfl, rfl⟩
  obtain ⟨p, ps, hp, h0'⟩ := h.2.1
  exact ⟨h.1, hle, p, ps, hp, h0' ▸ h0⟩

/-- with non-negative speeds the sign-aware minimum is the ordinary minimum -/
theorem minSpeed_nonneg (a b : α) (ha : 0 ≤ a) (hb : 0 ≤ b) : minSpeed a b = min a b := by
  rw [SPL.minSpeed_eq, if_pos ⟨ha, hb⟩]

end Altrios.Proofs.C13
