import Proofs.C13
import Proofs.C02
import Proofs.Lemmas.SPLit
import Mathlib.Algebra.Order.Ring.Rat
import Mathlib.Algebra.Field.Rat
import Mathlib.Tactic.NormNum
/-
  C13 / C02 for the LITERAL transcription `insertSpeedIdx` of `insert_speed`
  (`track/path_track/speed_point.rs`): indices, checked accesses (`panic` outcomes), loops with fuel.

  `Proofs/C13.lean` and `Proofs/C02.lean` are about the structural `insertSpeed`.  Here the two
  definitions are tied by proof instead of by differential testing only:

    * `C13_literal_eq_statement` (equality under the Bool contract `pre` alone) is FALSE:
      `C13_literal_eq_counterexample`.  The exact condition is `GapOK` (`C13_literal_eq_iff`);
      it holds for every canonical list (`insertSpeedIdx_eq`), in particular for every list
      `insert_speed` itself builds from `[⟨0, vmax⟩]`.
    * under `pre` alone the literal function never panics (`C13_insert_total_literal`) and its
      result has the right PROFILE (`C13_insert_exact_literal`, `C02_insert_sound_literal`,
      `C02_insert_mono_literal`) — the discrepancy is one redundant stored point.
    * canonicity: `C13_insert_canonical_literal`.
    * sequences: `profileIdx`, `C13_profile_literal` (restrictions of positive length),
      `profileIdx_eq_of_pre` (any restrictions, contract assumed at every step),
      `C13_profile_literal_counterexample` (two stacked zero-length restrictions).
    * route level: `routeIdx`, `C02_route_literal`.
-/
namespace Altrios.Proofs.C13Lit
open Altrios Altrios.SP Altrios.Proofs.C13 Altrios.Proofs.SPLit

variable {α : Type} [Field α] [LinearOrder α] [IsStrictOrderedRing α]

deriving instance DecidableEq for Altrios.Res

/-- the Bool contract gives the `Prop` contract of `Proofs/C13.lean` -/
theorem pre_Pre (pts : List (Pt α)) (l : Lim α) (h : pre pts l = true) : Pre pts l := by
  obtain ⟨hs, hle, hhead⟩ := pre_unpack pts l h
  exact ⟨hs, hle, hhead⟩

/-! ### the literal function equals the structural one -/

/-- **Equality under the Bool contract alone** — FALSE, see `C13_literal_eq_counterexample`. -/
def C13_literal_eq_statement : Prop :=
  ∀ (pts : List (Pt α)) (l : Lim α), pre pts l = true →
    insertSpeedIdx pts l = .ok (insertSpeed pts l)

/-- A non-binding restriction strictly inside the gap between two neighbours with the SAME speed
    (a non-canonical but valid list): `idx_start = 1 > idx_end = 0`, the `while` loop is skipped
    and the final `self[idx_start - 1].speed_limit == self[idx_start].speed_limit` test removes
    the point at offset 10 — a point outside `[2, 3]`.  The structural definition keeps it. -/
theorem C13_literal_eq_counterexample :
    pre [(⟨0, 5⟩ : Pt ℚ), ⟨10, 5⟩] ⟨2, 3, 7⟩ = true ∧
    insertSpeedIdx [(⟨0, 5⟩ : Pt ℚ), ⟨10, 5⟩] ⟨2, 3, 7⟩ = .ok [⟨0, 5⟩] ∧
    insertSpeed [(⟨0, 5⟩ : Pt ℚ), ⟨10, 5⟩] ⟨2, 3, 7⟩ = [⟨0, 5⟩, ⟨10, 5⟩] := by
  decide +kernel

theorem C13_literal_eq_false : ¬ C13_literal_eq_statement (α := ℚ) := by
  intro h
  have := h [(⟨0, 5⟩ : Pt ℚ), ⟨10, 5⟩] ⟨2, 3, 7⟩ C13_literal_eq_counterexample.1
  rw [C13_literal_eq_counterexample.2.1, C13_literal_eq_counterexample.2.2] at this
  exact absurd this (by decide +kernel)

/-- **Equality, strongest true variant.**  `GapOK pts l`: there are no two neighbours `a, c` with
    `a.off < start`, `end < c.off`, `min_speed(a.speed, v) = a.speed` and `a.speed = c.speed`.
    Under the contract: no index out of range, no fuel exhaustion, no underflow, same list. -/
def C13_literal_eq_partial_statement : Prop :=
  ∀ (pts : List (Pt α)) (l : Lim α), pre pts l = true →
    GapOK pts l →   -- FORCED (and exact): `C13_literal_eq_iff`
    insertSpeedIdx pts l = .ok (insertSpeed pts l)

theorem C13_literal_eq_partial : C13_literal_eq_partial_statement (α := α) :=
  fun pts l h hg => insertSpeedIdx_eq_of_gap pts l h hg

/-- the extra hypothesis is exactly what is needed -/
theorem C13_literal_eq_iff (pts : List (Pt α)) (l : Lim α) (h : pre pts l = true) :
    insertSpeedIdx pts l = .ok (insertSpeed pts l) ↔ GapOK pts l :=
  insertSpeedIdx_eq_iff pts l h

/-- **The tie, for canonical lists** (no two neighbours with the same speed — every list that
    `insert_speed` builds from `[⟨0, vmax⟩]`, see `C13_profile_canonical`). -/
theorem insertSpeedIdx_eq (pts : List (Pt α)) (l : Lim α) (h : pre pts l = true)
    (hc : NoDup pts) :   -- implies `GapOK`, which is FORCED
    insertSpeedIdx pts l = .ok (insertSpeed pts l) :=
  insertSpeedIdx_eq_of_gap pts l h (gapOK_of_chain pts l hc)

example : insertSpeedIdx [(⟨0, 25⟩ : Pt ℚ), ⟨1000, 20⟩, ⟨5000, 25⟩] ⟨2000, 3000, 10⟩ =
    .ok (insertSpeed [(⟨0, 25⟩ : Pt ℚ), ⟨1000, 20⟩, ⟨5000, 25⟩] ⟨2000, 3000, 10⟩) :=
  insertSpeedIdx_eq _ _ (by decide +kernel) (by unfold NoDup; decide +kernel)

example : insertSpeedIdx [(⟨0, 25⟩ : Pt ℚ), ⟨1000, 20⟩, ⟨5000, 25⟩] ⟨2000, 3000, 10⟩ =
    .ok [⟨0, 25⟩, ⟨1000, 20⟩, ⟨2000, 10⟩, ⟨3000, 20⟩, ⟨5000, 25⟩] := by decide +kernel

-- `GapOK` is decidable through `gapBad`; a NON-canonical list on which the tie still holds
example : insertSpeedIdx [(⟨0, 5⟩ : Pt ℚ), ⟨10, 5⟩] ⟨2, 3, 4⟩ =
    .ok (insertSpeed [(⟨0, 5⟩ : Pt ℚ), ⟨10, 5⟩] ⟨2, 3, 4⟩) :=
  C13_literal_eq_partial _ _ (by decide +kernel) ((gapOK_iff _ _).mpr (by decide +kernel))

example : ¬ GapOK [(⟨0, 5⟩ : Pt ℚ), ⟨10, 5⟩] ⟨2, 3, 7⟩ := by
  rw [gapOK_iff]; decide +kernel

/-! ### one insertion: what the literal function returns -/

/-- what the literal function returns when `GapOK` fails, and why the profile is unaffected -/
theorem literal_result (pts : List (Pt α)) (l : Lim α) (h : pre pts l = true) :
    ∃ r, insertSpeedIdx pts l = .ok r ∧ (∀ x, val r x = val (insertSpeed pts l) x) ∧
      r.Sublist (insertSpeed pts l) := by
  by_cases hg : GapOK pts l
  · exact ⟨_, insertSpeedIdx_eq_of_gap pts l h hg, fun _ => rfl, List.Sublist.refl _⟩
  · unfold GapOK at hg
    push Not at hg
    obtain ⟨X, Y, a, c, hpts, ha, hc, hm, hac⟩ := hg
    obtain ⟨h1, h2⟩ := insertSpeedIdx_ne_of_not_gap pts l h X Y a c hpts ha hc hm hac
    obtain ⟨_, hle, _⟩ := pre_unpack pts l h
    refine ⟨_, h1, fun x => ?_, ?_⟩
    · rw [h2, hpts]
      exact val_remove_dup X Y a c (le_of_lt (lt_trans ha (lt_of_le_of_lt hle hc))) hac x
    · rw [h2, hpts]
      exact (List.Sublist.refl X).append ((List.sublist_cons_self c Y).cons_cons a)

/-- **No panic, no error** under the Bool contract (which is what the `debug_assert!`s check). -/
def C13_insert_total_literal_statement : Prop :=
  ∀ (pts : List (Pt α)) (l : Lim α), pre pts l = true → ∃ r, insertSpeedIdx pts l = .ok r

theorem C13_insert_total_literal : C13_insert_total_literal_statement (α := α) := by
  intro pts l h
  obtain ⟨r, hr, _⟩ := literal_result pts l h
  exact ⟨r, hr⟩

/-- **C13 (one insertion, literal), exactness** — needs the Bool contract only. -/
def C13_insert_exact_literal_statement : Prop :=
  ∀ (pts : List (Pt α)) (l : Lim α) (r : List (Pt α)), pre pts l = true →
    insertSpeedIdx pts l = .ok r → ∀ x : α,
    val r x = if l.s ≤ x ∧ x < l.e then minSpeed (val pts x) l.v else val pts x

theorem C13_insert_exact_literal : C13_insert_exact_literal_statement (α := α) := by
  intro pts l r h hr x
  obtain ⟨r', hr', hv, _⟩ := literal_result pts l h
  rw [hr] at hr'
  cases hr'
  rw [hv x]
  exact C13_insert_exact pts l (pre_Pre pts l h) x

/-- **C13 (one insertion, literal), canonicity.** -/
def C13_insert_canonical_literal_statement : Prop :=
  ∀ (pts : List (Pt α)) (l : Lim α) (r : List (Pt α)), pre pts l = true → Canonical pts →
    insertSpeedIdx pts l = .ok r → Canonical r

theorem C13_insert_canonical_literal : C13_insert_canonical_literal_statement (α := α) := by
  intro pts l r h hc hr
  rw [insertSpeedIdx_eq pts l h hc.2] at hr
  cases hr
  exact C13_insert_canonical pts l (pre_Pre pts l h) hc

/-- sortedness alone is preserved for any valid input -/
theorem insert_sorted_literal (pts : List (Pt α)) (l : Lim α) (r : List (Pt α))
    (h : pre pts l = true) (hr : insertSpeedIdx pts l = .ok r) : Sorted r := by
  obtain ⟨r', hr', _, hsub⟩ := literal_result pts l h
  rw [hr] at hr'
  cases hr'
  have hP := pre_Pre pts l h
  exact (SPL.insertSpeed_sorted pts l hP.sorted hP.le hP.head).sublist hsub

/-- **C02 (one insertion, literal), soundness.** -/
def C02_insert_sound_literal_statement : Prop :=
  ∀ (pts : List (Pt α)) (l : Lim α) (r : List (Pt α)), pre pts l = true →
    insertSpeedIdx pts l = .ok r → ∀ x : α, l.s ≤ x ∧ x < l.e → absv (val r x) ≤ absv l.v

theorem C02_insert_sound_literal : C02_insert_sound_literal_statement (α := α) := by
  intro pts l r h hr x hx
  rw [C13_insert_exact_literal pts l r h hr x, if_pos hx]
  exact C02.absv_minSpeed_le_right _ _

/-- **C02 (one insertion, literal), monotonicity.** -/
def C02_insert_mono_literal_statement : Prop :=
  ∀ (pts : List (Pt α)) (l : Lim α) (r : List (Pt α)), pre pts l = true →
    insertSpeedIdx pts l = .ok r → ∀ x : α, absv (val r x) ≤ absv (val pts x)

theorem C02_insert_mono_literal : C02_insert_mono_literal_statement (α := α) := by
  intro pts l r h hr x
  rw [C13_insert_exact_literal pts l r h hr x]
  split_ifs
  · exact C02.absv_minSpeed_le_left _ _
  · exact le_refl _

/-- a concrete instance of the Bool contract -/
theorem pre_example : pre [(⟨0, 25⟩ : Pt ℚ), ⟨1000, 20⟩, ⟨5000, 25⟩] ⟨2000, 3000, 10⟩ = true := by
  decide +kernel

theorem idx_example : insertSpeedIdx [(⟨0, 25⟩ : Pt ℚ), ⟨1000, 20⟩, ⟨5000, 25⟩] ⟨2000, 3000, 10⟩ =
    .ok [⟨0, 25⟩, ⟨1000, 20⟩, ⟨2000, 10⟩, ⟨3000, 20⟩, ⟨5000, 25⟩] := by decide +kernel

example : val [(⟨0, 25⟩ : Pt ℚ), ⟨1000, 20⟩, ⟨2000, 10⟩, ⟨3000, 20⟩, ⟨5000, 25⟩] 2500 =
    if (2000 : ℚ) ≤ 2500 ∧ (2500 : ℚ) < 3000
      then minSpeed (val [(⟨0, 25⟩ : Pt ℚ), ⟨1000, 20⟩, ⟨5000, 25⟩] 2500) 10
      else val [(⟨0, 25⟩ : Pt ℚ), ⟨1000, 20⟩, ⟨5000, 25⟩] 2500 :=
  C13_insert_exact_literal _ ⟨2000, 3000, 10⟩ _ pre_example idx_example 2500

example : Canonical [(⟨0, 25⟩ : Pt ℚ), ⟨1000, 20⟩, ⟨2000, 10⟩, ⟨3000, 20⟩, ⟨5000, 25⟩] :=
  C13_insert_canonical_literal _ ⟨2000, 3000, 10⟩ _ pre_example
    ⟨by unfold Sorted; decide +kernel, by unfold NoDup; decide +kernel⟩ idx_example

example : absv (val [(⟨0, 25⟩ : Pt ℚ), ⟨1000, 20⟩, ⟨2000, 10⟩, ⟨3000, 20⟩, ⟨5000, 25⟩] 2500)
    ≤ absv 10 :=
  C02_insert_sound_literal _ ⟨2000, 3000, 10⟩ _ pre_example idx_example 2500 (by norm_num)

example : absv (val [(⟨0, 25⟩ : Pt ℚ), ⟨1000, 20⟩, ⟨2000, 10⟩, ⟨3000, 20⟩, ⟨5000, 25⟩] 4000)
    ≤ absv (val [(⟨0, 25⟩ : Pt ℚ), ⟨1000, 20⟩, ⟨5000, 25⟩] 4000) :=
  C02_insert_mono_literal _ ⟨2000, 3000, 10⟩ _ pre_example idx_example 4000

example : ∃ r, insertSpeedIdx [(⟨0, 5⟩ : Pt ℚ), ⟨10, 5⟩] ⟨2, 3, 7⟩ = .ok r :=
  C13_insert_total_literal _ _ C13_literal_eq_counterexample.1

-- the exactness theorem also covers the input on which the two definitions differ
example : val [(⟨0, 5⟩ : Pt ℚ)] 12 = val [(⟨0, 5⟩ : Pt ℚ), ⟨10, 5⟩] 12 := by
  have := C13_insert_exact_literal [(⟨0, 5⟩ : Pt ℚ), ⟨10, 5⟩] ⟨2, 3, 7⟩ _
    C13_literal_eq_counterexample.1 C13_literal_eq_counterexample.2.1 12
  rw [this, if_neg (by norm_num)]

/-! ### any sequence of restrictions -/

/-- `PathTpc::new` + any number of literal `insert_speed` calls, in the `Res` monad -/
def profileIdx (vmax : α) (lims : List (Lim α)) : Res (List (Pt α)) :=
  lims.foldlM insertSpeedIdx [⟨0, vmax⟩]

theorem foldlM_idx_eq (lims : List (Lim α)) : ∀ pts : List (Pt α), NoDup pts →
    (∀ ls l ls', lims = ls ++ l :: ls' → pre (ls.foldl insertSpeed pts) l = true) →
    lims.foldlM insertSpeedIdx pts = .ok (lims.foldl insertSpeed pts) := by
  induction lims with
  | nil => intro pts _ _; rfl
  | cons l ls ih =>
    intro pts hn h
    have hp : pre pts l = true := h [] l ls rfl
    have hP := pre_Pre pts l hp
    rw [List.foldlM_cons, insertSpeedIdx_eq pts l hp hn, ok_bind, List.foldl_cons]
    refine ih _ (SPL.insertSpeed_chain pts l hP.sorted hP.le hP.head hn) ?_
    intro ls0 l0 ls' heq
    exact h (l :: ls0) l0 ls' (by rw [heq]; rfl)

/-- **Any sequence, contract assumed at every step** (zero-length restrictions allowed):
    the literal fold never panics and returns the structural profile. -/
theorem profileIdx_eq_of_pre (vmax : α) (lims : List (Lim α))
    (h : ∀ ls l ls', lims = ls ++ l :: ls' → pre (profile vmax ls) l = true) :
    profileIdx vmax lims = .ok (profile vmax lims) :=
  foldlM_idx_eq lims [⟨0, vmax⟩] (List.isChain_singleton _) h

/-- invariant of the fold for restrictions of positive length: offsets strictly increasing
    (so never two, let alone three, points at one offset) and first offset 0 -/
theorem fold_strict (lims : List (Lim α)) (pts : List (Pt α))
    (hl : ∀ l ∈ lims, 0 ≤ l.s ∧ l.s < l.e) (hst : StrictOff pts)
    (hh : ∃ p ps, pts = p :: ps ∧ p.off = 0) :
    StrictOff (lims.foldl insertSpeed pts) ∧
      ∃ p ps, lims.foldl insertSpeed pts = p :: ps ∧ p.off = 0 := by
  induction lims generalizing pts with
  | nil => exact ⟨hst, hh⟩
  | cons l ls ih =>
    have hl0 := hl l (by simp)
    have hhead : ∃ p ps, pts = p :: ps ∧ p.off ≤ l.s := by
      obtain ⟨p, ps, hp, h0⟩ := hh
      exact ⟨p, ps, hp, h0 ▸ hl0.1⟩
    have hst' := insertSpeed_strict pts l hst hl0.2 hhead
    have hh' : ∃ p ps, insertSpeed pts l = p :: ps ∧ p.off = 0 := by
      obtain ⟨p, ps, hp, h0⟩ := hh
      obtain ⟨p', ps', e, ho⟩ :=
        SPL.insertSpeed_head pts l hst.sorted (le_of_lt hl0.2) hhead p ps hp
      exact ⟨p', ps', e, ho.trans h0⟩
    exact ih _ (fun l' hl' => hl l' (by simp [hl'])) hst' hh'

/-- the Bool contract (including "no offset three times") is re-established at every step -/
theorem profile_pre_literal (vmax : α) (lims : List (Lim α))
    (hl : ∀ l ∈ lims, 0 ≤ l.s ∧ l.s < l.e) (l : Lim α) (h0 : 0 ≤ l.s) (hle : l.s ≤ l.e) :
    pre (profile vmax lims) l = true := by
  obtain ⟨hst, hh⟩ := fold_strict lims [(⟨0, vmax⟩ : Pt α)] hl (List.pairwise_singleton _ _)
    ⟨_, _, rfl, rfl⟩
  exact pre_of_strict _ l hst hh h0 hle

/-- **C13 (any sequence, literal)** — full strength (`start ≤ end`) is FALSE, see
    `C13_profile_literal_counterexample`. -/
def C13_profile_literal_statement : Prop :=
  ∀ (vmax : α) (lims : List (Lim α)), (∀ l ∈ lims, 0 ≤ l.s ∧ l.s ≤ l.e) →
    profileIdx vmax lims = .ok (profile vmax lims)

/-- Two stacked zero-length restrictions at one offset beyond the last point leave THREE points
    at that offset (`is_valid()` fails: "must not repeat more than twice"); the next call then
    trips `debug_assert!(self.is_valid())` in a debug build. -/
theorem C13_profile_literal_counterexample :
    profileIdx (25 : ℚ) [⟨2, 2, 10⟩, ⟨2, 2, 5⟩] =
      .ok [⟨0, 25⟩, ⟨2, 10⟩, ⟨2, 5⟩, ⟨2, 25⟩] ∧
    noTriple (profile (25 : ℚ) [⟨2, 2, 10⟩, ⟨2, 2, 5⟩]) = false ∧
    profileIdx (25 : ℚ) [⟨2, 2, 10⟩, ⟨2, 2, 5⟩, ⟨3, 4, 1⟩] = .panic "debug_assert" ∧
    profile (25 : ℚ) [⟨2, 2, 10⟩, ⟨2, 2, 5⟩, ⟨3, 4, 1⟩] =
      [⟨0, 25⟩, ⟨2, 10⟩, ⟨2, 5⟩, ⟨2, 25⟩, ⟨3, 1⟩, ⟨4, 25⟩] := by
  decide +kernel

theorem C13_profile_literal_false : ¬ C13_profile_literal_statement (α := ℚ) := by
  intro h
  have := h 25 [⟨2, 2, 10⟩, ⟨2, 2, 5⟩, ⟨3, 4, 1⟩] (by decide +kernel)
  rw [C13_profile_literal_counterexample.2.2.1] at this
  exact absurd this (by decide +kernel)

/-- **C13 (any sequence, literal), strongest true variant**: restrictions of positive length. -/
def C13_profile_literal_partial_statement : Prop :=
  ∀ (vmax : α) (lims : List (Lim α)),
    (∀ l ∈ lims, 0 ≤ l.s ∧ l.s < l.e) →   -- `<` FORCED: `C13_profile_literal_counterexample`
    profileIdx vmax lims = .ok (profile vmax lims)

theorem C13_profile_literal : C13_profile_literal_partial_statement (α := α) := by
  intro vmax lims hl
  apply profileIdx_eq_of_pre
  intro ls l ls' heq
  have hl' : ∀ m ∈ ls, 0 ≤ m.s ∧ m.s < m.e := fun m hm => hl m (by rw [heq]; simp [hm])
  have hl0 := hl l (by rw [heq]; simp)
  exact profile_pre_literal vmax ls hl' l hl0.1 (le_of_lt hl0.2)

/-- the profile results transferred to the literal fold -/
theorem C13_profile_exact_literal (vmax : α) (lims : List (Lim α))
    (hl : ∀ l ∈ lims, 0 ≤ l.s ∧ l.s < l.e) (r : List (Pt α))
    (hr : profileIdx vmax lims = .ok r) (x : α) (hx : 0 ≤ x) :
    val r x = tightest vmax lims x ∧ Canonical r := by
  rw [C13_profile_literal vmax lims hl] at hr
  cases hr
  have hl' : ∀ l ∈ lims, 0 ≤ l.s ∧ l.s ≤ l.e := fun l h => ⟨(hl l h).1, le_of_lt (hl l h).2⟩
  exact ⟨C13_profile_exact vmax lims hl' x hx, C13_profile_canonical vmax lims hl'⟩

theorem C02_profile_sound_literal (vmax : α) (lims : List (Lim α))
    (hl : ∀ l ∈ lims, 0 ≤ l.s ∧ l.s < l.e) (r : List (Pt α))
    (hr : profileIdx vmax lims = .ok r) (x : α) (hx : 0 ≤ x) :
    (∀ l ∈ lims, l.s ≤ x ∧ x < l.e → absv (val r x) ≤ absv l.v) ∧ absv (val r x) ≤ absv vmax := by
  rw [C13_profile_literal vmax lims hl] at hr
  cases hr
  have hl' : ∀ l ∈ lims, 0 ≤ l.s ∧ l.s ≤ l.e := fun l h => ⟨(hl l h).1, le_of_lt (hl l h).2⟩
  exact C02.C02_profile_sound vmax lims hl' x hx

example : profileIdx (25 : ℚ) [⟨2000, 3000, 10⟩, ⟨2500, 6000, 15⟩, ⟨0, 100, 5⟩] =
    .ok (profile (25 : ℚ) [⟨2000, 3000, 10⟩, ⟨2500, 6000, 15⟩, ⟨0, 100, 5⟩]) :=
  C13_profile_literal 25 _ (by decide +kernel)

example : profileIdx (25 : ℚ) [⟨2000, 3000, 10⟩, ⟨2500, 6000, 15⟩, ⟨0, 100, 5⟩] =
    .ok [⟨0, 5⟩, ⟨100, 25⟩, ⟨2000, 10⟩, ⟨3000, 15⟩, ⟨6000, 25⟩] := by decide +kernel

example : val [(⟨0, 5⟩ : Pt ℚ), ⟨100, 25⟩, ⟨2000, 10⟩, ⟨3000, 15⟩, ⟨6000, 25⟩] 2700 =
    tightest (25 : ℚ) [⟨2000, 3000, 10⟩, ⟨2500, 6000, 15⟩, ⟨0, 100, 5⟩] 2700 :=
  (C13_profile_exact_literal (25 : ℚ) [⟨2000, 3000, 10⟩, ⟨2500, 6000, 15⟩, ⟨0, 100, 5⟩]
    (by decide +kernel) _ (by decide +kernel) 2700 (by norm_num)).1

example : absv (val [(⟨0, 5⟩ : Pt ℚ), ⟨100, 25⟩, ⟨2000, 10⟩, ⟨3000, 15⟩, ⟨6000, 25⟩] 2700)
    ≤ absv 10 :=
  (C02_profile_sound_literal (25 : ℚ) [⟨2000, 3000, 10⟩, ⟨2500, 6000, 15⟩, ⟨0, 100, 5⟩]
    (by decide +kernel) _ (by decide +kernel) 2700 (by norm_num)).1 ⟨2000, 3000, 10⟩ (by simp)
    (by norm_num)

-- a single zero-length restriction is fine: the contract holds at every step
example : profileIdx (25 : ℚ) [⟨2, 2, 10⟩, ⟨1, 2, 5⟩] = .ok (profile (25 : ℚ) [⟨2, 2, 10⟩, ⟨1, 2, 5⟩]) := by
  apply profileIdx_eq_of_pre
  intro ls l ls' heq
  match ls, heq with
  | [], heq => cases heq; decide +kernel
  | [_], heq => cases heq; decide +kernel
  | _ :: _ :: ls, heq =>
    simp only [List.cons_append, List.cons.injEq] at heq
    have := heq.2.2
    cases ls <;> simp at this

/-! ### route level: `PathTpc::add_speeds` over the literal `insert_speed`, link by link -/

/-- one literal `add_speeds` call -/
def addLinkIdx (toU32 : α → Nat) (tp : TrainP α) (pts : List (Pt α)) (r : C02.LinkRec α) :
    Res (List (Pt α)) :=
  addSpeedsIdx toU32 pts tp r.params r.isHeadEnd r.lims r.base

/-- the path profile after literal `add_speeds` on each link in turn -/
def routeIdx (toU32 : α → Nat) (tp : TrainP α) (init : List (Pt α)) (links : List (C02.LinkRec α)) :
    Res (List (Pt α)) :=
  links.foldlM (addLinkIdx toU32 tp) init

/-- **C02 (route, literal).**  With non-negative link offsets and train length and limits of
    positive length, the literal route computation never panics and equals the structural one
    (to which `C02_route_sound` applies). -/
def C02_route_literal_statement : Prop :=
  ∀ (toU32 : α → Nat) (tp : TrainP α) (links : List (C02.LinkRec α)),
    (∀ r ∈ links, 0 ≤ r.base) →
    (∀ r ∈ links, ∀ l ∈ r.lims, 0 ≤ l.s ∧ l.s < l.e) →   -- `<`: see the zero-length counterexample
    0 ≤ tp.length →
    routeIdx toU32 tp [⟨0, tp.speedMax⟩] links = .ok (C02.route toU32 tp [⟨0, tp.speedMax⟩] links)

theorem C02_route_literal : C02_route_literal_statement (α := α) := by
  intro toU32 tp links hbase hlims hlen
  unfold routeIdx C02.route
  have key : ∀ (links : List (C02.LinkRec α)) (pts : List (Pt α)), Inv pts →
      (∀ r ∈ links, 0 ≤ r.base) → (∀ r ∈ links, ∀ l ∈ r.lims, 0 ≤ l.s ∧ l.s < l.e) →
      links.foldlM (addLinkIdx toU32 tp) pts = .ok (links.foldl (C02.addLink toU32 tp) pts) := by
    intro links
    induction links with
    | nil => intro pts _ _ _; rfl
    | cons r rs ih =>
      intro pts hinv hb hl
      have hr := hb r (by simp)
      have h3 := C02.lengthAdd_nonneg tp r.isHeadEnd hlen
      obtain ⟨e1, i1⟩ := addSpeedsIdx_eq toU32 pts tp r.params r.isHeadEnd r.lims r.base hinv
        (by
          intro l hl' _
          have h2 := hl r (by simp) l hl'
          unfold shiftLim
          constructor
          · show 0 ≤ l.s + r.base
            linarith
          · show l.s + r.base < l.e + r.base + lengthAdd tp r.isHeadEnd
            linarith)
      rw [List.foldlM_cons, List.foldl_cons]
      unfold addLinkIdx C02.addLink
      rw [e1, ok_bind]
      exact ih _ i1 (fun r' hr' => hb r' (by simp [hr'])) (fun r' hr' => hl r' (by simp [hr']))
  exact key links _ (Inv.init _) hbase hlims

example : routeIdx (fun _ => 10) C02.tpEx [⟨0, C02.tpEx.speedMax⟩] C02.linksEx =
    .ok [⟨0, 25⟩, ⟨2000, 10⟩, ⟨3000, 25⟩, ⟨5000, 15⟩, ⟨6100, 25⟩] := by decide +kernel

example : routeIdx (fun _ => 10) C02.tpEx [⟨0, C02.tpEx.speedMax⟩] C02.linksEx =
    .ok (C02.route (fun _ => 10) C02.tpEx [⟨0, C02.tpEx.speedMax⟩] C02.linksEx) :=
  C02_route_literal (fun _ => 10) C02.tpEx C02.linksEx (by decide) (by decide +kernel) (by decide)

end Altrios.Proofs.C13Lit
