import Altrios.Train
import Proofs.Lemmas.Basic
import Proofs.Lemmas.Ledger
import Proofs.Lemmas.TrainL
import Mathlib.Algebra.Order.Field.Basic
import Mathlib.Tactic.Linarith
import Mathlib.Tactic.Ring
import Mathlib.Tactic.FieldSimp
import Mathlib.Tactic.NormNum
import Mathlib.Tactic.SplitIfs
/-
  C14 — "A set-speed run follows its trace; wheel power is inertia plus resistance".

  Model: `ssRequiredPwr`, `ssIntegrate`, `ssStep` (Altrios/Train.lean) =
  `SetSpeedTrainSim::{solve_required_pwr, solve_step}`.

  Clauses (exact arithmetic over an arbitrary linearly ordered field):
    1. `C14_power`            accel power = d/dt(½ (m_static + m_rot) v²) over the step, resistance power =
                              total resistance × mean speed, wheel power = their sum clipped to
                              `[-negMax, posMax]`, energies accumulate `pwr · dtI`, `state.dt := dtI`
    2. `C14_clip`             `-negMax ≤ pwrWhlOut ≤ posMax`; unclipped iff the raw demand is inside;
                              saturates at the bound it crosses
    3. `C14_negative_rejected`, `C14_first_sample_rejected`, `C14_accepted_nonneg`,
       `C14_walk_samples_nonneg`   a negative CURRENT or PREVIOUS sample is an `Err`; every sample
                              consumed by an accepted walk, including `speed[0]`, is non-negative
    4. `C14_follows_trace`    accepted `ssStep`: `time = tCur`, `speed = vCur`, the consist is solved
                              for exactly the train's wheel power over the trace's own step size
    5. `C14_first_sample_unchecked`  REMARK: `solve_required_pwr` + the position update ALONE accept a
                              negative previous sample; the whole step rejects it since the fix in /repo
    6. `C14_rate_limit_uses_previous_dt`  REMARK: the rate-limited traction bound is computed with the
                              step size of the PREVIOUS step (`state.dt` before it is overwritten)
  The whole-run version ("at every step time and speed equal the trace") is `C12_ss_run` in C12.lean.
-/
set_option linter.unusedSectionVars false
set_option linter.unusedSimpArgs false
set_option autoImplicit false
namespace Altrios.Proofs.C14
open Altrios Altrios.Tpc Altrios.Rs Altrios.PT Altrios.CS Altrios.Tr
open Altrios.Proofs.Basic Altrios.Proofs.LedgerL Altrios.Proofs.TrainL

/-! ## Concrete data over `ℚ` -/
namespace Ex

/-- the literals of the Rust code -/
def c : TrConsts ℚ := ⟨1/2, 2, 4, 44704/1000000, 1/100000000, 1/10000000⟩

def cs : ConsistState ℚ :=
  { pwrOutMax := 3000000, pwrRateOutMax := 100000, pwrRegenMax := 0, pwrOutMaxReves := 0,
    pwrOutDeficit := 0, pwrOutMaxNonReves := 3000000, pwrRegenDeficit := 0, pwrDynBrakeMax := 2000000,
    pwrOutReq := 0, pwrOut := 0, pwrReves := 0, pwrFuel := 0, energyOut := 0, energyOutPos := 0,
    energyOutNeg := 0, energyRes := 0, energyFuel := 0 }

/-- a 200 m, 1000 t train at 500 m, total resistance 4 kN -/
def r : Rs.ResState ℚ :=
  { offset := 500, offsetBack := 300, speed := 10, length := 200, massStatic := 1000000,
    weightStatic := 9810000, resRolling := 1000, resBearing := 500, resDavisB := 200, resAero := 300,
    resGrade := 2000, resCurve := 0, gradeFront := 0, gradeBack := 0, elevFront := 0 }

def k : Kin ℚ :=
  { time := 7, totalDist := 100, linkIdxFront := 1, offsetInLink := 500, speedLimit := 30,
    speedTarget := 30, dt := 1, massRot := 50000, massFreight := 0, pwrRes := 0, pwrAccel := 0,
    pwrWhlOut := 500000, energyWhlOut := 1000, energyWhlOutPos := 1500, energyWhlOutNeg := 500 }

def s : TrainState ℚ := ⟨r, k⟩

/-- two links (ids 3 and 5) of 400 m and 600 m, then the trailing dummy point -/
def lps : List (LinkPt ℚ) := [⟨0, 1, 1, 0, 3⟩, ⟨400, 1, 1, 0, 5⟩, ⟨1000, 0, 0, 0, 0⟩]

end Ex

/-! ## 1. Wheel power = inertia + resistance, clipped -/

/-- **Power of one set-speed step.** -/
def C14_power_statement : Prop :=
  ∀ (α : Type) [Field α] [LinearOrder α] [IsStrictOrderedRing α]
    (c : TrConsts α) (cs : ConsistState α) (s s' : TrainState α) (vPrev vCur dtI : α),
    c.half = 1 / 2 →      -- forced: the literal 0.5 (the model takes the literals as parameters)
    c.two = 2 →           -- forced: the literal 2.0
    dtI ≠ 0 →             -- guard: `mass / (2 dt)`; a repeated time stamp gives ±∞/NaN in IEEE
    ssRequiredPwr c cs s vPrev vCur dtI = .ok s' →
      massCompound s = s.r.massStatic + s.k.massRot ∧
      -- rate of change of the kinetic energy of the compound mass over the step
      s'.k.pwrAccel = massCompound s * ((vCur - vPrev) / dtI) * ((vPrev + vCur) / 2) ∧
      s'.k.pwrAccel = (1 / 2 * massCompound s * vCur ^ 2 - 1 / 2 * massCompound s * vPrev ^ 2) / dtI ∧
      -- total resistance times mean speed
      s'.k.pwrRes = resNet s.r * ((vPrev + vCur) / 2) ∧
      -- clipped to the traction limit above and the dynamic-braking capability below
      s'.k.pwrWhlOut = min (max (s'.k.pwrAccel + s'.k.pwrRes) (-negMax cs)) (posMax cs s) ∧
      0 ≤ posMax cs s ∧
      -- energies accumulate that power times the trace's own step size
      s'.k.dt = dtI ∧
      s'.k.energyWhlOut = s.k.energyWhlOut + s'.k.pwrWhlOut * dtI ∧
      s'.k.energyWhlOutPos =
        (if 0 ≤ s'.k.pwrWhlOut then s.k.energyWhlOutPos + s'.k.pwrWhlOut * dtI
         else s.k.energyWhlOutPos) ∧
      s'.k.energyWhlOutNeg =
        (if 0 ≤ s'.k.pwrWhlOut then s.k.energyWhlOutNeg
         else s.k.energyWhlOutNeg - s'.k.pwrWhlOut * dtI) ∧
      -- positive and negative parts split the net energy
      s'.k.energyWhlOutPos - s'.k.energyWhlOutNeg - s'.k.energyWhlOut =
        s.k.energyWhlOutPos - s.k.energyWhlOutNeg - s.k.energyWhlOut ∧
      -- nothing kinematic moves here
      s'.r = s.r ∧ s'.k.time = s.k.time ∧ s'.k.totalDist = s.k.totalDist

theorem C14_power : C14_power_statement := by
  intro α _ _ _ c cs s s' vPrev vCur dtI hhalf htwo hdt h
  have H := ssRequiredPwr_inv h
  have hA : s'.k.pwrAccel = massCompound s / (2 * dtI) * (vCur * vCur - vPrev * vPrev) := by
    rw [H.pwrAccel, htwo]
  refine ⟨rfl, ?_, ?_, ?_, H.pwrWhlOut, H.posMax_nonneg, H.dt, H.energyWhlOut, H.energyWhlOutPos,
    H.energyWhlOutNeg, ?_, H.r, H.time, H.totalDist⟩
  · rw [hA, kinetic_identity _ _ _ _ hdt]
  · rw [hA, kinetic_identity' _ _ _ _ hdt]
  · rw [H.pwrRes, hhalf]; ring
  · rw [H.energyWhlOutPos, H.energyWhlOutNeg, H.energyWhlOut]
    split_ifs <;> ring

/-- non-vacuity: an accepted, unclipped step (10 → 10.1 m/s in 2 s): accel 527 625 W + resistance
    40 200 W = 567 825 W ≤ rate-limited bound 600 000 W -/
example : Ex.c.half = 1 / 2 ∧ Ex.c.two = 2 ∧ (2 : ℚ) ≠ 0 ∧
    okVal ((ssRequiredPwr Ex.c Ex.cs Ex.s 10 (101/10) 2).bind fun s' =>
      pure (s'.k.pwrAccel, s'.k.pwrRes, s'.k.pwrWhlOut, s'.k.energyWhlOut, s'.k.energyWhlOutPos))
      = some (527625, 40200, 567825, 1000 + 567825 * 2, 1500 + 567825 * 2) ∧
    posMax Ex.cs Ex.s = 600000 ∧ negMax Ex.cs = 2000000 := by
  refine ⟨by decide +kernel, by decide +kernel, by norm_num, by decide +kernel, ?_, ?_⟩
  · norm_num [posMax, Ex.cs, Ex.s, Ex.k]
  · norm_num [negMax, Ex.cs]

/-! ## 2. Clipping -/

/-- **Clipping.** The wheel power always lies in `[-negMax, posMax]` (with `-negMax ≤ 0 ≤ posMax`); it equals
    the raw demand exactly when the demand lies inside, otherwise it sits on the bound crossed. -/
def C14_clip_statement : Prop :=
  ∀ (α : Type) [Field α] [LinearOrder α] [IsStrictOrderedRing α]
    (c : TrConsts α) (cs : ConsistState α) (s s' : TrainState α) (vPrev vCur dtI : α),
    ssRequiredPwr c cs s vPrev vCur dtI = .ok s' →
      -negMax cs ≤ 0 ∧ 0 ≤ posMax cs s ∧
      -negMax cs ≤ s'.k.pwrWhlOut ∧ s'.k.pwrWhlOut ≤ posMax cs s ∧
      (-negMax cs ≤ s'.k.pwrAccel + s'.k.pwrRes → s'.k.pwrAccel + s'.k.pwrRes ≤ posMax cs s →
        s'.k.pwrWhlOut = s'.k.pwrAccel + s'.k.pwrRes) ∧
      (posMax cs s ≤ s'.k.pwrAccel + s'.k.pwrRes → s'.k.pwrWhlOut = posMax cs s) ∧
      (s'.k.pwrAccel + s'.k.pwrRes ≤ -negMax cs → s'.k.pwrWhlOut = -negMax cs) ∧
      (s'.k.pwrWhlOut = s'.k.pwrAccel + s'.k.pwrRes ↔
        (-negMax cs ≤ s'.k.pwrAccel + s'.k.pwrRes ∧ s'.k.pwrAccel + s'.k.pwrRes ≤ posMax cs s))

theorem C14_clip : C14_clip_statement := by
  intro α _ _ _ c cs s s' vPrev vCur dtI h
  have H := ssRequiredPwr_inv h
  have hn : -negMax cs ≤ 0 := neg_nonpos.mpr (negMax_nonneg cs)
  have hp := H.posMax_nonneg
  have hnp : -negMax cs ≤ posMax cs s := le_trans hn hp
  obtain ⟨b1, b2⟩ := clip_bounds (x := s'.k.pwrAccel + s'.k.pwrRes) hnp
  rw [← H.pwrWhlOut] at b1 b2
  refine ⟨hn, hp, b1, b2, fun h1 h2 => ?_, fun h1 => ?_, fun h1 => ?_, ⟨fun he => ?_, fun h12 => ?_⟩⟩
  · rw [H.pwrWhlOut, clip_eq_self h1 h2]
  · rw [H.pwrWhlOut, clip_above h1]
  · rw [H.pwrWhlOut, clip_below hnp h1]
  · rw [← he]; exact ⟨b1, b2⟩
  · rw [H.pwrWhlOut, clip_eq_self h12.1 h12.2]

/-- non-vacuity: a hard acceleration (10 → 12 m/s in 2 s, raw 11.6 MW) saturates at the traction bound,
    a hard deceleration (10 → 8 m/s, raw −9.4 MW) at the dynamic-braking capability -/
example :
    okVal ((ssRequiredPwr Ex.c Ex.cs Ex.s 10 12 2).bind fun s' =>
      pure (s'.k.pwrAccel + s'.k.pwrRes, s'.k.pwrWhlOut)) = some (11594000, 600000) ∧
    okVal ((ssRequiredPwr Ex.c Ex.cs Ex.s 10 8 2).bind fun s' =>
      pure (s'.k.pwrAccel + s'.k.pwrRes, s'.k.pwrWhlOut, s'.k.energyWhlOutNeg))
      = some (-9414000, -2000000, 500 + 2000000 * 2) := by
  constructor <;> decide +kernel

/-! ## 3. Negative speed is rejected -/

/-- **A negative current sample is an `Err`.** -/
def C14_negative_rejected_statement : Prop :=
  ∀ (α : Type) [Field α] [LinearOrder α] [IsStrictOrderedRing α]
    (kc : Consts α) (c : TrConsts α) (g rho : α) (t : Tpc α) (res : ResStrap α) (con : Consist α)
    (s : TrainState α) (vPrev vCur tPrev tCur : α),
    vCur < 0 → ssStep kc c g rho t res con s vPrev vCur tPrev tCur = .err "negative-speed"

theorem C14_negative_rejected : C14_negative_rejected_statement := by
  intro α _ _ _ kc c g rho t res con s vPrev vCur tPrev tCur hv
  exact ssStep_neg_err kc c g rho t res con s vPrev vCur tPrev tCur hv

/-- **A negative previous sample is an `Err` too** (second `ensure!` of the repaired `solve_step`;
    with the loop starting at `i = 1` this is what tests `speed[0]`). -/
def C14_first_sample_rejected_statement : Prop :=
  ∀ (α : Type) [Field α] [LinearOrder α] [IsStrictOrderedRing α]
    (kc : Consts α) (c : TrConsts α) (g rho : α) (t : Tpc α) (res : ResStrap α) (con : Consist α)
    (s : TrainState α) (vPrev vCur tPrev tCur : α),
    vPrev < 0 → ∃ e, ssStep kc c g rho t res con s vPrev vCur tPrev tCur = .err e

theorem C14_first_sample_rejected : C14_first_sample_rejected_statement := by
  intro α _ _ _ kc c g rho t res con s vPrev vCur tPrev tCur hv
  rcases lt_or_ge vCur 0 with hc | hc
  · exact ⟨_, ssStep_neg_err kc c g rho t res con s vPrev vCur tPrev tCur hc⟩
  · exact ⟨_, ssStep_prev_neg_err kc c g rho t res con s vPrev vCur tPrev tCur hc hv⟩

/-- non-vacuity: the formerly accepted whole step `speed = [−3, 1]` (diesel consist) is now an `Err` -/
example : ssStep ExW.kc ExW.c ExW.g ExW.rho ExW.tpc ExW.strap ExW.con ExW.s (-3) 1 0 1
    = .err "negative-speed-prev" :=
  ssStep_prev_neg_err _ _ _ _ _ _ _ _ _ _ _ _ (by norm_num) (by norm_num)

def C14_accepted_nonneg_statement : Prop :=
  ∀ (α : Type) [Field α] [LinearOrder α] [IsStrictOrderedRing α]
    (kc : Consts α) (c : TrConsts α) (g rho : α) (t : Tpc α) (res res' : ResStrap α)
    (con con' : Consist α) (s s' : TrainState α) (vPrev vCur tPrev tCur : α),
    ssStep kc c g rho t res con s vPrev vCur tPrev tCur = .ok (con', res', s') →
      0 ≤ vPrev ∧ 0 ≤ vCur

theorem C14_accepted_nonneg : C14_accepted_nonneg_statement := by
  intro α _ _ _ kc c g rho t res res' con con' s s' vPrev vCur tPrev tCur h
  obtain ⟨hc, hp, _⟩ := ssStep_inv h
  exact ⟨hp, hc⟩

/-- **Every sample consumed by an accepted walk is non-negative, including the first.**
    `ssWalk` (Lemmas/TrainL.lean) is `SetSpeedTrainSim::walk`: a fold of `ssStep` over the samples
    after `p = (time[0], speed[0])`. -/
def C14_walk_samples_nonneg_statement : Prop :=
  ∀ (α : Type) [Field α] [LinearOrder α] [IsStrictOrderedRing α]
    (kc : Consts α) (c : TrConsts α) (g rho : α) (t : Tpc α)
    (st st' : ResStrap α × Consist α × TrainState α) (p : α × α) (tr : List (α × α)),
    ssWalk kc c g rho t st p tr = .ok st' →
      -- the guard `tr ≠ []` is forced: a one-sample trace performs no step and inspects nothing
      (tr ≠ [] → 0 ≤ p.2) ∧ ∀ q ∈ tr, 0 ≤ q.2

theorem C14_walk_samples_nonneg : C14_walk_samples_nonneg_statement := by
  intro α _ _ _ kc c g rho t st st' p tr
  induction tr generalizing st p with
  | nil => intro _; exact ⟨fun h => absurd rfl h, fun q hq => by simp at hq⟩
  | cons q tr ih =>
    intro h
    obtain ⟨res, con, s⟩ := st
    simp only [ssWalk] at h
    cases hs : ssStep kc c g rho t res con s p.2 q.2 p.1 q.1 with
    | ok x =>
      obtain ⟨con₁, res₁, s₁⟩ := x
      rw [hs] at h
      obtain ⟨hc, hp, _⟩ := ssStep_inv hs
      obtain ⟨_, hall⟩ := ih (res₁, con₁, s₁) q h
      refine ⟨fun _ => hp, fun q' hq' => ?_⟩
      rcases List.mem_cons.mp hq' with rfl | hq'
      · exact hc
      · exact hall q' hq'
    | err e => rw [hs] at h; cases h
    | panic e => rw [hs] at h; cases h

/-- non-vacuity: the accepted three-step walk 1 → 2 → 2 → 1 m/s; and the same walk with `speed[0] = −3`
    is rejected at its first step -/
example :
    (ssWalk ExW.kc ExW.c ExW.g ExW.rho ExW.tpc (ExW.strap, ExW.con, ExW.s) (0, 1)
      [(1, 2), (3, 2), (4, 1)]).isOk = true ∧
    (ssWalk ExW.kc ExW.c ExW.g ExW.rho ExW.tpc (ExW.strap, ExW.con, ExW.s) (0, -3)
      [(1, 1), (3, 2), (4, 1)]).isOk = false := by
  constructor <;> decide +kernel

/-! ## 4. The step follows the trace -/

/-- **Trace following.** In an accepted step the saved time and speed are the trace's, the power pass
    used `dtI = tCur − tPrev`, and the consist was solved for exactly the train's wheel power over
    that same step size. -/
def C14_follows_trace_statement : Prop :=
  ∀ (α : Type) [Field α] [LinearOrder α] [IsStrictOrderedRing α]
    (kc : Consts α) (c : TrConsts α) (g rho : α) (t : Tpc α) (res res' : ResStrap α)
    (con con' : Consist α) (s s' : TrainState α) (vPrev vCur tPrev tCur : α),
    ssStep kc c g rho t res con s vPrev vCur tPrev tCur = .ok (con', res', s') →
      s'.k.time = tCur ∧ s'.r.speed = vCur ∧ s'.k.dt = tCur - tPrev ∧
      s'.k.energyWhlOut = s.k.energyWhlOut + s'.k.pwrWhlOut * (tCur - tPrev) ∧
      ∃ (con₁ : Consist α) (r₁ : Rs.ResState α) (s₁ : TrainState α),
        consistSetCurMax kc (consistSetAux con (some true)) (tCur - tPrev) = .ok con₁ ∧
        updateRes g rho t.grades t.curves res s.r .fwd = .ok (res', r₁) ∧
        ssRequiredPwr c con₁.state { s with r := r₁ } vPrev vCur (tCur - tPrev) = .ok s₁ ∧
        s₁.k.pwrWhlOut = s'.k.pwrWhlOut ∧ s₁.k.pwrAccel = s'.k.pwrAccel ∧ s₁.k.pwrRes = s'.k.pwrRes ∧
        consistSolve kc con₁ s'.k.pwrWhlOut (tCur - tPrev) (some true) = .ok con' ∧
        -- hence the consist's own ledger moves by the same power × the same step
        con'.state.energyOut = con₁.state.energyOut + con'.state.pwrOut * (tCur - tPrev)

theorem C14_follows_trace : C14_follows_trace_statement := by
  intro α _ _ _ kc c g rho t res res' con con' s s' vPrev vCur tPrev tCur h
  obtain ⟨_, _, con₁, r₁, s₁, h1, h2, h3, h4, h5⟩ := ssStep_inv h
  have P := ssRequiredPwr_inv h3
  have I := ssIntegrate_inv h5
  have hw : s₁.k.pwrWhlOut = s'.k.pwrWhlOut := I.pwrWhlOut.symm
  refine ⟨I.time, I.speed, by rw [I.dt, P.dt], ?_, con₁, r₁, s₁, h1, h2, h3, hw,
    I.pwrAccel.symm, I.pwrRes.symm, hw ▸ h4, ?_⟩
  · rw [I.energyWhlOut, I.pwrWhlOut, P.energyWhlOut]
  · obtain ⟨_, _, _, _, _, _, he, _⟩ := consistSolve_inv h4
    exact he

/-- non-vacuity: a whole accepted step with a diesel consist — (t, v) = (0, 1) → (1, 2): wheel power
    1.5 W (inertia) + 1.5 W (resistance) = 3 W, consist output 3 W, consist energy 3 J -/
example : (∃ con' res' s', ssStep ExW.kc ExW.c ExW.g ExW.rho ExW.tpc ExW.strap ExW.con ExW.s 1 2 0 1
      = .ok (con', res', s')) ∧
    okVal ((ssStep ExW.kc ExW.c ExW.g ExW.rho ExW.tpc ExW.strap ExW.con ExW.s 1 2 0 1).bind fun x =>
      pure [x.2.2.k.time, x.2.2.r.speed, x.2.2.k.pwrWhlOut, x.1.state.pwrOut, x.1.state.energyOut])
      = some [1, 2, 3, 3, 3] :=
  ⟨ExW.step_ok', by decide +kernel⟩

/-- non-vacuity of the rejection: the same step towards a negative sample -/
example : ssStep ExW.kc ExW.c ExW.g ExW.rho ExW.tpc ExW.strap ExW.con ExW.s 1 (-1) 0 1
    = .err "negative-speed" :=
  C14_negative_rejected ℚ _ _ _ _ _ _ _ _ _ _ _ _ (by norm_num)

/-! ## 5. Remark: the power and position updates alone do not look at the sign of the previous sample -/

/-- **Kinematic-only observation (still true of `ssRequiredPwr`/`ssIntegrate` ALONE).**  With
    `speed[0] = −30`, `speed[1] = 10` (mean −10 m/s over 2 s) both `solve_required_pwr` and the position
    update succeed and would move the train 20 m BACKWARDS (front 500 m → 480 m).
    This was a defect of the whole step while `solve_step` tested `speed[i]` only and the loop started at
    `i = 1` (`speed[0]` was never tested).  It is REPAIRED in /repo: `solve_step` now also rejects a
    negative previous sample, the model's `ssStep` has the second `ensure`, and the whole step returns
    `Err` (`C14_first_sample_rejected`, `C14_walk_samples_nonneg`).  The former theorem
    `C14_first_sample_unchecked_whole_step` (a whole accepted step with `speed[0] = −3`) is false of
    the repaired model and has been removed. -/
theorem C14_first_sample_unchecked :
    (-30 : ℚ) < 0 ∧ (0 : ℚ) ≤ 10 ∧
    okVal ((ssRequiredPwr Ex.c Ex.cs Ex.s (-30) 10 2).bind fun s₁ =>
      (ssIntegrate Ex.c Ex.lps s₁ (-30) 10 9).bind fun s' =>
        pure ((s'.k.time, s'.r.speed, s'.r.offset, s'.r.offsetBack),
              (s'.k.totalDist, s'.k.linkIdxFront, s'.k.offsetInLink, s'.k.pwrRes)))
      = some ((9, 10, 480, 280), (120, 5, 80, -40000)) := by
  refine ⟨by norm_num, by norm_num, by decide +kernel⟩

/-- the general form, at the `ssIntegrate` level: the position update is accepted for ANY `vPrev`
    (negative included) as long as the new front stays on the path — the sign tests live in `ssStep`
    only (`ssStep_inv` lists every check made). -/
theorem ssIntegrate_any_vPrev {α : Type} [Field α] [LinearOrder α] [IsStrictOrderedRing α]
    (c : TrConsts α) (lps : List (LinkPt α)) (s : TrainState α) (vPrev vCur tCur : α)
    (i : Nat) (hi : i + 1 < lps.length)
    (h1 : (ssMoved c s vPrev vCur tCur).r.offset ≤ lps[i + 1].off)
    (h2 : ∀ m (hm : m < i + 1), lps[m].off < (ssMoved c s vPrev vCur tCur).r.offset) :
    ∃ s', ssIntegrate c lps s vPrev vCur tCur = .ok s' := by
  refine ⟨_, ssIntegrate_iff.mpr ⟨_, setLinkAndOffset_of_first_ge hi h1 h2, rfl⟩⟩

/-! ## 6. Remark: the rate limit uses the previous step's `dt` -/

/-- **Stale step size in the rate limit.**  `pwr_pos_max` is computed from `state.dt` BEFORE
    `state.dt` is overwritten with the trace's `dt(i)`: the ramp `pwr_whl_out + rate · dt` uses the
    step size of the PREVIOUS step (1 s — the default — on the first step).  Same trace step
    (10 → 12 m/s over 2 s), same state except the stored previous `dt` (1 s vs 2 s): the clipped wheel
    power differs (600 kW vs 700 kW). -/
theorem C14_rate_limit_uses_previous_dt :
    okVal ((ssRequiredPwr Ex.c Ex.cs Ex.s 10 12 2).bind fun s' => pure s'.k.pwrWhlOut)
      = some 600000 ∧
    okVal ((ssRequiredPwr Ex.c Ex.cs { Ex.s with k := { Ex.k with dt := 2 } } 10 12 2).bind
      fun s' => pure s'.k.pwrWhlOut) = some 700000 := by
  constructor <;> decide +kernel

end Altrios.Proofs.C14
