import Altrios.EstTime
import Proofs.Lemmas.EstL
import Mathlib.Algebra.Order.Field.Basic
import Mathlib.Tactic.Linarith
import Mathlib.Tactic.Ring
import Mathlib.Data.List.Chain
/-
  C15 — the estimated-time network is well-formed, route-faithful and time-consistent.   (PARTIAL)

  What is proved here, for ALL graphs / track networks / origin and destination sets:

    SOUNDNESS OF THE CHECKER `estNetOk` (a decision procedure on a finished node vector, written
    independently of how the vector was built).  Whenever it accepts,
      * `C15_links`         forward and backward links of every node are mutually consistent;
      * `C15_walks`         every walk from the start node along `idx_next` / `idx_next_alt` is shorter
                            than the node count, stays inside the vector, can get stuck only at the end
                            node and can always be continued to the end node (proof: the validated rank
                            strictly increases along every link; induction on the rank);
      * `C15_route`         on every start-to-end walk the arrive events are a contiguous route of the
                            track network from an origin to a destination, and at every prefix of the walk
                            the links cleared are a prefix of the links entered (each link is cleared after
                            it is entered, in route order) — the automaton is validated on every link and
                            lifted to all walks by induction;
      * `C15_times`         all scheduled times are set, "finite" and ≥ 0, all durations "finite" and ≥ 0;
      * `C15_time_eq`       a node reached from its `idx_prev` by that node's `idx_next` is scheduled at
                            that node's time plus its duration (± tol);
      * `C15_time_le`       no node is scheduled later than ANY predecessor allows (`idx_next` link: time +
                            duration; `idx_next_alt` link: time; + tol);
      * `C15_running_time`  (tol = 0) last − first scheduled time = duration of the primary walk
                            ≤ duration of every start-to-end walk: the reported running time IS the
                            fastest trip; and `get_running_time_hours · 3600 = last − first`.
    The driver evaluates `estNetCheck` on every network the real `make_est_times` returns (and on mutated
    copies), at `Float`, where "finite" is `Float.isFinite`; the theorems are over an ordered field, where
    finiteness is whatever predicate is supplied (vacuous: say so).

    THE TWO PASSES are modelled literally (`updateForward`, `updateBackward`) and tied to the code by the
    correspondence.  `C15_forward_spec_partial`: whenever the forward pass's output passes the (exact)
    checker `fwdCheck` — evaluated by the driver on every case — every node's time is the length of a
    shortest walk from the start.  The unconditional `C15_forward_spec_statement` is stated and NOT proved
    (the relinking invariant of the Dijkstra-like loop).  `C15_passes_frame`: neither pass changes the
    vector's length, a node's event, speed or alternate links (the forward pass not even a duration).
    Construction by simulation is not modelled.
-/
set_option linter.unusedSectionVars false
namespace Altrios.Proofs.C15
open Altrios Altrios.Est Altrios.Proofs.EstL

/-- "follows in the track network": `b` is `idx_next` or `idx_next_alt` of link `a` -/
def Follows (adj : Array (Nat × Nat)) (a b : Nat) : Prop :=
  b ≠ 0 ∧ ∃ x y, adj[a]? = some (x, y) ∧ (x = b ∨ y = b)

theorem adjOk_iff (adj : Array (Nat × Nat)) (a b : Nat) : adjOk adj a b = true ↔ Follows adj a b := by
  unfold adjOk Follows
  cases h : adj[a]? with
  | none => simp
  | some p => obtain ⟨x, y⟩ := p; simp

/-- the property's route clause for the nodes of one walk -/
structure RouteSpec {α : Type} [OfNat α 0] (adj : Array (Nat × Nat)) (origs dests : List Nat)
    (g : Graph α) (nodes : List Nat) : Prop where
  /-- at least one link is entered -/
  nonempty : arrivals g nodes ≠ []
  /-- the first link entered is an origin -/
  orig : ∀ a ∈ (arrivals g nodes).head?, a ∈ origs
  /-- the last link entered is a destination -/
  dest : ∀ d ∈ (arrivals g nodes).getLast?, d ∈ dests
  /-- consecutive links entered are consecutive in the track network -/
  contiguous : (arrivals g nodes).IsChain (Follows adj)
  /-- at every prefix of the walk the links cleared are a prefix of the links entered -/
  clearAfterArrive : ∀ k, clearings g (nodes.take k) <+: arrivals g (nodes.take k)

section checker
variable {α : Type} [Field α] [LinearOrder α] [IsStrictOrderedRing α]

/-- the parts of an accepting verdict -/
theorem ok_parts (finite : α → Bool) (adj : Array (Nat × Nat)) (origs dests : List Nat) (tol : α)
    (g : Graph α) (h : estNetOk finite adj origs dests tol g = true) :
    linksOk g = true ∧ rankOk g (computeRank g) = true ∧
    routeOkWith adj origs dests g (computeStates adj origs g) = true ∧
    finOk finite g = true ∧ nonnegOk g = true ∧ tightOk tol g = true ∧ altOk tol g = true := by
  unfold estNetOk Verdict.all estNetCheck at h
  simp only [Bool.and_eq_true] at h
  obtain ⟨⟨⟨⟨⟨⟨h1, h2⟩, h3⟩, h4⟩, h5⟩, h6⟩, h7⟩ := h
  exact ⟨h1, h2.2, h3.2, h4, h5.2, h6.2, h7.2⟩

/-! ### links -/

def C15_links_statement : Prop :=
  ∀ (finite : α → Bool) (adj : Array (Nat × Nat)) (origs dests : List Nat) (tol : α) (g : Graph α),
    estNetOk finite adj origs dests tol g = true →
    ∀ i < g.size, ∀ j, j ≠ 0 →
      (((nodeAt g i).next = j ∨ (nodeAt g i).nextAlt = j) →
        j < g.size ∧ ((nodeAt g j).prev = i ∨ (nodeAt g j).prevAlt = i)) ∧
      (((nodeAt g i).prev = j ∨ (nodeAt g i).prevAlt = j) →
        j < g.size ∧ ((nodeAt g j).next = i ∨ (nodeAt g j).nextAlt = i))

theorem C15_links : C15_links_statement (α := α) := by
  intro finite adj origs dests tol g h i hi j hj
  have hl := (ok_parts finite adj origs dests tol g h).1
  have hn := links_node g hl i hi
  constructor
  · intro hs
    have e : Edge g i j := ⟨hi, hj, hs⟩
    exact ⟨edge_lt g hl e, edge_back g hl e⟩
  · rintro (hp | hp)
    · subst hp; exact ⟨hn.prev_lt, hn.prev_fwd hj⟩
    · subst hp; exact ⟨hn.prevAlt_lt, (hn.prevAlt_fwd hj).1⟩

/-! ### walks -/

def C15_walks_statement : Prop :=
  ∀ (finite : α → Bool) (adj : Array (Nat × Nat)) (origs dests : List Nat) (tol : α) (g : Graph α),
    estNetOk finite adj origs dests tol g = true →
    ∀ (l : List Nat) (k : Nat), Walk g 0 l k →
      l.length < g.size ∧ k < g.size ∧ (succs (nodeAt g k) = [] ↔ k + 1 = g.size) ∧
      ∃ l', Walk g k l' (g.size - 1)

/-- a node has no forward link iff it is the end node -/
theorem stuck_iff_end (g : Graph α) (hl : linksOk g = true) {k : Nat} (hk : k < g.size) :
    succs (nodeAt g k) = [] ↔ k + 1 = g.size := by
  have hn := links_node g hl k hk
  constructor
  · intro hs
    by_contra hne
    have := hn.has_next hne
    have hm : (nodeAt g k).next ∈ succs (nodeAt g k) := (mem_succs _ _).mpr ⟨this, Or.inl rfl⟩
    rw [hs] at hm; simp at hm
  · intro he
    obtain ⟨h1, h2⟩ := hn.last he
    simp [succs, h1, h2]

theorem every_walk_reaches_end : C15_walks_statement (α := α) := by
  intro finite adj origs dests tol g h l k w
  obtain ⟨hl, hr, -⟩ := ok_parts finite adj origs dests tol g h
  have h2 := links_size g hl
  have h0 : 0 < g.size := by omega
  have hk := walk_lt g hl w h0
  have hlen := walk_rank g _ hr w
  have hrk := (rank_facts g _ hr hk).1
  refine ⟨by omega, hk, stuck_iff_end g hl hk, ?_⟩
  obtain ⟨l', w', -⟩ := exists_primary_walk g _ hl hr g.size k hk (by omega)
  exact ⟨l', w'⟩

theorem C15_walks : C15_walks_statement (α := α) := every_walk_reaches_end

/-! ### route -/

def C15_route_statement : Prop :=
  ∀ (finite : α → Bool) (adj : Array (Nat × Nat)) (origs dests : List Nat) (tol : α) (g : Graph α),
    estNetOk finite adj origs dests tol g = true →
    ∀ l : List Nat, Walk g 0 l (g.size - 1) → RouteSpec adj origs dests g (0 :: l)

theorem C15_route : C15_route_statement (α := α) := by
  intro finite adj origs dests tol g h l w
  obtain ⟨hl, -, hroute, -⟩ := ok_parts finite adj origs dests tol g h
  unfold routeOkWith at hroute
  simp only [Bool.and_eq_true, List.all_eq_true, List.mem_range] at hroute
  obtain ⟨⟨hstart, hlinks⟩, hacc⟩ := hroute
  -- the run over the whole walk succeeds and ends in a state the checker has validated
  cases hs0 : stepEv adj origs RSt.init (nodeAt g 0) with
  | none => simp [hs0] at hstart
  | some s0 =>
    simp only [hs0, decide_eq_true_eq] at hstart
    obtain ⟨s', hrun, hmem⟩ := run_in_states adj origs g _ hlinks w s0 hstart
    have hfull : runFrom adj origs g RSt.init (0 :: l) = some s' := by
      simp [runFrom, hs0, hrun]
    have hinv := run_inv adj origs g (0 :: l) RSt.init s' [] [] (inv_init adj origs) hfull
    simp only [List.nil_append] at hinv
    have hacc' := hacc s' hmem
    unfold accepting at hacc'
    cases hlast : s'.last with
    | none => simp [hlast] at hacc'
    | some d =>
      simp only [hlast, List.contains_iff_mem] at hacc'
      have hgl : (arrivals g (0 :: l)).getLast? = some d := by rw [← hinv.last, hlast]
      refine ⟨?_, hinv.orig, ?_, ?_, ?_⟩
      · intro hnil; rw [hnil] at hgl; simp at hgl
      · intro d' hd'
        rw [hgl] at hd'
        cases hd'; exact hacc'
      · exact hinv.chain.imp (fun {a b} hab => (adjOk_iff adj a b).mp hab)
      · intro k
        obtain ⟨sk, hk⟩ := run_prefix adj origs g (0 :: l) RSt.init s' k hfull
        have hik := run_inv adj origs g ((0 :: l).take k) RSt.init sk [] [] (inv_init adj origs) hk
        simp only [List.nil_append] at hik
        exact ⟨sk.pending, hik.split.symm⟩

/-! ### times -/

def C15_times_statement : Prop :=
  ∀ (finite : α → Bool) (adj : Array (Nat × Nat)) (origs dests : List Nat) (tol : α) (g : Graph α),
    estNetOk finite adj origs dests tol g = true →
    ∀ i < g.size, ∃ t, (nodeAt g i).ts = some t ∧ finite t = true ∧ finite (nodeAt g i).ttn = true ∧
      0 ≤ t ∧ 0 ≤ (nodeAt g i).ttn

theorem C15_times : C15_times_statement (α := α) := by
  intro finite adj origs dests tol g h i hi
  obtain ⟨-, -, -, hf, hn, -⟩ := ok_parts finite adj origs dests tol g h
  obtain ⟨t, ht, htv⟩ := fin_set finite g hf hi
  unfold finOk at hf
  unfold nonnegOk at hn
  simp only [List.all_eq_true, List.mem_range, Bool.and_eq_true, decide_eq_true_eq] at hf hn
  have h1 := hf i hi
  have h2 := hn i hi
  rw [ht] at h1
  rw [htv] at h2
  exact ⟨t, ht, h1.1, h1.2, h2.1, h2.2⟩

def C15_time_eq_statement : Prop :=
  ∀ (finite : α → Bool) (adj : Array (Nat × Nat)) (origs dests : List Nat) (tol : α) (g : Graph α),
    estNetOk finite adj origs dests tol g = true →
    ∀ i < g.size, i ≠ 0 → ∀ (p : Nat) (tp ti : α), p = (nodeAt g i).prev →
      (nodeAt g p).next = i →          -- `p` is the primary predecessor: it reaches `i` by its primary link
      (nodeAt g p).ts = some tp → (nodeAt g i).ts = some ti →
      |ti - (tp + (nodeAt g p).ttn)| ≤ tol

theorem C15_time_eq : C15_time_eq_statement (α := α) := by
  intro finite adj origs dests tol g h i hi h0 p tp ti hp hpn htp hti
  obtain ⟨hl, -, -, -, -, ht, -⟩ := ok_parts finite adj origs dests tol g h
  have hplt : p < g.size := hp ▸ (links_node g hl i hi).prev_lt
  have := tight_at tol g ht hplt (hpn ▸ h0)
  rw [hpn] at this
  simpa [tsv, htp, hti] using this

def C15_time_le_statement : Prop :=
  ∀ (finite : α → Bool) (adj : Array (Nat × Nat)) (origs dests : List Nat) (tol : α) (g : Graph α),
    estNetOk finite adj origs dests tol g = true →
    ∀ q < g.size, ∀ i, i ≠ 0 → ∀ tq ti : α, (nodeAt g q).ts = some tq → (nodeAt g i).ts = some ti →
      ((nodeAt g q).next = i → ti ≤ tq + (nodeAt g q).ttn + tol) ∧
      ((nodeAt g q).nextAlt = i → ti ≤ tq + tol ∧ ti ≤ tq + (nodeAt g q).ttn + tol)

theorem C15_time_le : C15_time_le_statement (α := α) := by
  intro finite adj origs dests tol g h q hq i h0 tq ti htq hti
  obtain ⟨hl, -, -, -, hn, ht, ha⟩ := ok_parts finite adj origs dests tol g h
  constructor
  · intro hqi
    have := tight_at tol g ht hq (hqi ▸ h0)
    rw [hqi] at this
    have := (abs_le.mp this).2
    simp only [tsv, htq, hti, Option.getD_some] at this
    linarith
  · intro hqi
    have := alt_at tol g ha hq (hqi ▸ h0)
    rw [hqi] at this
    simp only [tsv, htq, hti, Option.getD_some] at this
    unfold nonnegOk at hn
    simp only [List.all_eq_true, List.mem_range, Bool.and_eq_true, decide_eq_true_eq] at hn
    have := (hn q hq).2
    exact ⟨by linarith, by linarith⟩

/-! ### running time -/

/-- general tolerance: the difference of two scheduled times is bracketed by walk durations -/
def C15_running_time_tol_statement : Prop :=
  ∀ (finite : α → Bool) (adj : Array (Nat × Nat)) (origs dests : List Nat) (tol : α) (g : Graph α),
    estNetOk finite adj origs dests tol g = true →
    ∀ t0 tn : α, (nodeAt g 0).ts = some t0 → (nodeAt g (g.size - 1)).ts = some tn →
      (∀ l, Walk g 0 l (g.size - 1) → tn - t0 ≤ walkDur g 0 l + (l.length : α) * tol) ∧
      (∃ l, Walk g 0 l (g.size - 1) ∧ IsPrimary g 0 l ∧ walkDur g 0 l ≤ tn - t0 + (l.length : α) * tol)

theorem C15_running_time_tol : C15_running_time_tol_statement (α := α) := by
  intro finite adj origs dests tol g h t0 tn h0 hn
  obtain ⟨hl, hr, -, -, -, ht, ha⟩ := ok_parts finite adj origs dests tol g h
  have h2 := links_size g hl
  have e0 : tsv (nodeAt g 0) = t0 := by simp [tsv, h0]
  have en : tsv (nodeAt g (g.size - 1)) = tn := by simp [tsv, hn]
  constructor
  · intro l w
    have := walk_upper tol g ht ha w
    rw [e0, en] at this; linarith
  · obtain ⟨l, w, p⟩ := exists_primary_walk g _ hl hr g.size 0 (by omega) (by omega)
    refine ⟨l, w, p, ?_⟩
    have := primary_lower tol g ht w p
    rw [e0, en] at this; linarith

/-- **running time.**  With exact times (tol = 0): last − first scheduled time is the duration of the
    primary walk and no start-to-end walk is faster; `get_running_time_hours` is that number in hours. -/
def C15_running_time_statement : Prop :=
  ∀ (finite : α → Bool) (adj : Array (Nat × Nat)) (origs dests : List Nat) (g : Graph α),
    estNetOk finite adj origs dests 0 g = true →
    ∀ t0 tn : α, (nodeAt g 0).ts = some t0 → (nodeAt g (g.size - 1)).ts = some tn →
      (∀ l, Walk g 0 l (g.size - 1) → tn - t0 ≤ walkDur g 0 l) ∧
      (∃ l, Walk g 0 l (g.size - 1) ∧ walkDur g 0 l = tn - t0) ∧
      (∀ c : α, c ≠ 0 → runningTimeHours c t0 tn * c = tn - t0)

theorem C15_running_time : C15_running_time_statement (α := α) := by
  intro finite adj origs dests g h t0 tn h0 hn
  obtain ⟨hu, l, w, _, hlow⟩ := C15_running_time_tol finite adj origs dests 0 g h t0 tn h0 hn
  refine ⟨fun l w => by have := hu l w; simpa using this, ⟨l, w, ?_⟩, ?_⟩
  · have := hu l w
    simp only [mul_zero, add_zero] at this hlow
    exact le_antisymm hlow this
  · intro c hc
    unfold runningTimeHours
    exact div_mul_cancel₀ _ hc

/-! ### the forward pass -/

/-- what "the forward pass computes shortest-path times" means for a graph `g'` -/
def ShortestFromStart (depart : α) (g' : Graph α) : Prop :=
  ∀ k < g'.size, ∃ t, (nodeAt g' k).ts = some t ∧
    (∀ l, Walk g' 0 l k → t ≤ depart + walkDur g' 0 l) ∧
    (∃ l, Walk g' 0 l k ∧ t = depart + walkDur g' 0 l)

/-- FULL statement (not proved: needs the relinking invariant of the Dijkstra-like loop): on every
    well-linked acyclic graph with non-negative durations and no time set, the forward pass succeeds
    with shortest-path times -/
def C15_forward_spec_statement : Prop :=
  ∀ (g : Graph α) (depart : α), linksOk g = true → rankOk g (computeRank g) = true →
    (∀ i < g.size, (nodeAt g i).ts = none ∧ 0 ≤ (nodeAt g i).ttn) →
    ∃ g', updateForward g depart = .ok g' ∧ ShortestFromStart depart g'

/-- PARTIAL: with the explicit, decidable hypothesis that the output passes `fwdCheck` (the driver
    evaluates it on every generated case; FORCED in the sense that nothing is proved about the loop itself) -/
def C15_forward_spec_partial_statement : Prop :=
  ∀ (finite : α → Bool) (g g' : Graph α) (depart : α),
    updateForward g depart = .ok g' → fwdCheck finite depart g' = true → ShortestFromStart depart g'

theorem fwdCheck_sound (finite : α → Bool) (g' : Graph α) (depart : α)
    (h : fwdCheck finite depart g' = true) : ShortestFromStart depart g' := by
  unfold fwdCheck at h
  simp only [Bool.and_eq_true] at h
  obtain ⟨⟨⟨hl, hr⟩, hf⟩, ht⟩ := h
  intro k hk
  obtain ⟨t, hts, htv⟩ := fin_set finite g' hf hk
  have h0 := (fwd_facts depart g' ht).1
  refine ⟨t, hts, ?_, ?_⟩
  · intro l w
    have := fwd_walk_upper depart g' ht w
    rw [htv, h0] at this; exact this
  · obtain ⟨l, w, hw⟩ := fwd_attained depart g' _ hl hr ht g'.size k hk
      (le_of_lt (rank_facts g' _ hr hk).1)
    exact ⟨l, w, by rw [← htv]; exact hw⟩

theorem C15_forward_spec_partial : C15_forward_spec_partial_statement (α := α) := by
  intro finite g g' depart _ h
  exact fwdCheck_sound finite g' depart h

/-! ### what the passes leave alone -/

/-- the forward pass writes `time_sched`, `idx_next`, `idx_prev` only; the backward pass additionally
    exchanges `time_to_next` / `dist_to_next` between relinked nodes.  Neither changes the length of the
    vector, the event (link, type) of a node, its speed, or its alternate links. -/
def C15_passes_frame_statement : Prop :=
  (∀ (g g' : Graph α) (depart : α), updateForward g depart = .ok g' →
    g'.size = g.size ∧ ∀ i, (nodeAt g' i).ty = (nodeAt g i).ty ∧ (nodeAt g' i).link = (nodeAt g i).link ∧
      (nodeAt g' i).ttn = (nodeAt g i).ttn ∧ (nodeAt g' i).dist = (nodeAt g i).dist ∧
      (nodeAt g' i).speed = (nodeAt g i).speed ∧
      (nodeAt g' i).nextAlt = (nodeAt g i).nextAlt ∧ (nodeAt g' i).prevAlt = (nodeAt g i).prevAlt) ∧
  (∀ (g g' : Graph α), updateBackward g = .ok g' →
    g'.size = g.size ∧ ∀ i, (nodeAt g' i).ty = (nodeAt g i).ty ∧ (nodeAt g' i).link = (nodeAt g i).link ∧
      (nodeAt g' i).speed = (nodeAt g i).speed ∧
      (nodeAt g' i).nextAlt = (nodeAt g i).nextAlt ∧ (nodeAt g' i).prevAlt = (nodeAt g i).prevAlt)

theorem C15_passes_frame : C15_passes_frame_statement (α := α) := by
  constructor
  · intro g g' depart h
    obtain ⟨hs, hn⟩ := updateForward_frame g g' depart h
    refine ⟨hs, fun i => ?_⟩
    obtain ⟨a1, a2, a3, a4, a5, a6, a7⟩ := hn i
    exact ⟨a7, a6, a1, a2, a3, a4, a5⟩
  · intro g g' h
    obtain ⟨hs, hn⟩ := updateBackward_frame g g' h
    refine ⟨hs, fun i => ?_⟩
    obtain ⟨a1, a2, a3, a4, a5⟩ := hn i
    exact ⟨a5, a4, a1, a2, a3⟩

end checker

/-! ## Non-vacuity: a concrete network with one siding (ℚ)

  Track: link 1 (origin) → link 2 (main) or link 3 (siding) → link 4 (destination).
  Nodes: 0,1 start fakes; 2 A1; 3 C1 (split: alternate 8); 4 A2; 5 C2; 6 A4 (join: alternate predecessor 11);
  7 C4; 8 split fake; 9 A3; 10 C3; 11 join fake; 12 end-chain fake; 13 end node.
  The siding is 30 s slower; departure at 100 s. -/
namespace Ex

def adjEx : Array (Nat × Nat) := #[(0, 0), (2, 3), (4, 0), (4, 0), (0, 0)]

def mk (ts : Option ℚ) (ttn : ℚ) (nx na pv pa link : Nat) (ty : Ty) : Node ℚ :=
  ⟨ts, ttn, 0, 0, nx, na, pv, pa, link, ty⟩

/-- the node vector as `make_est_times` leaves it before the passes -/
def gPre : Graph ℚ := #[
  mk none 0 1 0 0 0 0 .fake, mk none 0 2 0 0 0 0 .fake,
  mk none 0 3 0 1 0 1 .arrive, mk none 100 4 8 2 0 1 .clear,
  mk none 10 5 0 3 0 2 .arrive, mk none 50 6 0 4 0 2 .clear,
  mk none 10 7 0 5 11 4 .arrive, mk none 0 12 0 6 0 4 .clear,
  mk none 100 9 0 3 0 0 .fake, mk none 10 10 0 8 0 3 .arrive, mk none 80 11 0 9 0 3 .clear,
  mk none 0 6 0 10 0 0 .fake, mk none 0 13 0 7 0 0 .fake, mk none 0 0 0 12 0 0 .fake]

/-- the finished network (after both passes) -/
def gEx : Graph ℚ := #[
  mk (some 100) 0 1 0 0 0 0 .fake, mk (some 100) 0 2 0 0 0 0 .fake,
  mk (some 100) 0 3 0 1 0 1 .arrive, mk (some 100) 100 4 8 2 0 1 .clear,
  mk (some 200) 10 5 0 3 0 2 .arrive, mk (some 210) 50 6 0 4 0 2 .clear,
  mk (some 260) 10 7 0 5 11 4 .arrive, mk (some 270) 0 12 0 6 0 4 .clear,
  mk (some 70) 100 9 0 3 0 0 .fake, mk (some 170) 10 10 0 8 0 3 .arrive, mk (some 180) 80 11 0 9 0 3 .clear,
  mk (some 260) 0 6 0 10 0 0 .fake, mk (some 270) 0 13 0 7 0 0 .fake, mk (some 270) 0 0 0 12 0 0 .fake]

def allFin : ℚ → Bool := fun _ => true

theorem gEx_ok : estNetOk allFin adjEx [1] [4] 0 gEx = true := by decide +kernel

/-- the model's passes produce exactly this network from the pre-pass vector -/
theorem passes_example :
    (match updateForward gPre 100 with
      | .ok mid =>
        fwdCheck allFin 100 mid &&
        (match updateBackward mid with
          | .ok fin => (List.range 14).all (fun i =>
              (nodeAt fin i).ts == (nodeAt gEx i).ts && (nodeAt fin i).next == (nodeAt gEx i).next &&
              (nodeAt fin i).prev == (nodeAt gEx i).prev && (nodeAt fin i).ttn == (nodeAt gEx i).ttn)
          | _ => false)
      | _ => false) = true := by decide +kernel

-- the walk through the siding: 0 1 2 3 8 9 10 11 6 7 12 13
def sidingWalk : List Nat := [1, 2, 3, 8, 9, 10, 11, 6, 7, 12, 13]

theorem sidingWalk_walk : Walk gEx 0 sidingWalk 13 := by
  unfold sidingWalk
  repeat (first
    | exact Walk.nil _
    | refine Walk.cons ⟨by decide, by decide, by decide +kernel⟩ ?_)

example : ∀ j, j ≠ 0 → ((nodeAt gEx 3).next = j ∨ (nodeAt gEx 3).nextAlt = j) →
    j < gEx.size ∧ ((nodeAt gEx j).prev = 3 ∨ (nodeAt gEx j).prevAlt = 3) :=
  fun j hj hs => ((C15_links allFin adjEx [1] [4] 0 gEx gEx_ok 3 (by decide) j hj).1 hs)

example : sidingWalk.length < gEx.size ∧ 13 < gEx.size ∧
    (succs (nodeAt gEx 13) = [] ↔ 13 + 1 = gEx.size) ∧ ∃ l', Walk gEx 13 l' (gEx.size - 1) :=
  C15_walks allFin adjEx [1] [4] 0 gEx gEx_ok sidingWalk 13 sidingWalk_walk

example : RouteSpec adjEx [1] [4] gEx (0 :: sidingWalk) :=
  C15_route allFin adjEx [1] [4] 0 gEx gEx_ok sidingWalk sidingWalk_walk

-- … and what the route clause says here: links 1, 3, 4 are entered, in this order
example : arrivals gEx (0 :: sidingWalk) = [1, 3, 4] := by decide +kernel

example : ∃ t, (nodeAt gEx 8).ts = some t ∧ allFin t = true ∧ allFin (nodeAt gEx 8).ttn = true ∧
    0 ≤ t ∧ 0 ≤ (nodeAt gEx 8).ttn :=
  C15_times allFin adjEx [1] [4] 0 gEx gEx_ok 8 (by decide)

-- node 6 (the join) and its primary predecessor 5
example : |(260 : ℚ) - (210 + (nodeAt gEx 5).ttn)| ≤ 0 :=
  C15_time_eq allFin adjEx [1] [4] 0 gEx gEx_ok 6 (by decide) (by decide) 5 210 260 (by decide +kernel)
    (by decide +kernel) (by decide +kernel) (by decide +kernel)

-- node 6 and its other predecessor, the join fake 11; node 8 (split fake) and its split node 3
example : (260 : ℚ) ≤ 260 + (nodeAt gEx 11).ttn + 0 :=
  (C15_time_le allFin adjEx [1] [4] 0 gEx gEx_ok 11 (by decide) 6 (by decide) 260 260 (by decide +kernel)
    (by decide +kernel)).1 (by decide +kernel)
example : (70 : ℚ) ≤ 100 + 0 :=
  ((C15_time_le allFin adjEx [1] [4] 0 gEx gEx_ok 3 (by decide) 8 (by decide) 100 70 (by decide +kernel)
    (by decide +kernel)).2 (by decide +kernel)).1

-- running time: 170 s, the main route; the siding walk takes 200 s
example : (270 : ℚ) - 100 ≤ walkDur gEx 0 sidingWalk :=
  (C15_running_time allFin adjEx [1] [4] gEx gEx_ok 100 270 (by decide +kernel) (by decide +kernel)).1
    sidingWalk sidingWalk_walk
example : walkDur gEx 0 sidingWalk = 200 := by decide +kernel

-- the forward pass on the pre-pass vector: hypotheses of the partial theorem are met
example : ∃ g', updateForward gPre 100 = .ok g' ∧ ShortestFromStart 100 g' := by
  have h : (match updateForward gPre (100 : ℚ) with
      | .ok mid => fwdCheck allFin 100 mid | _ => false) = true := by decide +kernel
  cases hr : updateForward gPre (100 : ℚ) with
  | ok g' =>
    rw [hr] at h
    exact ⟨g', rfl, C15_forward_spec_partial allFin gPre g' 100 hr h⟩
  | err e => rw [hr] at h; cases h
  | panic e => rw [hr] at h; cases h

-- the frame theorem on the same run: the forward pass succeeds and keeps the 14 nodes
example : ∃ g', updateForward gPre 100 = .ok g' ∧ g'.size = gPre.size ∧
    (nodeAt g' 8).ttn = (nodeAt gPre 8).ttn := by
  have h : (updateForward gPre (100 : ℚ)).isOk = true := by decide +kernel
  cases hr : updateForward gPre (100 : ℚ) with
  | ok g' =>
    have := (C15_passes_frame (α := ℚ)).1 gPre g' 100 hr
    exact ⟨g', rfl, this.1, (this.2 8).2.2.1⟩
  | err e => rw [hr] at h; cases h
  | panic e => rw [hr] at h; cases h

end Ex

/-! ## What the unrepaired code did (before C15-fix-1..3): the clauses are not vacuous

  A miniature of what the unrepaired `update_times_backward` returned for two origins (replay of the real
  run: /verif/agents/out/C15-replay-fix1-multi-origin.json, there 105 s): origins link 1 and link 2, the
  second 30 s slower, both leading to link 3, departure at 0.  The slower origin's branch stamped its
  shifted time on both start nodes.  The checker rejects it (`alt` clause; also `nonneg`), and indeed
  last − first (130) is not the fastest trip (100). -/
namespace Defect

def adjD : Array (Nat × Nat) := #[(0, 0), (3, 0), (3, 0), (0, 0)]

def gBad : Graph ℚ := #[
  Ex.mk (some (-30)) 0 1 0 0 0 0 .fake, Ex.mk (some (-30)) 0 2 4 0 0 0 .fake,
  Ex.mk (some (-30)) 0 3 0 1 0 2 .arrive, Ex.mk (some (-30)) 80 9 0 2 0 2 .clear,
  Ex.mk (some 0) 0 5 0 1 0 0 .fake, Ex.mk (some 0) 0 6 0 4 0 1 .arrive, Ex.mk (some 0) 50 7 0 5 0 1 .clear,
  Ex.mk (some 50) 50 8 0 6 9 3 .arrive, Ex.mk (some 100) 0 10 0 7 0 3 .clear,
  Ex.mk (some 50) 0 7 0 3 0 0 .fake, Ex.mk (some 100) 0 11 0 8 0 0 .fake, Ex.mk (some 100) 0 0 0 10 0 0 .fake]

theorem unrepaired_output_rejected :
    (estNetCheck Ex.allFin adjD [1, 2] [3] 0 gBad).alt = false ∧
    (estNetCheck Ex.allFin adjD [1, 2] [3] 0 gBad).nonneg = false ∧
    (estNetCheck Ex.allFin adjD [1, 2] [3] 0 gBad).links = true ∧
    (estNetCheck Ex.allFin adjD [1, 2] [3] 0 gBad).route = true := by decide +kernel

/-- the statement "last − first is the fastest trip" is FALSE of that output: the walk through the first
    origin takes 100 s, last − first is 130 s -/
theorem running_time_counterexample :
    ¬ ((100 : ℚ) - (-30) ≤ walkDur gBad 0 [1, 4, 5, 6, 7, 8, 10, 11]) := by decide +kernel

end Defect

end Altrios.Proofs.C15
