import Altrios.Network
import Proofs.Lemmas.Net
import Mathlib.Data.List.Forall2
import Mathlib.Data.List.Perm.Basic
import Mathlib.Algebra.Order.Ring.Rat
/-
  C16 — network validation accepts exactly the consistent networks and never aborts; the legacy
  file layout yields the same network.

  Model: `Altrios/Network.lean` (`validateNet`, a transcription of `<[Link] as ObjState>::validate`
  with every slice index / `unwrap` a checked access, over numbers with NaN and ±∞).
  Specification: `Altrios.Net.Consistent` (same file, section "Specification"): the documented rules,
  one conjunct per rule, quantifying over all elements / all pairs.
  The model is tied to the Rust code by the differential correspondence of block `net`.
-/
set_option linter.unusedSectionVars false
namespace Altrios.Proofs.C16
open Altrios Altrios.Net Altrios.Proofs.NetL

variable {α : Type} [LinearOrder α]

/-! ## Statements -/

/-- **C16 (accept ⇔ rules).**  For every number configuration and EVERY list of links (any
    indices, any NaN/±∞ field values) the validator answers `ok` exactly on the consistent networks. -/
def C16_validate_iff_statement : Prop :=
  ∀ (c : NumCfg α) (n : List (Link α)), validateNet c n = .ok ↔ Consistent c n

/-- **C16 (never aborts).**  No input makes the validator panic: every violation, including
    references outside the network, is an error value. -/
def C16_validate_total_statement : Prop :=
  ∀ (c : NumCfg α) (n : List (Link α)), validateNet c n ≠ .panic

/-- every inconsistent network is *reported* (`err`), every consistent one accepted -/
def C16_verdict_statement : Prop :=
  ∀ (c : NumCfg α) (n : List (Link α)),
    (Consistent c n → validateNet c n = .ok) ∧ (¬ Consistent c n → validateNet c n = .err)

/-- two links that differ only in the order in which the hash map `speed_sets` lists its entries -/
def LinkEquiv (l l' : Link α) : Prop :=
  ∃ ss', ss'.Perm l.speedSets ∧ l' = { l with speedSets := ss' }

/-- two networks that differ only in hash-map iteration order -/
def NetEquiv (n n' : List (Link α)) : Prop := List.Forall₂ LinkEquiv n n'

/-- **C16 (hash-map order).**  `speed_sets` is a `HashMap`; the validator iterates over
    `.values()` in an order the code does not control.  The verdict does not depend on it. -/
def C16_order_independent_statement : Prop :=
  ∀ (c : NumCfg α) (n n' : List (Link α)), NetEquiv n n' → validateNet c n = validateNet c n'

/-- a network the legacy layout can express: no type-neutral `speed_set`, and `speed_sets` is a
    map (one entry per train type) -/
def LegacyExpressible (n : List (Link α)) : Prop :=
  ∀ l ∈ n, l.speedSet = none ∧ (l.speedSets.map Prod.fst).Nodup

/-- **C16 (legacy layout, same network).**  Writing a network in the legacy layout and loading it
    through `From<LinkOld>` gives back the same network. -/
def C16_legacy_roundtrip_statement : Prop :=
  ∀ (n : List (Link α)), LegacyExpressible n → fromOld (toOld n) = n

/-- **C16 (legacy layout, same verdict).**  Any legacy network `o` — duplicated train types
    included — and any current-layout network holding the same data (equal to the conversion up
    to hash-map order) get the same verdict. -/
def C16_legacy_verdict_statement : Prop :=
  ∀ (c : NumCfg α) (o : List (LinkOld α)) (n : List (Link α)),
    NetEquiv (fromOld o) n → validateNet c (fromOld o) = validateNet c n

/-- the conversion keeps, for each train type, the LAST legacy entry of that type, and the result
    is a map (keys distinct) -/
def C16_legacy_last_wins_statement : Prop :=
  ∀ (os : List (OldSpeedSet α)),
    ((fromOldSets os).map Prod.fst).Nodup ∧
    ∀ k, (fromOldSets os).lookup k =
      (os.reverse.find? (fun o => decide (o.trainType = k))).map oldToSet

/-! ## accept ⇔ rules, never panics -/

theorem slotFake_ok_iff (c : NumCfg α) (l : Link α) : slotFake c l = .ok ↔ DummyLink c l := by
  unfold slotFake
  constructor
  · intro h
    cases hv : validateLink c l with
    | panic => simp [hv] at h
    | err => simp [hv] at h
    | ok =>
      simp only [hv] at h
      by_cases h0 : l.idxCurr = 0
      · exact (validateLink_fake c l h0).mp hv
      · simp [h0] at h
  · intro h
    have hv := (validateLink_fake c l h.curr).mpr h
    simp [hv, h.curr]

theorem slotReal_ok_iff (c : NumCfg α) (l : Link α) : slotReal c l = .ok ↔ LinkOK c l := by
  unfold slotReal
  constructor
  · intro h
    cases hv : validateLink c l with
    | panic => simp [hv] at h
    | err => simp [hv] at h
    | ok =>
      simp only [hv] at h
      by_cases h0 : l.idxCurr = 0
      · simp [h0] at h
      · exact (validateLink_real c l h0).mp hv
  · intro h
    have hv := (validateLink_real c l h.real).mpr h
    simp [hv, h.real]

theorem slotFake_ne_panic (c : NumCfg α) (l : Link α) : slotFake c l ≠ .panic := by
  unfold slotFake
  have := validateLink_ne_panic c l
  cases hv : validateLink c l with
  | panic => exact absurd hv this
  | err => simp
  | ok => simp only; split_ifs <;> simp

theorem slotReal_ne_panic (c : NumCfg α) (l : Link α) : slotReal c l ≠ .panic := by
  unfold slotReal
  have := validateLink_ne_panic c l
  cases hv : validateLink c l with
  | panic => exact absurd hv this
  | err => simp
  | ok => simp only; split_ifs <;> simp

/-- the first pass: the dummy and every physical link on its own -/
theorem phase1_ok_iff (c : NumCfg α) (l0 : Link α) (rest : List (Link α)) :
    combine (slotFake c l0 :: rest.map (slotReal c)) = .ok ↔
      (DummyLink c l0 ∧ ∀ l ∈ rest, LinkOK c l) := by
  rw [combine_ok_iff]
  simp only [List.mem_cons, List.mem_map, forall_eq_or_imp, slotFake_ok_iff, forall_exists_index,
    and_imp, forall_apply_eq_imp_iff₂, slotReal_ok_iff]

theorem phase1_ne_panic (c : NumCfg α) (l0 : Link α) (rest : List (Link α)) :
    combine (slotFake c l0 :: rest.map (slotReal c)) ≠ .panic := by
  apply combine_ne_panic
  intro o ho
  rw [List.mem_cons, List.mem_map] at ho
  rcases ho with rfl | ⟨l, _, rfl⟩
  · exact slotFake_ne_panic c l0
  · exact slotReal_ne_panic c l

theorem phase2_ne_panic (n : List (Link α)) (i : Nat) (rest : List (Link α)) :
    combine (crossAll n i rest) ≠ .panic := by
  apply combine_ne_panic
  intro o ho
  rw [mem_crossAll] at ho
  obtain ⟨k, l, _, rfl⟩ := ho
  exact crossLink_ne_panic n _ l

theorem C16_validate_total : C16_validate_total_statement (α := α) := by
  intro c n
  unfold validateNet
  split_ifs with hlen
  · simp
  · cases n with
    | nil => simp at hlen
    | cons l0 rest =>
      simp only
      have h1 := phase1_ne_panic c l0 rest
      cases hc : combine (slotFake c l0 :: rest.map (slotReal c)) with
      | panic => exact absurd hc h1
      | err => simp
      | ok => exact phase2_ne_panic _ _ _

/-- `Consistent` in terms of the head/tail decomposition the validator uses -/
theorem consistent_cons_iff (c : NumCfg α) (l0 : Link α) (rest : List (Link α)) :
    Consistent c (l0 :: rest) ↔
      (1 ≤ rest.length ∧ DummyLink c l0 ∧ (∀ l ∈ rest, LinkOK c l) ∧
        ∀ k l, rest[k]? = some l → CrossOK (l0 :: rest) (1 + k) l) := by
  constructor
  · intro h
    refine ⟨by have := h.size; simp at this; omega, ?_, ?_, ?_⟩
    · obtain ⟨l0', rest', he, hd⟩ := h.dummy
      cases he; exact hd
    · intro l hl
      obtain ⟨k, hk⟩ := List.getElem?_of_mem hl
      exact h.links (k + 1) l (by omega) (by simpa using hk)
    · intro k l hk
      have hk' : (l0 :: rest)[1 + k]? = some l := by rw [Nat.add_comm]; simpa using hk
      have h1 : 1 ≤ 1 + k := by omega
      exact ⟨h.index _ l h1 hk', h.refs _ l h1 hk', h.flip _ l h1 hk', h.nextRecip _ l h1 hk',
        h.prevRecip _ l h1 hk', h.switchNext _ l h1 hk', h.switchPrev _ l h1 hk'⟩
  · rintro ⟨hlen, hd, hl, hx⟩
    have hget : ∀ i l, 1 ≤ i → (l0 :: rest)[i]? = some l → ∃ k, i = 1 + k ∧ rest[k]? = some l := by
      intro i l hi h
      obtain ⟨k, rfl⟩ : ∃ k, i = k + 1 := ⟨i - 1, by omega⟩
      exact ⟨k, by omega, by simpa using h⟩
    refine ⟨by simp; omega, ⟨l0, rest, rfl, hd⟩, ?_, ?_, ?_, ?_, ?_, ?_, ?_, ?_⟩
    · intro i l hi h
      obtain ⟨k, rfl, hk⟩ := hget i l hi h
      exact hl l (List.mem_of_getElem? hk)
    · intro i l hi h
      obtain ⟨k, rfl, hk⟩ := hget i l hi h
      exact (hx k l hk).index
    · intro i l hi h
      obtain ⟨k, rfl, hk⟩ := hget i l hi h
      exact (hx k l hk).refs
    · intro i l hi h
      obtain ⟨k, rfl, hk⟩ := hget i l hi h
      exact (hx k l hk).flip
    · intro i l hi h
      obtain ⟨k, rfl, hk⟩ := hget i l hi h
      exact (hx k l hk).nextRecip
    · intro i l hi h
      obtain ⟨k, rfl, hk⟩ := hget i l hi h
      exact (hx k l hk).prevRecip
    · intro i l hi h
      obtain ⟨k, rfl, hk⟩ := hget i l hi h
      exact (hx k l hk).switchNext
    · intro i l hi h
      obtain ⟨k, rfl, hk⟩ := hget i l hi h
      exact (hx k l hk).switchPrev

theorem C16_validate_iff : C16_validate_iff_statement (α := α) := by
  intro c n
  cases n with
  | nil =>
    simp only [validateNet, List.length_nil, Nat.zero_lt_succ, if_true]
    constructor
    · intro h; cases h
    · intro h; have := h.size; simp at this
  | cons l0 rest =>
    rw [consistent_cons_iff]
    unfold validateNet
    by_cases hlen : (l0 :: rest).length < 2
    · rw [if_pos hlen]
      constructor
      · intro h; cases h
      · rintro ⟨h, _⟩; simp at hlen; omega
    · rw [if_neg hlen]
      simp only
      have hlen' : 1 ≤ rest.length := by simp at hlen; omega
      cases hc : combine (slotFake c l0 :: rest.map (slotReal c)) with
      | panic => exact absurd hc (phase1_ne_panic c l0 rest)
      | err =>
        simp only
        constructor
        · intro h; cases h
        · rintro ⟨_, hd, hl, _⟩
          rw [(phase1_ok_iff c l0 rest).mpr ⟨hd, hl⟩] at hc; cases hc
      | ok =>
        simp only
        obtain ⟨hd, hl⟩ := (phase1_ok_iff c l0 rest).mp hc
        -- after the first pass: exactly the entry at position 0 has `idx_curr = 0`
        have H0 : ∀ j m, (l0 :: rest)[j]? = some m → (m.idxCurr = 0 ↔ j = 0) := by
          intro j m hj
          cases j with
          | zero => simp at hj; subst hj; simp [hd.curr]
          | succ k =>
            have : m ∈ rest := List.mem_of_getElem? (by simpa using hj)
            simp [(hl m this).real]
        have hcross : ∀ k l, rest[k]? = some l →
            (crossLink (l0 :: rest) (1 + k) l = .ok ↔ CrossOK (l0 :: rest) (1 + k) l) := by
          intro k l hk
          have hok := hl l (List.mem_of_getElem? hk)
          exact crossLink_ok_iff _ _ l H0 hok.real (fun h => (hok.flipDistinct h).1) hok.nextAlt
            hok.prevAlt
        rw [combine_ok_iff]
        constructor
        · intro h
          refine ⟨hlen', hd, hl, fun k l hk => (hcross k l hk).mp ?_⟩
          exact h _ ((mem_crossAll _ _ _ _).mpr ⟨k, l, hk, rfl⟩)
        · rintro ⟨_, _, _, hx⟩ o ho
          obtain ⟨k, l, hk, rfl⟩ := (mem_crossAll _ _ _ _).mp ho
          exact (hcross k l hk).mpr (hx k l hk)

theorem C16_verdict : C16_verdict_statement (α := α) := by
  intro c n
  refine ⟨(C16_validate_iff c n).mpr, fun h => ?_⟩
  cases hv : validateNet c n with
  | ok => exact absurd ((C16_validate_iff c n).mp hv) h
  | err => rfl
  | panic => exact absurd hv (C16_validate_total c n)

/-- a reference outside the network (at any physical link, in any of the five reference fields)
    is reported as an error -/
theorem C16_out_of_range_is_error (c : NumCfg α) (n : List (Link α)) (i : Nat) (l : Link α)
    (hi : 1 ≤ i) (hl : n[i]? = some l)
    (hoob : n.length ≤ l.idxFlip ∨ n.length ≤ l.idxNext ∨ n.length ≤ l.idxNextAlt ∨
      n.length ≤ l.idxPrev ∨ n.length ≤ l.idxPrevAlt) :
    validateNet c n = .err := by
  apply (C16_verdict c n).2
  intro h
  have := h.refs i l hi hl
  omega

/-- The two "no coincident switch points" rules say the same thing once references are
    reciprocated: the mirror-image rule follows from the other rules.  (So dropping ONE of the two
    coincident-switch tests from the Rust loop does not change any verdict — an equivalent mutant.) -/
theorem switchPrev_of_switchNext (c : NumCfg α) (n : List (Link α))
    (links : ∀ i l, 1 ≤ i → n[i]? = some l → LinkOK c l)
    (prevRecip : ∀ i l, 1 ≤ i → n[i]? = some l → ∀ j, (j = l.idxPrev ∨ j = l.idxPrevAlt) → j ≠ 0 →
      ∃ m, n[j]? = some m ∧ (m.idxNext = i ∨ m.idxNextAlt = i))
    (switchNext : ∀ i l, 1 ≤ i → n[i]? = some l → l.idxNextAlt ≠ 0 →
      ∀ j, (j = l.idxNext ∨ j = l.idxNextAlt) → ∀ m, n[j]? = some m → m.idxPrevAlt = 0) :
    ∀ i l, 1 ≤ i → n[i]? = some l → l.idxPrevAlt ≠ 0 →
      ∀ j, (j = l.idxPrev ∨ j = l.idxPrevAlt) → ∀ m, n[j]? = some m → m.idxNextAlt = 0 := by
  intro i l hi hl hne j hj m hm
  have hj0 : j ≠ 0 := by
    rcases hj with rfl | rfl
    · exact (links i l hi hl).prevAlt hne
    · exact hne
  obtain ⟨m', hm', hback⟩ := prevRecip i l hi hl j hj hj0
  rw [hm] at hm'; cases hm'
  by_contra hm0
  have := switchNext j m (by omega) hm hm0 i (by rcases hback with h | h <;> simp [h]) l hl
  exact hne this

/-! ## hash-map iteration order -/

theorem LinkEquiv.symm {l l' : Link α} (h : LinkEquiv l l') : LinkEquiv l' l := by
  obtain ⟨ss', hp, rfl⟩ := h
  exact ⟨l.speedSets, hp.symm, rfl⟩

theorem NetEquiv.symm {n n' : List (Link α)} (h : NetEquiv n n') : NetEquiv n' n := by
  unfold NetEquiv at *
  exact List.Forall₂.flip (h.imp (fun _ _ hab => LinkEquiv.symm hab))

theorem NetEquiv.refl (n : List (Link α)) : NetEquiv n n := by
  unfold NetEquiv
  exact List.forall₂_same.mpr (fun l _ => ⟨l.speedSets, List.Perm.refl _, rfl⟩)

theorem speedFields_equiv (c : NumCfg α) (l : Link α) (ss' : List (TrainType × SpeedSet α))
    (hp : ss'.Perm l.speedSets) (h : SpeedFieldsOK c l) :
    SpeedFieldsOK c { l with speedSets := ss' } := by
  unfold SpeedFieldsOK at *
  rcases h with ⟨h1, h2, h3⟩ | ⟨h1, h2⟩
  · refine Or.inl ⟨?_, h2, fun kv hkv => h3 kv (hp.mem_iff.mp hkv)⟩
    intro he
    simp only at he
    rw [he] at hp
    exact h1 (List.Perm.nil_eq hp).symm
  · refine Or.inr ⟨?_, h2⟩
    rw [h1] at hp
    exact List.Perm.eq_nil hp

theorem LinkOK_equiv (c : NumCfg α) {l l' : Link α} (h : LinkEquiv l l') (hok : LinkOK c l) :
    LinkOK c l' := by
  obtain ⟨ss', hp, rfl⟩ := h
  exact ⟨hok.real, hok.length, hok.elevs, hok.headings, speedFields_equiv c l ss' hp hok.speed,
    hok.cats, hok.flipDistinct, hok.nextAlt, hok.prevAlt⟩

theorem DummyLink_equiv (c : NumCfg α) {l l' : Link α} (h : LinkEquiv l l') (hok : DummyLink c l) :
    DummyLink c l' := by
  obtain ⟨ss', hp, rfl⟩ := h
  refine ⟨hok.curr, hok.flip, hok.next, hok.nextAlt, hok.prev, hok.prevAlt, hok.length, hok.elevs,
    hok.headings, ?_, hok.speedSet, hok.cats⟩
  rw [hok.speedSets] at hp
  exact List.Perm.eq_nil hp

/-- position-wise: equivalent networks have equivalent entries -/
theorem NetEquiv.get {n n' : List (Link α)} (h : NetEquiv n n') (i : Nat) (l' : Link α)
    (hl : n'[i]? = some l') : ∃ l, n[i]? = some l ∧ LinkEquiv l l' := by
  unfold NetEquiv at h
  induction h generalizing i with
  | nil => simp at hl
  | cons hab _ ih =>
    cases i with
    | zero => simp at hl; subst hl; exact ⟨_, by simp, hab⟩
    | succ k => simpa using ih k (by simpa using hl)

theorem Consistent_equiv (c : NumCfg α) {n n' : List (Link α)} (h : NetEquiv n n')
    (hc : Consistent c n) : Consistent c n' := by
  have hlen : n.length = n'.length := List.Forall₂.length_eq h
  have hsym := NetEquiv.symm h
  -- an entry of `n'` and the entry of `n` it comes from have the same reference fields
  have back : ∀ (j : Nat) (m' : Link α), n'[j]? = some m' → ∃ m, n[j]? = some m ∧ LinkEquiv m m' :=
    NetEquiv.get h
  have fwd : ∀ (j : Nat) (m : Link α), n[j]? = some m → ∃ m', n'[j]? = some m' ∧ LinkEquiv m m' := by
    intro j m hm
    obtain ⟨m', hm', he⟩ := NetEquiv.get hsym j m hm
    exact ⟨m', hm', LinkEquiv.symm he⟩
  refine ⟨hlen ▸ hc.size, ?_, ?_, ?_, ?_, ?_, ?_, ?_, ?_, ?_⟩
  · obtain ⟨l0, rest, rfl, hd⟩ := hc.dummy
    cases h with
    | cons hab hrest => exact ⟨_, _, rfl, DummyLink_equiv c hab hd⟩
  · intro i l' hi hl'
    obtain ⟨l, hl, he⟩ := back i l' hl'
    exact LinkOK_equiv c he (hc.links i l hi hl)
  · intro i l' hi hl'
    obtain ⟨l, hl, ss', _, rfl⟩ := back i l' hl'
    exact hc.index i l hi hl
  · intro i l' hi hl'
    obtain ⟨l, hl, ss', _, rfl⟩ := back i l' hl'
    rw [← hlen]; exact hc.refs i l hi hl
  · intro i l' hi hl' hne
    obtain ⟨l, hl, ss', _, rfl⟩ := back i l' hl'
    obtain ⟨f, hf, hff⟩ := hc.flip i l hi hl hne
    obtain ⟨f', hf', ss'', _, rfl⟩ := fwd _ f hf
    exact ⟨_, hf', hff⟩
  · intro i l' hi hl' j hj hj0
    obtain ⟨l, hl, ss', _, rfl⟩ := back i l' hl'
    obtain ⟨m, hm, hmm⟩ := hc.nextRecip i l hi hl j hj hj0
    obtain ⟨m', hm', ss'', _, rfl⟩ := fwd _ m hm
    exact ⟨_, hm', hmm⟩
  · intro i l' hi hl' j hj hj0
    obtain ⟨l, hl, ss', _, rfl⟩ := back i l' hl'
    obtain ⟨m, hm, hmm⟩ := hc.prevRecip i l hi hl j hj hj0
    obtain ⟨m', hm', ss'', _, rfl⟩ := fwd _ m hm
    exact ⟨_, hm', hmm⟩
  · intro i l' hi hl' hne j hj m' hm'
    obtain ⟨l, hl, ss', _, rfl⟩ := back i l' hl'
    obtain ⟨m, hm, ss'', _, rfl⟩ := back j m' hm'
    exact hc.switchNext i l hi hl hne j hj m hm
  · intro i l' hi hl' hne j hj m' hm'
    obtain ⟨l, hl, ss', _, rfl⟩ := back i l' hl'
    obtain ⟨m, hm, ss'', _, rfl⟩ := back j m' hm'
    exact hc.switchPrev i l hi hl hne j hj m hm

theorem C16_order_independent : C16_order_independent_statement (α := α) := by
  intro c n n' h
  by_cases hc : Consistent c n
  · rw [(C16_verdict c n).1 hc, (C16_verdict c n').1 (Consistent_equiv c h hc)]
  · have hc' : ¬ Consistent c n' := fun h' => hc (Consistent_equiv c (NetEquiv.symm h) h')
    rw [(C16_verdict c n).2 hc, (C16_verdict c n').2 hc']

/-! ## legacy layout -/

theorem insertKV_append_of_not_mem {κ ν : Type} [DecidableEq κ] (k : κ) (v : ν) (m : List (κ × ν))
    (h : k ∉ m.map Prod.fst) : insertKV k v m = m ++ [(k, v)] := by
  induction m with
  | nil => rfl
  | cons x t ih =>
    obtain ⟨k', v'⟩ := x
    simp only [List.map_cons, List.mem_cons, not_or] at h
    simp only [insertKV, List.cons_append]
    rw [if_neg (fun e => h.1 e.symm), ih h.2]

/-- the legacy entry of one map entry (what `toOldLink` writes) -/
def toOldSet (kv : TrainType × SpeedSet α) : OldSpeedSet α :=
  { speedLimits := kv.2.speedLimits, speedParams := kv.2.speedParams, trainType := kv.1,
    isHeadEnd := kv.2.isHeadEnd }

theorem foldl_insert_toOld (m acc : List (TrainType × SpeedSet α))
    (hm : (m.map Prod.fst).Nodup) (hd : ∀ k ∈ m.map Prod.fst, k ∉ acc.map Prod.fst) :
    (m.map toOldSet).foldl (fun m o => insertKV o.trainType (oldToSet o) m) acc = acc ++ m := by
  induction m generalizing acc with
  | nil => simp
  | cons x t ih =>
    obtain ⟨k, s⟩ := x
    simp only [List.map_cons, List.nodup_cons, List.mem_cons, forall_eq_or_imp] at hm hd
    simp only [List.map_cons, List.foldl_cons]
    have hs : oldToSet (toOldSet (k, s)) = s := rfl
    have hk : (toOldSet (k, s)).trainType = k := rfl
    rw [hs, hk, insertKV_append_of_not_mem _ _ _ hd.1, ih (acc ++ [(k, s)]) hm.2]
    · simp
    · intro k' hk'
      simp only [List.map_append, List.map_cons, List.map_nil, List.mem_append, List.mem_singleton,
        not_or]
      exact ⟨hd.2 k' hk', fun e => hm.1 (e ▸ hk')⟩

theorem fromOldLink_toOldLink (l : Link α) (h1 : l.speedSet = none)
    (h2 : (l.speedSets.map Prod.fst).Nodup) : fromOldLink (toOldLink l) = l := by
  have hsets : fromOldSets (toOldLink l).speedSets = l.speedSets := by
    show (l.speedSets.map toOldSet).foldl (fun m o => insertKV o.trainType (oldToSet o) m) [] = _
    rw [foldl_insert_toOld l.speedSets [] h2 (by simp)]; simp
  unfold fromOldLink
  rw [hsets]
  cases l
  simp_all [toOldLink]

theorem C16_legacy_roundtrip : C16_legacy_roundtrip_statement (α := α) := by
  intro n h
  unfold fromOld toOld
  rw [List.map_map]
  conv_rhs => rw [← List.map_id n]
  apply List.map_congr_left
  intro l hl
  exact fromOldLink_toOldLink l (h l hl).1 (h l hl).2

theorem C16_legacy_verdict : C16_legacy_verdict_statement (α := α) := by
  intro c o n h
  exact C16_order_independent c _ _ h

/-- the special case asked for: the legacy file of a (legacy-expressible) current network gets the
    verdict of the current layout -/
theorem C16_legacy_same_verdict (c : NumCfg α) (n : List (Link α)) (h : LegacyExpressible n) :
    validateNet c (fromOld (toOld n)) = validateNet c n := by
  rw [C16_legacy_roundtrip n h]

theorem lookup_insertKV (k k' : TrainType) (v : SpeedSet α) (m : List (TrainType × SpeedSet α)) :
    (insertKV k' v m).lookup k = if k = k' then some v else m.lookup k := by
  induction m with
  | nil =>
    by_cases h : k = k'
    · subst h; simp [insertKV]
    · have hb : (k == k') = false := beq_eq_false_iff_ne.mpr h
      simp [insertKV, List.lookup, hb, h]
  | cons x t ih =>
    obtain ⟨k'', v''⟩ := x
    simp only [insertKV]
    by_cases h1 : k'' = k'
    · subst h1
      rw [if_pos rfl]
      by_cases h : k = k''
      · subst h; simp [List.lookup]
      · have hb : (k == k'') = false := beq_eq_false_iff_ne.mpr h
        simp [List.lookup, hb, h]
    · rw [if_neg h1]
      by_cases h : k = k''
      · subst h
        have : ¬ k = k' := h1
        simp [List.lookup, this]
      · have hb : (k == k'') = false := beq_eq_false_iff_ne.mpr h
        simp only [List.lookup, hb, ih]

theorem keys_insertKV_nodup (k : TrainType) (v : SpeedSet α) (m : List (TrainType × SpeedSet α))
    (h : (m.map Prod.fst).Nodup) :
    ((insertKV k v m).map Prod.fst).Nodup ∧
      ∀ x, x ∈ (insertKV k v m).map Prod.fst ↔ (x = k ∨ x ∈ m.map Prod.fst) := by
  induction m with
  | nil => simp [insertKV]
  | cons y t ih =>
    obtain ⟨k', v'⟩ := y
    simp only [List.map_cons, List.nodup_cons] at h
    simp only [insertKV]
    by_cases h1 : k' = k
    · subst h1
      rw [if_pos rfl]
      simp only [List.map_cons, List.nodup_cons, List.mem_cons]
      exact ⟨h, fun x => by tauto⟩
    · rw [if_neg h1]
      obtain ⟨ih1, ih2⟩ := ih h.2
      simp only [List.map_cons, List.nodup_cons, List.mem_cons, ih2]
      refine ⟨⟨?_, ih1⟩, fun x => by tauto⟩
      rintro (e | e)
      · exact h1 e
      · exact h.1 e

theorem foldl_insert_spec (os : List (OldSpeedSet α)) (acc : List (TrainType × SpeedSet α))
    (hacc : (acc.map Prod.fst).Nodup) :
    ((os.foldl (fun m o => insertKV o.trainType (oldToSet o) m) acc).map Prod.fst).Nodup ∧
    ∀ k, (os.foldl (fun m o => insertKV o.trainType (oldToSet o) m) acc).lookup k =
      ((os.reverse.find? (fun o => decide (o.trainType = k))).map oldToSet).or (acc.lookup k) := by
  induction os generalizing acc with
  | nil => simp [hacc]
  | cons o t ih =>
    simp only [List.foldl_cons]
    obtain ⟨i1, i2⟩ := ih (insertKV o.trainType (oldToSet o) acc) (keys_insertKV_nodup _ _ _ hacc).1
    refine ⟨i1, fun k => ?_⟩
    rw [i2 k, lookup_insertKV, List.reverse_cons, List.find?_append]
    cases hf : List.find? (fun o => decide (o.trainType = k)) t.reverse with
    | some o' => simp
    | none =>
      by_cases h : k = o.trainType
      · subst h; simp
      · have : decide (o.trainType = k) = false := by simpa using fun e => h e.symm
        simp [h, this]

theorem C16_legacy_last_wins : C16_legacy_last_wins_statement (α := α) := by
  intro os
  obtain ⟨h1, h2⟩ := foldl_insert_spec os [] (by simp)
  refine ⟨h1, fun k => ?_⟩
  unfold fromOldSets
  rw [h2 k]; simp

/-! ## Non-vacuity: concrete networks over ℚ -/

section examples

def cQ : NumCfg ℚ := { zero := 0, rev := 3141592653589793 / 500000000000000, isInt := fun q => q.den == 1 }

def exSet : SpeedSet ℚ :=
  { speedLimits := [⟨.fin 0, .fin 100, .fin 20⟩, ⟨.fin 0, .fin 250, .fin 15⟩, ⟨.fin 50, .fin 250, .posInf⟩],
    speedParams := [⟨.fin 400, .axleCount, .tpGreaterThanRp⟩], isHeadEnd := true }

def exDummy : Link ℚ :=
  { idxCurr := 0, idxFlip := 0, idxNext := 0, idxNextAlt := 0, idxPrev := 0, idxPrevAlt := 0,
    osmId := none, length := .fin 0, elevs := [], headings := [], speedSets := [], speedSet := none,
    catPowerLimits := [], lockout := [] }

def exLink (curr flip next prev : Nat) : Link ℚ :=
  { idxCurr := curr, idxFlip := flip, idxNext := next, idxNextAlt := 0, idxPrev := prev,
    idxPrevAlt := 0, osmId := some "w", length := .fin 250,
    elevs := [⟨.fin 0, .fin 10⟩, ⟨.fin 125, .fin (21 / 2)⟩, ⟨.fin 250, .fin 9⟩],
    headings := [⟨.fin 0, .fin 1, none, none⟩, ⟨.fin 250, .fin 6, some .nan, none⟩],
    speedSets := [(.freight, exSet), (.passenger, exSet)], speedSet := none,
    catPowerLimits := [⟨.fin 0, .fin 100, .fin 1000000, none⟩, ⟨.fin 100, .fin 250, .posInf, some "d"⟩],
    lockout := [7] }

/-- two physical links, each with its reverse twin -/
def exNet : List (Link ℚ) :=
  [exDummy, exLink 1 3 2 0, exLink 2 4 0 1, exLink 3 1 0 4, exLink 4 2 3 0]

example : validateNet cQ exNet = .ok := by decide +kernel
/-- `C16_validate_iff` is not vacuous: the example network is consistent -/
example : Consistent cQ exNet := (C16_validate_iff cQ exNet).mp (by decide +kernel)
/-- a reference outside the network: an error, not a panic -/
example : validateNet cQ (exNet.set 2 (exLink 2 4 9 1)) = .err := by decide +kernel
example : validateNet cQ (exNet.set 2 (exLink 2 4 9 1)) = .err :=
  C16_out_of_range_is_error cQ _ 2 (exLink 2 4 9 1) (by decide) (by rfl) (by decide +kernel)
/-- NaN length: an error -/
example : validateNet cQ (exNet.set 2 { exLink 2 4 0 1 with length := .nan }) = .err := by
  decide +kernel
/-- overlapping catenary sections: an error; overlapping speed restrictions are fine (above) -/
example : validateNet cQ (exNet.set 1 { exLink 1 3 2 0 with
    catPowerLimits := [⟨.fin 0, .fin 100, .fin 1, none⟩, ⟨.fin 50, .fin 250, .fin 1, none⟩] }) = .err := by
  decide +kernel
/-- the legacy layout of the example network converts back to it, shadowed duplicates lose -/
theorem exNet_legacy : LegacyExpressible exNet := by
  intro l hl
  simp only [exNet, List.mem_cons, List.not_mem_nil, or_false] at hl
  rcases hl with rfl | rfl | rfl | rfl | rfl <;> exact ⟨rfl, by decide⟩
example : fromOld (toOld exNet) = exNet := C16_legacy_roundtrip exNet exNet_legacy
example : (fromOldSets [⟨[], [], .freight, true⟩, ⟨exSet.speedLimits, [], .passenger, false⟩,
    ⟨exSet.speedLimits, [], .freight, false⟩] : List (TrainType × SpeedSet ℚ)).lookup .freight =
    some ⟨exSet.speedLimits, [], false⟩ := by rfl
/-- hash-map order: swapping the two map entries of a link -/
example : NetEquiv exNet (exNet.set 1 { exLink 1 3 2 0 with
    speedSets := [(.passenger, exSet), (.freight, exSet)] }) := by
  unfold NetEquiv exNet
  simp only [List.set_cons_succ, List.set_cons_zero]
  refine List.Forall₂.cons ⟨_, List.Perm.refl _, rfl⟩ (List.Forall₂.cons ⟨_, ?_, rfl⟩
    ((NetEquiv.refl _)))
  exact List.Perm.swap _ _ _

end examples

end Altrios.Proofs.C16
